// Command c06 checks property C06 (vector lanes are independent and obey
// EXEC; scalar instructions ignore EXEC) on the real ALUs of amd/emu and
// amd/emu/cdna3.  It implements emu.InstEmuState itself (a recording state
// whose storage is a real emu.Wavefront under complete harness control) and an
// emu.StorageAccessor that logs, enumerates every implemented handler, and
// evaluates three monitors on what the implementation did:
//
//	(i)   trace discipline, (ii) metamorphic lane permutation,
//	(iii) a Coq term per representative case for the correspondence with
//	      VIsa.Lanes.seq_loop.
package main

import (
	"encoding/json"
	"flag"
	"fmt"
	"io"
	"log"
	"math"
	"os"
	"regexp"
	"runtime/debug"
	"sort"
	"strings"
	"syscall"
	"unsafe"

	"github.com/sarchlab/akita/v4/mem/vm"
	"github.com/sarchlab/mgpusim/v4/amd/emu"
	"github.com/sarchlab/mgpusim/v4/amd/emu/cdna3"
	"github.com/sarchlab/mgpusim/v4/amd/insts"

	"verifharness/vh"
)

const (
	nLanes  = 64
	nVRegs  = 12 // VGPRs per lane under harness control (v0..v11)
	nSRegs  = 32 // SGPRs under harness control (s0..s31)
	ldsSize = 65536
)

// ---------------------------------------------------------------- recording state

type access struct {
	W     bool   `json:"w"`
	Kind  string `json:"k"` // v s vcc exec m0 scc const other
	Reg   int    `json:"r"`
	Cnt   int    `json:"c"`
	Lane  int    `json:"l"`
	Bytes int    `json:"b,omitempty"`
}

type memAccess struct {
	W    bool   `json:"w"`
	Addr uint64 `json:"a"`
	N    int    `json:"n"`
	Lane int    `json:"l"` // lane of the latest vector register access
}

// recState implements emu.InstEmuState.  Register storage and the operand
// read/write semantics are those of the repository's own emu.Wavefront; every
// call is logged.
type recState struct {
	wf       *emu.Wavefront
	inst     *insts.Inst
	log      []access
	curLane  int
	execRead bool
	execWr   bool
}

func newRecState() *recState {
	return &recState{wf: emu.NewWavefront(nil), curLane: -1}
}

func classify(o *insts.Operand) (string, int) {
	if o == nil {
		return "nil", 0
	}
	if o.OperandType != insts.RegOperand {
		return "const", 0
	}
	r := o.Register
	switch {
	case r.IsVReg():
		return "v", r.RegIndex()
	case r.IsSReg():
		return "s", r.RegIndex()
	}
	switch r.RegType {
	case insts.VCC, insts.VCCLO, insts.VCCHI:
		return "vcc", int(r.RegType - insts.VCCLO)
	case insts.EXEC, insts.EXECLO, insts.EXECHI:
		return "exec", 0
	case insts.M0:
		return "m0", 0
	case insts.SCC:
		return "scc", 0
	}
	return "other", int(r.RegType)
}

func (s *recState) note(o *insts.Operand, lane int, w bool, nb int) {
	k, r := classify(o)
	cnt := 0
	if o != nil {
		cnt = o.RegCount
	}
	s.log = append(s.log, access{W: w, Kind: k, Reg: r, Cnt: cnt, Lane: lane, Bytes: nb})
	if k == "v" {
		s.curLane = lane
	}
	if k == "exec" {
		if w {
			s.execWr = true
		} else {
			s.execRead = true
		}
	}
}

func (s *recState) PID() vm.PID       { return 1 }
func (s *recState) Inst() *insts.Inst { return s.inst }
func (s *recState) ReadOperand(o *insts.Operand, lane int) uint64 {
	s.note(o, lane, false, 0)
	return s.wf.ReadOperand(o, lane)
}
func (s *recState) WriteOperand(o *insts.Operand, lane int, v uint64) {
	s.note(o, lane, true, 0)
	s.wf.WriteOperand(o, lane, v)
}
func (s *recState) ReadOperandBytes(o *insts.Operand, lane int, n int) []byte {
	s.note(o, lane, false, n)
	b := s.wf.ReadOperandBytes(o, lane, n)
	return append([]byte(nil), b...)
}
func (s *recState) WriteOperandBytes(o *insts.Operand, lane int, d []byte) {
	s.note(o, lane, true, len(d))
	s.wf.WriteOperandBytes(o, lane, append([]byte(nil), d...))
}
func (s *recState) EXEC() uint64 { s.execRead = true; return s.wf.EXEC() }
func (s *recState) SetEXEC(v uint64) {
	s.execWr = true
	s.wf.SetEXEC(v)
}
func (s *recState) VCC() uint64     { return s.wf.VCC() }
func (s *recState) SetVCC(v uint64) { s.wf.SetVCC(v) }
func (s *recState) SCC() byte       { return s.wf.SCC() }
func (s *recState) SetSCC(v byte)   { s.wf.SetSCC(v) }
func (s *recState) PC() uint64      { return s.wf.PC() }
func (s *recState) SetPC(v uint64)  { s.wf.SetPC(v) }

// memStub is an emu.StorageAccessor over a sparse byte map whose untouched
// bytes have a fixed pseudo-random content.
type memStub struct {
	data map[uint64]byte
	init map[uint64]byte // content seen by the first read of an address
	log  []memAccess
	st   *recState
}

func defByte(a uint64) byte {
	z := a*0x9e3779b97f4a7c15 + 0x1234567
	z = (z ^ (z >> 29)) * 0xbf58476d1ce4e5b9
	return byte(z >> 40)
}

func (m *memStub) get(a uint64) byte {
	if b, ok := m.data[a]; ok {
		return b
	}
	return defByte(a)
}

func (m *memStub) Read(pid vm.PID, addr, n uint64) []byte {
	m.log = append(m.log, memAccess{false, addr, int(n), m.st.curLane})
	out := make([]byte, n)
	for i := uint64(0); i < n; i++ {
		out[i] = m.get(addr + i)
		if _, ok := m.init[addr+i]; !ok {
			m.init[addr+i] = out[i]
		}
	}
	return out
}

func (m *memStub) Write(pid vm.PID, addr uint64, d []byte) {
	m.log = append(m.log, memAccess{true, addr, len(d), m.st.curLane})
	for i, b := range d {
		m.data[addr+uint64(i)] = b
	}
}

// ---------------------------------------------------------------- cases

// Spec is a complete, replayable input.
type Spec struct {
	ALU    string   `json:"alu"` // gcn3 | cdna3
	Fmt    string   `json:"fmt"`
	Opcode int      `json:"opcode"`
	Name   string   `json:"name"`
	Words  []uint32 `json:"words"`
	Direct bool     `json:"direct,omitempty"` // opcode patched after decoding Words (handler unreachable through the decoder)
	Scalar bool     `json:"scalar,omitempty"`

	Exec  uint64     `json:"exec"`
	Exec2 uint64     `json:"exec2,omitempty"` // scalar: the second EXEC value
	VCC   uint64     `json:"vcc"`
	SCC   uint8      `json:"scc"`
	M0    uint32     `json:"m0"`
	PC    uint64     `json:"pc"`
	SGPR  []uint32   `json:"sgpr"`
	VGPR  [][]uint32 `json:"vgpr"` // [lane][reg]
	Perm  []int      `json:"perm,omitempty"`
	Mask  int        `json:"mask"`  // SGPR pair read as a per-lane mask (-1: none)
	LDSSz int        `json:"ldssz"` // LDS bytes
	Corr  string     `json:"corr,omitempty"`
	Excpt bool       `json:"exception,omitempty"`
}

// Outcome of one Run.
type outcome struct {
	Panic string
	Exec  uint64
	VCC   uint64
	SCC   uint8
	M0    uint32
	PC    uint64
	SGPR  []uint32
	VGPR  [][]uint32
	LDS   []byte
	Mem   map[uint64]byte
	Init  map[uint64]byte
	Log   []access
	MLog  []memAccess
	ExecR bool
	ExecW bool
	// offset of an access that hit the protected part of the LDS (-1: none)
	LDSFault int
}

type Result struct {
	Spec     Spec   `json:"spec"`
	Kind     string `json:"kind,omitempty"` // discipline | metamorphic | scalar
	Fail     string `json:"fail,omitempty"`
	Crash    string `json:"crash,omitempty"`
	Coq      string `json:"coq,omitempty"`
	NonTriv  bool   `json:"nontrivial"`
	Overlap  bool   `json:"overlap,omitempty"`
	ExecRead bool   `json:"exec_read,omitempty"`
}

var (
	disGCN3  = insts.NewDisassembler()
	disCDNA3 = func() *insts.Disassembler { d := insts.NewDisassembler(); d.IsCDNA3 = true; return d }()
)

func disFor(alu string) *insts.Disassembler {
	if alu == "cdna3" {
		return disCDNA3
	}
	return disGCN3
}

var fmtByName = map[string]insts.FormatType{
	"vop1": insts.VOP1, "vop2": insts.VOP2, "vopc": insts.VOPC, "vop3a": insts.VOP3a, "vop3b": insts.VOP3b,
	"ds": insts.DS, "flat": insts.FLAT, "sop1": insts.SOP1, "sop2": insts.SOP2, "sopc": insts.SOPC,
	"sopk": insts.SOPK, "sopp": insts.SOPP, "smem": insts.SMEM,
}

func wordsToBytes(ws []uint32) []byte {
	b := make([]byte, 0, 12)
	for _, w := range ws {
		b = append(b, byte(w), byte(w>>8), byte(w>>16), byte(w>>24))
	}
	// padding so that a literal can always be fetched
	return append(b, 0, 0, 0, 0, 0, 0, 0, 0)
}

// decode builds the instruction of a spec (nil if it cannot be built).
func decode(sp *Spec) (inst *insts.Inst, err error) {
	defer func() {
		if x := recover(); x != nil {
			inst, err = nil, fmt.Errorf("decoder panic: %v", x)
		}
	}()
	inst, err = disFor(sp.ALU).Decode(wordsToBytes(sp.Words))
	if err != nil {
		return nil, err
	}
	ft := fmtByName[sp.Fmt]
	if inst.FormatType == insts.VOP3b && inst.Src2 == nil && len(sp.Words) > 1 {
		// The decode table gives some VOP3b rows (v_subb_u32_e64) a zero SRC2
		// width, so the decoder leaves Src2 nil and the handler cannot run at
		// all.  Build the operand directly from the SRC2 field instead.
		code := int(sp.Words[1] >> 18 & 0x1ff)
		switch {
		case code <= 101:
			inst.Src2 = insts.NewSRegOperand(code, code, 2)
		case code == srcVCC:
			inst.Src2 = insts.NewRegOperand(code, insts.VCCLO, 2)
		case code >= srcVGPR:
			inst.Src2 = insts.NewVRegOperand(code, code-srcVGPR, 1)
		default:
			inst.Src2 = insts.NewIntOperand(code, int64(code)-128)
		}
	}
	if sp.Direct {
		it := *inst.InstType
		it.Opcode = insts.Opcode(sp.Opcode)
		it.Format = insts.FormatTable[ft]
		it.InstName = sp.Name
		inst.InstType = &it
		inst.Format = insts.FormatTable[ft]
		return inst, nil
	}
	if inst.FormatType != ft || int(inst.Opcode) != sp.Opcode {
		return nil, fmt.Errorf("decoded as %s/%d", inst.FormatName, inst.Opcode)
	}
	return inst, nil
}

// ldsArena is a page-aligned 64 KiB mapping used as the LDS of discipline cases.
var ldsArena []byte

func ldsInit(n int) []byte {
	l := make([]byte, n)
	for i := range l {
		l[i] = defByte(uint64(i) ^ 0xabcdef0000)
	}
	return l
}

// execute runs the spec's instruction once on the real ALU.
func execute(sp *Spec, inst *insts.Inst, exec uint64) (o outcome) {
	st := newRecState()
	st.inst = inst
	wf := st.wf
	wf.SetEXEC(exec)
	wf.SetVCC(sp.VCC)
	wf.SetSCC(sp.SCC)
	wf.SetPC(sp.PC)
	wf.M0 = sp.M0
	for i, v := range sp.SGPR {
		putU32(wf.SRegFile[i*4:], v)
	}
	for l := 0; l < nLanes; l++ {
		for r, v := range sp.VGPR[l] {
			putU32(wf.VRegFile[l*1024+r*4:], v)
		}
	}
	ms := &memStub{data: map[uint64]byte{}, init: map[uint64]byte{}, st: st}
	var alu emu.ALU
	if sp.ALU == "cdna3" {
		alu = cdna3.NewALU(ms)
	} else {
		alu = emu.NewALU(ms)
	}
	lds := ldsInit(sp.LDSSz)
	guarded := sp.LDSSz == ldsSize && ldsArena != nil
	if guarded {
		// the LDS is a plain Go slice, so reads cannot be logged; instead the
		// half that only inactive lanes point to is made inaccessible: any
		// read or write there faults and is reported
		copy(ldsArena, lds)
		lds = ldsArena
		if err := syscall.Mprotect(ldsArena[ldsPoison:], syscall.PROT_NONE); err != nil {
			panic(err)
		}
	}
	alu.SetLDS(lds)
	o.LDSFault = -1
	func() {
		defer func() {
			if x := recover(); x != nil {
				o.Panic = fmt.Sprint(x)
				if f, ok := x.(interface{ Addr() uintptr }); ok && guarded {
					base := uintptr(unsafe.Pointer(&ldsArena[0]))
					if f.Addr() >= base && f.Addr() < base+ldsSize {
						o.LDSFault = int(f.Addr() - base)
					}
				}
			}
		}()
		alu.Run(st)
	}()
	if guarded {
		if err := syscall.Mprotect(ldsArena[ldsPoison:], syscall.PROT_READ|syscall.PROT_WRITE); err != nil {
			panic(err)
		}
		lds = append([]byte(nil), ldsArena...)
	}
	o.Exec, o.VCC, o.SCC, o.M0, o.PC = wf.EXEC(), wf.VCC(), wf.SCC(), wf.M0, wf.PC()
	o.SGPR = make([]uint32, 102)
	for i := range o.SGPR {
		o.SGPR[i] = getU32(wf.SRegFile[i*4:])
	}
	o.VGPR = make([][]uint32, nLanes)
	for l := 0; l < nLanes; l++ {
		o.VGPR[l] = make([]uint32, 256)
		for r := 0; r < 256; r++ {
			o.VGPR[l][r] = getU32(wf.VRegFile[l*1024+r*4:])
		}
	}
	o.LDS, o.Mem, o.Init, o.Log, o.MLog = lds, ms.data, ms.init, st.log, ms.log
	o.ExecR, o.ExecW = st.execRead, st.execWr
	return o
}

func putU32(b []byte, v uint32) { b[0], b[1], b[2], b[3] = byte(v), byte(v>>8), byte(v>>16), byte(v>>24) }
func getU32(b []byte) uint32 {
	return uint32(b[0]) | uint32(b[1])<<8 | uint32(b[2])<<16 | uint32(b[3])<<24
}

func bit(m uint64, i int) bool { return m>>uint(i)&1 == 1 }

func permMask(m uint64, p []int) uint64 {
	var r uint64
	for i := 0; i < nLanes; i++ {
		if bit(m, i) {
			r |= 1 << uint(p[i])
		}
	}
	return r
}

// poison tells whether a memory / LDS address belongs to the region that only
// inactive lanes point to.
const (
	flatActiveHi = 0x00007000
	flatPoisonHi = 0x0000f000
	ldsPoison    = 32768
)

func isPoisonMem(a uint64) bool { return a>>32 >= flatPoisonHi-1 || (a&0xffffffff) >= 0x7fff0000 }

// ---------------------------------------------------------------- monitors

var exceptionRe = regexp.MustCompile(`readfirstlane|readlane|writelane|swizzle|permute|_dpp|mbcnt`)

// discipline: monitor (i).
func discipline(sp *Spec, o *outcome) string {
	for _, a := range o.Log {
		if a.Kind != "v" {
			continue
		}
		if a.Lane < 0 || a.Lane >= nLanes {
			return fmt.Sprintf("vector register v%d accessed with lane index %d", a.Reg, a.Lane)
		}
		if !bit(sp.Exec, a.Lane) {
			what := "read"
			if a.W {
				what = "written"
			}
			return fmt.Sprintf("v%d of lane %d %s although EXEC bit %d is clear", a.Reg, a.Lane, what, a.Lane)
		}
	}
	for l := 0; l < nLanes; l++ {
		if bit(sp.Exec, l) {
			continue
		}
		for r := 0; r < 256; r++ {
			var was uint32
			if r < len(sp.VGPR[l]) {
				was = sp.VGPR[l][r]
			}
			if o.VGPR[l][r] != was {
				return fmt.Sprintf("inactive lane %d: v%d changed from %#x to %#x", l, r, was, o.VGPR[l][r])
			}
		}
	}
	for _, m := range o.MLog {
		if sp.Exec == 0 {
			return fmt.Sprintf("memory access at %#x with EXEC = 0", m.Addr)
		}
		if isPoisonMem(m.Addr) || isPoisonMem(m.Addr+uint64(m.N)-1) {
			return fmt.Sprintf("memory access at %#x (%d bytes): the address of an inactive lane", m.Addr, m.N)
		}
		if m.Lane < 0 || !bit(sp.Exec, m.Lane) {
			return fmt.Sprintf("memory access at %#x not preceded by a register access of an active lane", m.Addr)
		}
	}
	if sp.LDSSz == ldsSize {
		ref := ldsInit(sp.LDSSz)
		for a := ldsPoison - 64; a < sp.LDSSz; a++ {
			if o.LDS[a] != ref[a] {
				return fmt.Sprintf("LDS byte %#x (region addressed only by inactive lanes) was modified", a)
			}
		}
		if sp.Exec == 0 {
			for a := range ref {
				if o.LDS[a] != ref[a] {
					return fmt.Sprintf("LDS byte %#x modified with EXEC = 0", a)
				}
			}
		}
	}
	return ""
}

type wrange struct {
	lo, hi uint64
	lane   int
}

// storesOverlap: do two different lanes write intersecting byte ranges?
func storesOverlap(o *outcome, ldsW []wrange) bool {
	var rs []wrange
	for _, m := range o.MLog {
		if m.W {
			rs = append(rs, wrange{m.Addr, m.Addr + uint64(m.N), m.Lane})
		}
	}
	rs = append(rs, ldsW...)
	sort.Slice(rs, func(i, j int) bool { return rs[i].lo < rs[j].lo })
	for i := range rs {
		for j := i + 1; j < len(rs) && rs[j].lo < rs[i].hi; j++ {
			if rs[i].lane != rs[j].lane {
				return true
			}
		}
	}
	return false
}

// ldsWrites reconstructs the LDS byte ranges written per lane from the
// instruction (only used to decide whether the store-equivariance premise
// "pairwise distinct addresses" holds).
func ldsWrites(sp *Spec, inst *insts.Inst) []wrange {
	if inst.FormatType != insts.DS || inst.Data == nil || inst.Addr == nil {
		return nil
	}
	var rs []wrange
	// bytes one element really occupies (ds_write_b8 stores one byte: lanes
	// that hit different bytes of one dword do NOT collide)
	width := uint64(accessWidth(inst))
	ai := inst.Addr.Register.RegIndex()
	for l := 0; l < nLanes; l++ {
		if !bit(sp.Exec, l) {
			continue
		}
		base := uint64(sp.VGPR[l][ai])
		if inst.Data1 != nil {
			rs = append(rs, wrange{base + uint64(inst.Offset0)*width, base + uint64(inst.Offset0)*width + width, l})
			rs = append(rs, wrange{base + uint64(inst.Offset1)*width, base + uint64(inst.Offset1)*width + width, l})
		} else {
			rs = append(rs, wrange{base + uint64(inst.Offset0), base + uint64(inst.Offset0) + width, l})
		}
	}
	return rs
}

func permuteSpec(sp *Spec) Spec {
	q := *sp
	p := sp.Perm
	q.Exec = permMask(sp.Exec, p)
	q.VCC = permMask(sp.VCC, p)
	q.VGPR = make([][]uint32, nLanes)
	for i := 0; i < nLanes; i++ {
		q.VGPR[p[i]] = sp.VGPR[i]
	}
	q.SGPR = append([]uint32(nil), sp.SGPR...)
	if sp.Mask >= 0 {
		m := uint64(sp.SGPR[sp.Mask]) | uint64(sp.SGPR[sp.Mask+1])<<32
		m = permMask(m, p)
		q.SGPR[sp.Mask], q.SGPR[sp.Mask+1] = uint32(m), uint32(m>>32)
	}
	return q
}

// metamorphic: monitor (ii).  o1 = run on sp, o2 = run on the permuted spec.
func metamorphic(sp *Spec, inst *insts.Inst, o1, o2 *outcome) (fail string, overlap bool) {
	p := sp.Perm
	if (o1.Panic != "") != (o2.Panic != "") {
		return fmt.Sprintf("panic behaviour depends on the lane order: %q vs %q", o1.Panic, o2.Panic), false
	}
	if o1.Panic != "" {
		return "", false
	}
	for i := 0; i < nLanes; i++ {
		for r := 0; r < 256; r++ {
			if o1.VGPR[i][r] != o2.VGPR[p[i]][r] {
				return fmt.Sprintf("v%d: lane %d gives %#x, the same inputs in lane %d give %#x",
					r, i, o1.VGPR[i][r], p[i], o2.VGPR[p[i]][r]), false
			}
		}
	}
	if permMask(o1.VCC, p) != o2.VCC {
		return fmt.Sprintf("VCC %#x is not the lane permutation of %#x (expected %#x)", o2.VCC, o1.VCC, permMask(o1.VCC, p)), false
	}
	if permMask(o1.Exec, p) != o2.Exec {
		return fmt.Sprintf("EXEC %#x is not the lane permutation of %#x", o2.Exec, o1.Exec), false
	}
	if o1.SCC != o2.SCC || o1.PC != o2.PC || o1.M0 != o2.M0 {
		return "SCC/PC/M0 differ between the two runs", false
	}
	// SGPRs written by a vector instruction are per-lane masks (64 bit)
	isMask := map[int]bool{}
	for _, a := range o1.Log {
		if a.W && a.Kind == "s" {
			isMask[a.Reg] = true
		}
	}
	if sp.Mask >= 0 {
		isMask[sp.Mask] = true
	}
	for r := 0; r < 102; r++ {
		if isMask[r] && r+1 < 102 {
			m1 := uint64(o1.SGPR[r]) | uint64(o1.SGPR[r+1])<<32
			m2 := uint64(o2.SGPR[r]) | uint64(o2.SGPR[r+1])<<32
			if permMask(m1, p) != m2 {
				return fmt.Sprintf("s[%d:%d] = %#x is not the lane permutation of %#x (expected %#x)", r, r+1, m2, m1, permMask(m1, p)), false
			}
			r++
			continue
		}
		if o1.SGPR[r] != o2.SGPR[r] {
			return fmt.Sprintf("s%d differs: %#x vs %#x", r, o1.SGPR[r], o2.SGPR[r]), false
		}
	}
	overlap = storesOverlap(o1, ldsWrites(sp, inst))
	if !overlap {
		if len(o1.Mem) != len(o2.Mem) {
			return "the sets of written memory bytes differ", false
		}
		for a, b := range o1.Mem {
			if b2, ok := o2.Mem[a]; !ok || b2 != b {
				return fmt.Sprintf("memory byte %#x: %#x vs %#x after permuting lanes", a, b, b2), false
			}
		}
		for a := range o1.LDS {
			if o1.LDS[a] != o2.LDS[a] {
				return fmt.Sprintf("LDS byte %#x: %#x vs %#x after permuting lanes", a, o1.LDS[a], o2.LDS[a]), false
			}
		}
	}
	// the multiset of loads is the same
	k := func(l []memAccess) []string {
		var s []string
		for _, m := range l {
			if !m.W {
				s = append(s, fmt.Sprintf("%x/%d", m.Addr, m.N))
			}
		}
		sort.Strings(s)
		return s
	}
	a, b := k(o1.MLog), k(o2.MLog)
	if strings.Join(a, ",") != strings.Join(b, ",") {
		return "the multiset of memory loads changes under lane permutation", overlap
	}
	return "", overlap
}

func notImplemented(msg string) bool {
	return strings.Contains(msg, "is not implemented") && strings.HasPrefix(msg, "Opcode") ||
		strings.Contains(msg, "is not supported") && strings.HasPrefix(msg, "Inst format")
}

// variantUnsupported: the handler exists but refuses this encoding variant.
func variantUnsupported(msg string) bool {
	return strings.HasPrefix(msg, "SDWA for") || strings.Contains(msg, "Output modifiers are not supported") ||
		strings.Contains(msg, "Cannot write to non-register operand")
}

// runVectorCase evaluates monitors (i) and (ii) on one spec.
func runVectorCase(sp Spec) Result {
	res := Result{Spec: sp}
	inst, err := decode(&sp)
	if err != nil {
		res.Crash = "decode: " + err.Error()
		return res
	}
	o1 := execute(&sp, inst, sp.Exec)
	if o1.Panic != "" {
		res.Crash = o1.Panic
	}
	res.NonTriv = sp.Exec != 0 && sp.Exec != ^uint64(0) && o1.Panic == ""
	if sp.Excpt {
		return res
	}
	if o1.LDSFault >= 0 {
		res.Kind = "discipline"
		res.Fail = fmt.Sprintf("LDS byte %#x accessed (read or write): only inactive lanes point into that region", o1.LDSFault)
		return res
	}
	if o1.Panic == "" {
		if f := discipline(&sp, &o1); f != "" {
			res.Kind, res.Fail = "discipline", f
			return res
		}
	}
	if len(sp.Perm) == nLanes {
		q := permuteSpec(&sp)
		o2 := execute(&q, inst, q.Exec)
		f, ov := metamorphic(&sp, inst, &o1, &o2)
		res.Overlap = ov
		if f != "" {
			res.Kind, res.Fail = "metamorphic", f
			return res
		}
	}
	if sp.Corr != "" && o1.Panic == "" {
		res.Coq = coqCase(&sp, inst, &o1)
	}
	return res
}

// runScalarCase: the result of a scalar instruction does not depend on EXEC.
func runScalarCase(sp Spec) Result {
	res := Result{Spec: sp}
	inst, err := decode(&sp)
	if err != nil {
		res.Crash = "decode: " + err.Error()
		return res
	}
	o1 := execute(&sp, inst, sp.Exec)
	o2 := execute(&sp, inst, sp.Exec2)
	res.ExecRead = o1.ExecR || o2.ExecR
	res.NonTriv = o1.Panic == "" && sp.Exec != sp.Exec2
	if o1.Panic != "" {
		res.Crash = o1.Panic
	}
	if sp.Excpt {
		return res
	}
	res.Kind = "scalar"
	if res.ExecRead {
		res.Fail = "the handler reads EXEC although the instruction is not documented to depend on it"
		return res
	}
	if o1.Panic != o2.Panic {
		res.Fail = fmt.Sprintf("panic depends on EXEC: %q vs %q", o1.Panic, o2.Panic)
		return res
	}
	if o1.Panic != "" {
		res.Kind = ""
		return res
	}
	switch {
	case o1.ExecW != o2.ExecW:
		res.Fail = "EXEC is written under one EXEC value only"
	case o1.ExecW && o1.Exec != o2.Exec:
		res.Fail = fmt.Sprintf("EXEC result depends on the old EXEC: %#x vs %#x", o1.Exec, o2.Exec)
	case !o1.ExecW && (o1.Exec != sp.Exec || o2.Exec != sp.Exec2):
		res.Fail = "EXEC changed without a recorded write"
	case o1.VCC != o2.VCC || o1.SCC != o2.SCC || o1.PC != o2.PC || o1.M0 != o2.M0:
		res.Fail = fmt.Sprintf("VCC/SCC/PC/M0 depend on EXEC: vcc %#x/%#x scc %d/%d pc %#x/%#x", o1.VCC, o2.VCC, o1.SCC, o2.SCC, o1.PC, o2.PC)
	}
	if res.Fail == "" {
		for r := range o1.SGPR {
			if o1.SGPR[r] != o2.SGPR[r] {
				res.Fail = fmt.Sprintf("s%d depends on EXEC: %#x vs %#x", r, o1.SGPR[r], o2.SGPR[r])
				break
			}
		}
	}
	if res.Fail == "" {
		for l := 0; l < nLanes && res.Fail == ""; l++ {
			for r := 0; r < 256; r++ {
				if o1.VGPR[l][r] != o2.VGPR[l][r] {
					res.Fail = "a scalar instruction changed a VGPR depending on EXEC"
					break
				}
			}
		}
	}
	if res.Fail == "" && (len(o1.MLog) != len(o2.MLog) || fmt.Sprint(o1.MLog) != fmt.Sprint(o2.MLog)) {
		res.Fail = "memory accesses depend on EXEC"
	}
	if res.Fail == "" {
		res.Kind = ""
	}
	return res
}

// ---------------------------------------------------------------- enumeration of handlers

type Handler struct {
	ALU    string `json:"alu"`
	Fmt    string `json:"fmt"`
	Opcode int    `json:"opcode"`
	Name   string `json:"name"`
	Direct bool   `json:"direct,omitempty"`
	Scalar bool   `json:"scalar,omitempty"`
	Excpt  bool   `json:"exception,omitempty"`
	// statistics filled by the run
	Cases   int `json:"cases"`
	Disc    int `json:"discipline_checked"`
	Meta    int `json:"metamorphic_checked"`
	Corr    int `json:"correspondence_cases"`
	Crashes int `json:"crashes"`
	Overlap int `json:"overlap_cases"`
	NonTriv int `json:"nontrivial"`
}

var vectorFmts = []struct {
	name string
	bits uint
	tmpl int // decodable opcode used as operand template for handlers the decoder cannot reach
}{{"vop1", 8, 1}, {"vop2", 6, 1}, {"vopc", 8, 0xca}, {"vop3a", 10, 449}, {"vop3b", 10, 481}, {"ds", 8, 54}, {"flat", 7, 20}}

var scalarFmts = []struct {
	name string
	bits uint
}{{"sop2", 7}, {"sopk", 5}, {"sop1", 8}, {"sopc", 7}, {"sopp", 7}, {"smem", 8}}

var scalarDocRe = regexp.MustCompile(`saveexec|cbranch_exec`)

func plainSpec(alu, f string, op int) Spec {
	sp := Spec{ALU: alu, Fmt: f, Opcode: op, Exec: ^uint64(0), Mask: -1, LDSSz: ldsSize, PC: 0x1000}
	sp.SGPR = make([]uint32, nSRegs)
	sp.VGPR = make([][]uint32, nLanes)
	for l := range sp.VGPR {
		sp.VGPR[l] = make([]uint32, nVRegs)
		for r := range sp.VGPR[l] {
			sp.VGPR[l][r] = 0x3f800000
		}
	}
	return sp
}

func enumerate() []*Handler {
	var hs []*Handler
	probe := func(sp Spec) (impl bool, name string) {
		inst, err := decode(&sp)
		if err != nil {
			return false, ""
		}
		prepareAddresses(&sp, inst, vh.NewRng(7))
		o := execute(&sp, inst, sp.Exec)
		if o.Panic != "" && notImplemented(o.Panic) {
			return false, inst.InstName
		}
		return true, inst.InstName
	}
	for _, alu := range []string{"gcn3", "cdna3"} {
		for _, vf := range vectorFmts {
			for op := 0; op < 1<<vf.bits; op++ {
				sp := plainSpec(alu, vf.name, op)
				sp.Words = encodeDefault(vf.name, op)
				_, derr := decode(&sp)
				if derr == nil {
					if ok, name := probe(sp); ok {
						hs = append(hs, &Handler{ALU: alu, Fmt: vf.name, Opcode: op, Name: name, Excpt: exceptionRe.MatchString(name)})
					}
					continue
				}
				// not reachable through the decoder: patch the opcode into a template
				sp.Direct = true
				sp.Words = encodeDefault(vf.name, vf.tmpl)
				sp.Name = fmt.Sprintf("%s_op%d_undecodable", vf.name, op)
				if ok, _ := probe(sp); ok {
					hs = append(hs, &Handler{ALU: alu, Fmt: vf.name, Opcode: op, Name: sp.Name, Direct: true})
				}
			}
		}
		for _, sf := range scalarFmts {
			for op := 0; op < 1<<sf.bits; op++ {
				sp := plainSpec(alu, sf.name, op)
				sp.Scalar = true
				sp.Words = encodeDefault(sf.name, op)
				if _, derr := decode(&sp); derr != nil {
					continue
				}
				if ok, name := probe(sp); ok {
					hs = append(hs, &Handler{ALU: alu, Fmt: sf.name, Opcode: op, Name: name, Scalar: true,
						Excpt: scalarDocRe.MatchString(name)})
				}
			}
		}
	}
	return hs
}

// ---------------------------------------------------------------- encoders

const (
	srcVGPR = 256
	srcVCC  = 106
	srcLit  = 255
	srcSDWA = 249
)

func encodeDefault(f string, op int) []uint32 {
	return encode(f, op, fields{src0: srcVGPR + 1, src1: srcVGPR + 2, src2: srcVGPR + 3, vdst: 4, sdst: 20, addr: 6, data0: 2, data1: 8,
		saddr: 0x7f, ssrc0: 2, ssrc1: 3, simm: 4, sbase: 2, soff: 16, imm: true, lit: 0x40490fdb})
}

type fields struct {
	src0, src1, src2  uint32 // 9-bit source codes
	vdst, sdst        uint32
	abs, neg          uint32
	opselLo, opselHi  uint32
	addr, data0, data1 uint32
	off0, off1        uint32
	saddr             uint32
	offset13          uint32
	ssrc0, ssrc1      uint32
	simm              uint32
	sbase, soff       uint32
	imm               bool
	lit               uint32
	sdwa              uint32 // second dword of an SDWA encoding (used when src0 == 249)
}

func encode(f string, op int, x fields) []uint32 {
	o := uint32(op)
	switch f {
	case "vop1":
		return []uint32{0x7e000000 | x.vdst<<17 | o<<9 | x.src0&0x1ff, x.lit}
	case "vop2":
		second := x.lit
		if x.src0 == srcSDWA {
			second = x.sdwa
		}
		return []uint32{o<<25 | x.vdst<<17 | (x.src1&0xff)<<9 | x.src0&0x1ff, second}
	case "vopc":
		return []uint32{0x7c000000 | o<<17 | (x.src1&0xff)<<9 | x.src0&0x1ff, x.lit}
	case "vop3a":
		dst := x.vdst
		if op <= 255 {
			dst = x.sdst
		}
		return []uint32{0xd0000000 | o<<16 | x.opselLo<<11 | x.abs<<8 | dst,
			x.neg<<29 | x.opselHi<<27 | x.src2<<18 | x.src1<<9 | x.src0}
	case "vop3b":
		return []uint32{0xd0000000 | o<<16 | x.sdst<<8 | x.vdst, x.neg<<29 | x.src2<<18 | x.src1<<9 | x.src0}
	case "ds":
		return []uint32{0xd8000000 | o<<17 | x.off1<<8 | x.off0, x.vdst<<24 | x.data1<<16 | x.data0<<8 | x.addr}
	case "flat":
		return []uint32{0xdc000000 | o<<18 | 2<<14 | x.offset13&0x1fff, x.vdst<<24 | x.saddr<<16 | x.data0<<8 | x.addr}
	case "sop2":
		return []uint32{0x80000000 | o<<23 | x.sdst<<16 | x.ssrc1<<8 | x.ssrc0, x.lit}
	case "sopk":
		return []uint32{0xb0000000 | o<<23 | x.sdst<<16 | x.simm&0xffff}
	case "sop1":
		return []uint32{0xbe800000 | x.sdst<<16 | o<<8 | x.ssrc0, x.lit}
	case "sopc":
		return []uint32{0xbf000000 | o<<16 | x.ssrc1<<8 | x.ssrc0, x.lit}
	case "sopp":
		return []uint32{0xbf800000 | o<<16 | x.simm&0xffff}
	case "smem":
		w := 0xc0000000 | o<<18 | x.sdst<<6 | x.sbase>>1
		if x.imm {
			w |= 1 << 17
		}
		return []uint32{w, x.soff & 0xfffff}
	}
	panic("format " + f)
}

// ---------------------------------------------------------------- generators

var corners32 = []uint32{0, 1, 2, 0xffffffff, 0x7fffffff, 0x80000000, 31, 32, 33, 63, 64, 0x3f800000, 0xbf800000,
	0x7f800000, 0xff800000, 0x7fc00000, 1, 0x00800000, 0x7f7fffff, 0x3ff00000, 0x7ff00000, 0x7ff80000, 0x000fffff,
	0x00100000, 0x40000000, 0x4b000000, 0xcf000000, 0x00ffffff, 0x00800000, 0xff, 0xffff, 0x8000}

func randVal(r *vh.Rng) uint32 {
	switch r.Pick(30, 20, 50) {
	case 0:
		return corners32[r.Intn(len(corners32))]
	case 1:
		return uint32(r.Intn(70))
	}
	return uint32(r.U64())
}

func randExec(r *vh.Rng) uint64 {
	switch r.Pick(12, 4, 10, 50, 10, 14) {
	case 0:
		return ^uint64(0)
	case 1:
		return 0
	case 2:
		return 1 << uint(r.Intn(64))
	case 3:
		return r.U64()
	case 4:
		return (uint64(1) << uint(1+r.Intn(63))) - 1
	}
	return r.U64() & r.U64()
}

func randPerm(r *vh.Rng) []int {
	p := make([]int, nLanes)
	for i := range p {
		p[i] = i
	}
	switch r.Pick(70, 15, 15) {
	case 0:
		for i := nLanes - 1; i > 0; i-- {
			j := r.Intn(i + 1)
			p[i], p[j] = p[j], p[i]
		}
	case 1:
		a, b := r.Intn(nLanes), r.Intn(nLanes)
		p[a], p[b] = p[b], p[a]
	case 2:
		k := 1 + r.Intn(63)
		for i := range p {
			p[i] = (i + k) % nLanes
		}
	}
	return p
}

// uniform (non-mask) source: VGPR, SGPR, inline constants, literal
func src9(r *vh.Rng, lit bool, maxV int) uint32 {
	w := []int{50, 20, 12, 8, 0}
	if lit {
		w[4] = 10
	}
	switch r.Pick(w...) {
	case 0:
		return srcVGPR + uint32(r.Intn(maxV+1))
	case 1:
		return uint32(r.Intn(18))
	case 2:
		return 128 + uint32(r.Intn(81))
	case 3:
		return 240 + uint32(r.Intn(8))
	}
	return srcLit
}

var maskSrcOps = map[string]bool{"vop2/0": true, "vop2/28": true, "vop2/29": true, "vop2/30": true,
	"vop3a/256": true, "vop3a/482": true, "vop3a/483": true, "vop3b/284": true, "vop3b/285": true, "vop3b/286": true}

func randomState(sp *Spec, r *vh.Rng) {
	sp.Exec = randExec(r)
	sp.VCC = r.U64()
	if r.Intn(6) == 0 {
		sp.VCC = randExec(r)
	}
	sp.SCC = uint8(r.Intn(2))
	sp.M0 = 0
	if r.Intn(4) == 0 {
		sp.M0 = uint32(r.Intn(4))
	}
	sp.PC = 0x1000 + uint64(r.Intn(64))*4
	sp.SGPR = make([]uint32, nSRegs)
	for i := range sp.SGPR {
		sp.SGPR[i] = randVal(r)
	}
	sp.VGPR = make([][]uint32, nLanes)
	uniformRow := r.Intn(8) == 0
	for l := range sp.VGPR {
		sp.VGPR[l] = make([]uint32, nVRegs)
		for k := range sp.VGPR[l] {
			if uniformRow && l > 0 {
				sp.VGPR[l][k] = sp.VGPR[0][k]
			} else {
				sp.VGPR[l][k] = randVal(r)
			}
		}
	}
}

// prepareAddresses points the address registers of memory / LDS instructions
// of active lanes to valid locations and those of inactive lanes to the poison
// region.
func prepareAddresses(sp *Spec, inst *insts.Inst, r *vh.Rng) {
	if inst.Addr == nil || inst.Addr.Register == nil || !inst.Addr.Register.IsVReg() {
		return
	}
	ai := inst.Addr.Register.RegIndex()
	pool := r.Intn(3) == 0 // few distinct addresses: lanes collide
	stride := uint32(16 << uint(r.Intn(2)))
	order := randPerm(vh.NewRng(r.U64()))
	switch inst.FormatType {
	case insts.DS:
		small := sp.LDSSz < ldsSize
		for l := 0; l < nLanes; l++ {
			var a uint32
			switch {
			case small:
				a = uint32(r.Intn(sp.LDSSz/2-64)) &^ 3
				if !pool {
					a = uint32(order[l]) * 4
				}
			case !bit(sp.Exec, l):
				a = ldsPoison + uint32(r.Intn(4096))
				if r.Intn(8) == 0 {
					a = 0xfffff000 + uint32(r.Intn(2048)) // beyond any LDS allocation
				}
			case pool:
				a = uint32(r.Intn(24)) * 4
			default:
				a = uint32(order[l])*stride + uint32(r.Intn(2))*uint32(r.Intn(4))
			}
			sp.VGPR[l][ai] = a
		}
	case insts.FLAT:
		wide := inst.Addr.RegCount == 2
		if !wide {
			s := int(inst.SAddr.IntValue)
			if s+1 < nSRegs {
				sp.SGPR[s], sp.SGPR[s+1] = 0x40000000+uint32(r.Intn(256))*4, 0x00002000
			}
		}
		for l := 0; l < nLanes; l++ {
			var lo uint32
			if pool {
				lo = 0x1000 + uint32(r.Intn(24))*4
			} else {
				lo = 0x1000 + uint32(order[l])*stride*2 + uint32(r.Intn(2))*uint32(r.Intn(4))
			}
			if wide {
				hi := uint32(flatActiveHi)
				if !bit(sp.Exec, l) && sp.LDSSz == ldsSize {
					hi = flatPoisonHi
				}
				sp.VGPR[l][ai] = lo
				if ai+1 < nVRegs {
					sp.VGPR[l][ai+1] = hi
				}
			} else {
				if !bit(sp.Exec, l) && sp.LDSSz == ldsSize {
					lo |= 0x80000000
				}
				sp.VGPR[l][ai] = lo
			}
		}
	}
}

// structPerm draws from the family of lane permutations that matter for
// memory access patterns.  kind: 0 ends fixed + middle shuffled, 1 reversal,
// 2 bit reversal, 3 swap of two middle lanes, 4 rotation, 5 swap within
// pairs, 6 identity; kind < 0 picks one at random (never the identity).
func structPerm(r *vh.Rng, kind int) []int {
	p := make([]int, nLanes)
	for i := range p {
		p[i] = i
	}
	if kind < 0 {
		kind = r.Pick(30, 15, 15, 15, 15, 10)
	}
	switch kind {
	case 0:
		for i := nLanes - 2; i > 1; i-- {
			j := 1 + r.Intn(i)
			p[i], p[j] = p[j], p[i]
		}
		if p[1] == 1 && p[2] == 2 { // make sure the middle really moves
			p[1], p[2] = 2, 1
		}
	case 1:
		for i := range p {
			p[i] = nLanes - 1 - i
		}
	case 2:
		for i := range p {
			v := 0
			for b := 0; b < 6; b++ {
				v |= (i >> uint(b) & 1) << uint(5-b)
			}
			p[i] = v
		}
	case 3:
		a := 1 + r.Intn(62)
		b := 1 + r.Intn(62)
		if a == b {
			b = 1 + a%62
		}
		p[a], p[b] = p[b], p[a]
	case 4:
		k := 1 + r.Intn(63)
		for i := range p {
			p[i] = (i + k) % nLanes
		}
	case 5:
		for i := range p {
			p[i] = i ^ 1
		}
	}
	return p
}

// Value classes whose members compare equal (or are all unordered) without
// being bit-identical: a handler that caches / compares with float == or keys
// on "is NaN" across lanes mixes them up.
var special32 = [][]uint32{
	{0x00000000, 0x80000000},                                                 // +0.0 -0.0
	{0x7f800000, 0xff800000},                                                 // +Inf -Inf
	{0x7fc00000, 0x7fc00001, 0xffc00000, 0x7f800001, 0xffbfffff, 0x7fffffff}, // NaNs, different payloads / sign / signalling
	{0x00000001, 0x80000001, 0x007fffff, 0x807fffff, 0x00000000, 0x80000000}, // denormals and zeros
	{0x3f800000, 0xbf800000, 0x00000000, 0x80000000, 0x7f800000, 0xff800000, 0x7fc00000, 0xffc00001, 0x00000001, 0x80000001, 0x40000000}, // mixed
}

// the same for the high dword of a double (the low dword is 0 or 1)
var special64hi = [][]uint32{
	{0x00000000, 0x80000000},
	{0x7ff00000, 0xfff00000},
	{0x7ff80000, 0xfff80000, 0x7ff00000, 0xfff00000, 0x7fffffff},
	{0x00000000, 0x80000000, 0x000fffff, 0x800fffff},
	{0x3ff00000, 0xbff00000, 0x00000000, 0x80000000, 0x7ff00000, 0xfff00000, 0x7ff80000, 0xfff80000, 0x40000000},
}

// specialValues fills the vector registers with members of one class,
// independently per lane and register, so that adjacent active lanes (and
// active lanes separated by inactive ones) hold values that are == but not
// identical.  64-bit VGPR sources of the decoded instruction get the class in
// their high dword.  sched 0..5 is a fixed schedule, sched < 0 random.
func specialValues(sp *Spec, inst *insts.Inst, r *vh.Rng, sched int) {
	class := r.Intn(len(special32))
	execKind, piKind := r.Intn(4), -1
	switch sched {
	case 0: // zeros, every lane active, neighbours exchanged
		class, execKind, piKind = 0, 0, 5
	case 1: // zeros, every other lane inactive
		class, execKind, piKind = 0, 1, 3
	case 2:
		class, execKind, piKind = 1, 2, 5
	case 3:
		class, execKind, piKind = 2, 0, 1
	case 4:
		class, execKind, piKind = 3, 2, 5
	case 5:
		class, execKind, piKind = 4, 3, -1
	}
	switch execKind {
	case 0:
		sp.Exec = ^uint64(0)
	case 1:
		sp.Exec = 0x5555555555555555 << uint(r.Intn(2))
	case 2:
		sp.Exec = r.U64() | r.U64()
	case 3:
		sp.Exec = r.U64()
	}
	c32, c64 := special32[class], special64hi[class]
	alternate := sched >= 0 && sched <= 1 // strict +0 / -0 alternation along the lanes
	for l := 0; l < nLanes; l++ {
		for k := range sp.VGPR[l] {
			if alternate {
				sp.VGPR[l][k] = c32[(l+k)%len(c32)]
			} else {
				sp.VGPR[l][k] = c32[r.Intn(len(c32))]
			}
		}
	}
	for _, o := range []*insts.Operand{inst.Src0, inst.Src1, inst.Src2} {
		if o == nil || o.OperandType != insts.RegOperand || !o.Register.IsVReg() || o.RegCount != 2 {
			continue
		}
		ri := o.Register.RegIndex()
		if ri+1 >= nVRegs {
			continue
		}
		for l := 0; l < nLanes; l++ {
			sp.VGPR[l][ri] = uint32(r.Intn(4) / 3) // mostly 0, sometimes 1
			if alternate {
				sp.VGPR[l][ri], sp.VGPR[l][ri+1] = 0, c64[l%len(c64)]
			} else {
				sp.VGPR[l][ri+1] = c64[r.Intn(len(c64))]
			}
		}
	}
	if piKind == 5 && r.Bool() {
		// exchange neighbouring ACTIVE lanes (the neighbours of a lane may be inactive)
		p := make([]int, nLanes)
		for i := range p {
			p[i] = i
		}
		prev := -1
		for i := 0; i < nLanes; i++ {
			if !bit(sp.Exec, i) {
				continue
			}
			if prev < 0 {
				prev = i
			} else {
				p[prev], p[i] = i, prev
				prev = -1
			}
		}
		sp.Perm = p
		return
	}
	sp.Perm = structPerm(r, piKind)
}

const specialScheduled = 6

// accessWidth: bytes of one element a lane moves (the stride of a "coalesced"
// access), from the instruction name.
func accessWidth(inst *insts.Inst) uint32 {
	n := inst.InstName
	for _, e := range []struct {
		suffix string
		w      uint32
	}{{"dwordx4", 16}, {"dwordx3", 12}, {"dwordx2", 8}, {"dword", 4}, {"short", 2}, {"byte", 1},
		{"_b128", 16}, {"_b64", 8}, {"_b32", 4}, {"_b16", 2}, {"_b8", 1}} {
		if strings.Contains(n, e.suffix) {
			return e.w
		}
	}
	return 4
}

// contiguousAddresses lays the lanes out as base + stride*sigma(lane): the
// pattern "ptr + width*global_id" and its permutations (gather / scatter of
// an FFT, reversal, rotation).  With keepInactive the inactive lanes hold
// their contiguous address too, otherwise they point into the poison region.
func contiguousAddresses(sp *Spec, inst *insts.Inst, r *vh.Rng, sigma []int, stride uint32, keepInactive bool) {
	if inst.Addr == nil || inst.Addr.Register == nil || !inst.Addr.Register.IsVReg() {
		return
	}
	ai := inst.Addr.Register.RegIndex()
	guarded := sp.LDSSz == ldsSize
	switch inst.FormatType {
	case insts.DS:
		base := uint32(r.Intn(64)) * 16
		if !guarded {
			if stride > 8 {
				stride = 8
			}
			base = uint32(r.Intn(4)) * 8
		}
		for l := 0; l < nLanes; l++ {
			a := base + stride*uint32(sigma[l])
			if guarded && !bit(sp.Exec, l) && !keepInactive {
				a = ldsPoison + uint32(r.Intn(4096))
			}
			sp.VGPR[l][ai] = a
		}
	case insts.FLAT:
		wide := inst.Addr.RegCount == 2
		if !wide {
			s := int(inst.SAddr.IntValue)
			if s+1 < nSRegs {
				sp.SGPR[s], sp.SGPR[s+1] = 0x40000000+uint32(r.Intn(256))*4, 0x00002000
			}
		}
		base := 0x1000 + uint32(r.Intn(256))*16
		for l := 0; l < nLanes; l++ {
			lo := base + stride*uint32(sigma[l])
			poison := guarded && !bit(sp.Exec, l) && !keepInactive
			if wide {
				hi := uint32(flatActiveHi)
				if poison {
					hi = flatPoisonHi
				}
				sp.VGPR[l][ai] = lo
				if ai+1 < nVRegs {
					sp.VGPR[l][ai+1] = hi
				}
			} else {
				if poison {
					lo |= 0x80000000
				}
				sp.VGPR[l][ai] = lo
			}
		}
	}
}

// contiguousCase turns the spec of a memory / LDS instruction into one of the
// contiguous-pattern cases.  sched 0..7 is a fixed schedule run for every such
// handler (so that the important combinations never depend on luck), sched < 0
// draws everything at random.
func contiguousCase(sp *Spec, inst *insts.Inst, r *vh.Rng, sched int) {
	w := accessWidth(inst)
	stride := w
	sigmaKind, piKind := 6, -1
	exec := ^uint64(0)
	keep := r.Bool()
	switch sched {
	case 0: // the plain coalesced pattern; the permuted run keeps the end lanes
		piKind = 0
	case 1:
		piKind = 3
	case 2: // gather with fixed end lanes in the first run already
		sigmaKind, piKind = 0, 4
	case 3: // descending addresses; the permuted run is ascending
		sigmaKind, piKind = 1, 1
	case 4:
		piKind = 2
	case 5: // dword stride for multi-dword ops; stride 2 for byte ops (every other byte of a dword)
		stride, piKind = 4, 0
		if w == 1 {
			stride = 2
		}
	case 6: // partial EXEC: a prefix, end lanes of the active range kept
		exec, piKind = (uint64(1)<<uint(8+r.Intn(56)))-1, 0
	case 7: // partial EXEC: one middle lane off
		exec, piKind = ^(uint64(1) << uint(1+r.Intn(62))), 0
	default:
		sigmaKind = []int{6, 6, 6, 0, 1, 2, 3, 4, 5}[r.Intn(9)]
		if r.Intn(5) == 0 {
			stride = []uint32{1, 2, 4, 8, 16}[r.Intn(5)]
		}
		switch r.Pick(55, 15, 10, 10, 10) {
		case 1:
			exec = (uint64(1) << uint(1+r.Intn(63))) - 1
		case 2:
			exec = ^(uint64(1) << uint(r.Intn(64)))
		case 3:
			exec = r.U64() | 1 | 1<<63
		case 4:
			exec = r.U64()
		}
	}
	sp.Exec = exec
	contiguousAddresses(sp, inst, r, structPerm(r, sigmaKind), stride, keep)
	sp.Perm = structPerm(r, piKind)
}

func sdwaWord(r *vh.Rng, src0 uint32) uint32 {
	sel := func() uint32 { return uint32(r.Intn(7)) }
	return src0&0xff | sel()<<8 | uint32(r.Intn(3))<<11 | sel()<<16 | sel()<<24
}

// genVector produces the spec of one random case for handler h.
func genVector(h *Handler, r *vh.Rng) Spec { return genVectorN(h, r, -1) }

// contigScheduled is the number of scheduled contiguous-pattern cases that open
// the case stream of every FLAT / DS handler.
const contigScheduled = 8

// genVectorN: case number k of the stream of handler h (k < 0: no schedule).
func genVectorN(h *Handler, r *vh.Rng, k int) Spec {
	sp := Spec{ALU: h.ALU, Fmt: h.Fmt, Opcode: h.Opcode, Name: h.Name, Direct: h.Direct, Mask: -1, LDSSz: ldsSize, Excpt: h.Excpt}
	randomState(&sp, r)
	key := fmt.Sprintf("%s/%d", h.Fmt, h.Opcode)
	x := fields{vdst: uint32(r.Intn(9)), sdst: uint32(20 + 2*r.Intn(3)), saddr: 0x7f, lit: randVal(r)}
	if r.Intn(4) == 0 {
		x.sdst = srcVCC
	}
	lit := h.Fmt == "vop1" || h.Fmt == "vop2" || h.Fmt == "vopc"
	x.src0, x.src1, x.src2 = src9(r, lit, 8), src9(r, false, 8), src9(r, false, 8)
	if h.Fmt == "vop2" || h.Fmt == "vopc" {
		x.src1 = uint32(r.Intn(9)) // VSRC1 is a VGPR number
	}
	if h.Fmt == "vop2" && r.Intn(10) == 0 {
		x.sdwa = sdwaWord(r, uint32(r.Intn(9)))
		x.src0 = srcSDWA
	}
	if h.Fmt == "vop3a" && r.Intn(3) == 0 {
		x.abs, x.neg = uint32(r.Intn(8)), uint32(r.Intn(8))
	}
	if h.Fmt == "vop3a" && h.ALU == "cdna3" && h.Opcode >= 944 && h.Opcode <= 946 {
		x.opselLo, x.opselHi, x.abs = uint32(r.Intn(8)), uint32(r.Intn(4)), 0
		x.neg = uint32(r.Intn(8))
	}
	if maskSrcOps[key] && (h.Fmt == "vop3a" || h.Fmt == "vop3b") && h.Opcode != 482 && h.Opcode != 483 {
		if r.Intn(3) == 0 {
			x.src2 = srcVCC
		} else {
			sp.Mask = 26 + 2*r.Intn(2)
			x.src2 = uint32(sp.Mask)
		}
	}
	op := h.Opcode
	if h.Direct {
		for _, vf := range vectorFmts {
			if vf.name == h.Fmt {
				op = vf.tmpl
			}
		}
	}
	switch h.Fmt {
	case "ds":
		x.addr, x.data0, x.data1 = uint32(r.Intn(nVRegs)), uint32(r.Intn(9)), uint32(r.Intn(9))
		x.off0 = uint32(r.Intn(256))
		x.off1 = uint32(r.Intn(256))
		if r.Intn(3) == 0 {
			x.off0, x.off1 = uint32(r.Intn(4)), uint32(r.Intn(4))
		}
		if corrMode { // the whole (small) LDS is shipped to Coq
			x.off0, x.off1 = uint32(r.Intn(48)), uint32(r.Intn(48))
		}
	case "flat":
		x.addr, x.data0 = uint32(r.Intn(nVRegs-1)), uint32(r.Intn(9))
		if r.Intn(4) == 0 {
			x.saddr = uint32(2 + 2*r.Intn(4))
		}
		if r.Intn(2) == 0 {
			x.offset13 = uint32(r.Intn(64)-16) & 0x1fff
		}
	}
	// Scalar destination overlapping a scalar source (v_cmp_lt_u32 s[4:5], s4, v1 - compilers do reuse the
	// pair): a handler that builds its mask in place in the destination inside the lane loop, or reads a
	// uniform source after it started writing the destination, makes lanes depend on each other only for
	// such register assignments.  Every handler with a scalar destination (VOP3a compares, all VOP3b forms)
	// gets scheduled cases k = 1, 5, 9, .. (variant (k/4)%3: source = low register of the destination pair,
	// = high register, both sources inside the pair resp. destination = the carry-in mask pair) and a
	// quarter of the unscheduled ones.
	overlap := -1
	if ((h.Fmt == "vop3a" && h.Opcode <= 255) || h.Fmt == "vop3b") && !h.Excpt {
		if k >= 0 && k%4 == 1 {
			overlap = (k / 4) % 3
		} else if k < 0 && r.Intn(4) == 0 {
			overlap = r.Intn(3)
		}
	}
	if overlap >= 0 {
		b := uint32(2 * r.Intn(9))
		x.sdst = b
		switch {
		case overlap == 2 && sp.Mask >= 0:
			x.sdst = uint32(sp.Mask)
		case overlap == 2 && x.src2 == srcVCC && maskSrcOps[key]:
			x.sdst = srcVCC
		case overlap == 2:
			x.src0, x.src1 = b, b+1
		case r.Intn(2) == 0:
			x.src0 = b + uint32(overlap)
		default:
			x.src1 = b + uint32(overlap)
		}
	}
	sp.Words = encode(h.Fmt, op, x)
	// combined 16-bit DS offsets must stay small
	if inst, err := decode(&sp); err == nil {
		if inst.FormatType == insts.DS && inst.Offset0 > 2100 {
			x.off1 = 0
			sp.Words = encode(h.Fmt, op, x)
			inst, _ = decode(&sp)
		}
		if inst != nil {
			prepareAddresses(&sp, inst, r)
		}
		sp.Perm = randPerm(r)
		if inst != nil && h.Fmt != "flat" && h.Fmt != "ds" && !h.Excpt {
			if k >= 0 && k < specialScheduled {
				specialValues(&sp, inst, r, k)
			} else if r.Intn(4) == 0 {
				specialValues(&sp, inst, r, -1)
			}
		}
		if overlap >= 0 && r.Intn(2) == 0 {
			// small values next to the accumulating mask bits, so that "compare against what lower lanes left
			// in the destination" changes outcomes
			for l := range sp.VGPR {
				for q := range sp.VGPR[l] {
					sp.VGPR[l][q] = uint32(r.Intn(6))
				}
			}
		}
		if inst != nil && (h.Fmt == "flat" || h.Fmt == "ds") && !h.Excpt {
			if k >= 0 && k < contigScheduled {
				contiguousCase(&sp, inst, r, k)
			} else if r.Intn(3) == 0 {
				contiguousCase(&sp, inst, r, -1)
			}
		}
		return sp
	}
	sp.Perm = randPerm(r)
	return sp
}

func sreg(r *vh.Rng, wide bool) uint32 {
	switch r.Pick(55, 8, 15, 6, 10, 6) {
	case 0:
		return uint32(r.Intn(24))
	case 1:
		return srcVCC
	case 2:
		return 128 + uint32(r.Intn(81))
	case 3:
		return 240 + uint32(r.Intn(8))
	case 4:
		return srcLit
	}
	return 124 // m0
}

func genScalar(h *Handler, r *vh.Rng) Spec {
	sp := Spec{ALU: h.ALU, Fmt: h.Fmt, Opcode: h.Opcode, Name: h.Name, Scalar: true, Mask: -1, LDSSz: ldsSize, Excpt: h.Excpt}
	randomState(&sp, r)
	sp.Exec2 = randExec(r)
	if sp.Exec2 == sp.Exec {
		sp.Exec2 = ^sp.Exec
	}
	if r.Intn(3) == 0 { // the zero / non-zero distinction is what s_cbranch_execz looks at
		sp.Exec, sp.Exec2 = 0, sp.Exec2|1
	}
	x := fields{ssrc0: sreg(r, false), ssrc1: sreg(r, false), sdst: uint32(r.Intn(24)), simm: uint32(r.U64()),
		sbase: uint32(2 * r.Intn(8)), soff: uint32(r.Intn(64)) * 4, imm: r.Intn(3) != 0, lit: randVal(r)}
	if r.Intn(5) == 0 {
		x.sdst = srcVCC
	}
	if x.ssrc0 == srcLit && x.ssrc1 == srcLit {
		x.ssrc1 = 3
	}
	if h.Fmt == "smem" {
		x.sdst = uint32(r.Intn(16))
		if !x.imm {
			x.soff = uint32(r.Intn(24))
		}
	}
	if h.Fmt == "sopp" || h.Fmt == "sopk" {
		x.simm = uint32(r.Intn(64)) - 16
		if r.Intn(3) == 0 {
			x.simm = uint32(r.U64())
		}
	}
	sp.Words = encode(h.Fmt, h.Opcode, x)
	return sp
}

// ---------------------------------------------------------------- correspondence with Coq

// Handlers whose per-lane function exists in Coq: own transcriptions of
// coq/isa/LanesCorr.v (constructor terms of VIsa.LanesCorr.hid) ...
var corrOwn = map[string][]string{
	"gcn3/vop1/1": {"H_mov"}, "cdna3/vop1/1": {"H_mov"},
	"gcn3/vop1/76": {"H_mov"}, // v_log_legacy_f32 is implemented as a move in the GCN3 ALU
	"cdna3/vop1/56": {"H_mov"}, // v_movrelsd_b32 is implemented as a plain move
	"gcn3/vop2/42": {"H_lshlrev_b16"}, "cdna3/vop2/42": {"H_lshlrev_b16"},
	"cdna3/vop2/38": {"H_add_u16"}, "cdna3/vopc/164": {"H_cmp_gt_i16"},
	"gcn3/vop1/43": {"H_not"}, "cdna3/vop1/43": {"H_not"},
	"gcn3/vop2/25": {"H_add_co"}, "gcn3/vop2/52": {"H_add_co"}, "cdna3/vop2/25": {"H_add_co"},
	"gcn3/vop2/26": {"H_sub_co_gcn3"},
	"gcn3/vop2/28": {"H_addc"}, "cdna3/vop2/28": {"H_addc"},
	"gcn3/vop2/0": {"H_cndmask"}, "cdna3/vop2/0": {"H_cndmask"},
	"gcn3/vop3a/256": {"H_cndmask_e64"}, "cdna3/vop3a/256": {"H_cndmask_e64"},
	"gcn3/vop2/18": {"H_lshlrev"}, "cdna3/vop2/18": {"H_lshlrev"},
	"gcn3/vop2/19": {"H_and"}, "cdna3/vop2/19": {"H_and"},
	"gcn3/vopc/201": {"H_cmp_lt_u32"}, "cdna3/vopc/201": {"H_cmp_lt_u32"},
	"gcn3/vopc/202": {"H_cmp_eq_u32"}, "cdna3/vopc/202": {"H_cmp_eq_u32"},
	"gcn3/vop3a/202": {"H_cmp_eq_u32_e64"}, "cdna3/vop3a/202": {"H_cmp_eq_u32_e64"},
	"gcn3/vop3a/201": {"H_cmp_lt_u32_e64"}, "cdna3/vop3a/201": {"H_cmp_lt_u32_e64"},
	"gcn3/vop3a/488": {"H_mad_u64_u32"}, "cdna3/vop3a/488": {"H_mad_u64_u32"},
	"gcn3/vop3a/511": {"H_add3"}, "cdna3/vop3a/511": {"H_add3"},
	"gcn3/vop3b/284": {"H_addc_e64"}, "cdna3/vop3b/284": {"H_addc_e64"},
	"gcn3/vop3b/281": {"H_add_co_e64"}, "cdna3/vop3b/281": {"H_add_co_e64"},
	// FLAT: the GCN3 sub-dword loads fetch 4 bytes, the CDNA3 ones 1 or 2
	"gcn3/flat/16": {"H_flat_load 4 LdU8"}, "cdna3/flat/16": {"H_flat_load 1 LdU8"},
	"gcn3/flat/17": {"H_flat_load 4 LdS8"}, "cdna3/flat/17": {"H_flat_load 1 LdS8"},
	"gcn3/flat/18": {"H_flat_load 4 LdU16"}, "cdna3/flat/18": {"H_flat_load 2 LdU16"},
	"gcn3/flat/20": {"H_flat_load 4 LdRaw"}, "cdna3/flat/20": {"H_flat_load 4 LdRaw"},
	"gcn3/flat/21": {"H_flat_load 8 LdRaw"}, "cdna3/flat/21": {"H_flat_load 8 LdRaw"},
	"gcn3/flat/22": {"H_flat_load 12 LdRaw"}, "cdna3/flat/22": {"H_flat_load 12 LdRaw"},
	"gcn3/flat/23": {"H_flat_load 16 LdRaw"}, "cdna3/flat/23": {"H_flat_load 16 LdRaw"},
	"gcn3/flat/28": {"H_flat_store 4"}, "cdna3/flat/28": {"H_flat_store 4"},
	"gcn3/flat/29": {"H_flat_store 8"}, "cdna3/flat/29": {"H_flat_store 8"},
	"gcn3/flat/30": {"H_flat_store 12"}, "cdna3/flat/30": {"H_flat_store 12"},
	"gcn3/flat/31": {"H_flat_store 16"}, "cdna3/flat/31": {"H_flat_store 16"},
	// DS
	"gcn3/ds/13": {"H_ds_write 4"}, "cdna3/ds/13": {"H_ds_write 4"},
	"gcn3/ds/14": {"H_ds_write2 4"}, "cdna3/ds/14": {"H_ds_write2 4"},
	"gcn3/ds/30": {"H_ds_write 1"}, "cdna3/ds/30": {"H_ds_write 1"},
	"gcn3/ds/54": {"H_ds_read 4 true"}, "cdna3/ds/54": {"H_ds_read 4 true"},
	"gcn3/ds/55": {"H_ds_read2 4"}, "cdna3/ds/55": {"H_ds_read2 4"},
	"gcn3/ds/78": {"H_ds_write2 8"}, "cdna3/ds/78": {"H_ds_write2 8"},
	"gcn3/ds/118": {"H_ds_read 8 true"}, "cdna3/ds/118": {"H_ds_read 8 true"},
	"gcn3/ds/119": {"H_ds_read2 8"}, "cdna3/ds/119": {"H_ds_read2 8"},
	"cdna3/ds/223": {"H_ds_write 16"}, "cdna3/ds/255": {"H_ds_read 16 true"},
	// second round: f32 compares / class / GCN3 min-max on bit patterns (@A, @N = abs / neg fields of the decoded VOP3a word)
	"gcn3/vopc/65": {"H_fcmp FLt 0 0 false"}, "gcn3/vopc/66": {"H_fcmp FEq 0 0 false"}, "gcn3/vopc/67": {"H_fcmp FLe 0 0 false"},
	"gcn3/vopc/68": {"H_fcmp FGt 0 0 false"}, "gcn3/vopc/69": {"H_fcmp FLg 0 0 false"}, "gcn3/vopc/70": {"H_fcmp FGe 0 0 false"},
	"gcn3/vopc/73": {"H_fcmp FNge 0 0 false"}, "gcn3/vopc/74": {"H_fcmp FNlg 0 0 false"}, "gcn3/vopc/75": {"H_fcmp FNgt 0 0 false"},
	"gcn3/vopc/76": {"H_fcmp FNle 0 0 false"}, "gcn3/vopc/77": {"H_fcmp FNeq 0 0 false"}, "gcn3/vopc/78": {"H_fcmp FNlt 0 0 false"},
	"cdna3/vopc/65": {"H_fcmp FLt 0 0 false"}, "cdna3/vopc/66": {"H_fcmp FEq 0 0 false"}, "cdna3/vopc/67": {"H_fcmp FLe 0 0 false"},
	"cdna3/vopc/68": {"H_fcmp FGt 0 0 false"}, "cdna3/vopc/69": {"H_fcmp FLg 0 0 false"}, "cdna3/vopc/70": {"H_fcmp FGe 0 0 false"},
	"cdna3/vopc/75": {"H_fcmp FNgt 0 0 false"}, "cdna3/vopc/78": {"H_fcmp FNlt 0 0 false"},
	"gcn3/vop3a/65": {"H_fcmp FLt @A @N true"}, "gcn3/vop3a/68": {"H_fcmp FGt @A @N true"}, "gcn3/vop3a/77": {"H_fcmp FNeq @A @N true"},
	"gcn3/vop3a/78": {"H_fcmp FNlt @A @N true"},
	"cdna3/vop3a/65": {"H_fcmp FLt @A @N true"}, "cdna3/vop3a/67": {"H_fcmp FLe @A @N true"}, "cdna3/vop3a/68": {"H_fcmp FGt @A @N true"},
	"cdna3/vop3a/70": {"H_fcmp FGe @A @N true"}, "cdna3/vop3a/78": {"H_fcmp FNlt @A @N true"},
	"cdna3/vopc/16": {"H_fclass true 0 0 false"}, "cdna3/vop3a/16": {"H_fclass false @A @N true"}, "gcn3/vop2/10": {"H_fmin_gcn3"},
	"gcn3/vop2/11": {"H_fmax_gcn3"},
	"cdna3/vop2/10": {"H_fmin_cdna3"}, "cdna3/vop2/11": {"H_fmax_cdna3"},
	"gcn3/vop1/28": {"H_ftrunc"}, "cdna3/vop1/28": {"H_ftrunc"},
	"gcn3/vop3a/470": {"H_fmed3 @A @N"}, "cdna3/vop3a/470": {"H_fmed3 @A @N"},
	"gcn3/vop1/16": {"H_cvt_f64_f32"}, "cdna3/vop1/16": {"H_cvt_f64_f32"},
	"gcn3/vop3a/464": {"H_fmin3 @A @N"}, "cdna3/vop3a/464": {"H_fmin3 @A @N"},
	"gcn3/vop3a/467": {"H_fmax3 @A @N"}, "cdna3/vop3a/467": {"H_fmax3 @A @N"},
	"gcn3/vop1/5": {"H_cvt_f32_i32"}, "cdna3/vop1/5": {"H_cvt_f32_i32"},
	"gcn3/vop1/6": {"H_cvt_f32_u32"}, "cdna3/vop1/6": {"H_cvt_f32_u32"},
	"gcn3/vop1/17": {"H_cvt_f32_ubyte0"}, "cdna3/vop1/17": {"H_cvt_f32_ubyte0"},
	"gcn3/vop1/4": {"H_cvt_f64_i32"}, "cdna3/vop1/4": {"H_cvt_f64_i32"}, "cdna3/vop1/22": {"H_cvt_f64_u32"},
}

// ... and the rows of the C03 builder's table coq/isa/ExecImplV.v (vdesc_of),
// reused through LanesCorr.H_v.  A row missing there is reported by the Coq
// checker with code 99 ("not modelled") and only counted.
var corrV = map[string][]int{
	"gcn3/vop2":  {0, 6, 8, 12, 13, 14, 15, 16, 17, 18, 19, 20, 21, 25, 52, 26, 53, 27, 54, 28, 29, 30},
	"cdna3/vop2": {0, 6, 8, 12, 13, 14, 15, 16, 17, 18, 19, 20, 21, 25, 52, 26, 53, 27, 54, 28, 29, 30},
	"gcn3/vop1":  {1, 43, 44, 45}, "cdna3/vop1": {1, 43, 44, 45},
	"gcn3/vopc":  {193, 195, 196, 197, 198, 201, 202, 203, 204, 205, 206, 232, 233, 234, 235, 236, 237, 238, 239},
	"cdna3/vopc": {164, 193, 195, 196, 197, 198, 201, 202, 203, 204, 205, 206, 232, 233, 234, 235, 236, 237, 238, 239},
	"gcn3/vop3a": {193, 195, 196, 198, 201, 202, 203, 204, 205, 206, 233, 256, 450, 451, 456, 457, 462, 465, 466, 468, 469, 471, 472,
		488, 511, 520, 645, 646, 655, 657},
	"cdna3/vop3a": {193, 195, 196, 198, 201, 202, 203, 204, 205, 206, 233, 256, 276, 450, 451, 456, 457, 462, 465, 466, 468, 469, 471, 472,
		488, 509, 510, 511, 512, 520, 645, 646, 655, 657},
	"gcn3/vop3b": {281, 282, 283, 284, 285, 286}, "cdna3/vop3b": {281, 282, 283, 284, 285, 286},
}

var coqFmt = map[string]string{"vop1": "F_VOP1", "vop2": "F_VOP2", "vopc": "F_VOPC", "vop3a": "F_VOP3A", "vop3b": "F_VOP3B"}

// corrIDs lists the Coq handler terms for one implemented handler; the second
// result tells which of them come from the ExecImplV table.
func corrIDs(h *Handler) (ids []string, fromV []bool) {
	key := fmt.Sprintf("%s/%s/%d", h.ALU, h.Fmt, h.Opcode)
	for _, id := range corrOwn[key] {
		ids, fromV = append(ids, id), append(fromV, false)
	}
	for _, op := range corrV[h.ALU+"/"+h.Fmt] {
		if op == h.Opcode {
			arch := "GCN3"
			if h.ALU == "cdna3" {
				arch = "CDNA3"
			}
			ids = append(ids, fmt.Sprintf("H_v IsaState.%s IsaState.%s %d%%Z", arch, coqFmt[h.Fmt], op))
			fromV = append(fromV, true)
		}
	}
	return
}

// coqTable renders the registration table as the Coq file coq/isa/LanesTable.v:
// one entry per (implemented handler, Coq term); @A / @N become the parameters
// of the entry (abs / neg fields of a VOP3a word).
func coqTable(hs []*Handler) string {
	fmts := map[string]string{"vop1": "F_VOP1", "vop2": "F_VOP2", "vopc": "F_VOPC", "vop3a": "F_VOP3A", "vop3b": "F_VOP3B", "ds": "F_DS", "flat": "F_FLAT"}
	var b strings.Builder
	b.WriteString("(** GENERATED by `build/bin/c06 --table` (harness/cmd/c06, maps corrOwn / corrV over the handlers\n" +
		"    enumerated in the real ALUs); tools/checks/c06.py regenerates it on every run and fails when this\n" +
		"    file differs.  One entry per implemented vector handler that has a per-lane function in\n" +
		"    LanesCorr.v: ALU (true = cdna3), format, opcode, and the handler term as a function of the\n" +
		"    abs / neg fields of the instruction word (ignored by all but the VOP3a float forms). *)\n" +
		"From Coq Require Import List NArith ZArith.\nFrom VIsa Require Import Lanes LanesCorr.\nFrom VIsa Require IsaState.\n" +
		"Import ListNotations.\nOpen Scope N_scope.\n\n" +
		"Record tentry := mkT { t_cdna3 : bool; t_fmt : IsaState.format; t_op : N; t_h : N -> N -> hid }.\n\n" +
		"Definition handler_table : list tentry := [\n")
	first := true
	for _, h := range hs {
		if h.Scalar {
			continue
		}
		ids, _ := corrIDs(h)
		for _, id := range ids {
			if !first {
				b.WriteString(";\n")
			}
			first = false
			fn := "fun _ _ => " + id
			if strings.Contains(id, "@A") {
				fn = "fun ab ng => " + strings.ReplaceAll(strings.ReplaceAll(id, "@A", "ab"), "@N", "ng")
			}
			fmt.Fprintf(&b, "  (* %s %s *) mkT %v IsaState.%s %d (%s)", h.ALU, h.Name, h.ALU == "cdna3", fmts[h.Fmt], h.Opcode, fn)
		}
	}
	b.WriteString("\n].\n")
	return b.String()
}

const corrLDS = 1024

var corrMode bool

// corrIdx: number of the correspondence case within its handler (selects the scheduled EXEC mask)
var corrIdx int

func isFloatHid(hid string) bool {
	return (strings.HasPrefix(hid, "H_f") && !strings.HasPrefix(hid, "H_flat")) || strings.HasPrefix(hid, "H_cvt_")
}

// corrFloatCases: correspondence cases per float transcription (one per scheduled EXEC mask)
const corrFloatCases = 6

// genCorr: like genVector but restricted to the operand kinds the Coq model
// of operand access covers (VGPR, SGPR, constants, VCC as mask) and with the
// small LDS that is shipped to Coq completely.
func genCorr(h *Handler, hid string, r *vh.Rng) Spec {
	corrMode = true
	defer func() { corrMode = false }()
	isF := isFloatHid(hid)
	gen := func() Spec {
		if isF { // float transcriptions: half of the cases from the special-value schedule (zeros, Infs, NaNs, denormals in neighbouring lanes)
			return genVectorN(h, r, r.Intn(2*specialScheduled))
		}
		return genVector(h, r)
	}
	sp := gen()
	sp.Corr = hid
	for tries := 0; tries < 50; tries++ {
		inst, err := decode(&sp)
		ok := err == nil && !inst.IsSdwa
		if ok {
			for _, o := range []*insts.Operand{inst.Src0, inst.Src1, inst.Src2, inst.Dst, inst.SDst} {
				k, reg := classify(o)
				if k == "s" && sp.Mask >= 0 && (reg == sp.Mask || reg == sp.Mask+1) && o != inst.Src2 {
					ok = false // the mask pair must not double as a uniform operand
				}
				if k == "vcc" && o.RegCount != 2 && !(o == inst.Src2 || o == inst.SDst || (o == inst.Dst && inst.FormatType == insts.VOP3a)) {
					ok = false
				}
				if k == "m0" || k == "exec" || k == "other" {
					ok = false
				}
			}
		}
		if ok {
			sp.Corr = strings.ReplaceAll(strings.ReplaceAll(hid, "@A", fmt.Sprint(inst.Abs)), "@N", fmt.Sprint(inst.Neg))
			if isF { // scheduled EXEC masks: kept, lane 0 only, lane 63 only, none, all, all with holes
				switch corrIdx % 6 {
				case 1:
					sp.Exec = 1
				case 2:
					sp.Exec = 1 << 63
				case 3:
					sp.Exec = 0
				case 4:
					sp.Exec = ^uint64(0)
				case 5:
					sp.Exec = ^uint64(0) &^ (1<<uint(r.Intn(64)) | 1<<uint(r.Intn(64)) | 3<<uint(r.Intn(62)))
				}
			}
			if inst.FormatType == insts.DS || inst.FormatType == insts.FLAT {
				sp.LDSSz = corrLDS // small LDS shipped to Coq; also switches the poison placement off
				if r.Intn(3) == 0 {
					contiguousCase(&sp, inst, r, -1)
				} else {
					prepareAddresses(&sp, inst, r)
				}
			}
			return sp
		}
		sp = gen()
		sp.Corr = hid
	}
	sp.Corr = ""
	return sp
}

func coqOperand(st *emu.Wavefront, o *insts.Operand) string {
	if o == nil {
		return "ONone"
	}
	k, reg := classify(o)
	switch k {
	case "v":
		return fmt.Sprintf("OV %d%%nat %d%%nat", reg, o.RegCount)
	case "s":
		return fmt.Sprintf("OS %d%%nat %d%%nat", reg, o.RegCount)
	case "vcc":
		return "OVcc"
	case "const":
		return fmt.Sprintf("OC %d", st.ReadOperand(o, 0))
	}
	return "ONone"
}

func coqRows(v [][]uint32, n int) string {
	rows := make([]string, len(v))
	for l := range v {
		xs := make([]string, n)
		for k := 0; k < n; k++ {
			xs[k] = fmt.Sprint(v[l][k])
		}
		rows[l] = "[" + strings.Join(xs, ";") + "]"
	}
	return "[" + strings.Join(rows, ";\n ") + "]"
}

func coqU32s(v []uint32, n int) string {
	xs := make([]string, n)
	for k := 0; k < n; k++ {
		xs[k] = fmt.Sprint(v[k])
	}
	return "[" + strings.Join(xs, ";") + "]"
}

func coqAssoc(m map[uint64]byte) string {
	keys := make([]uint64, 0, len(m))
	for a := range m {
		keys = append(keys, a)
	}
	sort.Slice(keys, func(i, j int) bool { return keys[i] < keys[j] })
	xs := make([]string, len(keys))
	for i, a := range keys {
		xs[i] = fmt.Sprintf("(%d,%d)", a, m[a])
	}
	return "[" + strings.Join(xs, ";") + "]"
}

func coqCase(sp *Spec, inst *insts.Inst, o *outcome) string {
	wf := emu.NewWavefront(nil)
	var b strings.Builder
	sadr := "None"
	if inst.FormatType == insts.FLAT && inst.Addr.RegCount != 2 {
		sadr = fmt.Sprintf("(Some %d%%nat)", inst.SAddr.IntValue)
	}
	var lds0, lds1 string
	if inst.FormatType == insts.DS {
		lds0, lds1 = vh.CoqBytes(ldsInit(sp.LDSSz)), vh.CoqBytes(o.LDS)
	} else {
		lds0, lds1 = "[]", "[]"
	}
	fmt.Fprintf(&b, "mkCase (%s) (%s) (%s) (%s) (%s) (%s) (%s) (%s) (%s) %d %d %s\n %d %d %s\n %s\n %s %s\n",
		sp.Corr, coqOperand(wf, inst.Dst), coqOperand(wf, inst.SDst), coqOperand(wf, inst.Src0), coqOperand(wf, inst.Src1),
		coqOperand(wf, inst.Src2), coqOperand(wf, inst.Addr), coqOperand(wf, inst.Data), coqOperand(wf, inst.Data1),
		inst.Offset0, inst.Offset1, sadr,
		sp.Exec, sp.VCC, coqU32s(sp.SGPR, nSRegs), coqRows(sp.VGPR, nVRegs), coqAssoc(o.Init), lds0)
	fmt.Fprintf(&b, " %d %d %s\n %s\n %s %s", o.Exec, o.VCC, coqU32s(o.SGPR, nSRegs), coqRows(o.VGPR, nVRegs), coqAssoc(o.Mem), lds1)
	return b.String()
}

// ---------------------------------------------------------------- main

type Output struct {
	Handlers   []*Handler `json:"handlers"`
	Violations []Result   `json:"violations"`
	Crashes    []Result   `json:"crash_samples"`
	Coq        []Result   `json:"coq_cases"`
	Samples    []Spec     `json:"samples"`
	Replayed   []Result   `json:"replayed,omitempty"`
	Hashes     int        `json:"distinct_nontrivial"`
}

func main() {
	log.SetOutput(io.Discard)
	debug.SetPanicOnFault(true)
	if syscall.Getpagesize() <= 4096 || ldsPoison%syscall.Getpagesize() == 0 {
		if a, err := syscall.Mmap(-1, 0, ldsSize, syscall.PROT_READ|syscall.PROT_WRITE, syscall.MAP_ANON|syscall.MAP_PRIVATE); err == nil {
			ldsArena = a
		}
	}
	seed := flag.Uint64("seed", 1, "seed")
	n := flag.Int("n", 30, "random cases per vector handler")
	ns := flag.Int("ns", 20, "random cases per scalar handler")
	nc := flag.Int("nc", 4, "correspondence cases per own transcription")
	ncv := flag.Int("ncv", 1, "correspondence cases per row of the ExecImplV table")
	out := flag.String("out", "", "output JSON file")
	rep := flag.String("replay", "", "JSON file with specs to replay")
	only := flag.String("only", "", "restrict to handlers whose alu/fmt/opcode key has this prefix")
	table := flag.Bool("table", false, "print coq/isa/LanesTable.v (every implemented vector handler that has a per-lane function in Coq) and exit")
	flag.Parse()
	_ = math.Pi
	if *table {
		if t := coqTable(enumerate()); *out == "" {
			os.Stdout.WriteString(t)
		} else if err := os.WriteFile(*out, []byte(t), 0o644); err != nil {
			panic(err)
		}
		return
	}

	var res Output
	if *rep != "" {
		data, err := os.ReadFile(*rep)
		if err != nil {
			panic(err)
		}
		var specs []Spec
		if err := json.Unmarshal(data, &specs); err != nil {
			panic(err)
		}
		for _, sp := range specs {
			var r Result
			if sp.Scalar {
				r = runScalarCase(sp)
			} else {
				r = runVectorCase(sp)
			}
			res.Replayed = append(res.Replayed, r)
			if r.Fail != "" {
				res.Violations = append(res.Violations, r)
			}
			if r.Coq != "" {
				res.Coq = append(res.Coq, r)
			}
		}
	} else {
		rng := vh.NewRng(*seed)
		res.Handlers = enumerate()
		seen := map[string]bool{}
		perHandlerViol := map[string]int{}
		for _, h := range res.Handlers {
			key := fmt.Sprintf("%s/%s/%d", h.ALU, h.Fmt, h.Opcode)
			hr := rng.Fork()
			if *only != "" && !strings.HasPrefix(key, *only) {
				continue
			}
			cnt := *n
			if h.Scalar {
				cnt = *ns
			}
			for i := 0; i < cnt; i++ {
				var r Result
				cr := hr.Fork()
				if h.Scalar {
					r = runScalarCase(genScalar(h, cr))
				} else {
					r = runVectorCase(genVectorN(h, cr, i))
				}
				h.Cases++
				if r.Crash != "" {
					h.Crashes++
					if variantUnsupported(r.Crash) || strings.HasPrefix(r.Crash, "decode:") {
						h.Cases--
						h.Crashes--
						continue
					}
					if len(res.Crashes) < 40 && h.Crashes == 1 {
						c := r
						c.Spec.VGPR, c.Spec.SGPR, c.Spec.Perm = nil, nil, nil
						res.Crashes = append(res.Crashes, c)
					}
				}
				if !h.Excpt && r.Crash == "" {
					h.Disc++
					if !h.Scalar {
						h.Meta++
					}
				}
				if r.Overlap {
					h.Overlap++
				}
				if r.NonTriv {
					h.NonTriv++
					seen[fmt.Sprintf("%s|%v|%x|%x", key, r.Spec.Words, r.Spec.Exec, r.Spec.VCC)] = true
				}
				if r.Fail != "" && perHandlerViol[key] < 2 {
					perHandlerViol[key]++
					res.Violations = append(res.Violations, r)
				}
				if len(res.Samples) < 3 && i == 0 && !h.Scalar && (h.Fmt == "vop2" || h.Fmt == "flat") {
					s := r.Spec
					s.VGPR = s.VGPR[:2]
					res.Samples = append(res.Samples, s)
				}
			}
			ids, fromV := corrIDs(h)
			for k, hid := range ids {
				cnt := *nc
				if fromV[k] {
					cnt = *ncv
				}
				if isFloatHid(hid) && cnt < corrFloatCases {
					cnt = corrFloatCases
				}
				for i := 0; i < cnt; i++ {
					corrIdx = i
					sp := genCorr(h, hid, hr.Fork())
					if sp.Corr == "" {
						continue
					}
					r := runVectorCase(sp)
					if r.Fail != "" && perHandlerViol[key] < 2 {
						perHandlerViol[key]++
						res.Violations = append(res.Violations, r)
					}
					if r.Coq != "" {
						h.Corr++
						res.Coq = append(res.Coq, r)
					}
				}
			}
		}
		res.Hashes = len(seen)
	}
	data, _ := json.Marshal(res)
	if *out == "" {
		os.Stdout.Write(data)
	} else if err := os.WriteFile(*out, data, 0o644); err != nil {
		panic(err)
	}
}
