package main

import (
	"fmt"
	"strings"

	"github.com/sarchlab/akita/v4/sim"
	"github.com/sarchlab/mgpusim/v4/amd/driver"
	"github.com/sarchlab/mgpusim/v4/amd/protocol"

	"verifharness/vh"
)

// Sequences on a standalone driver: batches of copies enqueued on several
// queues of one context and drained once (copies of different queues are in
// flight together; every queue works on its own buffer), accesses of the
// emulator's storage accessor, and pages moved to another GPU (Driver.Remap)
// between the batches.

type SCopy struct {
	Q    int    `json:"q"`
	D2H  bool   `json:"d2h"`
	Addr uint64 `json:"addr"`
	Data []int  `json:"data"` // H2D
	N    uint64 `json:"n"`    // D2H
	// observation
	Out []int `json:"out"`
}

type SEvent struct {
	E      string  `json:"e"` // batch remap accw accr
	Copies []SCopy `json:"copies,omitempty"`
	Addr   uint64  `json:"addr,omitempty"`
	GPU    int     `json:"gpu,omitempty"`
	Data   []int   `json:"data,omitempty"`
	N      uint64  `json:"n,omitempty"`
	// observation
	Out     []int  `json:"out"`
	Page    *PageJ `json:"page,omitempty"` // remap: what the page table answers afterwards
	Crash   bool   `json:"crash,omitempty"`
	Stuck   bool   `json:"stuck,omitempty"`
	InFlite int    `json:"inflight,omitempty"` // batch: largest number of copy commands with requests outstanding
}

type SeqCase struct {
	Magic   bool     `json:"magic"`
	NGPU    int      `json:"ngpu"`
	NQ      int      `json:"nq"`
	Sizes   []uint64 `json:"sizes"` // one buffer per queue
	Events  []SEvent `json:"events"`
	Ptrs    []uint64 `json:"ptrs"`
	PT      []PageJ  `json:"pt"`
	Windows []WinJ   `json:"windows"`
	Dump    []WinJ   `json:"dump"`
	Coq     string   `json:"coq"`
}

const seqLg = 12

type seqEnv struct {
	env    *drvEnv
	queues []*driver.CommandQueue
	frames map[uint64]bool // every frame that was ever mapped
}

func newSeqEnv(c *SeqCase) *seqEnv {
	dc := &DrvCase{Lg: seqLg, Magic: c.Magic, NGPU: c.NGPU}
	for i, s := range c.Sizes {
		dc.Allocs = append(dc.Allocs, AllocJ{Size: s, GPU: 1 + i%c.NGPU, Remap: []int{}})
	}
	h := &seqEnv{env: newDrvEnv(dc), frames: map[uint64]bool{}}
	for i := 0; i < c.NQ; i++ {
		h.queues = append(h.queues, h.env.d.CreateCommandQueue(h.env.ctx))
	}
	c.Ptrs = nil
	for _, a := range dc.Allocs {
		c.Ptrs = append(c.Ptrs, a.Ptr)
	}
	c.PT = dc.PT
	for _, p := range dc.PT {
		h.frames[p.P] = true
	}
	return h
}

func (h *seqEnv) drained() bool {
	for _, q := range h.queues {
		if q.NumCommand() != 0 {
			return false
		}
	}
	return true
}

func (h *seqEnv) batch(e *SEvent, rng *vh.Rng) {
	d := h.env.d
	dsts := make([][]byte, len(e.Copies))
	for i := range e.Copies {
		c := &e.Copies[i]
		q := h.queues[c.Q%len(h.queues)]
		if c.D2H {
			dsts[i] = make([]byte, c.N)
			d.EnqueueMemCopyD2H(q, dsts[i], driver.Ptr(c.Addr))
		} else {
			d.EnqueueMemCopyH2D(q, driver.Ptr(c.Addr), bytesOf(c.Data))
		}
	}
	var outstanding []sim.Msg
	for it := 0; it < 100000; it++ {
		outstanding = append(outstanding, h.env.settle()...)
		busy := 0
		for _, q := range h.queues {
			if q.IsRunning {
				busy++
			}
		}
		if busy > e.InFlite {
			e.InFlite = busy
		}
		if len(outstanding) == 0 {
			break
		}
		k := rng.Intn(len(outstanding))
		m := outstanding[k]
		outstanding = append(outstanding[:k], outstanding[k+1:]...)
		switch r := m.(type) {
		case *protocol.MemCopyH2DReq:
			h.env.memory.write(r.DstAddress, r.SrcBuffer)
		case *protocol.MemCopyD2HReq:
			copy(r.DstBuffer, h.env.memory.read(r.SrcAddress, uint64(len(r.DstBuffer))))
		}
		rsp := sim.GeneralRspBuilder{}.WithSrc(m.Meta().Dst).WithDst(h.env.gpuPort.AsRemote()).
			WithOriginalReq(m).Build()
		if err := h.env.gpuPort.Deliver(rsp); err != nil {
			panic("driver port full")
		}
	}
	e.Stuck = !h.drained()
	for i := range e.Copies {
		e.Copies[i].Out = []int{}
		if e.Copies[i].D2H && !e.Stuck {
			e.Copies[i].Out = ints(dsts[i])
		}
	}
}

func (h *seqEnv) apply(e *SEvent, rng *vh.Rng) (end bool) {
	e.Out = []int{}
	defer func() {
		if x := recover(); x != nil {
			e.Crash = true
			end = true
		}
	}()
	switch e.E {
	case "batch":
		h.batch(e, rng)
		return e.Stuck
	case "remap":
		h.env.d.Remap(h.env.ctx, e.Addr, uint64(1)<<seqLg, e.GPU)
		pg, ok := h.env.pt.Find(h.env.pid, e.Addr)
		if !ok {
			panic("page disappeared")
		}
		e.Page = &PageJ{Key: e.Addr, V: pg.VAddr, P: pg.PAddr, Size: pg.PageSize}
		h.frames[pg.PAddr] = true
	case "accw":
		h.env.acc.Write(h.env.pid, e.Addr, bytesOf(e.Data))
	case "accr":
		e.Out = ints(h.env.acc.Read(h.env.pid, e.Addr, e.N))
	}
	return false
}

func (h *seqEnv) finish(c *SeqCase) {
	ps := uint64(1) << seqLg
	c.Dump = []WinJ{}
	c.Windows = []WinJ{}
	for p := range h.frames {
		c.Dump = append(c.Dump, WinJ{PA: p, Bytes: ints(h.env.physRead(p, ps))})
	}
	// deterministic order
	for i := 1; i < len(c.Dump); i++ {
		for j := i; j > 0 && c.Dump[j].PA < c.Dump[j-1].PA; j-- {
			c.Dump[j], c.Dump[j-1] = c.Dump[j-1], c.Dump[j]
		}
	}
	for _, w := range c.Dump {
		if len(c.Windows) < 16 {
			c.Windows = append(c.Windows, WinJ{PA: w.PA, Bytes: w.Bytes[:24]}, WinJ{PA: w.PA + ps - 24, Bytes: w.Bytes[ps-24:]})
		}
	}
	c.Coq = seqCoq(c)
}

func replaySeq(in SeqCase) SeqCase {
	c := SeqCase{Magic: in.Magic, NGPU: in.NGPU, NQ: in.NQ, Sizes: in.Sizes}
	h := newSeqEnv(&c)
	rng := vh.NewRng(777)
	for _, e := range in.Events {
		ne := SEvent{E: e.E, Addr: e.Addr, GPU: e.GPU, Data: e.Data, N: e.N}
		for _, x := range e.Copies {
			ne.Copies = append(ne.Copies, SCopy{Q: x.Q, D2H: x.D2H, Addr: x.Addr, Data: x.Data, N: x.N})
		}
		end := h.apply(&ne, rng)
		c.Events = append(c.Events, ne)
		if end {
			break
		}
	}
	h.finish(&c)
	return c
}

func randBytes(rng *vh.Rng, n uint64) []int {
	o := make([]int, n)
	for i := range o {
		o[i] = int(rng.U64() & 0xff)
	}
	return o
}

func genSeq(rng *vh.Rng, idx int) SeqCase {
	c := SeqCase{Magic: idx%2 == 1, NGPU: 1 + rng.Intn(3), NQ: 2 + rng.Intn(2)}
	ps := uint64(1) << seqLg
	for i := 0; i < c.NQ; i++ {
		// one buffer per queue, one or two pages, so that ranges cross a page boundary
		c.Sizes = append(c.Sizes, ps+uint64(1+rng.Intn(int(ps))))
	}
	h := newSeqEnv(&c)
	nev := 3 + rng.Intn(5)
	for i := 0; i < nev; i++ {
		var e SEvent
		switch rng.Pick(6, 2, 2, 2) {
		case 0:
			e = SEvent{E: "batch"}
			k := []int{2, 3, 5}[rng.Intn(3)]
			for j := 0; j < k; j++ {
				q := rng.Intn(c.NQ)
				base, size := c.Ptrs[q], c.Sizes[q]
				n := uint64(1 + rng.Intn(160))
				var off uint64
				switch rng.Intn(3) {
				case 0:
					off = 0
				case 1:
					off = ps - uint64(rng.Intn(int(n)+1)) // around the page boundary
				default:
					off = uint64(rng.Intn(int(size - n)))
				}
				if off+n > size {
					off = size - n
				}
				cp := SCopy{Q: q, D2H: rng.Intn(5) < 3, Addr: base + off}
				if cp.D2H {
					cp.N = n
				} else {
					cp.Data = randBytes(rng, n)
				}
				e.Copies = append(e.Copies, cp)
			}
		case 1:
			q := rng.Intn(c.NQ)
			e = SEvent{E: "remap", Addr: c.Ptrs[q] + uint64(rng.Intn(2))*ps, GPU: 1 + rng.Intn(c.NGPU)}
		case 2:
			if !c.Magic {
				i--
				continue
			}
			q := rng.Intn(c.NQ)
			n := uint64(1 + rng.Intn(96))
			off := ps - uint64(rng.Intn(int(n)+1))
			if rng.Bool() {
				off = uint64(rng.Intn(int(c.Sizes[q] - n)))
			}
			e = SEvent{E: "accw", Addr: c.Ptrs[q] + off, Data: randBytes(rng, n)}
		default:
			if !c.Magic {
				i--
				continue
			}
			q := rng.Intn(c.NQ)
			n := uint64(1 + rng.Intn(96))
			off := ps - uint64(rng.Intn(int(n)+1))
			if rng.Bool() {
				off = uint64(rng.Intn(int(c.Sizes[q] - n)))
			}
			e = SEvent{E: "accr", Addr: c.Ptrs[q] + off, N: n}
		}
		end := h.apply(&e, rng)
		c.Events = append(c.Events, e)
		if end {
			break
		}
	}
	h.finish(&c)
	return c
}

func genSeqCases(seed uint64, n int) []SeqCase {
	rng := vh.NewRng(seed)
	var out []SeqCase
	for i := 0; i < n; i++ {
		out = append(out, genSeq(rng.Fork(), i))
	}
	return out
}

func seqCoq(c *SeqCase) string {
	var pt, ops, wins []string
	for _, p := range c.PT {
		pt = append(pt, fmt.Sprintf("(%d, mkPage %d %d %d)", p.Key, p.V, p.P, p.Size))
	}
	obs := func(crash bool, out []int) string {
		if crash {
			return "None"
		}
		return "Some " + coqInts(out)
	}
	stop := false
	for i := range c.Events {
		e := &c.Events[i]
		if stop {
			break
		}
		switch e.E {
		case "batch":
			if e.Crash || e.Stuck {
				// a batch that panicked or did not drain is judged by the monitor; the
				// model has nothing to compare it with
				stop = true
				wins = nil
				c.Windows = []WinJ{}
				continue
			}
			for _, x := range e.Copies {
				if x.D2H {
					ops = append(ops, fmt.Sprintf("(SD2H %d %d, %s)", x.Addr, x.N, obs(false, x.Out)))
				} else {
					ops = append(ops, fmt.Sprintf("(SH2D %d %s, Some [])", x.Addr, coqInts(x.Data)))
				}
			}
		case "remap":
			if e.Crash || e.Page == nil {
				stop = true
				c.Windows = []WinJ{}
				continue
			}
			ops = append(ops, fmt.Sprintf("(SRemap %d (mkPage %d %d %d), Some [])", e.Page.Key, e.Page.V, e.Page.P, e.Page.Size))
		case "accw":
			ops = append(ops, fmt.Sprintf("(SAccW %d %s, %s)", e.Addr, coqInts(e.Data), obs(e.Crash, []int{})))
		case "accr":
			ops = append(ops, fmt.Sprintf("(SAccR %d %d, %s)", e.Addr, e.N, obs(e.Crash, e.Out)))
		}
	}
	for _, w := range c.Windows {
		wins = append(wins, fmt.Sprintf("(%d, %s)", w.PA, coqInts(w.Bytes)))
	}
	return fmt.Sprintf("mkSCase %d [%s] [%s] [%s]", seqLg, strings.Join(pt, "; "), strings.Join(ops, ";\n  "), strings.Join(wins, "; "))
}
