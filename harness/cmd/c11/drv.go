package main

import (
	"encoding/binary"
	"fmt"
	"math"
	"strings"

	"github.com/sarchlab/akita/v4/mem/mem"
	"github.com/sarchlab/akita/v4/mem/vm"
	"github.com/sarchlab/akita/v4/sim"
	"github.com/sarchlab/akita/v4/tracing"
	"github.com/sarchlab/mgpusim/v4/amd/driver"
	"github.com/sarchlab/mgpusim/v4/amd/emu"
	"github.com/sarchlab/mgpusim/v4/amd/protocol"

	"verifharness/vh"
)

type AllocJ struct {
	Size  uint64 `json:"size"`
	GPU   int    `json:"gpu"`
	Remap []int  `json:"remap"` // per page: GPU to move the page to (0 = leave)
	// Unified: allocate while a unified device bundling these GPUs is selected
	// (CreateUnifiedGPU + SelectGPU): the pages are striped over the members
	Unified []int `json:"unified"`
	// Distribute: afterwards spread the buffer over these GPUs (Driver.Distribute)
	Distribute []int  `json:"distribute"`
	Ptr        uint64 `json:"ptr"` // observed
}

type PageJ struct {
	Key  uint64 `json:"key"`
	V    uint64 `json:"v"`
	P    uint64 `json:"p"`
	Size uint64 `json:"size"`
}

type DevJ struct {
	ID   uint64 `json:"id"`
	Lo   uint64 `json:"lo"`
	Size uint64 `json:"size"`
}

type BufJ struct {
	Start uint64 `json:"start"`
	Size  uint64 `json:"size"`
	Dirty bool   `json:"dirty"`
	Freed bool   `json:"freed"`
}

type ReqJ struct {
	Dev  uint64 `json:"dev"`
	PA   uint64 `json:"pa"`
	Len  uint64 `json:"len"`
	Data []int  `json:"data"`
}

type WinJ struct {
	PA    uint64 `json:"pa"`
	Bytes []int  `json:"bytes"`
}

type DOp struct {
	Op        string `json:"op"` // h2d d2h accw accr dirty free
	Addr      uint64 `json:"addr"`
	Data      []int  `json:"data"`
	N         uint64 `json:"n"`
	Typ       string `json:"typ"`
	FlushLast bool   `json:"flush_last"`
	// observation
	Bufs           []BufJ `json:"bufs"`
	Crash          bool   `json:"crash"`
	Flush          bool   `json:"flush"`
	NFlush         int    `json:"nflush"`
	Reqs           []ReqJ `json:"reqs"`
	Out            []int  `json:"out"`
	Total          int    `json:"total"`
	CompletedAfter int    `json:"completed_after"`
	Order          []int  `json:"order"` // answered requests: index into flushes ++ copy requests
	Completed      bool   `json:"completed"`
	// how often the driver reported the command complete (tracing.EndTask with the
	// command's ID, i.e. completeMemCopyH2D/D2H resp. the magic copy), and the
	// number of answers delivered when the operation panicked (-1: no panic)
	Completions int `json:"completions"`
	CrashAt     int `json:"crash_at"`
}

type DrvCase struct {
	Lg      uint64   `json:"lg"`
	Magic   bool     `json:"magic"`
	NGPU    int      `json:"ngpu"`
	Allocs  []AllocJ `json:"allocs"`
	Ops     []DOp    `json:"ops"`
	PT      []PageJ  `json:"pt"`
	Devs    []DevJ   `json:"devs"`
	Windows []WinJ   `json:"windows"`
	Dump    []WinJ   `json:"dump"`
	Coq     string   `json:"coq"`
}

// ---- typed host values

type rec struct {
	A uint32
	B uint16
	C uint8
	D uint8
	E float32
	F int64
}

var elemSize = map[string]uint64{"bytes": 1, "int32": 4, "float32": 4, "uint64": 8, "struct": 20}

func fixFloat(raw []byte, at int) {
	// keep the exponent away from all-ones: NaN payloads are not a copy matter
	if raw[at+3]&0x7f == 0x7f && raw[at+2]&0x80 != 0 {
		raw[at+2] &= 0x7f
	}
}

func sanitize(typ string, raw []byte) {
	switch typ {
	case "float32":
		for i := 0; i+4 <= len(raw); i += 4 {
			fixFloat(raw, i)
		}
	case "struct":
		for i := 0; i+20 <= len(raw); i += 20 {
			fixFloat(raw, i+8)
		}
	}
}

func isNaN32(raw []byte, at int) bool {
	return raw[at+3]&0x7f == 0x7f && raw[at+2]&0x80 != 0 && (raw[at+2]&0x7f != 0 || raw[at+1] != 0 || raw[at] != 0)
}

// hasNaN tells whether raw, seen as a value of type typ, holds a NaN in a
// float32 position.  encoding/binary moves float32 fields of structs through
// float64, which turns a signalling NaN into a quiet one; that is a property
// of the host-side codec, not of the copy, so such destinations are avoided.
func hasNaN(typ string, raw []byte) bool {
	switch typ {
	case "float32":
		for i := 0; i+4 <= len(raw); i += 4 {
			if isNaN32(raw, i) {
				return true
			}
		}
	case "struct":
		for i := 0; i+20 <= len(raw); i += 20 {
			if isNaN32(raw, i+8) {
				return true
			}
		}
	}
	return false
}

func typedFromBytes(typ string, raw []byte) interface{} {
	le := binary.LittleEndian
	switch typ {
	case "int32":
		v := make([]int32, len(raw)/4)
		for i := range v {
			v[i] = int32(le.Uint32(raw[4*i:]))
		}
		return v
	case "float32":
		v := make([]float32, len(raw)/4)
		for i := range v {
			v[i] = math.Float32frombits(le.Uint32(raw[4*i:]))
		}
		return v
	case "uint64":
		v := make([]uint64, len(raw)/8)
		for i := range v {
			v[i] = le.Uint64(raw[8*i:])
		}
		return v
	case "struct":
		v := make([]rec, len(raw)/20)
		for i := range v {
			b := raw[20*i:]
			v[i] = rec{le.Uint32(b), le.Uint16(b[4:]), b[6], b[7],
				math.Float32frombits(le.Uint32(b[8:])), int64(le.Uint64(b[12:]))}
		}
		return v
	}
	return append([]byte{}, raw...)
}

func bytesFromTyped(v interface{}) []byte {
	le := binary.LittleEndian
	var out []byte
	switch x := v.(type) {
	case []byte:
		out = append(out, x...)
	case []int32:
		for _, e := range x {
			out = le.AppendUint32(out, uint32(e))
		}
	case []float32:
		for _, e := range x {
			out = le.AppendUint32(out, math.Float32bits(e))
		}
	case []uint64:
		for _, e := range x {
			out = le.AppendUint64(out, e)
		}
	case []rec:
		for _, e := range x {
			out = le.AppendUint32(out, e.A)
			out = le.AppendUint16(out, e.B)
			out = append(out, e.C, e.D)
			out = le.AppendUint32(out, math.Float32bits(e.E))
			out = le.AppendUint64(out, uint64(e.F))
		}
	}
	return out
}

// ---- the environment of one case

type zeroMem map[uint64]byte

func (m zeroMem) read(a, n uint64) []byte {
	o := make([]byte, n)
	for i := uint64(0); i < n; i++ {
		o[i] = m[a+i]
	}
	return o
}

func (m zeroMem) write(a uint64, d []byte) {
	for i, v := range d {
		m[a+uint64(i)] = v
	}
}

type drvEnv struct {
	c       *DrvCase
	d       *driver.Driver
	ctx     *driver.Context
	q       *driver.CommandQueue
	pt      vm.PageTable
	storage *mem.Storage
	acc     emu.StorageAccessor
	gpuPort sim.Port
	gpus    []sim.Port
	memory  zeroMem
	pid     vm.PID
	stuck   bool
	ends    map[string]int
}

// endHook counts the tasks the driver reports finished (tracing.EndTask), by ID.
type endHook struct{ e *drvEnv }

func (h *endHook) Func(ctx sim.HookCtx) {
	if ctx.Pos != tracing.HookPosTaskEnd {
		return
	}
	if t, ok := ctx.Item.(tracing.Task); ok {
		h.e.ends[t.ID]++
	}
}

const dramPages = 256

func newDrvEnv(c *DrvCase) *drvEnv {
	e := &drvEnv{c: c, memory: zeroMem{}, ends: map[string]int{}}
	engine := sim.NewSerialEngine()
	e.pt = vm.NewPageTable(c.Lg)
	e.storage = mem.NewStorage(64 * mem.GB)
	b := driver.MakeBuilder().WithEngine(engine).WithPageTable(e.pt).
		WithLog2PageSize(c.Lg).WithGlobalStorage(e.storage)
	if c.Magic {
		b = b.WithMagicMemoryCopyMiddleware()
	}
	e.d = b.Build("Driver")
	e.d.AcceptHook(&endHook{e})
	ps := uint64(1) << c.Lg
	c.Devs = []DevJ{{ID: 0, Lo: ps, Size: 4 * mem.GB}}
	next := ps + 4*mem.GB
	for i := 1; i <= c.NGPU; i++ {
		p := sim.NewPort(nil, 1, 1, fmt.Sprintf("GPU%d.CP", i))
		e.gpus = append(e.gpus, p)
		e.d.RegisterGPU(p, driver.DeviceProperties{CUCount: 4, DRAMSize: dramPages * ps})
		c.Devs = append(c.Devs, DevJ{ID: uint64(i), Lo: next, Size: dramPages * ps})
		next += dramPages * ps
	}
	e.gpuPort = e.d.GetPortByName("GPU")
	conn := &vh.StubConn{}
	conn.PlugIn(e.gpuPort)
	conn.PlugIn(e.d.GetPortByName("MMU"))
	e.ctx = e.d.Init()
	e.pid = vm.PID(driver.VerifC11PID(e.ctx))
	e.q = e.d.CreateCommandQueue(e.ctx)
	e.acc = emu.NewStorageAccessor(e.storage, e.pt, c.Lg, nil)

	c.PT = nil
	for i := range c.Allocs {
		a := &c.Allocs[i]
		if len(a.Unified) > 0 {
			e.d.SelectGPU(e.ctx, e.d.CreateUnifiedGPU(e.ctx, a.Unified))
		} else {
			e.d.SelectGPU(e.ctx, a.GPU)
		}
		a.Ptr = uint64(e.d.AllocateMemory(e.ctx, a.Size))
		if len(a.Distribute) > 1 {
			e.d.Distribute(e.ctx, driver.Ptr(a.Ptr), a.Size, a.Distribute)
		}
		np := (a.Size-1)/ps + 1
		for k := uint64(0); k < np; k++ {
			if int(k) < len(a.Remap) && a.Remap[k] != 0 && a.Remap[k] != a.GPU {
				e.d.Remap(e.ctx, a.Ptr+k*ps, ps, a.Remap[k])
			}
		}
	}
	for i := range c.Allocs {
		a := &c.Allocs[i]
		np := (a.Size-1)/ps + 1
		for k := uint64(0); k < np; k++ {
			pg, ok := e.pt.Find(e.pid, a.Ptr+k*ps)
			if ok {
				c.PT = append(c.PT, PageJ{Key: a.Ptr + k*ps, V: pg.VAddr, P: pg.PAddr, Size: pg.PageSize})
			}
		}
	}
	return e
}

func (e *drvEnv) physRead(pa, n uint64) []byte {
	if e.c.Magic {
		d, err := e.storage.Read(pa, n)
		if err != nil {
			return make([]byte, n)
		}
		return d
	}
	return e.memory.read(pa, n)
}

func (e *drvEnv) gpuIndex(p sim.RemotePort) uint64 {
	for i, g := range e.gpus {
		if g.AsRemote() == p {
			return uint64(i + 1)
		}
	}
	return 0
}

func (e *drvEnv) settle() []sim.Msg {
	var got []sim.Msg
	for t := 0; t < 100000; t++ {
		prog := e.d.Tick()
		any := false
		for {
			m := e.gpuPort.RetrieveOutgoing()
			if m == nil {
				break
			}
			got = append(got, m)
			any = true
		}
		if !prog && !any {
			break
		}
	}
	return got
}

func (e *drvEnv) snapshotBufs(op *DOp) {
	op.Bufs = []BufJ{}
	for _, b := range driver.VerifC11Buffers(e.ctx) {
		op.Bufs = append(op.Bufs, BufJ{Start: b[0], Size: b[1], Dirty: b[2] == 1, Freed: b[3] == 1})
	}
}

// run one operation on the implementation and record what it did
func (e *drvEnv) run(op *DOp, rng *vh.Rng) {
	op.Reqs = []ReqJ{}
	op.Out = []int{}
	if op.Data == nil {
		op.Data = []int{}
	}
	op.CrashAt = -1
	cmdID := ""
	delivered := 0
	defer func() {
		if x := recover(); x != nil {
			op.Crash = true
			op.CrashAt = delivered
			e.stuck = true
		}
		if cmdID != "" {
			op.Completions = e.ends[cmdID]
		}
	}()
	switch op.Op {
	case "dirty":
		driver.VerifMarkAllBuffersDirty(e.ctx)
		return
	case "free":
		_ = e.d.FreeMemory(e.ctx, driver.Ptr(op.Addr))
		return
	case "accw":
		e.acc.Write(e.pid, op.Addr, bytesOf(op.Data))
		return
	case "accr":
		op.Out = ints(e.acc.Read(e.pid, op.Addr, op.N))
		return
	}
	e.snapshotBufs(op)
	if op.Op == "d2h" && (op.Typ == "float32" || op.Typ == "struct") {
		// look at what the destination is going to receive (harness-side translation)
		cur := make([]byte, 0, op.N)
		for i := uint64(0); i < op.N; i++ {
			pg, ok := e.pt.Find(e.pid, op.Addr+i)
			if !ok {
				break
			}
			cur = append(cur, e.physRead(pg.PAddr+(op.Addr+i-pg.VAddr), 1)...)
		}
		if hasNaN(op.Typ, cur) {
			op.Typ = "bytes"
		}
	}
	var dst interface{}
	if op.Op == "h2d" {
		e.d.EnqueueMemCopyH2D(e.q, driver.Ptr(op.Addr), typedFromBytes(op.Typ, bytesOf(op.Data)))
	} else {
		dst = typedFromBytes(op.Typ, make([]byte, op.N))
		e.d.EnqueueMemCopyD2H(e.q, dst, driver.Ptr(op.Addr))
	}
	if head := e.q.Peek(); head != nil {
		cmdID = head.GetID()
	}
	// the driver runs until it has nothing left to do before any answer is
	// delivered: every acknowledgement is "late" by many ticks
	msgs := e.settle()
	var flushes, copies []sim.Msg
	for _, m := range msgs {
		switch r := m.(type) {
		case *protocol.FlushReq:
			flushes = append(flushes, m)
		case *protocol.MemCopyH2DReq:
			copies = append(copies, m)
			op.Reqs = append(op.Reqs, ReqJ{Dev: e.gpuIndex(r.Dst), PA: r.DstAddress,
				Len: uint64(len(r.SrcBuffer)), Data: ints(r.SrcBuffer)})
		case *protocol.MemCopyD2HReq:
			copies = append(copies, m)
			op.Reqs = append(op.Reqs, ReqJ{Dev: e.gpuIndex(r.Dst), PA: r.SrcAddress,
				Len: uint64(len(r.DstBuffer)), Data: []int{}})
		default:
			op.Reqs = append(op.Reqs, ReqJ{Dev: 999, Data: []int{}})
		}
	}
	op.NFlush = len(flushes)
	op.Flush = len(flushes) > 0
	op.Total = len(msgs)
	op.CompletedAfter = -1
	if e.q.NumCommand() == 0 {
		op.CompletedAfter = 0
	}
	// answer: flushes first (a GPU's command processor holds copies back while it
	// flushes), copies in random order; FlushLast moves one flush answer to the end
	type indexed struct {
		m   sim.Msg
		idx int
	}
	var fl, cp []indexed
	for i, m := range flushes {
		fl = append(fl, indexed{m, i})
	}
	for i, m := range copies {
		cp = append(cp, indexed{m, len(flushes) + i})
	}
	for i := len(cp) - 1; i > 0; i-- {
		j := rng.Intn(i + 1)
		cp[i], cp[j] = cp[j], cp[i]
	}
	all := append(append([]indexed{}, fl...), cp...)
	if op.FlushLast && len(fl) > 0 && len(cp) > 0 {
		// one GPU is slow to flush: its answer comes after some or all copy answers
		k := 1 + rng.Intn(len(all)-1)
		if rng.Bool() {
			k = len(all) - 1
		}
		f := all[0]
		copy(all[0:], all[1:k+1])
		all[k] = f
	}
	if len(op.Order) == len(all) && len(all) > 0 {
		// replay: answer in the recorded order
		byIdx := map[int]indexed{}
		for _, x := range all {
			byIdx[x.idx] = x
		}
		re := []indexed{}
		for _, i := range op.Order {
			if x, ok := byIdx[i]; ok {
				re = append(re, x)
				delete(byIdx, i)
			}
		}
		if len(re) == len(all) {
			all = re
		}
	}
	order := make([]sim.Msg, len(all))
	op.Order = []int{}
	for i, x := range all {
		order[i] = x.m
		op.Order = append(op.Order, x.idx)
	}
	for k, m := range order {
		switch r := m.(type) {
		case *protocol.MemCopyH2DReq:
			e.memory.write(r.DstAddress, r.SrcBuffer)
		case *protocol.MemCopyD2HReq:
			copy(r.DstBuffer, e.memory.read(r.SrcAddress, uint64(len(r.DstBuffer))))
		}
		rsp := sim.GeneralRspBuilder{}.WithSrc(m.Meta().Dst).WithDst(e.gpuPort.AsRemote()).
			WithOriginalReq(m).Build()
		if err := e.gpuPort.Deliver(rsp); err != nil {
			panic("driver port full")
		}
		delivered = k
		extra := e.settle()
		delivered = k + 1
		op.Total += len(extra)
		if op.CompletedAfter < 0 && e.q.NumCommand() == 0 {
			op.CompletedAfter = k + 1
		}
	}
	op.Completed = e.q.NumCommand() == 0
	if !op.Completed {
		e.stuck = true
	}
	if op.Op == "d2h" && op.Completed {
		op.Out = ints(bytesFromTyped(dst))
	}
}

func (e *drvEnv) finish() {
	c := e.c
	ps := uint64(1) << c.Lg
	c.Dump = []WinJ{}
	for _, p := range c.PT {
		c.Dump = append(c.Dump, WinJ{PA: p.P, Bytes: ints(e.physRead(p.P, ps))})
		// guard bytes on both sides of the frame (they may belong to nobody)
		c.Dump = append(c.Dump, WinJ{PA: p.P - 64, Bytes: ints(e.physRead(p.P-64, 64))})
		c.Dump = append(c.Dump, WinJ{PA: p.P + ps, Bytes: ints(e.physRead(p.P+ps, 64))})
	}
	// windows around the edges of what the operations touched
	c.Windows = []WinJ{}
	anyCrash := false
	for i := range c.Ops {
		anyCrash = anyCrash || c.Ops[i].Crash
	}
	add := func(lo, hi uint64) {
		// a panicking operation may have written some of its pieces already:
		// the final storage is then not compared
		if anyCrash || len(c.Windows) >= 10 || hi <= lo {
			return
		}
		c.Windows = append(c.Windows, WinJ{PA: lo, Bytes: ints(e.physRead(lo, hi-lo))})
	}
	for i := range c.Ops {
		op := &c.Ops[i]
		n := op.N
		if op.Op == "h2d" || op.Op == "accw" {
			n = uint64(len(op.Data))
		} else {
			continue
		}
		if n == 0 || op.Crash {
			continue
		}
		for _, va := range []uint64{op.Addr, op.Addr + n - 1} {
			pg, ok := e.pt.Find(e.pid, va)
			if !ok {
				continue
			}
			pa := pg.PAddr + (va - pg.VAddr)
			add(pa-6, pa+7)
		}
	}
	c.Coq = drvCoq(c)
}

func replayDrv(in DrvCase) DrvCase {
	c := DrvCase{Lg: in.Lg, Magic: in.Magic, NGPU: in.NGPU, Allocs: in.Allocs}
	var e *drvEnv
	func() {
		defer func() {
			if x := recover(); x != nil {
				e = nil
			}
		}()
		e = newDrvEnv(&c)
	}()
	if e == nil {
		c.Ops = []DOp{{Op: "setup", Crash: true, Data: []int{}, Reqs: []ReqJ{}, Out: []int{}, Bufs: []BufJ{}}}
		c.Coq = drvCoq(&c)
		return c
	}
	rng := vh.NewRng(12345)
	for _, o := range in.Ops {
		op := DOp{Op: o.Op, Addr: o.Addr, Data: o.Data, N: o.N, Typ: o.Typ, FlushLast: o.FlushLast, Order: o.Order}
		e.run(&op, rng)
		c.Ops = append(c.Ops, op)
		if e.stuck {
			break
		}
	}
	e.finish()
	return c
}

func genDrv(rng *vh.Rng, idx int) DrvCase {
	lgs := []uint64{10, 10, 10, 11, 12} // smaller pages make driver construction slow (free-page list of the 4 GB host device)
	c := DrvCase{Lg: lgs[rng.Intn(len(lgs))], Magic: idx%2 == 0, NGPU: 1 + rng.Intn(4)}
	ps := uint64(1) << c.Lg
	nb := 1 + rng.Intn(4)
	for i := 0; i < nb; i++ {
		var size uint64
		switch rng.Pick(3, 3, 2, 2) {
		case 0:
			size = 1 + uint64(rng.Intn(int(ps)))
		case 1:
			size = ps*uint64(1+rng.Intn(3)) + uint64(rng.Intn(3)) - 1
		case 2:
			size = ps * uint64(1+rng.Intn(3))
		default:
			size = 1 + uint64(rng.Intn(int(3*ps)))
		}
		a := AllocJ{Size: size, GPU: 1 + rng.Intn(c.NGPU)}
		np := (size-1)/ps + 1
		a.Remap = make([]int, np)
		if c.NGPU > 1 && rng.Intn(4) != 0 {
			for k := range a.Remap {
				if rng.Intn(2) == 0 {
					a.Remap[k] = 1 + rng.Intn(c.NGPU)
				}
			}
		}
		if c.NGPU > 1 {
			switch rng.Intn(4) {
			case 0: // allocated on a unified device over two or three GPUs
				perm := []int{}
				for g := 1; g <= c.NGPU; g++ {
					perm = append(perm, g)
				}
				for i := len(perm) - 1; i > 0; i-- {
					j := rng.Intn(i + 1)
					perm[i], perm[j] = perm[j], perm[i]
				}
				k := 2
				if len(perm) > 2 && rng.Bool() {
					k = 3
				}
				a.Unified = perm[:k]
			case 1: // spread afterwards with Distribute
				a.Distribute = []int{}
				for g := 1; g <= c.NGPU; g++ {
					if rng.Intn(3) != 0 {
						a.Distribute = append(a.Distribute, g)
					}
				}
			}
		}
		c.Allocs = append(c.Allocs, a)
	}
	var e *drvEnv
	func() {
		defer func() {
			if x := recover(); x != nil {
				e = nil
			}
		}()
		e = newDrvEnv(&c)
	}()
	if e == nil {
		c.Ops = []DOp{{Op: "setup", Crash: true, Data: []int{}, Reqs: []ReqJ{}, Out: []int{}, Bufs: []BufJ{}}}
		c.Coq = drvCoq(&c)
		return c
	}
	nops := 3 + rng.Intn(8)
	types := []string{"bytes", "bytes", "int32", "float32", "uint64", "struct"}
	for i := 0; i < nops && !e.stuck; i++ {
		a := c.Allocs[rng.Intn(len(c.Allocs))]
		np := (a.Size-1)/ps + 1
		span := np * ps
		// start: page start, just before / after a page boundary, anywhere in the
		// buffer, or in the mapped tail behind the tracked size
		var off uint64
		switch rng.Pick(3, 3, 3, 2) {
		case 0:
			off = uint64(rng.Intn(int(np))) * ps
		case 1:
			off = uint64(rng.Intn(int(np)))*ps + ps - 1 - uint64(rng.Intn(3))
		case 2:
			off = uint64(rng.Intn(int(a.Size)))
		default:
			off = uint64(rng.Intn(int(span)))
		}
		typ := types[rng.Intn(len(types))]
		es := elemSize[typ]
		var n uint64
		switch rng.Pick(4, 4, 1, 2, 1) {
		case 0: // short
			n = 1 + uint64(rng.Intn(96))
		case 1: // up to (and a little beyond) the next page boundary
			n = ps - off%ps + uint64(rng.Intn(24)) - 8
		case 2: // one page and a bit
			n = ps + uint64(rng.Intn(64)) - 32
		case 3: // to the end of the tracked buffer
			if a.Size > off && a.Size-off < 400 {
				n = a.Size - off
			} else {
				n = 1 + uint64(rng.Intn(200))
			}
		default: // more than two pages
			n = 2*ps + 1 + uint64(rng.Intn(40))
		}
		if n == 0 || n > 4*ps {
			n = 1
		}
		// mostly stay inside the mapped pages of this buffer; sometimes run into
		// the neighbour's pages or beyond everything that is mapped
		if rng.Intn(40) != 0 && off+n > span {
			n = span - off
		}
		n = n / es * es
		if n == 0 {
			n = es
			if rng.Intn(4) == 0 {
				n = 0 // a zero-length copy now and then
			}
		}
		op := DOp{Addr: a.Ptr + off, Typ: typ, FlushLast: rng.Intn(3) == 0}
		kind := rng.Pick(4, 4, 2, 2, 2)
		if !c.Magic && kind >= 2 && kind <= 3 {
			kind = rng.Intn(2)
		}
		switch kind {
		case 0, 2:
			raw := make([]byte, n)
			for j := range raw {
				raw[j] = byte(rng.U64())
			}
			sanitize(typ, raw)
			op.Data = ints(raw)
			op.Op = "h2d"
			if kind == 2 {
				op.Op = "accw"
			}
		case 1, 3:
			op.N = n
			op.Op = "d2h"
			if kind == 3 {
				op.Op = "accr"
			}
		default:
			op.Op = "dirty"
		}
		e.run(&op, rng)
		c.Ops = append(c.Ops, op)
	}
	if !e.stuck && idx%4 < 3 {
		genZeroByteProbes(e, rng)
	}
	e.finish()
	return c
}

// genZeroByteProbes: the context is put into the state after a kernel launch
// (every buffer may be dirty in the L2 caches), then copies of zero bytes in
// both directions are issued at addresses strictly inside, at the start of, at
// the end of and outside the tracked buffers.  Such a copy has no copy request;
// whether it has flush requests depends on the position.  The answers are
// delivered only after the driver has run out of work (see run).
func genZeroByteProbes(e *drvEnv, rng *vh.Rng) {
	c := e.c
	dirty := DOp{Op: "dirty"}
	e.run(&dirty, rng)
	c.Ops = append(c.Ops, dirty)
	inAny := func(a uint64) bool {
		for _, x := range c.Allocs {
			if x.Ptr <= a && a < x.Ptr+x.Size {
				return true
			}
		}
		return false
	}
	var top uint64
	for _, x := range c.Allocs {
		if x.Ptr+x.Size > top {
			top = x.Ptr + x.Size
		}
	}
	a := c.Allocs[rng.Intn(len(c.Allocs))]
	var addrs []uint64
	if a.Size >= 2 {
		addrs = append(addrs, a.Ptr+1+uint64(rng.Intn(int(a.Size-1)))) // strictly inside
		addrs = append(addrs, a.Ptr+a.Size-1, a.Ptr+1)
	}
	addrs = append(addrs, a.Ptr) // start
	if !inAny(a.Ptr + a.Size) {
		addrs = append(addrs, a.Ptr+a.Size) // end
	}
	if !inAny(a.Ptr+a.Size+1) && rng.Bool() {
		addrs = append(addrs, a.Ptr+a.Size+1) // outside, in the page tail
	} else {
		addrs = append(addrs, top+17+uint64(rng.Intn(5000))) // outside everything
	}
	for i := len(addrs) - 1; i > 0; i-- {
		j := rng.Intn(i + 1)
		addrs[i], addrs[j] = addrs[j], addrs[i]
	}
	for _, ad := range addrs {
		if e.stuck {
			return
		}
		op := DOp{Addr: ad, Typ: "bytes", Data: []int{}}
		if rng.Bool() {
			op.Op = "h2d"
		} else {
			op.Op = "d2h"
		}
		e.run(&op, rng)
		c.Ops = append(c.Ops, op)
	}
}

func genDrvCases(seed uint64, n int) []DrvCase {
	rng := vh.NewRng(seed)
	var out []DrvCase
	for i := 0; i < n; i++ {
		out = append(out, genDrv(rng.Fork(), i))
	}
	return out
}

// ---- Coq term

func drvCoq(c *DrvCase) string {
	var pt, devs, ops, wins []string
	for _, p := range c.PT {
		pt = append(pt, fmt.Sprintf("(%d, mkPage %d %d %d)", p.Key, p.V, p.P, p.Size))
	}
	for _, d := range c.Devs {
		devs = append(devs, fmt.Sprintf("(%d, %d, %d)", d.ID, d.Lo, d.Size))
	}
	for i := range c.Ops {
		o := &c.Ops[i]
		var t string
		switch o.Op {
		case "h2d":
			t = fmt.Sprintf("OpH2D %d %s", o.Addr, coqInts(o.Data))
		case "d2h":
			t = fmt.Sprintf("OpD2H %d %d", o.Addr, o.N)
		case "accw":
			t = fmt.Sprintf("OpAccW %d %s", o.Addr, coqInts(o.Data))
		case "accr":
			t = fmt.Sprintf("OpAccR %d %d", o.Addr, o.N)
		default:
			continue
		}
		var bufs, reqs []string
		for _, b := range o.Bufs {
			bufs = append(bufs, fmt.Sprintf("mkBuf %d %d %s", b.Start, b.Size, vh.CoqBool(b.Dirty)))
		}
		for _, r := range o.Reqs {
			reqs = append(reqs, fmt.Sprintf("(%d, %d, %d)", r.Dev, r.PA, r.Len))
		}
		// an operation that never completed is reported by the monitor, not here
		after := 999999
		if o.CompletedAfter >= 0 {
			after = o.CompletedAfter
		}
		ops = append(ops, fmt.Sprintf("(%s, [%s], mkOObs %s %s [%s] %s, mkCObs %s %d)", t, strings.Join(bufs, "; "),
			vh.CoqBool(o.Crash), vh.CoqBool(o.Flush), strings.Join(reqs, "; "), coqInts(o.Out), coqInts(o.Order), after))
	}
	for _, w := range c.Windows {
		wins = append(wins, fmt.Sprintf("(%d, %s)", w.PA, coqInts(w.Bytes)))
	}
	return fmt.Sprintf("mkDCase %d %s [%s] [%s] [%s] [%s]", c.Lg, vh.CoqBool(c.Magic),
		strings.Join(pt, "; "), strings.Join(devs, "; "), strings.Join(ops, ";\n  "), strings.Join(wins, "; "))
}

// ---- memRangeOverlap samples

type OvlCase struct {
	S1  uint64 `json:"s1"`
	E1  uint64 `json:"e1"`
	S2  uint64 `json:"s2"`
	E2  uint64 `json:"e2"`
	Got bool   `json:"got"`
	Coq string `json:"coq"`
}

func runOvl(c OvlCase) OvlCase {
	c.Got = driver.VerifMemRangeOverlap(c.S1, c.E1, c.S2, c.E2)
	c.Coq = fmt.Sprintf("(%d, %d, %d, %d, %s)", c.S1, c.E1, c.S2, c.E2, vh.CoqBool(c.Got))
	return c
}

func genOvlCases(seed uint64, n int) []OvlCase {
	rng := vh.NewRng(seed)
	var out []OvlCase
	// all orderings of four endpoints drawn from a small set, then random ones
	for s1 := uint64(0); s1 < 5; s1++ {
		for e1 := s1 + 1; e1 < 6; e1++ {
			for s2 := uint64(0); s2 < 5; s2++ {
				for e2 := s2 + 1; e2 < 6; e2++ {
					out = append(out, runOvl(OvlCase{S1: 100 * s1, E1: 100 * e1, S2: 100 * s2, E2: 100 * e2}))
				}
			}
		}
	}
	for i := 0; i < n; i++ {
		base := rng.U64() & 0xffffffffff
		p := [4]uint64{}
		for k := range p {
			p[k] = base + uint64(rng.Intn(12))
		}
		c := OvlCase{S1: p[0], E1: p[0] + uint64(rng.Intn(8)), S2: p[2], E2: p[2] + uint64(rng.Intn(8))}
		out = append(out, runOvl(c))
	}
	return out
}
