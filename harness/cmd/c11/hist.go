package main

import (
	"fmt"
	"strings"

	"github.com/sarchlab/akita/v4/sim"
	"github.com/sarchlab/mgpusim/v4/amd/driver"
	"github.com/sarchlab/mgpusim/v4/amd/kernels"
	"github.com/sarchlab/mgpusim/v4/amd/protocol"

	"verifharness/vh"
)

// Histories of one context with several command queues: kernels in flight on
// some queues while copies are processed on others.  The harness plays the
// GPUs; every event is atomic (a copy is answered at once: flushes, then the
// copy requests), a kernel completes when the history says so.

type HEvent struct {
	E    string `json:"e"` // alloc launch complete copy
	Q    int    `json:"q"`
	Size uint64 `json:"size,omitempty"`
	D2H  bool   `json:"d2h,omitempty"`
	Addr uint64 `json:"addr,omitempty"`
	N    uint64 `json:"n,omitempty"`
	// observation
	Ptr   uint64 `json:"ptr,omitempty"`
	Flush bool   `json:"flush"`
	Done  bool   `json:"done"`
	Crash bool   `json:"crash,omitempty"`
	Bufs  []BufJ `json:"bufs"`
	// copies: answers the driver was sent / answers delivered when the command
	// left its queue (-1: never) / completions reported (tracing.EndTask)
	NReq  int `json:"nreq"`
	After int `json:"after"`
	Ends  int `json:"ends"`
	// answers delivered when the driver panicked
	CrashAt int `json:"crash_at"`
}

type HistCase struct {
	NGPU   int      `json:"ngpu"`
	NQ     int      `json:"nq"`
	Init   []uint64 `json:"init"` // sizes of the buffers allocated before the history
	Events []HEvent `json:"events"`
	InitB  []BufJ   `json:"initb"`
	Coq    string   `json:"coq"`
}

type histEnv struct {
	env     *drvEnv
	queues  []*driver.CommandQueue
	running map[int]sim.Msg
}

func newHistEnv(c *HistCase) *histEnv {
	dc := &DrvCase{Lg: 12, Magic: false, NGPU: c.NGPU}
	for _, s := range c.Init {
		dc.Allocs = append(dc.Allocs, AllocJ{Size: s, GPU: 1, Remap: []int{}})
	}
	h := &histEnv{env: newDrvEnv(dc), running: map[int]sim.Msg{}}
	for i := 0; i < c.NQ; i++ {
		h.env.d.SelectGPU(h.env.ctx, 1+i%c.NGPU)
		h.queues = append(h.queues, h.env.d.CreateCommandQueue(h.env.ctx))
	}
	c.InitB = h.bufs()
	return h
}

func (h *histEnv) bufs() []BufJ {
	out := []BufJ{}
	for _, b := range driver.VerifC11Buffers(h.env.ctx) {
		out = append(out, BufJ{Start: b[0], Size: b[1], Dirty: b[2] == 1, Freed: b[3] == 1})
	}
	return out
}

func (h *histEnv) apply(e *HEvent) (crashed bool) {
	delivered := 0
	e.CrashAt = -1
	defer func() {
		if x := recover(); x != nil {
			e.Crash = true
			e.CrashAt = delivered
			crashed = true
			e.Bufs = []BufJ{}
		}
	}()
	d := h.env.d
	q := h.queues[e.Q%len(h.queues)]
	switch e.E {
	case "alloc":
		d.SelectGPU(h.env.ctx, 1)
		e.Ptr = uint64(d.AllocateMemory(h.env.ctx, e.Size))
		e.Done = true
	case "launch":
		if q.NumCommand() != 0 {
			break // the queue is busy: nothing happens
		}
		cmd := &driver.LaunchKernelCommand{ID: sim.GetIDGenerator().Generate(),
			Packet: &kernels.HsaKernelDispatchPacket{}}
		d.Enqueue(q, cmd)
		for _, m := range h.env.settle() {
			if r, ok := m.(*protocol.LaunchKernelReq); ok {
				h.running[e.Q] = r
				e.Done = true
			}
		}
	case "complete":
		r, ok := h.running[e.Q]
		if !ok {
			break
		}
		delete(h.running, e.Q)
		rsp := protocol.NewLaunchKernelRsp(r.Meta().Dst, h.env.gpuPort.AsRemote(), r.Meta().ID)
		if err := h.env.gpuPort.Deliver(rsp); err != nil {
			panic("driver port full")
		}
		h.env.settle()
		e.Done = q.NumCommand() == 0
	case "copy":
		if q.NumCommand() != 0 {
			break
		}
		if e.D2H {
			d.EnqueueMemCopyD2H(q, make([]byte, e.N), driver.Ptr(e.Addr))
		} else {
			d.EnqueueMemCopyH2D(q, driver.Ptr(e.Addr), make([]byte, e.N))
		}
		cmdID := q.Peek().GetID()
		e.After = -1
		defer func() { e.Ends = h.env.ends[cmdID] }()
		// the driver runs out of work before the first answer is delivered
		msgs := h.env.settle()
		var flushes, copies []sim.Msg
		for _, m := range msgs {
			switch m.(type) {
			case *protocol.FlushReq:
				flushes = append(flushes, m)
			case *protocol.MemCopyH2DReq, *protocol.MemCopyD2HReq:
				copies = append(copies, m)
			}
		}
		e.Flush = len(flushes) > 0
		e.NReq = len(flushes) + len(copies)
		if q.NumCommand() == 0 {
			e.After = 0
		}
		for k, m := range append(flushes, copies...) {
			rsp := sim.GeneralRspBuilder{}.WithSrc(m.Meta().Dst).WithDst(h.env.gpuPort.AsRemote()).
				WithOriginalReq(m).Build()
			if err := h.env.gpuPort.Deliver(rsp); err != nil {
				panic("driver port full")
			}
			h.env.settle()
			delivered = k + 1
			if e.After < 0 && q.NumCommand() == 0 {
				e.After = k + 1
			}
		}
		e.Done = q.NumCommand() == 0
	}
	e.Bufs = h.bufs()
	return false
}

func runHist(c *HistCase, evs []HEvent) {
	var h *histEnv
	func() {
		defer func() {
			if x := recover(); x != nil {
				h = nil
			}
		}()
		h = newHistEnv(c)
	}()
	if h == nil {
		c.Events = []HEvent{{E: "setup", Crash: true, Bufs: []BufJ{}}}
		c.InitB = []BufJ{}
		c.Coq = histCoq(c)
		return
	}
	for _, e := range evs {
		ne := HEvent{E: e.E, Q: e.Q, Size: e.Size, D2H: e.D2H, Addr: e.Addr, N: e.N}
		crashed := h.apply(&ne)
		c.Events = append(c.Events, ne)
		if crashed {
			break
		}
	}
	c.Coq = histCoq(c)
}

func replayHist(in HistCase) HistCase {
	c := HistCase{NGPU: in.NGPU, NQ: in.NQ, Init: in.Init}
	runHist(&c, in.Events)
	return c
}

func genHist(rng *vh.Rng) HistCase {
	c := HistCase{NGPU: 1 + rng.Intn(3), NQ: 2 + rng.Intn(3)}
	nb := 1 + rng.Intn(4)
	for i := 0; i < nb; i++ {
		c.Init = append(c.Init, 1+uint64(rng.Intn(6000)))
	}
	h := newHistEnv(&c)
	type span struct{ start, size uint64 }
	var spans []span
	for _, b := range c.InitB {
		spans = append(spans, span{b.Start, b.Size})
	}
	busyKernel := map[int]bool{}
	n := 8 + rng.Intn(30)
	for i := 0; i < n; i++ {
		e := HEvent{Q: rng.Intn(c.NQ)}
		switch rng.Pick(2, 6, 6, 10) {
		case 0:
			e.E = "alloc"
			e.Size = 1 + uint64(rng.Intn(6000))
		case 1:
			e.E = "launch"
		case 2:
			e.E = "complete"
			// prefer a queue that has a kernel in flight
			for q := 0; q < c.NQ; q++ {
				if busyKernel[(e.Q+q)%c.NQ] {
					e.Q = (e.Q + q) % c.NQ
					break
				}
			}
		default:
			e.E = "copy"
			e.D2H = rng.Bool()
			// a queue without a kernel in flight
			for q := 0; q < c.NQ; q++ {
				if !busyKernel[(e.Q+q)%c.NQ] {
					e.Q = (e.Q + q) % c.NQ
					break
				}
			}
			s := spans[rng.Intn(len(spans))]
			off := uint64(rng.Intn(int(s.size)))
			if rng.Intn(3) == 0 {
				off = 0
			}
			e.Addr = s.start + off
			e.N = 1 + uint64(rng.Intn(int(s.size-off)))
			if rng.Intn(4) == 0 {
				e.N = s.size - off
			}
			if rng.Intn(5) == 0 {
				// a copy of zero bytes: strictly inside, at the start of, at the end
				// of or outside the buffer (no copy request; flush requests or not)
				e.N = 0
				switch rng.Intn(5) {
				case 0:
					e.Addr = s.start
				case 1:
					e.Addr = s.start + s.size
				case 2:
					var top uint64
					for _, x := range spans {
						if x.start+x.size > top {
							top = x.start + x.size
						}
					}
					e.Addr = top + 1 + uint64(rng.Intn(3000))
				default:
					if s.size >= 2 {
						e.Addr = s.start + 1 + uint64(rng.Intn(int(s.size-1)))
					}
				}
			}
		}
		crashed := h.apply(&e)
		c.Events = append(c.Events, e)
		if crashed {
			break
		}
		switch e.E {
		case "alloc":
			spans = append(spans, span{e.Ptr, e.Size})
		case "launch":
			if e.Done {
				busyKernel[e.Q] = true
			}
		case "complete":
			delete(busyKernel, e.Q)
		}
	}
	c.Coq = histCoq(&c)
	return c
}

func genHistCases(seed uint64, n int) []HistCase {
	rng := vh.NewRng(seed)
	var out []HistCase
	for i := 0; i < n; i++ {
		out = append(out, genHist(rng.Fork()))
	}
	return out
}

func coqBufs(bs []BufJ) string {
	s := make([]string, len(bs))
	for i, b := range bs {
		s[i] = fmt.Sprintf("mkBuf %d %d %s", b.Start, b.Size, vh.CoqBool(b.Dirty))
	}
	return "[" + strings.Join(s, "; ") + "]"
}

func histCoq(c *HistCase) string {
	var items []string
	for i := range c.Events {
		e := &c.Events[i]
		var ev string
		switch {
		case e.Crash:
			// a panic has no counterpart in the model of the marks: reported as an
			// impossible observation (flush without a copy)
			ev = "HComplete 999999"
			items = append(items, fmt.Sprintf("(%s, mkHObs true [])", ev))
			continue
		case e.E == "alloc":
			ev = fmt.Sprintf("HAlloc %d %d", e.Ptr, e.Size)
		case e.E == "launch" && e.Done:
			ev = fmt.Sprintf("HLaunch %d", e.Q)
		case e.E == "complete":
			ev = fmt.Sprintf("HComplete %d", e.Q)
		case e.E == "copy" && (e.Done || e.Flush):
			ev = fmt.Sprintf("HCopy %d %d", e.Addr, e.N)
		default:
			continue // nothing happened (busy queue)
		}
		items = append(items, fmt.Sprintf("(%s, mkHObs %s %s)", ev, vh.CoqBool(e.Flush), coqBufs(e.Bufs)))
	}
	return fmt.Sprintf("mkHCase %s [%s]", coqBufs(c.InitB), strings.Join(items, ";\n  "))
}
