package main

import (
	"fmt"
	"strings"

	"github.com/sarchlab/akita/v4/mem/mem"
	"github.com/sarchlab/akita/v4/sim"
	"github.com/sarchlab/mgpusim/v4/amd/protocol"
	"github.com/sarchlab/mgpusim/v4/amd/timing/cp"

	"verifharness/vh"
)

const subIDBase = 1000000

type CopyJ struct {
	ID   uint64 `json:"id"`
	Kind string `json:"kind"` // CH2D CD2H COther
	Src  uint64 `json:"src"`
	Addr uint64 `json:"addr"`
	Data []int  `json:"data"`
}

type SubJ struct {
	ID    uint64 `json:"id"`
	Write bool   `json:"write"`
	Addr  uint64 `json:"addr"`
	Size  uint64 `json:"size"`
	Data  []int  `json:"data"`
	DstOK bool   `json:"dst_ok"`
}

type RspJ struct {
	Kind string `json:"kind"` // RData RDone ROther
	To   uint64 `json:"to"`
	Data []int  `json:"data"`
}

type DEvent struct {
	E    string `json:"e"` // dcp dm tick rcp rm
	Copy *CopyJ `json:"copy,omitempty"`
	Rsp  *RspJ  `json:"rsp,omitempty"`
	// observation
	Acc      *bool  `json:"acc,omitempty"`
	Progress *bool  `json:"progress,omitempty"`
	Done     *CopyJ `json:"done,omitempty"`
	Sub      *SubJ  `json:"sub,omitempty"`
	None     bool   `json:"none,omitempty"`
	Crash    bool   `json:"crash,omitempty"`
}

type DmaCase struct {
	Lg      uint64   `json:"lg"`
	Max     int      `json:"max"`
	Hostile bool     `json:"hostile"`
	Drained bool     `json:"drained"`
	Events  []DEvent `json:"events"`
	Coq     string   `json:"coq"`
}

type dmaRunner struct {
	dma       *cp.DMAEngine
	toCP      sim.Port
	toMem     sim.Port
	copyGoID  map[uint64]string // canonical copy id -> Go ID (first delivery)
	copyCanon map[string]uint64
	subGoIDs  []string
}

func agent(n uint64) sim.RemotePort { return sim.RemotePort(fmt.Sprintf("Agent%d", n)) }

func agentNum(p sim.RemotePort) uint64 {
	var n uint64
	if _, err := fmt.Sscanf(string(p), "Agent%d", &n); err != nil {
		return 999999
	}
	return n
}

func newDmaRunner(lg uint64) *dmaRunner {
	engine := sim.NewSerialEngine()
	r := &dmaRunner{copyGoID: map[uint64]string{}, copyCanon: map[string]uint64{}}
	r.dma = cp.NewDMAEngine("DMA", engine, &mem.SinglePortMapper{Port: "Mem"})
	r.dma.Log2AccessSize = lg
	r.toCP = r.dma.ToCP
	r.toMem = r.dma.ToMem
	conn := &vh.StubConn{}
	conn.PlugIn(r.toCP)
	conn.PlugIn(r.toMem)
	return r
}

func (r *dmaRunner) goSubID(canonical uint64) string {
	if canonical >= subIDBase && int(canonical-subIDBase) < len(r.subGoIDs) {
		return r.subGoIDs[canonical-subIDBase]
	}
	return fmt.Sprintf("unknown-%d", canonical)
}

func (r *dmaRunner) copyMsg(c *CopyJ) sim.Msg {
	id, seen := r.copyGoID[c.ID]
	if !seen {
		id = sim.GetIDGenerator().Generate()
		r.copyGoID[c.ID] = id
		r.copyCanon[id] = c.ID
	}
	switch c.Kind {
	case "CH2D":
		q := &protocol.MemCopyH2DReq{}
		q.ID = id
		q.Src = agent(c.Src)
		q.Dst = r.toCP.AsRemote()
		q.SrcBuffer = bytesOf(c.Data)
		q.DstAddress = c.Addr
		return q
	case "CD2H":
		q := &protocol.MemCopyD2HReq{}
		q.ID = id
		q.Src = agent(c.Src)
		q.Dst = r.toCP.AsRemote()
		q.DstBuffer = bytesOf(c.Data)
		q.SrcAddress = c.Addr
		return q
	}
	q := &protocol.FlushReq{}
	q.ID = id
	q.Src = agent(c.Src)
	q.Dst = r.toCP.AsRemote()
	return q
}

func (r *dmaRunner) rspMsg(p *RspJ) sim.Msg {
	switch p.Kind {
	case "RData":
		return mem.DataReadyRspBuilder{}.WithSrc("Mem").WithDst(r.toMem.AsRemote()).
			WithRspTo(r.goSubID(p.To)).WithData(bytesOf(p.Data)).Build()
	case "RDone":
		return mem.WriteDoneRspBuilder{}.WithSrc("Mem").WithDst(r.toMem.AsRemote()).
			WithRspTo(r.goSubID(p.To)).Build()
	}
	return mem.ControlMsgBuilder{}.WithSrc("Mem").WithDst(r.toMem.AsRemote()).Build()
}

func (r *dmaRunner) apply(e *DEvent) (crashed bool) {
	defer func() {
		if x := recover(); x != nil {
			e.Crash = true
			crashed = true
		}
	}()
	switch e.E {
	case "dcp":
		e.Acc = bp(r.toCP.Deliver(r.copyMsg(e.Copy)) == nil)
	case "dm":
		e.Acc = bp(r.toMem.Deliver(r.rspMsg(e.Rsp)) == nil)
	case "tick":
		e.Progress = bp(r.dma.Tick())
	case "rcp":
		m := r.toCP.RetrieveOutgoing()
		if m == nil {
			e.None = true
			break
		}
		rsp, ok := m.(*sim.GeneralRsp)
		if !ok {
			e.Done = &CopyJ{ID: 999999999, Kind: "COther", Data: []int{}}
			break
		}
		d := &CopyJ{ID: 999999999, Kind: "COther", Src: agentNum(rsp.Dst), Data: []int{}}
		switch o := rsp.OriginalReq.(type) {
		case *protocol.MemCopyH2DReq:
			d.Kind = "CH2D"
			d.Addr = o.DstAddress
			d.Data = ints(o.SrcBuffer)
		case *protocol.MemCopyD2HReq:
			d.Kind = "CD2H"
			d.Addr = o.SrcAddress
			d.Data = ints(o.DstBuffer)
		}
		if id, ok := r.copyCanon[rsp.OriginalReq.Meta().ID]; ok {
			d.ID = id
		}
		if rsp.Src != r.toCP.AsRemote() {
			d.ID = 999999998
		}
		e.Done = d
	case "rm":
		m := r.toMem.RetrieveOutgoing()
		if m == nil {
			e.None = true
			break
		}
		s := &SubJ{ID: uint64(subIDBase + len(r.subGoIDs)), Data: []int{}}
		r.subGoIDs = append(r.subGoIDs, m.Meta().ID)
		s.DstOK = m.Meta().Dst == "Mem" && m.Meta().Src == r.toMem.AsRemote()
		switch q := m.(type) {
		case *mem.WriteReq:
			s.Write = true
			s.Addr = q.Address
			s.Size = uint64(len(q.Data))
			s.Data = ints(q.Data)
			if q.DirtyMask != nil {
				s.DstOK = false
			}
		case *mem.ReadReq:
			s.Addr = q.Address
			s.Size = q.AccessByteSize
		default:
			s.DstOK = false
		}
		e.Sub = s
	}
	return false
}

func memDefault(a uint64) byte { return byte(a*131 + 7) }

type flatMem map[uint64]byte

func (m flatMem) read(a, n uint64) []byte {
	o := make([]byte, n)
	for i := uint64(0); i < n; i++ {
		if v, ok := m[a+i]; ok {
			o[i] = v
		} else {
			o[i] = memDefault(a + i)
		}
	}
	return o
}

func (m flatMem) write(a uint64, d []byte) {
	for i, v := range d {
		m[a+uint64(i)] = v
	}
}

func pickLen(rng *vh.Rng, unit uint64) uint64 {
	switch rng.Pick(3, 3, 3, 2, 1) {
	case 0:
		return 1 + uint64(rng.Intn(int(unit)))
	case 1:
		return unit*uint64(1+rng.Intn(3)) + uint64(rng.Intn(3)) - 1
	case 2:
		return 1 + uint64(rng.Intn(int(4*unit)))
	case 3:
		return unit * uint64(1+rng.Intn(4))
	}
	return 1 + uint64(rng.Intn(int(12*unit)))
}

func pickAddr(rng *vh.Rng, unit uint64) uint64 {
	base := uint64(rng.Intn(40)) * unit
	if rng.Intn(6) == 0 {
		base += uint64(rng.Intn(1<<20)) * unit
	}
	switch rng.Pick(3, 2, 2, 3) {
	case 0:
		return base
	case 1:
		return base + unit - 1 - uint64(rng.Intn(2))
	case 2:
		return base + 1 + uint64(rng.Intn(2))
	}
	return base + uint64(rng.Intn(int(unit)))
}

func genDma(rng *vh.Rng, hostile bool) DmaCase {
	lgs := []uint64{6, 6, 6, 4, 3, 2}
	c := DmaCase{Lg: lgs[rng.Intn(len(lgs))], Max: 4, Hostile: hostile}
	unit := uint64(1) << c.Lg
	r := newDmaRunner(c.Lg)
	memory := flatMem{}
	n := 60 + rng.Intn(240)
	maxCopies := 3 + rng.Intn(12)
	var outstanding []SubJ
	var answered []SubJ
	nextCopy := uint64(1)
	wCopy := 6 + rng.Intn(20)
	wAns := 10 + rng.Intn(40)
	wRm := 6 + rng.Intn(20)
	wTick := 25
	longCopies := false
	burst := false
	switch rng.Intn(6) {
	case 0: // the memory side is rarely drained: ToMem's outgoing buffer (64) fills up
		wRm = 1
		longCopies = true
	case 1: // answers arrive in bursts between rare ticks: ToMem's incoming buffer (64) fills up
		burst = true
		longCopies = true
		n = 500 + rng.Intn(200)
	}
	crashed := false

	step := func(e DEvent) {
		if crashed {
			return
		}
		crashed = r.apply(&e)
		c.Events = append(c.Events, e)
		if e.E == "rm" && e.Sub != nil {
			outstanding = append(outstanding, *e.Sub)
		}
	}
	answer := func(o SubJ) DEvent {
		p := &RspJ{To: o.ID, Data: []int{}}
		if o.Write {
			p.Kind = "RDone"
		} else {
			p.Kind = "RData"
			p.Data = ints(memory.read(o.Addr, o.Size))
		}
		return DEvent{E: "dm", Rsp: p}
	}
	// deliver the answer for outstanding[k]; the memory commits a write only when
	// the port took the response (otherwise it will try again later)
	answerAt := func(k int) bool {
		o := outstanding[k]
		before := len(c.Events)
		step(answer(o))
		if len(c.Events) == before || c.Events[before].Acc == nil || !*c.Events[before].Acc {
			return false
		}
		if o.Write {
			memory.write(o.Addr, bytesOf(o.Data))
		}
		outstanding = append(outstanding[:k], outstanding[k+1:]...)
		answered = append(answered, o)
		return true
	}

	for i := 0; i < n && !crashed; i++ {
		if burst {
			if i < n/2 {
				wCopy, wAns, wTick, wRm = 10, 0, 40, 30
			} else {
				wCopy, wAns, wTick, wRm = 0, 90, 1, 2
			}
		}
		switch rng.Pick(wCopy, wAns, wTick, 8, wRm) {
		case 0:
			if int(nextCopy) > maxCopies {
				step(DEvent{E: "tick"})
				break
			}
			cj := &CopyJ{ID: nextCopy, Src: uint64(10 + rng.Intn(3)), Addr: pickAddr(rng, unit)}
			nextCopy++
			ln := pickLen(rng, unit)
			if longCopies && rng.Bool() {
				ln = unit*uint64(18+rng.Intn(14)) + uint64(rng.Intn(int(unit)))
			}
			if rng.Bool() {
				cj.Kind = "CH2D"
				d := make([]byte, ln)
				for j := range d {
					d[j] = byte(rng.U64())
				}
				cj.Data = ints(d)
			} else {
				cj.Kind = "CD2H"
				cj.Data = make([]int, ln)
			}
			if !hostile && rng.Intn(12) == 0 {
				cj.Data = []int{} // a command of zero bytes is answered at once
			}
			if hostile {
				switch rng.Intn(8) {
				case 0:
					cj.Kind = "COther"
					cj.Data = []int{}
				case 1:
					if nextCopy > 2 {
						cj.ID = 1 + uint64(rng.Intn(int(nextCopy-2))) // an ID used before
					}
				case 2:
					cj.Data = []int{} // zero-length copy
				}
			}
			step(DEvent{E: "dcp", Copy: cj})
		case 1:
			if hostile && rng.Intn(4) == 0 {
				p := &RspJ{Data: []int{}}
				switch rng.Intn(5) {
				case 0: // duplicate answer
					if len(answered) > 0 {
						o := answered[rng.Intn(len(answered))]
						e := answer(o)
						step(e)
						continue
					}
					p.Kind, p.To = "RDone", 777001
				case 1: // identifier never issued
					p.Kind, p.To = "RData", 777000+uint64(rng.Intn(4))
					p.Data = []int{1, 2, 3}
				case 2: // wrong kind of answer
					if len(outstanding) > 0 {
						k := rng.Intn(len(outstanding))
						o := outstanding[k]
						outstanding = append(outstanding[:k], outstanding[k+1:]...)
						answered = append(answered, o)
						p.To = o.ID
						if o.Write {
							p.Kind = "RData"
							p.Data = []int{9, 9}
						} else {
							p.Kind = "RDone"
						}
					} else {
						p.Kind, p.To = "ROther", 0
					}
				case 3: // wrong payload length
					if len(outstanding) > 0 {
						k := rng.Intn(len(outstanding))
						o := outstanding[k]
						if !o.Write {
							outstanding = append(outstanding[:k], outstanding[k+1:]...)
							answered = append(answered, o)
							p.Kind, p.To = "RData", o.ID
							ln := int(o.Size) + rng.Intn(5) - 2
							if ln < 0 {
								ln = 0
							}
							p.Data = ints(memory.read(o.Addr, uint64(ln)))
							break
						}
					}
					p.Kind, p.To = "ROther", 0
				default:
					p.Kind, p.To = "ROther", 0
				}
				step(DEvent{E: "dm", Rsp: p})
				break
			}
			if len(outstanding) == 0 {
				step(DEvent{E: "tick"})
				break
			}
			answerAt(rng.Intn(len(outstanding)))
		case 2:
			step(DEvent{E: "tick"})
		case 3:
			step(DEvent{E: "rcp"})
		case 4:
			step(DEvent{E: "rm"})
		}
	}
	// drain: the memory answers everything, the CP collects every completion
	if !hostile && !crashed {
		quiet := 0
		for it := 0; it < 20000 && quiet < 4 && !crashed; it++ {
			progress := false
			for len(outstanding) > 0 && !crashed {
				if !answerAt(rng.Intn(len(outstanding))) {
					break // port full: tick first
				}
				progress = true
			}
			step(DEvent{E: "tick"})
			if len(c.Events) > 0 && c.Events[len(c.Events)-1].Progress != nil && *c.Events[len(c.Events)-1].Progress {
				progress = true
			}
			for !crashed {
				step(DEvent{E: "rm"})
				if c.Events[len(c.Events)-1].None {
					break
				}
				progress = true
			}
			for !crashed {
				step(DEvent{E: "rcp"})
				if c.Events[len(c.Events)-1].None {
					break
				}
				progress = true
			}
			if progress {
				quiet = 0
			} else {
				quiet++
			}
		}
		c.Drained = quiet >= 4
	}
	c.Coq = dmaCoq(&c)
	return c
}

func replayDma(in DmaCase) DmaCase {
	r := newDmaRunner(in.Lg)
	out := DmaCase{Lg: in.Lg, Max: 4, Hostile: in.Hostile, Drained: in.Drained}
	for _, e := range in.Events {
		ne := DEvent{E: e.E, Copy: e.Copy, Rsp: e.Rsp}
		crashed := r.apply(&ne)
		out.Events = append(out.Events, ne)
		if crashed {
			break
		}
	}
	out.Coq = dmaCoq(&out)
	return out
}

func coqInts(a []int) string {
	s := make([]string, len(a))
	for i, x := range a {
		s[i] = fmt.Sprintf("%d", x)
	}
	return "[" + strings.Join(s, ";") + "]"
}

func (c *CopyJ) coq() string {
	return fmt.Sprintf("(mkCopy %d %s %d %d %s)", c.ID, c.Kind, c.Src, c.Addr, coqInts(c.Data))
}

func (s *SubJ) coq() string {
	return fmt.Sprintf("(mkSub %d %s %d %d %s)", s.ID, vh.CoqBool(s.Write), s.Addr, s.Size, coqInts(s.Data))
}

func dmaEvCoq(e *DEvent) string {
	var ev, ob string
	switch e.E {
	case "dcp":
		ev = "EDeliverCP " + e.Copy.coq()
	case "dm":
		ev = fmt.Sprintf("EDeliverMem (mkRsp %s %d %s)", e.Rsp.Kind, e.Rsp.To, coqInts(e.Rsp.Data))
	case "tick":
		ev = "ETick"
	case "rcp":
		ev = "ERetrCP"
	case "rm":
		ev = "ERetrMem"
	}
	switch {
	case e.Crash:
		ob = "OCrash"
	case e.Acc != nil:
		ob = "OAcc " + vh.CoqBool(*e.Acc)
	case e.Progress != nil:
		ob = "OTick " + vh.CoqBool(*e.Progress)
	case e.None && e.E == "rcp":
		ob = "ODone None"
	case e.None:
		ob = "OSub None"
	case e.Done != nil:
		ob = "ODone (Some " + e.Done.coq() + ")"
	case e.Sub != nil:
		ob = "OSub (Some " + e.Sub.coq() + ")"
	}
	return "(" + ev + ", " + ob + ")"
}

func dmaCoq(c *DmaCase) string {
	items := make([]string, len(c.Events))
	for i := range c.Events {
		items[i] = dmaEvCoq(&c.Events[i])
	}
	return fmt.Sprintf("mkCase %d %s [%s]", c.Lg, vh.CoqNat(c.Max), strings.Join(items, ";\n  "))
}

func genDmaCases(seed uint64, n int) []DmaCase {
	rng := vh.NewRng(seed)
	var out []DmaCase
	for i := 0; i < n; i++ {
		out = append(out, genDma(rng.Fork(), i%5 == 4))
	}
	return out
}
