package main

import (
	"fmt"
	"strings"

	"github.com/sarchlab/akita/v4/mem/cache"
	"github.com/sarchlab/akita/v4/sim"
	"github.com/sarchlab/mgpusim/v4/amd/protocol"
	"github.com/sarchlab/mgpusim/v4/amd/timing/cp"

	"verifharness/vh"
)

// The real CommandProcessor driven through ToDriver, ToDMA and ToCaches: the
// harness plays the driver (FlushReq, MemCopyH2D/D2HReq), the DMA engine
// (answers the cloned copy requests) and the caches (acknowledge flushes).

const cloneBase = 1000000

type DReqJ struct {
	ID   uint64 `json:"id"`
	Kind string `json:"kind"` // DFlush DH2D DD2H DOther
	Src  uint64 `json:"src"`
}

type DRspJ struct {
	Orig uint64 `json:"orig"`
	Kind string `json:"kind"`
	Dst  uint64 `json:"dst"`
}

type CloneJ struct {
	ID    uint64 `json:"id"`
	Orig  uint64 `json:"orig"`
	Kind  string `json:"kind"`
	DstOK bool   `json:"dst_ok"`
}

type CEvent struct {
	E     string  `json:"e"` // ddrv ddma dcache tick rdrv rdma rcache
	Req   *DReqJ  `json:"req,omitempty"`
	RspTo *uint64 `json:"rspto,omitempty"` // ddma: clone answered (nil = a message of another type)
	Bad   bool    `json:"bad,omitempty"`   // dcache: a message of another type
	// observation
	Acc      *bool   `json:"acc,omitempty"`
	Progress *bool   `json:"progress,omitempty"`
	Rsp      *DRspJ  `json:"rsp,omitempty"`
	Clone    *CloneJ `json:"clone,omitempty"`
	Cache    *uint64 `json:"cache,omitempty"`
	None     bool    `json:"none,omitempty"`
	Panic    bool    `json:"panic,omitempty"`
}

type CprCase struct {
	NCache  [4]int   `json:"ncache"` // L1I, L1S, L1V, L2
	Cap     int      `json:"cap"`    // ToDriver buffers (0 = 4096)
	Hostile bool     `json:"hostile"`
	Drained bool     `json:"drained"`
	Events  []CEvent `json:"events"`
	Coq     string   `json:"coq"`
}

type cprRunner struct {
	c         *cp.CommandProcessor
	cacheIdx  map[sim.RemotePort]uint64
	reqCanon  map[string]uint64 // Go ID of a driver request -> canonical
	reqKind   map[string]string
	cloneGoID []string
}

func newCprRunner(c *CprCase) *cprRunner {
	engine := sim.NewSerialEngine()
	b := cp.MakeBuilder().WithEngine(engine).WithFreq(1 * sim.GHz)
	r := &cprRunner{cacheIdx: map[sim.RemotePort]uint64{}, reqCanon: map[string]uint64{}, reqKind: map[string]string{}}
	r.c = cp.VerifBuild(b, "CP", "round-robin", c.Cap)
	n := uint64(0)
	mk := func(kind string, k int) []sim.Port {
		var ps []sim.Port
		for i := 0; i < k; i++ {
			p := sim.NewPort(nil, 1, 1, fmt.Sprintf("%s%d.Control", kind, i))
			ps = append(ps, p)
			r.cacheIdx[p.AsRemote()] = n
			n++
		}
		return ps
	}
	r.c.L1ICaches = mk("L1I", c.NCache[0])
	r.c.L1SCaches = mk("L1S", c.NCache[1])
	r.c.L1VCaches = mk("L1V", c.NCache[2])
	r.c.L2Caches = mk("L2", c.NCache[3])
	r.c.Driver = sim.NewPort(nil, 1, 1, "Agent1")
	r.c.DMAEngine = sim.NewPort(nil, 1, 1, "DMA.ToCP")
	conn := &vh.StubConn{}
	for _, p := range []sim.Port{r.c.ToDriver, r.c.ToDMA, r.c.ToCaches, r.c.ToCUs, r.c.ToTLBs, r.c.ToRDMA,
		r.c.ToPMC, r.c.ToAddressTranslators} {
		conn.PlugIn(p)
	}
	return r
}

func (r *cprRunner) driverMsg(q *DReqJ) sim.Msg {
	id := sim.GetIDGenerator().Generate()
	r.reqCanon[id] = q.ID
	r.reqKind[id] = q.Kind
	var m sim.Msg
	switch q.Kind {
	case "DFlush":
		m = &protocol.FlushReq{}
	case "DH2D":
		m = &protocol.MemCopyH2DReq{SrcBuffer: []byte{1, 2, 3, 4}, DstAddress: q.ID} // the address names the request
	case "DD2H":
		m = &protocol.MemCopyD2HReq{DstBuffer: make([]byte, 4), SrcAddress: q.ID}
	default:
		m = &sim.GeneralRsp{}
	}
	m.Meta().ID = id
	m.Meta().Src = agent(q.Src)
	m.Meta().Dst = r.c.ToDriver.AsRemote()
	return m
}

func (r *cprRunner) apply(e *CEvent) (crashed bool) {
	defer func() {
		if x := recover(); x != nil {
			e.Panic = true
			crashed = true
		}
	}()
	switch e.E {
	case "ddrv":
		e.Acc = bp(r.c.ToDriver.Deliver(r.driverMsg(e.Req)) == nil)
	case "ddma":
		var m sim.Msg
		if e.RspTo == nil {
			m = &protocol.FlushReq{}
			m.Meta().ID = sim.GetIDGenerator().Generate()
		} else {
			goID := fmt.Sprintf("unknown-%d", *e.RspTo)
			if *e.RspTo >= cloneBase && int(*e.RspTo-cloneBase) < len(r.cloneGoID) {
				goID = r.cloneGoID[*e.RspTo-cloneBase]
			}
			orig := &protocol.MemCopyH2DReq{}
			orig.ID = goID
			m = sim.GeneralRspBuilder{}.WithSrc("DMA.ToCP").WithDst(r.c.ToDMA.AsRemote()).WithOriginalReq(orig).Build()
		}
		m.Meta().Src = "DMA.ToCP"
		m.Meta().Dst = r.c.ToDMA.AsRemote()
		e.Acc = bp(r.c.ToDMA.Deliver(m) == nil)
	case "dcache":
		var m sim.Msg
		if e.Bad {
			m = cache.FlushReqBuilder{}.WithSrc("L2").WithDst(r.c.ToCaches.AsRemote()).Build()
		} else {
			m = cache.FlushRspBuilder{}.WithSrc("L2").WithDst(r.c.ToCaches.AsRemote()).Build()
		}
		e.Acc = bp(r.c.ToCaches.Deliver(m) == nil)
	case "tick":
		e.Progress = bp(r.c.Tick())
	case "rdrv":
		m := r.c.ToDriver.RetrieveOutgoing()
		if m == nil {
			e.None = true
			break
		}
		out := &DRspJ{Orig: 999999999, Kind: "DOther", Dst: agentNum(m.Meta().Dst)}
		if rsp, ok := m.(*sim.GeneralRsp); ok && rsp.OriginalReq != nil {
			if id, ok := r.reqCanon[rsp.OriginalReq.Meta().ID]; ok {
				out.Orig = id
				out.Kind = r.reqKind[rsp.OriginalReq.Meta().ID]
			}
		}
		e.Rsp = out
	case "rdma":
		m := r.c.ToDMA.RetrieveOutgoing()
		if m == nil {
			e.None = true
			break
		}
		cl := &CloneJ{ID: uint64(cloneBase + len(r.cloneGoID)), Orig: 999999999, Kind: "DOther"}
		r.cloneGoID = append(r.cloneGoID, m.Meta().ID)
		cl.DstOK = m.Meta().Dst == "DMA.ToCP" && m.Meta().Src == r.c.ToDMA.AsRemote()
		switch q := m.(type) {
		case *protocol.MemCopyH2DReq:
			cl.Kind = "DH2D"
			cl.Orig = q.DstAddress
		case *protocol.MemCopyD2HReq:
			cl.Kind = "DD2H"
			cl.Orig = q.SrcAddress
		}
		e.Clone = cl
	case "rcache":
		m := r.c.ToCaches.RetrieveOutgoing()
		if m == nil {
			e.None = true
			break
		}
		idx, ok := r.cacheIdx[m.Meta().Dst]
		if !ok {
			idx = 999999
		}
		if _, isFlush := m.(*cache.FlushReq); !isFlush {
			idx = 999998
		}
		e.Cache = &idx
	}
	return false
}

func genCpr(rng *vh.Rng, hostile bool) CprCase {
	c := CprCase{Hostile: hostile}
	switch rng.Intn(5) {
	case 0:
		c.NCache = [4]int{0, 0, 0, 0}
	case 1:
		c.NCache = [4]int{0, 0, 0, 1}
	default:
		c.NCache = [4]int{rng.Intn(2), rng.Intn(2), rng.Intn(3), 1 + rng.Intn(3)}
	}
	if rng.Intn(3) == 0 {
		c.Cap = 1 + rng.Intn(3)
	}
	r := newCprRunner(&c)
	n := 40 + rng.Intn(160)
	nextID := uint64(1)
	var clones []uint64 // retrieved, not yet answered
	acksOwed := 0       // cache flush requests retrieved, not yet acknowledged
	wAck := 8 + rng.Intn(25)
	wDma := 8 + rng.Intn(25)
	for i := 0; i < n; i++ {
		var e CEvent
		switch rng.Pick(18, wDma, wAck, 25, 10, 10, 12) {
		case 0:
			q := &DReqJ{ID: nextID, Src: uint64(10 + rng.Intn(3))}
			nextID++
			q.Kind = []string{"DFlush", "DH2D", "DD2H", "DH2D", "DD2H"}[rng.Intn(5)]
			if hostile && rng.Intn(10) == 0 {
				q.Kind = "DOther"
			}
			e = CEvent{E: "ddrv", Req: q}
		case 1:
			if hostile && rng.Intn(5) == 0 {
				if rng.Bool() {
					e = CEvent{E: "ddma"} // not a response
				} else {
					x := uint64(cloneBase + 500 + rng.Intn(3)) // a clone that was never sent
					e = CEvent{E: "ddma", RspTo: &x}
				}
				break
			}
			if len(clones) == 0 {
				e = CEvent{E: "tick"}
				break
			}
			k := rng.Intn(len(clones))
			x := clones[k]
			clones = append(clones[:k], clones[k+1:]...)
			e = CEvent{E: "ddma", RspTo: &x}
		case 2:
			if hostile && rng.Intn(6) == 0 {
				e = CEvent{E: "dcache", Bad: rng.Intn(3) == 0} // unsolicited or ill-typed
				break
			}
			if acksOwed == 0 {
				e = CEvent{E: "tick"}
				break
			}
			acksOwed--
			e = CEvent{E: "dcache"}
		case 3:
			e = CEvent{E: "tick"}
		case 4:
			e = CEvent{E: "rdrv"}
		case 5:
			e = CEvent{E: "rdma"}
		default:
			e = CEvent{E: "rcache"}
		}
		crashed := r.apply(&e)
		c.Events = append(c.Events, e)
		if crashed {
			break
		}
		if e.E == "rdma" && e.Clone != nil {
			clones = append(clones, e.Clone.ID)
		}
		if e.E == "rcache" && e.Cache != nil {
			acksOwed++
		}
	}
	// drain: caches acknowledge, the DMA engine answers, the driver side collects
	crashedAny := false
	for _, e := range c.Events {
		crashedAny = crashedAny || e.Panic
	}
	if !hostile && !crashedAny {
		do := func(e CEvent) CEvent {
			r.apply(&e)
			c.Events = append(c.Events, e)
			return e
		}
		quiet := 0
		for it := 0; it < 5000 && quiet < 3; it++ {
			progress := false
			for {
				e := do(CEvent{E: "rcache"})
				if e.None {
					break
				}
				acksOwed++
				progress = true
			}
			for acksOwed > 0 {
				do(CEvent{E: "dcache"})
				acksOwed--
				progress = true
			}
			for {
				e := do(CEvent{E: "rdma"})
				if e.None {
					break
				}
				clones = append(clones, e.Clone.ID)
				progress = true
			}
			for len(clones) > 0 {
				x := clones[0]
				clones = clones[1:]
				do(CEvent{E: "ddma", RspTo: &x})
				progress = true
			}
			if e := do(CEvent{E: "tick"}); e.Progress != nil && *e.Progress {
				progress = true
			}
			for {
				e := do(CEvent{E: "rdrv"})
				if e.None {
					break
				}
				progress = true
			}
			if progress {
				quiet = 0
			} else {
				quiet++
			}
		}
		c.Drained = quiet >= 3
	}
	c.Coq = cprCoq(&c)
	return c
}

func replayCpr(in CprCase) CprCase {
	c := CprCase{NCache: in.NCache, Cap: in.Cap, Hostile: in.Hostile, Drained: in.Drained}
	r := newCprRunner(&c)
	for _, e := range in.Events {
		ne := CEvent{E: e.E, Req: e.Req, RspTo: e.RspTo, Bad: e.Bad}
		crashed := r.apply(&ne)
		c.Events = append(c.Events, ne)
		if crashed {
			break
		}
	}
	c.Coq = cprCoq(&c)
	return c
}

func genCprCases(seed uint64, n int) []CprCase {
	rng := vh.NewRng(seed)
	var out []CprCase
	for i := 0; i < n; i++ {
		out = append(out, genCpr(rng.Fork(), i%5 == 4))
	}
	return out
}

func cprCoq(c *CprCase) string {
	items := make([]string, 0, len(c.Events))
	for i := range c.Events {
		e := &c.Events[i]
		var ev, ob string
		switch e.E {
		case "ddrv":
			ev = fmt.Sprintf("EDrv (mkDReq %d %s %d)", e.Req.ID, e.Req.Kind, e.Req.Src)
		case "ddma":
			if e.RspTo == nil {
				ev = "EDma MOther"
			} else {
				ev = fmt.Sprintf("EDma (MRsp %d)", *e.RspTo)
			}
		case "dcache":
			if e.Bad {
				ev = "ECache CBad"
			} else {
				ev = "ECache CAck"
			}
		case "tick":
			ev = "ETick"
		case "rdrv":
			ev = "ERetrDrv"
		case "rdma":
			ev = "ERetrDma"
		case "rcache":
			ev = "ERetrCache"
		}
		switch {
		case e.Panic:
			ob = "OPanic"
		case e.Acc != nil:
			ob = "OAcc " + vh.CoqBool(*e.Acc)
		case e.Progress != nil:
			ob = "OTick " + vh.CoqBool(*e.Progress)
		case e.None && e.E == "rdrv":
			ob = "ORsp None"
		case e.None && e.E == "rdma":
			ob = "OClone None"
		case e.None:
			ob = "OCache None"
		case e.Rsp != nil:
			ob = fmt.Sprintf("ORsp (Some (mkDRsp %d %s %d))", e.Rsp.Orig, e.Rsp.Kind, e.Rsp.Dst)
		case e.Clone != nil:
			ob = fmt.Sprintf("OClone (Some (mkClone %d %d %s))", e.Clone.ID, e.Clone.Orig, e.Clone.Kind)
		case e.Cache != nil:
			ob = fmt.Sprintf("OCache (Some %d)", *e.Cache)
		}
		items = append(items, "("+ev+", "+ob+")")
	}
	nc := c.NCache[0] + c.NCache[1] + c.NCache[2] + c.NCache[3]
	dcap := c.Cap
	if dcap <= 0 {
		dcap = 4096
	}
	return fmt.Sprintf("mkCCase %s %d [%s]", vh.CoqNat(nc), dcap, strings.Join(items, ";\n  "))
}
