// Command c11 exercises the host-device copy paths of the real code:
//
//	dma: the real cp.DMAEngine driven through its two ports (the harness plays
//	     the command processor and the memory),
//	drv: a standalone driver.Driver with the "magic" (global storage) or the
//	     default memory-copy middleware (the harness plays the GPUs), plus the
//	     emulator's storage accessor on the same storage and page table,
//	ovl: samples of driver.memRangeOverlap.
//
// It records canonical observations as JSON and as Coq terms.
package main

import (
	"encoding/json"
	"flag"
	"io"
	"log"
	"os"
)

type Out struct {
	Dma  []DmaCase  `json:"dma"`
	Drv  []DrvCase  `json:"drv"`
	Ovl  []OvlCase  `json:"ovl"`
	Hist []HistCase `json:"hist"`
	Cpr  []CprCase  `json:"cpr"`
	Seq  []SeqCase  `json:"seq"`
}

func ints(b []byte) []int {
	o := make([]int, len(b))
	for i, x := range b {
		o[i] = int(x)
	}
	return o
}

func bytesOf(a []int) []byte {
	o := make([]byte, len(a))
	for i, x := range a {
		o[i] = byte(x)
	}
	return o
}

func bp(b bool) *bool { return &b }

func main() {
	seed := flag.Uint64("seed", 1, "seed")
	nDma := flag.Int("ndma", 60, "number of DMA histories")
	nDrv := flag.Int("ndrv", 60, "number of driver cases")
	nOvl := flag.Int("novl", 300, "number of overlap samples")
	nHist := flag.Int("nhist", 60, "number of multi-queue flush histories")
	nCpr := flag.Int("ncpr", 80, "number of command-processor relay histories")
	nSeq := flag.Int("nseq", 60, "number of batch / remap sequences")
	out := flag.String("out", "", "output JSON file")
	rep := flag.String("replay", "", "JSON file with cases to replay ({dma:[],drv:[],ovl:[]})")
	flag.Parse()
	log.SetOutput(io.Discard)

	var res Out
	if *rep != "" {
		data, err := os.ReadFile(*rep)
		if err != nil {
			panic(err)
		}
		var in Out
		if err := json.Unmarshal(data, &in); err != nil {
			panic(err)
		}
		for _, c := range in.Dma {
			res.Dma = append(res.Dma, replayDma(c))
		}
		for _, c := range in.Drv {
			res.Drv = append(res.Drv, replayDrv(c))
		}
		for _, c := range in.Ovl {
			res.Ovl = append(res.Ovl, runOvl(c))
		}
		for _, c := range in.Hist {
			res.Hist = append(res.Hist, replayHist(c))
		}
		for _, c := range in.Cpr {
			res.Cpr = append(res.Cpr, replayCpr(c))
		}
		for _, c := range in.Seq {
			res.Seq = append(res.Seq, replaySeq(c))
		}
	} else {
		res.Dma = genDmaCases(*seed, *nDma)
		res.Drv = genDrvCases(*seed+7777, *nDrv)
		res.Ovl = genOvlCases(*seed+999, *nOvl)
		res.Hist = genHistCases(*seed+31337, *nHist)
		res.Cpr = genCprCases(*seed+4242, *nCpr)
		res.Seq = genSeqCases(*seed+9090, *nSeq)
	}
	if res.Dma == nil {
		res.Dma = []DmaCase{}
	}
	if res.Drv == nil {
		res.Drv = []DrvCase{}
	}
	if res.Ovl == nil {
		res.Ovl = []OvlCase{}
	}
	if res.Hist == nil {
		res.Hist = []HistCase{}
	}
	if res.Cpr == nil {
		res.Cpr = []CprCase{}
	}
	if res.Seq == nil {
		res.Seq = []SeqCase{}
	}
	data, _ := json.Marshal(res)
	if *out == "" {
		os.Stdout.Write(data)
	} else if err := os.WriteFile(*out, data, 0o644); err != nil {
		panic(err)
	}
}
