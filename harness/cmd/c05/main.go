// Command c05 is the harness of property C05 (reproducibility).
//
//	c05 engine --seed S --n N --out cases.json [--replay in.json]
//	    drives the real sim.SerialEngine of akita with generated schedules of
//	    dummy events whose handlers schedule further events, twice per case
//	    (fresh engine, differently allocated events), and records the order in
//	    which the handlers ran, the panic flag and the final CurrentTime()
//	    together with the Coq term that lets the model replay the same script.
//
//	c05 sim <workload> <size> <rounds> -- <runner flags>
//	    runs one whole simulation in this process exactly as the samples do
//	    (runner.Runner) and prints one JSON line with the final simulated time
//	    (bit pattern) and a digest of the data read back from the device; the
//	    metrics go to the sqlite file that the runner writes into cwd.
package main

import (
	"crypto/sha256"
	"encoding/hex"
	"encoding/json"
	"flag"
	"fmt"
	"io"
	"log"
	"math"
	"os"
	"strconv"
	"strings"
	"sync/atomic"
	"time"

	"github.com/sarchlab/akita/v4/sim"
	"github.com/sarchlab/akita/v4/tracing"
	"github.com/sarchlab/mgpusim/v4/amd/benchmarks/amdappsdk/matrixmultiplication"
	"github.com/sarchlab/mgpusim/v4/amd/benchmarks/amdappsdk/matrixtranspose"
	"github.com/sarchlab/mgpusim/v4/amd/benchmarks/heteromark/fir"
	"github.com/sarchlab/mgpusim/v4/amd/driver"
	"github.com/sarchlab/mgpusim/v4/amd/insts"
	"github.com/sarchlab/mgpusim/v4/amd/samples/runner"

	"verifharness/vh"
)

// ---------------------------------------------------------------- engine mode

type Kid struct {
	D    uint64 `json:"d"`
	Back bool   `json:"back"`
	Sec  bool   `json:"sec"`
	ID   uint64 `json:"id"`
}

type Row struct {
	ID   uint64 `json:"id"`
	Kids []Kid  `json:"kids"`
}

type Top struct {
	Op  string `json:"op"` // "sched" | "run"
	T   uint64 `json:"t,omitempty"`
	Sec bool   `json:"sec,omitempty"`
	ID  uint64 `json:"id,omitempty"`
}

type Case struct {
	Tbl     []Row  `json:"tbl"`
	Tops    []Top  `json:"tops"`
	Hostile bool   `json:"hostile"`
	Fuel    int    `json:"fuel"`
	Kind    string `json:"kind,omitempty"`

	Handled  [][2]uint64 `json:"handled,omitempty"`
	Handled2 [][2]uint64 `json:"handled2,omitempty"`
	Crashed  bool        `json:"crashed"`
	Crashed2 bool        `json:"crashed2"`
	Now      uint64      `json:"now"`
	Now2     uint64      `json:"now2"`
	Coq      string      `json:"coq,omitempty"`
}

type dummyEvent struct {
	pad  []byte
	t    sim.VTimeInSec
	sec  bool
	id   uint64
	hdlr sim.Handler
}

func (e *dummyEvent) Time() sim.VTimeInSec { return e.t }
func (e *dummyEvent) Handler() sim.Handler { return e.hdlr }
func (e *dummyEvent) IsSecondary() bool    { return e.sec }

type scriptHandler struct {
	eng   *sim.SerialEngine
	kids  map[uint64][]Kid
	trace [][2]uint64
	pad   int
	sink  [][]byte
}

func (h *scriptHandler) mk(t float64, sec bool, id uint64) *dummyEvent {
	// perturb the allocator between the two executions of a case
	var p []byte
	if h.pad > 0 {
		p = make([]byte, (int(id)*h.pad)%257+1)
		h.sink = append(h.sink, make([]byte, (int(id)*7)%129+1))
	}
	return &dummyEvent{pad: p, t: sim.VTimeInSec(t), sec: sec, id: id, hdlr: h}
}

func (h *scriptHandler) Handle(e sim.Event) error {
	ev := e.(*dummyEvent)
	h.trace = append(h.trace, [2]uint64{ev.id, uint64(ev.t)})
	now := float64(h.eng.CurrentTime())
	for _, k := range h.kids[ev.id] {
		t := now + float64(k.D)
		if k.Back {
			t = now - float64(k.D)
			if t < 0 {
				t = 0
			}
		}
		h.eng.Schedule(h.mk(t, k.Sec, k.ID))
	}
	return nil
}

// execute one script on a fresh real engine
func execute(c *Case, pad int) (trace [][2]uint64, crashed bool, now uint64) {
	eng := sim.NewSerialEngine()
	h := &scriptHandler{eng: eng, kids: map[uint64][]Kid{}, pad: pad}
	for _, r := range c.Tbl {
		if _, dup := h.kids[r.ID]; !dup { // first row wins, as find_kids
			h.kids[r.ID] = r.Kids
		}
	}
	func() {
		defer func() {
			if r := recover(); r != nil {
				crashed = true
			}
		}()
		for _, o := range c.Tops {
			switch o.Op {
			case "sched":
				eng.Schedule(h.mk(float64(o.T), o.Sec, o.ID))
			case "run":
				if err := eng.Run(); err != nil {
					panic(err)
				}
			}
		}
	}()
	return h.trace, crashed, uint64(eng.CurrentTime())
}

func genCase(r *vh.Rng, idx int) Case {
	var c Case
	budget := 4 + r.Intn(60)
	maxDelta := 1 + r.Intn(4) // small deltas -> many equal-time events
	kind := r.Pick(5, 2, 2, 1)
	switch kind {
	case 1:
		maxDelta = 1 // everything at the same few instants
		c.Kind = "ties"
	case 2:
		c.Kind = "secondary-heavy"
	case 3:
		c.Kind = "hostile"
		c.Hostile = true
	default:
		c.Kind = "mixed"
	}
	next := uint64(1)
	fresh := func() uint64 { next++; return next - 1 }
	secP := 4
	if kind == 2 {
		secP = 2
	}
	var pending []uint64 // ids that exist and may get children
	nTopRounds := 1 + r.Intn(3)
	tmax := uint64(0)
	for round := 0; round < nTopRounds && int(next) <= budget; round++ {
		k := 1 + r.Intn(6)
		for i := 0; i < k && int(next) <= budget; i++ {
			id := fresh()
			t := tmax + uint64(r.Intn(maxDelta+1))
			if round > 0 {
				t = tmax + uint64(r.Intn(3*maxDelta+1)) // later rounds: at or after a guess of "now"
			}
			if c.Hostile && round > 0 && r.Intn(4) == 0 && tmax > 0 {
				t = uint64(r.Intn(int(tmax))) // possibly in the past -> Schedule panics
			}
			c.Tops = append(c.Tops, Top{Op: "sched", T: t, Sec: r.Intn(secP) == 0, ID: id})
			pending = append(pending, id)
		}
		c.Tops = append(c.Tops, Top{Op: "run"})
		// children
		for len(pending) > 0 && int(next) <= budget {
			id := pending[0]
			pending = pending[1:]
			nk := r.Pick(3, 4, 3, 2)
			var kids []Kid
			for j := 0; j < nk && int(next) <= budget; j++ {
				kid := Kid{D: uint64(r.Intn(maxDelta + 1)), Sec: r.Intn(secP) == 0, ID: fresh()}
				if c.Hostile && r.Intn(12) == 0 {
					kid.Back = true
					kid.D = uint64(1 + r.Intn(3))
				}
				kids = append(kids, kid)
				pending = append(pending, kid.ID)
			}
			if len(kids) > 0 {
				c.Tbl = append(c.Tbl, Row{ID: id, Kids: kids})
			}
			tmax += uint64(maxDelta)
		}
		pending = nil
	}
	if r.Intn(5) == 0 {
		c.Tops = append(c.Tops, Top{Op: "run"}) // Run on an empty engine
	}
	c.Fuel = int(next) + 4
	return c
}

func coqKid(k Kid) string {
	return fmt.Sprintf("mk_kid %d %s %s %d", k.D, vh.CoqBool(k.Back), vh.CoqBool(k.Sec), k.ID)
}

func coqCase(c *Case) string {
	var rows, tops, hs []string
	for _, r := range c.Tbl {
		var ks []string
		for _, k := range r.Kids {
			ks = append(ks, coqKid(k))
		}
		rows = append(rows, fmt.Sprintf("(%d, %s)", r.ID, vh.CoqList(ks)))
	}
	for _, o := range c.Tops {
		if o.Op == "run" {
			tops = append(tops, "TRun")
		} else {
			tops = append(tops, fmt.Sprintf("TSched %d %s %d", o.T, vh.CoqBool(o.Sec), o.ID))
		}
	}
	for _, h := range c.Handled {
		hs = append(hs, fmt.Sprintf("(%d, %d)", h[0], h[1]))
	}
	return fmt.Sprintf("mk_ecase %s %s %s %s %s %d", vh.CoqList(rows), vh.CoqList(tops), vh.CoqNat(c.Fuel),
		vh.CoqList(hs), vh.CoqBool(c.Crashed), c.Now)
}

func engineMode(args []string) {
	fs := flag.NewFlagSet("engine", flag.ExitOnError)
	seed := fs.Uint64("seed", 1, "")
	n := fs.Int("n", 100, "")
	out := fs.String("out", "", "")
	replay := fs.String("replay", "", "")
	_ = fs.Parse(args)
	log.SetOutput(io.Discard)

	var cases []Case
	if *replay != "" {
		b, err := os.ReadFile(*replay)
		if err != nil {
			fmt.Fprintln(os.Stderr, err)
			os.Exit(2)
		}
		if err := json.Unmarshal(b, &cases); err != nil {
			fmt.Fprintln(os.Stderr, err)
			os.Exit(2)
		}
	} else {
		r := vh.NewRng(*seed)
		for i := 0; i < *n; i++ {
			cases = append(cases, genCase(r.Fork(), i))
		}
	}
	for i := range cases {
		c := &cases[i]
		if c.Fuel == 0 {
			c.Fuel = 8
			for _, r := range c.Tbl {
				c.Fuel += len(r.Kids)
			}
			c.Fuel += len(c.Tops)
		}
		c.Handled, c.Crashed, c.Now = execute(c, 0)
		c.Handled2, c.Crashed2, c.Now2 = execute(c, 13)
		if c.Handled == nil {
			c.Handled = [][2]uint64{}
		}
		if c.Handled2 == nil {
			c.Handled2 = [][2]uint64{}
		}
		c.Coq = coqCase(c)
	}
	b, _ := json.Marshal(cases)
	if *out == "" {
		os.Stdout.Write(b)
		return
	}
	if err := os.WriteFile(*out, b, 0o644); err != nil {
		fmt.Fprintln(os.Stderr, err)
		os.Exit(2)
	}
}

// ---------------------------------------------------------------- sim mode

// copyBench: `rounds` times (H2D, D2H) of `size` bytes with fixed data: many
// hand-offs between the application thread and the engine thread.
type copyBench struct {
	drv    *driver.Driver
	ctx    *driver.Context
	gpu    int
	size   int
	rounds int
	digest [32]byte
	ok     bool
}

func (b *copyBench) SelectGPU(g []int) { b.gpu = g[0] }
func (b *copyBench) SetUnifiedMemory()  {}
func (b *copyBench) Run() {
	b.drv.SelectGPU(b.ctx, b.gpu)
	h := sha256.New()
	b.ok = true
	ptr := b.drv.AllocateMemory(b.ctx, uint64(b.size))
	for r := 0; r < b.rounds; r++ {
		src := make([]byte, b.size)
		for i := range src {
			src[i] = byte((i*31 + r*17 + 5) & 0xff)
		}
		dst := make([]byte, b.size)
		b.drv.MemCopyH2D(b.ctx, ptr, src)
		b.drv.MemCopyD2H(b.ctx, dst, ptr)
		h.Write(dst)
		for i := range src {
			if src[i] != dst[i] {
				b.ok = false
			}
		}
	}
	copy(b.digest[:], h.Sum(nil))
}
func (b *copyBench) Verify() {
	if !b.ok {
		log.Panic("copy mismatch")
	}
}

// cmdTracer records, inside the engine goroutine, the simulated start and end
// time of every driver command (tracing tasks of kind "Driver Command"), in the
// order in which the driver starts them.
type cmdRecord struct {
	what       string
	start, end sim.VTimeInSec
}

type cmdTracer struct {
	tt    sim.TimeTeller
	open  map[string]*cmdRecord
	order []*cmdRecord
}

func (t *cmdTracer) StartTask(task tracing.Task) {
	if task.Kind == "Driver Command" {
		r := &cmdRecord{what: task.What, start: t.tt.CurrentTime(), end: -1}
		t.open[task.ID] = r
		t.order = append(t.order, r)
	}
}
func (t *cmdTracer) StepTask(tracing.Task)          {}
func (t *cmdTracer) AddMilestone(tracing.Milestone) {}
func (t *cmdTracer) EndTask(task tracing.Task) {
	if r, ok := t.open[task.ID]; ok {
		delete(t.open, task.ID)
		r.end = t.tt.CurrentTime()
	}
}

type emptyKernelArgs struct {
	HiddenGlobalOffsetX int64
	HiddenGlobalOffsetY int64
	HiddenGlobalOffsetZ int64
}

// settle lets the engine goroutine go idle after a drain, so that the known
// hand-off race (C05/handoff-race) stays out of the concurrency workloads.
func settle() { time.Sleep(150 * time.Millisecond) }

func loadEmptyKernel() *insts.KernelCodeObject {
	path := os.Getenv("C05_HSACO")
	co := insts.LoadKernelCodeObjectFromFS(path, "")
	if co == nil {
		log.Panic("cannot load empty kernel from C05_HSACO=" + path)
	}
	return co
}

// streamsBench: one application thread, `streams` command queues on GPU 1, one
// kernel of numWG work-groups x 16 wavefronts on each, all enqueued before the
// first drain: several kernels in flight on one GPU whose dispatchers compete
// for CU slots.
type streamsBench struct {
	drv     *driver.Driver
	numWG   int
	streams int
	wfPerWG int
	kernels int // kernels per queue (default 1)
}

func (b *streamsBench) SelectGPU([]int)   {}
func (b *streamsBench) SetUnifiedMemory() {}
func (b *streamsBench) Verify()           {}
func (b *streamsBench) Run() {
	ctx := b.drv.Init()
	b.drv.SelectGPU(ctx, 1)
	co := loadEmptyKernel()
	var qs []*driver.CommandQueue
	for i := 0; i < b.streams; i++ {
		qs = append(qs, b.drv.CreateCommandQueue(ctx))
	}
	wfPerWG := b.wfPerWG
	if wfPerWG == 0 {
		wfPerWG = 16
	}
	nk := b.kernels
	if nk == 0 {
		nk = 1
	}
	for _, q := range qs {
		for k := 0; k < nk; k++ {
			args := emptyKernelArgs{}
			b.drv.EnqueueLaunchKernel(q, co, [3]uint32{uint32(64 * wfPerWG * b.numWG), 1, 1},
				[3]uint16{uint16(64 * wfPerWG), 1, 1}, &args)
		}
	}
	for _, q := range qs {
		b.drv.DrainCommandQueue(q)
	}
	settle()
}

// multiqBench: one application thread, one queue per GPU, on each a 64 KiB
// host-to-device copy and a kernel; host-side preparation (prepMiB MiB of a fixed
// PRNG, > one scheduler time slice) between the submissions; ALL queues are
// filled before the first drain.
type multiqBench struct {
	drv     *driver.Driver
	gpus    []int
	numWG   int
	prepMiB int
	digest  [32]byte
}

func (b *multiqBench) SelectGPU(g []int) { b.gpus = g }
func (b *multiqBench) SetUnifiedMemory()  {}
func (b *multiqBench) Verify()            {}
func (b *multiqBench) Run() {
	ctx := b.drv.Init()
	co := loadEmptyKernel()
	h := sha256.New()
	var qs []*driver.CommandQueue
	const wfPerWG = 4
	for _, gpu := range b.gpus {
		b.drv.SelectGPU(ctx, gpu)
		q := b.drv.CreateCommandQueue(ctx)
		qs = append(qs, q)
		raw := make([]byte, b.prepMiB<<20)
		x := uint32(12345 + gpu)
		for i := range raw {
			x = x*1664525 + 1013904223
			raw[i] = byte(x >> 24)
		}
		data := make([]byte, 64*1024)
		for i, v := range raw {
			data[i%len(data)] ^= v
		}
		h.Write(data)
		buf := b.drv.AllocateMemory(ctx, uint64(len(data)))
		b.drv.EnqueueMemCopyH2D(q, buf, data)
		args := emptyKernelArgs{}
		b.drv.EnqueueLaunchKernel(q, co, [3]uint32{uint32(64 * wfPerWG * b.numWG), 1, 1},
			[3]uint16{uint16(64 * wfPerWG), 1, 1}, &args)
	}
	for _, q := range qs {
		b.drv.DrainCommandQueue(q)
		settle()
	}
	copy(b.digest[:], h.Sum(nil))
}

// Host-schedule control through the driver's yield hook (build tag verif):
//
//	C05_SETTLE=1        at the end of every DrainCommandQueue ("unsub:close", application thread) wait until the
//	                    engine goroutine has executed all pending events and given up the engine: the known hand-off
//	                    race (C05/handoff-race) cannot occur, whatever GOMAXPROCS / GOGC are.
//	C05_HOLD_AFTER=n    once n commands have been dequeued (n = all commands of the run) hold the engine goroutine for
//	                    300 ms at the end of the driver's tick ("tick:end", twice): the application thread returns and
//	                    the reporter runs while the engine still has trailing events. Before that point the run is
//	                    settled as above.
//	C05_TWICE=1         run the whole simulation twice in this process; one C05SIM line per run.
type hostSchedule struct {
	drv       *driver.Driver
	settle    bool
	holdAfter int64
	deq       int64
	held      int32
	waits     int64
}

func (h *hostSchedule) hook(point string) {
	switch point {
	case "deq:notify":
		atomic.AddInt64(&h.deq, 1)
	case "unsub:close":
		if !h.settle || (h.holdAfter > 0 && atomic.LoadInt64(&h.deq) >= h.holdAfter) {
			return
		}
		deadline := time.Now().Add(60 * time.Second)
		for driver.VerifEngineRunning(h.drv) && time.Now().Before(deadline) {
			atomic.AddInt64(&h.waits, 1)
			time.Sleep(20 * time.Microsecond)
		}
	case "tick:end":
		if h.holdAfter > 0 && atomic.LoadInt64(&h.deq) >= h.holdAfter && atomic.AddInt32(&h.held, 1) <= 2 {
			time.Sleep(300 * time.Millisecond)
		}
	}
}

func listSqlite() map[string]bool {
	m := map[string]bool{}
	ents, _ := os.ReadDir(".")
	for _, e := range ents {
		if strings.HasPrefix(e.Name(), "akita_sim_") && strings.HasSuffix(e.Name(), ".sqlite3") {
			m[e.Name()] = true
		}
	}
	return m
}

func simOnce(wl string, size, rounds int, rest []string, runIdx int) {
	before := listSqlite()
	rn := new(runner.Runner).Init()
	hs := &hostSchedule{drv: rn.Driver(), settle: os.Getenv("C05_SETTLE") == "1"}
	if n, err := strconv.Atoi(os.Getenv("C05_HOLD_AFTER")); err == nil && n > 0 {
		hs.holdAfter = int64(n)
		hs.settle = true
	}
	driver.VerifYieldHook = hs.hook
	digest := ""
	tr := &cmdTracer{tt: rn.Engine(), open: map[string]*cmdRecord{}}
	tracing.CollectTrace(rn.Driver(), tr)
	var mq *multiqBench
	var cb *copyBench
	switch wl {
	case "fir":
		b := fir.NewBenchmark(rn.Driver())
		b.Length = size
		b.NumTapsParam = 16
		b.Arch = rn.ArchType
		rn.AddBenchmark(b)
	case "mt":
		b := matrixtranspose.NewBenchmark(rn.Driver())
		b.Width = size
		b.Arch = rn.ArchType
		rn.AddBenchmark(b)
	case "mm": // LDS-tiled matrix multiplication, size x size x size
		b := matrixmultiplication.NewBenchmark(rn.Driver())
		b.X, b.Y, b.Z = uint32(size), uint32(size), uint32(size)
		b.Arch = rn.ArchType
		rn.AddBenchmark(b)
	case "copy":
		cb = &copyBench{drv: rn.Driver(), size: size, rounds: rounds}
		cb.ctx = rn.Driver().Init()
		rn.AddBenchmark(cb)
	case "streams":
		rn.AddBenchmark(&streamsBench{drv: rn.Driver(), numWG: size, streams: rounds})
	case "longk": // one queue, one long kernel: size work-groups of `rounds` wavefronts
		rn.AddBenchmark(&streamsBench{drv: rn.Driver(), numWG: size, streams: 1, wfPerWG: rounds})
	case "longk2": // one queue, two long kernels one after the other
		rn.AddBenchmark(&streamsBench{drv: rn.Driver(), numWG: size, streams: 1, wfPerWG: rounds, kernels: 2})
	case "multiq":
		mq = &multiqBench{drv: rn.Driver(), numWG: size, prepMiB: rounds}
		rn.AddBenchmark(mq)
	default:
		fmt.Fprintln(os.Stderr, "unknown workload", wl)
		os.Exit(2)
	}
	rn.Run()
	driver.VerifYieldHook = nil
	if cb != nil {
		digest = hex.EncodeToString(cb.digest[:])
	}
	if mq != nil {
		digest = hex.EncodeToString(mq.digest[:])
	}
	t := float64(rn.Engine().CurrentTime())
	cmds := [][3]string{}
	lastDone := sim.VTimeInSec(0)
	for _, c := range tr.order {
		cmds = append(cmds, [3]string{c.what, fmt.Sprintf("%.12e", float64(c.start)), fmt.Sprintf("%.12e", float64(c.end))})
		if c.end > lastDone {
			lastDone = c.end
		}
	}
	sqliteFile := ""
	for f := range listSqlite() {
		if !before[f] {
			sqliteFile = f
		}
	}
	out := map[string]any{
		"run": runIdx, "sqlite": sqliteFile, "dequeues": atomic.LoadInt64(&hs.deq), "settle_waits": atomic.LoadInt64(&hs.waits),
		"held": atomic.LoadInt32(&hs.held),
		"commands": cmds, "last_command_done": fmt.Sprintf("%.12e", float64(lastDone)),
		"workload": wl, "size": size, "rounds": rounds, "flags": strings.Join(rest, " "),
		"final_time_bits": fmt.Sprintf("%016x", math.Float64bits(t)), "final_time": fmt.Sprintf("%.12e", t),
		"digest": digest, "verify": rn.Verify,
	}
	b, _ := json.Marshal(out)
	fmt.Println("C05SIM " + string(b))
}

func simMode(args []string) {
	if len(args) < 3 {
		fmt.Fprintln(os.Stderr, "usage: c05 sim <workload> <size> <rounds> -- <runner flags>")
		os.Exit(2)
	}
	wl := args[0]
	size, _ := strconv.Atoi(args[1])
	rounds, _ := strconv.Atoi(args[2])
	rest := args[3:]
	if len(rest) > 0 && rest[0] == "--" {
		rest = rest[1:]
	}
	os.Args = append([]string{os.Args[0]}, rest...)
	flag.Parse()
	n := 1
	if os.Getenv("C05_TWICE") == "1" {
		n = 2
	}
	for i := 0; i < n; i++ {
		simOnce(wl, size, rounds, rest, i)
	}
}

func main() {
	if len(os.Args) < 2 {
		fmt.Fprintln(os.Stderr, "usage: c05 engine|sim ...")
		os.Exit(2)
	}
	switch os.Args[1] {
	case "engine":
		engineMode(os.Args[2:])
	case "sim":
		simMode(os.Args[2:])
	default:
		fmt.Fprintln(os.Stderr, "unknown mode")
		os.Exit(2)
	}
}
