package main

// Memory instructions (SMEM / FLAT / DS): a flat byte memory standing in for
// the storage accessor (its page walk is C05's subject), the LDS slice, the
// instruction encoders and the case generators.

import (
	"sort"

	"github.com/sarchlab/akita/v4/mem/vm"
	"github.com/sarchlab/mgpusim/v4/amd/insts"
	"verifharness/vh"
)

// ByteVal is one byte of memory / LDS.
type ByteVal struct {
	Addr uint64 `json:"a"`
	Val  uint8  `json:"v"`
}

// flatMem: every byte of the 64-bit address space has a pseudo-random default
// derived from the case's fill seed; byte i of an access lives at addr+i
// (modulo 2^64).
type flatMem struct {
	seed          uint64
	data          map[uint64]byte
	touched       map[uint64]bool
	reads, writes int
}

func newFlatMem(seed uint64) *flatMem {
	return &flatMem{seed: seed, data: map[uint64]byte{}, touched: map[uint64]bool{}}
}
func (m *flatMem) def(a uint64) byte {
	x := a ^ (m.seed * 0x9e3779b97f4a7c15)
	x ^= x >> 30
	x *= 0xbf58476d1ce4e5b9
	x ^= x >> 27
	x *= 0x94d049bb133111eb
	x ^= x >> 31
	return byte(x)
}
func (m *flatMem) get(a uint64) byte {
	if v, ok := m.data[a]; ok {
		return v
	}
	return m.def(a)
}
func (m *flatMem) Read(pid vm.PID, vAddr, byteSize uint64) []byte {
	m.reads++
	out := make([]byte, byteSize)
	for i := uint64(0); i < byteSize; i++ {
		out[i] = m.get(vAddr + i)
		m.touched[vAddr+i] = true
	}
	return out
}
func (m *flatMem) Write(pid vm.PID, vAddr uint64, data []byte) {
	m.writes++
	for i, b := range data {
		m.data[vAddr+uint64(i)] = b
		m.touched[vAddr+uint64(i)] = true
	}
}
func (m *flatMem) snapshot() (pre, post []ByteVal) {
	keys := make([]uint64, 0, len(m.touched))
	for a := range m.touched {
		keys = append(keys, a)
	}
	sort.Slice(keys, func(i, j int) bool { return keys[i] < keys[j] })
	for _, a := range keys {
		pre = append(pre, ByteVal{a, m.def(a)})
		post = append(post, ByteVal{a, m.get(a)})
	}
	return
}

func isMemFmt(f string) bool { return f == "SMEM" || f == "FLAT" || f == "DS" }

// memFields fills the Coq instruction slots of a memory instruction.
func memFields(c *Case, inst *insts.Inst) {
	switch inst.FormatType {
	case insts.FLAT:
		c.Src0, c.Src1, c.Dst = opCode(inst.Addr), opCode(inst.Data), opCode(inst.Dst)
		c.Src2 = -1
		if inst.SAddr != nil {
			c.Src2 = int(inst.SAddr.IntValue)
		}
		c.Simm = int(int32(inst.Offset0))
	case insts.DS:
		c.Src0, c.Src1, c.Src2, c.Dst = opCode(inst.Addr), opCode(inst.Data), opCode(inst.Data1), opCode(inst.Dst)
		c.Simm = int(inst.Offset0) | int(inst.Offset1)<<16
	case insts.SMEM:
		c.Src0, c.Dst = opCode(inst.Base), opCode(inst.Data)
		if inst.Offset != nil && inst.Offset.OperandType == insts.IntOperand {
			c.Src1 = 255
			c.Lit = uint32(inst.Offset.IntValue)
		} else {
			c.Src1 = opCode(inst.Offset)
		}
	}
}

// ---------------------------------------------------------------- encoders

func encFLAT(op, seg, offset13, addr, data, saddr, vdst int) []uint32 {
	return []uint32{0xDC000000 | uint32(op)<<18 | uint32(seg)<<14 | uint32(offset13&0x1fff),
		uint32(addr) | uint32(data)<<8 | uint32(saddr)<<16 | uint32(vdst)<<24}
}
func encSMEM(op, sdata, sbase2, imm, offset int) []uint32 {
	return []uint32{0xC0000000 | uint32(op)<<18 | uint32(imm)<<17 | uint32(sdata)<<6 | uint32(sbase2>>1), uint32(offset) & 0xfffff}
}
func encDS(op, off0, off1, addr, d0, d1, vdst int) []uint32 {
	return []uint32{0xD8000000 | uint32(op)<<17 | uint32(off1)<<8 | uint32(off0),
		uint32(addr) | uint32(d0)<<8 | uint32(d1)<<16 | uint32(vdst)<<24}
}

// ---------------------------------------------------------------- generators

type mop struct {
	fmt  string
	op   int
	alus string // "" both
}

var memOps = []mop{
	{"SMEM", 0, ""}, {"SMEM", 1, ""}, {"SMEM", 2, ""}, {"SMEM", 3, ""}, {"SMEM", 4, ""},
	{"FLAT", 16, ""}, {"FLAT", 17, ""}, {"FLAT", 18, ""}, {"FLAT", 20, ""}, {"FLAT", 21, ""}, {"FLAT", 22, ""}, {"FLAT", 23, ""},
	{"FLAT", 28, ""}, {"FLAT", 29, ""}, {"FLAT", 30, ""}, {"FLAT", 31, ""},
	{"DS", 13, ""}, {"DS", 14, ""}, {"DS", 30, ""}, {"DS", 54, ""}, {"DS", 55, ""}, {"DS", 78, ""}, {"DS", 118, ""}, {"DS", 119, ""},
	{"DS", 223, "cdna3"}, {"DS", 255, "cdna3"},
}

var execPats = []uint64{0xffffffffffffffff, 0xaaaaaaaa55555555, 1 << 63, 0, 1, 0x80000000ffff0001, 0, 1 << 63}

func setV(c *Case, lane, idx int, v uint32) { c.Set = append(c.Set, RegVal{lane, idx, v}) }
func setS(c *Case, idx int, v uint32)       { c.Set = append(c.Set, RegVal{-1, idx, v}) }

// memCase builds case number k of a memory opcode; k < memGrid are the
// deterministic corner cases, later ones are random.
const memGrid = 8

func memCase(alu string, m mop, r *vh.Rng, k int) Case {
	c := Case{Alu: alu, Fill: r.U64(), Class: "mem-grid"}
	c.Pre = Scalars{SCC: uint8(r.Intn(2)), VCC: r.U64(), EXEC: execPats[k%len(execPats)], M0: uint32(r.U64()), PC: 1024}
	if k >= memGrid {
		c.Class = "mem-random"
		if r.Bool() {
			c.Pre.EXEC = r.U64()
		}
	}
	if e := c.Pre.EXEC; e&(e-1) == 0 {
		c.Sparse = true // at most one active lane: probe the named VGPRs in a few lanes only
	}
	switch m.fmt {
	case "SMEM":
		base := 2 * (1 + r.Intn(40))
		sdata := 2 * (1 + r.Intn(40))
		bases := []uint64{0x10000, 0xfffffffffffffff8, 0x00000000fffffffc, 0x123456789abc, 0x7fffffffffffffff, 0x1001}
		b := bases[k%len(bases)]
		if k >= memGrid {
			b = r.U64()
		}
		setS(&c, base, uint32(b))
		setS(&c, base+1, uint32(b>>32))
		offs := []int{0, 4, 1, 0xffffc, 7, 0x100}
		off := offs[(k/2)%len(offs)]
		if k >= memGrid {
			off = r.Intn(1 << 20)
		}
		if k%2 == 0 {
			c.Words = encSMEM(m.op, sdata, base, 1, off)
		} else {
			so := 90 + r.Intn(10)
			v := uint32(off)
			if k%4 == 3 {
				v = 0xfffffffd
			}
			setS(&c, so, v)
			c.Words = encSMEM(m.op, sdata, base, 0, so)
		}
		c.Kinds = []string{"smem"}
	case "FLAT":
		addr := 2 * (1 + r.Intn(60))
		data := 130 + 4*r.Intn(20)
		vdst := 8 + 4*r.Intn(20)
		saddrs := []int{0x7f, 0, 0x7f, 6, 0x7f, 0}
		sa := saddrs[k%len(saddrs)]
		offs := []int{0, 4, 0x1ffc, 0xfff, 0x1000, 0}
		off := offs[k%len(offs)]
		strides := []uint64{4, 0, 3, 16, 1, 8}
		stride := strides[k%len(strides)]
		basesA := []uint64{0x20000, 0xfffffffffffffff0, 0xfffffffe, 0x100000000000, 0x30001, 0x7ff8}
		b := basesA[k%len(basesA)]
		if k >= memGrid {
			b = r.U64()
			stride = uint64(r.Intn(20))
			sa = []int{0x7f, 0, 4 + 2*r.Intn(40)}[r.Intn(3)]
			off = r.Intn(1 << 13)
		}
		if alu == "gcn3" && k != 1 && k != 3 && k != 7 {
			off, sa = 0, 0 // gfx8 FLAT: no offset field, no SADDR field (reserved bits are zero)
		}
		if sa != 0x7f {
			sb := uint64(0x4000000000) + uint64(r.Intn(1<<16))
			if k%3 == 2 {
				sb = 0xffffffffffffff00
			}
			setS(&c, sa, uint32(sb))
			setS(&c, sa+1, uint32(sb>>32))
		}
		for l := 0; l < 64; l++ {
			a := b + uint64(l)*stride
			setV(&c, l, addr, uint32(a))
			setV(&c, l, addr+1, uint32(a>>32))
		}
		c.Words = encFLAT(m.op, 2, off, addr, data, sa, vdst)
		c.Kinds = []string{"flat"}
	case "DS":
		addr := 1 + r.Intn(60)
		d0 := 100 + 4*r.Intn(10)
		d1 := 150 + 4*r.Intn(10)
		vdst := 200 + 4*r.Intn(10)
		strides := []uint32{2, 0, 1, 3, 2, 1}
		stride := strides[k%len(strides)]
		o0 := []int{0, 4, 1, 16, 9, 2}[k%6]
		o1 := []int{1, 0, 5, 2, 7, 3}[k%6]
		for l := 0; l < 64; l++ {
			a := uint32(l)*stride + uint32(k%3)
			if k == 5 && l == 63 {
				a = 0xfffffff0 // wraps with the offset / leaves the allocation
			}
			if k >= memGrid {
				a = uint32(r.Intn(200))
				if r.Intn(40) == 0 {
					a = uint32(r.U64())
				}
			}
			setV(&c, l, addr, a)
		}
		if k >= memGrid {
			o0, o1 = r.Intn(12), r.Intn(12)
		}
		switch m.op {
		case 13, 30, 54, 118, 223, 255: // one address: offset1 is the high byte of the 16-bit offset
			o1 = 0
			if k == 4 {
				o1 = 1
			}
		}
		c.Words = encDS(m.op, o0, o1, addr, d0, d1, vdst)
		c.Kinds = []string{"ds"}
	}
	return c
}
