package main

// Memory instructions (SMEM / FLAT / DS): a flat byte memory standing in for
// the storage accessor (its page walk is C05's subject), the LDS slice, the
// instruction encoders and the case generators.

import (
	"sort"

	"github.com/sarchlab/akita/v4/mem/vm"
	"github.com/sarchlab/mgpusim/v4/amd/insts"
	"verifharness/vh"
)

// ByteVal is one byte of memory / LDS.
type ByteVal struct {
	Addr uint64 `json:"a"`
	Val  uint8  `json:"v"`
}

// flatMem: every byte of the 64-bit address space has a pseudo-random default
// derived from the case's fill seed; byte i of an access lives at addr+i
// (modulo 2^64).
type flatMem struct {
	seed          uint64
	data          map[uint64]byte
	touched       map[uint64]bool
	reads, writes int
}

func newFlatMem(seed uint64) *flatMem {
	return &flatMem{seed: seed, data: map[uint64]byte{}, touched: map[uint64]bool{}}
}
// dfltByte: default content of memory and LDS, the same formula as IsaCheck.dflt
func dfltByte(seed uint64, a uint64) byte {
	return byte((a%251)*167 + ((a/256)%65521)*59 + seed&0xff)
}
func (m *flatMem) def(a uint64) byte { return dfltByte(m.seed, a) }
func (m *flatMem) get(a uint64) byte {
	if v, ok := m.data[a]; ok {
		return v
	}
	return m.def(a)
}
func (m *flatMem) Read(pid vm.PID, vAddr, byteSize uint64) []byte {
	m.reads++
	out := make([]byte, byteSize)
	for i := uint64(0); i < byteSize; i++ {
		out[i] = m.get(vAddr + i)
		m.touched[vAddr+i] = true
	}
	return out
}
func (m *flatMem) Write(pid vm.PID, vAddr uint64, data []byte) {
	m.writes++
	for i, b := range data {
		m.data[vAddr+uint64(i)] = b
		m.touched[vAddr+uint64(i)] = true
	}
}
// snapshot: the bytes that differ from the default content after the run (sorted)
func (m *flatMem) snapshot() (post []ByteVal) {
	keys := make([]uint64, 0, len(m.data))
	for a, v := range m.data {
		if v != m.def(a) {
			keys = append(keys, a)
		}
	}
	sort.Slice(keys, func(i, j int) bool { return keys[i] < keys[j] })
	for _, a := range keys {
		post = append(post, ByteVal{a, m.get(a)})
	}
	return
}

func isMemFmt(f string) bool { return f == "SMEM" || f == "FLAT" || f == "DS" }

// memFields fills the Coq instruction slots of a memory instruction.
func memFields(c *Case, inst *insts.Inst) {
	switch inst.FormatType {
	case insts.FLAT:
		c.Src0, c.Src1, c.Dst = opCode(inst.Addr), opCode(inst.Data), opCode(inst.Dst)
		c.Src2 = -1
		if inst.SAddr != nil {
			c.Src2 = int(inst.SAddr.IntValue)
		}
		c.Simm = int(int32(inst.Offset0))
	case insts.DS:
		c.Src0, c.Src1, c.Src2, c.Dst = opCode(inst.Addr), opCode(inst.Data), opCode(inst.Data1), opCode(inst.Dst)
		c.Simm = int(inst.Offset0) | int(inst.Offset1)<<16
	case insts.SMEM:
		c.Src0, c.Dst = opCode(inst.Base), opCode(inst.Data)
		if inst.Offset != nil && inst.Offset.OperandType == insts.IntOperand {
			c.Src1 = 255
			c.Lit = uint32(inst.Offset.IntValue)
		} else {
			c.Src1 = opCode(inst.Offset)
		}
	}
}

// ---------------------------------------------------------------- encoders

func encFLAT(op, seg, offset13, addr, data, saddr, vdst int) []uint32 {
	return []uint32{0xDC000000 | uint32(op)<<18 | uint32(seg)<<14 | uint32(offset13&0x1fff),
		uint32(addr) | uint32(data)<<8 | uint32(saddr)<<16 | uint32(vdst)<<24}
}
func encSMEM(op, sdata, sbase2, imm, offset int) []uint32 {
	return []uint32{0xC0000000 | uint32(op)<<18 | uint32(imm)<<17 | uint32(sdata)<<6 | uint32(sbase2>>1), uint32(offset) & 0xfffff}
}
func encDS(op, off0, off1, addr, d0, d1, vdst int) []uint32 {
	return []uint32{0xD8000000 | uint32(op)<<17 | uint32(off1)<<8 | uint32(off0),
		uint32(addr) | uint32(d0)<<8 | uint32(d1)<<16 | uint32(vdst)<<24}
}

// ---------------------------------------------------------------- generators

type mop struct {
	fmt  string
	op   int
	alus string // "" both
}

var memOps = []mop{
	{"SMEM", 0, ""}, {"SMEM", 1, ""}, {"SMEM", 2, ""}, {"SMEM", 3, ""}, {"SMEM", 4, ""},
	{"FLAT", 16, ""}, {"FLAT", 17, ""}, {"FLAT", 18, ""}, {"FLAT", 20, ""}, {"FLAT", 21, ""}, {"FLAT", 22, ""}, {"FLAT", 23, ""},
	{"FLAT", 28, ""}, {"FLAT", 29, ""}, {"FLAT", 30, ""}, {"FLAT", 31, ""},
	{"DS", 13, ""}, {"DS", 14, ""}, {"DS", 30, ""}, {"DS", 54, ""}, {"DS", 55, ""}, {"DS", 78, ""}, {"DS", 118, ""}, {"DS", 119, ""},
	{"DS", 223, "cdna3"}, {"DS", 255, "cdna3"},
}

var execPats = []uint64{0xffffffffffffffff, 0xaaaaaaaa55555555, 1 << 63, 0, 1, 0x80000000ffff0001, 0, 1 << 63}

func setV(c *Case, lane, idx int, v uint32) { c.Set = append(c.Set, RegVal{lane, idx, v}) }
func setS(c *Case, idx int, v uint32)       { c.Set = append(c.Set, RegVal{-1, idx, v}) }

// memCase builds case number k of a memory opcode; k < memGrid are the
// deterministic corner cases, later ones are random.
const memGrid = 8

func memCase(alu string, m mop, r *vh.Rng, k int) Case {
	c := Case{Alu: alu, Fill: r.U64(), Class: "mem-grid"}
	c.Pre = Scalars{SCC: uint8(r.Intn(2)), VCC: r.U64(), EXEC: execPats[k%len(execPats)], M0: uint32(r.U64()), PC: 1024}
	if k >= memGridN(m) {
		c.Class = "mem-random"
		if r.Bool() {
			c.Pre.EXEC = r.U64()
		}
	}
	if e := c.Pre.EXEC; e&(e-1) == 0 && m.fmt != "FLAT" {
		c.Sparse = true // at most one active lane: probe the named VGPRs in a few lanes only
	}
	switch m.fmt {
	case "SMEM":
		base := 2 * (1 + r.Intn(40))
		sdata := 2 * (1 + r.Intn(40))
		bases := []uint64{0x10000, 0xfffffffffffffff8, 0x00000000fffffffc, 0x123456789abc, 0x7fffffffffffffff, 0x1001}
		b := bases[k%len(bases)]
		if k >= memGridN(m) {
			b = r.U64()
		}
		setS(&c, base, uint32(b))
		setS(&c, base+1, uint32(b>>32))
		offs := []int{0, 4, 1, 0xffffc, 7, 0x100}
		off := offs[(k/2)%len(offs)]
		if k >= memGridN(m) {
			off = r.Intn(1 << 20)
		}
		if k%2 == 0 {
			c.Words = encSMEM(m.op, sdata, base, 1, off)
		} else {
			so := 90 + r.Intn(10)
			v := uint32(off)
			if k%4 == 3 {
				v = 0xfffffffd
			}
			setS(&c, so, v)
			c.Words = encSMEM(m.op, sdata, base, 0, so)
		}
		c.Kinds = []string{"smem"}
	case "FLAT":
		flatCase(&c, alu, m, r, k)
	case "DS":
		addr := 1 + r.Intn(60)
		d0 := 100 + 4*r.Intn(10)
		d1 := 150 + 4*r.Intn(10)
		vdst := 200 + 4*r.Intn(10)
		single := false
		switch m.op {
		case 13, 30, 54, 118, 223, 255:
			single = true
		}
		// EXEC: full, a tail of 60 lanes, even lanes, lanes 0 and 63 off, holes, lane 63, none, lane 0, full
		c.Pre.EXEC = []uint64{0xffffffffffffffff, 0x0fffffffffffffff, 0x5555555555555555, 0x7ffffffffffffffe,
			0xaaaaaaaa55555555, 1 << 63, 0, 1, 0xffffffffffffffff}[k%9]
		c.Sparse = c.Pre.EXEC&(c.Pre.EXEC-1) == 0
		o0, o1 := 0, 0
		stride := uint32(16)
		base := uint32(k % 3)
		if k < memGridN(m) {
			if single { // 16-bit offset
				off := []int{0, 4, 0xff, 0x100, 0x7ffc, 0xfffc, 0x1, 0x8000, 0xfff0}[k%9]
				o0, o1 = off&0xff, off>>8
				if off > 0xf000 {
					stride, base = 0, 0 // every lane at the top of the 64 KiB allocation
				}
			} else { // two 8-bit offsets, scaled by the access size
				v := []int{0, 1, 31, 32, 63, 64, 127, 128, 255}
				o0, o1 = v[k%9], v[(k+4)%9]
			}
			if k%9 == 3 {
				stride = 3 // unaligned, overlapping
			}
		} else {
			c.Class = "mem-random"
			c.Pre.EXEC = r.U64()
			c.Sparse = false
			o0, o1 = r.Intn(256), r.Intn(256)
			if single && r.Bool() {
				o1 = 0
			}
			stride = uint32(r.Intn(40))
		}
		for l := 0; l < 64; l++ {
			a := uint32(l)*stride + base
			if k >= memGridN(m) && r.Intn(40) == 0 {
				a = uint32(r.U64()) // leaves the allocation / wraps
			}
			if k == 8 && l == 62 {
				a = 0xfffffff0
			}
			setV(&c, l, addr, a)
		}
		c.Words = encDS(m.op, o0, o1, addr, d0, d1, vdst)
		c.Kinds = []string{"ds"}
	}
	return c
}

// ---------------------------------------------------------------- FLAT / GLOBAL grid

// memGridN: number of deterministic cases of a memory opcode.
func memGridN(m mop) int {
	if m.fmt == "FLAT" {
		return flatNA(m.op) + 6 + 7
	}
	if m.fmt == "DS" {
		return 9
	}
	return memGrid
}

func flatNA(op int) int {
	if op == 20 || op == 28 {
		return 16 // both SADDR modes for every immediate
	}
	return 8
}

func flatWidth(op int) int {
	switch op {
	case 16, 17:
		return 1
	case 18:
		return 2
	case 21, 29:
		return 8
	case 22, 30:
		return 12
	case 23, 31:
		return 16
	}
	return 4
}

var flatImms = []int{0, 1, 4, 0xfff, -1, -4, -8, -4096}

func bitrev6(l int) int {
	r := 0
	for b := 0; b < 6; b++ {
		if l&(1<<uint(b)) != 0 {
			r |= 1 << uint(5-b)
		}
	}
	return r
}

// flatCase: k < nA address-mode grid (immediate x SADDR mode, the lanes carry the VGPR-offset and base corners);
// then 6 per-lane address patterns with full EXEC; then 4 EXEC corners; later random.
func flatCase(c *Case, alu string, m mop, r *vh.Rng, k int) {
	addr := 2 * (1 + r.Intn(60))
	data := 130 + 4*r.Intn(20)
	vdst := 8 + 4*r.Intn(20)
	nA := flatNA(m.op)
	w := uint64(flatWidth(m.op))
	sa, off, seg := 0x7f, 0, 2
	var lane [64]uint64 // VGPR value of the lane: 64-bit address (SADDR off) or 32-bit offset in the low dword
	var sbase uint64
	pairReg := 4 + 2*r.Intn(40)
	switch {
	case k < nA: // ---- address modes
		c.Class = "mem-addr"
		imm := flatImms[k%8]
		pair := (k/8+k+m.op)%2 == 0
		if nA == 16 {
			pair = k >= 8
		}
		off = imm
		mag := uint64(imm)
		if imm < 0 {
			mag = uint64(-imm)
		}
		c.Pre.EXEC = 0xffffff
		c.Sparse = true
		if pair {
			sa = pairReg
			sbase = []uint64{0x4000000000, 0xfffffff0, 0x100000000, 0xffffffffffffff00, 0x7ffffffffffff000, 0x20000, 0xffffffff00000000, 0x1fffffffc}[(k+m.op)%8]
			for l := 0; l < 64; l++ {
				var vo uint64
				switch l % 6 {
				case 0:
					vo = 0
				case 1:
					vo = 4
				case 2: // below |imm|
					vo = mag / 2
				case 3:
					vo = mag
				case 4:
					vo = 0xfffff000 + uint64(4*l)
				case 5:
					vo = 0xfffffffc
				}
				if l >= 12 && l < 18 {
					vo += uint64(l) // unaligned variants
				}
				lane[l] = vo&0xffffffff | r.U64()<<32 // the high VGPR must be ignored
			}
		} else {
			bases := []uint64{0x20000, 0xfffffff8, 0x100000000, 0xffffffffffffffc, 0xfffffffffffffff8, 0x7fffffff0, 0xffffffff, 0x1000}
			for l := 0; l < 64; l++ {
				b := bases[(l+k)%8]
				switch l % 3 {
				case 1:
					b += mag
				case 2:
					b += uint64(4 * l)
				}
				lane[l] = b
			}
		}
	case k < nA+6: // ---- per-lane address patterns, EXEC full
		c.Class = "mem-pattern"
		pat := k - nA
		c.Pre.EXEC = 0xffffffffffffffff
		base := []uint64{0x40000, 0xffffff80, 0x30004, 0x7fffffffff00, 0x50001, 0x60000}[pat]
		slot := w
		var idx [64]uint64
		for l := 0; l < 64; l++ {
			switch pat {
			case 0: // contiguous
				idx[l] = uint64(l)
			case 1: // reversed
				idx[l] = uint64(63 - l)
			case 2: // bit-reversed
				idx[l] = uint64(bitrev6(l))
			case 3: // strided, unaligned, overlapping for the wide accesses
				idx[l] = uint64(l)
				slot = 6
			case 4: // all equal
				idx[l] = 0
			case 5: // ends contiguous in dword slots, middle permuted (bit reversal fixes 0 and 63)
				idx[l] = uint64(bitrev6(l))
				slot = 4
			}
		}
		pair := (pat+m.op)%2 == 0
		if alu == "gcn3" {
			pair = false // gfx8 FLAT: VGPR pair only, no offset
		} else if pair {
			off = -8
		} else {
			off = 4
			if pat%2 == 1 {
				seg = 0 // FLAT segment: unsigned 12-bit offset, same value
			}
		}
		for l := 0; l < 64; l++ {
			a := base + idx[l]*slot
			if pair {
				sa, sbase = pairReg, base
				lane[l] = (idx[l]*slot+8)&0xffffffff | r.U64()<<32
			} else {
				lane[l] = a - uint64(off)
			}
		}
	case k < nA+13: // ---- EXEC corners on a contiguous pattern
		c.Class = "mem-exec"
		e := k - nA - 6
		// none, lane 0, lane 63, holes, a tail of 60 lanes (lanes 60..63 off), even lanes, lanes 0 and 63 off
		c.Pre.EXEC = []uint64{0, 1, 1 << 63, 0xaaaaaaaa55555555, 0x0fffffffffffffff, 0x5555555555555555, 0x7ffffffffffffffe}[e]
		c.Sparse = e < 3
		pair := alu != "gcn3" && e%2 == 1
		for l := 0; l < 64; l++ {
			if pair {
				sa, sbase, off = pairReg, 0x70000, -4
				lane[l] = uint64(l)*w + 4
			} else {
				lane[l] = 0x70000 + uint64(l)*w
			}
		}
	default: // ---- random
		b := r.U64()
		stride := uint64(r.Intn(20))
		sa = []int{0x7f, 0, pairReg}[r.Intn(3)]
		off = r.Intn(1<<13) - 4096
		if alu == "gcn3" && r.Intn(3) != 0 {
			off, sa = 0, 0
		}
		sbase = uint64(0x4000000000) + uint64(r.Intn(1<<16))
		if r.Intn(3) == 0 {
			sbase = 0xffffffffffffff00
		}
		for l := 0; l < 64; l++ {
			lane[l] = b + uint64(l)*stride
		}
	}
	if alu == "gcn3" && sa == 0x7f && k%2 == 0 {
		sa = 0 // gfx8 encoding: the SADDR bits are reserved and zero (the GCN3 handler treats 0 and 0x7f alike)
	}
	if sa != 0x7f && sa != 0 {
		setS(c, sa, uint32(sbase))
		setS(c, sa+1, uint32(sbase>>32))
	}
	for l := 0; l < 64; l++ {
		setV(c, l, addr, uint32(lane[l]))
		setV(c, l, addr+1, uint32(lane[l]>>32))
	}
	c.Words = encFLAT(m.op, seg, off, addr, data, sa, vdst)
	c.Kinds = []string{"flat"}
}
