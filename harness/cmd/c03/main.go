// Command c03 runs single instructions on the real GCN3 and CDNA3 ALUs
// (emu.NewALU / cdna3.NewALU) from a completely controlled architectural
// state and records the complete post-state difference.
//
// The instruction is assembled into its machine word(s) here and decoded by
// the repository's own decoder, so the ALU sees exactly the insts.Inst (operand
// kinds, RegCount, literal) it would see in the emulator.  The state is the
// real emu.Wavefront (its ReadOperand/WriteOperand are part of what the Go
// handlers observe) wrapped so that the harness sets the instruction and every
// register, and compares the whole register files before and after.
package main

import (
	"encoding/binary"
	"encoding/json"
	"flag"
	"fmt"
	"io"
	"log"
	"os"
	"sort"
	"strings"

	"github.com/sarchlab/akita/v4/mem/vm"
	"github.com/sarchlab/mgpusim/v4/amd/emu"
	"github.com/sarchlab/mgpusim/v4/amd/emu/cdna3"
	"github.com/sarchlab/mgpusim/v4/amd/insts"

	"verifharness/vh"
)

// ---------------------------------------------------------------- state

type recState struct {
	*emu.Wavefront
	inst *insts.Inst
}

func (s *recState) Inst() *insts.Inst { return s.inst }

type memStub struct{ reads, writes int }

func (m *memStub) Read(pid vm.PID, vAddr, byteSize uint64) []byte {
	m.reads++
	return make([]byte, byteSize)
}
func (m *memStub) Write(pid vm.PID, vAddr uint64, data []byte) { m.writes++ }

// RegVal sets / reports one 32-bit register. Lane < 0: SGPR.
type RegVal struct {
	Lane int    `json:"l"`
	Idx  int    `json:"i"`
	Val  uint32 `json:"v"`
}

type Scalars struct {
	SCC  uint8  `json:"scc"`
	VCC  uint64 `json:"vcc"`
	EXEC uint64 `json:"exec"`
	M0   uint32 `json:"m0"`
	PC   uint64 `json:"pc"`
}

// Case is the replayable input (Alu, Words, Fill, Pre, Set) plus observations.
type Case struct {
	Alu   string   `json:"alu"`
	Words []uint32 `json:"words"`
	Fill  uint64   `json:"fill"` // seed of the random fill of both register files and LDS
	Pre   Scalars  `json:"pre"`
	Set   []RegVal `json:"set"` // explicit register values on top of the fill

	// decoded view (observation)
	Fmt    string   `json:"fmt,omitempty"`
	Op     int      `json:"op"`
	Name   string   `json:"name,omitempty"`
	Src0   int      `json:"src0"`
	Src1   int      `json:"src1"`
	Src2   int      `json:"src2"`
	Dst    int      `json:"dst"`
	Simm   int      `json:"simm"`
	Lit    uint32   `json:"lit"`
	Wide   bool     `json:"wide"`  // a source operand of a kind that ReadOperand delivers with 64 bits
	Kinds  []string `json:"kinds"` // operand kinds used
	Class  string   `json:"class"` // generator class (corner / random / witness)
	Sparse bool     `json:"sparse,omitempty"` // probe the named VGPRs only in the active lanes and lanes 0,1,2,31,32,62,63 (plus every register that changed)
	NoDec  string   `json:"nodec,omitempty"`
	Panic  string   `json:"panic,omitempty"`
	NotImp bool     `json:"notimpl,omitempty"`
	Post   Scalars  `json:"post"`
	Probe  []RegVal `json:"probe"`  // pre values of the probe set
	After  []RegVal `json:"after"`  // post values of the probe set (same keys)
	NDiff  int      `json:"ndiff"`  // number of 32-bit registers that changed
	MemAcc int      `json:"memacc"` // accesses to the storage accessor
	LDSChg bool     `json:"ldschg"` // LDS content changed
	MemPost []ByteVal `json:"mempost,omitempty"` // memory bytes that differ from the default content after the run
	LdsPost []ByteVal `json:"ldspost,omitempty"` // LDS bytes that differ from the default content after the run
	Coq    string   `json:"coq,omitempty"`
}

var decoder = insts.NewDisassembler()
var decoderC = func() *insts.Disassembler { d := insts.NewDisassembler(); d.IsCDNA3 = true; return d }()

func fillBytes(b []byte, r *vh.Rng) {
	for i := 0; i+8 <= len(b); i += 8 {
		binary.LittleEndian.PutUint64(b[i:], r.U64())
	}
}

func fmtName(f insts.FormatType) string {
	switch f {
	case insts.SOP2:
		return "SOP2"
	case insts.SOPK:
		return "SOPK"
	case insts.SOP1:
		return "SOP1"
	case insts.SOPC:
		return "SOPC"
	case insts.SOPP:
		return "SOPP"
	case insts.VOP2:
		return "VOP2"
	case insts.VOP1:
		return "VOP1"
	case insts.VOPC:
		return "VOPC"
	case insts.VOP3a:
		return "VOP3A"
	case insts.VOP3b:
		return "VOP3B"
	case insts.SMEM:
		return "SMEM"
	case insts.FLAT:
		return "FLAT"
	case insts.DS:
		return "DS"
	}
	return "OTHER"
}

// wide64: vector opcodes with a 64-bit operand or destination according to the
// manual (the decoder's RegCount is part of what is being checked).
func wide64(f string, op int) bool {
	if f == "VOPC" || f == "VOP3A" {
		if op >= 224 && op <= 239 {
			return true
		}
	}
	if f == "VOP1" && (op == 4 || op == 15 || op == 16 || op == 22) { // binary64 source or destination
		return true
	}
	return f == "VOP3A" && (op == 488 || op == 489 || op == 520 || op == 640 || op == 641 || (op >= 655 && op <= 657))
}

func opCode(o *insts.Operand) int {
	if o == nil {
		return -1
	}
	if o.OperandType == insts.LiteralConstant {
		return 255
	}
	if o.OperandType == insts.RegOperand && o.Register != nil {
		if o.Register.IsVReg() {
			return 256 + o.Register.RegIndex()
		}
		if o.Register.IsSReg() {
			return o.Register.RegIndex()
		}
	}
	return o.Code
}

// run executes the case on the real ALU and fills in the observations.
func run(c *Case) {
	buf := make([]byte, 8)
	binary.LittleEndian.PutUint32(buf, c.Words[0])
	if len(c.Words) > 1 {
		binary.LittleEndian.PutUint32(buf[4:], c.Words[1])
	}
	c.Src0, c.Src1, c.Src2, c.Dst = -1, -1, -1, -1
	var inst *insts.Inst
	func() {
		defer func() {
			if r := recover(); r != nil {
				c.NoDec = fmt.Sprint(r)
			}
		}()
		var err error
		if c.Alu == "cdna3" {
			inst, err = decoderC.Decode(buf)
		} else {
			inst, err = decoder.Decode(buf)
		}
		if err != nil {
			c.NoDec = err.Error()
		}
	}()
	if c.NoDec != "" || inst == nil {
		if c.NoDec == "" {
			c.NoDec = "nil instruction"
		}
		return
	}
	c.Fmt = fmtName(inst.FormatType)
	c.Op = int(inst.Opcode)
	c.Name = inst.InstName
	c.Src0, c.Src1, c.Src2, c.Dst = opCode(inst.Src0), opCode(inst.Src1), opCode(inst.Src2), opCode(inst.Dst)
	if inst.SImm16 != nil {
		c.Simm = int(inst.SImm16.IntValue)
	}
	if inst.FormatType == insts.VOP2 && (inst.Opcode == 22 || inst.Opcode == 59) {
		c.Src2 = c.Dst // v_mac / v_fmac: the destination is the third source
	}
	if inst.FormatType == insts.VOP3a {
		cl := 0
		if inst.Clamp {
			cl = 1
		}
		c.Simm = inst.Abs | inst.Neg<<3 | cl<<6 | inst.Omod<<7 // modifier fields travel in the immediate slot
	}
	if inst.SDst != nil {
		c.Simm = opCode(inst.SDst) // VOP3b: the scalar destination travels in the immediate slot of the Coq inst
	}
	memFields(c, inst)
	for _, o := range []*insts.Operand{inst.Src0, inst.Src1, inst.Src2} {
		if o != nil && o.OperandType == insts.LiteralConstant {
			c.Lit = o.LiteralConstant
		}
	}

	wf := emu.NewWavefront(nil)
	st := &recState{Wavefront: wf, inst: inst}
	fr := vh.NewRng(c.Fill)
	fillBytes(wf.SRegFile, fr)
	fillBytes(wf.VRegFile, fr)
	lds := make([]byte, 65536) // default content: dfltByte(fill, address), see IsaCheck.dflt
	for i := range lds {
		lds[i] = dfltByte(c.Fill, uint64(i))
	}
	for _, s := range c.Set {
		if s.Lane < 0 {
			binary.LittleEndian.PutUint32(wf.SRegFile[s.Idx*4:], s.Val)
		} else {
			binary.LittleEndian.PutUint32(wf.VRegFile[s.Lane*1024+s.Idx*4:], s.Val)
		}
	}
	wf.SetSCC(c.Pre.SCC)
	wf.SetVCC(c.Pre.VCC)
	wf.SetEXEC(c.Pre.EXEC)
	wf.M0 = c.Pre.M0
	wf.SetPC(c.Pre.PC)
	s0 := append([]byte(nil), wf.SRegFile...)
	v0 := append([]byte(nil), wf.VRegFile...)
	l0 := append([]byte(nil), lds...)

	stub := newFlatMem(c.Fill)
	var alu emu.ALU
	if c.Alu == "cdna3" {
		alu = cdna3.NewALU(stub)
	} else {
		alu = emu.NewALU(stub)
	}
	alu.SetLDS(lds)
	func() {
		defer func() {
			if r := recover(); r != nil {
				c.Panic = fmt.Sprint(r)
				if strings.Contains(c.Panic, "not implemented") || strings.Contains(c.Panic, "is not supported") && strings.Contains(c.Panic, "format") {
					c.NotImp = true
				}
			}
		}()
		alu.Run(st)
	}()
	c.Post = Scalars{SCC: wf.SCC(), VCC: wf.VCC(), EXEC: wf.EXEC(), M0: wf.M0, PC: wf.PC()}
	c.MemAcc = stub.reads + stub.writes
	c.LDSChg = string(l0) != string(lds)
	if isMemFmt(c.Fmt) {
		c.MemPost = stub.snapshot()
		for i := range lds {
			if lds[i] != l0[i] {
				c.LdsPost = append(c.LdsPost, ByteVal{uint64(i), lds[i]})
			}
		}
	}

	// probe set: registers named by the instruction + every register that changed
	type key struct{ l, i int }
	probe := map[key]bool{}
	named := func(code int, n int, vector bool) {
		if code < 0 {
			return
		}
		if code <= 101 {
			for k := 0; k < n && code+k <= 101; k++ {
				probe[key{-1, code + k}] = true
			}
		}
		if code >= 256 && code <= 511 {
			for l := 0; l < 64; l++ {
				if c.Sparse && !(l <= 2 || l == 31 || l == 32 || l >= 62 || c.Pre.EXEC&(1<<uint(l)) != 0) {
					continue
				}
				for k := 0; k < n && code-256+k <= 255; k++ {
					probe[key{l, code - 256 + k}] = true
				}
			}
		}
	}
	isVec := strings.HasPrefix(c.Fmt, "VOP")
	ops := []*insts.Operand{inst.Src0, inst.Src1, inst.Src2, inst.Dst, inst.SDst}
	if isMemFmt(c.Fmt) {
		ops = append(ops, inst.Addr, inst.Data, inst.Data1, inst.Base, inst.Offset)
		if c.Fmt == "FLAT" && c.Src2 >= 0 && c.Src2 <= 100 {
			named(c.Src2, 2, false)
		}
	}
	for _, o := range ops {
		if o == nil || o.OperandType != insts.RegOperand {
			continue
		}
		code := o.Code
		if o.Register != nil && o.Register.IsVReg() {
			code = 256 + o.Register.RegIndex()
		} else if o.Register != nil && o.Register.IsSReg() {
			code = o.Register.RegIndex()
		}
		n := 1
		if o.RegCount >= 2 || !isVec || wide64(c.Fmt, c.Op) {
			n = 2
		}
		if isMemFmt(c.Fmt) {
			n = o.RegCount
			if n < 1 {
				n = 1
			}
			if c.Fmt == "FLAT" && o == inst.Addr {
				n = 2
			}
		}
		named(code, n, isVec)
	}
	c.NDiff = 0
	for i := 0; i < len(s0)/4; i++ {
		if string(s0[i*4:i*4+4]) != string(wf.SRegFile[i*4:i*4+4]) {
			probe[key{-1, i}] = true
			c.NDiff++
		}
	}
	for i := 0; i < len(v0)/4; i++ {
		if string(v0[i*4:i*4+4]) != string(wf.VRegFile[i*4:i*4+4]) {
			probe[key{i / 256, i % 256}] = true
			c.NDiff++
		}
	}
	keys := make([]key, 0, len(probe))
	for k := range probe {
		keys = append(keys, k)
	}
	sort.Slice(keys, func(a, b int) bool {
		if keys[a].l != keys[b].l {
			return keys[a].l < keys[b].l
		}
		return keys[a].i < keys[b].i
	})
	for _, k := range keys {
		var pre, post uint32
		if k.l < 0 {
			pre = binary.LittleEndian.Uint32(s0[k.i*4:])
			post = binary.LittleEndian.Uint32(wf.SRegFile[k.i*4:])
		} else {
			pre = binary.LittleEndian.Uint32(v0[k.l*1024+k.i*4:])
			post = binary.LittleEndian.Uint32(wf.VRegFile[k.l*1024+k.i*4:])
		}
		c.Probe = append(c.Probe, RegVal{k.l, k.i, pre})
		c.After = append(c.After, RegVal{k.l, k.i, post})
	}
	c.Coq = caseCoq(c)
}

// ---------------------------------------------------------------- Coq term

func z(x uint64) string { return fmt.Sprintf("%d", x) }

func zi(x int) string {
	if x < 0 {
		return fmt.Sprintf("(%d)", x)
	}
	return fmt.Sprintf("%d", x)
}

// bytesCoq: runs (start, [bytes]) of consecutive addresses (the input is sorted by address)
func bytesCoq(bs []ByteVal) string {
	var out []string
	for i := 0; i < len(bs); {
		j := i + 1
		for j < len(bs) && bs[j].Addr == bs[j-1].Addr+1 {
			j++
		}
		vals := make([]string, j-i)
		for k := i; k < j; k++ {
			vals[k-i] = fmt.Sprintf("%d", bs[k].Val)
		}
		out = append(out, fmt.Sprintf("(%d,[%s])", bs[i].Addr, strings.Join(vals, ";")))
		i = j
	}
	return strings.Join(out, ";")
}

// pstateCoq: VGPRs probed in all 64 lanes travel as columns (register, [64 values]), the rest as triples
func pstateCoq(s Scalars, regs []RegVal, seed uint64, mem, lds []ByteVal) string {
	var sg, vg, vc []string
	cnt := map[int]int{}
	for _, r := range regs {
		if r.Lane >= 0 {
			cnt[r.Idx]++
		}
	}
	col := map[int]*[64]uint32{}
	for _, r := range regs {
		if r.Lane < 0 {
			sg = append(sg, fmt.Sprintf("(%d,%d)", r.Idx, r.Val))
		} else if cnt[r.Idx] == 64 {
			if col[r.Idx] == nil {
				col[r.Idx] = &[64]uint32{}
			}
			col[r.Idx][r.Lane] = r.Val
		} else {
			vg = append(vg, fmt.Sprintf("(%d,%d,%d)", r.Lane, r.Idx, r.Val))
		}
	}
	idxs := make([]int, 0, len(col))
	for i := range col {
		idxs = append(idxs, i)
	}
	sort.Ints(idxs)
	for _, i := range idxs {
		vals := make([]string, 64)
		for l := 0; l < 64; l++ {
			vals[l] = fmt.Sprintf("%d", col[i][l])
		}
		vc = append(vc, fmt.Sprintf("(%d,[%s])", i, strings.Join(vals, ";")))
	}
	return fmt.Sprintf("(mkP %d %s %s %d %s [%s] [%s] [%s] %d [%s] [%s])", s.SCC, z(s.VCC), z(s.EXEC), s.M0, z(s.PC),
		strings.Join(sg, ";"), strings.Join(vg, ";"), strings.Join(vc, ";"), seed&0xff, bytesCoq(mem), bytesCoq(lds))
}

func caseCoq(c *Case) string {
	arch := "GCN3"
	if c.Alu == "cdna3" {
		arch = "CDNA3"
	}
	inst := fmt.Sprintf("(mkInst F_%s %d %s %s %s %s %s %d)", c.Fmt, c.Op, zi(c.Src0), zi(c.Src1), zi(c.Src2), zi(c.Dst), zi(c.Simm), c.Lit)
	crashed := c.Panic != ""
	eff := c.MemAcc > 0 || c.LDSChg
	return fmt.Sprintf("mkCase %s %s %s %s %s %s", arch, inst, pstateCoq(c.Pre, c.Probe, c.Fill, nil, nil), vh.CoqBool(crashed), vh.CoqBool(eff), pstateCoq(c.Post, c.After, c.Fill, c.MemPost, c.LdsPost))
}

// ---------------------------------------------------------------- encoders

func encSOP2(op, sdst, s0, s1 int) uint32 {
	return 0x80000000 | uint32(op)<<23 | uint32(sdst)<<16 | uint32(s1)<<8 | uint32(s0)
}
func encSOPK(op, sdst, simm int) uint32 {
	return 0xB0000000 | uint32(op)<<23 | uint32(sdst)<<16 | uint32(simm&0xffff)
}
func encSOP1(op, sdst, s0 int) uint32 {
	return 0xBE800000 | uint32(sdst)<<16 | uint32(op)<<8 | uint32(s0)
}
func encSOPC(op, s0, s1 int) uint32 { return 0xBF000000 | uint32(op)<<16 | uint32(s1)<<8 | uint32(s0) }
func encSOPP(op, simm int) uint32   { return 0xBF800000 | uint32(op)<<16 | uint32(simm&0xffff) }
func encVOP2(op, vdst, s0, vsrc1 int) uint32 {
	return uint32(op)<<25 | uint32(vdst)<<17 | uint32(vsrc1)<<9 | uint32(s0)
}

// ---------------------------------------------------------------- generator

var corner32 = []uint32{0, 1, 2, 0xffffffff, 0x7fffffff, 0x80000000, 0x80000001, 0xfffffffe, 31, 32, 33, 63, 64,
	0x10005, 0xffff0005, 0x8000, 0xffff8000, 0x00ffffff, 0x00800000, 0x01000000, 0x40000000, 0xc0000000, 5}

func val32(r *vh.Rng) uint32 {
	switch r.Pick(5, 4, 1) {
	case 0:
		return corner32[r.Intn(len(corner32))]
	case 1:
		return uint32(r.U64())
	default:
		return uint32(r.U64()) & 0xff
	}
}

// bit-field / shift style second operand
func valShift(r *vh.Rng) uint32 {
	switch r.Pick(3, 3, 1) {
	case 0:
		return uint32([]int{0, 1, 31, 32, 33, 63, 64, 65, 127, 128, 255, 256}[r.Intn(12)])
	case 1:
		off := uint32(r.Intn(32))
		w := uint32([]int{0, 1, 2, 8, 16, 31, 32, 33, 64, 127}[r.Intn(10)])
		if r.Bool() {
			w = uint32(r.Intn(34))
		}
		return off | w<<16 | uint32(r.Intn(2))<<8
	default:
		return uint32(r.U64())
	}
}

func val64(r *vh.Rng) uint64 {
	switch r.Pick(3, 3, 1, 1) {
	case 0:
		return []uint64{0, 1, 0xffffffffffffffff, 0x8000000000000000, 0x7fffffffffffffff, 0xffffffff, 0x100000000, 0xffffffff00000000, 0x5555555555555555}[r.Intn(9)]
	case 1:
		return r.U64()
	case 2:
		return uint64(1) << uint(r.Intn(64))
	default:
		return r.U64() & r.U64() & r.U64()
	}
}

type gen struct {
	r     *vh.Rng
	c     *Case
	lit   bool
	wide  bool
	kinds []string
}

func (g *gen) setS(idx int, v uint32) { g.c.Set = append(g.c.Set, RegVal{-1, idx, v}) }

// src32 chooses a scalar source operand for a 32-bit operation that should
// evaluate to value v where the kind allows it. hostile: also kinds that panic.
func (g *gen) src32(v uint32, other int) int {
	k := g.r.Pick(50, 8, 8, 5, 5, 3, 3, 4, 2, 2, 1, 1)
	switch k {
	case 0:
		idx := g.r.Intn(100)
		if other >= 0 && other <= 101 && g.r.Intn(8) == 0 {
			idx = other
		}
		g.setS(idx, v)
		g.kinds = append(g.kinds, "sgpr")
		return idx
	case 1:
		if g.lit {
			idx := g.r.Intn(100)
			g.setS(idx, v)
			g.kinds = append(g.kinds, "sgpr")
			return idx
		}
		g.lit = true
		g.c.Words = append(g.c.Words, v)
		g.kinds = append(g.kinds, "literal")
		return 255
	case 2:
		g.kinds = append(g.kinds, "inline+")
		if v <= 64 {
			return 128 + int(v)
		}
		return 128 + g.r.Intn(65)
	case 3:
		g.kinds = append(g.kinds, "inline-")
		g.wide = true
		return 193 + g.r.Intn(16)
	case 4:
		g.kinds = append(g.kinds, "vcc_lo")
		g.wide = true
		g.c.Pre.VCC = g.c.Pre.VCC&0xffffffff00000000 | uint64(v)
		return 106
	case 5:
		g.kinds = append(g.kinds, "vcc_hi")
		g.wide = true
		g.c.Pre.VCC = g.c.Pre.VCC&0xffffffff | uint64(v)<<32
		return 107
	case 6:
		g.kinds = append(g.kinds, "m0")
		g.c.Pre.M0 = v
		return 124
	case 7:
		g.kinds = append(g.kinds, "exec_lo")
		g.c.Pre.EXEC = g.c.Pre.EXEC&0xffffffff00000000 | uint64(v)
		return 126
	case 8:
		g.kinds = append(g.kinds, "scc")
		return 253
	case 9:
		g.kinds = append(g.kinds, "inlinef")
		return 240 + g.r.Intn(9)
	case 10:
		g.kinds = append(g.kinds, "exec_hi")
		return 127
	default:
		g.kinds = append(g.kinds, "vccz/execz")
		return 251 + g.r.Intn(2)
	}
}

func (g *gen) src64(v uint64) int {
	k := g.r.Pick(55, 10, 10, 8, 8, 6)
	switch k {
	case 0:
		idx := 2 * g.r.Intn(50)
		g.setS(idx, uint32(v))
		g.setS(idx+1, uint32(v>>32))
		g.kinds = append(g.kinds, "sgpr64")
		return idx
	case 1:
		g.kinds = append(g.kinds, "vcc")
		g.c.Pre.VCC = v
		return 106
	case 2:
		g.kinds = append(g.kinds, "exec")
		g.c.Pre.EXEC = v
		return 126
	case 3:
		g.kinds = append(g.kinds, "inline+")
		return 128 + g.r.Intn(65)
	case 4:
		g.kinds = append(g.kinds, "inline-")
		return 193 + g.r.Intn(16)
	default:
		if g.lit {
			g.kinds = append(g.kinds, "inline+")
			return 128 + g.r.Intn(65)
		}
		g.lit = true
		g.c.Words = append(g.c.Words, uint32(v))
		g.kinds = append(g.kinds, "literal")
		return 255
	}
}

func (g *gen) dst32() int {
	switch g.r.Pick(84, 5, 3, 4, 2, 2) {
	case 0:
		g.kinds = append(g.kinds, "d:sgpr")
		return g.r.Intn(102)
	case 1:
		g.kinds = append(g.kinds, "d:vcc_lo")
		return 106
	case 2:
		g.kinds = append(g.kinds, "d:vcc_hi")
		return 107
	case 3:
		g.kinds = append(g.kinds, "d:m0")
		return 124
	case 4:
		g.kinds = append(g.kinds, "d:exec_lo")
		return 126
	default:
		g.kinds = append(g.kinds, "d:exec_hi")
		return 127
	}
}

func (g *gen) dst64() int {
	switch g.r.Pick(80, 10, 10) {
	case 0:
		g.kinds = append(g.kinds, "d:sgpr64")
		return 2 * g.r.Intn(50)
	case 1:
		g.kinds = append(g.kinds, "d:vcc")
		return 106
	default:
		g.kinds = append(g.kinds, "d:exec")
		return 126
	}
}

var sop2Is64 = map[int]bool{11: true, 13: true, 15: true, 17: true, 19: true, 21: true, 23: true, 25: true, 27: true, 29: true, 31: true, 33: true, 35: true, 39: true, 40: true}
var sop2Shift = map[int]bool{28: true, 29: true, 30: true, 31: true, 32: true, 33: true, 34: true, 35: true, 37: true, 38: true, 39: true, 40: true}
var sop1Src64 = map[int]bool{1: true, 3: true, 5: true, 7: true, 9: true, 11: true, 13: true, 15: true, 17: true, 19: true, 21: true, 25: true, 27: true, 29: true, 30: true, 31: true, 32: true, 33: true, 34: true, 35: true, 36: true, 37: true, 38: true, 39: true, 41: true, 43: true, 45: true}
var sop1Dst64 = map[int]bool{1: true, 3: true, 5: true, 7: true, 9: true, 25: true, 27: true, 28: true, 29: true, 30: true, 31: true, 32: true, 33: true, 34: true, 35: true, 36: true, 37: true, 38: true, 39: true, 41: true, 43: true, 45: true}

func newCase(alu string, r *vh.Rng) *gen {
	c := &Case{Alu: alu, Fill: r.U64()}
	c.Pre.SCC = uint8(r.Intn(2))
	c.Pre.VCC = val64(r)
	c.Pre.EXEC = val64(r)
	c.Pre.M0 = val32(r)
	c.Pre.PC = uint64(r.Intn(1<<20)) * 4
	if r.Intn(16) == 0 {
		c.Pre.PC = []uint64{0, 4, 0x20000, 0xfffffffffffffffc, 0x7ffffffffffffffc, 0x100000000}[r.Intn(6)]
	}
	return &gen{r: r, c: c}
}

func (g *gen) finish(class string) Case {
	g.c.Wide = g.wide
	g.c.Kinds = g.kinds
	g.c.Class = class
	return *g.c
}

// carry-oriented operand pairs
func pair32(r *vh.Rng) (uint32, uint32) {
	a := val32(r)
	switch r.Pick(4, 2, 2, 1) {
	case 0:
		return a, val32(r)
	case 1:
		return a, 0xffffffff - a // a + b = 2^32-1 : carry exactly with carry-in
	case 2:
		return a, a
	default:
		return a, -a
	}
}

func genScalar(alu, fmtn string, op int, r *vh.Rng) Case {
	g := newCase(alu, r)
	g.c.Words = []uint32{0}
	switch fmtn {
	case "SOP2":
		if sop2Is64[op] {
			a, b := val64(r), val64(r)
			if sop2Shift[op] {
				b = uint64(valShift(r))
			}
			s0 := g.src64(a)
			s1 := g.src64(b)
			d := g.dst64()
			g.c.Words[0] = encSOP2(op, d, s0, s1)
		} else {
			a, b := pair32(r)
			if sop2Shift[op] {
				b = valShift(r)
				if op == 34 {
					a = valShift(r)
				}
			}
			s0 := g.src32(a, -1)
			s1 := g.src32(b, s0)
			d := g.dst32()
			if r.Intn(8) == 0 && s0 <= 101 {
				d = s0
			}
			g.c.Words[0] = encSOP2(op, d, s0, s1)
		}
	case "SOP1":
		var s0, d int
		if sop1Src64[op] {
			s0 = g.src64(val64(r))
		} else {
			s0 = g.src32(val32(r), -1)
		}
		if sop1Dst64[op] {
			d = g.dst64()
		} else {
			d = g.dst32()
		}
		g.c.Words[0] = encSOP1(op, d, s0)
	case "SOPC":
		a, b := pair32(r)
		if r.Intn(4) == 0 {
			b = a
		}
		s0 := g.src32(a, -1)
		s1 := g.src32(b, s0)
		g.c.Words[0] = encSOPC(op, s0, s1)
	case "SOPK":
		simm := int(uint16(val32(r)))
		if r.Bool() {
			simm = []int{0, 1, 5, 0x7fff, 0x8000, 0xffff, 0xfffe, 0x8001}[r.Intn(8)]
		}
		d := g.dst32()
		if d <= 101 {
			v := val32(r)
			switch r.Intn(4) {
			case 0:
				v = uint32(int32(int16(uint16(simm)))) // equal to the sign-extended immediate
			case 1:
				v = uint32(simm) | uint32(r.Intn(4)+1)<<16 // same low half, different high half
			}
			g.setS(d, v)
		}
		g.c.Words[0] = encSOPK(op, d, simm)
	case "SOPP":
		simm := int(uint16(val32(r)))
		if r.Bool() {
			simm = []int{0, 1, 0x7fff, 0x8000, 0xffff, 0xfffe, 3}[r.Intn(7)]
		}
		if r.Intn(3) == 0 {
			g.c.Pre.VCC = 0
		}
		if r.Intn(3) == 0 {
			g.c.Pre.EXEC = 0
		}
		g.c.Words[0] = encSOPP(op, simm)
	}
	return g.finish("gen")
}

// vector source operand (9-bit src0): VGPR, SGPR, constants, literal, special registers
func (g *gen) vsrc0(vals func(lane int) uint32) int {
	k := g.r.Pick(50, 15, 6, 6, 5, 4, 4, 4, 3, 3)
	switch k {
	case 0:
		idx := g.r.Intn(256)
		for l := 0; l < 64; l++ {
			g.c.Set = append(g.c.Set, RegVal{l, idx, vals(l)})
		}
		g.kinds = append(g.kinds, "vgpr")
		return 256 + idx
	case 1:
		idx := g.r.Intn(100)
		g.setS(idx, vals(0))
		g.kinds = append(g.kinds, "sgpr")
		return idx
	case 2:
		if g.lit {
			g.kinds = append(g.kinds, "inline+")
			return 128 + g.r.Intn(65)
		}
		g.lit = true
		g.c.Words = append(g.c.Words, vals(0))
		g.kinds = append(g.kinds, "literal")
		return 255
	case 3:
		g.kinds = append(g.kinds, "inline+")
		return 128 + g.r.Intn(65)
	case 4:
		g.kinds = append(g.kinds, "inline-")
		g.wide = true
		return 193 + g.r.Intn(16)
	case 5:
		g.kinds = append(g.kinds, "vcc_lo")
		g.wide = true
		return 106
	case 6:
		g.kinds = append(g.kinds, "vcc_hi")
		g.wide = true
		return 107
	case 7:
		g.kinds = append(g.kinds, "m0")
		return 124
	case 8:
		g.kinds = append(g.kinds, "exec_lo")
		return 126
	default:
		g.kinds = append(g.kinds, "inlinef")
		return 240 + g.r.Intn(9)
	}
}

func genVOP2(alu string, op int, r *vh.Rng) Case {
	g := newCase(alu, r)
	g.c.Words = []uint32{0}
	av := make([]uint32, 64)
	bv := make([]uint32, 64)
	for l := 0; l < 64; l++ {
		av[l], bv[l] = pair32(r)
		if op >= 16 && op <= 18 || op == 42 || op == 43 || op == 44 {
			av[l] = valShift(r)
		}
	}
	s0 := g.vsrc0(func(l int) uint32 { return av[l] })
	v1 := r.Intn(256)
	if s0 == 256+v1 {
		v1 = (v1 + 1) % 256
	}
	for l := 0; l < 64; l++ {
		g.c.Set = append(g.c.Set, RegVal{l, v1, bv[l]})
	}
	vd := r.Intn(256)
	if r.Intn(6) == 0 {
		vd = v1
	}
	switch r.Intn(6) {
	case 0:
		g.c.Pre.EXEC = 0xffffffffffffffff
	case 1:
		g.c.Pre.EXEC = 0
	}
	g.c.Words[0] = encVOP2(op, vd, s0, v1)
	return g.finish("gen")
}

// ---------------------------------------------------------------- corner grid
//
// Deterministic cross products that are always part of a run (never sampled
// away): every opcode sees each source in gridV x each other source in gridV x
// SCC-in in {0,1}; shifts see every amount corner, bit-field operations every
// offset/width corner (including offset+width >= 32); plain SGPR operands.

func gridVals32(r *vh.Rng) []uint32 {
	return []uint32{0, 1, 0x7fffffff, 0x80000000, 0xfffffffe, 0xffffffff, uint32(r.U64())}
}

func gridVals64(r *vh.Rng) []uint64 {
	return []uint64{0, 1, 0x7fffffffffffffff, 0x8000000000000000, 0xffffffffffffffff, 0xffffffff00000000, r.U64()}
}

var gridAmounts = []uint32{0, 1, 31, 32, 33, 63, 64, 0xffffffff}

func gridBase(alu string, r *vh.Rng, scc uint8) *Case {
	c := &Case{Alu: alu, Fill: r.U64(), Class: "grid", Kinds: []string{"sgpr", "sgpr", "d:sgpr"}}
	c.Pre = Scalars{SCC: scc, VCC: r.U64(), EXEC: r.U64(), M0: uint32(r.U64()), PC: uint64(r.Intn(1<<20)) * 4}
	return c
}

func (c *Case) s32(idx int, v uint32) { c.Set = append(c.Set, RegVal{-1, idx, v}) }
func (c *Case) s64(idx int, v uint64) {
	c.Set = append(c.Set, RegVal{-1, idx, uint32(v)}, RegVal{-1, idx + 1, uint32(v >> 32)})
}

func gridCases(alu, fmtn string, op int, r *vh.Rng) []Case {
	var out []Case
	add := func(c *Case) { out = append(out, *c) }
	switch fmtn {
	case "SOP2":
		switch {
		case sop2Is64[op]:
			bs := gridVals64(r)
			if sop2Shift[op] {
				bs = nil
				for _, a := range gridAmounts {
					bs = append(bs, uint64(a))
				}
			}
			for _, a := range gridVals64(r) {
				for _, b := range bs {
					for scc := uint8(0); scc < 2; scc++ {
						c := gridBase(alu, r, scc)
						c.s64(10, a)
						c.s64(12, b)
						c.Words = []uint32{encSOP2(op, 14, 10, 12)}
						add(c)
					}
				}
			}
		case op == 37 || op == 38: // bit-field extract
			srcs := []uint32{0, 1, 0x7fffffff, 0x80000000, 0xfffffffe, 0xffffffff, 0xf0, uint32(r.U64())}
			for _, a := range srcs {
				for _, off := range []uint32{0, 1, 4, 16, 31} {
					for _, w := range []uint32{0, 1, 4, 16, 28, 31, 32, 33, 64, 127} {
						c := gridBase(alu, r, uint8(r.Intn(2)))
						c.s32(10, a)
						c.s32(12, off|w<<16|uint32(r.Intn(2))<<8)
						c.Words = []uint32{encSOP2(op, 14, 10, 12)}
						add(c)
					}
				}
			}
		default:
			bs := gridVals32(r)
			if sop2Shift[op] {
				bs = gridAmounts
			}
			as := gridVals32(r)
			if op == 34 { // s_bfm_b32: both operands are bit counts
				as = gridAmounts
			}
			for _, a := range as {
				for _, b := range bs {
					for scc := uint8(0); scc < 2; scc++ {
						c := gridBase(alu, r, scc)
						c.s32(10, a)
						c.s32(12, b)
						c.Words = []uint32{encSOP2(op, 14, 10, 12)}
						add(c)
					}
				}
			}
		}
	case "SOPC":
		for _, a := range gridVals32(r) {
			for _, b := range gridVals32(r) {
				c := gridBase(alu, r, uint8(r.Intn(2)))
				c.s32(10, a)
				c.s32(12, b)
				c.Words = []uint32{encSOPC(op, 10, 12)}
				add(c)
			}
		}
	case "SOP1":
		if sop1Src64[op] {
			for _, a := range gridVals64(r) {
				for _, e := range gridVals64(r) {
					c := gridBase(alu, r, uint8(r.Intn(2)))
					c.Pre.EXEC = e
					c.s64(10, a)
					c.Words = []uint32{encSOP1(op, 14, 10)}
					add(c)
				}
			}
		} else {
			vals := append(gridVals32(r), 0x80000001, 5, 0xfffffffb, 0x0000ffff, 0xffff0000)
			for _, a := range vals {
				for scc := uint8(0); scc < 2; scc++ {
					c := gridBase(alu, r, scc)
					c.s32(10, a)
					c.Words = []uint32{encSOP1(op, 14, 10)}
					add(c)
				}
			}
		}
	case "SOPK":
		for _, k := range []int{0, 1, 5, 0x7fff, 0x8000, 0xfffe, 0xffff} {
			sext := uint32(int32(int16(uint16(k))))
			dvals := append(gridVals32(r), sext, uint32(k), uint32(k)|0x10000, sext^0x80000000)
			for _, d := range dvals {
				for scc := uint8(0); scc < 2; scc++ {
					c := gridBase(alu, r, scc)
					c.s32(14, d)
					c.Words = []uint32{encSOPK(op, 14, k)}
					add(c)
				}
			}
		}
	case "SOPP":
		for _, k := range []int{0, 1, 3, 0x7fff, 0x8000, 0xffff} {
			for scc := uint8(0); scc < 2; scc++ {
				for _, vz := range []bool{true, false} {
					for _, ez := range []bool{true, false} {
						c := gridBase(alu, r, scc)
						if vz {
							c.Pre.VCC = 0
						} else if c.Pre.VCC == 0 {
							c.Pre.VCC = 1
						}
						if ez {
							c.Pre.EXEC = 0
						} else if c.Pre.EXEC == 0 {
							c.Pre.EXEC = 1 << 63
						}
						if k == 0x8000 {
							c.Pre.PC = 4 // branch target wraps below zero
						}
						c.Words = []uint32{encSOPP(op, k)}
						add(c)
					}
				}
			}
		}
	}
	return out
}

// probe: does the ALU implement (fmt, op) at all?
func implemented(alu, fmtn string, op int) (bool, string) {
	r := vh.NewRng(12345)
	g := newCase(alu, r)
	switch fmtn {
	case "SOP2":
		g.c.Words = []uint32{encSOP2(op, 4, 0, 2)}
	case "SOP1":
		g.c.Words = []uint32{encSOP1(op, 4, 0)}
	case "SOPC":
		g.c.Words = []uint32{encSOPC(op, 0, 2)}
	case "SOPK":
		g.c.Words = []uint32{encSOPK(op, 4, 3)}
	case "SOPP":
		g.c.Words = []uint32{encSOPP(op, 3)}
	case "VOP2":
		g.c.Words = []uint32{encVOP2(op, 4, 256, 2), 0}
	}
	c := g.finish("probe")
	run(&c)
	if c.NoDec != "" {
		return false, "undecodable: " + c.NoDec
	}
	if c.NotImp {
		return false, c.Panic
	}
	return true, c.Name
}

type OpInfo struct {
	Alu  string `json:"alu"`
	Fmt  string `json:"fmt"`
	Op   int    `json:"op"`
	Impl bool   `json:"impl"`
	Note string `json:"note"`
}

type Output struct {
	Ops          []OpInfo       `json:"ops"`
	Cases        []Case         `json:"cases"`
	Closure      []ClosureEntry `json:"closure,omitempty"`
	ClosureStats map[string]int `json:"closure_stats,omitempty"`
}

var fmtMax = []struct {
	f   string
	max int
}{{"SOP2", 52}, {"SOP1", 55}, {"SOPC", 20}, {"SOPK", 21}, {"SOPP", 30}}

func main() {
	seed := flag.Uint64("seed", 1, "seed")
	per := flag.Int("per", 30, "cases per implemented scalar opcode")
	perv := flag.Int("perv", 4, "cases per implemented vector opcode")
	grid := flag.Bool("grid", true, "include the deterministic corner cross products")
	kernels := flag.String("kernels", "", "repository root: also decode every shipped .hsaco and report the opcode closure")
	out := flag.String("out", "", "output JSON file")
	rep := flag.String("replay", "", "JSON file with cases to replay")
	flag.Parse()
	log.SetOutput(io.Discard) // log.Panicf of the handlers is recovered and recorded per case

	var res Output
	if *rep != "" {
		data, err := os.ReadFile(*rep)
		if err != nil {
			panic(err)
		}
		var in []Case
		if err := json.Unmarshal(data, &in); err != nil {
			panic(err)
		}
		for _, c := range in {
			cc := Case{Alu: c.Alu, Words: c.Words, Fill: c.Fill, Pre: c.Pre, Set: c.Set, Wide: c.Wide, Kinds: c.Kinds, Class: c.Class, Sparse: c.Sparse}
			run(&cc)
			cc.Wide, cc.Kinds, cc.Class = c.Wide, c.Kinds, c.Class
			res.Cases = append(res.Cases, cc)
		}
	} else {
		rng := vh.NewRng(*seed)
		for _, alu := range []string{"gcn3", "cdna3"} {
			for _, fm := range fmtMax {
				for op := 0; op <= fm.max; op++ {
					if fm.f == "SOPP" && (op == 1 || op == 10) {
						// s_endpgm / s_barrier are handled by the compute unit loop, not by the ALU
						res.Ops = append(res.Ops, OpInfo{alu, fm.f, op, false, "handled outside the ALU"})
						continue
					}
					ok, note := implemented(alu, fm.f, op)
					res.Ops = append(res.Ops, OpInfo{alu, fm.f, op, ok, note})
					if !ok {
						continue
					}
					n := *per
					if fm.f == "VOP2" {
						n = *perv
					}
					if *grid && fm.f != "VOP2" {
						for _, c := range gridCases(alu, fm.f, op, rng.Fork()) {
							wide, kinds, class := c.Wide, c.Kinds, c.Class
							run(&c)
							c.Wide, c.Kinds, c.Class = wide, kinds, class
							res.Cases = append(res.Cases, c)
						}
					}
					for i := 0; i < n; i++ {
						var c Case
						if fm.f == "VOP2" {
							c = genVOP2(alu, op, rng.Fork())
						} else {
							c = genScalar(alu, fm.f, op, rng.Fork())
						}
						wide, kinds, class := c.Wide, c.Kinds, c.Class
						run(&c)
						c.Wide, c.Kinds, c.Class = wide, kinds, class
						res.Cases = append(res.Cases, c)
					}
				}
			}
		}
	}
	if *rep == "" {
		rng := vh.NewRng(*seed ^ 0x5eed)
		for _, alu := range []string{"gcn3", "cdna3"} {
			for _, v := range vecOps {
				if v.alus != "" && v.alus != alu {
					continue
				}
				ok, note := vecImplemented(alu, v)
				res.Ops = append(res.Ops, OpInfo{alu, v.fmt, v.op, ok, note})
				if !ok {
					continue
				}
				for i := 0; i < 2+*perv; i++ {
					mode := i
					if i >= 2 {
						mode = 2
					}
					if mode < 2 && !*grid {
						continue
					}
					c := vecCase(alu, v, rng.Fork(), mode)
					wide, kinds, class := c.Wide, c.Kinds, c.Class
					run(&c)
					c.Wide, c.Kinds, c.Class = wide, kinds, class
					res.Cases = append(res.Cases, c)
				}
				// EXEC corners, always run: empty, lane 0 only, lane 63 only (grid operands)
				for mode := 3; mode <= 5 && *grid; mode++ {
					c := vecCase(alu, v, rng.Fork(), mode)
					wide, kinds, class := c.Wide, c.Kinds, c.Class
					run(&c)
					c.Wide, c.Kinds, c.Class = wide, kinds, class
					res.Cases = append(res.Cases, c)
				}
			}
		}
	}
	if *rep == "" {
		rng := vh.NewRng(*seed ^ 0x3e3)
		for _, alu := range []string{"gcn3", "cdna3"} {
			for _, m := range memOps {
				if m.alus != "" && m.alus != alu {
					continue
				}
				first := len(res.Cases)
				for k := 0; k < memGridN(m)+*perv; k++ {
					if k < memGridN(m) && !*grid {
						continue
					}
					c := memCase(alu, m, rng.Fork(), k)
					wide, kinds, class := c.Wide, c.Kinds, c.Class
					run(&c)
					c.Wide, c.Kinds, c.Class = wide, kinds, class
					res.Cases = append(res.Cases, c)
					if c.NotImp || c.NoDec != "" {
						break
					}
				}
				impl := len(res.Cases) > first && !res.Cases[first].NotImp && res.Cases[first].NoDec == ""
				note := ""
				if !impl && len(res.Cases) > first {
					note = res.Cases[first].Panic + res.Cases[first].NoDec
				}
				res.Ops = append(res.Ops, OpInfo{alu, m.fmt, m.op, impl, note})
			}
		}
	}
	if *kernels != "" {
		var nf, nk, und int
		res.Closure, nf, nk, und = kernelClosure(*kernels)
		res.ClosureStats = map[string]int{"files": nf, "kernels": nk, "undecodable_words": und}
	}
	data, _ := json.Marshal(res)
	if *out == "" {
		os.Stdout.Write(data)
	} else if err := os.WriteFile(*out, data, 0o644); err != nil {
		panic(err)
	}
}
