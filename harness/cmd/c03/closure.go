package main

import (
	"bytes"
	"debug/elf"
	"encoding/binary"
	"os"
	"path/filepath"
	"sort"
	"strings"

	"github.com/sarchlab/mgpusim/v4/amd/insts"
)

// ClosureEntry is one (architecture, format, opcode) triple that occurs in a
// shipped kernel, decoded with the repository's own decoder.
type ClosureEntry struct {
	Alu   string `json:"alu"`
	Fmt   string `json:"fmt"`
	Op    int    `json:"op"`
	Name  string `json:"name"`
	Count int    `json:"count"`
	Files int    `json:"files"`
}

// kernelClosure decodes every kernel of every .hsaco below root/amd/benchmarks
// and root/amd/samples.
func kernelClosure(root string) (entries []ClosureEntry, nfiles, nkernels, undecodable int) {
	type key struct {
		alu, fmt string
		op       int
	}
	cnt := map[key]*ClosureEntry{}
	seenFile := map[key]map[string]bool{}
	var files []string
	for _, sub := range []string{"amd/benchmarks", "amd/samples"} {
		filepath.Walk(filepath.Join(root, sub), func(p string, info os.FileInfo, err error) error {
			if err == nil && !info.IsDir() && strings.HasSuffix(p, ".hsaco") {
				files = append(files, p)
			}
			return nil
		})
	}
	sort.Strings(files)
	for _, p := range files {
		data, err := os.ReadFile(p)
		if err != nil || len(data) < 64 {
			continue
		}
		f, err := elf.NewFile(bytes.NewReader(data))
		if err != nil {
			continue
		}
		nfiles++
		mach := binary.LittleEndian.Uint32(data[48:52]) & 0xff
		alu, dec := "gcn3", decoder
		if mach == 0x4c || mach == 0x40 || mach == 0x4b || mach == 0x4e { // gfx942 / gfx90a / gfx940 / gfx941
			alu, dec = "cdna3", decoderC
		}
		syms, _ := f.Symbols()
		text := f.Section(".text")
		if text == nil {
			continue
		}
		var names []string
		for _, s := range syms {
			if s.Section == elf.SHN_UNDEF || int(s.Section) >= len(f.Sections) {
				continue
			}
			if f.Sections[s.Section].Name == ".text" && s.Size > 0 {
				names = append(names, s.Name)
			}
		}
		for _, name := range names {
			var buf []byte
			func() {
				defer func() { recover() }()
				co := insts.LoadKernelCodeObjectFromELF(f, name)
				if co != nil {
					buf = co.InstructionData()
				}
			}()
			if buf == nil {
				continue
			}
			nkernels++
			for len(buf) >= 4 {
				var inst *insts.Inst
				func() {
					defer func() {
						if r := recover(); r != nil {
							inst = nil
						}
					}()
					b := buf
					if len(b) < 8 {
						b = append(append([]byte(nil), b...), 0, 0, 0, 0)
					}
					var err error
					inst, err = dec.Decode(b)
					if err != nil {
						inst = nil
					}
				}()
				if inst == nil || inst.ByteSize <= 0 || inst.ByteSize > len(buf)+4 {
					undecodable++
					buf = buf[4:]
					continue
				}
				k := key{alu, fmtName(inst.FormatType), int(inst.Opcode)}
				if inst.FormatType == insts.SMEM {
					k.fmt = "SMEM"
				} else if inst.FormatType == insts.FLAT {
					k.fmt = "FLAT"
				} else if inst.FormatType == insts.DS {
					k.fmt = "DS"
				}
				e := cnt[k]
				if e == nil {
					e = &ClosureEntry{Alu: k.alu, Fmt: k.fmt, Op: k.op, Name: inst.InstName}
					cnt[k] = e
					seenFile[k] = map[string]bool{}
				}
				e.Count++
				seenFile[k][p] = true
				if inst.ByteSize >= len(buf) {
					break
				}
				buf = buf[inst.ByteSize:]
			}
		}
	}
	for k, e := range cnt {
		e.Files = len(seenFile[k])
		entries = append(entries, *e)
	}
	sort.Slice(entries, func(i, j int) bool {
		a, b := entries[i], entries[j]
		if a.Alu != b.Alu {
			return a.Alu < b.Alu
		}
		if a.Fmt != b.Fmt {
			return a.Fmt < b.Fmt
		}
		return a.Op < b.Op
	})
	return
}
