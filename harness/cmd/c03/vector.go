package main

import (
	"math"

	"verifharness/vh"
)

// vop describes the operand shape of one vector integer opcode for the generator.
type vop struct {
	fmt   string
	op    int
	nsrc  int    // number of source operands
	w     [3]int // source widths in dwords
	dw    int    // VGPR destination width in dwords (0: none)
	cin   int    // per-lane mask input: 0 none, 1 VCC, 2 src2 is an SGPR pair holding it
	mdst  int    // per-lane mask output: 0 none, 1 VCC, 2 the VOP3a destination (SGPR pair), 3 VOP3b SDST
	shift int    // index of the operand that is a shift amount / bit count (-1: none)
	sdstv bool   // destination is a scalar register (v_readfirstlane)
	alus  string // "" both, else the only ALU
	flt   int    // 1: binary32 operands, 2: binary32 operands with a literal K following the instruction
	macc  bool   // the destination is also the third source (v_mac / v_fmac)
}

func v2(op int) vop { return vop{fmt: "VOP2", op: op, nsrc: 2, w: [3]int{1, 1, 0}, dw: 1, shift: -1} }
func v3(op, n int) vop {
	return vop{fmt: "VOP3A", op: op, nsrc: n, w: [3]int{1, 1, 1}, dw: 1, shift: -1}
}
func (v vop) sh(i int) vop      { v.shift = i; return v }
func (v vop) only(a string) vop { v.alus = a; return v }
func (v vop) f() vop            { v.flt = 1; return v }

var vecOps = func() []vop {
	var t []vop
	// VOP2
	c := v2(0)
	c.cin = 1
	t = append(t, c)
	for _, op := range []int{6, 8, 12, 13, 14, 15, 19, 20, 21} {
		t = append(t, v2(op))
	}
	for _, op := range []int{16, 17, 18} {
		t = append(t, v2(op).sh(0))
	}
	for _, op := range []int{25, 26, 27} {
		x := v2(op)
		x.mdst = 1
		t = append(t, x)
	}
	for _, op := range []int{28, 29, 30} {
		x := v2(op)
		x.cin, x.mdst = 1, 1
		t = append(t, x)
	}
	t = append(t, v2(38).only("cdna3"), v2(42).sh(0).only("cdna3"))
	t = append(t, vop{fmt: "VOPC", op: 164, nsrc: 2, w: [3]int{1, 1, 0}, mdst: 1, shift: -1, alus: "cdna3"})
	for _, op := range []int{52, 53, 54} {
		t = append(t, v2(op))
	}
	// binary32
	for _, op := range []int{1, 2, 3, 5, 10, 11} {
		t = append(t, v2(op).f())
	}
	mac := v2(22).f().only("gcn3")
	mac.macc = true
	fmac := v2(59).f().only("cdna3")
	fmac.macc = true
	mk := v2(23).only("cdna3")
	mk.flt = 2
	ak := v2(24)
	ak.flt = 2
	t = append(t, mac, fmac, mk, ak)
	for _, op := range []int{5, 6} {
		t = append(t, vop{fmt: "VOP1", op: op, nsrc: 1, w: [3]int{1, 0, 0}, dw: 1, shift: -1})
	}
	for _, op := range []int{7, 8, 28, 30} { // v_cvt_u32_f32, v_cvt_i32_f32, v_trunc_f32, v_rndne_f32
		t = append(t, vop{fmt: "VOP1", op: op, nsrc: 1, w: [3]int{1, 0, 0}, dw: 1, shift: -1, flt: 1})
	}
	for _, op := range []int{65, 66, 67, 68, 69, 70, 73, 74, 75, 76, 77, 78} {
		t = append(t, vop{fmt: "VOPC", op: op, nsrc: 2, w: [3]int{1, 1, 0}, mdst: 1, shift: -1, flt: 1})
		t = append(t, vop{fmt: "VOP3A", op: op, nsrc: 2, w: [3]int{1, 1, 0}, mdst: 2, shift: -1, flt: 1})
	}
	t = append(t, v3(258, 2).f(), v3(261, 2).f(), v3(449, 3).f(), v3(459, 3).f())
	// binary64 (flt 3 = binary64 operands) and the conversions that read or write a register pair
	for _, op := range []int{640, 641} { // v_add_f64, v_mul_f64
		x := v3(op, 2)
		x.w, x.dw, x.flt = [3]int{2, 2, 0}, 2, 3
		t = append(t, x)
	}
	t = append(t, vop{fmt: "VOP1", op: 4, nsrc: 1, w: [3]int{1, 0, 0}, dw: 2, shift: -1})                // v_cvt_f64_i32
	t = append(t, vop{fmt: "VOP1", op: 22, nsrc: 1, w: [3]int{1, 0, 0}, dw: 2, shift: -1, alus: "cdna3"}) // v_cvt_f64_u32
	t = append(t, vop{fmt: "VOP1", op: 16, nsrc: 1, w: [3]int{1, 0, 0}, dw: 2, shift: -1, flt: 1})        // v_cvt_f64_f32
	t = append(t, vop{fmt: "VOP1", op: 15, nsrc: 1, w: [3]int{2, 0, 0}, dw: 1, shift: -1, flt: 3})        // v_cvt_f32_f64
	// VOP1
	for _, op := range []int{1, 43, 44, 45} {
		t = append(t, vop{fmt: "VOP1", op: op, nsrc: 1, w: [3]int{1, 0, 0}, dw: 1, shift: -1})
	}
	t = append(t, vop{fmt: "VOP1", op: 2, nsrc: 1, w: [3]int{1, 0, 0}, dw: 0, shift: -1, sdstv: true})
	// VOPC / VOP3a compares
	for _, op := range []int{193, 194, 195, 196, 197, 198, 201, 202, 203, 204, 205, 206} {
		t = append(t, vop{fmt: "VOPC", op: op, nsrc: 2, w: [3]int{1, 1, 0}, mdst: 1, shift: -1})
		t = append(t, vop{fmt: "VOP3A", op: op, nsrc: 2, w: [3]int{1, 1, 0}, mdst: 2, shift: -1})
	}
	for op := 232; op <= 239; op++ {
		t = append(t, vop{fmt: "VOPC", op: op, nsrc: 2, w: [3]int{2, 2, 0}, mdst: 1, shift: -1})
		t = append(t, vop{fmt: "VOP3A", op: op, nsrc: 2, w: [3]int{2, 2, 0}, mdst: 2, shift: -1})
	}
	// VOP3a
	cnd := v3(256, 3)
	cnd.cin, cnd.w[2] = 2, 2
	t = append(t, cnd)
	for _, op := range []int{450, 451, 465, 466, 468, 469, 471, 472, 511} {
		t = append(t, v3(op, 3))
	}
	t = append(t, v3(456, 3).sh(1), v3(457, 3).sh(1), v3(462, 3).sh(2), v3(458, 3))
	t = append(t, v3(509, 3).sh(1), v3(510, 3).sh(2), v3(512, 3).sh(1))
	t = append(t, v3(645, 2), v3(646, 2), v3(647, 2), v3(276, 2))
	mad64 := v3(488, 3)
	mad64.w[2], mad64.dw = 2, 2
	t = append(t, mad64)
	la64 := v3(520, 3).sh(1)
	la64.w, la64.dw = [3]int{2, 1, 2}, 2
	t = append(t, la64)
	for _, op := range []int{655, 656, 657} {
		x := v3(op, 2).sh(0)
		x.w, x.dw = [3]int{1, 2, 0}, 2
		t = append(t, x)
	}
	// VOP3b
	for _, op := range []int{281, 282, 283} {
		t = append(t, vop{fmt: "VOP3B", op: op, nsrc: 2, w: [3]int{1, 1, 0}, dw: 1, mdst: 3, shift: -1})
	}
	for _, op := range []int{284, 285, 286} {
		t = append(t, vop{fmt: "VOP3B", op: op, nsrc: 3, w: [3]int{1, 1, 2}, dw: 1, cin: 2, mdst: 3, shift: -1})
	}
	return t
}()

func encVOP1(op, vdst, s0 int) uint32 {
	return 0x7E000000 | uint32(vdst)<<17 | uint32(op)<<9 | uint32(s0)
}
func encVOPC(op, s0, vsrc1 int) uint32 {
	return 0x7C000000 | uint32(op)<<17 | uint32(vsrc1)<<9 | uint32(s0)
}
func encVOP3(op, vdst, sdstOrAbs, s0, s1, s2 int) []uint32 {
	return []uint32{0xD0000000 | uint32(op)<<16 | uint32(sdstOrAbs)<<8 | uint32(vdst),
		uint32(s2)<<18 | uint32(s1)<<9 | uint32(s0)}
}

var vecCorners = []uint32{0, 1, 0x7fffffff, 0x80000000, 0xfffffffe, 0xffffffff}
var vecAmounts = []uint32{0, 1, 31, 32, 33, 63, 64, 0xffffffff}

// binary32 corners: signed zeros, ones, infinities, quiet/signalling NaN,
// denormals, extreme normals, the integer conversion boundaries, halfway cases
var fltCorners = []uint32{0x00000000, 0x80000000, 0x3f800000, 0xbf800000, 0x7f800000, 0xff800000, 0x7fc00000, 0x7f800001,
	0x00000001, 0x807fffff, 0x00800000, 0x7f7fffff, 0x4f800000, 0x4f000000, 0xcf000000, 0x4effffff,
	0x3fc00000, 0x40490fdb, 0x3f000000, 0xbf000000, 0x4b800000, 0x4b800001, 0x33800000, 0x34000001,
	0xcf000001, 0x4f7fffff, 0x5f800000, 0xdf000000, 0x3f800001, 0x3f7fffff, 0xffc00001, 0x00400000}

// corners of the one-operand binary32 opcodes (conversions to integer, v_trunc,
// v_rndne): fltCorners plus halfway cases k+0.5 (even and odd k, both signs, up
// to 2^23-0.5 where the fraction disappears), quarter cases, the saturation
// boundaries 2^31-128, 2^31, 2^31+256, -2^31, -2^31-256, 2^32-256, 2^32,
// 2^32+512, values just inside (-1, 1), huge magnitudes, signed NaNs.
var fltUnary = append(append([]uint32{}, fltCorners...),
	0x40200000, 0x40600000, 0xbfc00000, 0xc0200000, 0x40900000, 0xc0600000, 0x40b00000, 0x40d00000,
	0xc0d00000, 0x40f00000, 0x447fe000, 0x44801000, 0x4affffff, 0x4afffffd, 0x4a7ffffe, 0x4a7ffffa,
	0x4a7ffffd, 0x4a7fffff, 0xcaffffff, 0xca7ffffa, 0x4b000000, 0x4b000001, 0x4b7fffff, 0xcb800000,
	0x3f400000, 0x3e800000, 0xbf400000, 0xbe800000, 0x3fa00000, 0x3fe00000, 0xbfa00000, 0x4e6e6b28,
	0x4f32d05e, 0xce6e6b28, 0xcf32d05e, 0x47f12065, 0xc7f12065, 0x3dcccccd, 0x2edbe6ff, 0xceffffff,
	0x4f000001, 0x4f800001, 0x5f000000, 0x7f000000, 0xbf800001, 0xbf7fffff, 0x477fff80, 0x47800040,
	0x437f8000, 0x43804000, 0xc37f8000, 0x4f400000, 0x3effffff, 0x3f000001, 0xbeffffff, 0xbf000001,
	0xff7fffff, 0x80000001, 0xff800001, 0x7fffffff, 0xffc00000, 0xdf800000, 0x4f7ffffe, 0xcefffffe,
	0xcf800000, 0xcf7fffff, 0x3fbfffff, 0x3fc00001, 0x401fffff, 0x40200001, 0xc01fffff, 0xc0200001,
	0x4b000002, 0x4b000003, 0xcb000001, 0x4a800001, 0x4a800003, 0x49800004, 0x4980000c, 0x34000000,
	0xb4000000, 0x00000002, 0x007fffff, 0x80800000, 0x41200000, 0xc1200000, 0x42c80000, 0x42c90000)

// binary64 corners: signed zeros, ones, infinities, NaNs, denormals, extremes,
// the binary32 range boundaries (overflow to infinity at 2^128 - 2^103, the
// halfway points around the largest binary32, the smallest binary32 denormal
// 2^-149, its half (ties to even -> 0) and just above (-> 2^-149), halfway
// cases of the 24-bit significand), values whose sum / product is inexact.
var f64Corners = []uint64{0x0000000000000000, 0x8000000000000000, 0x3ff0000000000000, 0xbff0000000000000,
	0x7ff0000000000000, 0xfff0000000000000, 0x7ff8000000000000, 0x7ff0000000000001,
	0x0000000000000001, 0x800fffffffffffff, 0x0010000000000000, 0x7fefffffffffffff,
	0x47efffffe0000000, 0x47effffff0000000, 0x47efffffefffffff, 0x47f0000000000000,
	0x36a0000000000000, 0x3690000000000000, 0x3690000000000001, 0x36b8000000000000,
	0x3ff0000010000000, 0x3ff0000030000000, 0x3ff0000010000001, 0x3ff000002fffffff,
	0x3fb999999999999a, 0x400921fb54442d18, 0x3ff0000000000001, 0x3fefffffffffffff,
	0xc7efffffe0000000, 0xfff8000000000001, 0x3810000000000000, 0x380fffffffffffff,
	0x4340000000000000, 0x4340000000000001, 0x3ca0000000000000, 0x3ca0000000000001,
	0xffefffffffffffff, 0x7fe0000000000000, 0x0008000000000000, 0x41e0000000000000}

func f64Val(r *vh.Rng) uint64 {
	switch r.Pick(4, 3, 3) {
	case 0:
		return f64Corners[r.Intn(len(f64Corners))]
	case 1:
		return r.U64()
	default: // moderate magnitudes (also inside the binary32 range)
		return r.U64()&0x800fffffffffffff | uint64(1023+r.Intn(60)-30)<<52
	}
}

func fltVal(r *vh.Rng) uint32 {
	switch r.Pick(4, 4, 2) {
	case 0:
		return fltCorners[r.Intn(len(fltCorners))]
	case 1:
		return uint32(r.U64())
	default: // moderate magnitudes, so that sums and products round
		return uint32(r.U64())&0x807fffff | uint32(0x3f800000+int32(r.Intn(24)-12)<<23)&0x7f800000
	}
}

// vecCase builds one case of v. mode 0/1: corner grid (per-lane cross product
// of the operand corners, carry-in pattern and its complement), mode 2: random.
func vecCase(alu string, v vop, r *vh.Rng, mode int) Case {
	g := newCase(alu, r)
	execCorner := -1 // modes 3, 4, 5: grid operands with EXEC = 0, 1, 1<<63
	if mode >= 3 {
		execCorner = mode - 3
		mode = execCorner % 2
	}
	grid := mode < 2
	// per-lane source values
	var val [3][64]uint64
	c8 := append(append([]uint32{}, vecCorners...), uint32(r.U64()), uint32(r.U64()))
	for l := 0; l < 64; l++ {
		for k := 0; k < v.nsrc; k++ {
			var x uint64
			if grid {
				idx := []int{l / 8, l % 8, (l/8 + l%8 + mode*3) % 8}[k]
				x = uint64(c8[idx])
				if v.shift == k {
					x = uint64(vecAmounts[idx])
				}
				if v.w[k] == 2 {
					x = []uint64{0, 1, 0x7fffffffffffffff, 0x8000000000000000, 0xfffffffffffffffe, 0xffffffffffffffff, r.U64(), uint64(uint32(r.U64()))}[idx]
				}
				if v.flt > 0 {
					x = uint64(fltCorners[(idx+8*mode+4*k)%len(fltCorners)])
					if v.nsrc == 1 { // 64 lanes x 2 grid cases walk the whole unary list
						x = uint64(fltUnary[(l+64*mode)%len(fltUnary)])
					}
					if v.flt == 3 {
						a8, b8 := l/8, l%8 // both operands walk all five groups of eight corners
						x = []uint64{f64Corners[(a8+8*((b8+2*mode)%5))%len(f64Corners)],
							f64Corners[(b8+8*((a8+1+3*mode)%5))%len(f64Corners)], 0}[k]
						if v.nsrc == 1 {
							x = f64Corners[(l+64*mode)%len(f64Corners)]
						}
					}
				}
			} else {
				x = uint64(val32(r))
				if v.shift == k {
					x = uint64(valShift(r))
				}
				if v.w[k] == 2 {
					x = val64(r)
				}
				if v.flt > 0 {
					x = uint64(fltVal(r))
				}
				if v.flt == 3 {
					x = f64Val(r)
				}
			}
			val[k][l] = x
		}
	}
	// lanes that tell a fused multiply-add from multiply-then-add: inexact products a*b with c = -RN(a*b)
	fusedLane := func(l int) bool { return grid && v.flt > 0 && (v.nsrc == 3 || v.macc) && l%4 == 1 }
	for l := 0; l < 64; l++ {
		if fusedLane(l) {
			val[0][l] = uint64(0x3f800001 + uint32(l)*0x10101)
			val[1][l] = uint64(0x3f800003 + uint32(l)*0x20203)
			if l%8 == 5 {
				val[1][l] |= 0x80000000
			}
			if v.nsrc == 3 {
				p := math.Float32frombits(uint32(val[0][l])) * math.Float32frombits(uint32(val[1][l]))
				val[2][l] = uint64(math.Float32bits(-p))
			}
		}
	}
	gridK := uint32(0)
	if grid && v.flt == 2 { // v_madmk / v_madak (v_fmamk / v_fmaak): K is lane invariant
		f := math.Float32frombits
		for l := 1; l < 64; l += 4 {
			if v.op == 23 { // D = S0 * K + S1
				gridK = 0x3f800003
				a := 0x3f800001 + uint32(l)*0x10101
				val[0][l] = uint64(a)
				val[1][l] = uint64(math.Float32bits(-(f(a) * f(gridK))))
			} else { // D = S0 * S1 + K
				val[0][l], val[1][l] = 0x3f800001, 0x3f800003
				gridK = math.Float32bits(-(f(0x3f800001) * f(0x3f800003)))
			}
		}
	}
	if v.flt > 0 && v.nsrc == 3 && !grid {
		for l := 0; l < 64; l += 2 {
			p := math.Float32frombits(uint32(val[0][l])) * math.Float32frombits(uint32(val[1][l]))
			val[2][l] = uint64(math.Float32bits(-p))
		}
	}
	// operand codes
	used := map[int]bool{}
	pickV := func(w int) int {
		for {
			i := r.Intn(250)
			ok := true
			for k := 0; k < w+1; k++ {
				if used[i+k] || used[i-1] {
					ok = false
				}
			}
			if ok {
				for k := 0; k < w; k++ {
					used[i+k] = true
				}
				return i
			}
		}
	}
	usedS := map[int]bool{}
	pickS := func(w int) int {
		for {
			i := 2 * r.Intn(48)
			if !usedS[i] && !usedS[i+1] {
				usedS[i], usedS[i+1] = true, true
				return i
			}
		}
	}
	code := [3]int{}
	for k := 0; k < v.nsrc; k++ {
		if k == 2 && v.cin == 2 {
			// mask operand: SGPR pair or VCC
			if r.Intn(3) == 0 {
				code[k] = 106
				g.kinds = append(g.kinds, "vcc")
			} else {
				s := pickS(2)
				code[k] = s
				m := r.U64()
				if mode == 1 {
					m = ^g.c.Pre.VCC
				}
				g.c.Set = append(g.c.Set, RegVal{-1, s, uint32(m)}, RegVal{-1, s + 1, uint32(m >> 32)})
				g.kinds = append(g.kinds, "sgpr64")
			}
			continue
		}
		mustV := (v.fmt == "VOP2" || v.fmt == "VOPC") && k == 1
		if v.flt == 2 {
			g.lit = true // the literal slot is taken by K
		}
		kind := 0
		if !grid && !mustV {
			kind = r.Pick(60, 14, 8, 6, 4, 3, 3, 2)
		}
		switch kind {
		case 0:
			i := pickV(v.w[k])
			for l := 0; l < 64; l++ {
				g.c.Set = append(g.c.Set, RegVal{l, i, uint32(val[k][l])})
				if v.w[k] == 2 {
					g.c.Set = append(g.c.Set, RegVal{l, i + 1, uint32(val[k][l] >> 32)})
				}
			}
			code[k] = 256 + i
			g.kinds = append(g.kinds, "vgpr")
		case 1:
			s := pickS(v.w[k])
			g.c.Set = append(g.c.Set, RegVal{-1, s, uint32(val[k][0])})
			if v.w[k] == 2 {
				g.c.Set = append(g.c.Set, RegVal{-1, s + 1, uint32(val[k][0] >> 32)})
			}
			code[k] = s
			g.kinds = append(g.kinds, "sgpr")
		case 2:
			code[k] = 128 + r.Intn(65)
			g.kinds = append(g.kinds, "inline+")
		case 3:
			code[k] = 193 + r.Intn(16)
			g.kinds = append(g.kinds, "inline-")
			g.wide = true
		case 4:
			if (v.fmt == "VOP3A" || v.fmt == "VOP3B") || g.lit || k != 0 {
				code[k] = 128 + r.Intn(65)
				g.kinds = append(g.kinds, "inline+")
			} else {
				g.lit = true
				code[k] = 255
				g.kinds = append(g.kinds, "literal")
			}
		case 5:
			code[k] = 106
			if v.w[k] == 1 && r.Bool() {
				code[k] = 107
			}
			g.kinds = append(g.kinds, "vcc_lo/hi")
		case 6:
			code[k] = 126
			if v.w[k] == 1 && r.Bool() {
				code[k] = 127
			}
			g.kinds = append(g.kinds, "exec_lo/hi")
		default:
			code[k] = 124
			g.kinds = append(g.kinds, "m0")
		}
	}
	vd := 0
	if v.dw > 0 {
		vd = pickV(v.dw)
		if !grid && r.Intn(5) == 0 && code[0] >= 256 && v.w[0] == v.dw {
			vd = code[0] - 256 // destination = source register
		}
	}
	sd := 0
	if v.mdst >= 2 || v.sdstv {
		switch r.Intn(4) {
		case 0:
			sd = 106
			g.kinds = append(g.kinds, "d:vcc")
		default:
			sd = pickS(2)
			g.kinds = append(g.kinds, "d:sgpr64")
		}
		if v.sdstv {
			sd = r.Intn(100)
		}
	}
	// EXEC: full, holes, empty
	if grid {
		if mode == 0 {
			g.c.Pre.EXEC = 0xffffffffffffffff
		} else {
			g.c.Pre.EXEC = r.U64() | r.U64()
			g.c.Pre.VCC = ^g.c.Pre.VCC
			if v.flt > 0 && v.nsrc == 1 { // the second half of fltUnary must run in every lane
				g.c.Pre.EXEC = 0xffffffffffffffff
			}
		}
	} else {
		switch r.Intn(8) {
		case 0:
			g.c.Pre.EXEC = 0xffffffffffffffff
		case 1:
			g.c.Pre.EXEC = 0
		case 2:
			g.c.Pre.EXEC = uint64(1) << uint(r.Intn(64))
		}
	}
	if execCorner >= 0 {
		g.c.Pre.EXEC = []uint64{0, 1, 1 << 63}[execCorner]
		g.c.Sparse = true
	}
	lit := []uint32{}
	if g.lit {
		lit = []uint32{uint32(val[0][0])}
	}
	if v.flt == 2 {
		lit = []uint32{fltVal(r)}
		if gridK != 0 {
			lit = []uint32{gridK}
		}
	}
	if v.macc && v.dw > 0 {
		for l := 0; l < 64; l++ { // the accumulator: vdst before the instruction
			x := fltVal(r)
			if (!grid && l%2 == 0) || fusedLane(l) {
				p := math.Float32frombits(uint32(val[0][l])) * math.Float32frombits(uint32(val[1][l]))
				x = math.Float32bits(-p)
			}
			g.c.Set = append(g.c.Set, RegVal{l, vd, x})
		}
	}
	switch v.fmt {
	case "VOP2":
		g.c.Words = append([]uint32{encVOP2(v.op, vd, code[0], code[1]-256)}, lit...)
	case "VOP1":
		d := vd
		if v.sdstv {
			d = sd
		}
		g.c.Words = append([]uint32{encVOP1(v.op, d, code[0])}, lit...)
	case "VOPC":
		g.c.Words = append([]uint32{encVOPC(v.op, code[0], code[1]-256)}, lit...)
	case "VOP3A":
		d := vd
		if v.mdst == 2 {
			d = sd
		}
		g.c.Words = encVOP3(v.op, d, 0, code[0], code[1], code[2])
	case "VOP3B":
		g.c.Words = encVOP3(v.op, vd, sd, code[0], code[1], code[2])
	}
	cl := "gen"
	if grid {
		cl = "grid"
	}
	return g.finish(cl)
}

func vecImplemented(alu string, v vop) (bool, string) {
	r := vh.NewRng(777)
	c := vecCase(alu, v, r, 2)
	run(&c)
	if c.NoDec != "" {
		return false, "undecodable: " + c.NoDec
	}
	if c.NotImp {
		return false, c.Panic
	}
	return true, c.Name
}
