// Command c18 drives the real code behind property C18:
//
//	-mode rdma  : rdma.Comp through its five ports with generated (or replayed)
//	              environment histories; records every observation
//	-mode dist  : distributorImpl.Distribute (through the verif hook) on
//	              generated inputs; records the Remap calls
//	-mode split : distributeWGToGPUs + the WGFilter closures of
//	              processUnifiedMultiGPULaunchKernelCommand (verif hook)
package main

import (
	"encoding/json"
	"flag"
	"fmt"
	"io"
	"log"
	"os"
	"strings"

	"github.com/sarchlab/akita/v4/mem/mem"
	"github.com/sarchlab/akita/v4/mem/vm"
	"github.com/sarchlab/akita/v4/sim"
	"github.com/sarchlab/mgpusim/v4/amd/driver"
	"github.com/sarchlab/akita/v4/simulation"
	"github.com/sarchlab/mgpusim/v4/amd/kernels"
	"github.com/sarchlab/mgpusim/v4/amd/samples/runner/timingconfig"
	"github.com/sarchlab/mgpusim/v4/amd/sampling"
	"github.com/sarchlab/mgpusim/v4/amd/timing/rdma"

	"verifharness/vh"
)

const (
	pRI = 1
	pRO = 2
	pDI = 3
	pDO = 4
	pCT = 5

	idBaseIn  = 1000000
	idBaseOut = 2000000

	flDrainReq   = 16
	flRestartReq = 2
	flDrainRsp   = 20
	flRestartRsp = 6
)

// ---------------------------------------------------------------- RDMA

type Event struct {
	E    string  `json:"e"` // d (deliver) tick r (retrieve)
	Port string  `json:"port,omitempty"`
	Msg  *vh.Msg `json:"msg,omitempty"`
	// observation
	Acc      *bool   `json:"acc,omitempty"`
	Progress *bool   `json:"progress,omitempty"`
	Got      *vh.Msg `json:"got,omitempty"`
	None     bool    `json:"none,omitempty"`
	Crash    bool    `json:"crash,omitempty"`
}

type Case struct {
	Buf     int      `json:"buf"`
	W       [4]int   `json:"w"` // oreq orsp ireq irsp
	Bank    uint64   `json:"bank"`
	Remote  []uint64 `json:"remote"`
	Local   []uint64 `json:"local"`
	Hostile bool     `json:"hostile"`
	Lazy    bool     `json:"lazy,omitempty"`
	// Busy histories: both paths hold many transactions, no control traffic; they
	// end with a fair tail that serves one path only (Serve = "inside"/"outside")
	// starting at event TailStart.
	Busy      bool   `json:"busy,omitempty"`
	Serve     string `json:"serve,omitempty"`
	TailStart int    `json:"tail_start,omitempty"`
	// protocol-respecting histories end with a fair drain tail starting here (0 = none)
	DrainTail int `json:"drain_tail,omitempty"`
	// one half of a two-engine history (mode pair)
	Pair bool `json:"pair,omitempty"`
	Events  []Event  `json:"events"`
	Coq     string   `json:"coq"`
}

type runner struct {
	c      *rdma.Comp
	ports  map[string]sim.Port
	canon  *vh.Canon
	inIDs  []string // Go IDs of forwarded requests retrieved from RO, by canonical index
	outIDs []string // same for DI
}

func portName(n uint64) sim.RemotePort {
	return sim.RemotePort(fmt.Sprintf("Agent%d", n))
}

func (r *runner) goPort(n uint64) sim.RemotePort {
	switch n {
	case 0:
		return ""
	case pRI:
		return r.ports["RI"].AsRemote()
	case pRO:
		return r.ports["RO"].AsRemote()
	case pDI:
		return r.ports["DI"].AsRemote()
	case pDO:
		return r.ports["DO"].AsRemote()
	case pCT:
		return r.ports["CT"].AsRemote()
	}
	return portName(n)
}

func mapper(bank uint64, mods []uint64, r *runner) *mem.BankedAddressPortMapper {
	m := new(mem.BankedAddressPortMapper)
	m.BankSize = bank
	for _, x := range mods {
		m.LowModules = append(m.LowModules, r.goPort(x))
	}
	return m
}

func newRunner(c *Case) *runner {
	engine := sim.NewSerialEngine()
	r := &runner{canon: vh.NewCanon(), ports: map[string]sim.Port{}}
	// the tables refer to the component's own port names only through
	// goPort(1..5), which needs the ports: build first, then set the tables
	comp := rdma.MakeBuilder().
		WithEngine(engine).
		WithFreq(1 * sim.GHz).
		WithBufferSize(c.Buf).
		WithOutgoingReqPerCycle(c.W[0]).
		WithOutgoingRspPerCycle(c.W[1]).
		WithIncomingReqPerCycle(c.W[2]).
		WithIncomingRspPerCycle(c.W[3]).
		Build("RDMA")
	r.c = comp
	r.ports["RI"] = comp.RDMARequestInside
	r.ports["RO"] = comp.RDMARequestOutside
	r.ports["DI"] = comp.RDMADataInside
	r.ports["DO"] = comp.RDMADataOutside
	r.ports["CT"] = comp.CtrlPort
	conn := &vh.StubConn{}
	for _, p := range r.ports {
		conn.PlugIn(p)
	}
	comp.RemoteRDMAAddressTable = mapper(c.Bank, c.Remote, r)
	comp.SetLocalModuleFinder(mapper(c.Bank, c.Local, r))
	r.canon.SetPort("", 0)
	for n := uint64(1); n <= 5; n++ {
		r.canon.SetPort(r.goPort(n), n)
	}
	for i := uint64(6); i < 400; i++ {
		r.canon.SetPort(portName(i), i)
	}
	return r
}

func (r *runner) goFwdID(canonical uint64) string {
	if canonical >= idBaseOut {
		if int(canonical-idBaseOut) < len(r.outIDs) {
			return r.outIDs[canonical-idBaseOut]
		}
	} else if canonical >= idBaseIn && int(canonical-idBaseIn) < len(r.inIDs) {
		return r.inIDs[canonical-idBaseIn]
	}
	return fmt.Sprintf("unknown-%d", canonical)
}

func (r *runner) toSim(m *vh.Msg) sim.Msg {
	src, dst := r.goPort(m.Src), r.goPort(m.Dst)
	switch m.Kind {
	case "KRead":
		q := mem.ReadReqBuilder{}.WithSrc(src).WithDst(dst).
			WithAddress(m.Addr).WithByteSize(m.Size).WithPID(vm.PID(m.PID)).Build()
		r.canon.SetID(q.ID, m.ID)
		return q
	case "KWrite":
		q := mem.WriteReqBuilder{}.WithSrc(src).WithDst(dst).
			WithAddress(m.Addr).WithPID(vm.PID(m.PID)).WithData(m.Data).WithDirtyMask(m.Mask).Build()
		r.canon.SetID(q.ID, m.ID)
		return q
	case "KDataReady":
		return mem.DataReadyRspBuilder{}.WithSrc(src).WithDst(dst).
			WithRspTo(r.goFwdID(m.RspTo)).WithData(m.Data).Build()
	case "KWriteDone":
		return mem.WriteDoneRspBuilder{}.WithSrc(src).WithDst(dst).
			WithRspTo(r.goFwdID(m.RspTo)).Build()
	case "KCtrl":
		switch m.Flags {
		case flDrainReq:
			return rdma.DrainReqBuilder{}.WithSrc(src).WithDst(dst).Build()
		case flRestartReq:
			return rdma.RestartReqBuilder{}.WithSrc(src).WithDst(dst).Build()
		case flDrainRsp:
			return rdma.DrainRspBuilder{}.WithSrc(src).WithDst(dst).Build()
		default:
			return rdma.RestartRspBuilder{}.WithSrc(src).WithDst(dst).Build()
		}
	}
	panic("bad kind " + m.Kind)
}

func (r *runner) fromSim(m sim.Msg, own uint64) vh.Msg {
	switch m.(type) {
	case *rdma.DrainRsp:
		g := vh.Msg{Kind: "KCtrl", Src: r.canon.Port(m.Meta().Src), Dst: r.canon.Port(m.Meta().Dst), Flags: flDrainRsp}
		g.Fix()
		return g
	case *rdma.RestartRsp:
		g := vh.Msg{Kind: "KCtrl", Src: r.canon.Port(m.Meta().Src), Dst: r.canon.Port(m.Meta().Dst), Flags: flRestartRsp}
		g.Fix()
		return g
	}
	return r.canon.FromSim(m, own)
}

func bp(b bool) *bool { return &b }

func (r *runner) apply(e *Event) (crashed bool) {
	defer func() {
		if x := recover(); x != nil {
			e.Crash = true
			e.Acc, e.Progress, e.Got, e.None = nil, nil, nil, false
			crashed = true
		}
	}()
	switch e.E {
	case "d":
		e.Acc = bp(r.ports[e.Port].Deliver(r.toSim(e.Msg)) == nil)
	case "tick":
		e.Progress = bp(r.c.Tick())
	case "r":
		m := r.ports[e.Port].RetrieveOutgoing()
		if m == nil {
			e.None = true
			return false
		}
		var own uint64
		switch e.Port {
		case "RO":
			own = uint64(idBaseIn + len(r.inIDs))
			r.inIDs = append(r.inIDs, m.Meta().ID)
		case "DI":
			own = uint64(idBaseOut + len(r.outIDs))
			r.outIDs = append(r.outIDs, m.Meta().ID)
		}
		g := r.fromSim(m, own)
		e.Got = &g
	}
	return false
}

type outstanding struct {
	id   uint64
	read bool
	size int
}

func randReq(rng *vh.Rng, id uint64, src uint64, dst uint64, addr uint64) vh.Msg {
	m := vh.Msg{ID: id, Src: src, Dst: dst, Addr: addr, PID: uint64(rng.Intn(3))}
	if rng.Intn(5) < 3 {
		m.Kind = "KRead"
		m.Size = uint64(1 + rng.Intn(64))
	} else {
		m.Kind = "KWrite"
		sz := 1 + rng.Intn(12)
		m.Data = make([]byte, sz)
		for j := range m.Data {
			m.Data[j] = byte(rng.U64())
		}
		if rng.Bool() {
			m.Mask = make([]bool, sz)
			for j := range m.Mask {
				m.Mask[j] = rng.Bool()
			}
		}
	}
	return m
}

func rspFor(rng *vh.Rng, o outstanding, src, dst uint64) vh.Msg {
	m := vh.Msg{Src: src, Dst: dst, RspTo: o.id}
	if o.read {
		m.Kind = "KDataReady"
		m.Data = make([]byte, o.size)
		for j := range m.Data {
			m.Data[j] = byte(rng.U64())
		}
	} else {
		m.Kind = "KWriteDone"
	}
	return m
}

func generate(rng *vh.Rng, hostile bool) Case {
	bufs := []int{1, 2, 3, 4, 128}
	c := Case{Buf: bufs[rng.Intn(len(bufs))], Hostile: hostile, Bank: 4096}
	for i := range c.W {
		c.W[i] = 1 + rng.Intn(3)
	}
	// remote table: bank 0 is this GPU (empty name, as in timingconfig), then 2-4 remote engines
	c.Remote = []uint64{0}
	nr := 2 + rng.Intn(3)
	for i := 0; i < nr; i++ {
		c.Remote = append(c.Remote, uint64(100+i))
	}
	nl := 1 + rng.Intn(4)
	for i := 0; i < nl; i++ {
		c.Local = append(c.Local, uint64(200+i))
	}
	r := newRunner(&c)
	n := 60 + rng.Intn(200)
	var pendIn, pendOut []outstanding
	var ansIn, ansOut []outstanding
	nextID := uint64(1)
	phase := 0 // 0 idle 1 waitdrain 2 drained 3 waitrestart
	wReqI := 8 + rng.Intn(25)
	wReqO := 8 + rng.Intn(25)
	wRsp := 8 + rng.Intn(25)
	wCtl := 0
	if rng.Intn(3) != 0 {
		wCtl = 3 + rng.Intn(8)
	}
	accIn, accOut := 0, 0
	answersTaken := 0 // answers retrieved by the requesters (RI, DO)
	crashedAny := false
	acksSeen := 0
	do := func(e Event) Event {
		if e.Msg != nil {
			e.Msg.Fix()
		}
		crashed := r.apply(&e)
		c.Events = append(c.Events, e)
		if crashed {
			crashedAny = true
			return e
		}
		// bookkeeping of what the environment knows
		if e.E == "r" && e.Got != nil {
			o := outstanding{id: e.Got.ID, read: e.Got.Kind == "KRead", size: int(e.Got.Size)}
			switch e.Port {
			case "RO":
				pendIn = append(pendIn, o)
			case "DI":
				pendOut = append(pendOut, o)
			case "RI", "DO":
				answersTaken++
			case "CT":
				if e.Got.Flags == flDrainRsp {
					acksSeen++
				}
				if phase == 1 && e.Got.Flags == flDrainRsp {
					phase = 2
				} else if phase == 3 && e.Got.Flags == flRestartRsp {
					phase = 0
				}
			}
		}
		if e.E == "d" && e.Acc != nil && *e.Acc {
			switch e.Port {
			case "RI":
				accIn++
			case "DO":
				accOut++
			case "RO":
				markAnswered(&pendIn, &ansIn, e.Msg.RspTo)
			case "DI":
				markAnswered(&pendOut, &ansOut, e.Msg.RspTo)
			case "CT":
				if phase == 0 && e.Msg.Flags == flDrainReq {
					phase = 1
				} else if phase == 2 && e.Msg.Flags == flRestartReq {
					phase = 3
				}
			}
		}
		return e
	}
	for i := 0; i < n; i++ {
		var e Event
		switch rng.Pick(wReqI, wReqO, wRsp, wRsp, 25, 10, 10, 6, 6, wCtl, wCtl) {
		case 0: // request from inside
			addr := uint64(4096 + rng.Intn(nr*4096))
			src := uint64(10 + rng.Intn(3))
			if hostile {
				switch rng.Intn(12) {
				case 0:
					addr = uint64(rng.Intn(4096)) // bank 0: empty destination
				case 1:
					addr = uint64((nr+1)*4096 + rng.Intn(8192)) // table miss
				case 2:
					src = 0
				case 3:
					src = pRI
				}
			}
			m := randReq(rng, nextID, src, pRI, addr)
			nextID++
			if hostile && rng.Intn(25) == 0 {
				m = vh.Msg{Kind: "KWriteDone", Src: src, Dst: pRI, RspTo: 5}
			}
			e = Event{E: "d", Port: "RI", Msg: &m}
		case 1: // request from outside
			addr := uint64(rng.Intn(nl * 4096))
			src := uint64(20 + rng.Intn(3))
			if hostile {
				switch rng.Intn(12) {
				case 0:
					addr = uint64(nl*4096 + rng.Intn(8192))
				case 1:
					src = 0
				case 2:
					src = pDO
				}
			}
			m := randReq(rng, nextID, src, pDO, addr)
			nextID++
			e = Event{E: "d", Port: "DO", Msg: &m}
		case 2: // response from outside
			e = genRsp(rng, hostile, &pendIn, &ansIn, "RO", 100, pRO)
		case 3: // response from the local memory
			e = genRsp(rng, hostile, &pendOut, &ansOut, "DI", 200, pDI)
		case 4:
			e = Event{E: "tick"}
		case 5:
			e = Event{E: "r", Port: "RO"}
		case 6:
			e = Event{E: "r", Port: "DI"}
		case 7:
			e = Event{E: "r", Port: "RI"}
		case 8:
			e = Event{E: "r", Port: "DO"}
		case 9: // control request
			fl := uint64(0)
			switch {
			case phase == 0:
				fl = flDrainReq
			case phase == 2:
				fl = flRestartReq
			}
			if hostile && rng.Intn(3) == 0 {
				fl = []uint64{flDrainReq, flRestartReq, flRestartReq, flDrainRsp}[rng.Intn(4)]
			}
			if fl == 0 {
				e = Event{E: "tick"}
				break
			}
			src := uint64(30)
			if hostile && rng.Intn(10) == 0 {
				src = 0
			}
			m := vh.Msg{Kind: "KCtrl", Src: src, Dst: pCT, Flags: fl}
			e = Event{E: "d", Port: "CT", Msg: &m}
		case 10:
			e = Event{E: "r", Port: "CT"}
		}
		do(e)
		if crashedAny {
			break
		}
	}
	// ---- fair drain tail of a protocol-respecting history: request a drain (after
	// finishing a handshake in progress), stop sending requests, and in every round tick
	// once, empty all four data out-buffers, answer every forwarded request and look at the
	// control port. The engine must acknowledge the drain once nothing is in flight.
	if !hostile && !crashedAny {
		c.DrainTail = len(c.Events)
		// rdma_liveness (coq/mem/RdmaLive.v): acknowledged within 5*unanswered + 2 rounds; run past that bound
		rounds := 5*(accIn+accOut-answersTaken) + 14
		before := acksSeen
		if phase == 2 || phase == 3 {
			before = -1 // the acknowledgement of an earlier drain does not count
		}
		for k := 0; k < rounds && !crashedAny; k++ {
			switch phase {
			case 0:
				m := vh.Msg{Kind: "KCtrl", Src: 30, Dst: pCT, Flags: flDrainReq}
				do(Event{E: "d", Port: "CT", Msg: &m})
				if before < 0 {
					before = acksSeen
				}
			case 2:
				m := vh.Msg{Kind: "KCtrl", Src: 30, Dst: pCT, Flags: flRestartReq}
				do(Event{E: "d", Port: "CT", Msg: &m})
			}
			do(Event{E: "tick"})
			for _, p := range []string{"RO", "DI", "RI", "DO"} {
				for !crashedAny {
					if e := do(Event{E: "r", Port: p}); e.None || e.Crash {
						break
					}
				}
			}
			for _, o := range append([]outstanding{}, pendIn...) {
				m := rspFor(rng, o, 100, pRO)
				do(Event{E: "d", Port: "RO", Msg: &m})
			}
			for _, o := range append([]outstanding{}, pendOut...) {
				m := rspFor(rng, o, 200, pDI)
				do(Event{E: "d", Port: "DI", Msg: &m})
			}
			do(Event{E: "r", Port: "CT"})
			if before >= 0 && acksSeen > before {
				break
			}
		}
	}
	c.Coq = caseCoq(&c)
	return c
}

// generateLazy produces a history with back-pressure on the control port: a
// tiny port buffer, DrainReqs sent without waiting for acknowledgements,
// control responses picked up rarely, and traffic from outside (which a drain
// does not pause) kept in flight across those moments. Data traffic is valid;
// the control traffic is not protocol-respecting, so the case counts as hostile.
func generateLazy(rng *vh.Rng) Case {
	c := Case{Buf: 1 + rng.Intn(2), Hostile: true, Lazy: true, Bank: 4096}
	for i := range c.W {
		c.W[i] = 1 + rng.Intn(3)
	}
	c.Remote = []uint64{0, 100, 101}
	c.Local = []uint64{200, 201}
	r := newRunner(&c)
	n := 80 + rng.Intn(160)
	var pendIn, pendOut, ansIn, ansOut []outstanding
	var forced []Event
	nextID := uint64(1)
	drains, acks, restarts := 0, 0, 0
	wRspOut := 3 + rng.Intn(8)
	wCT := 2 + rng.Intn(3)
	for i := 0; i < n; i++ {
		var e Event
		if len(forced) > 0 {
			e = forced[0]
			forced = forced[1:]
		} else {
			switch rng.Pick(5, 22, 8, wRspOut, 22, 6, 16, 5, 8, 7, 2, wCT) {
			case 0:
				m := randReq(rng, nextID, uint64(10+rng.Intn(3)), pRI, uint64(4096+rng.Intn(2*4096)))
				nextID++
				e = Event{E: "d", Port: "RI", Msg: &m}
			case 1:
				m := randReq(rng, nextID, uint64(20+rng.Intn(3)), pDO, uint64(rng.Intn(2*4096)))
				nextID++
				e = Event{E: "d", Port: "DO", Msg: &m}
			case 2:
				e = genRsp(rng, false, &pendIn, &ansIn, "RO", 100, pRO)
			case 3:
				e = genRsp(rng, false, &pendOut, &ansOut, "DI", 200, pDI)
			case 4:
				e = Event{E: "tick"}
			case 5:
				e = Event{E: "r", Port: "RO"}
			case 6:
				e = Event{E: "r", Port: "DI"}
			case 7:
				e = Event{E: "r", Port: "RI"}
			case 8:
				e = Event{E: "r", Port: "DO"}
			case 9:
				m := vh.Msg{Kind: "KCtrl", Src: 30, Dst: pCT, Flags: flDrainReq}
				e = Event{E: "d", Port: "CT", Msg: &m}
			case 10:
				if acks >= drains && restarts < drains {
					m := vh.Msg{Kind: "KCtrl", Src: 30, Dst: pCT, Flags: flRestartReq}
					e = Event{E: "d", Port: "CT", Msg: &m}
				} else {
					e = Event{E: "tick"}
				}
			case 11:
				// free a slot of the control port and look at once at what the
				// engine pushes into it, before any other traffic moves
				e = Event{E: "r", Port: "CT"}
				if rng.Intn(4) != 0 {
					forced = append(forced, Event{E: "tick"}, Event{E: "r", Port: "CT"})
				}
			}
		}
		if e.Msg != nil {
			e.Msg.Fix()
		}
		crashed := r.apply(&e)
		c.Events = append(c.Events, e)
		if crashed {
			break
		}
		if e.E == "r" && e.Got != nil {
			o := outstanding{id: e.Got.ID, read: e.Got.Kind == "KRead", size: int(e.Got.Size)}
			switch e.Port {
			case "RO":
				pendIn = append(pendIn, o)
			case "DI":
				pendOut = append(pendOut, o)
			case "CT":
				if e.Got.Flags == flDrainRsp {
					acks++
				}
			}
		}
		if e.E == "d" && e.Acc != nil && *e.Acc {
			switch e.Port {
			case "RO":
				markAnswered(&pendIn, &ansIn, e.Msg.RspTo)
			case "DI":
				markAnswered(&pendOut, &ansOut, e.Msg.RspTo)
			case "CT":
				if e.Msg.Flags == flDrainReq {
					drains++
				} else {
					restarts++
				}
			}
		}
	}
	c.Coq = caseCoq(&c)
	return c
}

// generateBusy produces a protocol-respecting history without control traffic
// in which one path is starved of responses (its transactions pile up beyond
// the port buffer size) while the other path keeps working, and ends it with
// a fair tail for the served path: every round ticks once, empties the two
// out-buffers of the served path and answers every forwarded request. The
// number of rounds is large enough for every accepted request of the served
// path to be forwarded and answered whatever the other path holds.
func generateBusy(rng *vh.Rng) Case {
	c := Case{Buf: 2 + rng.Intn(3), Busy: true, Bank: 4096}
	for i := range c.W {
		c.W[i] = 1 + rng.Intn(3)
	}
	c.Remote = []uint64{0, 100, 101}
	c.Local = []uint64{200, 201}
	c.Serve = "outside"
	if rng.Bool() {
		c.Serve = "inside"
	}
	r := newRunner(&c)
	var pendIn, pendOut, ansIn, ansOut []outstanding
	nextID := uint64(1)
	accIn, accOut := 0, 0 // accepted requests per path
	wIn, wOut := 6, 0
	if c.Serve == "outside" {
		wIn, wOut = 0, 6
	}
	do := func(e Event) (Event, bool) {
		if e.Msg != nil {
			e.Msg.Fix()
		}
		crashed := r.apply(&e)
		c.Events = append(c.Events, e)
		if e.E == "r" && e.Got != nil {
			o := outstanding{id: e.Got.ID, read: e.Got.Kind == "KRead", size: int(e.Got.Size)}
			switch e.Port {
			case "RO":
				pendIn = append(pendIn, o)
			case "DI":
				pendOut = append(pendOut, o)
			}
		}
		if e.E == "d" && e.Acc != nil && *e.Acc {
			switch e.Port {
			case "RI":
				accIn++
			case "DO":
				accOut++
			case "RO":
				markAnswered(&pendIn, &ansIn, e.Msg.RspTo)
			case "DI":
				markAnswered(&pendOut, &ansOut, e.Msg.RspTo)
			}
		}
		return e, crashed
	}
	n := 50 + rng.Intn(90)
	for i := 0; i < n; i++ {
		var e Event
		switch rng.Pick(14, 14, wIn, wOut, 22, 10, 10, 4, 4) {
		case 0:
			m := randReq(rng, nextID, uint64(10+rng.Intn(3)), pRI, uint64(4096+rng.Intn(2*4096)))
			nextID++
			e = Event{E: "d", Port: "RI", Msg: &m}
		case 1:
			m := randReq(rng, nextID, uint64(20+rng.Intn(3)), pDO, uint64(rng.Intn(2*4096)))
			nextID++
			e = Event{E: "d", Port: "DO", Msg: &m}
		case 2:
			e = genRsp(rng, false, &pendIn, &ansIn, "RO", 100, pRO)
		case 3:
			e = genRsp(rng, false, &pendOut, &ansOut, "DI", 200, pDI)
		case 4:
			e = Event{E: "tick"}
		case 5:
			e = Event{E: "r", Port: "RO"}
		case 6:
			e = Event{E: "r", Port: "DI"}
		case 7:
			e = Event{E: "r", Port: "RI"}
		case 8:
			e = Event{E: "r", Port: "DO"}
		}
		if _, crashed := do(e); crashed {
			c.Coq = caseCoq(&c)
			return c
		}
	}
	// ---- fair tail for the served path
	c.TailStart = len(c.Events)
	fport, qport, src, dst := "DI", "DO", uint64(200), uint64(pDI)
	pend, ans, acc := &pendOut, &ansOut, accOut
	if c.Serve == "inside" {
		fport, qport, src, dst = "RO", "RI", 100, pRO
		pend, ans, acc = &pendIn, &ansIn, accIn
	}
	unforwarded := acc - len(*pend) - len(*ans)
	rounds := 2*(unforwarded+len(*pend)) + 6
	for k := 0; k < rounds; k++ {
		if _, crashed := do(Event{E: "tick"}); crashed {
			break
		}
		for {
			e, _ := do(Event{E: "r", Port: fport})
			if e.None {
				break
			}
		}
		for {
			e, _ := do(Event{E: "r", Port: qport})
			if e.None {
				break
			}
		}
		for _, o := range append([]outstanding{}, (*pend)...) {
			m := rspFor(rng, o, src, dst)
			do(Event{E: "d", Port: fport, Msg: &m})
		}
	}
	c.Coq = caseCoq(&c)
	return c
}

func markAnswered(pend, ans *[]outstanding, id uint64) {
	for k, o := range *pend {
		if o.id == id {
			*ans = append(*ans, o)
			*pend = append((*pend)[:k], (*pend)[k+1:]...)
			return
		}
	}
}

func genRsp(rng *vh.Rng, hostile bool, pend, ans *[]outstanding, port string, src, dst uint64) Event {
	if hostile && rng.Intn(5) == 0 {
		var o outstanding
		if len(*ans) > 0 && rng.Bool() {
			o = (*ans)[rng.Intn(len(*ans))] // duplicate answer
		} else {
			o = outstanding{id: 777000 + uint64(rng.Intn(5)), read: rng.Bool(), size: 4}
		}
		m := rspFor(rng, o, src, dst)
		return Event{E: "d", Port: port, Msg: &m}
	}
	if len(*pend) == 0 {
		return Event{E: "tick"}
	}
	o := (*pend)[rng.Intn(len(*pend))]
	m := rspFor(rng, o, src, dst)
	return Event{E: "d", Port: port, Msg: &m}
}

func replay(c Case) Case {
	r := newRunner(&c)
	out := c
	out.Events = nil
	for _, e := range c.Events {
		ne := Event{E: e.E, Port: e.Port, Msg: e.Msg}
		if ne.Msg != nil {
			ne.Msg.Data = make([]byte, len(ne.Msg.DataI))
			for i, x := range ne.Msg.DataI {
				ne.Msg.Data[i] = byte(x)
			}
			ne.Msg.Fix()
		}
		crashed := r.apply(&ne)
		out.Events = append(out.Events, ne)
		if crashed {
			break
		}
	}
	out.Coq = caseCoq(&out)
	return out
}

func evCoq(e *Event) string {
	var ev, ob string
	switch e.E {
	case "d":
		ev = "EDeliver " + e.Port + " " + e.Msg.Coq()
	case "tick":
		ev = "ETick"
	case "r":
		ev = "ERetr " + e.Port
	}
	switch {
	case e.Crash:
		ob = "OCrash"
	case e.Acc != nil:
		ob = "OAcc " + vh.CoqBool(*e.Acc)
	case e.Progress != nil:
		ob = "OTick " + vh.CoqBool(*e.Progress)
	case e.None:
		ob = "OMsg None"
	case e.Got != nil:
		ob = "OMsg (Some " + e.Got.Coq() + ")"
	}
	return "(" + ev + ", " + ob + ")"
}

func caseCoq(c *Case) string {
	items := make([]string, len(c.Events))
	for i := range c.Events {
		items[i] = evCoq(&c.Events[i])
	}
	return fmt.Sprintf("mkCase %s (%s, %s, %s, %s) %d %s %s %s",
		vh.CoqNat(c.Buf), vh.CoqNat(c.W[0]), vh.CoqNat(c.W[1]), vh.CoqNat(c.W[2]), vh.CoqNat(c.W[3]),
		c.Bank, vh.CoqNList(c.Remote), vh.CoqNList(c.Local),
		"["+strings.Join(items, ";\n  ")+"]")
}

// ---------------------------------------------------------------- page distributor

type DCase struct {
	Log2PS  uint64      `json:"log2ps"`
	Addr    uint64      `json:"addr"`
	Bytes   uint64      `json:"bytes"`
	GPUs    []int       `json:"gpus"`
	Panic   bool        `json:"panic"`
	Remaps  [][3]uint64 `json:"remaps"` // addr size index-into-gpus
	BytesOn []uint64    `json:"bytes_on"`
	Coq     string      `json:"coq"`
}

func runDist(c *DCase) {
	remaps, bytes, panicked := driver.VerifDistribute(c.Log2PS, c.Addr, c.Bytes, c.GPUs)
	c.Panic = panicked
	c.Remaps = [][3]uint64{}
	c.BytesOn = []uint64{}
	idx := map[int]uint64{}
	for i, g := range c.GPUs {
		idx[g] = uint64(i)
	}
	if !panicked {
		for _, r := range remaps {
			c.Remaps = append(c.Remaps, [3]uint64{r.Addr, r.ByteSize, idx[r.DeviceID]})
		}
		c.BytesOn = append(c.BytesOn, bytes...)
	}
	rs := make([]string, len(c.Remaps))
	for i, r := range c.Remaps {
		rs[i] = fmt.Sprintf("(%d, %d, %s)", r[0], r[1], vh.CoqNat(int(r[2])))
	}
	c.Coq = fmt.Sprintf("Tie.mkDCase %d %d %d %s %s %s %s", c.Log2PS, c.Addr, c.Bytes,
		vh.CoqNat(len(c.GPUs)), vh.CoqBool(c.Panic), vh.CoqList(rs), vh.CoqNList(c.BytesOn))
}

func genDist(rng *vh.Rng, i int) DCase {
	c := DCase{Log2PS: []uint64{12, 12, 12, 10, 16, 6}[rng.Intn(6)]}
	ps := uint64(1) << c.Log2PS
	c.Addr = (uint64(1) << 32) + uint64(rng.Intn(1000))*ps
	n := 1 + rng.Intn(9)
	if rng.Intn(40) == 0 {
		n = 0
	}
	used := map[int]bool{}
	for len(c.GPUs) < n {
		g := 1 + rng.Intn(16)
		if !used[g] {
			used[g] = true
			c.GPUs = append(c.GPUs, g)
		}
	}
	if c.GPUs == nil {
		c.GPUs = []int{}
	}
	pages := uint64(rng.Intn(40))
	switch rng.Intn(6) {
	case 0:
		pages = uint64(rng.Intn(n + 1)) // fewer pages than GPUs
	case 1:
		pages = uint64(n * (1 + rng.Intn(5))) // exact multiple
	case 2:
		pages = uint64(rng.Intn(100000))
	}
	switch rng.Intn(4) {
	case 0:
		c.Bytes = pages * ps
	case 1:
		c.Bytes = pages*ps + 1
	case 2:
		c.Bytes = pages*ps + ps - 1
	default:
		c.Bytes = pages*ps + uint64(rng.Intn(int(ps)))
	}
	if c.Bytes == 0 {
		// byteSize 0 wraps to 2^52 pages and overflows the address arithmetic;
		// outside the modelled range (recorded as a quirk in props/C18.v)
		c.Bytes = 1
	}
	if rng.Intn(30) == 0 {
		c.Addr += 1 + uint64(rng.Intn(int(ps)-1)) // misaligned: panic
	}
	runDist(&c)
	return c
}

// ---------------------------------------------------------------- work-group split

type SCase struct {
	Grid     [3]uint32 `json:"grid"`
	WG       [3]uint16 `json:"wg"`
	CUs      []int     `json:"cus"`
	Panic    bool      `json:"panic"`
	Dist     []int     `json:"dist"`
	Launched []int     `json:"launched"`
	// exhaustive count over all work-groups (when the grid is small enough):
	// how many are accepted by exactly k launched filters
	Exhaustive bool     `json:"exhaustive"`
	Accept0    int      `json:"accept0"`
	Accept1    int      `json:"accept1"`
	AcceptMany int      `json:"accept_many"`
	TotalWG    int      `json:"total_wg"`
	Probes     [][]int  `json:"probes"` // x y z then one 0/1 per launched filter
	Coq        string   `json:"coq"`
}

func numWG(grid uint32, wg uint16) uint32 { return (grid-1)/uint32(wg) + 1 }

func runSplit(c *SCase, rng *vh.Rng) {
	res := driver.VerifSplitWG(sim.NewSerialEngine(), c.CUs, c.Grid, c.WG)
	c.Panic = res.Panicked
	c.Dist, c.Launched, c.Probes = []int{}, []int{}, [][]int{}
	c.Exhaustive, c.Accept0, c.Accept1, c.AcceptMany, c.TotalWG = false, 0, 0, 0, 0
	if !res.Panicked {
		c.Dist = res.Dist
		c.Launched = res.GPUIndex
		nx, ny, nz := numWG(c.Grid[0], c.WG[0]), numWG(c.Grid[1], c.WG[1]), numWG(c.Grid[2], c.WG[2])
		total := uint64(nx) * uint64(ny) * uint64(nz)
		c.TotalWG = int(total)
		verdicts := func(x, y, z int) []int {
			v := []int{x, y, z}
			for k, f := range res.Filters {
				if f(res.Packets[k], &kernels.WorkGroup{IDX: x, IDY: y, IDZ: z}) {
					v = append(v, 1)
				} else {
					v = append(v, 0)
				}
			}
			return v
		}
		coords := func(f uint64) (int, int, int) {
			return int(f % uint64(nx)), int(f / uint64(nx) % uint64(ny)), int(f / (uint64(nx) * uint64(ny)))
		}
		if total <= 20000 {
			c.Exhaustive = true
			for f := uint64(0); f < total; f++ {
				x, y, z := coords(f)
				n := 0
				for _, b := range verdicts(x, y, z)[3:] {
					n += b
				}
				switch {
				case n == 0:
					c.Accept0++
				case n == 1:
					c.Accept1++
				default:
					c.AcceptMany++
				}
			}
		}
		// probes: both sides of every boundary, first, last, random
		seen := map[uint64]bool{}
		add := func(f uint64) {
			if f < total && !seen[f] && len(c.Probes) < 40 {
				seen[f] = true
				x, y, z := coords(f)
				c.Probes = append(c.Probes, verdicts(x, y, z))
			}
		}
		add(0)
		add(total - 1)
		for _, d := range res.Dist {
			if d > 0 {
				add(uint64(d - 1))
			}
			if d >= 0 {
				add(uint64(d))
			}
		}
		for k := 0; k < 8; k++ {
			add(rng.U64() % total)
		}
	}
	zl := func(xs []int) string {
		s := make([]string, len(xs))
		for i, x := range xs {
			s[i] = fmt.Sprintf("(%d)%%Z", x)
		}
		return vh.CoqList(s)
	}
	nl := func(xs []int) string {
		s := make([]string, len(xs))
		for i, x := range xs {
			s[i] = vh.CoqNat(x)
		}
		return vh.CoqList(s)
	}
	ps := make([]string, len(c.Probes))
	for i, p := range c.Probes {
		bs := make([]string, len(p)-3)
		for k, b := range p[3:] {
			bs[k] = vh.CoqBool(b == 1)
		}
		ps[i] = fmt.Sprintf("((%d)%%Z, (%d)%%Z, (%d)%%Z, %s)", p[0], p[1], p[2], vh.CoqList(bs))
	}
	c.Coq = fmt.Sprintf("Tie.mkSCase (Split.mkGeom %d %d %d %d %d %d) %s %s %s %s %s",
		c.Grid[0], c.Grid[1], c.Grid[2], c.WG[0], c.WG[1], c.WG[2],
		zl(c.CUs), vh.CoqBool(c.Panic), zl(c.Dist), nl(c.Launched), vh.CoqList(ps))
}

func genSplit(rng *vh.Rng, i int) SCase {
	c := SCase{}
	n := 1 + rng.Intn(6)
	cuChoices := []int{1, 1, 2, 3, 4, 36, 64, 64, 120}
	same := rng.Bool()
	first := cuChoices[rng.Intn(len(cuChoices))]
	for k := 0; k < n; k++ {
		cu := first
		if !same {
			cu = cuChoices[rng.Intn(len(cuChoices))]
		}
		if rng.Intn(25) == 0 {
			cu = 0
		}
		c.CUs = append(c.CUs, cu)
	}
	dim := func(max int) (uint32, uint16) {
		wg := []uint16{1, 2, 3, 7, 16, 64, 256}[rng.Intn(7)]
		nwg := 1 + rng.Intn(max)
		g := uint32(nwg) * uint32(wg)
		if rng.Intn(3) == 0 && g > 1 {
			g -= uint32(rng.Intn(int(wg))) // partial last work-group
		}
		return g, wg
	}
	switch rng.Intn(4) {
	case 0:
		c.Grid[0], c.WG[0] = dim(3000)
		c.Grid[1], c.WG[1] = 1, 1
		c.Grid[2], c.WG[2] = 1, 1
	case 1:
		c.Grid[0], c.WG[0] = dim(60)
		c.Grid[1], c.WG[1] = dim(60)
		c.Grid[2], c.WG[2] = 1, 1
	case 2:
		c.Grid[0], c.WG[0] = dim(12)
		c.Grid[1], c.WG[1] = dim(12)
		c.Grid[2], c.WG[2] = dim(12)
	default:
		c.Grid[0], c.WG[0] = dim(2*n + 2) // fewer work-groups than compute units
		c.Grid[1], c.WG[1] = 1, 1
		c.Grid[2], c.WG[2] = 1, 1
	}
	if rng.Intn(60) == 0 {
		c.WG[rng.Intn(3)] = 0 // division by zero
	}
	runSplit(&c, rng)
	return c
}

// ---------------------------------------------------------------- routing tables of the timing platform

// RCase is the RDMA address table of one GPU of a timing platform built
// exactly as the sample runner builds it, with the physical ranges the
// driver assigns and the destination of sample addresses of every device.
type RCase struct {
	GPUType string     `json:"gputype"`
	NumGPUs int        `json:"num_gpus"`
	GPU     int        `json:"gpu"` // whose RDMA engine
	Bank    uint64     `json:"bank"`
	Mods    []uint64   `json:"mods"`   // owner code of each table entry: 1000 = CPU, 1000+k = GPU k, 0 = other
	Ranges  [][2]uint64 `json:"ranges"` // driver view: base,size of device 0 (CPU), 1..n
	Probes  [][4]uint64 `json:"probes"` // device, address, owner code found (0 = lookup panics), 1 if in the device's last page
	Coq     string     `json:"coq"`
}

func ownerCode(p sim.RemotePort) uint64 {
	s := string(p)
	if s == "CPU" {
		return 1000
	}
	var k int
	if n, _ := fmt.Sscanf(s, "GPU[%d].", &k); n == 1 {
		return uint64(1000 + k)
	}
	return 0
}

func routeCases() []RCase {
	var out []RCase
	sampling.InitSampledEngine()
	for _, t := range []string{"r9nano", "mi300a"} {
		for n := 1; n <= 4; n++ {
			s := simulation.MakeBuilder().WithoutMonitoring().Build()
			timingconfig.MakeBuilder().WithSimulation(s).WithNumGPUs(n).WithGPUType(t).Build()
			d := s.GetComponentByName("Driver").(*driver.Driver)
			var ranges [][2]uint64
			for k := 0; k <= n; k++ {
				b, sz := driver.VerifDeviceRange(d, k)
				ranges = append(ranges, [2]uint64{b, sz})
			}
			for g := 1; g <= n; g++ {
				comp := s.GetComponentByName(fmt.Sprintf("GPU[%d].RDMA", g)).(*rdma.Comp)
				c := RCase{GPUType: t, NumGPUs: n, GPU: g, Ranges: ranges, Mods: []uint64{}, Probes: [][4]uint64{}}
				if bm, ok := comp.RemoteRDMAAddressTable.(*mem.BankedAddressPortMapper); ok {
					c.Bank = bm.BankSize
					for _, m := range bm.LowModules {
						c.Mods = append(c.Mods, ownerCode(m))
					}
				}
				for k := 1; k <= n; k++ {
					if k == g {
						continue
					}
					base, size := ranges[k][0], ranges[k][1]
					for _, a := range []uint64{base, base + 64, base + size/2, base + size - 2*4096, base + size - 4096 - 64, base + size - 4096, base + size - 1} {
						last := uint64(0)
						if a >= base+size-4096 {
							last = 1
						}
						code := func() (code uint64) {
							defer func() {
								if recover() != nil {
									code = 0
								}
							}()
							return ownerCode(comp.RemoteRDMAAddressTable.Find(a))
						}()
						c.Probes = append(c.Probes, [4]uint64{uint64(k), a, code, last})
					}
				}
				c.Coq = fmt.Sprintf("mkRCase %d %s %s", c.Bank, vh.CoqNat(n), vh.CoqNList(c.Mods))
				out = append(out, c)
			}
			s.Terminate()
		}
	}
	return out
}

// ----------------------------------------------------------------

func main() {
	mode := flag.String("mode", "rdma", "rdma | dist | split")
	seed := flag.Uint64("seed", 1, "seed")
	n := flag.Int("n", 100, "number of cases")
	hostileEvery := flag.Int("hostile-every", 4, "every k-th RDMA history uses the hostile stream")
	lazyEvery := flag.Int("lazy-every", 5, "every k-th RDMA history has back-pressure on the control port")
	busyEvery := flag.Int("busy-every", 5, "every k-th RDMA history piles up transactions on one path and ends with a fair tail for the other")
	bench := flag.String("bench", "fir", "e2e: benchmark")
	size := flag.Int("size", 1024, "e2e: problem size (fir/relu: elements, matrixtranspose: width)")
	gpuList := flag.String("gpus", "1", "e2e: GPU IDs, ascending")
	unified := flag.Bool("unified", false, "e2e: bundle the GPUs into one unified device")
	timing := flag.Bool("timing", false, "e2e: timing platform instead of emulation")
	out := flag.String("out", "", "output JSON file")
	rep := flag.String("replay", "", "JSON file with cases to replay")
	flag.Parse()
	log.SetOutput(io.Discard) // the component logs before it panics

	if *mode == "e2e" {
		runE2E(*bench, *size, *gpuList, *unified, *timing)
		return
	}

	var result interface{}
	rng := vh.NewRng(*seed)
	switch *mode {
	case "rdma":
		var cases []Case
		if *rep != "" {
			var in []Case
			mustLoad(*rep, &in)
			for _, c := range in {
				cases = append(cases, replay(c))
			}
		} else {
			for i := 0; i < *n; i++ {
				if *busyEvery > 0 && i%*busyEvery == 1%*busyEvery {
					cases = append(cases, generateBusy(rng.Fork()))
					continue
				}
				if *lazyEvery > 0 && i%*lazyEvery == *lazyEvery-2 {
					cases = append(cases, generateLazy(rng.Fork()))
					continue
				}
				cases = append(cases, generate(rng.Fork(), *hostileEvery > 0 && i%*hostileEvery == *hostileEvery-1))
			}
		}
		result = cases
	case "dist":
		var cases []DCase
		if *rep != "" {
			var in []DCase
			mustLoad(*rep, &in)
			for _, c := range in {
				runDist(&c)
				cases = append(cases, c)
			}
		} else {
			for i := 0; i < *n; i++ {
				cases = append(cases, genDist(rng.Fork(), i))
			}
		}
		result = cases
	case "split":
		var cases []SCase
		if *rep != "" {
			var in []SCase
			mustLoad(*rep, &in)
			for _, c := range in {
				runSplit(&c, vh.NewRng(7))
				cases = append(cases, c)
			}
		} else {
			for i := 0; i < *n; i++ {
				cases = append(cases, genSplit(rng.Fork(), i))
			}
		}
		result = cases
	case "route":
		result = routeCases()
	case "pair":
		var cases []PairCase
		for i := 0; i < *n; i++ {
			cases = append(cases, generatePair(rng.Fork()))
		}
		result = cases
	default:
		panic("bad mode")
	}
	data, _ := json.Marshal(result)
	if *out == "" {
		os.Stdout.Write(data)
	} else if err := os.WriteFile(*out, data, 0o644); err != nil {
		panic(err)
	}
}

func mustLoad(path string, v interface{}) {
	data, err := os.ReadFile(path)
	if err != nil {
		panic(err)
	}
	if err := json.Unmarshal(data, v); err != nil {
		panic(err)
	}
}
