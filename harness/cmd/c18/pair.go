package main

// Mode pair: two real RDMA engines A and B, each with its own L1 side, local
// L2 and controller played by the harness, and the harness as the wire between
// them: what A sends on RDMARequestOutside is delivered to B's RDMADataOutside
// and B's answers travel back (and vice versa). Both engines are drained at
// the same time while accesses to the other's memory are on the wire (the
// page-migration flow), then everything is served fairly. Every port action
// is recorded per engine in the usual Case format, so each half is also
// checked against the single-engine model and monitors.

import (
	"verifharness/vh"
)

type PairL1 struct {
	ID   uint64 `json:"id"`
	Kind string `json:"kind"`
	Addr uint64 `json:"addr"`
	Size uint64 `json:"size"`
}

type PairAnswer struct {
	RspTo uint64 `json:"rspto"`
	Kind  string `json:"kind"`
	Data  []int  `json:"data"`
}

type PairSide struct {
	Requests      []PairL1     `json:"requests"` // accepted L1 requests
	Answers       []PairAnswer `json:"answers"`  // retrieved at the L1 side
	DrainRequests int          `json:"drain_requests"`
	DrainAcks     int          `json:"drain_acks"`
	Crashed       bool         `json:"crashed"`
}

type PairCase struct {
	A, B       Case
	SideA      PairSide `json:"side_a"`
	SideB      PairSide `json:"side_b"`
	TailRounds int      `json:"tail_rounds"`
	TailNeeded int      `json:"tail_needed"`
	WireLeft   int      `json:"wire_left"` // messages the harness still holds at the end
}

func l2Data(addr uint64, n int) []byte {
	d := make([]byte, n)
	for i := range d {
		d[i] = byte((addr+uint64(i))*37 + 11)
	}
	return d
}

type pending struct {
	to   int // engine index the message is for
	port string
	msg  vh.Msg
}

type pairSim struct {
	c     [2]*Case
	r     [2]*runner
	side  [2]*PairSide
	phase [2]int
	next  [2]uint64
	// wire bookkeeping
	reqOrigin map[[2]uint64][2]uint64 // (engine, request id delivered to DO) -> (origin engine, forwarded id)
	fwdInfo   map[[2]uint64]vh.Msg    // (engine, forwarded id retrieved from DI) -> the request
	queue     []pending
	moved     bool
}

func (p *pairSim) do(x int, e Event) Event {
	if p.side[x].Crashed {
		return e
	}
	if e.Msg != nil {
		e.Msg.Fix()
	}
	if p.r[x].apply(&e) {
		p.side[x].Crashed = true
	}
	p.c[x].Events = append(p.c[x].Events, e)
	return e
}

// deliver or keep on the wire
func (p *pairSim) send(x int, port string, m vh.Msg) {
	p.queue = append(p.queue, pending{to: x, port: port, msg: m})
}

func (p *pairSim) flush() {
	var rest []pending
	blocked := map[[2]interface{}]bool{}
	for _, q := range p.queue {
		key := [2]interface{}{q.to, q.port}
		if blocked[key] {
			rest = append(rest, q)
			continue
		}
		m := q.msg
		e := p.do(q.to, Event{E: "d", Port: q.port, Msg: &m})
		if e.Acc != nil && *e.Acc {
			p.moved = true
		} else {
			blocked[key] = true // keep the order on this link
			rest = append(rest, q)
		}
	}
	p.queue = rest
}

// pump moves everything that can move once: wire A<->B, both L2s, both L1 sides
func (p *pairSim) pump() {
	for x := 0; x < 2; x++ {
		y := 1 - x
		// requests of x to y
		for {
			e := p.do(x, Event{E: "r", Port: "RO"})
			if e.Got == nil {
				break
			}
			p.moved = true
			g := *e.Got
			id := p.next[y]
			p.next[y]++
			m := vh.Msg{ID: id, Kind: g.Kind, Src: 20, Dst: pDO, Addr: g.Addr, Size: g.Size, Data: g.Data, Mask: g.Mask}
			p.reqOrigin[[2]uint64{uint64(y), id}] = [2]uint64{uint64(x), g.ID}
			p.send(y, "DO", m)
		}
		// the local L2 of x
		for {
			e := p.do(x, Event{E: "r", Port: "DI"})
			if e.Got == nil {
				break
			}
			p.moved = true
			g := *e.Got
			m := vh.Msg{Src: 200, Dst: pDI, RspTo: g.ID}
			if g.Kind == "KRead" {
				m.Kind = "KDataReady"
				m.Data = l2Data(g.Addr, int(g.Size))
			} else {
				m.Kind = "KWriteDone"
			}
			p.send(x, "DI", m)
		}
		// answers of x to the requests of y
		for {
			e := p.do(x, Event{E: "r", Port: "DO"})
			if e.Got == nil {
				break
			}
			p.moved = true
			g := *e.Got
			o, ok := p.reqOrigin[[2]uint64{uint64(x), g.RspTo}]
			if !ok {
				continue
			}
			m := vh.Msg{Kind: g.Kind, Src: 100, Dst: pRO, RspTo: o[1], Data: g.Data}
			p.send(int(o[0]), "RO", m)
		}
		// the L1 side of x
		for {
			e := p.do(x, Event{E: "r", Port: "RI"})
			if e.Got == nil {
				break
			}
			p.moved = true
			p.side[x].Answers = append(p.side[x].Answers, PairAnswer{RspTo: e.Got.RspTo, Kind: e.Got.Kind, Data: e.Got.DataI})
		}
		// the controller of x
		e := p.do(x, Event{E: "r", Port: "CT"})
		if e.Got != nil {
			p.moved = true
			if e.Got.Flags == flDrainRsp {
				p.side[x].DrainAcks++
				if p.phase[x] == 1 {
					p.phase[x] = 2
				}
			} else if e.Got.Flags == flRestartRsp && p.phase[x] == 3 {
				p.phase[x] = 4 // handshake complete, not drained again
			}
		}
	}
	p.flush()
}

func (p *pairSim) l1Request(rng *vh.Rng, x int) {
	m := randReq(rng, p.next[x], uint64(10+rng.Intn(3)), pRI, uint64(4096+rng.Intn(3*4096)))
	p.next[x]++
	e := p.do(x, Event{E: "d", Port: "RI", Msg: &m})
	if e.Acc != nil && *e.Acc {
		p.side[x].Requests = append(p.side[x].Requests, PairL1{ID: m.ID, Kind: m.Kind, Addr: m.Addr, Size: m.Size})
	}
}

func (p *pairSim) drain(x int) {
	if p.phase[x] != 0 {
		return
	}
	m := vh.Msg{Kind: "KCtrl", Src: 30, Dst: pCT, Flags: flDrainReq}
	e := p.do(x, Event{E: "d", Port: "CT", Msg: &m})
	if e.Acc != nil && *e.Acc {
		p.phase[x] = 1
		p.side[x].DrainRequests++
	}
}

func generatePair(rng *vh.Rng) PairCase {
	var pc PairCase
	p := &pairSim{reqOrigin: map[[2]uint64][2]uint64{}, fwdInfo: map[[2]uint64]vh.Msg{}}
	bufs := []int{2, 3, 4, 128}
	for x := 0; x < 2; x++ {
		c := &Case{Buf: bufs[rng.Intn(len(bufs))], Bank: 4096,
			Remote: []uint64{0, 100, 100, 100}, Local: []uint64{200, 200, 200, 200}}
		for i := range c.W {
			c.W[i] = 1 + rng.Intn(3)
		}
		c.Pair = true
		p.c[x] = c
		p.r[x] = newRunner(c)
		p.side[x] = &PairSide{Requests: []PairL1{}, Answers: []PairAnswer{}}
		p.next[x] = 1
	}
	// phase 1: cross traffic, partially served
	n := 10 + rng.Intn(50)
	for i := 0; i < n; i++ {
		x := rng.Intn(2)
		switch rng.Pick(10, 10, 4) {
		case 0:
			p.l1Request(rng, x)
		case 1:
			p.do(x, Event{E: "tick"})
		case 2:
			p.pump()
		}
	}
	// phase 2: each engine has accesses to the other's memory on the wire; drain both at once
	for x := 0; x < 2; x++ {
		for k := 0; k < 1+rng.Intn(3); k++ {
			p.l1Request(rng, x)
		}
		p.do(x, Event{E: "tick"})
	}
	if rng.Intn(4) != 0 {
		// move the requests onto the wire / into the peer's port before the drain
		for x := 0; x < 2; x++ {
			e := p.do(x, Event{E: "r", Port: "RO"})
			if e.Got != nil {
				g := *e.Got
				y := 1 - x
				id := p.next[y]
				p.next[y]++
				p.reqOrigin[[2]uint64{uint64(y), id}] = [2]uint64{uint64(x), g.ID}
				p.send(y, "DO", vh.Msg{ID: id, Kind: g.Kind, Src: 20, Dst: pDO, Addr: g.Addr, Size: g.Size, Data: g.Data, Mask: g.Mask})
			}
		}
		p.flush()
	}
	p.drain(0)
	p.drain(1)
	// phase 3: fair tail
	outstanding := len(p.side[0].Requests) - len(p.side[0].Answers) + len(p.side[1].Requests) - len(p.side[1].Answers)
	pc.TailNeeded = 4*outstanding + 12
	for k := 0; k < pc.TailNeeded; k++ {
		p.do(0, Event{E: "tick"})
		p.do(1, Event{E: "tick"})
		for {
			p.moved = false
			p.pump()
			if !p.moved {
				break
			}
		}
		pc.TailRounds++
		for x := 0; x < 2; x++ {
			if p.phase[x] == 2 {
				// drained: let the engine continue so that requests held back by the pause are served
				m := vh.Msg{Kind: "KCtrl", Src: 30, Dst: pCT, Flags: flRestartReq}
				if e := p.do(x, Event{E: "d", Port: "CT", Msg: &m}); e.Acc != nil && *e.Acc {
					p.phase[x] = 3
				}
			}
		}
		done := p.side[0].DrainAcks >= p.side[0].DrainRequests && p.side[1].DrainAcks >= p.side[1].DrainRequests &&
			len(p.side[0].Requests) == len(p.side[0].Answers) && len(p.side[1].Requests) == len(p.side[1].Answers) && len(p.queue) == 0
		if done || p.side[0].Crashed || p.side[1].Crashed {
			break
		}
	}
	pc.WireLeft = len(p.queue)
	for x := 0; x < 2; x++ {
		p.c[x].Coq = caseCoq(p.c[x])
	}
	pc.A, pc.B, pc.SideA, pc.SideB = *p.c[0], *p.c[1], *p.side[0], *p.side[1]
	return pc
}
