package main

// Mode e2e: one whole run of a shipped benchmark on a platform built the way
// the sample runner builds it (emulation: emusystem; timing: timingconfig),
// with a given problem size and GPU set. It reports
//   - every kernel launch the driver sent (GPU, grid and work-group size),
//     observed on the driver's GPU port — the work partition the benchmark
//     (or the driver, for a unified device) really made;
//   - the content of every device buffer the benchmark object refers to by a
//     driver.Ptr field, copied back through the driver after Run() and hashed —
//     compared byte for byte with the 1-GPU run by the check;
//   - whether the benchmark's own Verify() passed (printed as a second line,
//     because a failing Verify may terminate the process).

import (
	"crypto/sha256"
	"encoding/hex"
	"encoding/json"
	"fmt"
	"os"
	"reflect"
	"sort"
	"strconv"
	"strings"
	"sync"

	"github.com/sarchlab/akita/v4/sim"
	"github.com/sarchlab/akita/v4/simulation"
	"github.com/sarchlab/mgpusim/v4/amd/benchmarks/amdappsdk/matrixtranspose"
	"github.com/sarchlab/mgpusim/v4/amd/benchmarks/dnn/layer_benchmarks/relu"
	"github.com/sarchlab/mgpusim/v4/amd/benchmarks/heteromark/fir"
	"github.com/sarchlab/mgpusim/v4/amd/driver"
	"github.com/sarchlab/mgpusim/v4/amd/protocol"
	"github.com/sarchlab/mgpusim/v4/amd/samples/runner/emusystem"
	"github.com/sarchlab/mgpusim/v4/amd/samples/runner/timingconfig"
	"github.com/sarchlab/mgpusim/v4/amd/sampling"
)

type e2eBench interface {
	SelectGPU([]int)
	Run()
	Verify()
}

type E2ELaunch struct {
	GPU  int       `json:"gpu"`
	Grid [3]uint32 `json:"grid"`
	WG   [3]uint16 `json:"wg"`
	// what the member GPUs of a unified device must all receive alike
	GroupSegmentSize   uint32 `json:"group_segment_size"`
	PrivateSegmentSize uint32 `json:"private_segment_size"`
	KernargSHA256      string `json:"kernarg_sha256"` // content of the kernel-argument buffer ("" = not readable)
	KernargHead        string `json:"kernarg_head"`
	kernarg            uint64
}

type E2EBuffer struct {
	Name   string `json:"name"`
	Size   uint64 `json:"size"`
	SHA256 string `json:"sha256"`
	Head   string `json:"head"` // first 32 bytes, hex
}

type E2EResult struct {
	Bench    string      `json:"bench"`
	Size     int         `json:"size"`
	GPUs     []int       `json:"gpus"`
	Unified  bool        `json:"unified"`
	Timing   bool        `json:"timing"`
	Launches []E2ELaunch `json:"launches"`
	Buffers  []E2EBuffer `json:"buffers"`
}

type launchSpy struct {
	mu  sync.Mutex
	out []E2ELaunch
}

func (s *launchSpy) Func(ctx sim.HookCtx) {
	if ctx.Pos != sim.HookPosPortMsgSend {
		return
	}
	req, ok := ctx.Item.(*protocol.LaunchKernelReq)
	if !ok {
		return
	}
	var k int
	name := string(req.Dst)
	if i := strings.Index(name, "GPU["); i >= 0 {
		fmt.Sscanf(name[i:], "GPU[%d]", &k)
	}
	s.mu.Lock()
	defer s.mu.Unlock()
	p := req.Packet
	s.out = append(s.out, E2ELaunch{GPU: k,
		Grid: [3]uint32{p.GridSizeX, p.GridSizeY, p.GridSizeZ},
		WG:   [3]uint16{p.WorkgroupSizeX, p.WorkgroupSizeY, p.WorkgroupSizeZ},
		GroupSegmentSize: p.GroupSegmentSize, PrivateSegmentSize: p.PrivateSegmentSize,
		kernarg: p.KernargAddress})
}

func parseGPUs(s string) []int {
	var out []int
	for _, t := range strings.Split(s, ",") {
		n, err := strconv.Atoi(strings.TrimSpace(t))
		if err != nil {
			panic(err)
		}
		out = append(out, n)
	}
	return out
}

func runE2E(bench string, size int, gpuList string, unified, timing bool) {
	gpus := parseGPUs(gpuList)
	numGPUs := gpus[len(gpus)-1]

	s := simulation.MakeBuilder().WithoutMonitoring().Build()
	if timing {
		sampling.InitSampledEngine()
		timingconfig.MakeBuilder().WithSimulation(s).WithNumGPUs(numGPUs).Build()
	} else {
		emusystem.MakeBuilder().WithSimulation(s).WithNumGPUs(numGPUs).Build()
	}
	d := s.GetComponentByName("Driver").(*driver.Driver)
	spy := &launchSpy{}
	d.GetPortByName("GPU").AcceptHook(spy)

	use := gpus
	if unified {
		use = []int{d.CreateUnifiedGPU(nil, gpus)}
	}

	var b e2eBench
	switch bench {
	case "fir":
		x := fir.NewBenchmark(d)
		x.Length = size
		b = x
	case "relu":
		x := relu.NewBenchmark(d)
		x.Length = size
		b = x
	case "matrixtranspose":
		x := matrixtranspose.NewBenchmark(d)
		x.Width = size
		b = x
	default:
		panic("unknown benchmark " + bench)
	}
	b.SelectGPU(use)

	d.Run()
	b.Run()

	res := E2EResult{Bench: bench, Size: size, GPUs: gpus, Unified: unified, Timing: timing,
		Launches: []E2ELaunch{}, Buffers: []E2EBuffer{}}
	spy.mu.Lock()
	res.Launches = append(res.Launches, spy.out...)
	spy.mu.Unlock()

	// every device buffer the benchmark object refers to
	sizes := map[driver.Ptr]uint64{}
	owner := map[driver.Ptr]*driver.Context{}
	for _, ctx := range driver.VerifContexts(d) {
		for _, vb := range driver.VerifBuffers(ctx) {
			if !vb.Freed {
				sizes[vb.Ptr] = vb.Size
				owner[vb.Ptr] = ctx
			}
		}
	}
	// the kernel arguments every launch pointed to
	for i := range res.Launches {
		l := &res.Launches[i]
		p := driver.Ptr(l.kernarg)
		if sz, ok := sizes[p]; ok && sz > 0 {
			data := make([]byte, sz)
			d.MemCopyD2H(owner[p], data, p)
			h := sha256.Sum256(data)
			l.KernargSHA256 = hex.EncodeToString(h[:])
			l.KernargHead = hex.EncodeToString(data)
			if len(l.KernargHead) > 160 {
				l.KernargHead = l.KernargHead[:160]
			}
		}
	}
	ptrType := reflect.TypeOf(driver.Ptr(0))
	v := reflect.ValueOf(b).Elem()
	names := map[string]driver.Ptr{}
	for i := 0; i < v.NumField(); i++ {
		f, ft := v.Field(i), v.Type().Field(i)
		switch {
		case f.Type() == ptrType:
			names[ft.Name] = driver.Ptr(f.Uint())
		case f.Kind() == reflect.Slice && f.Type().Elem() == ptrType && f.Len() > 0:
			names[ft.Name+"[0]"] = driver.Ptr(f.Index(0).Uint())
		}
	}
	keys := make([]string, 0, len(names))
	for k := range names {
		keys = append(keys, k)
	}
	sort.Strings(keys)
	for _, k := range keys {
		p := names[k]
		sz, ok := sizes[p]
		if !ok || sz == 0 {
			continue
		}
		data := make([]byte, sz)
		d.MemCopyD2H(owner[p], data, p)
		h := sha256.Sum256(data)
		head := data
		if len(head) > 32 {
			head = head[:32]
		}
		res.Buffers = append(res.Buffers, E2EBuffer{Name: k, Size: sz,
			SHA256: hex.EncodeToString(h[:]), Head: hex.EncodeToString(head)})
	}
	out, _ := json.Marshal(res)
	fmt.Println(string(out))
	os.Stdout.Sync()

	verdict := "pass"
	func() {
		defer func() {
			if r := recover(); r != nil {
				verdict = fmt.Sprintf("fail: %v", r)
			}
		}()
		b.Verify()
	}()
	fmt.Println("VERIFY " + verdict)
	os.Stdout.Sync()
	os.Exit(0) // skip the tear-down of the platform (irrelevant here, and racy)
}
