package main

// Real-engine runs: the translator is connected through a DirectConnection to a
// requester, a translation service and a memory that are slow and have one-slot
// buffers, and the akita serial engine decides when each component ticks (a
// component sleeps after a tick without progress).  When the event queue is empty
// every request must have been answered exactly once and the translator's ports
// must be empty; anything else is a component that went to sleep with work left.

import (
	"fmt"

	"github.com/sarchlab/akita/v4/mem/mem"
	"github.com/sarchlab/akita/v4/mem/vm"
	"github.com/sarchlab/akita/v4/sim"
	"github.com/sarchlab/akita/v4/sim/directconnection"
	"github.com/sarchlab/mgpusim/v4/amd/timing/mem/addresstranslator"

	"verifharness/vh"
)

type simAgent struct {
	*sim.TickingComponent
	port sim.Port
	tick func() bool
}

func (a *simAgent) Tick() bool { return a.tick() }

func newAgent(name string, engine sim.Engine, in, out int) *simAgent {
	a := &simAgent{}
	a.TickingComponent = sim.NewTickingComponent(name, engine, 1*sim.GHz, a)
	a.port = sim.NewPort(a, in, out, name+".Port")
	a.AddPort("Port", a.port)
	return a
}

// server answers the message at the head of its port after a random delay.
func server(a *simAgent, rng *vh.Rng, maxDelay int, answer func(sim.Msg) sim.Msg) {
	wait := -1
	var pending sim.Msg
	a.tick = func() bool {
		if pending != nil {
			if a.port.Send(pending) != nil {
				return false // woken by NotifyPortFree
			}
			pending = nil
			return true
		}
		m := a.port.PeekIncoming()
		if m == nil {
			return false
		}
		if wait < 0 {
			wait = rng.Intn(maxDelay + 1)
		}
		if wait > 0 {
			wait--
			return true
		}
		wait = -1
		pending = answer(a.port.RetrieveIncoming())
		return true
	}
}

// fold makes every byte of the address matter for the payload.
func fold(a uint64) uint64 {
	return a ^ a>>8 ^ a>>16 ^ a>>24 ^ a>>32 ^ a>>40 ^ a>>48 ^ a>>56
}

type smokeResult struct {
	Seed     uint64 `json:"seed"`
	Requests int    `json:"requests"`
	Answered int    `json:"answered"`
	Problem  string `json:"problem,omitempty"`
}

func engineSmoke(seed uint64) smokeResult {
	rng := vh.NewRng(seed)
	engine := sim.NewSerialEngine()
	k := []uint64{6, 12, 16}[rng.Intn(3)]
	width := []int{1, 2, 4}[rng.Intn(3)]
	req := newAgent("Req", engine, 1, 1+rng.Intn(2))
	tlb := newAgent("TLB", engine, 1, 1)
	memA := newAgent("Mem", engine, 1, 1)
	at := addresstranslator.MakeBuilder().WithEngine(engine).WithFreq(1 * sim.GHz).
		WithNumReqPerCycle(width).WithLog2PageSize(k).WithDeviceID(1).
		WithMemoryProviderType("single").WithMemoryProviders(memA.port.AsRemote()).
		WithTranslationProviderMapperType("single").WithTranslationProviders(tlb.port.AsRemote()).
		Build("AT")
	conn := directconnection.MakeBuilder().WithEngine(engine).WithFreq(1 * sim.GHz).Build("Conn")
	top, bot, tr := at.GetPortByName("Top"), at.GetPortByName("Bottom"), at.GetPortByName("Translation")
	for _, p := range []sim.Port{req.port, tlb.port, memA.port, top, bot, tr, at.GetPortByName("Control")} {
		conn.PlugIn(p)
	}

	server(tlb, rng, 6, func(m sim.Msg) sim.Msg {
		q := m.(*vm.TranslationReq)
		return vm.TranslationRspBuilder{}.WithSrc(tlb.port.AsRemote()).WithDst(q.Src).WithRspTo(q.ID).
			WithPage(vm.Page{PID: q.PID, VAddr: q.VAddr, PAddr: oracle(uint64(q.PID), q.VAddr, k), Valid: true}).Build()
	})
	server(memA, rng, 8, func(m sim.Msg) sim.Msg {
		switch q := m.(type) {
		case *mem.ReadReq:
			return mem.DataReadyRspBuilder{}.WithSrc(memA.port.AsRemote()).WithDst(q.Src).WithRspTo(q.ID).
				WithData(payload(fold(q.Address), int(q.AccessByteSize))).Build()
		case *mem.WriteReq:
			return mem.WriteDoneRspBuilder{}.WithSrc(memA.port.AsRemote()).WithDst(q.Src).WithRspTo(q.ID).Build()
		}
		panic("memory got " + fmt.Sprintf("%T", m))
	})

	n := 20 + rng.Intn(60)
	npages, npids := 1+rng.Intn(4), 1+rng.Intn(3)
	type want struct {
		read  bool
		paddr uint64
		size  int
		count int
	}
	wants := map[string]*want{}
	var todo []sim.Msg
	for i := 0; i < n; i++ {
		page := uint64(1+rng.Intn(npages)) << k
		addr := page + (rng.U64() & (1<<k - 1) &^ 3)
		pid := uint64(1 + rng.Intn(npids))
		pa := oracle(pid, page, k) + (addr & (1<<k - 1))
		if rng.Intn(5) < 3 {
			sz := 1 + rng.Intn(16)
			m := mem.ReadReqBuilder{}.WithSrc(req.port.AsRemote()).WithDst(top.AsRemote()).
				WithAddress(addr).WithByteSize(uint64(sz)).WithPID(vm.PID(pid)).Build()
			wants[m.ID] = &want{read: true, paddr: pa, size: sz}
			todo = append(todo, m)
		} else {
			m := mem.WriteReqBuilder{}.WithSrc(req.port.AsRemote()).WithDst(top.AsRemote()).
				WithAddress(addr).WithPID(vm.PID(pid)).WithData([]byte{1, 2, 3, 4}).Build()
			wants[m.ID] = &want{}
			todo = append(todo, m)
		}
	}
	res := smokeResult{Seed: seed, Requests: n}
	lazy, gap := 0, 0
	req.tick = func() bool {
		progress := false
		if m := req.port.PeekIncoming(); m != nil {
			if lazy > 0 { // a slow requester: the answer stays in its port for a while
				lazy--
				return true
			}
			lazy = rng.Intn(5)
			req.port.RetrieveIncoming()
			rsp := m.(mem.AccessRsp)
			w := wants[rsp.GetRspTo()]
			switch {
			case w == nil:
				res.Problem = "response for an unknown request"
			case w.count > 0:
				res.Problem = "request answered twice"
			default:
				w.count++
				res.Answered++
				if d, ok := m.(*mem.DataReadyRsp); ok != w.read {
					res.Problem = "wrong kind of response"
				} else if ok && string(d.Data) != string(payload(fold(w.paddr), w.size)) {
					res.Problem = "response carries the data of another physical address"
				}
			}
			progress = true
		}
		if len(todo) > 0 {
			if gap > 0 {
				gap--
				return true
			}
			if req.port.Send(todo[0]) == nil {
				todo = todo[1:]
				gap = rng.Intn(4) * rng.Intn(2)
				progress = true
			}
		}
		return progress
	}
	req.TickLater()
	if err := engine.Run(); err != nil {
		res.Problem = err.Error()
	}
	if res.Problem == "" && (res.Answered != n || len(todo) > 0) {
		res.Problem = fmt.Sprintf("the simulation went quiet with %d of %d requests answered (%d not even sent): "+
			"a component sleeps with work left", res.Answered, n, len(todo))
	}
	if res.Problem == "" {
		for _, p := range []sim.Port{top, bot, tr} {
			if p.PeekIncoming() != nil || p.PeekOutgoing() != nil {
				res.Problem = "the simulation went quiet with a message left in " + p.Name()
			}
		}
	}
	return res
}
