// Command c16 drives the real addresstranslator.Comp (built with
// addresstranslator.MakeBuilder) through its four ports with generated (or
// replayed) environment histories and records what it observes.
package main

import (
	"encoding/json"
	"flag"
	"fmt"
	"io"
	"log"
	"os"
	"strings"

	"github.com/sarchlab/akita/v4/mem/mem"
	"github.com/sarchlab/akita/v4/mem/vm"
	"github.com/sarchlab/akita/v4/sim"
	"github.com/sarchlab/mgpusim/v4/amd/timing/mem/addresstranslator"

	"verifharness/vh"
)

const (
	pTop      = 1
	pBot      = 2
	pTr       = 3
	pCtl      = 4
	pMem0     = 100
	pTLB0     = 200
	botIDBase = 1000000
	trIDBase  = 2000000
	fCanWait  = 256
)

// TRsp mirrors the Coq record trsp, TReq the record treq.
type TRsp struct {
	RspTo uint64 `json:"rspto"`
	PAddr uint64 `json:"paddr"`
	// the rest of the page the reply carries (not read by the translator, not in the model)
	PID   uint64 `json:"pid"`
	VAddr uint64 `json:"vaddr"`
}

type TReq struct {
	ID    uint64 `json:"id"`
	Dst   uint64 `json:"dst"`
	VAddr uint64 `json:"vaddr"`
	PID   uint64 `json:"pid"`
	Dev   uint64 `json:"dev"`
	// the physical page the translation service found when it took the lookup
	PAddr uint64 `json:"-"`
}

func (q TReq) Coq() string {
	return fmt.Sprintf("(mkTreq %d %d %d %d %d)", q.ID, q.Dst, q.VAddr, q.PID, q.Dev)
}
func (r TRsp) Coq() string { return fmt.Sprintf("(mkTrsp %d %d)", r.RspTo, r.PAddr) }

// Event is one environment action in canonical (replayable) form.
type Event struct {
	E    string  `json:"e"` // dt db dx dc tick rt rb rx rc
	Msg  *vh.Msg `json:"msg,omitempty"`
	TRsp *TRsp   `json:"trsp,omitempty"`
	// observation
	Acc      *bool   `json:"acc,omitempty"`
	Progress *bool   `json:"progress,omitempty"`
	Got      *vh.Msg `json:"got,omitempty"`
	GotQ     *TReq   `json:"gotq,omitempty"`
	None     bool    `json:"none,omitempty"`
	Crash    bool    `json:"crash,omitempty"`
	// statistics only (not compared with the model): before this tick the
	// bottom port could not send while a translation reply was waiting
	Blocked bool `json:"blocked,omitempty"`
	// statistics only: some incoming buffer was non-empty before this tick
	Pending bool `json:"pending,omitempty"`
}

type Config struct {
	Log2PS uint64 `json:"log2ps"`
	Width  int    `json:"width"`
	NMem   int    `json:"nmem"`
	NTr    int    `json:"ntr"`
	Dev    uint64 `json:"dev"`
}

type Case struct {
	Cfg     Config  `json:"cfg"`
	Hostile bool    `json:"hostile"`
	Drained bool    `json:"drained"`
	Events  []Event `json:"events"`
	Coq     string  `json:"coq"`
}

type runner struct {
	at                *addresstranslator.Comp
	top, bot, tr, ctl sim.Port
	canon             *vh.Canon
	botGoIDs          []string
	trGoIDs           []string
}

func memPort(i int) sim.RemotePort  { return sim.RemotePort(fmt.Sprintf("Mem%d", i)) }
func tlbPort(i int) sim.RemotePort  { return sim.RemotePort(fmt.Sprintf("TLB%d", i)) }
func agent(n uint64) sim.RemotePort { return sim.RemotePort(fmt.Sprintf("Agent%d", n)) }

func newRunner(c Config) *runner {
	engine := sim.NewSerialEngine()
	r := &runner{canon: vh.NewCanon()}
	var mems, tlbs []sim.RemotePort
	for i := 0; i < c.NMem; i++ {
		mems = append(mems, memPort(i))
		r.canon.SetPort(memPort(i), uint64(pMem0+i))
	}
	for i := 0; i < c.NTr; i++ {
		tlbs = append(tlbs, tlbPort(i))
		r.canon.SetPort(tlbPort(i), uint64(pTLB0+i))
	}
	r.at = addresstranslator.MakeBuilder().
		WithEngine(engine).
		WithFreq(1 * sim.GHz).
		WithNumReqPerCycle(c.Width).
		WithLog2PageSize(c.Log2PS).
		WithDeviceID(c.Dev).
		WithMemoryProviderType("interleaved").
		WithMemoryProviders(mems...).
		WithTranslationProviderMapperType("interleaved").
		WithTranslationProviders(tlbs...).
		Build("AT")
	r.top = r.at.GetPortByName("Top")
	r.bot = r.at.GetPortByName("Bottom")
	r.tr = r.at.GetPortByName("Translation")
	r.ctl = r.at.GetPortByName("Control")
	conn := &vh.StubConn{}
	for _, p := range []sim.Port{r.top, r.bot, r.tr, r.ctl} {
		conn.PlugIn(p)
	}
	r.canon.SetPort(r.top.AsRemote(), pTop)
	r.canon.SetPort(r.bot.AsRemote(), pBot)
	r.canon.SetPort(r.tr.AsRemote(), pTr)
	r.canon.SetPort(r.ctl.AsRemote(), pCtl)
	for i := 10; i < 40; i++ {
		r.canon.SetPort(agent(uint64(i)), uint64(i))
	}
	return r
}

func (r *runner) simPort(n uint64) sim.RemotePort {
	switch {
	case n == pTop:
		return r.top.AsRemote()
	case n == pBot:
		return r.bot.AsRemote()
	case n == pTr:
		return r.tr.AsRemote()
	case n == pCtl:
		return r.ctl.AsRemote()
	case n >= pTLB0:
		return tlbPort(int(n - pTLB0))
	case n >= pMem0:
		return memPort(int(n - pMem0))
	}
	return agent(n)
}

func (r *runner) goBotID(canonical uint64) string {
	if canonical >= botIDBase && int(canonical-botIDBase) < len(r.botGoIDs) {
		return r.botGoIDs[canonical-botIDBase]
	}
	return fmt.Sprintf("unknown-%d", canonical)
}

func (r *runner) goTrID(canonical uint64) string {
	if canonical >= trIDBase && int(canonical-trIDBase) < len(r.trGoIDs) {
		return r.trGoIDs[canonical-trIDBase]
	}
	return fmt.Sprintf("unknown-%d", canonical)
}

func info(tag uint64) interface{} {
	if tag == 0 {
		return nil
	}
	return int(tag)
}

// toSim builds the Go message for a canonical one (any kind on any port).
func (r *runner) toSim(m *vh.Msg) sim.Msg {
	src, dst := r.simPort(m.Src), r.simPort(m.Dst)
	switch m.Kind {
	case "KRead":
		b := mem.ReadReqBuilder{}.WithSrc(src).WithDst(dst).
			WithAddress(m.Addr).WithByteSize(m.Size).WithPID(vm.PID(m.PID)).WithInfo(info(m.RspTo))
		if m.Flags&fCanWait != 0 {
			b = b.CanWaitForCoalesce()
		}
		q := b.Build()
		r.canon.SetID(q.ID, m.ID)
		return q
	case "KWrite":
		b := mem.WriteReqBuilder{}.WithSrc(src).WithDst(dst).
			WithAddress(m.Addr).WithPID(vm.PID(m.PID)).WithData(m.Data).WithDirtyMask(m.Mask).WithInfo(info(m.RspTo))
		if m.Flags&fCanWait != 0 {
			b = b.CanWaitForCoalesce()
		}
		q := b.Build()
		r.canon.SetID(q.ID, m.ID)
		return q
	case "KDataReady":
		return mem.DataReadyRspBuilder{}.WithSrc(src).WithDst(dst).
			WithRspTo(r.goBotID(m.RspTo)).WithData(m.Data).Build()
	case "KWriteDone":
		return mem.WriteDoneRspBuilder{}.WithSrc(src).WithDst(dst).
			WithRspTo(r.goBotID(m.RspTo)).Build()
	case "KCtrl":
		b := mem.ControlMsgBuilder{}.WithSrc(src).WithDst(dst)
		if m.Flags&vh.FDiscard != 0 {
			b = b.ToDiscardTransactions()
		}
		if m.Flags&vh.FRestart != 0 {
			b = b.ToRestart()
		}
		if m.Flags&vh.FNotifyDone != 0 {
			b = b.ToNotifyDone()
		}
		q := b.Build()
		r.canon.SetID(q.ID, m.ID)
		return q
	}
	panic("bad kind " + m.Kind)
}

// fromSim converts what the translator sent; requests additionally carry the
// Info tag in RspTo and CanWaitForCoalesce in Flags.
func (r *runner) fromSim(m sim.Msg, own uint64) vh.Msg {
	g := r.canon.FromSim(m, own)
	switch x := m.(type) {
	case *mem.ReadReq:
		g.RspTo = infoTag(x.Info)
		if x.CanWaitForCoalesce {
			g.Flags |= fCanWait
		}
	case *mem.WriteReq:
		g.RspTo = infoTag(x.Info)
		if x.CanWaitForCoalesce {
			g.Flags |= fCanWait
		}
	}
	return g
}

func infoTag(i interface{}) uint64 {
	if i == nil {
		return 0
	}
	if n, ok := i.(int); ok {
		return uint64(n)
	}
	return 999999998
}

func bp(b bool) *bool { return &b }

// apply runs one event on the implementation and fills in the observation.
func (r *runner) apply(e *Event) (crashed bool) {
	defer func() {
		if x := recover(); x != nil {
			e.Crash = true
			e.Acc, e.Progress, e.Got, e.GotQ, e.None = nil, nil, nil, nil, false
			crashed = true
		}
	}()
	switch e.E {
	case "dt":
		e.Acc = bp(r.top.Deliver(r.toSim(e.Msg)) == nil)
	case "db":
		e.Acc = bp(r.bot.Deliver(r.toSim(e.Msg)) == nil)
	case "dc":
		e.Acc = bp(r.ctl.Deliver(r.toSim(e.Msg)) == nil)
	case "dx":
		// fields of the page other than PAddr are not read by the translator
		rsp := vm.TranslationRspBuilder{}.WithSrc(tlbPort(0)).WithDst(r.tr.AsRemote()).
			WithRspTo(r.goTrID(e.TRsp.RspTo)).
			WithPage(vm.Page{PAddr: e.TRsp.PAddr, Valid: true, PID: vm.PID(e.TRsp.PID), VAddr: e.TRsp.VAddr,
				PageSize: 4096}).Build()
		e.Acc = bp(r.tr.Deliver(rsp) == nil)
	case "tick":
		e.Blocked = !r.bot.CanSend() && r.tr.PeekIncoming() != nil
		e.Pending = r.top.PeekIncoming() != nil || r.bot.PeekIncoming() != nil || r.tr.PeekIncoming() != nil
		e.Progress = bp(r.at.Tick())
	case "rt":
		m := r.top.RetrieveOutgoing()
		if m == nil {
			e.None = true
		} else {
			g := r.fromSim(m, 0)
			e.Got = &g
		}
	case "rb":
		m := r.bot.RetrieveOutgoing()
		if m == nil {
			e.None = true
		} else {
			id := uint64(botIDBase + len(r.botGoIDs))
			r.botGoIDs = append(r.botGoIDs, m.Meta().ID)
			g := r.fromSim(m, id)
			e.Got = &g
		}
	case "rx":
		m := r.tr.RetrieveOutgoing()
		if m == nil {
			e.None = true
		} else {
			q := m.(*vm.TranslationReq)
			id := uint64(trIDBase + len(r.trGoIDs))
			r.trGoIDs = append(r.trGoIDs, q.ID)
			e.GotQ = &TReq{ID: id, Dst: r.canon.Port(q.Dst), VAddr: q.VAddr, PID: uint64(q.PID), Dev: q.DeviceID}
			if r.canon.Port(q.Src) != pTr {
				e.GotQ.Dst = 999998
			}
		}
	case "rc":
		m := r.ctl.RetrieveOutgoing()
		if m == nil {
			e.None = true
		} else {
			g := r.fromSim(m, 0)
			e.Got = &g
		}
	}
	return false
}

func payload(addr uint64, n int) []byte {
	d := make([]byte, n)
	for i := range d {
		d[i] = byte((addr+uint64(i))*131 + 7)
	}
	return d
}

// the page table of the environment
func oracle(pid, vpage, k uint64) uint64 {
	return ((vpage>>k)*7 + pid*1000 + 13) << k
}

type outBot struct {
	id   uint64
	read bool
	addr uint64
	size int
}

type gen struct {
	rng     *vh.Rng
	r       *runner
	c       *Case
	pendTr  []TReq   // retrieved lookups not yet answered
	doneTr  []TReq   // answered lookups
	pendBot []outBot // retrieved bottom requests not yet answered
	doneBot []outBot
	crashed bool
	lastCtl uint64 // flags of the last accepted control message (0 = none yet)
	remap   uint64 // generation of the page table: every accepted restart remaps all pages
}

// table is the page table of the environment at this moment.
func (g *gen) table(pid, vpage uint64) uint64 {
	k := g.c.Cfg.Log2PS
	return oracle(pid, vpage, k) + (g.remap*100003)<<k
}

func (g *gen) reply(q TReq) *TRsp {
	return &TRsp{RspTo: q.ID, PAddr: q.PAddr, PID: q.PID, VAddr: q.VAddr}
}

func (g *gen) do(e Event) *Event {
	if e.Msg != nil {
		e.Msg.Fix()
	}
	g.crashed = g.r.apply(&e)
	g.c.Events = append(g.c.Events, e)
	pe := &g.c.Events[len(g.c.Events)-1]
	if g.crashed {
		return pe
	}
	acc := e.Acc != nil && *e.Acc
	switch {
	case e.E == "dc" && acc && e.Msg.Kind == "KCtrl":
		g.lastCtl = e.Msg.Flags
		if e.Msg.Flags&vh.FDiscard == 0 && e.Msg.Flags&vh.FRestart != 0 {
			g.remap++ // the pages are remapped while the translator restarts
		}
	case e.E == "rb" && e.Got != nil:
		g.pendBot = append(g.pendBot, outBot{id: e.Got.ID, read: e.Got.Kind == "KRead", addr: e.Got.Addr, size: int(e.Got.Size)})
	case e.E == "rx" && e.GotQ != nil:
		q := *e.GotQ
		q.PAddr = g.table(q.PID, q.VAddr) // answers are created from the table as it is now
		g.pendTr = append(g.pendTr, q)
	case e.E == "dx" && acc:
		for j, q := range g.pendTr {
			if q.ID == e.TRsp.RspTo {
				g.doneTr = append(g.doneTr, q)
				g.pendTr = append(g.pendTr[:j:j], g.pendTr[j+1:]...)
				break
			}
		}
	case e.E == "db" && acc:
		for j, o := range g.pendBot {
			if o.id == e.Msg.RspTo {
				g.doneBot = append(g.doneBot, o)
				g.pendBot = append(g.pendBot[:j:j], g.pendBot[j+1:]...)
				break
			}
		}
	}
	return pe
}

func (g *gen) botRsp(o outBot, corrupt bool) Event {
	m := vh.Msg{Src: pMem0, Dst: pBot, RspTo: o.id}
	if o.read {
		m.Kind = "KDataReady"
		m.Data = payload(o.addr, o.size)
		if corrupt && len(m.Data) > 0 {
			m.Data[0] ^= 0x5a
		}
	} else {
		m.Kind = "KWriteDone"
	}
	return Event{E: "db", Msg: &m}
}

// generate produces and runs one random history.
func generate(rng *vh.Rng, hostile bool) Case {
	l2 := []uint64{6, 12, 12, 16, 21}
	widths := []int{1, 2, 4}
	devs := []uint64{1, 2, 5}
	c := Case{Hostile: hostile}
	c.Cfg = Config{Log2PS: l2[rng.Intn(len(l2))], Width: widths[rng.Intn(len(widths))],
		NMem: 1 + rng.Intn(3), NTr: 1 + rng.Intn(2), Dev: devs[rng.Intn(len(devs))]}
	k := c.Cfg.Log2PS
	g := &gen{rng: rng, r: newRunner(c.Cfg), c: &c}

	// the address space of this history: a few pages shared by a few processes
	npages := 1 + rng.Intn(4)
	npids := 1 + rng.Intn(3)
	pages := make([]uint64, npages)
	for i := range pages {
		pages[i] = uint64(1+rng.Intn(6)) << k
		if rng.Intn(6) == 0 {
			pages[i] = (rng.U64() >> k) << k // anywhere in the 64-bit space
		}
	}
	n := 40 + rng.Intn(180)
	nextTop := uint64(1)
	ctlID := uint64(500000)
	// per-case bias: reply-starved lookups, a clogged bottom port, slow memory, ...
	wTop := 15 + rng.Intn(30)
	wTrAns := 4 + rng.Intn(30)
	wBotAns := 4 + rng.Intn(30)
	wTick := 15 + rng.Intn(15)
	wRT := 3 + rng.Intn(10)
	wRB := 2 + rng.Intn(14)
	wRX := 4 + rng.Intn(14)
	wCtl := 0
	if rng.Intn(3) == 0 {
		wCtl = 1 + rng.Intn(4)
	}
	// two thirds of the histories with control traffic follow the protocol (discard, then
	// restart, alternating); the others send discards and restarts in any order
	protocol := rng.Intn(3) != 0
	wBad := 0
	if hostile && rng.Intn(3) == 0 {
		wBad = 1 // messages that make the translator panic end a history early: keep them rare
	}
	for i := 0; i < n && !g.crashed; i++ {
		switch rng.Pick(wTop, wTrAns, wBotAns, wTick, wRT, wRB, wRX, wCtl, wCtl, wBad) {
		case 0: // a request from above
			addr := pages[rng.Intn(npages)] + (rng.U64() & (1<<k - 1))
			if rng.Intn(3) == 0 {
				addr &^= 63 // cache-line aligned, as most real traffic
			}
			m := vh.Msg{ID: nextTop, Src: uint64(10 + rng.Intn(3)), Dst: pTop, Addr: addr,
				PID: uint64(1 + rng.Intn(npids)), RspTo: nextTop}
			if hostile && rng.Intn(3) == 0 {
				m.RspTo = 0 // no Info
			}
			nextTop++
			if rng.Bool() {
				m.Flags = fCanWait
			}
			if rng.Intn(5) < 3 {
				m.Kind = "KRead"
				m.Size = uint64(1 + rng.Intn(64))
			} else {
				m.Kind = "KWrite"
				sz := 1 + rng.Intn(16)
				m.Data = make([]byte, sz)
				for j := range m.Data {
					m.Data[j] = byte(rng.U64())
				}
				if rng.Bool() {
					m.Mask = make([]bool, sz)
					for j := range m.Mask {
						m.Mask[j] = rng.Bool()
					}
				}
			}
			g.do(Event{E: "dt", Msg: &m})
		case 1: // a reply of the translation service, any outstanding lookup
			var q TReq
			if hostile && rng.Intn(4) == 0 && (len(g.doneTr) > 0 || rng.Bool()) {
				if len(g.doneTr) > 0 && rng.Bool() {
					q = g.doneTr[rng.Intn(len(g.doneTr))] // duplicate reply
				} else {
					// never issued; it names the page of a pending lookup if there is one
					q = TReq{ID: 888000 + uint64(rng.Intn(5)), VAddr: pages[0], PID: 1}
					if len(g.pendTr) > 0 {
						o := g.pendTr[rng.Intn(len(g.pendTr))]
						q.VAddr, q.PID = o.VAddr, o.PID
					}
					q.PAddr = (rng.U64() >> 24 << k) | 1<<40
				}
			} else if len(g.pendTr) > 0 {
				q = g.pendTr[rng.Intn(len(g.pendTr))]
			} else {
				g.do(Event{E: "tick"})
				continue
			}
			rp := g.reply(q)
			if hostile && rng.Intn(5) == 0 {
				rp.PAddr = rng.U64() | 0xffffffff00000000 // unaligned, close to the top of the address space
			}
			g.do(Event{E: "dx", TRsp: rp})
		case 2: // a response of memory, any outstanding request
			var o outBot
			if hostile && rng.Intn(4) == 0 && (len(g.doneBot) > 0 || rng.Bool()) {
				if len(g.doneBot) > 0 && rng.Bool() {
					o = g.doneBot[rng.Intn(len(g.doneBot))]
				} else {
					o = outBot{id: 777000 + uint64(rng.Intn(5)), read: rng.Bool(), addr: 4, size: 4}
				}
				if rng.Intn(3) == 0 {
					o.read = !o.read // wrong kind of response
				}
			} else if len(g.pendBot) > 0 {
				o = g.pendBot[rng.Intn(len(g.pendBot))]
			} else {
				g.do(Event{E: "tick"})
				continue
			}
			g.do(g.botRsp(o, hostile && rng.Intn(3) == 0))
		case 3:
			// often several ticks in a row: the engine would have stopped after the first
			// one without progress, so the following ones must not find anything to do
			g.do(Event{E: "tick"})
			for rng.Intn(3) == 0 && !g.crashed {
				g.do(Event{E: "tick"})
			}
		case 4:
			g.do(Event{E: "rt"})
		case 5:
			g.do(Event{E: "rb"})
		case 6:
			g.do(Event{E: "rx"})
		case 7:
			fl := uint64(vh.FDiscard)
			if protocol {
				if g.lastCtl&vh.FDiscard != 0 {
					fl = vh.FRestart
				}
			} else if rng.Intn(5) < 2 {
				fl = vh.FRestart
			}
			m := vh.Msg{ID: ctlID, Kind: "KCtrl", Src: 20, Dst: pCtl, Flags: fl}
			ctlID++
			g.do(Event{E: "dc", Msg: &m})
		case 8:
			g.do(Event{E: "rc"})
		case 9: // hostile only: messages the translator cannot handle
			switch rng.Intn(6) {
			case 0:
				m := vh.Msg{ID: ctlID, Kind: "KCtrl", Src: 20, Dst: pCtl, Flags: 0}
				if rng.Bool() {
					m.Flags = vh.FNotifyDone
				}
				ctlID++
				g.do(Event{E: "dc", Msg: &m})
			case 1:
				m := vh.Msg{Kind: "KWriteDone", Src: 11, Dst: pTop, RspTo: 5}
				g.do(Event{E: "dt", Msg: &m})
			case 2:
				m := vh.Msg{ID: nextTop, Kind: "KRead", Src: pMem0, Dst: pBot, Addr: 64, Size: 4, PID: 1}
				nextTop++
				g.do(Event{E: "db", Msg: &m})
			case 3:
				m := vh.Msg{ID: nextTop, Kind: "KRead", Src: 20, Dst: pCtl, Addr: 64, Size: 4, PID: 1}
				nextTop++
				g.do(Event{E: "dc", Msg: &m})
			default:
				g.do(Event{E: "tick"})
			}
		}
	}
	if !hostile && !g.crashed && rng.Intn(4) == 0 {
		// a flush that catches a lookup in flight: the access is accepted, its lookup is taken by the
		// translation service but not answered, then the discard arrives.  finish() restarts (the pages
		// are remapped), touches the page again and delivers the stale answer before the fresh one.
		m := vh.Msg{ID: nextTop, Kind: "KRead", Src: 10, Dst: pTop, Addr: pages[rng.Intn(npages)] + 16, Size: 4,
			PID: uint64(1 + rng.Intn(npids)), RspTo: nextTop}
		nextTop++
		g.do(Event{E: "dt", Msg: &m})
		for i := 0; i < 3 && !g.crashed; i++ {
			g.do(Event{E: "tick"})
			g.do(Event{E: "rx"})
		}
		if !g.crashed {
			d := vh.Msg{ID: ctlID, Kind: "KCtrl", Src: 20, Dst: pCtl, Flags: vh.FDiscard}
			ctlID++
			g.do(Event{E: "dc", Msg: &d})
		}
	}
	if !hostile && !g.crashed {
		g.finish()
	}
	c.Coq = caseCoq(&c)
	return c
}

// finish ends a valid history the way a well-behaved system does: pending
// control traffic is acknowledged, a discard is followed by a restart, every page
// of every process touched so far is accessed once more, and then everything is
// drained.  It only looks at the recorded events, so a replay can repeat it.
func (g *gen) finish() {
	k := g.c.Cfg.Log2PS
	settle := func() {
		for i := 0; i < 6 && !g.crashed; i++ {
			g.do(Event{E: "rc"})
			g.do(Event{E: "tick"})
			if i%2 == 1 && !g.crashed {
				g.do(Event{E: "tick"})
			}
		}
		if !g.crashed {
			g.do(Event{E: "rc"})
		}
	}
	round := func() {
		for _, port := range []string{"rt", "rb", "rx"} {
			if !g.crashed {
				g.do(Event{E: port})
			}
		}
		if !g.crashed {
			g.do(Event{E: "tick"})
		}
	}
	type key struct{ page, pid uint64 }
	var keys []key
	seen := map[key]bool{}
	nextTop, ctlID := uint64(1), uint64(500000)
	for _, e := range g.c.Events {
		if e.Msg == nil {
			continue
		}
		if e.E == "dc" && e.Msg.ID >= ctlID {
			ctlID = e.Msg.ID + 1
		}
		if (e.E == "dt" || e.E == "db" || e.E == "dc") && e.Msg.ID < 500000 && e.Msg.ID >= nextTop {
			nextTop = e.Msg.ID + 1
		}
		if e.E == "dt" && e.Acc != nil && *e.Acc && (e.Msg.Kind == "KRead" || e.Msg.Kind == "KWrite") {
			kk := key{(e.Msg.Addr >> k) << k, e.Msg.PID}
			if !seen[kk] {
				seen[kk] = true
				keys = append(keys, kk)
			}
		}
	}
	settle()
	if g.lastCtl&vh.FDiscard != 0 {
		for try := 0; try < 10 && !g.crashed; try++ {
			m := vh.Msg{ID: ctlID, Kind: "KCtrl", Src: 20, Dst: pCtl, Flags: vh.FRestart}
			ctlID++
			e := g.do(Event{E: "dc", Msg: &m})
			settle()
			if e.Acc != nil && *e.Acc {
				break
			}
		}
	}
	for _, kk := range keys {
		for try := 0; try < 40 && !g.crashed; try++ {
			m := vh.Msg{ID: nextTop, Kind: "KRead", Src: 10, Dst: pTop, Addr: kk.page + 8, Size: 4,
				PID: kk.pid, RspTo: nextTop}
			nextTop++
			e := g.do(Event{E: "dt", Msg: &m})
			if e.Acc != nil && *e.Acc {
				break
			}
			round()
		}
	}
	if !g.crashed {
		g.drain()
	}
}

// drain plays a fair environment until nothing moves any more: every lookup
// and every memory request is answered, every port is emptied.
func (g *gen) drain() {
	idle := 0
	for round := 0; round < 400 && idle < 3 && !g.crashed; round++ {
		moved := false
		for _, port := range []string{"rt", "rb", "rx", "rc"} {
			for !g.crashed {
				e := g.do(Event{E: port})
				if e.None || g.crashed {
					break
				}
				moved = true
			}
		}
		for len(g.pendTr) > 0 && !g.crashed {
			q := g.pendTr[0]
			e := g.do(Event{E: "dx", TRsp: g.reply(q)})
			if e.Acc == nil || !*e.Acc {
				break
			}
			moved = true
		}
		for len(g.pendBot) > 0 && !g.crashed {
			o := g.pendBot[len(g.pendBot)-1] // newest first: out of order
			e := g.do(g.botRsp(o, false))
			if e.Acc == nil || !*e.Acc {
				break
			}
			moved = true
		}
		if g.crashed {
			return
		}
		e := g.do(Event{E: "tick"})
		if g.crashed {
			return
		}
		if (e.Progress != nil && *e.Progress) || moved {
			idle = 0
		} else {
			idle++
		}
	}
	g.c.Drained = idle >= 3 && len(g.pendTr) == 0 && len(g.pendBot) == 0
}

// replay runs stored events (observations are recomputed).
func replay(c Case) Case {
	out := Case{Cfg: c.Cfg, Hostile: c.Hostile}
	g := &gen{r: newRunner(c.Cfg), c: &out}
	for _, e := range c.Events {
		ne := Event{E: e.E, Msg: e.Msg, TRsp: e.TRsp}
		if ne.Msg != nil {
			ne.Msg.Data = make([]byte, len(ne.Msg.DataI))
			for i, x := range ne.Msg.DataI {
				ne.Msg.Data[i] = byte(x)
			}
		}
		g.do(ne)
		if g.crashed {
			break
		}
	}
	// a drained history is drained again (shrinking may have cut its tail)
	if c.Drained && !g.crashed {
		g.finish()
	}
	out.Coq = caseCoq(&out)
	return out
}

func evCoq(e *Event) string {
	var ev, ob string
	switch e.E {
	case "dt":
		ev = "EDeliverTop " + e.Msg.Coq()
	case "db":
		ev = "EDeliverBot " + e.Msg.Coq()
	case "dx":
		ev = "EDeliverTr " + e.TRsp.Coq()
	case "dc":
		ev = "EDeliverCtl " + e.Msg.Coq()
	case "tick":
		ev = "ETick"
	case "rt":
		ev = "ERetrTop"
	case "rb":
		ev = "ERetrBot"
	case "rx":
		ev = "ERetrTr"
	case "rc":
		ev = "ERetrCtl"
	}
	switch {
	case e.Crash:
		ob = "OCrash"
	case e.Acc != nil:
		ob = "OAcc " + vh.CoqBool(*e.Acc)
	case e.Progress != nil:
		ob = "OTick " + vh.CoqBool(*e.Progress)
	case e.None && e.E == "rx":
		ob = "OTreq None"
	case e.None:
		ob = "OMsg None"
	case e.GotQ != nil:
		ob = "OTreq (Some " + e.GotQ.Coq() + ")"
	case e.Got != nil:
		ob = "OMsg (Some " + e.Got.Coq() + ")"
	}
	return "(" + ev + ", " + ob + ")"
}

func caseCoq(c *Case) string {
	items := make([]string, len(c.Events))
	for i := range c.Events {
		items[i] = evCoq(&c.Events[i])
	}
	return fmt.Sprintf("mkCase (mkCfg %d %s %d %d %d) %s", c.Cfg.Log2PS, vh.CoqNat(c.Cfg.Width),
		c.Cfg.NMem, c.Cfg.NTr, c.Cfg.Dev, "["+strings.Join(items, ";\n  ")+"]")
}

func main() {
	log.SetOutput(io.Discard)
	seed := flag.Uint64("seed", 1, "seed")
	n := flag.Int("n", 100, "number of histories")
	hostileEvery := flag.Int("hostile-every", 5, "every k-th history uses the hostile stream")
	out := flag.String("out", "", "output JSON file")
	rep := flag.String("replay", "", "JSON file with cases to replay")
	smoke := flag.Int("engine-smoke", 0, "run this many real-engine simulations instead (seeds seed*1000+i)")
	smokeSeed := flag.Uint64("engine-seed", 0, "run the real-engine simulation with exactly this seed")
	flag.Parse()
	if *smoke > 0 || *smokeSeed > 0 {
		var rs []smokeResult
		if *smokeSeed > 0 {
			rs = append(rs, engineSmoke(*smokeSeed))
		}
		for i := 0; i < *smoke; i++ {
			rs = append(rs, engineSmoke(*seed*1000+uint64(i)))
		}
		data, _ := json.Marshal(rs)
		if *out == "" {
			os.Stdout.Write(data)
		} else if err := os.WriteFile(*out, data, 0o644); err != nil {
			panic(err)
		}
		return
	}

	var cases []Case
	if *rep != "" {
		data, err := os.ReadFile(*rep)
		if err != nil {
			panic(err)
		}
		var in []Case
		if err := json.Unmarshal(data, &in); err != nil {
			panic(err)
		}
		for _, c := range in {
			cases = append(cases, replay(c))
		}
	} else {
		rng := vh.NewRng(*seed)
		for i := 0; i < *n; i++ {
			cases = append(cases, generate(rng.Fork(), *hostileEvery > 0 && i%*hostileEvery == *hostileEvery-1))
		}
	}
	data, _ := json.Marshal(cases)
	if *out == "" {
		os.Stdout.Write(data)
	} else if err := os.WriteFile(*out, data, 0o644); err != nil {
		panic(err)
	}
}
