package main

func simMain(args []string) int { return 0 }
