package main

// Sub-command "sim": builds the real NVIDIA platform (driver, GPUs, SMs,
// sub-cores from their public builders, any shape), injects kernels through
// benchmark.ExecKernel.SetKernel, runs it with the real runner under the real
// serial engine and records, through engine hooks, the sequence of handled
// events together with a digest of the component that was ticked.

import (
	"encoding/json"
	"flag"
	"fmt"
	"io"
	"os"
	"path/filepath"
	"reflect"
	"sort"
	"strconv"
	"strings"
	"unsafe"

	log "github.com/sirupsen/logrus"

	"github.com/sarchlab/akita/v4/sim"
	"github.com/sarchlab/mgpusim/v4/nvidia/benchmark"
	"github.com/sarchlab/mgpusim/v4/nvidia/driver"
	"github.com/sarchlab/mgpusim/v4/nvidia/gpu"
	"github.com/sarchlab/mgpusim/v4/nvidia/nvidiaconfig"
	"github.com/sarchlab/mgpusim/v4/nvidia/platform"
	"github.com/sarchlab/mgpusim/v4/nvidia/runner"
	"github.com/sarchlab/mgpusim/v4/nvidia/sm"
	"github.com/sarchlab/mgpusim/v4/nvidia/subcore"

	"verifharness/vh"
)

type GPUShape struct {
	SMs  int `json:"sms"`
	Subs int `json:"subs"`
}

type NodeState struct {
	Unfin  int64 `json:"unfin"`
	Fin    int64 `json:"fin"`
	Undisp int   `json:"undisp"`
	Free   []int `json:"free"`
	Total  int64 `json:"total"`
	Bufs   []int `json:"bufs"` // up_in up_out dn_in dn_out
}

type SimCase struct {
	GPUs    []GPUShape  `json:"gpus"`
	Freq    string      `json:"freq"` // "hz": components 1 Hz, GPU/SM connections 1 GHz (as nvidia.go); "ghz": all 1 GHz
	Kernels [][][]int64 `json:"kernels"`
	Tag     string      `json:"tag,omitempty"`
	// ViaFiles: the kernels are written to a trace directory (every kernel file with the SAME kernel name and
	// launch configuration, or two alternating names; Memcpy lines in between) and loaded through
	// benchmark.BenchmarkBuilder / tracereader instead of being injected with SetKernel
	ViaFiles bool `json:"via_files,omitempty"`
	// FileStyle (via_files): 0 LF everywhere; 1 kernelslist.g with CRLF; 2 CRLF in the list and in the kernel files;
	// 3 blank lines between the list entries and no newline at the end of the list
	FileStyle int `json:"file_style,omitempty"`
	// NameLen > 0 (via_files): kernel names padded to this many bytes; InstAddrs > 0: the first instruction of every
	// warp is an uncompressed access with this many addresses (a line of about 19*InstAddrs bytes)
	NameLen   int `json:"name_len,omitempty"`
	InstAddrs int `json:"inst_addrs,omitempty"`
	// observations
	Kids       [][]int     `json:"kids,omitempty"`
	Events     []int       `json:"events,omitempty"` // 0 = next cycle, 2u+1 = tick of component u, 2u+2 = tick of the connection below u
	Obs        []uint64    `json:"obs,omitempty"`
	Final      []NodeState `json:"final,omitempty"`
	KernelsRun int         `json:"kernels_run"` // DriverToDeviceMsg delivered to a GPU
	BlocksRun  int         `json:"blocks_run"`  // DeviceToSMMsg delivered to an SM
	Unfinished int64       `json:"unfinished"`
	Timeout    bool        `json:"timeout"`
	Crash      string      `json:"crash,omitempty"`
	NEvents    int         `json:"nevents"`
	Coq        string      `json:"coq,omitempty"`
}

const maxEvents = 400000

type abortRun struct{}

// ---- reflection helpers (private fields are only read)

func fld(obj interface{}, name string) reflect.Value {
	v := reflect.ValueOf(obj)
	for v.Kind() == reflect.Ptr || v.Kind() == reflect.Interface {
		v = v.Elem()
	}
	f := v.FieldByName(name)
	if !f.IsValid() {
		panic("verif harness: field " + name + " not found in " + v.Type().String())
	}
	return f
}

func expose(f reflect.Value) interface{} {
	return reflect.NewAt(f.Type(), unsafe.Pointer(f.UnsafeAddr())).Elem().Interface()
}

func bufSizes(p sim.Port) (in, out int) {
	in = expose(fld(p, "incomingBuf")).(sim.Buffer).Size()
	out = expose(fld(p, "outgoingBuf")).(sim.Buffer).Size()
	return
}

func connOf(p sim.Port) *sim.TickingComponent {
	c := expose(fld(p, "conn"))
	return expose(fld(c, "TickingComponent")).(*sim.TickingComponent)
}

// ---- the platform with its flat node numbering

type node struct {
	kind   int // 0 driver, 1 gpu, 2 sm, 3 subcore
	obj    interface{}
	tc     *sim.TickingComponent
	up, dn sim.Port
	kids   []int
}

type world struct {
	nodes  []*node
	byPtr  map[uintptr]int // component pointer -> node index
	byTC   map[*sim.TickingComponent]int
	byConn map[*sim.TickingComponent]int
}

func suffixIndex(name string) int {
	i := strings.LastIndex(name, "(")
	n, err := strconv.Atoi(strings.TrimSuffix(name[i+1:], ")"))
	if err != nil {
		panic("verif harness: cannot parse index from " + name)
	}
	return n
}

func buildWorld(c *SimCase) (*world, *runner.Runner) {
	freq := 1 * sim.Hz
	if c.Freq == "ghz" {
		freq = 1 * sim.GHz
	}
	engine := sim.NewSerialEngine()
	drv := new(driver.DriverBuilder).WithEngine(engine).WithFreq(freq).Build("Driver")
	p := &platform.Platform{Engine: engine, Driver: drv}
	for i, sh := range c.GPUs {
		g := new(gpu.GPUBuilder).WithEngine(engine).WithFreq(freq).
			WithSMsCount(int64(sh.SMs)).WithSubcoresCountPerSM(int64(sh.Subs)).
			Build(fmt.Sprintf("GPU(%d)", i))
		drv.RegisterGPU(g)
		p.Devices = append(p.Devices, g)
	}
	w := &world{byPtr: map[uintptr]int{}, byTC: map[*sim.TickingComponent]int{}, byConn: map[*sim.TickingComponent]int{}}
	add := func(n *node) int {
		w.nodes = append(w.nodes, n)
		return len(w.nodes) - 1
	}
	d := &node{kind: 0, obj: drv, tc: drv.TickingComponent, dn: drv.GetPortByName("ToDevice")}
	add(d)
	var gpus []*node
	for _, g := range p.Devices {
		n := &node{kind: 1, obj: g, tc: g.TickingComponent,
			up: g.GetPortByName(g.Name() + ".ToDriver"), dn: g.GetPortByName(g.Name() + ".ToSMs")}
		d.kids = append(d.kids, add(n))
		gpus = append(gpus, n)
	}
	var sms []*node
	for _, gn := range gpus {
		g := gn.obj.(*gpu.GPU)
		list := make([]*sm.SM, 0)
		for _, s := range g.SMs {
			list = append(list, s)
		}
		sort.Slice(list, func(a, b int) bool { return suffixIndex(list[a].Name()) < suffixIndex(list[b].Name()) })
		for _, s := range list {
			n := &node{kind: 2, obj: s, tc: s.TickingComponent,
				up: s.GetPortByName(s.Name() + ".ToGPU"), dn: s.GetPortByName(s.Name() + ".ToSubcores")}
			gn.kids = append(gn.kids, add(n))
			sms = append(sms, n)
		}
	}
	for _, sn := range sms {
		s := sn.obj.(*sm.SM)
		list := make([]*subcore.Subcore, 0)
		for _, sc := range s.Subcores {
			list = append(list, sc)
		}
		sort.Slice(list, func(a, b int) bool { return suffixIndex(list[a].Name()) < suffixIndex(list[b].Name()) })
		for _, sc := range list {
			n := &node{kind: 3, obj: sc, tc: sc.TickingComponent, up: sc.GetPortByName(sc.Name() + ".ToSM")}
			sn.kids = append(sn.kids, add(n))
		}
	}
	for _, n := range w.nodes {
		switch n.kind {
		case 1:
			n.up.AcceptHook(&recvCounter{&c.KernelsRun})
		case 2:
			n.up.AcceptHook(&recvCounter{&c.BlocksRun})
		}
	}
	for i, n := range w.nodes {
		w.byPtr[reflect.ValueOf(n.obj).Pointer()] = i
		w.byTC[n.tc] = i
		if n.dn != nil {
			w.byConn[connOf(n.dn)] = i
		}
	}
	r := new(runner.RunnerBuilder).WithPlatform(p).Build()
	var bm *benchmark.Benchmark
	if c.ViaFiles {
		bm = benchmarkFromFiles(c)
	} else {
		bm = benchmarkInjected(c)
	}
	r.AddBenchmark(bm)
	return w, r
}

// recvCounter counts the messages delivered to a port.
type recvCounter struct{ n *int }

func (h *recvCounter) Func(ctx sim.HookCtx) {
	if ctx.Pos == sim.HookPosPortMsgRecvd {
		*h.n++
	}
}

func benchmarkInjected(c *SimCase) *benchmark.Benchmark {
	bm := &benchmark.Benchmark{}
	for _, k := range c.Kernels {
		kern := nvidiaconfig.Kernel{}
		for _, b := range k {
			tb := nvidiaconfig.Threadblock{}
			for _, n := range b {
				wp := nvidiaconfig.Warp{InstructionsCount: n}
				for j := int64(0); j < n; j++ {
					wp.Instructions = append(wp.Instructions, nvidiaconfig.Instruction{})
				}
				tb.Warps = append(tb.Warps, wp)
				tb.WarpsCount++
			}
			kern.Threadblocks = append(kern.Threadblocks, tb)
			kern.ThreadblocksCount++
		}
		exec := new(benchmark.ExecKernel)
		exec.SetKernel(kern)
		bm.TraceExecs = append(bm.TraceExecs, exec)
	}
	return bm
}

// benchmarkFromFiles prints the kernels as accel-sim trace files of one
// directory and loads them the way nvidia.go does.  All files carry the same
// launch configuration and one of two kernel names, so that kernel instances
// can only be told apart by their bodies.
func benchmarkFromFiles(c *SimCase) *benchmark.Benchmark {
	dir, err := os.MkdirTemp("", "c20simtrace")
	if err != nil {
		panic(err)
	}
	defer os.RemoveAll(dir)
	eolList, eolFile, sep := "\n", "\n", ""
	switch c.FileStyle {
	case 1:
		eolList = "\r\n"
	case 2:
		eolList, eolFile = "\r\n", "\r\n"
	case 3:
		sep = "\n"
	}
	entries := []string{"MemcpyHtoD,0x00007fb0fc400000,200000"}
	for i, k := range c.Kernels {
		name := []string{"_Z6KernelP4NodePiPbS2_S2_i", "_Z7Kernel2PbS_S_S_i"}[i%2]
		if c.NameLen > len(name) {
			name += strings.Repeat("x", c.NameLen-len(name))
		}
		tk := trKernel{Header: trHeader{Name: name, KernelID: int64(i + 1),
			Grid: [3]int64{int64(len(c.Kernels[0])) + 1, 1, 1}, Block: [3]int64{64, 1, 1}, Nregs: 16, BinVer: 80,
			ShBase: 0x7fb139000000, LocalBase: 0x7fb137000000, Nvbit: "1.7", Tracer: "5"}}
		for j, b := range k {
			blk := trBlock{ID: [3]int64{int64(j), 0, 0}}
			for l, n := range b {
				wp := trWarp{ID: int64(l)}
				for x := int64(0); x < n; x++ {
					in := trInst{PC: uint64(16 * x), Mask: 0xffffffff, Dests: []int64{int64(1 + (x+int64(i))%30)}, Op: "IMAD", Srcs: []int64{2, 3}}
					if (x+int64(l))%3 == 1 {
						in = trInst{PC: uint64(16 * x), Mask: 0xffffffff, Dests: []int64{4}, Op: "LDG.E", Srcs: []int64{4},
							Mem: &trMem{Width: 4, Mode: 1, Base: 0x7fb0fc430e00 + uint64(128*(i+j+l)), Stride: 4}}
					}
					if x == 0 && c.InstAddrs > 0 {
						m := &trMem{Width: 4, Mode: 0}
						for a := 0; a < c.InstAddrs; a++ {
							m.Addrs = append(m.Addrs, 0x7fb0fc430e00+uint64(4*a))
						}
						in = trInst{PC: 0, Mask: 0xffffffff, Dests: []int64{4}, Op: "LDG.E", Srcs: []int64{4}, Mem: m}
					}
					wp.Insts = append(wp.Insts, in)
				}
				blk.Warps = append(blk.Warps, wp)
			}
			tk.Blocks = append(tk.Blocks, blk)
		}
		lines := trKernelLines(&tk)
		var sb strings.Builder
		for x := range lines {
			sb.WriteString(trLineText(&lines[x]))
			sb.WriteString(eolFile)
		}
		fname := fmt.Sprintf("kernel-%d.traceg", i+1)
		if err := os.WriteFile(filepath.Join(dir, fname), []byte(sb.String()), 0o644); err != nil {
			panic(err)
		}
		entries = append(entries, fname)
		if i%2 == 1 {
			entries = append(entries, "MemcpyDtoH,0x00007fb0fc430e00,4", "MemcpyHtoD,0x00007fb0fc430e00,4")
		}
	}
	entries = append(entries, "MemcpyDtoH,0x00007fb0fc400000,200000")
	text := strings.Join(entries, eolList+sep)
	if c.FileStyle != 3 {
		text += eolList
	}
	if err := os.WriteFile(filepath.Join(dir, "kernelslist.g"), []byte(text), 0o644); err != nil {
		panic(err)
	}
	return new(benchmark.BenchmarkBuilder).WithTraceDirectory(dir).Build()
}

var fieldNames = [4][5]string{
	// unfinished, finished, undispatched, free, total
	{"unfinishedKernelsCount", "", "undispatchedKernels", "freeDevices", ""},
	{"unfinishedThreadblocksCount", "finishedKernelsCount", "undispatchedThreadblocks", "freeSMs", ""},
	{"unfinishedWarpsCount", "finishedThreadblocksCount", "undispatchedWarps", "freeSubcores", "warpsCount"},
	{"unfinishedInstsCount", "finishedWarpsCount", "", "", "instsCount"},
}

func (w *world) state(i int) NodeState {
	n := w.nodes[i]
	f := fieldNames[n.kind]
	st := NodeState{Free: []int{}, Bufs: []int{0, 0, 0, 0}}
	st.Unfin = fld(n.obj, f[0]).Int()
	if f[1] != "" {
		st.Fin = fld(n.obj, f[1]).Int()
	}
	if f[2] != "" {
		st.Undisp = fld(n.obj, f[2]).Len()
	}
	if f[3] != "" {
		fl := fld(n.obj, f[3])
		for k := 0; k < fl.Len(); k++ {
			idx, ok := w.byPtr[fl.Index(k).Pointer()]
			if !ok {
				panic("verif harness: unknown unit in a free list")
			}
			st.Free = append(st.Free, idx)
		}
	}
	if f[4] != "" {
		st.Total = fld(n.obj, f[4]).Int()
	}
	if n.up != nil {
		st.Bufs[0], st.Bufs[1] = bufSizes(n.up)
	}
	if n.dn != nil {
		st.Bufs[2], st.Bufs[3] = bufSizes(n.dn)
	}
	return st
}

func enc(v int64) uint64 { return uint64(v + 1000) }

// digest of a component; the same polynomial is evaluated by the model (NvSim.node_digest)
func (w *world) digest(i int) uint64 {
	st := w.state(i)
	h := uint64(0)
	for _, x := range []uint64{enc(st.Unfin), enc(st.Fin), uint64(st.Undisp), uint64(len(st.Free)), enc(st.Total),
		uint64(st.Bufs[0]), uint64(st.Bufs[1]), uint64(st.Bufs[2]), uint64(st.Bufs[3])} {
		h = h*41 + x
	}
	for _, x := range st.Free {
		h = h*41 + uint64(x)
	}
	return h
}

// digest after a connection tick: buffers of the parent and of every child
func (w *world) connDigest(p int) uint64 {
	st := w.state(p)
	h := uint64(st.Bufs[2])*41 + uint64(st.Bufs[3])
	for _, k := range w.nodes[p].kids {
		in, out := bufSizes(w.nodes[k].up)
		h = h*41 + uint64(in)
		h = h*41 + uint64(out)
	}
	return h
}

type recorder struct {
	w        *world
	c        *SimCase
	lastComp sim.VTimeInSec
	count    int
}

func (r *recorder) Func(ctx sim.HookCtx) {
	evt, ok := ctx.Item.(sim.Event)
	if !ok {
		return
	}
	h, _ := evt.Handler().(*sim.TickingComponent)
	switch ctx.Pos {
	case sim.HookPosBeforeEvent:
		r.count++
		if r.count > maxEvents {
			panic(abortRun{})
		}
		if i, ok := r.w.byTC[h]; ok {
			if evt.Time() > r.lastComp {
				r.c.Events = append(r.c.Events, 0)
				r.lastComp = evt.Time()
			}
			r.c.Events = append(r.c.Events, 2*i+1)
		} else if i, ok := r.w.byConn[h]; ok {
			r.c.Events = append(r.c.Events, 2*i+2)
		} else {
			panic("verif harness: event for an unknown handler")
		}
	case sim.HookPosAfterEvent:
		if i, ok := r.w.byTC[h]; ok {
			r.c.Obs = append(r.c.Obs, r.w.digest(i))
		} else if i, ok := r.w.byConn[h]; ok {
			r.c.Obs = append(r.c.Obs, r.w.connDigest(i))
		}
	}
}

func runSim(c *SimCase) {
	c.Events, c.Obs, c.Final, c.Kids = []int{}, []uint64{}, nil, nil
	c.Timeout, c.Crash = false, ""
	c.KernelsRun, c.BlocksRun = 0, 0
	var w *world
	var r *runner.Runner
	func() { // loading the trace directory runs the real reader, which panics on files it rejects
		defer func() {
			if e := recover(); e != nil {
				msg := fmt.Sprint(e)
				if le, ok := e.(*log.Entry); ok {
					msg = le.Message
				}
				c.Crash = "while loading the trace directory: " + msg
			}
		}()
		w, r = buildWorld(c)
	}()
	if w == nil {
		c.Kids, c.Final = [][]int{}, []NodeState{}
		c.Coq = coqSim(c)
		return
	}
	for _, n := range w.nodes {
		k := n.kids
		if k == nil {
			k = []int{}
		}
		c.Kids = append(c.Kids, k)
	}
	rec := &recorder{w: w, c: c}
	r.Engine().AcceptHook(rec)
	func() {
		defer func() {
			if e := recover(); e != nil {
				if _, ok := e.(abortRun); ok {
					c.Timeout = true
				} else {
					c.Crash = fmt.Sprint(e)
				}
			}
		}()
		r.Run()
	}()
	c.NEvents = rec.count
	for i := range w.nodes {
		c.Final = append(c.Final, w.state(i))
	}
	c.Unfinished = c.Final[0].Unfin
	c.Coq = coqSim(c)
}

func coqNats(xs []int) string {
	s := make([]string, len(xs))
	for i, x := range xs {
		s[i] = strconv.Itoa(x)
	}
	return "[" + strings.Join(s, ";") + "]"
}

func coqSim(c *SimCase) string {
	kids := make([]string, len(c.Kids))
	for i, k := range c.Kids {
		kids[i] = coqNats(k)
	}
	ks := make([]string, len(c.Kernels))
	for i, k := range c.Kernels {
		bs := make([]string, len(k))
		for j, b := range k {
			ws := make([]string, len(b))
			for l, n := range b {
				ws[l] = strconv.FormatInt(n, 10)
			}
			bs[j] = "[" + strings.Join(ws, ";") + "]"
		}
		ks[i] = "[" + strings.Join(bs, ";") + "]"
	}
	obs := make([]string, len(c.Obs))
	for i, o := range c.Obs {
		obs[i] = strconv.FormatUint(o, 10)
	}
	fin := make([]string, len(c.Final))
	for i := range c.Final {
		st := c.Final[i]
		h := uint64(0)
		for _, x := range []uint64{enc(st.Unfin), enc(st.Fin), uint64(st.Undisp), uint64(len(st.Free)), enc(st.Total),
			uint64(st.Bufs[0]), uint64(st.Bufs[1]), uint64(st.Bufs[2]), uint64(st.Bufs[3])} {
			h = h*41 + x
		}
		for _, x := range st.Free {
			h = h*41 + uint64(x)
		}
		fin[i] = strconv.FormatUint(h, 10)
	}
	stopped := !c.Timeout && c.Crash == ""
	return fmt.Sprintf("mkcase ([%s])%%nat [%s] (%s)%%nat [%s] [%s] %s",
		strings.Join(kids, ";"), strings.Join(ks, ";"), coqNats(c.Events),
		strings.Join(obs, ";"), strings.Join(fin, ";"), vh.CoqBool(stopped))
}

// ---- generation

// kernel shapes: nk kernels, each with nbLo..nbHi thread blocks of nwLo..nwHi warps
func genKernels(rng *vh.Rng, degenerate bool, nkMax, nbLo, nbHi, nwLo, nwHi int) [][][]int64 {
	nk := 1 + rng.Intn(nkMax)
	ks := make([][][]int64, 0, nk)
	for i := 0; i < nk; i++ {
		nb := nbLo + rng.Intn(nbHi-nbLo+1)
		if degenerate && rng.Intn(6) == 0 {
			nb = 0
		}
		k := make([][]int64, 0, nb)
		for j := 0; j < nb; j++ {
			nw := nwLo + rng.Intn(nwHi-nwLo+1)
			if degenerate && rng.Intn(5) == 0 {
				nw = 0
			}
			b := make([]int64, 0, nw)
			for l := 0; l < nw; l++ {
				n := int64(1 + rng.Intn(4))
				if rng.Intn(4) == 0 {
					n = int64(1 + rng.Intn(9))
				}
				if degenerate && rng.Intn(4) == 0 {
					n = 0
				}
				b = append(b, n)
			}
			k = append(k, b)
		}
		ks = append(ks, k)
	}
	return ks
}

// Platform shapes: devices 1-4, SMs per device 1-8, sub-cores per SM 1-8.
// Profiles (by case number) keep the total number of units moderate while
// reaching every dimension's extremes:
//   small : 1-3 x 1-4 x 1-4, 1-3 kernels of 1-4 blocks of 1-5 warps
//   wide  : 1-2 devices, 1-2 SMs, 5-8 sub-cores; blocks of 5-12 warps, more
//           blocks than SMs (more warps at once than the 4-deep port buffer holds)
//   many  : 1-4 devices, 5-8 SMs, 1-3 sub-cores; 9-14 small blocks per kernel
//           (more blocks than SMs, more SMs than the GPU's port buffer holds)
//   mixed : devices 1-4 with independent 1-8 / 1-8 shapes (thorough tier sizes)
func genCase(rng *vh.Rng, i int) *SimCase {
	c := &SimCase{}
	degenerate := i%3 == 1
	switch {
	case i%4 == 1 || i%4 == 2 && i%8 != 2: // wide (3 of 8)
		ng := 1 + rng.Intn(2)
		for g := 0; g < ng; g++ {
			c.GPUs = append(c.GPUs, GPUShape{SMs: 1 + rng.Intn(2), Subs: 5 + rng.Intn(4)})
		}
		c.Kernels = genKernels(rng, degenerate, 2, 2, 5, 5, 12)
		c.Tag = "wide"
	case i%8 == 2 || i%8 == 7: // many SMs (2 of 8)
		ng := 1 + rng.Pick(4, 3, 2, 1)
		for g := 0; g < ng; g++ {
			c.GPUs = append(c.GPUs, GPUShape{SMs: 5 + rng.Intn(4), Subs: 1 + rng.Intn(3)})
		}
		c.Kernels = genKernels(rng, degenerate, 2, 9, 14, 1, 3)
		c.Tag = "many"
	case i%16 == 3: // mixed, anything up to 4 x 8 x 8
		ng := 1 + rng.Intn(4)
		for g := 0; g < ng; g++ {
			c.GPUs = append(c.GPUs, GPUShape{SMs: 1 + rng.Intn(8), Subs: 1 + rng.Intn(8)})
		}
		c.Kernels = genKernels(rng, degenerate, 3, 1, 10, 1, 12)
		c.Tag = "mixed"
	default: // small
		ng := 1 + rng.Pick(5, 3, 2)
		for g := 0; g < ng; g++ {
			c.GPUs = append(c.GPUs, GPUShape{SMs: 1 + rng.Intn(4), Subs: 1 + rng.Intn(4)})
		}
		big := i%7 == 3
		if big {
			c.Kernels = genKernels(rng, degenerate, 3, 2, 7, 3, 8)
		} else {
			c.Kernels = genKernels(rng, degenerate, 3, 1, 4, 1, 5)
		}
	}
	if rng.Intn(3) == 0 { // uniform shape
		for g := range c.GPUs {
			c.GPUs[g] = c.GPUs[0]
		}
	}
	c.Freq = "hz"
	if rng.Bool() {
		c.Freq = "ghz"
	}
	if i%8 == 6 { // as many kernels as devices, finishing in the same cycle: the driver's queue is empty when the reports arrive
		ng := 2 + rng.Intn(3)
		c.GPUs = nil
		for g := 0; g < ng; g++ {
			c.GPUs = append(c.GPUs, GPUShape{SMs: 1 + rng.Intn(2), Subs: 1 + rng.Intn(2)})
		}
		base := int64(3 + rng.Intn(4))
		c.Kernels = nil
		for j := 0; j < ng+rng.Intn(2); j++ {
			n := base + int64(ng-1-j%ng)
			if rng.Intn(5) == 0 {
				n += int64(rng.Intn(3)) - 1
			}
			c.Kernels = append(c.Kernels, [][]int64{{n}})
		}
		c.Tag = "stagger"
	}
	if i%5 == 4 { // the kernel list of an iterative application, loaded from trace files
		c.ViaFiles = true
		for len(c.Kernels) < 4 {
			c.Kernels = append(c.Kernels, genKernels(rng, degenerate, 1, 1, 3, 1, 4)...)
		}
		c.FileStyle = rng.Intn(4)
		switch rng.Intn(4) {
		case 0: // lines between 1000 bytes and just below bufio.Scanner's 64 KiB limit
			c.NameLen = []int{1000, 1024, 1100, 4096, 20000, 60000}[rng.Intn(6)]
		case 1:
			c.InstAddrs = []int{60, 64, 200, 1000, 3000}[rng.Intn(5)]
		}
	}
	if i%11 == 5 { // many sub-cores reporting at once: fills the SM's 4-deep buffer
		c.GPUs = []GPUShape{{SMs: 1 + rng.Intn(2), Subs: 4}}
		c.Kernels = [][][]int64{{{2, 2, 2, 2, 2, 2, 2, 2}, {1, 1, 1, 1}}}
		c.Tag = "full"
	}
	return c
}

func simMain(args []string) int {
	fs := flag.NewFlagSet("sim", flag.ExitOnError)
	seed := fs.Uint64("seed", 1, "seed")
	n := fs.Int("n", 50, "number of generated cases")
	out := fs.String("out", "", "output file")
	replay := fs.String("replay", "", "JSON list of cases to run instead of generating")
	_ = fs.Parse(args)
	log.SetOutput(io.Discard)
	log.SetLevel(log.PanicLevel)
	// the driver prints the finishing time on stdout; keep our stdout clean
	devnull, _ := os.OpenFile(os.DevNull, os.O_WRONLY, 0)
	stdout := os.Stdout
	os.Stdout = devnull
	var cases []*SimCase
	if *replay != "" {
		data, err := os.ReadFile(*replay)
		if err != nil {
			fmt.Fprintln(os.Stderr, err)
			return 2
		}
		if err := json.Unmarshal(data, &cases); err != nil {
			fmt.Fprintln(os.Stderr, err)
			return 2
		}
	} else {
		rng := vh.NewRng(*seed)
		for i := 0; i < *n; i++ {
			cases = append(cases, genCase(rng.Fork(), i))
		}
	}
	for _, c := range cases {
		runSim(c)
	}
	os.Stdout = stdout
	data, _ := json.Marshal(cases)
	if *out == "" {
		fmt.Println(string(data))
	} else if err := os.WriteFile(*out, data, 0o644); err != nil {
		fmt.Fprintln(os.Stderr, err)
		return 2
	}
	return 0
}
