package main

// Sub-command "trace": writes randomly generated kernel structures as
// accel-sim trace directories (kernelslist.g + kernel-1.traceg, laid out like
// nvidia/data/simple-trace-example), reads them back with the real
// tracereader and records what the reader returned, as JSON and as a Coq term
// for VNv.NvTrace.trace_mismatches.
//
// Three streams: "valid" (everything fits the reader's field widths and the
// register table), "wide" (values beyond the field widths / registers outside
// the table: model validation only) and "lines" (a valid file with lines
// deleted, duplicated, swapped, truncated ...: the scanner state machine).

import (
	"encoding/json"
	"flag"
	"fmt"
	"io"
	"os"
	"path/filepath"
	"reflect"
	"strings"

	log "github.com/sirupsen/logrus"

	"github.com/sarchlab/mgpusim/v4/nvidia/nvidiaconfig"
	"github.com/sarchlab/mgpusim/v4/nvidia/tracereader"

	"verifharness/vh"
)

// ---------------------------------------------------------------- structure

type trMem struct {
	Width  int64    `json:"width"`
	Mode   int      `json:"mode"` // 0 list, 1 base+stride, 2 base+deltas
	Addrs  []uint64 `json:"addrs,omitempty"`
	Base   uint64   `json:"base"`
	Stride int64    `json:"stride"`
	Deltas []int64  `json:"deltas,omitempty"`
}

type trInst struct {
	PC    uint64  `json:"pc"`
	Mask  uint64  `json:"mask"`
	Dests []int64 `json:"dests"`
	Op    string  `json:"op"`
	Srcs  []int64 `json:"srcs"`
	Mem   *trMem  `json:"mem"` // nil: width 0
	Imm   int64   `json:"imm"`
}

type trWarp struct {
	ID    int64    `json:"id"`
	Insts []trInst `json:"insts"`
}

type trBlock struct {
	ID    [3]int64 `json:"id"`
	Warps []trWarp `json:"warps"`
}

type trHeader struct {
	Name      string   `json:"name"`
	KernelID  int64    `json:"kid"`
	Grid      [3]int64 `json:"grid"`
	Block     [3]int64 `json:"block"`
	Shmem     int64    `json:"shmem"`
	Nregs     int64    `json:"nregs"`
	BinVer    int64    `json:"binver"`
	Stream    int64    `json:"stream"`
	ShBase    int64    `json:"shbase"`
	LocalBase int64    `json:"localbase"`
	Nvbit     string   `json:"nvbit"`
	Tracer    string   `json:"tracer"`
	LineInfo  bool     `json:"lineinfo"`
}

// trLine is one line of the file by class (see VNv.NvTrace.line).
type trLine struct {
	T    string   `json:"t"` // hdr blank other tb warp insts inst
	Key  string   `json:"key,omitempty"`
	VK   string   `json:"vk,omitempty"` // str int dim addr
	VS   string   `json:"vs,omitempty"`
	VN   [3]int64 `json:"vn,omitempty"`
	N    [3]int64 `json:"n,omitempty"`
	Toks []string `json:"toks,omitempty"`
}

type trKernel struct {
	Header trHeader  `json:"header"`
	Blocks []trBlock `json:"blocks"`
	// Lines, when present, is the file that is written instead of the
	// serialisation of Header/Blocks (hostile stream).
	Lines []trLine `json:"lines,omitempty"`
	// Layout, when present (and Lines absent), selects how Header/Blocks are
	// laid out in the file (markers, blank and comment lines); the kernel is
	// still a serialised structure and the full monitor applies.
	Layout *trLayout `json:"layout,omitempty"`
	Tag    string    `json:"tag,omitempty"`
	// Group > 0: consecutive cases with the same Group are the kernel files of
	// ONE trace directory (kernel-1..kernel-GSize with Memcpy lines in
	// between), read one after another by one TraceReader in this process.
	Group int `json:"group,omitempty"`
	GPos  int `json:"gpos,omitempty"`
	GSize int `json:"gsize,omitempty"`
}

// trLayout: where the optional lines of the format go.  Patterns are cycled
// (by block index, running warp counter or running instruction counter); an
// empty pattern means 0.  Comment lines are only put where the reader skips
// to a keyword: before a `thread block` line, between `warp =` and `insts =`,
// after a block's last warp and at the end of the file.
type trLayout struct {
	Format       bool  `json:"format,omitempty"`    // `#traces format ...` line after the header
	Begin        bool  `json:"begin,omitempty"`     // #BEGIN_TB before each thread block line
	End          bool  `json:"end,omitempty"`       // #END_TB after each block's last warp
	HdrBlanks    int   `json:"hdrblanks,omitempty"` // blank lines right after the header lines
	PreTb        []int `json:"pretb,omitempty"`     // blanks just before the thread block line
	AfterTb      []int `json:"aftertb,omitempty"`   // blanks after the thread block line
	WarpComments []int `json:"warpcomments,omitempty"`
	InstGaps     []int `json:"instgaps,omitempty"`  // blanks before each instruction line
	AfterWarp    []int `json:"afterwarp,omitempty"` // blanks after a warp's instructions
	PostTb       []int `json:"posttb,omitempty"`    // comment lines after a block's last warp
	Tail         int   `json:"tail,omitempty"`      // comment lines at the end of the file
}

// ---------------------------------------------------------------- observation

type trPReg struct {
	ID   int64  `json:"id"`
	Text string `json:"text"`
	Zero bool   `json:"zero"`
}

type trPInst struct {
	TB       [3]int64 `json:"tb"`
	Warp     int64    `json:"warp"`
	PC       int64    `json:"pc"`
	Mask     int64    `json:"mask"`
	DestNum  int64    `json:"destnum"`
	Dests    []trPReg `json:"dests"`
	Op       *string  `json:"op"`
	OpType   int64    `json:"optype"`
	VarType  int64    `json:"vartype"`
	SrcNum   int64    `json:"srcnum"`
	Srcs     []trPReg `json:"srcs"`
	MemWidth int64    `json:"memwidth"`
	Compress int64    `json:"compress"`
	MemAddr  int64    `json:"memaddr"`
	Addrs    []int64  `json:"addrs"`
	Suffix1  int64    `json:"suffix1"`
	Suffix2  []int64  `json:"suffix2"`
	Imm      int64    `json:"imm"`
}

type trPWarp struct {
	ID    int64     `json:"id"`
	Count int64     `json:"count"`
	Insts []trPInst `json:"insts"`
}

type trPBlock struct {
	ID    [3]int64  `json:"id"`
	Warps []trPWarp `json:"warps"`
}

type trParsed struct {
	Header trHeader   `json:"header"`
	Blocks []trPBlock `json:"blocks"`
	// TbIndex[i] is tbIDToIndex[id of block i]
	TbIndex []int64 `json:"tbindex"`
	Kernels int     `json:"kernels"` // number of kernel entries in kernelslist.g
}

type trCase struct {
	Kernel trKernel  `json:"kernel"`
	Parsed *trParsed `json:"parsed"`
	Crash  bool      `json:"crash"`
	Panic  string    `json:"panic,omitempty"`
	// Reparse: reading the same file a second time, after all other files of
	// the directory, gave the same structure (absent = true)
	ReparseDiffers bool   `json:"reparse_differs,omitempty"`
	Coq            string `json:"coq"`
}

// ---------------------------------------------------------------- printing

func trInstToks(in *trInst) []string {
	t := []string{fmt.Sprintf("%04x", in.PC), fmt.Sprintf("%08x", in.Mask), fmt.Sprintf("%d", len(in.Dests))}
	for _, r := range in.Dests {
		t = append(t, fmt.Sprintf("R%d", r))
	}
	t = append(t, in.Op, fmt.Sprintf("%d", len(in.Srcs)))
	for _, r := range in.Srcs {
		t = append(t, fmt.Sprintf("R%d", r))
	}
	if in.Mem == nil {
		t = append(t, "0")
	} else {
		m := in.Mem
		t = append(t, fmt.Sprintf("%d", m.Width), fmt.Sprintf("%d", m.Mode))
		switch m.Mode {
		case 0:
			for _, a := range m.Addrs {
				t = append(t, fmt.Sprintf("0x%x", a))
			}
		case 1:
			t = append(t, fmt.Sprintf("0x%x", m.Base), fmt.Sprintf("%d", m.Stride))
		default:
			t = append(t, fmt.Sprintf("0x%x", m.Base))
			for _, d := range m.Deltas {
				t = append(t, fmt.Sprintf("%d", d))
			}
		}
	}
	return append(t, fmt.Sprintf("%d", in.Imm))
}

func trHdr(key, vk, vs string, vn ...int64) trLine {
	l := trLine{T: "hdr", Key: key, VK: vk, VS: vs}
	copy(l.VN[:], vn)
	return l
}

func trB2i(b bool) int64 {
	if b {
		return 1
	}
	return 0
}

// trKernelLines mirrors VNv.NvTrace.print_kernel.
func trKernelLines(k *trKernel) []trLine {
	h := &k.Header
	ls := []trLine{
		trHdr("kernel name", "str", h.Name),
		trHdr("kernel id", "int", "", h.KernelID),
		trHdr("grid dim", "dim", "", h.Grid[:]...),
		trHdr("block dim", "dim", "", h.Block[:]...),
		trHdr("shmem", "int", "", h.Shmem),
		trHdr("nregs", "int", "", h.Nregs),
		trHdr("binary version", "int", "", h.BinVer),
		trHdr("cuda stream id", "int", "", h.Stream),
		trHdr("shmem base_addr", "addr", "", h.ShBase),
		trHdr("local mem base_addr", "addr", "", h.LocalBase),
		trHdr("nvbit version", "str", h.Nvbit),
		trHdr("accelsim tracer version", "str", h.Tracer),
		trHdr("enable lineinfo", "int", "", trB2i(h.LineInfo)),
		{T: "blank"},
		{T: "other", Toks: strings.Fields("#traces format = [line_num] PC mask dest_num [reg_dests] opcode src_num [reg_srcs] mem_width [adrrescompress?] [mem_addresses] immediate")},
		{T: "blank"}, {T: "blank"}, {T: "blank"},
	}
	for bi := range k.Blocks {
		b := &k.Blocks[bi]
		ls = append(ls, trLine{T: "other", Toks: []string{"#BEGIN_TB"}}, trLine{T: "blank"},
			trLine{T: "tb", N: b.ID}, trLine{T: "blank"})
		for wi := range b.Warps {
			w := &b.Warps[wi]
			ls = append(ls, trLine{T: "warp", N: [3]int64{w.ID}}, trLine{T: "insts", N: [3]int64{int64(len(w.Insts))}})
			for ii := range w.Insts {
				ls = append(ls, trLine{T: "inst", Toks: trInstToks(&w.Insts[ii])})
			}
			ls = append(ls, trLine{T: "blank"})
		}
		ls = append(ls, trLine{T: "other", Toks: []string{"#END_TB"}}, trLine{T: "blank"})
	}
	return ls
}

func trCyc(p []int, i int) int {
	if len(p) == 0 {
		return 0
	}
	return p[i%len(p)]
}

func trRep(ls []trLine, n int, l trLine) []trLine {
	for i := 0; i < n; i++ {
		ls = append(ls, l)
	}
	return ls
}

// trLayoutLines: the lines of the kernel in the given layout.
func trLayoutLines(k *trKernel, lay *trLayout) []trLine {
	blank := trLine{T: "blank"}
	comment := trLine{T: "other", Toks: []string{"#", "c"}}
	ls := trKernelLines(&trKernel{Header: k.Header})[:13]
	ls = trRep(ls[:13:13], lay.HdrBlanks, blank)
	if lay.Format {
		ls = append(ls, trLine{T: "other", Toks: strings.Fields("#traces format = [line_num] PC mask dest_num [reg_dests] opcode src_num [reg_srcs] mem_width [adrrescompress?] [mem_addresses] immediate")})
	}
	wc, ic := 0, 0
	for bi := range k.Blocks {
		b := &k.Blocks[bi]
		if lay.Begin {
			ls = append(ls, trLine{T: "other", Toks: []string{"#BEGIN_TB"}})
		}
		ls = trRep(ls, trCyc(lay.PreTb, bi), blank)
		ls = append(ls, trLine{T: "tb", N: b.ID})
		ls = trRep(ls, trCyc(lay.AfterTb, bi), blank)
		for wi := range b.Warps {
			w := &b.Warps[wi]
			ls = append(ls, trLine{T: "warp", N: [3]int64{w.ID}})
			ls = trRep(ls, trCyc(lay.WarpComments, wc), comment)
			ls = append(ls, trLine{T: "insts", N: [3]int64{int64(len(w.Insts))}})
			for ii := range w.Insts {
				ls = trRep(ls, trCyc(lay.InstGaps, ic), blank)
				ls = append(ls, trLine{T: "inst", Toks: trInstToks(&w.Insts[ii])})
				ic++
			}
			ls = trRep(ls, trCyc(lay.AfterWarp, wc), blank)
			wc++
		}
		if lay.End {
			ls = append(ls, trLine{T: "other", Toks: []string{"#END_TB"}})
		}
		ls = trRep(ls, trCyc(lay.PostTb, bi), comment)
	}
	return trRep(ls, lay.Tail, comment)
}

// trFileLines: the lines written for the kernel of a case.
func trFileLines(k *trKernel) []trLine {
	if k.Lines != nil {
		return k.Lines
	}
	if k.Layout != nil {
		return trLayoutLines(k, k.Layout)
	}
	return trKernelLines(k)
}

func trValText(l *trLine) string {
	switch l.VK {
	case "int":
		return fmt.Sprintf("%d", l.VN[0])
	case "dim":
		return fmt.Sprintf("(%d,%d,%d)", l.VN[0], l.VN[1], l.VN[2])
	case "addr":
		return fmt.Sprintf("0x%016x", uint64(l.VN[0]))
	}
	return l.VS
}

func trLineText(l *trLine) string {
	switch l.T {
	case "hdr":
		return "-" + l.Key + " = " + trValText(l)
	case "other":
		return strings.Join(l.Toks, " ")
	case "tb":
		return fmt.Sprintf("thread block = %d,%d,%d", l.N[0], l.N[1], l.N[2])
	case "warp":
		return fmt.Sprintf("warp = %d", l.N[0])
	case "insts":
		return fmt.Sprintf("insts = %d", l.N[0])
	case "inst":
		if len(l.Toks) == 0 {
			return ""
		}
		return strings.Join(l.Toks, " ") + " "
	}
	return ""
}

// ---------------------------------------------------------------- Coq terms

func trZ(v int64) string {
	if v < 0 {
		return fmt.Sprintf("(%d)", v)
	}
	return fmt.Sprintf("%d", v)
}

func trZs(vs []int64) string {
	s := make([]string, len(vs))
	for i, v := range vs {
		s[i] = fmt.Sprintf("%d", v)
	}
	return "[" + strings.Join(s, ";") + "]"
}

func trZsNeg(vs []int64) string {
	s := make([]string, len(vs))
	for i, v := range vs {
		s[i] = trZ(v)
	}
	return "[" + strings.Join(s, ";") + "]"
}

func trUs(vs []uint64) string {
	s := make([]string, len(vs))
	for i, v := range vs {
		s[i] = fmt.Sprintf("%d", v)
	}
	return "[" + strings.Join(s, ";") + "]"
}

func trStr(s string) string { return "\"" + strings.ReplaceAll(s, "\"", "\"\"") + "\"" }

func trStrs(ss []string) string {
	t := make([]string, len(ss))
	for i, s := range ss {
		t[i] = trStr(s)
	}
	return "[" + strings.Join(t, ";") + "]"
}

func trDim(d [3]int64) string { return fmt.Sprintf("(%s,%s,%s)", trZ(d[0]), trZ(d[1]), trZ(d[2])) }

func trCoqInst(in *trInst) string {
	mem := "None"
	if m := in.Mem; m != nil {
		switch m.Mode {
		case 0:
			mem = fmt.Sprintf("(Some (%s,MList %s))", trZ(m.Width), trUs(m.Addrs))
		case 1:
			mem = fmt.Sprintf("(Some (%s,MStride %d %s))", trZ(m.Width), m.Base, trZ(m.Stride))
		default:
			mem = fmt.Sprintf("(Some (%s,MDelta %d %s))", trZ(m.Width), m.Base, trZs(m.Deltas))
		}
	}
	return fmt.Sprintf("I %d %d %s %s %s %s %s", in.PC, in.Mask, trZs(in.Dests), trStr(in.Op), trZs(in.Srcs), mem, trZ(in.Imm))
}

func trCoqHeader(h *trHeader) string {
	return fmt.Sprintf("(H %s %s %s %s %s %s %s %s %s %s %s %s %s)", trStr(h.Name), trZ(h.KernelID), trDim(h.Grid), trDim(h.Block),
		trZ(h.Shmem), trZ(h.Nregs), trZ(h.BinVer), trZ(h.Stream), trZ(h.ShBase), trZ(h.LocalBase),
		trStr(h.Nvbit), trStr(h.Tracer), vh.CoqBool(h.LineInfo))
}

func trCoqKernel(k *trKernel) string {
	bs := make([]string, len(k.Blocks))
	for bi := range k.Blocks {
		b := &k.Blocks[bi]
		ws := make([]string, len(b.Warps))
		for wi := range b.Warps {
			w := &b.Warps[wi]
			is := make([]string, len(w.Insts))
			for ii := range w.Insts {
				is[ii] = trCoqInst(&w.Insts[ii])
			}
			ws[wi] = fmt.Sprintf("W %s [%s]", trZ(w.ID), strings.Join(is, ";\n "))
		}
		bs[bi] = fmt.Sprintf("B %s [%s]", trDim(b.ID), strings.Join(ws, ";\n "))
	}
	return fmt.Sprintf("(K %s [%s])", trCoqHeader(&k.Header), strings.Join(bs, ";\n "))
}

func trCoqLine(l *trLine) string {
	switch l.T {
	case "hdr":
		v := "HStr " + trStr(l.VS)
		switch l.VK {
		case "int":
			v = "HInt " + trZ(l.VN[0])
		case "dim":
			v = fmt.Sprintf("HDim %s %s %s", trZ(l.VN[0]), trZ(l.VN[1]), trZ(l.VN[2]))
		case "addr":
			v = "HAddr " + trZ(l.VN[0])
		}
		return fmt.Sprintf("LHeader %s (%s)", trStrs(strings.Fields(l.Key)), v)
	case "other":
		return "LOther " + trStrs(l.Toks)
	case "tb":
		return fmt.Sprintf("LTb %s %s %s", trZ(l.N[0]), trZ(l.N[1]), trZ(l.N[2]))
	case "warp":
		return "LWarp " + trZ(l.N[0])
	case "insts":
		return "LInsts " + trZ(l.N[0])
	case "inst":
		return "LInst " + trStrs(l.Toks)
	}
	return "LBlank"
}

func trCoqRegs(rs []trPReg) string {
	s := make([]string, len(rs))
	for i, r := range rs {
		s[i] = fmt.Sprintf("%d", r.ID)
	}
	return "[" + strings.Join(s, ";") + "]"
}

func trCoqObs(p *trParsed, crash bool) string {
	if crash || p == nil {
		return "OCrash"
	}
	bs := make([]string, len(p.Blocks))
	for bi := range p.Blocks {
		b := &p.Blocks[bi]
		ws := make([]string, len(b.Warps))
		for wi := range b.Warps {
			w := &b.Warps[wi]
			is := make([]string, len(w.Insts))
			for ii := range w.Insts {
				q := &w.Insts[ii]
				op := "None"
				if q.Op != nil {
					op = "(Some " + trStr(*q.Op) + ")"
				}
				is[ii] = fmt.Sprintf("P %s %s %s %s %s %s %s %s %s %s %s %s %s %s %s %s", trDim(q.TB), trZ(q.Warp), trZ(q.PC), trZ(q.Mask),
					trZ(q.DestNum), trCoqRegs(q.Dests), op, trZ(q.SrcNum), trCoqRegs(q.Srcs), trZ(q.MemWidth), trZ(q.Compress),
					trZ(q.MemAddr), trZsNeg(q.Addrs), trZ(q.Suffix1), trZs(q.Suffix2), trZ(q.Imm))
			}
			ws[wi] = fmt.Sprintf("(%s,%s,[%s])", trZ(w.ID), trZ(w.Count), strings.Join(is, ";\n "))
		}
		bs[bi] = fmt.Sprintf("(%s,[%s])", trDim(b.ID), strings.Join(ws, ";\n "))
	}
	return fmt.Sprintf("(OParsed %s [%s])", trCoqHeader(&p.Header), strings.Join(bs, ";\n "))
}

func trCoqCase(c *trCase) string {
	obs := trCoqObs(c.Parsed, c.Crash)
	if c.Kernel.Lines != nil || c.Kernel.Layout != nil {
		fl := trFileLines(&c.Kernel)
		ls := make([]string, len(fl))
		for i := range fl {
			ls[i] = trCoqLine(&fl[i])
		}
		return fmt.Sprintf("CL [%s]\n %s", strings.Join(ls, ";\n "), obs)
	}
	return fmt.Sprintf("CK %s\n %s", trCoqKernel(&c.Kernel), obs)
}

// ---------------------------------------------------------------- running the real reader

func trFld(obj interface{}, name string) reflect.Value {
	v := reflect.ValueOf(obj)
	for v.Kind() == reflect.Ptr {
		v = v.Elem()
	}
	return v.FieldByName(name)
}

func trDim3Of(v reflect.Value) [3]int64 {
	return [3]int64{v.Index(0).Int(), v.Index(1).Int(), v.Index(2).Int()}
}

func trRegs(rs []*nvidiaconfig.Register) []trPReg {
	out := make([]trPReg, len(rs))
	for i, r := range rs {
		out[i] = trPReg{ID: int64(r.ID()), Text: r.String(), Zero: r.IsZeroRegister()}
	}
	return out
}

func trD3(d nvidiaconfig.Dim3) [3]int64 { return [3]int64{int64(d[0]), int64(d[1]), int64(d[2])} }

func trReadBack(t *tracereader.KernelTrace) *trParsed {
	fh := &t.FileHeader
	p := &trParsed{Header: trHeader{
		Name: fh.KernelName, KernelID: int64(fh.KernelID), Grid: trD3(fh.GridDim), Block: trD3(fh.BlockDim),
		Shmem: int64(fh.Shmem), Nregs: int64(fh.Nregs), BinVer: int64(fh.BinaryVersion), Stream: int64(fh.CudaStreamID),
		ShBase: fh.ShmemBaseAddr, LocalBase: fh.LocalMemBaseAddr, Nvbit: fh.NvbitVersion, Tracer: fh.AccelsimTracerVersion,
		LineInfo: fh.EnableLineinfo,
	}, Blocks: []trPBlock{}, TbIndex: []int64{}}
	index := trFld(t, "tbIDToIndex")
	for i := int64(0); i < t.ThreadblocksCount(); i++ {
		tb := t.Threadblock(i)
		idv := trFld(tb, "id")
		pb := trPBlock{ID: trDim3Of(idv), Warps: []trPWarp{}}
		if iv := index.MapIndex(idv); iv.IsValid() {
			p.TbIndex = append(p.TbIndex, iv.Int())
		} else {
			p.TbIndex = append(p.TbIndex, -1)
		}
		for j := int64(0); j < tb.WarpsCount(); j++ {
			w := tb.Warp(j)
			pw := trPWarp{ID: trFld(w, "id").Int(), Count: int64(w.InstsCount), Insts: []trPInst{}}
			for _, in := range w.Instructions {
				q := trPInst{
					TB: trDim3Of(trFld(in, "threadblockID")), Warp: trFld(in, "warpID").Int(),
					PC: int64(in.PC), Mask: in.Mask, DestNum: int64(in.DestNum), Dests: trRegs(in.DestRegs),
					SrcNum: int64(in.SrcNum), Srcs: trRegs(in.SrcRegs), MemWidth: int64(in.MemWidth),
					Compress: int64(in.AddressCompress), MemAddr: in.MemAddress, Suffix1: int64(in.MemAddressSuffix1),
					Addrs: []int64{}, Suffix2: []int64{}, Imm: in.Immediate,
				}
				if in.OpCode != nil {
					s := in.OpCode.String()
					q.Op = &s
					q.OpType = int64(in.OpCode.OpcodeType())
					q.VarType = int64(in.OpCode.VariableType())
				}
				// read by name: a tree without the field (reader before the repair) still builds
				// and shows up as a monitor violation instead of a broken harness
				if f := reflect.ValueOf(in).Elem().FieldByName("MemAddresses"); f.IsValid() {
					for k := 0; k < f.Len(); k++ {
						q.Addrs = append(q.Addrs, f.Index(k).Int())
					}
				}
				for _, d := range in.MemAddressSuffix2 {
					q.Suffix2 = append(q.Suffix2, int64(d))
				}
				pw.Insts = append(pw.Insts, q)
			}
			pb.Warps = append(pb.Warps, pw)
		}
		p.Blocks = append(p.Blocks, pb)
	}
	return p
}

// trRun writes the file of the case, runs the real reader on it and fills in
// the observation.
func trRun(c *trCase, tmp string, idx int) {
	lines := trFileLines(&c.Kernel)
	dir := filepath.Join(tmp, fmt.Sprintf("case%d", idx))
	if err := os.MkdirAll(dir, 0o755); err != nil {
		panic(err)
	}
	defer os.RemoveAll(dir)
	var sb strings.Builder
	for i := range lines {
		sb.WriteString(trLineText(&lines[i]))
		sb.WriteString("\n")
	}
	list := "MemcpyHtoD,0x00007fb0fc400000,200000\nMemcpyHtoD,0x00007fb0fc430e00,200000\nkernel-1.traceg\n"
	if err := os.WriteFile(filepath.Join(dir, "kernelslist.g"), []byte(list), 0o644); err != nil {
		panic(err)
	}
	if err := os.WriteFile(filepath.Join(dir, "kernel-1.traceg"), []byte(sb.String()), 0o644); err != nil {
		panic(err)
	}
	func() {
		defer func() {
			if r := recover(); r != nil {
				c.Crash = true
				c.Parsed = nil
				msg := fmt.Sprint(r)
				if e, ok := r.(*log.Entry); ok {
					msg = e.Message
				}
				if len(msg) > 200 {
					msg = msg[:200]
				}
				c.Panic = msg
			}
		}()
		rd := new(tracereader.TraceReaderBuilder).WithTraceDirectory(dir).Build()
		n := 0
		for _, m := range rd.GetExecMetas() {
			if m.ExecType() == nvidiaconfig.ExecKernel {
				tr := tracereader.ReadTrace(m)
				if n == 0 {
					c.Parsed = trReadBack(&tr)
				}
				n++
			}
		}
		if c.Parsed != nil {
			c.Parsed.Kernels = n
		}
	}()
	c.Coq = trCoqCase(c)
}

// trRunGroup writes the kernels of a group into one trace directory, reads
// them one after another with one TraceReader (as BenchmarkBuilder does), then
// reads every file a second time in reverse order: the reader must be a
// function of the file alone.
func trRunGroup(cs []*trCase, tmp string, idx int) {
	dir := filepath.Join(tmp, fmt.Sprintf("group%d", idx))
	if err := os.MkdirAll(dir, 0o755); err != nil {
		panic(err)
	}
	defer os.RemoveAll(dir)
	var list strings.Builder
	list.WriteString("MemcpyHtoD,0x00007fb0fc400000,200000\n")
	for j, c := range cs {
		lines := trFileLines(&c.Kernel)
		var sb strings.Builder
		for i := range lines {
			sb.WriteString(trLineText(&lines[i]))
			sb.WriteString("\n")
		}
		name := fmt.Sprintf("kernel-%d.traceg", j+1)
		if err := os.WriteFile(filepath.Join(dir, name), []byte(sb.String()), 0o644); err != nil {
			panic(err)
		}
		list.WriteString(name + "\n")
		if j%2 == 1 {
			list.WriteString("MemcpyDtoH,0x00007fb0fc430e00,4\nMemcpyHtoD,0x00007fb0fc430e00,4\n")
		}
	}
	list.WriteString("MemcpyDtoH,0x00007fb0fc400000,200000\n")
	if err := os.WriteFile(filepath.Join(dir, "kernelslist.g"), []byte(list.String()), 0o644); err != nil {
		panic(err)
	}
	cur := 0
	func() {
		defer func() {
			if r := recover(); r != nil {
				msg := fmt.Sprint(r)
				if e, ok := r.(*log.Entry); ok {
					msg = e.Message
				}
				if len(msg) > 200 {
					msg = msg[:200]
				}
				for j := cur; j < len(cs); j++ {
					if cs[j].Parsed == nil {
						cs[j].Crash = true
						cs[j].Panic = msg
					}
				}
			}
		}()
		rd := new(tracereader.TraceReaderBuilder).WithTraceDirectory(dir).Build()
		var metas []tracereader.TraceExecMeta
		for _, m := range rd.GetExecMetas() {
			if m.ExecType() == nvidiaconfig.ExecKernel {
				metas = append(metas, m)
			}
		}
		first := make([]string, len(cs))
		for j, m := range metas {
			if j >= len(cs) {
				break
			}
			cur = j
			tr := tracereader.ReadTrace(m)
			cs[j].Parsed = trReadBack(&tr)
			cs[j].Parsed.Kernels = len(metas)
			d, _ := json.Marshal(cs[j].Parsed)
			first[j] = string(d)
		}
		for j := len(cs) - 1; j >= 0 && j < len(metas); j-- {
			cur = len(cs)
			tr := tracereader.ReadTrace(metas[j])
			p := trReadBack(&tr)
			p.Kernels = len(metas)
			d, _ := json.Marshal(p)
			if string(d) != first[j] {
				cs[j].ReparseDiffers = true
			}
		}
	}()
	for _, c := range cs {
		c.Coq = trCoqCase(c)
	}
}

// trGenGroup: the kernel list of an iterative application: two kernels
// launched alternately with the same name and launch configuration every time
// but a different body each time (plus, at the end, one launch whose file is
// identical to the first).
func trGenGroup(rng *vh.Rng, gid int) []trCase {
	n := 3 + rng.Intn(3)
	a := trGenKernel(rng, false, true)
	b := trGenKernel(rng, false, true)
	b.Header.Grid, b.Header.Block = a.Header.Grid, a.Header.Block
	if rng.Bool() {
		b.Header.Name = a.Header.Name + "2"
	}
	var out []trCase
	for j := 0; j < n; j++ {
		var k trKernel
		switch {
		case j == 0:
			k = a
		case j == 1:
			k = b
		case j == n-1 && rng.Bool():
			k = a // the very same file again
			k.Blocks = append([]trBlock{}, a.Blocks...)
		default:
			k = trGenKernel(rng, false, true)
			if j%2 == 0 {
				k.Header = a.Header
			} else {
				k.Header = b.Header
			}
		}
		k.Header.KernelID = int64(j + 1)
		k.Tag, k.Group, k.GPos, k.GSize = "valid", gid, j, n
		out = append(out, trCase{Kernel: k})
	}
	return out
}

// ---------------------------------------------------------------- generation

var trOps = []string{"MOV", "S2R", "IMAD", "ISETP.GE.AND", "EXIT", "HFMA2.MMA", "ULDC.64", "IMAD.WIDE", "LDG.E", "FADD",
	"STG.E", "IMAD.MOV.U32", "DADD", "BRA", "BAR.SYNC", "LDS.U.128", "FFMA"}
var trNames = []string{"_Z9vectorAddPKfS0_Pfi", "_Z6kernelPf", "k", "_ZN3foo3barEv"}

func trReg(rng *vh.Rng) int64 {
	switch rng.Pick(6, 2, 1, 1) {
	case 0:
		return int64(rng.Intn(32))
	case 1:
		return int64(32 + rng.Intn(223))
	case 2:
		return 254
	}
	return 255
}

func trRegsGen(rng *vh.Rng) []int64 {
	n := rng.Intn(4)
	rs := make([]int64, n)
	for i := range rs {
		rs[i] = trReg(rng)
	}
	return rs
}

func trAddr(rng *vh.Rng) uint64 {
	switch rng.Pick(6, 2, 1, 1, 1) {
	case 0:
		return 0x7fb0fc000000 + uint64(rng.Intn(1<<22))*4
	case 1:
		return rng.U64() >> 1
	case 2:
		return 0
	case 3:
		return 0x7fffffffffffffff
	}
	return uint64(rng.Intn(4096))
}

func trI32(rng *vh.Rng) int64 {
	switch rng.Pick(5, 3, 1, 1, 2) {
	case 0:
		return int64(rng.Intn(64))
	case 1:
		return -int64(rng.Intn(4096)) - 1
	case 2:
		return 2147483647
	case 3:
		return -2147483648
	}
	return int64(int32(uint32(rng.U64())))
}

func trI64(rng *vh.Rng) int64 {
	switch rng.Pick(6, 3, 2, 1, 1, 2) {
	case 0:
		return 0
	case 1:
		return int64(rng.Intn(1000))
	case 2:
		return -int64(rng.Intn(1000)) - 1
	case 3:
		return 9223372036854775807
	case 4:
		return -9223372036854775808
	}
	return int64(rng.U64())
}

func trGenInst(rng *vh.Rng, idx int, wide bool) trInst {
	in := trInst{Dests: trRegsGen(rng), Srcs: trRegsGen(rng), Op: trOps[rng.Intn(len(trOps))]}
	switch rng.Pick(6, 2, 1, 1) {
	case 0:
		in.PC = uint64(idx) * 16
	case 1:
		in.PC = uint64(rng.Intn(1 << 20))
	case 2:
		in.PC = 0x7fffffff
	default:
		in.PC = rng.U64() >> 33
	}
	switch rng.Pick(6, 1, 3, 1, 1) {
	case 0:
		in.Mask = 0xffffffff
	case 1:
		in.Mask = 0
	case 2:
		in.Mask = rng.U64() >> 32
	case 3:
		in.Mask = rng.U64() >> 1
	default:
		in.Mask = 0x7fffffffffffffff
	}
	if rng.Pick(2, 3) == 1 {
		m := &trMem{Width: []int64{1, 2, 4, 8, 16}[rng.Intn(5)], Mode: rng.Intn(3)}
		if rng.Intn(8) == 0 {
			m.Width = []int64{2147483647, 3, 12, 255}[rng.Intn(4)]
		}
		switch m.Mode {
		case 0:
			n := rng.Intn(6)
			if rng.Intn(25) == 0 { // a line of 1000-3000 bytes
				n = 60 + rng.Intn(100)
			}
			for i := 0; i < n; i++ {
				m.Addrs = append(m.Addrs, trAddr(rng))
			}
		case 1:
			m.Base = trAddr(rng)
			m.Stride = []int64{4, 8, 0, -4}[rng.Intn(4)]
			if rng.Intn(3) == 0 {
				m.Stride = trI32(rng)
			}
		default:
			m.Base = trAddr(rng)
			n := rng.Intn(6)
			for i := 0; i < n; i++ {
				m.Deltas = append(m.Deltas, trI32(rng))
			}
		}
		in.Mem = m
	}
	in.Imm = trI64(rng)
	if wide {
		// push one or two values out of the reader's field widths / table
		for k := 0; k < 1+rng.Intn(2); k++ {
			switch rng.Intn(8) {
			case 0:
				in.PC = 0x80000000 + uint64(rng.Intn(1<<20))
			case 1:
				in.Mask = 0x8000000000000000 | rng.U64()
			case 2:
				if in.Mem != nil && in.Mem.Mode == 1 {
					in.Mem.Stride = int64(rng.U64()) >> uint(rng.Intn(30))
				}
			case 3:
				if in.Mem != nil && in.Mem.Mode == 2 {
					in.Mem.Deltas = append(in.Mem.Deltas, int64(rng.U64())>>uint(rng.Intn(30)), 2147483648, -2147483649)
				}
			case 4:
				if in.Mem != nil {
					in.Mem.Width = []int64{2147483648, -1, -2147483649, 4294967300}[rng.Intn(4)]
				}
			case 5:
				if rng.Bool() {
					in.Dests = append(in.Dests, []int64{256, 257, 1000, 2550, -1, 4294967296}[rng.Intn(6)])
				} else {
					in.Srcs = append(in.Srcs, []int64{256, 257, 1000, 2550, -1, 4294967296}[rng.Intn(6)])
				}
			case 6: // addresses beyond int64
				if in.Mem != nil {
					in.Mem.Base = 0x8000000000000000 | rng.U64()>>uint(rng.Intn(8))
					if in.Mem.Mode == 0 {
						in.Mem.Addrs = append(in.Mem.Addrs, 0xffffffffffffffff, 0x8000000000000000)
					}
				}
			default:
				in.PC = rng.U64()
			}
		}
	}
	return in
}

func trGenID(rng *vh.Rng, i int) int64 {
	switch rng.Pick(8, 1, 1) {
	case 0:
		return int64(i)
	case 1:
		return 2147483647
	}
	return int64(rng.Intn(1 << 30))
}

func trGenKernel(rng *vh.Rng, wide bool, small bool) trKernel {
	k := trKernel{Header: trHeader{
		Name: trNames[rng.Intn(len(trNames))], KernelID: int64(1 + rng.Intn(5)),
		Grid:  [3]int64{int64(1 + rng.Intn(300)), int64(1 + rng.Intn(3)), 1},
		Block: [3]int64{int64(32 * (1 + rng.Intn(8))), int64(1 + rng.Intn(2)), 1},
		Shmem: int64(rng.Intn(3)) * 1024, Nregs: int64(8 + rng.Intn(56)), BinVer: []int64{70, 80, 86}[rng.Intn(3)],
		Stream: int64(rng.Intn(3)), ShBase: int64(0x7fb139000000 + uint64(rng.Intn(16))<<20),
		LocalBase: int64(0x7fb137000000 + uint64(rng.Intn(16))<<20), Nvbit: "1.7", Tracer: "5", LineInfo: rng.Bool(),
	}, Blocks: []trBlock{}}
	if rng.Intn(6) == 0 {
		k.Header.ShBase = int64(rng.U64() >> 1)
		k.Header.LocalBase = 0
		k.Header.KernelID = trI32(rng)
		k.Header.Shmem = 2147483647
	}
	if rng.Intn(12) == 0 { // a `-kernel name` line of 1000-3000 bytes
		k.Header.Name += strings.Repeat("y", 1000+rng.Intn(2000))
	}
	maxB, maxW, maxI := 5, 5, 7
	if small {
		maxB, maxW, maxI = 3, 3, 4
	}
	nb := rng.Intn(maxB)
	for b := 0; b < nb; b++ {
		blk := trBlock{ID: [3]int64{trGenID(rng, b), 0, 0}, Warps: []trWarp{}}
		if rng.Intn(4) == 0 {
			blk.ID[1] = int64(rng.Intn(4))
			blk.ID[2] = int64(rng.Intn(1 << 30))
		}
		nw := rng.Intn(maxW)
		for w := 0; w < nw; w++ {
			wp := trWarp{ID: trGenID(rng, w), Insts: []trInst{}}
			ni := rng.Intn(maxI)
			for i := 0; i < ni; i++ {
				wp.Insts = append(wp.Insts, trGenInst(rng, i, wide && rng.Intn(3) == 0))
			}
			blk.Warps = append(blk.Warps, wp)
		}
		if wide && rng.Intn(6) == 0 {
			blk.ID[rng.Intn(3)] = []int64{2147483648, -1, 99999999999, -2147483649}[rng.Intn(4)]
		}
		if wide && rng.Intn(6) == 0 && len(blk.Warps) > 0 {
			blk.Warps[rng.Intn(len(blk.Warps))].ID = []int64{2147483648, -1, 4294967296, -2147483649}[rng.Intn(4)]
		}
		k.Blocks = append(k.Blocks, blk)
	}
	return k
}

// trMutateLines damages the line list of a valid file.
func trMutateLines(rng *vh.Rng, ls []trLine) []trLine {
	out := append([]trLine{}, ls...)
	pickT := func(t string) int {
		idx := []int{}
		for i := range out {
			if out[i].T == t {
				idx = append(idx, i)
			}
		}
		if len(idx) == 0 {
			return -1
		}
		return idx[rng.Intn(len(idx))]
	}
	del := func(i int) { out = append(out[:i:i], out[i+1:]...) }
	ins := func(i int, l trLine) {
		out = append(out[:i:i], append([]trLine{l}, out[i:]...)...)
	}
	n := 1 + rng.Intn(2)
	for k := 0; k < n && len(out) > 0; k++ {
		switch rng.Intn(12) {
		case 0: // delete any line
			del(rng.Intn(len(out)))
		case 1: // insts count off
			if i := pickT("insts"); i >= 0 {
				out[i].N[0] += []int64{1, -1, 2, 5, -3, 2147483648}[rng.Intn(6)]
			}
		case 2: // duplicate a line
			i := rng.Intn(len(out))
			ins(i, out[i])
		case 3: // swap neighbours
			if len(out) > 1 {
				i := rng.Intn(len(out) - 1)
				out[i], out[i+1] = out[i+1], out[i]
			}
		case 4: // truncate the file
			out = out[:rng.Intn(len(out)+1)]
		case 5: // cut an instruction line short
			if i := pickT("inst"); i >= 0 {
				t := out[i].Toks
				out[i].Toks = append([]string{}, t[:rng.Intn(len(t)+1)]...)
			}
		case 6: // drop an insts line
			if i := pickT("insts"); i >= 0 {
				del(i)
			}
		case 7: // drop a warp line
			if i := pickT("warp"); i >= 0 {
				del(i)
			}
		case 8: // unknown header key / header line in the body
			l := trHdr("kernel id", "int", "", 7)
			if rng.Bool() {
				l = trHdr("max threads", "int", "", 7)
			}
			ins(rng.Intn(len(out)+1), l)
		case 9: // header value of the wrong class
			if i := pickT("hdr"); i >= 0 {
				switch rng.Intn(4) {
				case 0:
					out[i].VK, out[i].VN = "int", [3]int64{int64(rng.Intn(100))}
				case 1:
					out[i].VK, out[i].VN = "dim", [3]int64{1, 2, 3}
				case 2:
					out[i].VK, out[i].VN = "addr", [3]int64{int64(rng.Intn(1 << 30))}
				default:
					out[i].VK, out[i].VS = "str", []string{"12", "abc", "0x1f", "-5", "(1,2,3)", "017", "1"}[rng.Intn(7)]
				}
			}
		case 10: // a token replaced in an instruction line
			if i := pickT("inst"); i >= 0 && len(out[i].Toks) > 0 {
				t := append([]string{}, out[i].Toks...)
				t[rng.Intn(len(t))] = []string{"0", "1", "2", "3", "-1", "R1", "R256", "P0", "UR4", "FADD", "0x10", "ffffffff", "+7", "12zz",
					"99999999999999999999", "0X1f", "0x", "0xffffffffffffffff", "0x10000000000000000", "-0x10", "0x1_0"}[rng.Intn(21)]
				out[i].Toks = t
			}
		default: // a blank or comment line somewhere
			if rng.Bool() {
				ins(rng.Intn(len(out)+1), trLine{T: "blank"})
			} else {
				ins(rng.Intn(len(out)+1), trLine{T: "other", Toks: []string{"#comment", "x"}})
			}
		}
	}
	if len(out) == 0 {
		out = append(out, trLine{T: "blank"})
	}
	return out
}

func trGenCase(rng *vh.Rng) trCase {
	switch rng.Pick(14, 3, 3) {
	case 0:
		k := trGenKernel(rng, false, false)
		k.Tag = "valid"
		return trCase{Kernel: k}
	case 1:
		k := trGenKernel(rng, true, false)
		k.Tag = "wide"
		return trCase{Kernel: k}
	}
	k := trGenKernel(rng, false, true)
	k.Tag = "lines"
	k.Lines = trMutateLines(rng, trKernelLines(&k))
	return trCase{Kernel: k}
}

func trPattern(rng *vh.Rng) []int {
	p := make([]int, 1+rng.Intn(3))
	for i := range p {
		p[i] = rng.Intn(4)
	}
	return p
}

// trGenLayouts: the layouts in which every kernel of the valid stream is
// written in addition to the default one (tag, layout).
func trGenLayouts(rng *vh.Rng) []trLayout {
	accel := trLayout{Format: true, Begin: true, End: true, HdrBlanks: 1, PreTb: []int{1}, AfterTb: []int{1},
		AfterWarp: []int{1}}
	compact := trLayout{}
	blanks := trLayout{HdrBlanks: rng.Intn(4), PreTb: trPattern(rng), AfterTb: trPattern(rng), InstGaps: trPattern(rng),
		AfterWarp: trPattern(rng)}
	random := trLayout{Format: rng.Bool(), Begin: rng.Bool(), End: rng.Bool(), HdrBlanks: rng.Intn(4), PreTb: trPattern(rng),
		AfterTb: trPattern(rng), WarpComments: trPattern(rng), InstGaps: trPattern(rng), AfterWarp: trPattern(rng),
		PostTb: trPattern(rng), Tail: rng.Intn(4)}
	return []trLayout{accel, compact, blanks, random}
}

var trLayoutTags = []string{"layout-accel", "layout-compact", "layout-compact-blanks", "layout-random"}

// ---------------------------------------------------------------- main

func traceMain(args []string) int {
	fs := flag.NewFlagSet("trace", flag.ContinueOnError)
	seed := fs.Uint64("seed", 1, "seed")
	n := fs.Int("n", 100, "number of generated cases")
	out := fs.String("out", "", "output file (JSON list of cases)")
	replay := fs.String("replay", "", "JSON list of {\"kernel\":...} objects to run instead of generating")
	if err := fs.Parse(args); err != nil {
		return 2
	}
	log.SetOutput(io.Discard)
	var cases []trCase
	if *replay != "" {
		data, err := os.ReadFile(*replay)
		if err != nil {
			fmt.Fprintln(os.Stderr, err)
			return 2
		}
		var in []struct {
			Kernel trKernel `json:"kernel"`
		}
		if err := json.Unmarshal(data, &in); err != nil {
			fmt.Fprintln(os.Stderr, err)
			return 2
		}
		for _, c := range in {
			cases = append(cases, trCase{Kernel: c.Kernel})
		}
	} else {
		rng := vh.NewRng(*seed)
		gid := 0
		nextGroup := 5
		for len(cases) < *n {
			if len(cases) >= nextGroup {
				nextGroup += 12
				gid++
				cases = append(cases, trGenGroup(rng.Fork(), gid)...)
				continue
			}
			r := rng.Fork()
			c := trGenCase(r)
			cases = append(cases, c)
			if c.Kernel.Tag != "valid" || c.Kernel.Lines != nil || c.Kernel.Group != 0 {
				continue
			}
			// the same kernel in the other layouts (the copies count toward n)
			lays := trGenLayouts(r)
			for i := range lays {
				if len(cases) >= *n {
					break
				}
				k := c.Kernel
				k.Tag, k.Layout = trLayoutTags[i], &lays[i]
				cases = append(cases, trCase{Kernel: k})
			}
		}
	}
	tmp, err := os.MkdirTemp("", "c20trace")
	if err != nil {
		fmt.Fprintln(os.Stderr, err)
		return 2
	}
	defer os.RemoveAll(tmp)
	for i := 0; i < len(cases); {
		c := &cases[i]
		if c.Kernel.Blocks == nil {
			c.Kernel.Blocks = []trBlock{}
		}
		if c.Kernel.Group == 0 {
			trRun(c, tmp, i)
			i++
			continue
		}
		var grp []*trCase
		j := i
		for ; j < len(cases) && cases[j].Kernel.Group == c.Kernel.Group; j++ {
			if cases[j].Kernel.Blocks == nil {
				cases[j].Kernel.Blocks = []trBlock{}
			}
			grp = append(grp, &cases[j])
		}
		trRunGroup(grp, tmp, i)
		i = j
	}
	if cases == nil {
		cases = []trCase{}
	}
	data, err := json.Marshal(cases)
	if err != nil {
		fmt.Fprintln(os.Stderr, err)
		return 2
	}
	if *out == "" {
		os.Stdout.Write(data)
		return 0
	}
	if err := os.WriteFile(*out, data, 0o644); err != nil {
		fmt.Fprintln(os.Stderr, err)
		return 2
	}
	return 0
}
