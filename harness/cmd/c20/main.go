// Command c20 drives the real NVIDIA trace-driven platform (sub-command "sim")
// and the real trace reader (sub-command "trace") for property C20.
package main

import (
	"fmt"
	"os"
)

func main() {
	if len(os.Args) < 2 {
		fmt.Fprintln(os.Stderr, "usage: c20 sim|trace [flags]")
		os.Exit(2)
	}
	switch os.Args[1] {
	case "sim":
		os.Exit(simMain(os.Args[2:]))
	case "trace":
		os.Exit(traceMain(os.Args[2:]))
	default:
		fmt.Fprintln(os.Stderr, "unknown mode", os.Args[1])
		os.Exit(2)
	}
}
