// Copy mode of the C12 harness: data isolation between queues and re-use of a
// queue after degenerate commands, on the real driver with its default
// (timing) memory-copy middleware.
//
// The driver is ticked by hand (no goroutines: every run is a function of its
// seed). All commands of all queues are enqueued first, so the head commands
// of different queues - of one context and of different contexts - are in
// flight together. The harness plays the device side of the driver's GPU port:
// it collects the requests (MemCopyH2DReq, MemCopyD2HReq, FlushReq,
// LaunchKernelReq) and answers them one at a time in a random order ACROSS
// queues; the bytes of an H2D request are taken, and the bytes of a D2H
// request are supplied, when the request is answered (as a DMA engine does).
//
// Verdicts (model-free): (1) every byte of every device buffer and every D2H
// result equals the per-queue FIFO reference (the buffers of different queues
// are disjoint, so no other queue may influence them); (2) every queue drains
// ("drain never returns" otherwise - also after zero-byte copies, copies that
// need no flush, no-ops and kernels followed by ordinary commands on the same
// queue); (3) whenever the driver is quiet, an empty queue has IsRunning = false.
package main

import (
	"fmt"

	"github.com/sarchlab/akita/v4/mem/mem"
	"github.com/sarchlab/akita/v4/mem/vm"
	"github.com/sarchlab/akita/v4/sim"
	"github.com/sarchlab/mgpusim/v4/amd/driver"
	"github.com/sarchlab/mgpusim/v4/amd/protocol"

	"verifharness/vh"
)

type CopyCmd struct {
	Op  string `json:"op"` // h2d | d2h | noop | kernel
	Buf int    `json:"buf,omitempty"`
	Off uint64 `json:"off,omitempty"`
	N   uint64 `json:"n,omitempty"`
	Tag byte   `json:"tag,omitempty"` // h2d: byte i of the data is tag ^ byte(i*7)
}

type CopyCase struct {
	Copy    bool        `json:"copy"`
	Seed    uint64      `json:"seed"`
	NCtx    int         `json:"nctx"`
	QCtx    []int       `json:"qctx"`  // context of each queue
	Bufs    [][]uint64  `json:"bufs"`  // per queue: sizes of its device buffers
	Progs   [][]CopyCmd `json:"progs"` // per queue
	Shape   string      `json:"shape,omitempty"`
	Answers int         `json:"answers"`
	// verdicts
	Stuck       string `json:"stuck,omitempty"`
	BadData     string `json:"bad_data,omitempty"`
	IdleRunning string `json:"idle_running,omitempty"`
	Panic       string `json:"panic,omitempty"`
	InFlight    int    `json:"in_flight_together"` // largest number of queues with copy requests pending at once
}

type pending struct {
	m sim.Msg
}

func hostData(c CopyCmd) []byte {
	d := make([]byte, c.N)
	for i := range d {
		d[i] = c.Tag ^ byte(i*7)
	}
	return d
}

func runCopyCase(c *CopyCase) {
	defer func() {
		if r := recover(); r != nil {
			c.Panic = fmt.Sprint(r)
		}
	}()
	rng := vh.NewRng(c.Seed)
	const lg = 12
	ps := uint64(1) << lg
	pt := vm.NewPageTable(lg)
	d := driver.MakeBuilder().WithEngine(sim.NewSerialEngine()).WithPageTable(pt).
		WithLog2PageSize(lg).WithGlobalStorage(mem.NewStorage(4 * mem.GB)).Build("Driver")
	d.RegisterGPU(sim.NewPort(nil, 1, 1, "GPU1.CP"), driver.DeviceProperties{CUCount: 4, DRAMSize: 1024 * ps})
	gpuPort := d.GetPortByName("GPU")
	conn := &vh.StubConn{}
	conn.PlugIn(gpuPort)
	conn.PlugIn(d.GetPortByName("MMU"))

	ctxs := make([]*driver.Context, c.NCtx)
	for i := range ctxs {
		ctxs[i] = d.Init()
	}
	nq := len(c.QCtx)
	qs := make([]*driver.CommandQueue, nq)
	ptrs := make([][]driver.Ptr, nq)
	ref := make([][][]byte, nq) // per queue, per buffer: reference content
	for q := 0; q < nq; q++ {
		ctx := ctxs[c.QCtx[q]]
		qs[q] = d.CreateCommandQueue(ctx)
		for _, sz := range c.Bufs[q] {
			ptrs[q] = append(ptrs[q], d.AllocateMemory(ctx, sz))
			ref[q] = append(ref[q], make([]byte, sz))
		}
	}

	// the device: physical memory written/read when a request is answered
	devmem := map[uint64]byte{}
	type want struct {
		q, k int
		dst  []byte
		exp  []byte
	}
	var wants []want
	for q := 0; q < nq; q++ {
		for k, cm := range c.Progs[q] {
			switch cm.Op {
			case "h2d":
				data := hostData(cm)
				copy(ref[q][cm.Buf][cm.Off:], data)
				d.EnqueueMemCopyH2D(qs[q], ptrs[q][cm.Buf]+driver.Ptr(cm.Off), data)
			case "d2h":
				dst := make([]byte, cm.N)
				exp := append([]byte{}, ref[q][cm.Buf][cm.Off:cm.Off+cm.N]...)
				wants = append(wants, want{q, k, dst, exp})
				d.EnqueueMemCopyD2H(qs[q], dst, ptrs[q][cm.Buf]+driver.Ptr(cm.Off))
			case "noop":
				d.Enqueue(qs[q], &driver.NoopCommand{ID: fmt.Sprintf("n%d.%d", q, k)})
			case "kernel":
				d.Enqueue(qs[q], &driver.LaunchKernelCommand{ID: fmt.Sprintf("k%d.%d", q, k)})
			}
		}
	}

	var pend []pending
	settle := func() {
		for t := 0; t < 200000; t++ {
			prog := d.Tick()
			any := false
			for {
				m := gpuPort.RetrieveOutgoing()
				if m == nil {
					break
				}
				pend = append(pend, pending{m})
				any = true
			}
			if !prog && !any {
				break
			}
		}
		for q := 0; q < nq; q++ { // quiet: an idle queue must not be marked as running
			if qs[q].NumCommand() == 0 && qs[q].IsRunning && c.IdleRunning == "" {
				c.IdleRunning = fmt.Sprintf("queue %d (context %d) is empty and the driver is quiet, but IsRunning = true after %d answers",
					q, c.QCtx[q], c.Answers)
			}
		}
	}
	// which queue owns a physical page (to see whose copies are in flight together)
	owner := map[uint64]int{}
	for q := 0; q < nq; q++ {
		pid := vm.PID(driver.VerifC11PID(ctxs[c.QCtx[q]]))
		for b, sz := range c.Bufs[q] {
			for off := uint64(0); off < sz; off += ps {
				if pg, ok := pt.Find(pid, uint64(ptrs[q][b])+off); ok {
					owner[pg.PAddr>>lg] = q
				}
			}
		}
	}
	inflight := func() {
		qsSeen := map[int]bool{}
		for _, p := range pend {
			switch r := p.m.(type) {
			case *protocol.MemCopyH2DReq:
				qsSeen[owner[r.DstAddress>>lg]] = true
			case *protocol.MemCopyD2HReq:
				qsSeen[owner[r.SrcAddress>>lg]] = true
			}
		}
		if len(qsSeen) > c.InFlight {
			c.InFlight = len(qsSeen)
		}
	}
	settle()
	inflight()
	for len(pend) > 0 && c.Answers < 100000 {
		k := rng.Intn(len(pend))
		m := pend[k].m
		pend = append(pend[:k], pend[k+1:]...)
		var rsp sim.Msg
		switch r := m.(type) {
		case *protocol.MemCopyH2DReq:
			for i, b := range r.SrcBuffer {
				devmem[r.DstAddress+uint64(i)] = b
			}
		case *protocol.MemCopyD2HReq:
			for i := range r.DstBuffer {
				r.DstBuffer[i] = devmem[r.SrcAddress+uint64(i)]
			}
		case *protocol.LaunchKernelReq:
			rsp = protocol.NewLaunchKernelRsp(r.Dst, r.Src, r.ID)
		}
		if rsp == nil {
			rsp = sim.GeneralRspBuilder{}.WithSrc(m.Meta().Dst).WithDst(gpuPort.AsRemote()).WithOriginalReq(m).Build()
		}
		if err := gpuPort.Deliver(rsp); err != nil {
			panic("driver port full")
		}
		c.Answers++
		settle()
		inflight()
	}

	// (2) every queue drained?
	for q := 0; q < nq; q++ {
		if n := qs[q].NumCommand(); n > 0 && c.Stuck == "" {
			c.Stuck = fmt.Sprintf("queue %d (context %d) still holds %d of its %d commands (IsRunning = %v) and nothing is in flight: "+
				"a drain of it never returns", q, c.QCtx[q], n, len(c.Progs[q]), qs[q].IsRunning)
		}
	}
	if c.Stuck != "" {
		return
	}
	// (1) data
	for _, w := range wants {
		for i := range w.exp {
			if w.dst[i] != w.exp[i] && c.BadData == "" {
				c.BadData = fmt.Sprintf("D2H command %d of queue %d (context %d) returned byte %d = %#x, the queue's own copies put %#x there",
					w.k, w.q, c.QCtx[w.q], i, w.dst[i], w.exp[i])
			}
		}
	}
	for q := 0; q < nq && c.BadData == ""; q++ {
		pid := vm.PID(driver.VerifC11PID(ctxs[c.QCtx[q]]))
		for b, sz := range c.Bufs[q] {
			for off := uint64(0); off < sz && c.BadData == ""; off++ {
				va := uint64(ptrs[q][b]) + off
				pg, ok := pt.Find(pid, va)
				if !ok {
					c.BadData = fmt.Sprintf("no page for buffer %d of queue %d", b, q)
					break
				}
				got := devmem[pg.PAddr+(va-pg.VAddr)]
				if got != ref[q][b][off] {
					c.BadData = fmt.Sprintf("device memory of buffer %d of queue %d (context %d), byte %d: %#x, but the commands of that "+
						"queue in submission order leave %#x there - data of another queue's copy arrived", b, q, c.QCtx[q], off, got, ref[q][b][off])
				}
			}
		}
	}
}

// genCopyCase: 2-3 queues in 1-2 contexts, each with two buffers and a short
// program of copies (zero-byte ones included), no-ops and kernels.
func genCopyCase(r *vh.Rng, shape int) *CopyCase {
	c := &CopyCase{Copy: true, Seed: r.U64(), NCtx: 1 + r.Intn(2)}
	nq := 2 + r.Intn(2)
	sizes := []uint64{100, 4096, 5000, 12000, 777, 8192}
	for q := 0; q < nq; q++ {
		c.QCtx = append(c.QCtx, q%c.NCtx)
		c.Bufs = append(c.Bufs, []uint64{sizes[r.Intn(len(sizes))], sizes[r.Intn(len(sizes))]})
	}
	tag := byte(1)
	copyCmd := func(q int, op string, zero bool) CopyCmd {
		b := r.Intn(2)
		sz := c.Bufs[q][b]
		n := uint64(0)
		off := uint64(r.Intn(int(sz)))
		if !zero {
			n = 1 + uint64(r.Intn(int(sz-off)))
			if r.Intn(2) == 0 { // whole buffer: equal sizes across queues are the interesting case
				off, n = 0, sz
			}
		}
		tag += 17
		return CopyCmd{Op: op, Buf: b, Off: off, N: n, Tag: tag}
	}
	for q := 0; q < nq; q++ {
		var p []CopyCmd
		switch shape {
		case 1: // copies in flight together: every queue starts with an H2D of a whole buffer
			p = append(p, copyCmd(q, "h2d", false))
			p[0].Off, p[0].N = 0, c.Bufs[q][p[0].Buf]
			p = append(p, CopyCmd{Op: "d2h", Buf: p[0].Buf, Off: 0, N: p[0].N})
		case 2: // queue re-use after a degenerate command
			deg := []CopyCmd{copyCmd(q, "h2d", true), copyCmd(q, "d2h", true), {Op: "noop"}, {Op: "kernel"}}[r.Intn(4)]
			p = append(p, deg, copyCmd(q, "h2d", false), copyCmd(q, "d2h", false))
		}
		for k := r.Intn(4); k > 0; k-- {
			switch r.Intn(8) {
			case 0:
				p = append(p, CopyCmd{Op: "noop"})
			case 1:
				p = append(p, CopyCmd{Op: "kernel"})
			case 2:
				p = append(p, copyCmd(q, []string{"h2d", "d2h"}[r.Intn(2)], true))
			case 3, 4:
				p = append(p, copyCmd(q, "d2h", false))
			default:
				p = append(p, copyCmd(q, "h2d", false))
			}
		}
		if len(p) == 0 {
			p = append(p, copyCmd(q, "h2d", false))
		}
		c.Progs = append(c.Progs, p)
	}
	c.Shape = []string{"random", "together", "reuse"}[shape]
	// equal buffer sizes across queues in half of the "together" cases
	if shape == 1 && r.Bool() {
		for q := 1; q < nq; q++ {
			c.Bufs[q] = append([]uint64{}, c.Bufs[0]...)
			c.Progs[q][0].Buf = c.Progs[0][0].Buf
			c.Progs[q][0].N = c.Bufs[0][c.Progs[0][0].Buf]
			c.Progs[q][1].Buf, c.Progs[q][1].N = c.Progs[q][0].Buf, c.Progs[q][0].N
			for k := 2; k < len(c.Progs[q]); k++ { // later commands were generated for other sizes
				c.Progs[q] = c.Progs[q][:2]
			}
		}
	}
	return c
}

func copyCases(seed uint64, n int) []*CopyCase {
	r := vh.NewRng(seed ^ 0xC0B1)
	var out []*CopyCase
	for i := 0; i < n; i++ {
		c := genCopyCase(r.Fork(), i%3)
		runCopyCase(c)
		out = append(out, c)
	}
	return out
}

// ---------------------------------------------------------------- hand-ticked histories compared with the model

// HCmd: a command of the kinds the Coq queue automaton knows: noop, kernel
// (asynchronous: one request, completed by the GPU's answer) and the zero-byte
// copy that needs no flush (started, no request, completed by the copy
// middleware's next Tick).
type HCmd struct {
	K  string `json:"k"` // noop | kernel | h2d0 | d2h0
	ID uint64 `json:"id"`
}

type HEvent struct {
	E   string   `json:"e"` // tick | answer
	Q   int      `json:"q,omitempty"`
	MP  bool     `json:"mp,omitempty"` // Tick's result
	Obs []uint64 `json:"obs"`
}

type HandCase struct {
	Hand          bool     `json:"hand"`
	Seed          uint64   `json:"seed"`
	NCtx          int      `json:"nctx"`
	QCtx          []int    `json:"qctx"`
	Progs         [][]HCmd `json:"progs"`
	Events        []HEvent `json:"events"`
	NotComparable string   `json:"not_comparable,omitempty"`
	Stuck         string   `json:"stuck,omitempty"`
	Panic         string   `json:"panic,omitempty"`
	Coq           string   `json:"coq"`
}

func runHandCase(c *HandCase) {
	defer func() {
		if r := recover(); r != nil {
			c.Panic = fmt.Sprint(r)
		}
		c.Coq = coqHand(c)
	}()
	rng := vh.NewRng(c.Seed)
	const lg = 12
	ps := uint64(1) << lg
	d := driver.MakeBuilder().WithEngine(sim.NewSerialEngine()).WithPageTable(vm.NewPageTable(lg)).
		WithLog2PageSize(lg).WithGlobalStorage(mem.NewStorage(4 * mem.GB)).Build("Driver")
	d.RegisterGPU(sim.NewPort(nil, 1, 1, "GPU1.CP"), driver.DeviceProperties{CUCount: 4, DRAMSize: 1024 * ps})
	gpuPort := d.GetPortByName("GPU")
	conn := &vh.StubConn{}
	conn.PlugIn(gpuPort)
	conn.PlugIn(d.GetPortByName("MMU"))
	ctxs := make([]*driver.Context, c.NCtx)
	for i := range ctxs {
		ctxs[i] = d.Init()
	}
	nq := len(c.QCtx)
	qs := make([]*driver.CommandQueue, nq)
	cmdQ := map[uint64]int{}
	for q := 0; q < nq; q++ {
		ctx := ctxs[c.QCtx[q]]
		qs[q] = d.CreateCommandQueue(ctx)
		ptr := d.AllocateMemory(ctx, 256)
		for _, h := range c.Progs[q] {
			cmdQ[h.ID] = q
			id := fmt.Sprintf("c%d", h.ID)
			switch h.K {
			case "noop":
				d.Enqueue(qs[q], &driver.NoopCommand{ID: id})
			case "kernel":
				d.Enqueue(qs[q], &driver.LaunchKernelCommand{ID: id, DPacket: driver.Ptr(h.ID)})
			case "h2d0":
				d.Enqueue(qs[q], &driver.MemCopyH2DCommand{ID: id, Dst: ptr, Src: []byte{}})
			case "d2h0":
				d.Enqueue(qs[q], &driver.MemCopyD2HCommand{ID: id, Dst: []byte{}, Src: ptr})
			}
		}
	}
	pendReq := map[int]sim.Msg{} // queue -> its kernel request at the GPU
	observe := func() []uint64 {
		var o []uint64
		for _, q := range qs {
			head := uint64(0)
			if cm := q.Peek(); cm != nil {
				var id uint64
				fmt.Sscanf(cm.GetID(), "c%d", &id)
				head = id + 1
			}
			o = append(o, uint64(q.NumCommand()), head, b2u(q.IsRunning))
		}
		return append(o, 99, uint64(len(pendReq)), 0)
	}
	idle := 0
	c.Events = nil
	for len(c.Events) < 400 {
		var keys []int
		for q := 0; q < nq; q++ {
			if _, ok := pendReq[q]; ok {
				keys = append(keys, q)
			}
		}
		if len(keys) > 0 && (idle > 0 || rng.Intn(3) == 0) {
			q := keys[rng.Intn(len(keys))]
			req := pendReq[q].(*protocol.LaunchKernelReq)
			delete(pendReq, q)
			if err := gpuPort.Deliver(protocol.NewLaunchKernelRsp(req.Dst, req.Src, req.ID)); err != nil {
				panic("driver port full")
			}
			c.Events = append(c.Events, HEvent{E: "answer", Q: q, Obs: observe()})
			idle = 0
			continue
		}
		if idle >= 2 {
			break
		}
		mp := d.Tick()
		for {
			m := gpuPort.RetrieveOutgoing()
			if m == nil {
				break
			}
			if r, ok := m.(*protocol.LaunchKernelReq); ok {
				pendReq[cmdQ[r.PacketAddress]] = r
			} else {
				c.NotComparable = fmt.Sprintf("the driver sent a %T: outside the model's command kinds", m)
			}
		}
		c.Events = append(c.Events, HEvent{E: "tick", MP: mp, Obs: observe()})
		if mp {
			idle = 0
		} else {
			idle++
		}
	}
	for q := 0; q < nq; q++ {
		if n := qs[q].NumCommand(); n > 0 && c.Stuck == "" {
			c.Stuck = fmt.Sprintf("queue %d (context %d) still holds %d of its %d commands (IsRunning = %v), the driver reports no "+
				"progress and nothing is in flight: a drain of it never returns", q, c.QCtx[q], n, len(c.Progs[q]), qs[q].IsRunning)
		}
	}
}

func coqHand(c *HandCase) string {
	kind := map[string]string{"noop": "Noop", "kernel": "Async", "h2d0": "Empty", "d2h0": "Empty"}
	var cs, progs, evs []string
	for _, x := range c.QCtx {
		cs = append(cs, vh.CoqNat(x))
	}
	for _, p := range c.Progs {
		var xs []string
		for _, h := range p {
			xs = append(xs, fmt.Sprintf("mkCmd %d %s", h.ID, kind[h.K]))
		}
		progs = append(progs, vh.CoqList(xs))
	}
	for _, e := range c.Events {
		ev := "HTick"
		if e.E == "answer" {
			ev = fmt.Sprintf("HAnswer %s", vh.CoqNat(e.Q))
		}
		evs = append(evs, fmt.Sprintf("(%s, %s, %s)", ev, vh.CoqBool(e.MP), vh.CoqNList(e.Obs)))
	}
	return fmt.Sprintf("mkHand %s %s %s", vh.CoqList(cs), vh.CoqList(progs), vh.CoqList(evs))
}

func handCases(seed uint64, n int) []*HandCase {
	r := vh.NewRng(seed ^ 0x4A4D)
	var out []*HandCase
	kinds := []string{"noop", "kernel", "h2d0", "d2h0", "h2d0", "kernel"}
	for i := 0; i < n; i++ {
		c := &HandCase{Hand: true, Seed: r.U64(), NCtx: 1 + r.Intn(2)}
		nq := 1 + r.Intn(3)
		id := uint64(0)
		for q := 0; q < nq; q++ {
			c.QCtx = append(c.QCtx, q*c.NCtx/nq)
			var p []HCmd
			for k := 1 + r.Intn(5); k > 0; k-- {
				id++
				p = append(p, HCmd{K: kinds[r.Intn(len(kinds))], ID: id})
			}
			c.Progs = append(c.Progs, p)
		}
		runHandCase(c)
		out = append(out, c)
	}
	return out
}
