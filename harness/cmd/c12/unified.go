// Unified mode of the C12 harness: commands with SEVERAL outstanding requests.
//
// A LaunchUnifiedMultiGPUKernelCommand on a unified device of 2-4 member GPUs
// is one command of its queue but one LaunchKernelReq per member GPU. The
// harness plays all GPUs: it collects the requests the driver sends and
// answers them one at a time (sometimes two before the driver ticks again),
// in a chosen order, ticking the driver by hand in between (no goroutines: a
// run is a function of its case). The unified command is followed by further
// commands on the same queue (unified kernels, ordinary kernels, no-ops);
// other queues (a second one on the unified device, one on a plain GPU of
// another context) run alongside.
//
// Monitor (model-free, sound): every LaunchKernelReq is attributed to its
// command and member through the dispatch-packet pointer it carries. (1) The
// requests sent are exactly one per (command, member GPU), each addressed to
// that member's port - a second copy is a violation at the moment it is sent.
// (2) A request of command k of a queue may only be sent when commands 0..k-1
// of that queue have completed in the reference (all their requests answered).
// (3) After every quiet point the queue holds exactly the commands the FIFO
// reference says (a command leaves exactly when its last reply was processed,
// not earlier, not later), its head is that command object (completion order
// = enqueue order), IsRunning holds while requests of the head are outstanding
// and is clear when the queue is empty. (4) Every queue drains.
//
// Single-queue cases without no-ops are also emitted as a Coq term for the
// model coq/drv/MultiReq.v: (commands, [(events, observation)]).
package main

import (
	"fmt"
	"strings"

	"github.com/sarchlab/akita/v4/mem/mem"
	"github.com/sarchlab/akita/v4/mem/vm"
	"github.com/sarchlab/akita/v4/sim"
	"github.com/sarchlab/mgpusim/v4/amd/driver"
	"github.com/sarchlab/mgpusim/v4/amd/kernels"
	"github.com/sarchlab/mgpusim/v4/amd/protocol"

	"verifharness/vh"
)

type UQueue struct {
	GPU  int      `json:"gpu"`  // 0 = the unified device; g >= 1 = plain GPU g (queue of another context)
	Prog []string `json:"prog"` // unified | kernel | noop
}

type UEvent struct {
	E      string  `json:"e"` // start | answer
	Q      int     `json:"q"`
	Cmd    int     `json:"cmd"`
	Member int     `json:"member"`
	Obs    [][]int `json:"obs"` // per queue: NumCommand, IsRunning, len(head.Reqs), requests sent so far
}

type UCase struct {
	Unified bool     `json:"unified"`
	Name    string   `json:"name,omitempty"`
	Seed    uint64   `json:"seed"`
	NGPU    int      `json:"ngpu"`
	Members []int    `json:"members"` // GPU ids (1-based) of the unified device
	Queues  []UQueue `json:"queues"`
	Policy  string   `json:"policy"` // random | first | last  (which outstanding request is answered next)
	Batch   bool     `json:"batch"`  // sometimes two answers are delivered before the driver ticks
	// results
	Events    []UEvent `json:"events"`
	Sent      [][]int  `json:"sent"` // (queue, command, member, GPU id the request was addressed to)
	Answers   int      `json:"answers"`
	Partial   int      `json:"partial"` // quiet points at which a command had some but not all of its replies
	Violation string   `json:"violation,omitempty"`
	Panic     string   `json:"panic,omitempty"`
	Coq       string   `json:"coq,omitempty"`
}

type uKey struct{ q, cmd, member int }

func newPacket(wgs int) *kernels.HsaKernelDispatchPacket {
	return &kernels.HsaKernelDispatchPacket{
		WorkgroupSizeX: 64, WorkgroupSizeY: 1, WorkgroupSizeZ: 1,
		GridSizeX: uint32(64 * wgs), GridSizeY: 1, GridSizeZ: 1,
	}
}

func runUnifiedCase(c *UCase) {
	defer func() {
		if r := recover(); r != nil {
			c.Panic = fmt.Sprint(r)
		}
	}()
	rng := vh.NewRng(c.Seed)
	fail := func(f string, a ...interface{}) {
		if c.Violation == "" {
			c.Violation = fmt.Sprintf(f, a...)
		}
	}
	const lg = 12
	pt := vm.NewPageTable(lg)
	d := driver.MakeBuilder().WithEngine(sim.NewSerialEngine()).WithPageTable(pt).
		WithLog2PageSize(lg).WithGlobalStorage(mem.NewStorage(4 * mem.GB)).Build("Driver")
	ports := make([]sim.Port, c.NGPU+1)
	for g := 1; g <= c.NGPU; g++ {
		ports[g] = sim.NewPort(nil, 1, 1, fmt.Sprintf("GPU%d.CP", g))
		d.RegisterGPU(ports[g], driver.DeviceProperties{CUCount: 4, DRAMSize: 1 << 30})
	}
	gpuPort := d.GetPortByName("GPU")
	conn := &vh.StubConn{}
	conn.PlugIn(gpuPort)
	conn.PlugIn(d.GetPortByName("MMU"))

	uctx := d.Init()
	udev := d.CreateUnifiedGPU(uctx, c.Members)
	d.SelectGPU(uctx, udev)

	nq := len(c.Queues)
	qs := make([]*driver.CommandQueue, nq)
	cmds := make([][]driver.Command, nq)
	nreq := make([][]int, nq)                            // expected number of requests of each command
	owner := map[*kernels.HsaKernelDispatchPacket]uKey{} // dispatch packet -> (queue, command, member)
	target := map[uKey]int{}                             // -> GPU id the request must go to
	for q, uq := range c.Queues {
		ctx := uctx
		if uq.GPU != 0 {
			ctx = d.Init()
			d.SelectGPU(ctx, uq.GPU)
		}
		qs[q] = d.CreateCommandQueue(ctx)
	}
	// all commands of all queues are enqueued first (queue by queue, command by command)
	for q, uq := range c.Queues {
		for k, kind := range uq.Prog {
			id := fmt.Sprintf("q%d.c%d", q, k)
			var cmd driver.Command
			n := 0
			switch {
			case kind == "noop":
				cmd = &driver.NoopCommand{ID: id}
			case kind == "unified" && uq.GPU == 0:
				u := &driver.LaunchUnifiedMultiGPUKernelCommand{ID: id}
				wgs := 1 + rng.Intn(64)
				for i, g := range c.Members {
					p := newPacket(wgs)
					u.PacketArray = append(u.PacketArray, p)
					u.DPacketArray = append(u.DPacketArray, driver.Ptr(0x1000*(i+1)))
					owner[p] = uKey{q, k, i}
					target[uKey{q, k, i}] = g
				}
				n = len(c.Members)
				cmd = u
			default: // an ordinary kernel: one request; on the unified device the driver sends it to ... see below
				p := newPacket(1 + rng.Intn(8))
				cmd = &driver.LaunchKernelCommand{ID: id, Packet: p, DPacket: driver.Ptr(0x9000)}
				owner[p] = uKey{q, k, 0}
				target[uKey{q, k, 0}] = uq.GPU
				n = 1
			}
			cmds[q] = append(cmds[q], cmd)
			nreq[q] = append(nreq[q], n)
			d.Enqueue(qs[q], cmd)
		}
	}

	type outReq struct {
		m   *protocol.LaunchKernelReq
		key uKey
	}
	var pend []outReq            // sent by the driver, not yet answered
	sentOnce := map[uKey]bool{}  // requests seen
	answered := map[uKey]bool{}  // requests answered (the answer was delivered to the driver)
	nsent := make([]int, nq)     // requests seen per queue
	started := make([]bool, nq)  // during the current settle: the driver sent a request of a command not seen before
	refHead := func(q int) int { // FIFO reference: index of the oldest command that is not complete
		h := 0
		for h < len(cmds[q]) {
			done := true
			for i := 0; i < nreq[q][h]; i++ {
				if !answered[uKey{q, h, i}] {
					done = false
				}
			}
			if !done {
				break
			}
			h++
		}
		return h
	}
	collect := func() bool {
		any := false
		for {
			m := gpuPort.RetrieveOutgoing()
			if m == nil {
				return any
			}
			any = true
			r, ok := m.(*protocol.LaunchKernelReq)
			if !ok {
				fail("the driver sent a %T; only kernel launches were enqueued", m)
				continue
			}
			key, ok := owner[r.Packet]
			if !ok {
				fail("the driver sent a LaunchKernelReq whose dispatch packet belongs to no enqueued command")
				continue
			}
			gpu := 0
			for g := 1; g <= c.NGPU; g++ {
				if r.Dst == ports[g].AsRemote() {
					gpu = g
				}
			}
			c.Sent = append(c.Sent, []int{key.q, key.cmd, key.member, gpu})
			what := fmt.Sprintf("command %d of queue %d (%s)", key.cmd, key.q, c.Queues[key.q].Prog[key.cmd])
			if sentOnce[key] {
				left := []int{}
				for i := 0; i < nreq[key.q][key.cmd]; i++ {
					if !answered[uKey{key.q, key.cmd, i}] {
						left = append(left, target[uKey{key.q, key.cmd, i}])
					}
				}
				fail("commands take effect once: the kernel launch of %s was sent a SECOND time to member GPU %d after %d answers "+
					"(the command is still at the head of its queue; GPUs that have not answered its first launch: %v)",
					what, gpu, c.Answers, left)
			}
			if h := refHead(key.q); key.cmd != h {
				fail("commands take effect one at a time, in order: a request of %s was sent while the oldest incomplete command of "+
					"that queue is command %d (after %d answers)", what, h, c.Answers)
			}
			if want := target[key]; want != 0 && gpu != want {
				fail("the request of %s for member %d was addressed to GPU %d, not to GPU %d", what, key.member, gpu, want)
			}
			if !sentOnce[key] {
				started[key.q] = true
			}
			sentOnce[key] = true
			nsent[key.q]++
			pend = append(pend, outReq{r, key})
		}
	}
	observe := func() [][]int {
		var o [][]int
		for q := 0; q < nq; q++ {
			run, nr := 0, 0
			if qs[q].IsRunning {
				run = 1
			}
			if h := qs[q].Peek(); h != nil {
				nr = len(h.GetReqs())
			}
			o = append(o, []int{qs[q].NumCommand(), run, nr, nsent[q]})
		}
		return o
	}
	settle := func() {
		for t := 0; t < 100000; t++ {
			prog := d.Tick()
			any := collect()
			if !prog && !any {
				break
			}
		}
		// quiet point: compare with the FIFO reference
		for q := 0; q < nq; q++ {
			h := refHead(q)
			want := len(cmds[q]) - h
			got := qs[q].NumCommand()
			if got < want {
				miss := []int{}
				for i := 0; i < nreq[q][h]; i++ {
					if !answered[uKey{q, h, i}] {
						miss = append(miss, target[uKey{q, h, i}])
					}
				}
				fail("command %d of queue %d (%s) left the queue before its last reply: the queue holds %d commands, %d are incomplete "+
					"(GPUs that have not answered: %v; %d answers so far)", h, q, c.Queues[q].Prog[h], got, want, miss, c.Answers)
			} else if got > want {
				fail("command %d of queue %d (%s) is still in the queue although every one of its %d requests was answered and the "+
					"driver is quiet (queue holds %d commands, reference %d; IsRunning = %v): a drain of it never returns",
					len(cmds[q])-got, q, c.Queues[q].Prog[len(cmds[q])-got], nreq[q][len(cmds[q])-got], got, want, qs[q].IsRunning)
			} else if want > 0 {
				if qs[q].Peek() != cmds[q][h] {
					fail("completion order differs from enqueue order: the head of queue %d is not its command %d", q, h)
				}
				some, all := false, true
				for i := 0; i < nreq[q][h]; i++ {
					if answered[uKey{q, h, i}] {
						some = true
					}
					if !sentOnce[uKey{q, h, i}] {
						all = false
					}
				}
				if some {
					c.Partial++
				}
				if !all {
					fail("the driver is quiet but command %d of queue %d (%s) at the head of its queue was not (completely) sent", h, q, c.Queues[q].Prog[h])
				} else if !qs[q].IsRunning {
					fail("queue %d is marked idle (IsRunning = false) while requests of its head command %d are outstanding", q, h)
				}
			} else if qs[q].IsRunning {
				fail("queue %d is empty and the driver is quiet, but IsRunning = true", q)
			}
		}
	}

	// Coq term: single queue, no no-ops
	coqOK := nq == 1 && !strings.Contains(strings.Join(c.Queues[0].Prog, ","), "noop")
	var groups []string
	coqObs := func(o []int) string {
		b := "false"
		if o[1] == 1 {
			b = "true"
		}
		return fmt.Sprintf("(%d, %s, %d, %d)", o[0], b, o[2], o[3])
	}
	group := func(evs []string) {
		groups = append(groups, fmt.Sprintf("([%s], %s)", strings.Join(evs, "; "), coqObs(observe()[0])))
	}

	for q := range started {
		started[q] = false
	}
	settle()
	c.Events = append(c.Events, UEvent{E: "start", Obs: observe()})
	if coqOK {
		evs := []string{}
		if started[0] {
			evs = append(evs, "EStart")
		}
		group(evs)
	}
	for len(pend) > 0 && c.Answers < 10000 && c.Violation == "" {
		nans := 1
		if c.Batch && len(pend) >= 2 && rng.Intn(3) == 0 {
			nans = 2
		}
		for q := range started {
			started[q] = false
		}
		var evs []string
		var last UEvent
		for a := 0; a < nans; a++ {
			k := 0
			switch c.Policy {
			case "first":
				k = 0
			case "last":
				k = len(pend) - 1
			default:
				k = rng.Intn(len(pend))
			}
			p := pend[k]
			pend = append(pend[:k], pend[k+1:]...)
			// position of the request in the head command's request list (for the model)
			pos := -1
			if h := qs[p.key.q].Peek(); h != nil {
				for i, r := range h.GetReqs() {
					if r.Meta().ID == p.m.ID {
						pos = i
					}
				}
			}
			if pos < 0 {
				fail("the request of command %d of queue %d answered now is not in the request list of the head command", p.key.cmd, p.key.q)
			}
			evs = append(evs, fmt.Sprintf("R%d", pos))
			rsp := protocol.NewLaunchKernelRsp(p.m.Dst, p.m.Src, p.m.ID)
			if err := gpuPort.Deliver(rsp); err != nil {
				panic("driver port full")
			}
			answered[p.key] = true
			c.Answers++
			last = UEvent{E: "answer", Q: p.key.q, Cmd: p.key.cmd, Member: p.key.member}
		}
		settle()
		last.Obs = observe()
		c.Events = append(c.Events, last)
		if coqOK {
			// positions were taken before any answer of the group was processed; the model removes them one by one
			var pos []int
			for _, e := range evs {
				var x int
				fmt.Sscanf(e, "R%d", &x)
				pos = append(pos, x)
			}
			var mev []string
			for i, x := range pos {
				for j := 0; j < i; j++ {
					if pos[j] < pos[i] {
						x--
					}
				}
				mev = append(mev, fmt.Sprintf("EReply %d", x))
			}
			if started[0] {
				mev = append(mev, "EStart")
			}
			group(mev)
		}
	}
	if c.Violation == "" {
		for q := 0; q < nq; q++ {
			if n := qs[q].NumCommand(); n > 0 {
				fail("queue %d still holds %d of its %d commands (IsRunning = %v) and nothing is in flight: a drain of it never returns",
					q, n, len(cmds[q]), qs[q].IsRunning)
			}
		}
		for q := 0; q < nq; q++ {
			for k := range cmds[q] {
				for i := 0; i < nreq[q][k]; i++ {
					if !sentOnce[uKey{q, k, i}] {
						fail("no request was ever sent for command %d of queue %d, member %d", k, q, i)
					}
				}
			}
		}
	}
	if coqOK {
		var cl []string
		for k := range cmds[0] {
			cl = append(cl, fmt.Sprintf("mkCmd %d %d", k+1, nreq[0][k]))
		}
		c.Coq = fmt.Sprintf("([%s], [%s])", strings.Join(cl, "; "), strings.Join(groups, "; "))
	}
}

// genUnifiedCase: a unified device of 2-4 members; queue 0 starts with a unified
// kernel and goes on with further commands; optionally a second queue on the
// unified device and a queue on a plain GPU of another context.
func genUnifiedCase(r *vh.Rng, shape int) *UCase {
	c := &UCase{Unified: true, Seed: r.U64()}
	m := 2 + r.Intn(3)
	c.NGPU = m + r.Intn(2)
	perm := make([]int, c.NGPU)
	for i := range perm {
		perm[i] = i + 1
	}
	if r.Intn(3) == 0 { // members not in GPU order
		for i := len(perm) - 1; i > 0; i-- {
			j := r.Intn(i + 1)
			perm[i], perm[j] = perm[j], perm[i]
		}
	}
	c.Members = append([]int{}, perm[:m]...)
	c.Policy = []string{"random", "first", "last"}[r.Intn(3)]
	c.Batch = r.Intn(4) == 0
	kinds := []string{"unified", "kernel", "noop"}
	prog := func(first string, n int, noops bool) []string {
		p := []string{first}
		for i := 0; i < n; i++ {
			k := kinds[r.Intn(3)]
			if !noops && k == "noop" {
				k = "unified"
			}
			p = append(p, k)
		}
		return p
	}
	switch shape % 4 {
	case 0: // one queue, no no-ops: also compared with the model
		c.Name = "one queue: unified kernel followed by kernels"
		c.Queues = []UQueue{{GPU: 0, Prog: prog("unified", 1+r.Intn(3), false)}}
	case 1:
		c.Name = "one queue: unified kernel followed by kernels and no-ops"
		c.Queues = []UQueue{{GPU: 0, Prog: prog("unified", 1+r.Intn(3), true)}}
	case 2:
		c.Name = "two queues on the unified device"
		c.Queues = []UQueue{{GPU: 0, Prog: prog("unified", 1+r.Intn(2), true)}, {GPU: 0, Prog: prog(kinds[r.Intn(2)], 1+r.Intn(2), true)}}
	default:
		c.Name = "a queue on the unified device and a queue of another context on a plain GPU"
		c.Queues = []UQueue{{GPU: 0, Prog: prog("unified", 1+r.Intn(2), true)}, {GPU: 1 + r.Intn(c.NGPU), Prog: prog("kernel", 1+r.Intn(2), true)}}
	}
	// an ordinary kernel on the unified device has no single target GPU the harness could name: use unified kernels there
	for qi := range c.Queues {
		if c.Queues[qi].GPU == 0 {
			for k, kind := range c.Queues[qi].Prog {
				if kind == "kernel" {
					c.Queues[qi].Prog[k] = "unified"
				}
			}
		} else { // a plain GPU has no members
			for k, kind := range c.Queues[qi].Prog {
				if kind == "unified" {
					c.Queues[qi].Prog[k] = "kernel"
				}
			}
		}
	}
	return c
}

func unifiedCases(seed uint64, n int) []*UCase {
	r := vh.NewRng(seed ^ 0x0F1ED)
	var out []*UCase
	for i := 0; i < n; i++ {
		c := genUnifiedCase(r.Fork(), i)
		runUnifiedCase(c)
		out = append(out, c)
	}
	return out
}
