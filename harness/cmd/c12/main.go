// Command c12 runs a real, standalone driver.Driver (serial engine, no GPU:
// NoopCommands only) under a controlled scheduler.  Every goroutine of the
// protocol (application threads, runAsync, runEngine) stops at the named
// yield points added to amd/driver under the build tag "verif"; the scheduler
// grants one step at a time, waits until every goroutine is again at a yield
// point, really blocked or gone, and records what it sees in the vocabulary of
// coq/drv/Handoff.v.  A second mode runs the un-instrumented stress loop.
package main

import (
	"encoding/json"
	"flag"
	"fmt"
	"os"
	"regexp"
	"runtime"
	"strconv"
	"strings"
	"sync/atomic"
	"time"

	"github.com/sarchlab/akita/v4/mem/vm"
	"github.com/sarchlab/akita/v4/sim"
	"github.com/sarchlab/mgpusim/v4/amd/driver"
	"github.com/sarchlab/mgpusim/v4/amd/protocol"
	"github.com/tebeka/atexit"

	"verifharness/vh"
)

// ---------------------------------------------------------------- cases

type Op struct {
	Op  string `json:"op"` // enq | drain
	Q   int    `json:"q"`
	ID  uint64 `json:"id,omitempty"`
	K   string `json:"k,omitempty"`   // "" = NoopCommand, "async" = LaunchKernelCommand answered by the harness' GPU
	Lat int    `json:"lat,omitempty"` // cycles until the harness' GPU answers
}

type Step struct {
	G     string   `json:"g"`     // granted thread: a<t> | ra | es | e
	At    string   `json:"at"`    // yield point it was waiting at
	To    string   `json:"to"`    // where it is afterwards
	Chain []string `json:"chain"` // model steps this grant stands for
	Obs   []uint64 `json:"obs"`   // observation after the system went quiet
	Odd   string   `json:"odd,omitempty"`
}

type Event struct {
	E  string `json:"e"` // enq | ret | q (queue snapshot)
	T  int    `json:"t"`
	Q  int    `json:"q"`
	ID uint64 `json:"id"`
	N  int    `json:"n"`
}

type Case struct {
	Name      string     `json:"name,omitempty"`
	NQ        int        `json:"nq"`
	Progs     [][]Op     `json:"progs"`
	Grants    []string   `json:"grants,omitempty"` // input: steps to replay first
	Policy    string     `json:"policy,omitempty"` // how to continue: first | random | stop
	Seed      uint64     `json:"seed,omitempty"`
	Bias      int        `json:"bias,omitempty"`
	Probe     bool       `json:"probe,omitempty"` // allow DrainCommandQueue's send while runAsync is not in its select
	Hold      string     `json:"hold,omitempty"`  // thread:point kept waiting while anything else can move
	Cfg       string     `json:"cfg,omitempty"`   // model configuration to compare with: fixed | orig | cap1 | rerun
	Steps     []Step     `json:"steps,omitempty"`
	Hung      bool       `json:"hung"`
	Crashed   bool       `json:"crashed,omitempty"`    // runEngine recovered a panic of the driver and called atexit.Exit
	Term      bool       `json:"term,omitempty"`       // call Driver.Terminate as soon as every application thread has finished
	TermEarly string     `json:"term_early,omitempty"` // Terminate returned while an engine goroutine was still at this point
	TermStuck bool       `json:"term_stuck,omitempty"` // Terminate did not return although nothing was left to run
	Skipped   []string   `json:"skipped,omitempty"`    // requested grants that were not possible
	Log       []Event    `json:"log,omitempty"`
	Dump      string     `json:"dump,omitempty"`
	Alts      [][]string `json:"alts,omitempty"` // grantable threads before each step (exploration)
	Coq       string     `json:"coq,omitempty"`
}

// ---------------------------------------------------------------- scheduler

const (
	kApp = iota
	kRa
	kEng
)

type thread struct {
	kind    int
	idx     int
	goid    int64
	point   string
	atYield bool
	parked  bool
	done    bool
	grant   chan struct{}
	// application threads
	ops     []Op
	cur     atomic.Int64 // index of the op being executed (== number of completed ops when idle)
	rets    atomic.Int64
	sending bool // granted at drain:signal while runAsync was busy: blocked in the channel send
	// engine threads
	started bool
	qi      int
}

type arrival struct {
	goid  int64
	point string
	app   int
	grant chan struct{}
}

type sched struct {
	d          *driver.Driver
	qs         []*driver.CommandQueue
	arrivals   chan arrival
	probe      bool
	free       atomic.Bool
	me         int64
	byGoid     map[int64]*thread
	apps       []*thread
	ra         *thread
	engs       []*thread
	log        []Event
	qshadow    [][2]uint64
	gpuPort    sim.Port
	eng        *sim.SerialEngine
	cmdQ       map[uint64]int // command id -> queue index
	cmdLat     map[uint64]int
	gpuQ       atomic.Int64 // queue whose response event is being handled
	lastRet    int          // queue of the last response consumed by processReturnReq
	lstBlocked map[*driver.CommandQueue]bool
	qnow       [][2]uint64 // length and head of every queue after the last step (98 = not observable)
	qseen      []bool
	gpuID      atomic.Uint64
}

// ---------------------------------------------------------------- the harness' GPU

// gpuConn plays the GPU side of the driver's "GPU" port: every LaunchKernelReq
// is answered by a LaunchKernelRsp delivered by an engine event `lat` cycles later.
type gpuConn struct {
	sim.HookableBase
	s   *sched
	lat func() int // stress mode: latency of every answer
}

type rspEvent struct {
	*sim.EventBase
	rsp *protocol.LaunchKernelRsp
	q   int
	id  uint64 // command the answered request belongs to
}

func (c *gpuConn) Name() string                  { return "HarnessGPU" }
func (c *gpuConn) PlugIn(port sim.Port)          { port.SetConnection(c) }
func (c *gpuConn) Unplug(port sim.Port)          {}
func (c *gpuConn) NotifyAvailable(port sim.Port) {}
func (c *gpuConn) NotifySend() {
	s := c.s
	for {
		m := s.gpuPort.RetrieveOutgoing()
		if m == nil {
			return
		}
		req, ok := m.(*protocol.LaunchKernelReq)
		if !ok {
			continue
		}
		id := req.PacketAddress
		lat := s.cmdLat[id]
		if c.lat != nil {
			lat = c.lat()
		}
		if lat < 1 {
			lat = 1
		}
		rsp := protocol.NewLaunchKernelRsp(req.Dst, req.Src, req.ID)
		t := s.eng.CurrentTime() + sim.VTimeInSec(float64(lat)*1e-9)
		s.eng.Schedule(rspEvent{sim.NewEventBase(t, c), rsp, s.cmdQ[id], id})
	}
}

// Handle runs in the engine goroutine, inside SerialEngine.Run's pauseLock.
func (c *gpuConn) Handle(e sim.Event) error {
	ev := e.(rspEvent)
	c.s.gpuQ.Store(int64(ev.q))
	c.s.gpuID.Store(ev.id)
	c.s.hook("gpu:event")
	c.s.gpuPort.Deliver(ev.rsp)
	return nil
}

var goidRe = regexp.MustCompile(`(?m)^goroutine (\d+) \[([^\],]+)`)

func goid() int64 {
	var buf [64]byte
	n := runtime.Stack(buf[:], false)
	f := strings.Fields(string(buf[:n]))
	id, _ := strconv.ParseInt(f[1], 10, 64)
	return id
}

func (s *sched) yieldAs(app int, point string) {
	if s.free.Load() {
		return
	}
	g := make(chan struct{})
	s.arrivals <- arrival{goid(), point, app, g}
	<-g
}

func (s *sched) hook(point string) { s.yieldAs(-1, point) }

var stackBuf = make([]byte, 1<<20)

// snapshot returns goroutine id -> wait state for every goroutine but the caller.
func (s *sched) snapshot() map[int64]string {
	n := runtime.Stack(stackBuf, true)
	m := map[int64]string{}
	for _, g := range goidRe.FindAllSubmatch(stackBuf[:n], -1) {
		id, _ := strconv.ParseInt(string(g[1]), 10, 64)
		if id != s.me {
			m[id] = string(g[2])
		}
	}
	return m
}

// busy: the goroutine is not blocked on a synchronisation object of the
// program. Only genuine blocking states count as quiet; anything else
// (running, runnable, syscall, GC assist wait, ...) will move again by itself.
func busy(state string) bool {
	switch state {
	case "chan receive", "chan send", "select", "sync.Mutex.Lock", "sync.RWMutex.Lock", "sync.RWMutex.RLock",
		"semacquire", "sync.Cond.Wait", "sync.WaitGroup.Wait", "IO wait", "sleep", "select (no cases)",
		"chan receive (nil chan)", "chan send (nil chan)", "finalizer wait", "GC worker (idle)",
		"GC sweep wait", "GC scavenge wait", "force gc (idle)":
		return false
	}
	return true
}

func (s *sched) take(a arrival) {
	th := s.byGoid[a.goid]
	if th == nil {
		switch {
		case a.app >= 0:
			th = s.apps[a.app]
		case strings.HasPrefix(a.point, "ra:"):
			th = &thread{kind: kRa}
			s.ra = th
		default:
			th = &thread{kind: kEng, idx: len(s.engs)}
			s.engs = append(s.engs, th)
		}
		th.goid = a.goid
		s.byGoid[a.goid] = th
	}
	th.point, th.atYield, th.parked, th.grant = a.point, true, false, a.grant
	if th.kind == kEng {
		switch a.point {
		case "tick:begin":
			th.qi = -1
		case "tick:queue":
			th.qi++
		case "eng:run":
			th.started = true
		}
	}
}

// settle waits until every goroutine is at a yield point, blocked or gone.
func (s *sched) settle() map[int64]string {
	deadline := time.Now().Add(20 * time.Second)
	for {
		for {
			select {
			case a := <-s.arrivals:
				s.take(a)
				continue
			default:
			}
			break
		}
		snap := s.snapshot()
		quiet := len(s.arrivals) == 0
		for _, st := range snap {
			if busy(st) {
				quiet = false
			}
		}
		if quiet && len(s.arrivals) == 0 {
			// look twice: a goroutine must not have moved in between
			runtime.Gosched()
			for _, st := range s.snapshot() {
				if busy(st) {
					quiet = false
				}
			}
			if !quiet || len(s.arrivals) != 0 {
				continue
			}
			all := append(append([]*thread{}, s.apps...), s.engs...)
			if s.ra != nil {
				all = append(all, s.ra)
			}
			for _, th := range all {
				if th.goid == 0 || th.atYield || th.done {
					continue
				}
				if _, ok := snap[th.goid]; ok {
					th.parked = true
				} else {
					th.done = true
				}
			}
			return snap
		}
		if time.Now().After(deadline) {
			fmt.Fprintln(os.Stderr, "c12: system did not become quiet")
			os.Stderr.Write(stackBuf[:runtime.Stack(stackBuf, true)])
			os.Exit(3)
		}
		runtime.Gosched()
	}
}

func (s *sched) appsDone() bool {
	for _, a := range s.apps {
		if !a.done {
			return false
		}
	}
	return true
}

// shutdown: what Runner.Run does after the benchmarks returned. Terminate is
// called while the engine goroutine is wherever the last drain left it; it
// must not return before that goroutine has given up the engine.
func (s *sched) shutdown(c *Case) {
	done := make(chan struct{})
	go func() { s.d.Terminate(); close(done) }()
	returned := func() bool {
		select {
		case <-done:
			return true
		default:
			return false
		}
	}
	for i := 0; i < 300; i++ {
		s.settle()
		if returned() && c.TermEarly == "" {
			if e := s.activeEng(); e != nil && e.point != "eng:exit" { // at eng:exit it has given up the engine already
				c.TermEarly = e.point
			} else if e := s.waitingEng(); e != nil {
				c.TermEarly = e.point
			}
		}
		names := s.names()
		if len(names) == 0 {
			break
		}
		th := s.byName(names[0])
		th.atYield = false
		th.grant <- struct{}{}
	}
	s.settle()
	select {
	case <-done:
	case <-time.After(500 * time.Millisecond):
		c.TermStuck = true
	}
}

func (s *sched) activeEng() *thread {
	for _, e := range s.engs {
		if e.started && !e.done {
			return e
		}
	}
	return nil
}

func (s *sched) waitingEng() *thread {
	for _, e := range s.engs {
		if !e.started && !e.done {
			return e
		}
	}
	return nil
}

func engHoldsPause(e *thread) bool {
	if e == nil {
		return false
	}
	switch e.point {
	case "tick:begin", "tick:queue", "deq:notify", "tick:end", "gpu:event":
		return true
	}
	return false
}

// enabled: the thread's next model step is possible (computed from what the
// real system shows, not from the model).
func (s *sched) enabled(th *thread) bool {
	if th == nil || th.done || th.parked || !th.atYield {
		return false
	}
	switch th.kind {
	case kApp:
		if th.point == "drain:signal" {
			return s.ra != nil && s.ra.parked && s.ra.point == "ra:top"
		}
	case kRa:
		if th.point == "ra:pause" {
			return !engHoldsPause(s.activeEng())
		}
	case kEng:
		if !th.started {
			return s.activeEng() == nil
		}
	}
	return true
}

// grantable: enabled, and the whole chain up to the next yield point can run
// (the engine tests noMoreEvent and locks pauseLock without a yield between).
func (s *sched) grantable(th *thread) bool {
	if s.probe && th != nil && th.kind == kApp && th.atYield && !th.done && th.point == "drain:signal" {
		return true // on the code as specified the send blocks until runAsync is back in its select
	}
	if !s.enabled(th) {
		return false
	}
	if th.kind == kEng && th.point == "eng:run" && s.ra != nil &&
		(s.ra.point == "ra:tick" || s.ra.point == "ra:continue") && s.ra.atYield {
		return false
	}
	return true
}

func (s *sched) byName(n string) *thread {
	switch {
	case n == "ra":
		return s.ra
	case n == "e":
		return s.activeEng()
	case n == "es":
		return s.waitingEng()
	case strings.HasPrefix(n, "a"):
		i, err := strconv.Atoi(n[1:])
		if err == nil && i < len(s.apps) {
			return s.apps[i]
		}
	}
	return nil
}

func (s *sched) names() []string {
	var r []string
	for i, a := range s.apps {
		if s.grantable(a) {
			r = append(r, fmt.Sprintf("a%d", i))
		}
	}
	if s.grantable(s.ra) {
		r = append(r, "ra")
	}
	if s.grantable(s.waitingEng()) {
		r = append(r, "es")
	}
	if s.grantable(s.activeEng()) {
		r = append(r, "e")
	}
	return r
}

func appCode(a *thread) (uint64, uint64, uint64) {
	if a.done || a.point == "app:idle" {
		rem := len(a.ops) - int(a.cur.Load())
		if a.done {
			rem = 0
		}
		return 0, 0, uint64(rem)
	}
	q := uint64(a.ops[a.cur.Load()].Q)
	rem := uint64(len(a.ops) - int(a.cur.Load()) - 1)
	code := map[string]uint64{"enq:notify": 1, "drain:signal": 2, "drain:check": 3, "wait": 4,
		"unsub:close": 6, "unsub:remove": 7}[a.point]
	if a.point == "wait" && a.parked {
		code = 5
	} else if a.point == "drain:signal" && a.parked && a.sending {
		code = 2 // blocked in the rendezvous: still "about to signal"
	} else if a.parked || code == 0 {
		code = 98
	}
	return code, q, rem
}

func (s *sched) observe() []uint64 {
	var o []uint64
	for _, a := range s.apps {
		c, q, rem := appCode(a)
		o = append(o, c, q, rem, uint64(a.rets.Load()))
	}
	rc := uint64(98)
	if s.ra != nil {
		switch {
		case s.ra.point == "ra:top" && s.ra.parked:
			rc = 1
		case s.ra.parked:
			rc = 98
		default:
			rc = map[string]uint64{"ra:top": 0, "ra:pause": 2, "ra:tick": 3, "ra:continue": 4, "ra:test": 5}[s.ra.point]
		}
	} else {
		rc = 0
	}
	ec, ei := uint64(0), uint64(0)
	if e := s.activeEng(); e != nil {
		switch e.point {
		case "eng:run":
			ec = 1
		case "tick:begin":
			ec = 11
		case "gpu:event":
			ec = 3
		case "tick:queue":
			ec, ei = 6, uint64(e.qi)
		case "deq:notify":
			if e.qi < 0 { // before the first queue is visited: Dequeue of processLaunchKernelReturn
				ec, ei = 5, uint64(s.lastRet)
			} else {
				ec, ei = 7, uint64(e.qi)
			}
		case "tick:end":
			ec = 8
		case "eng:returned":
			ec = 9
		case "eng:exit":
			ec = 10
		}
		if e.parked {
			ec = 98
		}
	}
	nw, nd := 0, 0
	for _, e := range s.engs {
		if e.done {
			nd++
		} else if !e.started {
			nw++
		}
	}
	er, _ := tryFor(func() uint64 { return b2u(driver.VerifEngineRunning(s.d)) })
	o = append(o, 99, rc, ec, ei, uint64(nw), uint64(nd), er, 99)
	for qi, q := range s.qs {
		o = append(o, s.qnow[qi][0], s.qnow[qi][1], s.numListeners(q), b2u(q.IsRunning))
	}
	o = append(o, 99)
	for _, a := range s.apps {
		o = append(o, b2u(s.enabled(a)))
	}
	o = append(o, b2u(s.enabled(s.ra)), b2u(s.enabled(s.waitingEng())), b2u(s.enabled(s.activeEng())))
	return o
}

// tryFor evaluates an observation that takes a mutex of the code under test
// without ever blocking the scheduler: a goroutine parked at a yield point (or
// blocked for good) may hold that mutex. 98 = could not be observed.
func tryFor(f func() uint64) (uint64, bool) {
	ch := make(chan uint64, 1)
	go func() { ch <- f() }()
	select {
	case v := <-ch:
		return v, true
	case <-time.After(15 * time.Millisecond):
		return 98, false
	}
}

// peekQueues reads length and head of every queue (commandsMutex).
func (s *sched) peekQueues() {
	s.qnow = make([][2]uint64, len(s.qs))
	s.qseen = make([]bool, len(s.qs))
	for qi, q := range s.qs {
		q := q
		n, ok := tryFor(func() uint64 { return uint64(q.NumCommand()) })
		head := uint64(98)
		if ok {
			head, ok = tryFor(func() uint64 {
				if c := q.Peek(); c != nil {
					id, _ := strconv.ParseUint(strings.TrimPrefix(c.GetID(), "c"), 10, 64)
					return id + 1
				}
				return 0
			})
		}
		s.qnow[qi], s.qseen[qi] = [2]uint64{n, head}, ok
	}
}

// numListeners must not block the scheduler: a goroutine of the code under
// test may be blocked while it holds listenerMutex (then 98 is reported).
func (s *sched) numListeners(q *driver.CommandQueue) uint64 {
	if s.lstBlocked[q] {
		return 98
	}
	n, ok := tryFor(func() uint64 { return uint64(driver.VerifNumListeners(q)) })
	if !ok {
		if s.lstBlocked == nil {
			s.lstBlocked = map[*driver.CommandQueue]bool{}
		}
		s.lstBlocked[q] = true
	}
	return n
}

func b2u(b bool) uint64 {
	if b {
		return 1
	}
	return 0
}

func rep(x string, n int) []string {
	r := make([]string, n)
	for i := range r {
		r[i] = x
	}
	return r
}

// chain translates one granted real step into the model steps it stands for.
func (s *sched) chain(th *thread, name, old string, oldGq int64, wasSending bool) ([]string, string) {
	switch th.kind {
	case kApp:
		if old == "drain:signal" && th.parked {
			th.sending = true // blocked in the send: no model step yet
			return []string{}, ""
		}
		return []string{"TApp " + name[1:]}, ""
	case kRa:
		ch := []string{"TRa"}
		if old == "ra:top" {
			for i, a := range s.apps { // a blocked sender completed the rendezvous
				if a.sending && a.atYield {
					a.sending = false
					ch = append(ch, fmt.Sprintf("TApp %d", i))
				}
			}
		}
		return ch, ""
	}
	if old == "eng:start" {
		return []string{"TEngStart"}, ""
	}
	if th.parked {
		return []string{"TEng"}, "engine blocked after " + old
	}
	nw := th.point
	if th.done {
		nw = "gone"
	}
	// SerialEngine.Run from noMoreEvent() to the next yield point
	loop := func() []string {
		switch nw {
		case "tick:begin":
			return rep("TEng", 3)
		case "gpu:event":
			return rep("TEng", 2)
		case "eng:returned":
			return rep("TEng", 1)
		}
		return nil
	}
	switch old {
	case "eng:run":
		return loop(), ""
	case "tick:begin":
		return rep("TEng", 3), "" // sendToGPUs, completeEmptyCopies (none in these runs), processReturnReq
	case "tick:end":
		return append([]string{"TEng"}, loop()...), ""
	case "gpu:event":
		return append([]string{fmt.Sprintf("TEngGpu %d", oldGq), "TEng"}, loop()...), ""
	}
	return []string{"TEng"}, ""
}

func (s *sched) appMain(t int) {
	th := s.apps[t]
	for i, o := range th.ops {
		th.cur.Store(int64(i))
		s.yieldAs(t, "app:idle")
		if o.Op == "enq" {
			if o.K == "async" {
				s.d.Enqueue(s.qs[o.Q], &driver.LaunchKernelCommand{ID: fmt.Sprintf("c%d", o.ID), DPacket: driver.Ptr(o.ID)})
			} else {
				s.d.Enqueue(s.qs[o.Q], &driver.NoopCommand{ID: fmt.Sprintf("c%d", o.ID)})
			}
		} else {
			s.d.DrainCommandQueue(s.qs[o.Q])
			th.rets.Add(1)
		}
	}
	th.cur.Store(int64(len(th.ops)))
}

func allQuiet(me int64) {
	s := &sched{me: me}
	for i := 0; i < 200000; i++ {
		q := true
		for _, st := range s.snapshot() {
			if busy(st) {
				q = false
			}
		}
		if q {
			return
		}
		runtime.Gosched()
	}
}

// hungCases counts runs that ended with every goroutine blocked; each leaves its
// goroutines behind, so generation stops after maxHung of them.
var hungCases, maxHung = 0, 3

// the driver's runEngine turns a panic into atexit.Exit(1): keep what was
// observed up to then (the run in progress is marked as crashed).
var (
	doneCases []*Case
	curCase   *Case
	outPath   string
)

func dumpOnExit() {
	if curCase == nil || outPath == "" {
		return
	}
	curCase.Crashed = true
	curCase.Coq = coqCase(curCase)
	data, _ := json.Marshal(append(doneCases, curCase))
	os.WriteFile(outPath, data, 0o644)
}

func enough() bool { return hungCases >= maxHung }

func runCase(c *Case, maxSteps int, explore int) {
	curCase = c
	defer func() { doneCases, curCase = append(doneCases, c), nil }()
	me := goid()
	allQuiet(me)
	s := &sched{me: me, arrivals: make(chan arrival, 256), byGoid: map[int64]*thread{}}
	driver.VerifYieldHook = s.hook
	s.eng = sim.NewSerialEngine()
	s.probe = c.Probe
	s.d = driver.MakeBuilder().WithEngine(s.eng).
		WithPageTable(vm.NewPageTable(12)).WithLog2PageSize(12).Build("Driver")
	s.d.RegisterGPU(sim.NewPort(nil, 4, 4, "GPU1.CP"), driver.DeviceProperties{CUCount: 4, DRAMSize: 1 << 24})
	s.gpuPort = s.d.GetPortByName("GPU")
	(&gpuConn{s: s}).PlugIn(s.gpuPort)
	s.cmdQ, s.cmdLat = map[uint64]int{}, map[uint64]int{}
	for _, p := range c.Progs {
		for _, o := range p {
			if o.Op == "enq" {
				s.cmdQ[o.ID], s.cmdLat[o.ID] = o.Q, o.Lat
			}
		}
	}
	nctx := 1
	if c.NQ >= 2 {
		nctx = 2
	}
	ctxs := []*driver.Context{}
	for i := 0; i < nctx; i++ {
		ctxs = append(ctxs, s.d.Init())
	}
	for i := 0; i < c.NQ; i++ {
		s.qs = append(s.qs, s.d.CreateCommandQueue(ctxs[i*nctx/c.NQ]))
	}
	s.qshadow = make([][2]uint64, c.NQ)
	for t, p := range c.Progs {
		s.apps = append(s.apps, &thread{kind: kApp, idx: t, ops: p})
	}
	s.d.Run()
	for t := range c.Progs {
		go s.appMain(t)
	}
	s.settle()

	rng := vh.NewRng(c.Seed)
	want := c.Grants
	c.Grants, c.Steps, c.Skipped, c.Log, c.Alts = nil, nil, nil, nil, nil
	hung := false
	for len(c.Steps) < maxSteps {
		if c.Term && s.appsDone() {
			break // the shutdown phase below is not part of the model
		}
		names := s.names()
		if len(c.Steps) < explore {
			c.Alts = append(c.Alts, names)
		}
		if len(names) == 0 {
			for _, a := range s.apps {
				if !a.done {
					hung = true
				}
			}
			break
		}
		var name string
		for name == "" && len(want) > 0 {
			if th := s.byName(want[0]); th != nil && s.grantable(th) {
				name = want[0]
			} else {
				c.Skipped = append(c.Skipped, fmt.Sprintf("%d:%s", len(c.Steps), want[0]))
			}
			want = want[1:]
		}
		if name == "" {
			switch c.Policy {
			case "stop":
				names = nil
			case "random":
				if c.Hold != "" { // keep one thread waiting at one yield point while anything else can move
					var rest []string
					for _, n := range names {
						if th := s.byName(n); th == nil || !held(c.Hold, n, th.point) {
							rest = append(rest, n)
						}
					}
					if len(rest) > 0 {
						names = rest
					}
				}
				name = names[rng.Intn(len(names))]
				// bias: 1 prefers the engine, 2 prefers application threads, 3 starves the engine
				if c.Bias != 0 && rng.Intn(3) != 0 {
					for _, n := range names {
						if (c.Bias == 1 && n[0] == 'e') || (c.Bias == 2 && n[0] == 'a') {
							name = n
						}
					}
					if c.Bias == 3 && name[0] == 'e' {
						name = names[0]
					}
				}
			default:
				name = prio(names, c.Policy)
			}
			if names == nil {
				break
			}
		}
		th := s.byName(name)
		old := th.point
		oldGq := s.gpuQ.Load()
		wasSending := th.sending
		if th.kind == kEng && old == "gpu:event" { // the GPU's answer for this command reaches the driver's port now
			c.Log = append(c.Log, Event{E: "rsp", Q: int(oldGq), ID: s.gpuID.Load()})
		}
		// what the application thread is about to do (for the monitor's log)
		if th.kind == kApp && old == "app:idle" && th.ops[th.cur.Load()].Op == "enq" {
			o := th.ops[th.cur.Load()]
			c.Log = append(c.Log, Event{E: "enq", T: th.idx, Q: o.Q, ID: o.ID})
		}
		rets := int64(0)
		if th.kind == kApp {
			rets = th.rets.Load()
		}
		th.atYield = false
		th.grant <- struct{}{}
		s.settle()
		s.peekQueues()
		for qi := range s.qs { // which queue did processReturnReq complete a command of?
			if s.qseen[qi] && s.qnow[qi][0] < s.qshadow[qi][0] {
				s.lastRet = qi
			}
		}
		ch, odd := s.chain(th, name, old, oldGq, wasSending)
		obs := s.observe()
		if th.kind == kApp && th.rets.Load() > rets {
			c.Log = append(c.Log, Event{E: "ret", T: th.idx, Q: th.ops[th.cur.Load()-1].Q})
		}
		for qi := range s.qs {
			if s.qseen[qi] && s.qshadow[qi] != s.qnow[qi] {
				s.qshadow[qi] = s.qnow[qi]
				c.Log = append(c.Log, Event{E: "q", Q: qi, N: int(s.qnow[qi][0]), ID: s.qnow[qi][1]})
			}
		}
		c.Grants = append(c.Grants, name)
		to := th.point
		if th.done {
			to = "gone"
		} else if th.parked {
			to += ":blocked"
		}
		c.Steps = append(c.Steps, Step{G: name, At: old, To: to, Chain: ch, Obs: obs, Odd: odd})
	}
	c.Hung = hung
	if hung {
		hungCases++
		c.Dump = string(stackBuf[:runtime.Stack(stackBuf, true)])
	}
	c.Coq = coqCase(c)
	terminated := false
	if c.Term && !hung && s.appsDone() {
		terminated = true
		s.shutdown(c)
	}

	// let everything run to its end (or stay blocked forever, if it hung)
	s.free.Store(true)
	for {
		s.settle()
		n := 0
		for _, th := range s.byGoid {
			if th.atYield {
				th.atYield = false
				th.grant <- struct{}{}
				n++
			}
		}
		if n == 0 {
			break
		}
	}
	if !hung && !terminated {
		// stop runAsync; if it is stuck (a defect of the code under test) leave it behind
		done := make(chan struct{})
		go func() { s.d.Terminate(); close(done) }()
		select {
		case <-done:
		case <-time.After(300 * time.Millisecond):
		}
	}
	driver.VerifYieldHook = nil
}

func coqOps(p []Op) string {
	var xs []string
	for _, o := range p {
		if o.Op == "enq" {
			if o.K == "async" {
				xs = append(xs, fmt.Sprintf("OEnq %d (mkCmd %d Async)", o.Q, o.ID))
			} else {
				xs = append(xs, fmt.Sprintf("OEnq %d (noop %d)", o.Q, o.ID))
			}
		} else {
			xs = append(xs, fmt.Sprintf("ODrain %d", o.Q))
		}
	}
	return vh.CoqList(xs)
}

func coqCase(c *Case) string {
	cfg := map[string]string{"": "cfg_fixed", "fixed": "cfg_fixed", "orig": "cfg_orig",
		"cap1": "(mkCfg true false)", "rerun": "(mkCfg false true)"}[c.Cfg]
	var progs, steps []string
	for _, p := range c.Progs {
		progs = append(progs, coqOps(p))
	}
	for _, st := range c.Steps {
		steps = append(steps, "("+vh.CoqList(st.Chain)+", "+vh.CoqNList(st.Obs)+")")
	}
	return fmt.Sprintf("mkCase %s %d %s %s %s", cfg, c.NQ, vh.CoqList(progs), vh.CoqList(steps), vh.CoqBool(c.Hung))
}

// ---------------------------------------------------------------- generation

var lats = []int{1, 2, 3, 5, 9, 40}

func genProg(r *vh.Rng, nq int, next *uint64) []Op {
	var p []Op
	rounds := 1 + r.Intn(3)
	for i := 0; i < rounds; i++ {
		ne := r.Intn(3)
		q := r.Intn(nq)
		for j := 0; j < ne; j++ {
			if r.Intn(4) == 0 {
				q = r.Intn(nq)
			}
			*next++
			o := Op{Op: "enq", Q: q, ID: *next}
			if r.Intn(3) == 0 {
				o.K, o.Lat = "async", lats[r.Intn(len(lats))]
			}
			p = append(p, o)
		}
		if r.Intn(5) == 0 {
			q = r.Intn(nq)
		}
		p = append(p, Op{Op: "drain", Q: q})
	}
	return p
}

var holds = []string{"a0:drain:signal", "ra:ra:test", "ra:ra:continue", "ra:ra:tick", "ra:ra:pause",
	"e:eng:returned", "e:eng:run", "e:tick:end", "a0:wait", "a0:drain:check", "e:deq:notify", "a0:enq:notify"}

func genCase(r *vh.Rng, cfg string) *Case {
	c := &Case{NQ: 1 + r.Intn(3), Policy: "random", Seed: r.U64(), Bias: r.Intn(4), Cfg: cfg}
	nt := 1 + r.Intn(3)
	var next uint64
	for t := 0; t < nt; t++ {
		c.Progs = append(c.Progs, genProg(r, c.NQ, &next))
	}
	if r.Intn(3) == 0 {
		c.Hold = holds[r.Intn(len(holds))]
	}
	c.Probe = r.Bool()
	c.Term = r.Intn(3) == 0
	return c
}

// held: is thread n at point pt one of the comma-separated "thread:point" holds?
func held(holds, n, pt string) bool {
	for _, h := range strings.Split(holds, ",") {
		if h == n+":"+pt {
			return true
		}
	}
	return false
}

// prio picks the continuation of a schedule: "first" = application threads,
// runAsync, engine; "eng" = engine, application threads, runAsync; "ra" =
// runAsync, engine, application threads.
func prio(names []string, policy string) string {
	rank := func(n string) int {
		k := 1 // application thread
		if n == "ra" {
			k = 2
		} else if n[0] == 'e' {
			k = 3
		}
		switch policy {
		case "eng":
			return []int{0, 1, 2, 0}[k]
		case "ra":
			return []int{0, 2, 0, 1}[k]
		}
		return k
	}
	best := names[0]
	for _, n := range names {
		if rank(n) < rank(best) {
			best = n
		}
	}
	return best
}

func noopOp(q int, id uint64) Op           { return Op{Op: "enq", Q: q, ID: id} }
func asyncOp(q int, id uint64, lat int) Op { return Op{Op: "enq", Q: q, ID: id, K: "async", Lat: lat} }
func drainOp(q int) Op                     { return Op{Op: "drain", Q: q} }

// shapes: programs aimed at the windows of the protocol (a thread kept between
// Subscribe and its signal while another drains; runAsync kept at each of its
// yield points while the engine is alive because of another queue's command;
// a busy context created before an idle one), each with the holds that open
// the window.
func shapes() []*Case {
	var out []*Case
	add := func(nq int, progs [][]Op, hs ...string) {
		for _, h := range hs {
			out = append(out, &Case{NQ: nq, Progs: progs, Hold: h, Probe: true, Policy: "random"})
		}
	}
	add(1, [][]Op{{noopOp(0, 1), drainOp(0), drainOp(0), noopOp(0, 2), drainOp(0)}},
		"ra:ra:test", "ra:ra:continue", "ra:ra:tick", "e:eng:returned")
	add(2, [][]Op{{asyncOp(1, 1, 40), drainOp(1)}, {noopOp(0, 2), drainOp(0), drainOp(0), noopOp(0, 3), drainOp(0)}},
		"ra:ra:test", "ra:ra:continue", "ra:ra:pause")
	add(2, [][]Op{{noopOp(0, 1), drainOp(0)}, {drainOp(1), noopOp(1, 2), drainOp(1)}},
		"ra:ra:test,e:eng:run,a1:app:idle", "ra:ra:continue,e:eng:run,a1:app:idle", "ra:ra:test,e:eng:returned")
	add(1, [][]Op{{noopOp(0, 1), noopOp(0, 2), drainOp(0)}, {drainOp(0), drainOp(0)}}, "a0:drain:signal", "a0:drain:check")
	add(2, [][]Op{{noopOp(0, 1), noopOp(0, 2), drainOp(0)}, {drainOp(1), drainOp(1)}}, "a0:drain:signal")
	add(2, [][]Op{{noopOp(0, 1), noopOp(0, 2), noopOp(0, 3), drainOp(0)}}, "", "ra:ra:test")
	add(2, [][]Op{{asyncOp(0, 1, 3), asyncOp(0, 2, 1), drainOp(0)}, {asyncOp(1, 3, 9), noopOp(1, 4), drainOp(1)}},
		"", "e:tick:end", "ra:ra:test")
	// kernels in flight on queues of two contexts, the first context answered first (and the other way round)
	add(2, [][]Op{{asyncOp(0, 1, 2), noopOp(0, 2), drainOp(0)}, {asyncOp(1, 3, 40), noopOp(1, 4), drainOp(1)}}, "", "a1:drain:check")
	add(2, [][]Op{{asyncOp(0, 1, 40), noopOp(0, 2), drainOp(0)}, {asyncOp(1, 3, 2), noopOp(1, 4), drainOp(1)}}, "")
	add(3, [][]Op{{asyncOp(0, 1, 5), asyncOp(1, 2, 2), asyncOp(2, 3, 9), drainOp(1), drainOp(0), drainOp(2)}}, "")
	// a drain entering while a Dequeue / Enqueue of the same queue is between its update and its notification
	add(1, [][]Op{{noopOp(0, 1), noopOp(0, 2), drainOp(0)}, {drainOp(0), drainOp(0)}}, "e:deq:notify")
	add(1, [][]Op{{noopOp(0, 1), drainOp(0), noopOp(0, 2), drainOp(0)}, {drainOp(0), drainOp(0), drainOp(0)}}, "a0:enq:notify", "e:deq:notify")
	return out
}

func shapedCases(r *vh.Rng, cfg string, reps, maxSteps int) []*Case {
	var out []*Case
	for _, sh := range shapes() {
		for k := 0; k < reps && !enough(); k++ {
			c := &Case{NQ: sh.NQ, Progs: sh.Progs, Hold: sh.Hold, Probe: true, Policy: "random", Seed: r.U64(), Cfg: cfg, Term: k%2 == 1}
			runCase(c, maxSteps, 0)
			out = append(out, c)
		}
	}
	return out
}

// holdPoints: lengths of the prefixes after which the held threads (all but
// at most one of them, when there are several holds) sit at their hold points.
func holdPoints(c *Case) []int {
	var ks []int
	need := len(strings.Split(c.Hold, ",")) - 1
	if need < 1 {
		need = 1
	}
	at := map[string]string{}
	for k, st := range c.Steps {
		at[st.G] = st.To
		if st.G == "es" { // the goroutine that acquired engineMutex is "e" from now on
			at["e"] = st.To
			delete(at, "es")
		}
		n := 0
		for g, pt := range at {
			if held(c.Hold, g, pt) {
				n++
			}
		}
		if n >= need && held(c.Hold, st.G, st.To) {
			ks = append(ks, k+1)
		}
	}
	return ks
}

// exploreAll runs every grant sequence that differs from an already executed
// one within `depth` steps after the prefix pre0 (the rest follows the "first" policy).
func exploreAll(base *Case, pre0 []string, depth, maxRuns, maxSteps int, pols ...string) []*Case {
	var out []*Case
	if len(pols) == 0 {
		pols = []string{"first"}
	}
	todo := [][]string{pre0}
	seen := map[string]bool{strings.Join(pre0, ","): true}
	lim := len(pre0) + depth
	for len(todo) > 0 && len(out) < maxRuns && !enough() {
		pre := todo[0]
		todo = todo[1:]
		var c *Case
		for _, pol := range pols {
			c = &Case{NQ: base.NQ, Progs: base.Progs, Grants: append([]string{}, pre...), Policy: pol, Cfg: base.Cfg, Probe: base.Probe}
			runCase(c, maxSteps, lim)
			out = append(out, c)
		}
		start := len(pre)
		if start < len(pre0) {
			start = len(pre0)
		}
		for k := start; k < len(c.Alts) && k < lim && k < len(c.Grants); k++ {
			for _, alt := range c.Alts[k] {
				if alt == c.Grants[k] {
					continue
				}
				p := append(append([]string{}, c.Grants[:k]...), alt)
				key := strings.Join(p, ",")
				if !seen[key] {
					seen[key] = true
					todo = append(todo, p)
				}
			}
		}
		c.Alts = nil
	}
	return out
}

// exploreAround: bounded exploration around the point at which a shape's
// held thread is released.
func exploreAround(r *vh.Rng, cfg string, depth, runsPer, maxSteps int) []*Case {
	var out []*Case
	for _, sh := range shapes() {
		if enough() || !(strings.Contains(sh.Hold, ",") || strings.HasPrefix(sh.Hold, "a0:drain:signal")) {
			continue
		}
		seen := map[string]bool{}
		for rep := 0; rep < 4; rep++ {
			c := &Case{NQ: sh.NQ, Progs: sh.Progs, Hold: sh.Hold, Probe: true, Policy: "random", Seed: r.U64(), Cfg: cfg}
			runCase(c, maxSteps, 0)
			out = append(out, c)
			ks := holdPoints(c)
			if len(ks) > 8 {
				ks = ks[:8]
			}
			for _, k := range ks {
				if k > len(c.Grants) {
					k = len(c.Grants)
				}
				key := strings.Join(c.Grants[:k], ",")
				if seen[key] || enough() {
					continue
				}
				seen[key] = true
				out = append(out, exploreAll(&Case{NQ: sh.NQ, Progs: sh.Progs, Cfg: cfg, Probe: true}, c.Grants[:k], depth,
					runsPer, maxSteps, "first", "eng", "ra")...)
			}
		}
	}
	return out
}

// ---------------------------------------------------------------- stress

type StressResult struct {
	Iterations int64   `json:"iterations"`
	Seconds    float64 `json:"seconds"`
	Hung       bool    `json:"hung"`
	Dump       string  `json:"dump,omitempty"`
}

// stress: free-running goroutines on one driver. Every worker has its own
// queue; with `mix` it also issues asynchronous commands answered by the
// harness' GPU after 1-40 cycles (so the engine is often kept running by another
// queue while a drain is issued) and now and then drains a queue shared by all
// workers right after enqueueing two no-ops to it. With `chaos` the yield hook
// sleeps 0-200 us at about every 12th yield point, which stretches the windows
// between the protocol's steps (for instance between Engine.Continue() and the
// engineRunning test of runAsync) without controlling the schedule.
func stress(seconds float64, workers int, target int64, mix, chaos, oneq bool, seed uint64) StressResult {
	driver.VerifYieldHook = nil
	var rnd atomic.Uint64
	rnd.Store(seed*0x9e3779b97f4a7c15 + 1)
	next := func() uint64 {
		z := rnd.Add(0x9e3779b97f4a7c15)
		z = (z ^ (z >> 30)) * 0xbf58476d1ce4e5b9
		z = (z ^ (z >> 27)) * 0x94d049bb133111eb
		return z ^ (z >> 31)
	}
	if chaos {
		driver.VerifYieldHook = func(point string) {
			if r := next(); r%12 == 0 {
				time.Sleep(time.Duration((r>>8)%200) * time.Microsecond)
			}
		}
	}
	s := &sched{cmdQ: map[uint64]int{}, cmdLat: map[uint64]int{}}
	s.free.Store(true)
	s.eng = sim.NewSerialEngine()
	d := driver.MakeBuilder().WithEngine(s.eng).
		WithPageTable(vm.NewPageTable(12)).WithLog2PageSize(12).Build("Driver")
	d.RegisterGPU(sim.NewPort(nil, 4, 4, "GPU1.CP"), driver.DeviceProperties{CUCount: 4, DRAMSize: 1 << 24})
	s.gpuPort = d.GetPortByName("GPU")
	(&gpuConn{s: s, lat: func() int { return 1 + int(next()%40) }}).PlugIn(s.gpuPort)
	d.Run()
	var iters int64
	var stop atomic.Bool
	per := make([]atomic.Int64, workers) // every worker must keep returning from its drains
	shared := d.CreateCommandQueue(d.Init())
	for w := 0; w < workers; w++ {
		ctx := d.Init()
		go func(w int) {
			q := d.CreateCommandQueue(ctx)
			if oneq { // every worker enqueues to and drains the one shared queue
				q = shared
			}
			for n := 0; !stop.Load(); n++ {
				if n%5000 == 4999 && n < 40000 && !oneq {
					q = d.CreateCommandQueue(ctx)
				}
				if mix && next()%4 == 0 {
					d.Enqueue(q, &driver.LaunchKernelCommand{ID: "k"})
				} else {
					d.Enqueue(q, &driver.NoopCommand{ID: "a"})
				}
				if n%3 != 0 {
					d.Enqueue(q, &driver.NoopCommand{ID: "b"})
				}
				d.DrainCommandQueue(q)
				if mix && next()%8 == 0 {
					d.Enqueue(shared, &driver.NoopCommand{ID: "s"})
					d.Enqueue(shared, &driver.NoopCommand{ID: "t"})
					d.DrainCommandQueue(shared)
				}
				atomic.AddInt64(&iters, 1)
				per[w].Add(1)
			}
		}(w)
	}
	t0 := time.Now()
	lastN := make([]int64, workers)
	lastT := make([]time.Time, workers)
	for w := range lastT {
		lastN[w], lastT[w] = -1, time.Now()
	}
	res := StressResult{}
	for {
		time.Sleep(50 * time.Millisecond)
		n := atomic.LoadInt64(&iters)
		for w := range per {
			if k := per[w].Load(); k != lastN[w] {
				lastN[w], lastT[w] = k, time.Now()
			} else if time.Since(lastT[w]) > 2*time.Second {
				res.Hung = true
			}
		}
		if res.Hung {
			res.Dump = string(stackBuf[:runtime.Stack(stackBuf, true)])
			break
		}
		el := time.Since(t0).Seconds()
		if (target > 0 && n >= target) || (target == 0 && el >= seconds) || el > 20*seconds+600 {
			break
		}
	}
	stop.Store(true)
	res.Iterations = atomic.LoadInt64(&iters)
	res.Seconds = time.Since(t0).Seconds()
	return res
}

// ---------------------------------------------------------------- main

func jsonMarshal(v interface{}) ([]byte, error) { return json.Marshal(v) }

func isHandReplay(path string) bool {
	var probe []struct {
		Hand bool `json:"hand"`
	}
	data, err := os.ReadFile(path)
	return err == nil && json.Unmarshal(data, &probe) == nil && len(probe) > 0 && probe[0].Hand
}

func isUnifiedReplay(path string) bool {
	var probe []struct {
		Unified bool `json:"unified"`
	}
	data, err := os.ReadFile(path)
	return err == nil && json.Unmarshal(data, &probe) == nil && len(probe) > 0 && probe[0].Unified
}

func isCopyReplay(path string) bool {
	var probe []struct {
		Copy bool `json:"copy"`
	}
	data, err := os.ReadFile(path)
	return err == nil && json.Unmarshal(data, &probe) == nil && len(probe) > 0 && probe[0].Copy
}

func main() {
	seed := flag.Uint64("seed", 1, "")
	n := flag.Int("n", 100, "number of random cases")
	out := flag.String("out", "", "")
	replay := flag.String("replay", "", "JSON list of cases to replay")
	cfg := flag.String("cfg", "fixed", "model configuration the observations are compared with")
	maxSteps := flag.Int("max-steps", 400, "")
	exDepth := flag.Int("explore", 0, "exhaustive exploration depth (0 = none)")
	exRuns := flag.Int("explore-runs", 2000, "")
	shaped := flag.Int("shaped", 2, "random runs per shaped program and hold")
	around := flag.Int("around", -1, "exploration depth at the hold points of each shape (0 = the three continuation policies only, -1 = off)")
	aroundRuns := flag.Int("around-runs", 40, "")
	flag.IntVar(&maxHung, "max-hung", 3, "stop generating after this many hung runs")
	hsaco := flag.String("codeobj", "", "code-object stream: path of amd/driver/memcopy.hsaco")
	handN := flag.Int("hand", 0, "hand-ticked histories over the model's command kinds (noop, kernel, zero-byte copy)")
	copyN := flag.Int("copy", 0, "copy mode: number of hand-ticked multi-queue copy cases")
	uniN := flag.Int("unified", 0, "unified mode: number of hand-ticked cases with multi-request commands (unified multi-GPU kernels)")
	stressS := flag.Float64("stress", 0, "run the un-instrumented stress loop for this many seconds")
	stressW := flag.Int("workers", 8, "")
	stressMix := flag.Bool("mix", false, "stress: asynchronous commands and a shared queue as well")
	stressOneQ := flag.Bool("oneq", false, "stress: all workers share one queue")
	stressChaos := flag.Bool("chaos", false, "stress: random short sleeps at the yield points")
	stressN := flag.Int64("stress-iters", 0, "stop the stress loop after this many iterations instead")
	flag.Parse()
	outPath = *out
	atexit.Register(dumpOnExit)

	if *hsaco != "" {
		wd, _ := os.MkdirTemp("", "c12co")
		os.Chdir(wd) // the simulation writes its akita_sim_*.sqlite3 into the working directory
		codeObjMain(*hsaco, *out)
		os.RemoveAll(wd)
		return
	}
	var result interface{}
	switch {
	case *stressS > 0 || *stressN > 0:
		result = stress(*stressS, *stressW, *stressN, *stressMix, *stressChaos, *stressOneQ, *seed)
	case *handN > 0:
		result = handCases(*seed, *handN)
	case *copyN > 0:
		result = copyCases(*seed, *copyN)
	case *replay != "" && isHandReplay(*replay):
		var cases []*HandCase
		data, _ := os.ReadFile(*replay)
		if err := json.Unmarshal(data, &cases); err != nil {
			fmt.Fprintln(os.Stderr, err)
			os.Exit(2)
		}
		for _, c := range cases {
			c.Stuck, c.Panic, c.NotComparable = "", "", ""
			runHandCase(c)
		}
		result = cases
	case *uniN > 0:
		result = unifiedCases(*seed, *uniN)
	case *replay != "" && isUnifiedReplay(*replay):
		var cases []*UCase
		data, _ := os.ReadFile(*replay)
		if err := json.Unmarshal(data, &cases); err != nil {
			fmt.Fprintln(os.Stderr, err)
			os.Exit(2)
		}
		for _, c := range cases {
			c.Events, c.Sent, c.Answers, c.Partial, c.Violation, c.Panic, c.Coq = nil, nil, 0, 0, "", "", ""
			runUnifiedCase(c)
		}
		result = cases
	case *replay != "" && isCopyReplay(*replay):
		var cases []*CopyCase
		data, _ := os.ReadFile(*replay)
		if err := json.Unmarshal(data, &cases); err != nil {
			fmt.Fprintln(os.Stderr, err)
			os.Exit(2)
		}
		for _, c := range cases {
			c.Stuck, c.BadData, c.IdleRunning, c.Panic, c.Answers, c.InFlight = "", "", "", "", 0, 0
			runCopyCase(c)
		}
		result = cases
	case *replay != "":
		var cases []*Case
		data, err := os.ReadFile(*replay)
		if err == nil {
			err = json.Unmarshal(data, &cases)
		}
		if err != nil {
			fmt.Fprintln(os.Stderr, err)
			os.Exit(2)
		}
		for _, c := range cases {
			if c.Cfg == "" {
				c.Cfg = *cfg
			}
			if c.Policy == "" {
				c.Policy = "first"
			}
			runCase(c, *maxSteps, 0)
		}
		result = cases
	case *exDepth > 0:
		var cases []*Case
		bases := []*Case{
			{NQ: 1, Progs: [][]Op{{{Op: "enq", Q: 0, ID: 1}, {Op: "drain", Q: 0}}}, Cfg: *cfg},
			{NQ: 1, Progs: [][]Op{{{Op: "enq", Q: 0, ID: 1}, {Op: "drain", Q: 0}, {Op: "enq", Q: 0, ID: 2}, {Op: "drain", Q: 0}}}, Cfg: *cfg},
			{NQ: 2, Progs: [][]Op{{{Op: "enq", Q: 0, ID: 1}, {Op: "drain", Q: 0}}, {{Op: "enq", Q: 1, ID: 2}, {Op: "drain", Q: 1}}}, Cfg: *cfg},
			{NQ: 1, Progs: [][]Op{{{Op: "enq", Q: 0, ID: 1}, {Op: "drain", Q: 0}}, {{Op: "drain", Q: 0}}}, Cfg: *cfg},
		}
		bases = append(bases,
			&Case{NQ: 1, Progs: [][]Op{{asyncOp(0, 1, 2), drainOp(0)}}, Cfg: *cfg},
			&Case{NQ: 2, Progs: [][]Op{{asyncOp(0, 1, 3), drainOp(0)}, {noopOp(1, 2), drainOp(1)}}, Cfg: *cfg, Probe: true})
		for _, b := range bases {
			cases = append(cases, exploreAll(b, nil, *exDepth, *exRuns/len(bases), *maxSteps)...)
		}
		result = cases
	default:
		r := vh.NewRng(*seed)
		var cases []*Case
		cases = append(cases, shapedCases(r.Fork(), *cfg, *shaped, *maxSteps)...)
		for i := 0; i < *n && !enough(); i++ {
			c := genCase(r.Fork(), *cfg)
			runCase(c, *maxSteps, 0)
			cases = append(cases, c)
		}
		if *around >= 0 {
			cases = append(cases, exploreAround(r.Fork(), *cfg, *around, *aroundRuns, *maxSteps)...)
		}
		result = cases
	}
	data, _ := json.Marshal(result)
	if *out != "" {
		if err := os.WriteFile(*out, data, 0o644); err != nil {
			fmt.Fprintln(os.Stderr, err)
			os.Exit(2)
		}
	} else {
		os.Stdout.Write(data)
	}
}
