// Code-object stream of the C12 harness: "commands of other queues or contexts
// never disturb their data" for kernel launches. An in-process emulation
// platform (the samples' emusystem builder), ONE *insts.KernelCodeObject (the
// driver's own copyKernel), several contexts from Driver.Init() - i.e. several
// processes / address spaces - and contexts that share a process
// (InitWithExistingPID). Every context launches the same code object on its
// own buffers; the monitor: each context's output = what the kernel computes on
// that context's input (a copy), whatever other contexts did before.
package main

import (
	"fmt"
	"os"

	"github.com/sarchlab/akita/v4/simulation"
	"github.com/sarchlab/mgpusim/v4/amd/arch"
	"github.com/sarchlab/mgpusim/v4/amd/driver"
	"github.com/sarchlab/mgpusim/v4/amd/insts"
	"github.com/sarchlab/mgpusim/v4/amd/samples/runner/emusystem"
	"github.com/tebeka/atexit"
)

type CoStep struct {
	Ctx    int    `json:"ctx"`    // context that launches
	Result string `json:"result"` // ok | wrong | (the process died: see Died)
	Detail string `json:"detail,omitempty"`
}

type CoCase struct {
	CodeObj  bool     `json:"codeobj"`
	Name     string   `json:"name"`
	Contexts []string `json:"contexts"` // "new" = Driver.Init(), "share:<k>" = InitWithExistingPID(context k)
	Order    []int    `json:"order"`    // launching contexts, in order
	Steps    []CoStep `json:"steps"`
	Died     string   `json:"died,omitempty"` // the driver's engine goroutine panicked during this launch
}

var coScenarios = []CoCase{
	{Name: "two processes, one code object", Contexts: []string{"new", "new"}, Order: []int{0, 1}},
	{Name: "two processes, each launches twice, interleaved", Contexts: []string{"new", "new"}, Order: []int{0, 1, 0, 1}},
	{Name: "second process first", Contexts: []string{"new", "new"}, Order: []int{1, 0, 1}},
	{Name: "three processes", Contexts: []string{"new", "new", "new"}, Order: []int{2, 0, 1, 2}},
	{Name: "two contexts of one process share the upload", Contexts: []string{"new", "share:0"}, Order: []int{0, 1, 0}},
	{Name: "a context of the first process after another process", Contexts: []string{"new", "new", "share:0"}, Order: []int{0, 1, 2}},
}

var (
	coCur  *CoCase
	coDone []*CoCase
	coOut  string
)

func coDump() {
	if coOut == "" {
		return
	}
	all := append([]*CoCase{}, coDone...)
	if coCur != nil {
		if coCur.Died == "" {
			coCur.Died = fmt.Sprintf("the driver's engine goroutine panicked while context %d launched the code object (launch %d of the scenario)",
				coCur.Order[len(coCur.Steps)], len(coCur.Steps)+1)
		}
		all = append(all, coCur)
	}
	data, _ := jsonMarshal(all)
	os.WriteFile(coOut, data, 0o644)
}

func runCoCase(c *CoCase, co *insts.KernelCodeObject) {
	coCur = c
	c.Steps, c.Died = nil, ""
	s := simulation.MakeBuilder().WithoutMonitoring().Build()
	emusystem.MakeBuilder().WithSimulation(s).WithNumGPUs(1).WithArchitecture(arch.GCN3).Build()
	d := s.GetComponentByName("Driver").(*driver.Driver)
	d.Run()
	ctxs := []*driver.Context{}
	for _, k := range c.Contexts {
		var share int
		if _, err := fmt.Sscanf(k, "share:%d", &share); err == nil {
			ctxs = append(ctxs, d.InitWithExistingPID(ctxs[share]))
		} else {
			ctxs = append(ctxs, d.Init())
		}
	}
	const n = 96
	for li, ci := range c.Order {
		ctx := ctxs[ci]
		d.SelectGPU(ctx, 1)
		in := make([]float32, n)
		for i := range in {
			in[i] = float32(1000*(ci+1) + 10*li + i)
		}
		src := d.AllocateMemory(ctx, n*4)
		dst := d.AllocateMemory(ctx, n*4)
		d.MemCopyH2D(ctx, src, in)
		d.MemCopyH2D(ctx, dst, make([]float32, n))
		d.LaunchKernel(ctx, co, [3]uint32{n, 1, 1}, [3]uint16{32, 1, 1}, &driver.KernelMemCopyArgs{Src: src, Dst: dst, N: n})
		out := make([]float32, n)
		d.MemCopyD2H(ctx, out, dst)
		st := CoStep{Ctx: ci, Result: "ok"}
		for i := range out {
			if out[i] != in[i] {
				st.Result = "wrong"
				st.Detail = fmt.Sprintf("output[%d] = %v, the kernel copies input[%d] = %v", i, out[i], i, in[i])
				break
			}
		}
		c.Steps = append(c.Steps, st)
	}
	coDone, coCur = append(coDone, c), nil
	d.Terminate()
	s.Terminate()
}

func codeObjMain(hsaco, out string) {
	coOut = out
	atexit.Register(coDump)
	data, err := os.ReadFile(hsaco)
	if err != nil {
		fmt.Fprintln(os.Stderr, err)
		os.Exit(2)
	}
	co := insts.LoadKernelCodeObjectFromBytes(data, "copyKernel")
	if co == nil {
		fmt.Fprintln(os.Stderr, "copyKernel not found in", hsaco)
		os.Exit(2)
	}
	for i := range coScenarios {
		c := coScenarios[i]
		c.CodeObj = true
		runCoCase(&c, co)
	}
	coDump()
}
