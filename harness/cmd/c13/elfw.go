package main

// A minimal, independent ELF64 little-endian writer.  It knows nothing about
// the loader under test: it serialises a Spec (sections with their contents,
// symbols with explicit section indices) into a well-formed relocatable-style
// object with section headers only (no program headers).
//
// Section kinds: "progbits", "note", "nobits" are written as given; "symtab",
// "strtab", "shstrtab" are placeholders whose contents the writer produces
// (their position in Spec.Sections fixes their ELF section index).
// ELF section index = position in Spec.Sections + 1 (index 0 is the null
// section, which the writer adds).

import (
	"bytes"
	"encoding/binary"
)

type SecSpec struct {
	Name string `json:"name"`
	Kind string `json:"kind"`
	Addr uint64 `json:"addr"`
	Data string `json:"data"` // hex
}

type SymSpec struct {
	Name  string `json:"name"`
	Info  uint8  `json:"info"`
	Other uint8  `json:"other"`
	Shndx uint16 `json:"shndx"`
	Value uint64 `json:"value"`
	Size  uint64 `json:"size"`
}

type strtab struct {
	buf bytes.Buffer
	idx map[string]uint32
}

func newStrtab() *strtab {
	s := &strtab{idx: map[string]uint32{}}
	s.buf.WriteByte(0)
	s.idx[""] = 0
	return s
}

func (s *strtab) add(x string) uint32 {
	if i, ok := s.idx[x]; ok {
		return i
	}
	i := uint32(s.buf.Len())
	s.buf.WriteString(x)
	s.buf.WriteByte(0)
	s.idx[x] = i
	return i
}

const (
	shtNull     = 0
	shtProgbits = 1
	shtSymtab   = 2
	shtStrtab   = 3
	shtNote     = 7
)

// WriteELF serialises the spec.  abiVersion goes to e_ident[EI_ABIVERSION].
func WriteELF(secs []SecSpec, syms []SymSpec, abiVersion byte) []byte {
	le := binary.LittleEndian
	shstr := newStrtab()
	str := newStrtab()

	symtabIdx, strtabIdx, shstrIdx := -1, -1, -1
	for i, s := range secs {
		switch s.Kind {
		case "symtab":
			symtabIdx = i + 1
		case "strtab":
			strtabIdx = i + 1
		case "shstrtab":
			shstrIdx = i + 1
		}
	}

	// symbol table contents (entry 0 is the null symbol)
	var symData bytes.Buffer
	symData.Write(make([]byte, 24))
	for _, y := range syms {
		var e [24]byte
		le.PutUint32(e[0:], str.add(y.Name))
		e[4] = y.Info
		e[5] = y.Other
		le.PutUint16(e[6:], y.Shndx)
		le.PutUint64(e[8:], y.Value)
		le.PutUint64(e[16:], y.Size)
		symData.Write(e[:])
	}

	nameOff := make([]uint32, len(secs))
	for i, s := range secs {
		nameOff[i] = shstr.add(s.Name)
	}

	contents := make([][]byte, len(secs))
	for i, s := range secs {
		switch s.Kind {
		case "symtab":
			contents[i] = symData.Bytes()
		case "strtab":
			contents[i] = str.buf.Bytes()
		case "shstrtab":
			contents[i] = shstr.buf.Bytes()
		default:
			contents[i] = unhex(s.Data)
		}
	}

	var out bytes.Buffer
	out.Write(make([]byte, 64)) // file header, patched below
	offs := make([]uint64, len(secs))
	for i := range secs {
		for out.Len()%8 != 0 {
			out.WriteByte(0)
		}
		offs[i] = uint64(out.Len())
		out.Write(contents[i])
	}
	for out.Len()%8 != 0 {
		out.WriteByte(0)
	}
	shoff := uint64(out.Len())

	out.Write(make([]byte, 64)) // null section header
	for i, s := range secs {
		var h [64]byte
		le.PutUint32(h[0:], nameOff[i])
		typ, flags, link, info, entsize := uint32(shtProgbits), uint64(0), uint32(0), uint32(0), uint64(0)
		switch s.Kind {
		case "symtab":
			typ, link, info, entsize = shtSymtab, uint32(strtabIdx), 1, 24
		case "strtab", "shstrtab":
			typ = shtStrtab
		case "note":
			typ, flags = shtNote, 2
		default:
			flags = 2 // SHF_ALLOC
			if s.Name == ".text" {
				flags = 6 // ALLOC|EXECINSTR
			}
		}
		le.PutUint32(h[4:], typ)
		le.PutUint64(h[8:], flags)
		le.PutUint64(h[16:], s.Addr)
		le.PutUint64(h[24:], offs[i])
		le.PutUint64(h[32:], uint64(len(contents[i])))
		le.PutUint32(h[40:], link)
		le.PutUint32(h[44:], info)
		le.PutUint64(h[48:], 4)
		le.PutUint64(h[56:], entsize)
		out.Write(h[:])
	}
	_ = symtabIdx

	b := out.Bytes()
	copy(b[0:], []byte{0x7f, 'E', 'L', 'F', 2, 1, 1, 64, abiVersion})
	le.PutUint16(b[16:], 3)   // ET_DYN
	le.PutUint16(b[18:], 224) // EM_AMDGPU
	le.PutUint32(b[20:], 1)
	le.PutUint64(b[24:], 0) // entry
	le.PutUint64(b[32:], 0) // phoff
	le.PutUint64(b[40:], shoff)
	le.PutUint32(b[48:], 0x2c) // e_flags
	le.PutUint16(b[52:], 64)
	le.PutUint16(b[54:], 56)
	le.PutUint16(b[56:], 0)
	le.PutUint16(b[58:], 64)
	le.PutUint16(b[60:], uint16(len(secs)+1))
	if shstrIdx < 0 {
		shstrIdx = 0
	}
	le.PutUint16(b[62:], uint16(shstrIdx))
	return b
}
