package main

// Generator of code objects.  Valid stream: what the property quantifies over
// (1-6 kernels with a V2/V3 header or a V5 descriptor, or header-less code
// without descriptor that does not look like a header; unique names; every
// symbol inside its section; shuffled symbol table; arbitrary section order
// and addresses; instruction bytes that may mimic a header when a descriptor
// exists).  Hostile stream: the same objects damaged in one or two ways
// (colliding names, out-of-range symbols, missing sections, ...); only the
// model/implementation correspondence is checked on those.

import (
	"encoding/binary"
	"encoding/hex"
	"fmt"

	"verifharness/vh"
)

var le = binary.LittleEndian

var namePool = []string{"vecadd", "vecadd2", "vec", "a", "MatMul", "_Z6kernelPfi", "a.b", "k", "kd", "x.k",
	"StencilKernel", "copy_kernel", "b", "num_vgpr"}

var interestingCounts = []uint64{0, 1, 2, 5, 6, 7, 13, 14, 22, 30, 61, 62, 100, 102, 104, 105, 254, 255, 256, 510,
	65525, 65526, 65527, 65533, 65534, 65535, 65536 + 6, 1<<32 + 9}

func randBytes(r *vh.Rng, n int) []byte {
	b := make([]byte, n)
	for i := range b {
		b[i] = byte(r.U64())
	}
	return b
}

func pickU32(r *vh.Rng) uint32 {
	switch r.Intn(5) {
	case 0:
		return 0
	case 1:
		return uint32(r.Intn(300))
	case 2:
		return 0xffffffff
	}
	return uint32(r.U64())
}

// sigFields writes the five fields isV2V3Header looks at.
func sigFields(b []byte, major, minor uint32, kind, mvm uint16, entry uint64) {
	le.PutUint32(b[0:], major)
	le.PutUint32(b[4:], minor)
	le.PutUint16(b[8:], kind)
	le.PutUint16(b[10:], mvm)
	le.PutUint64(b[16:], entry)
}

// genuine amd_kernel_code_t: 256 bytes, everything the loader does not look
// at is random.
func genHeader(r *vh.Rng) []byte {
	h := randBytes(r, 256)
	sigFields(h, 1, uint32(r.Intn(3)), 1, uint16(7+r.Intn(3)), 256)
	le.PutUint32(h[48:], pickU32(r))
	le.PutUint32(h[52:], pickU32(r))
	if r.Intn(3) == 0 {
		le.PutUint32(h[56:], uint32(r.Intn(1024)))
	}
	le.PutUint32(h[60:], pickU32(r))
	le.PutUint32(h[64:], pickU32(r))
	if r.Intn(2) == 0 {
		le.PutUint64(h[72:], uint64(r.Intn(200)))
	}
	le.PutUint16(h[84:], uint16(r.Intn(110)))
	le.PutUint16(h[86:], uint16(r.Intn(260)))
	return h
}

// code that is NOT a header but close to one (one of the five fields off by
// one), or ordinary random code.
func genNearMiss(r *vh.Rng, n int) []byte {
	b := randBytes(r, n)
	if n < 24 {
		return b
	}
	major, minor, kind, mvm, entry := uint32(1), uint32(r.Intn(3)), uint16(1), uint16(7+r.Intn(3)), uint64(256)
	switch r.Intn(9) {
	case 0:
		major = uint32(2 * r.Intn(2))
	case 1:
		minor = 3
	case 2:
		kind = uint16(2 * r.Intn(2))
	case 3:
		mvm = 6
	case 4:
		mvm = 10
	case 5:
		entry = 255
	case 6:
		entry = 257
	case 7:
		entry = 256 + 1<<32
	case 8:
		if n >= 256 { // a perfect signature in an object that is too short does not arise here
			major = 1 + 1<<16
		}
	}
	sigFields(b, major, minor, kind, mvm, entry)
	return b
}

func genMimic(r *vh.Rng, n int) []byte {
	b := randBytes(r, n)
	sigFields(b, 1, uint32(r.Intn(3)), 1, uint16(7+r.Intn(3)), 256)
	return b
}

func genKd(r *vh.Rng) []byte {
	d := randBytes(r, 64)
	le.PutUint32(d[0:], pickU32(r))
	le.PutUint32(d[4:], pickU32(r))
	switch r.Intn(3) {
	case 0:
		le.PutUint32(d[8:], 0)
	case 1:
		le.PutUint32(d[8:], uint32(1+r.Intn(300)))
	}
	if r.Intn(2) == 0 {
		le.PutUint64(d[16:], uint64(r.Intn(8192)))
	}
	if r.Intn(4) == 0 { // work-item id field 0, workgroup ids off
		v := le.Uint32(d[52:]) &^ (3 << 11) &^ (3 << 7)
		le.PutUint32(d[52:], v)
	}
	if r.Intn(6) == 0 {
		le.PutUint32(d[48:], uint32(r.Intn(1024)))
	}
	return d
}

type kern struct {
	name string
	kind string // v3 v5 raw
	blob []byte
	kd   []byte
	off  uint64 // offset in .text
	kdo  uint64 // offset in .rodata
}

func pickAddr(r *vh.Rng) uint64 {
	switch r.Intn(6) {
	case 0:
		return 0
	case 1:
		return 0x1000
	case 2:
		return 0x1900
	case 3:
		return uint64(r.Intn(1<<20)) * 4
	case 4:
		return 1<<63 + uint64(r.Intn(4096))*256
	}
	return uint64(r.U64()>>1) &^ 3
}

func shuffle[T any](r *vh.Rng, xs []T) {
	for i := len(xs) - 1; i > 0; i-- {
		j := r.Intn(i + 1)
		xs[i], xs[j] = xs[j], xs[i]
	}
}

func genCase(r *vh.Rng, idx int) *Case {
	c := &Case{Src: "gen", Valid: true, Symtab: true, Truth: map[string]string{}}
	c.Abi = []byte{0, 1, 2, 3}[r.Intn(4)]
	nk := 1 + r.Intn(6)
	if r.Intn(5) == 0 {
		nk = 1 // single-kernel objects are also loaded with the empty name
	}
	names := append([]string(nil), namePool...)
	shuffle(r, names)
	var ks []*kern
	for i := 0; i < nk; i++ {
		k := &kern{name: names[i]}
		clen := 4 * (1 + r.Intn(120))
		if r.Intn(8) == 0 {
			clen = 4 * (60 + r.Intn(10)) // around 256 bytes
		}
		switch r.Pick(4, 5, 2) {
		case 0:
			k.kind = "v3"
			code := randBytes(r, 4*r.Intn(100))
			if r.Intn(5) == 0 {
				code = genMimic(r, 256+4*r.Intn(20)) // code after a real header that again looks like one
			}
			if r.Intn(6) == 0 {
				code = nil // header only
			}
			k.blob = append(genHeader(r), code...)
		case 1:
			k.kind = "v5"
			switch r.Intn(3) {
			case 0:
				k.blob = genMimic(r, 256+4*r.Intn(40))
			case 1:
				k.blob = genNearMiss(r, clen)
			default:
				k.blob = randBytes(r, clen)
			}
			k.kd = genKd(r)
		default:
			k.kind = "raw"
			k.blob = genNearMiss(r, clen)
			if r.Intn(4) == 0 { // a perfect signature in fewer than 256 bytes
				k.blob = genMimic(r, 24+4*r.Intn(58))
			}
		}
		c.Truth[k.name] = k.kind
		ks = append(ks, k)
	}

	// .text and .rodata layout
	order := append([]*kern(nil), ks...)
	shuffle(r, order)
	var text, ro []byte
	pad := func(b []byte) []byte {
		if r.Intn(2) == 0 {
			return append(b, randBytes(r, 4*r.Intn(20))...)
		}
		return b
	}
	text = pad(text)
	for _, k := range order {
		k.off = uint64(len(text))
		text = append(text, k.blob...)
		if r.Intn(3) != 0 {
			text = pad(text)
		}
	}
	shuffle(r, order)
	hasKd := false
	ro = pad(ro)
	for _, k := range order {
		if k.kd != nil {
			hasKd = true
			k.kdo = uint64(len(ro))
			ro = append(ro, k.kd...)
			if r.Intn(2) == 0 {
				ro = pad(ro)
			}
		}
	}
	textAddr, roAddr := pickAddr(r), pickAddr(r)

	// section table
	var secs []SecSpec
	secs = append(secs, SecSpec{Name: ".text", Kind: "progbits", Addr: textAddr, Data: hex.EncodeToString(text)})
	if hasKd || r.Intn(2) == 0 {
		secs = append(secs, SecSpec{Name: ".rodata", Kind: "progbits", Addr: roAddr, Data: hex.EncodeToString(ro)})
	}
	if r.Intn(2) == 0 {
		secs = append(secs, SecSpec{Name: ".note", Kind: "note", Addr: pickAddr(r), Data: hex.EncodeToString(randBytes(r, 4*r.Intn(30)))})
	}
	for _, nm := range []string{".data", ".comment", ".AMDGPU.csdata", ".text.hot", ".rodata.str"} {
		if r.Intn(3) == 0 {
			secs = append(secs, SecSpec{Name: nm, Kind: "progbits", Addr: pickAddr(r), Data: hex.EncodeToString(randBytes(r, 4*r.Intn(40)))})
		}
	}
	secs = append(secs, SecSpec{Name: ".symtab", Kind: "symtab"}, SecSpec{Name: ".strtab", Kind: "strtab"},
		SecSpec{Name: ".shstrtab", Kind: "shstrtab"})
	shuffle(r, secs)
	idxOf := func(name string) uint16 {
		for i, s := range secs {
			if s.Name == name {
				return uint16(i + 1)
			}
		}
		return 0
	}
	ti, ri := idxOf(".text"), idxOf(".rodata")

	// symbols
	var syms []SymSpec
	used := map[string]bool{}
	add := func(y SymSpec) {
		syms = append(syms, y)
		used[y.Name] = true
	}
	for _, k := range ks {
		info := uint8(0x12) // GLOBAL FUNC
		if k.kind == "v3" && r.Intn(2) == 0 {
			info = 0x1a // GLOBAL, STT_AMDGPU_HSA_KERNEL
		}
		add(SymSpec{k.name, info, uint8(r.Intn(4)), ti, textAddr + k.off, uint64(len(k.blob))})
		if k.kd != nil {
			add(SymSpec{k.name + ".kd", 0x11, 0, ri, roAddr + k.kdo, 64})
			if r.Intn(3) != 0 {
				add(SymSpec{k.name + ".num_vgpr", 0x10, 0, 0xfff1, interestingCounts[r.Intn(len(interestingCounts))], 0})
			}
			if r.Intn(3) != 0 {
				add(SymSpec{k.name + ".numbered_sgpr", 0x10, 0, 0xfff1, interestingCounts[r.Intn(len(interestingCounts))], 0})
			}
		} else if r.Intn(5) == 0 {
			// metadata symbols without descriptor must be ignored
			add(SymSpec{k.name + ".num_vgpr", 0x10, 0, 0xfff1, 200, 0})
		}
	}
	reserved := func(n string) bool {
		if used[n] {
			return true
		}
		for _, k := range ks {
			if n == k.name || n == k.name+".kd" || n == k.name+".num_vgpr" || n == k.name+".numbered_sgpr" {
				return true
			}
		}
		return false
	}
	noise := r.Intn(8)
	for i := 0; i < noise; i++ {
		k := ks[r.Intn(len(ks))]
		var y SymSpec
		switch r.Intn(9) {
		case 0:
			y = SymSpec{k.name + ".num_agpr", 0x10, 0, 0xfff1, uint64(r.Intn(512)), 0}
		case 1:
			y = SymSpec{k.name + ".private_seg_size", 0x10, 0, 0xfff1, uint64(r.Intn(512)), 0}
		case 2:
			y = SymSpec{k.name + "$local", 0x02, 0, ti, textAddr + k.off, 0} // label, size 0
		case 3:
			y = SymSpec{fmt.Sprintf("undef%d", i), 0x10, 0, 0, 0, 0}
		case 4:
			y = SymSpec{fmt.Sprintf("other%d.kd", i), 0x11, 0, ri, roAddr, 64}
		case 5:
			y = SymSpec{fmt.Sprintf("dat%d", i), 0x11, 0, idxOf(".symtab"), uint64(r.Intn(100)), uint64(r.Intn(100))}
		case 6: // device function: another symbol of positive size in .text
			if len(text) >= 4 {
				o := uint64(4 * r.Intn(len(text)/4))
				y = SymSpec{fmt.Sprintf("devfn%d", i), 0x12, 0, ti, textAddr + o, uint64(4 * (1 + r.Intn((len(text)-int(o))/4)))}
			}
		case 7:
			y = SymSpec{k.name + ".kdx", 0x11, 0, ri, roAddr + 4, 64}
		case 8:
			y = SymSpec{k.name + "X.num_vgpr", 0x10, 0, 0xfff1, 400, 0}
		}
		if y.Name == "" || reserved(y.Name) {
			continue
		}
		add(y)
	}
	shuffle(r, syms)
	c.Tag = "valid"
	if r.Intn(3) == 0 {
		syms = addDecoys(r, syms, ks, ti, ri, idxOf(".data"), textAddr, roAddr)
		c.Tag = "valid+decoy"
	}
	c.Secs, c.Syms = secs, syms
	c.ks = ks
	for _, k := range ks {
		c.Queries = append(c.Queries, Query{Name: k.name})
	}
	// exactly one kernel symbol (positive size, in .text): auto-detection
	nKernelSyms := 0
	for _, y := range syms {
		if y.Shndx == ti && y.Size > 0 {
			nKernelSyms++
		}
	}
	if nKernelSyms == 1 {
		c.Queries = append(c.Queries, Query{Name: ""})
		c.Tag += "+auto"
	}

	if idx%3 == 2 {
		hostile(r, c, ks, ti, ri, textAddr, roAddr, uint64(len(text)), uint64(len(ro)))
	}
	return c
}

func hostile(r *vh.Rng, c *Case, ks []*kern, ti, ri uint16, textAddr, roAddr, textLen, roLen uint64) {
	c.Valid = false
	c.Truth = nil
	c.Tag = "hostile"
	find := func(name string) int {
		for i, y := range c.Syms {
			if y.Name == name {
				return i
			}
		}
		return -1
	}
	insert := func(y SymSpec) {
		p := r.Intn(len(c.Syms) + 1)
		c.Syms = append(c.Syms[:p], append([]SymSpec{y}, c.Syms[p:]...)...)
	}
	rename := func(from, to string) {
		for i := range c.Secs {
			if c.Secs[i].Name == from {
				c.Secs[i].Name = to
			}
		}
	}
	for n := 1 + r.Intn(2); n > 0; n-- {
		k := ks[r.Intn(len(ks))]
		ki := find(k.name)
		kdi := find(k.name + ".kd")
		what := r.Intn(16)
		c.Tag += fmt.Sprintf("+%d", what)
		switch what {
		case 0: // colliding kernel name
			o := ks[r.Intn(len(ks))]
			insert(SymSpec{k.name, 0x12, 0, ti, textAddr + o.off, uint64(len(o.blob))})
		case 1: // colliding descriptor / metadata
			if kdi >= 0 {
				y := c.Syms[kdi]
				switch r.Intn(3) {
				case 0:
					y.Value = roAddr + uint64(r.Intn(int(roLen)+1))
				case 1:
					y.Shndx = ti
				case 2:
					y.Size = 32
				}
				insert(y)
			}
			insert(SymSpec{k.name + ".num_vgpr", 0x10, 0, 0xfff1, uint64(r.Intn(300)), 0})
			insert(SymSpec{k.name + ".numbered_sgpr", 0x10, 0, 0xfff1, uint64(r.Intn(120)), 0})
		case 2:
			if kdi >= 0 {
				c.Syms[kdi].Size = []uint64{0, 63, 65, 128}[r.Intn(4)]
			}
		case 3:
			if kdi >= 0 {
				c.Syms[kdi].Shndx = []uint16{0, ti, 0xfff1, uint16(len(c.Secs) + 1), uint16(len(c.Secs) + 7)}[r.Intn(5)]
			}
		case 4: // descriptor out of bounds / wrapping
			if kdi >= 0 {
				c.Syms[kdi].Value = []uint64{roAddr + roLen - 63, roAddr + roLen, roAddr + roLen + 1000, roAddr - 64,
					roAddr - 1, roAddr - 65, roAddr + 1<<63}[r.Intn(7)]
			}
		case 5: // kernel symbol out of bounds / wrapping
			if ki >= 0 {
				switch r.Intn(5) {
				case 0:
					c.Syms[ki].Size = textLen - k.off + 1
				case 1:
					c.Syms[ki].Value = textAddr - 4
				case 2:
					c.Syms[ki].Value = textAddr + textLen
				case 3:
					c.Syms[ki].Size = ^uint64(0) - k.off + 1
				case 4:
					c.Syms[ki].Value = textAddr + textLen + 4
				}
			}
		case 6:
			rename(".text", ".txt")
		case 7:
			c.Symtab = false
			var s2 []SecSpec
			for _, s := range c.Secs {
				if s.Kind != "symtab" {
					s2 = append(s2, s)
				}
			}
			c.Secs = s2
			c.Queries = append(c.Queries, Query{Name: ""})
			n = 0
		case 8:
			c.Queries = append(c.Queries, Query{Name: ""})
		case 9:
			c.Queries = append(c.Queries, Query{Name: "nonexistent"}, Query{Name: k.name + ".kd"})
		case 10:
			rename(".rodata", ".rodata2")
		case 11: // a second .text / .rodata section
			nm := []string{".text", ".rodata"}[r.Intn(2)]
			s := SecSpec{Name: nm, Kind: "progbits", Addr: pickAddr(r), Data: hex.EncodeToString(randBytes(r, 4*r.Intn(100)))}
			p := r.Intn(len(c.Secs) + 1)
			// indices of existing symbols must follow their sections
			for i := range c.Syms {
				if c.Syms[i].Shndx < 0xff00 && int(c.Syms[i].Shndx) >= p+1 {
					c.Syms[i].Shndx++
				}
			}
			c.Secs = append(c.Secs[:p], append([]SecSpec{s}, c.Secs[p:]...)...)
			ti, ri = 0, 0
			for i, s := range c.Secs {
				if s.Name == ".text" && ti == 0 {
					ti = uint16(i + 1)
				}
				if s.Name == ".rodata" && ri == 0 {
					ri = uint16(i + 1)
				}
			}
			insert(SymSpec{"second", 0x12, 0, uint16(p + 1), s.Addr, 8})
			c.Queries = append(c.Queries, Query{Name: "second"})
		case 12:
			if ki >= 0 {
				c.Syms[ki].Shndx = []uint16{0, 0xfff1, uint16(len(c.Secs) + 1), uint16(len(c.Secs) + 2)}[r.Intn(4)]
			}
		case 13: // a kernel whose name ends in .kd, of size 64, in .text
			insert(SymSpec{k.name + ".kd", 0x12, 0, ti, textAddr, 64})
			c.Queries = append(c.Queries, Query{Name: k.name + ".kd"})
		case 14: // header-less kernel without descriptor that mimics a header
			if ki >= 0 && kdi < 0 && textLen >= 256 {
				c.Syms[ki].Value, c.Syms[ki].Size = textAddr, textLen
			}
		case 15: // only one kernel symbol left: auto-detection
			var s2 []SymSpec
			for _, y := range c.Syms {
				if y.Shndx != ti || y.Size == 0 || y.Name == k.name {
					s2 = append(s2, y)
				}
			}
			c.Syms = s2
			c.Queries = []Query{{Name: ""}, {Name: k.name}}
		}
	}
}

// variant returns an object with the same sections, symbols, kernel names and
// therefore the same file length as a, but with different kernel contents:
// new header fields / code bytes / descriptors at the same places.
func variant(r *vh.Rng, a *Case) *Case {
	b := *a
	b.Secs = append([]SecSpec(nil), a.Secs...)
	b.Syms = append([]SymSpec(nil), a.Syms...)
	b.Queries = nil
	b.Tag = "variant"
	var text, ro []byte
	ti, ri := -1, -1
	for i, s := range b.Secs {
		if s.Name == ".text" && ti < 0 {
			ti, text = i, unhex(s.Data)
		}
		if s.Name == ".rodata" && ri < 0 {
			ri, ro = i, unhex(s.Data)
		}
	}
	for _, k := range a.ks {
		n := len(k.blob)
		var nb []byte
		switch k.kind {
		case "v3":
			nb = append(genHeader(r), randBytes(r, n-256)...)
		case "v5":
			nb = randBytes(r, n)
			if n >= 256 && r.Intn(2) == 0 {
				nb = genMimic(r, n)
			}
		default:
			nb = genNearMiss(r, n)
			if n >= 24 && n < 256 && r.Intn(2) == 0 {
				nb = genMimic(r, n)
			}
		}
		copy(text[k.off:], nb)
		if k.kd != nil {
			copy(ro[k.kdo:], genKd(r))
		}
	}
	b.Secs[ti].Data = hex.EncodeToString(text)
	if ri >= 0 {
		b.Secs[ri].Data = hex.EncodeToString(ro)
	}
	return &b
}

// genHistory: a sequence of loads performed by ONE process.  Images 0..2 are
// an object and two variants of it (same length, same kernel names, different
// contents) that take turns in one reused buffer; an unrelated object is
// interleaved.  The sequence always contains A:k, B:k, A:k (overwrite in
// place and load again), A:k twice in a row (repeated load) and loads of
// different kernels in between.
func genHistory(r *vh.Rng) *Case {
	a := genCase(r.Fork(), 0)
	h := &Case{Src: "hist", Tag: "history", Valid: true}
	h.Images = []*Case{a, variant(r, a), variant(r, a), genCase(r.Fork(), 1)}
	pick := func(img int) string {
		ks := h.Images[img%3].ks
		if img == 3 {
			ks = h.Images[3].ks
		}
		return ks[r.Intn(len(ks))].name
	}
	k := pick(0)
	add := func(img int, name string, fresh bool) {
		h.Steps = append(h.Steps, Step{Img: img, Name: name, Fresh: fresh})
	}
	add(0, k, false)
	add(1, k, false)
	add(0, k, false)
	add(0, k, false)
	add(2, k, r.Intn(3) == 0)
	for n := 3 + r.Intn(10); n > 0; n-- {
		img := r.Pick(3, 3, 2, 2)
		name := pick(img)
		if r.Intn(3) == 0 {
			name = k
			if img == 3 {
				img = 1
			}
		}
		add(img, name, r.Intn(5) == 0)
	}
	for _, im := range h.Images {
		im.Src = "gen"
		im.Queries = nil
	}
	return h
}

// addDecoys inserts, at random places before and after the real ones,
// symbols that carry the name of a kernel, of its descriptor or of its
// metadata symbols but are not the real thing for the unchanged loader: other
// sizes (the descriptor is the symbol of size 64), other sections, other
// types and bindings (LOCAL / GLOBAL / WEAK).  A well-formed object may
// contain them (ELF allows a local and a global of the same name) and the
// result of loading the kernel must not depend on them.
func addDecoys(r *vh.Rng, syms []SymSpec, ks []*kern, ti, ri, di uint16, textAddr, roAddr uint64) []SymSpec {
	insert := func(y SymSpec) {
		p := r.Intn(len(syms) + 1)
		syms = append(syms[:p], append([]SymSpec{y}, syms[p:]...)...)
	}
	info := func() uint8 { // binding LOCAL/GLOBAL/WEAK, type NOTYPE/OBJECT/FUNC/SECTION
		return uint8(r.Intn(3))<<4 | uint8(r.Intn(4))
	}
	secOther := func() uint16 { // anywhere except .text: a positive-size symbol there would be another kernel
		c := []uint16{0, 0xfff1}
		if ri != 0 {
			c = append(c, ri, ri)
		}
		if di != 0 {
			c = append(c, di)
		}
		return c[r.Intn(len(c))]
	}
	for n := 1 + r.Intn(5); n > 0; n-- {
		k := ks[r.Intn(len(ks))]
		switch r.Intn(6) {
		case 0, 1: // <k>.kd of a size other than 64, anywhere (zero-sized ones also in .text)
			size := []uint64{0, 0, 0, 8, 32, 63, 65, 128}[r.Intn(8)]
			sh := secOther()
			if size == 0 && r.Intn(3) == 0 {
				sh = ti
			}
			insert(SymSpec{k.name + ".kd", info(), 0, sh, roAddr + k.kdo, size})
		case 2: // label with the kernel's name: size 0 in .text
			insert(SymSpec{k.name, uint8(r.Intn(3)) << 4, 0, ti, textAddr + k.off, 0})
		case 3: // same name, positive size, not in .text
			insert(SymSpec{k.name, info(), 0, secOther(), uint64(r.Intn(4096)), uint64(4 * (1 + r.Intn(64)))})
		case 4, 5: // metadata symbol once more: same value, other binding / type / size / section
			suffix := []string{".num_vgpr", ".numbered_sgpr"}[r.Intn(2)]
			for _, y := range syms {
				if y.Name == k.name+suffix {
					d := y
					d.Info = info()
					if r.Intn(2) == 0 {
						d.Shndx = secOther()
					}
					d.Size = uint64(4 * r.Intn(3))
					if r.Intn(4) == 0 {
						d.Value = uint64(r.Intn(300)) // disagreeing duplicate: correspondence only
					}
					insert(d)
					break
				}
			}
		}
	}
	return syms
}
