// Command c13 feeds generated (or replayed) ELF code objects and the shipped
// .hsaco files to the real insts.LoadKernelCodeObjectFromBytes and records,
// per (object, kernel name), every field of the returned KernelCodeObject (or
// the panic / log.Fatal the loader ended in) next to the abstract view
// (sections, symbols) the Coq model is evaluated on.
//
// log.Fatal cannot be recovered, so loader calls run in a worker subprocess
// (the same binary with --worker); when the worker exits with status 1 the
// call it was working on is recorded as fatal and a new worker continues.
package main

import (
	"bufio"
	"debug/elf"
	"encoding/binary"
	"encoding/hex"
	"encoding/json"
	"flag"
	"fmt"
	"os"
	"os/exec"
	"path/filepath"
	"sort"
	"strings"

	"github.com/sarchlab/mgpusim/v4/amd/insts"

	"verifharness/vh"
)

type Meta struct {
	Rsrc1, Rsrc2, Rsrc3                                uint32
	Kernarg                                            uint64
	Group, Private                                     uint32
	Entry                                              uint64
	EnPSB, EnDispatchPtr, EnQueuePtr, EnKernargPtr     bool
	EnDispatchID, EnFlatScratch, EnPrivSize            bool
	EnWgX, EnWgY, EnWgZ                                bool
	CVMajor, CVMinor                                   uint32
	MKind, MVMajor, MVMinor, MVStep, WFSgpr, WIVgpr    uint16
}

type Result struct {
	Class   string   `json:"class"` // ok | panic | fatal | died
	Msg     string   `json:"msg,omitempty"`
	Fatal   int      `json:"fatal,omitempty"`
	Version int      `json:"version,omitempty"`
	Data    string   `json:"data,omitempty"`
	Sym     *SymSpec `json:"sym,omitempty"`
	Meta    *Meta    `json:"meta,omitempty"`
}

type Query struct {
	Name string  `json:"name"`
	Res  *Result `json:"res,omitempty"`
}

type Case struct {
	Src     string            `json:"src"` // gen | shipped
	File    string            `json:"file,omitempty"`
	Tag     string            `json:"tag"`
	Valid   bool              `json:"valid"`
	Abi     uint8             `json:"abi"`
	Secs    []SecSpec         `json:"secs"`
	Syms    []SymSpec         `json:"syms"`
	Symtab  bool              `json:"symtab"`
	Truth   map[string]string `json:"truth,omitempty"` // kernel -> v3 | v5 | raw (what the generator put there)
	Queries []Query           `json:"queries"`
	Elf     string            `json:"elf,omitempty"`
	Coq     string            `json:"coq,omitempty"`
	// history container (Src == "hist"): loads executed in ONE process, in
	// order; Images[i].Queries receive the results of the steps on image i
	Images []*Case `json:"images,omitempty"`
	Steps  []Step  `json:"steps,omitempty"`

	ks []*kern // generator's layout (not serialised)
}

// Step is one load of a history.  Fresh=false: the image is copied into the
// history's single reused buffer (overwriting the previous image in place)
// and loaded from there; Fresh=true: loaded from a fresh slice.
type Step struct {
	Img   int    `json:"img"`
	Name  string `json:"name"`
	Fresh bool   `json:"fresh"`
	Q     int    `json:"q"`
}

func unhex(s string) []byte {
	b, err := hex.DecodeString(s)
	if err != nil {
		panic(err)
	}
	return b
}

// ------------------------------------------------------------------ worker

type jobs struct {
	Elfs  []string `json:"elfs"`  // hex, or "@path"
	Jobs  [][4]int `json:"jobs"`  // (elf index, name index, history id or -1, fresh)
	Names []string `json:"names"`
}

func callLoader(data []byte, name string) (res *Result) {
	defer func() {
		if r := recover(); r != nil {
			res = &Result{Class: "panic", Msg: fmt.Sprint(r)}
		}
	}()
	co := insts.LoadKernelCodeObjectFromBytes(data, name)
	defer scribble(co)
	if co == nil {
		return &Result{Class: "panic", Msg: "nil result"}
	}
	r := &Result{Class: "ok", Version: int(co.Version), Data: hex.EncodeToString(co.Data)}
	if co.Symbol != nil {
		y := co.Symbol
		r.Sym = &SymSpec{Name: y.Name, Info: y.Info, Other: y.Other, Shndx: uint16(y.Section), Value: y.Value, Size: y.Size}
	}
	m := co.KernelCodeObjectMeta
	if m != nil {
		r.Meta = &Meta{m.ComputePgmRsrc1, m.ComputePgmRsrc2, m.ComputePgmRsrc3, m.KernargSegmentByteSize,
			m.GroupSegmentByteSize, m.PrivateSegmentByteSize, m.KernelCodeEntryByteOffset,
			m.EnableSgprPrivateSegmentBuffer, m.EnableSgprDispatchPtr, m.EnableSgprQueuePtr,
			m.EnableSgprKernargSegmentPtr, m.EnableSgprDispatchID, m.EnableSgprFlatScratchInit,
			m.EnableSgprPrivateSegmentSize, m.EnableSgprGridWorkgroupCountX, m.EnableSgprGridWorkgroupCountY,
			m.EnableSgprGridWorkgroupCountZ, m.CodeVersionMajor, m.CodeVersionMinor, m.MachineKind,
			m.MachineVersionMajor, m.MachineVersionMinor, m.MachineVersionStepping, m.WFSgprCount, m.WIVgprCount}
	} else {
		r.Class, r.Msg = "panic", "nil metadata"
	}
	return r
}

// scribble overwrites everything reachable from a returned object after it
// has been recorded: a later load that hands out the same object again, or an
// object sharing memory with it, then shows up as a difference to the model.
func scribble(co *insts.KernelCodeObject) {
	if co == nil {
		return
	}
	for i := range co.Data {
		co.Data[i] ^= 0xa5
	}
	if co.Symbol != nil {
		co.Symbol.Name += "#"
		co.Symbol.Value ^= 0x5a5a
		co.Symbol.Size += 3
	}
	if m := co.KernelCodeObjectMeta; m != nil {
		m.ComputePgmRsrc1 ^= 0xdead
		m.ComputePgmRsrc2 ^= 0xbeef
		m.KernargSegmentByteSize += 7
		m.GroupSegmentByteSize += 11
		m.WFSgprCount += 8
		m.WIVgprCount += 4
		m.EnableSgprKernargSegmentPtr = !m.EnableSgprKernargSegmentPtr
	}
	co.Version += 100
}

func worker(path string, from int) {
	var js jobs
	raw, err := os.ReadFile(path)
	if err != nil {
		os.Exit(3)
	}
	if err := json.Unmarshal(raw, &js); err != nil {
		os.Exit(3)
	}
	w := bufio.NewWriter(os.Stdout)
	cacheIdx, cache := -1, []byte(nil)
	curHist, hbuf := -1, []byte(nil)
	image := func(i int) []byte {
		e := js.Elfs[i]
		if strings.HasPrefix(e, "@") {
			b, err := os.ReadFile(e[1:])
			if err != nil {
				os.Exit(3)
			}
			return b
		}
		return unhex(e)
	}
	for k := from; k < len(js.Jobs); k++ {
		j := js.Jobs[k]
		if j[2] >= 0 {
			// history step: one buffer per history, overwritten in place
			img := image(j[0])
			var data []byte
			if j[3] != 0 {
				data = img
			} else {
				if j[2] != curHist || cap(hbuf) < len(img) {
					hbuf = make([]byte, len(img), len(img)+4096)
					curHist = j[2]
				}
				hbuf = hbuf[:len(img)]
				copy(hbuf, img)
				data = hbuf
			}
			res := callLoader(data, js.Names[j[1]])
			b, _ := json.Marshal(res)
			fmt.Fprintf(w, "%d %s\n", k, b)
			w.Flush()
			continue
		}
		if j[0] != cacheIdx {
			cache = image(j[0])
			cacheIdx = j[0]
		}
		res := callLoader(cache, js.Names[j[1]])
		b, _ := json.Marshal(res)
		fmt.Fprintf(w, "%d %s\n", k, b)
		w.Flush()
	}
}

func fatalCode(msg string) int {
	switch {
	case strings.Contains(msg, ".text section not found"):
		return 1
	case strings.Contains(msg, "multiple kernels found"):
		return 2
	case strings.Contains(msg, "not found in ELF file"):
		return 3
	}
	return 9
}

// runAll executes every query of every case on the real loader.
func runAll(cases []*Case, repo string) {
	var js jobs
	nameIdx := map[string]int{}
	type ref struct {
		c *Case
		q int
	}
	var refs []ref
	name := func(n string) int {
		if _, ok := nameIdx[n]; !ok {
			nameIdx[n] = len(js.Names)
			js.Names = append(js.Names, n)
		}
		return nameIdx[n]
	}
	for ci, c := range cases {
		if c.Src == "hist" {
			base := len(js.Elfs)
			for _, im := range c.Images {
				js.Elfs = append(js.Elfs, im.Elf)
				im.Queries = []Query{}
			}
			for si := range c.Steps {
				st := &c.Steps[si]
				im := c.Images[st.Img]
				st.Q = len(im.Queries)
				im.Queries = append(im.Queries, Query{Name: st.Name})
				fresh := 0
				if st.Fresh {
					fresh = 1
				}
				js.Jobs = append(js.Jobs, [4]int{base + st.Img, name(st.Name), ci, fresh})
				refs = append(refs, ref{im, st.Q})
			}
			continue
		}
		ei := len(js.Elfs)
		if c.Src == "shipped" {
			js.Elfs = append(js.Elfs, "@"+filepath.Join(repo, c.File))
		} else {
			js.Elfs = append(js.Elfs, c.Elf)
		}
		for qi, q := range c.Queries {
			js.Jobs = append(js.Jobs, [4]int{ei, name(q.Name), -1, 0})
			refs = append(refs, ref{c, qi})
		}
	}
	tmp, err := os.CreateTemp("", "c13jobs*.json")
	if err != nil {
		panic(err)
	}
	defer os.Remove(tmp.Name())
	b, _ := json.Marshal(js)
	tmp.Write(b)
	tmp.Close()
	self, _ := os.Executable()
	from := 0
	for from < len(js.Jobs) {
		cmd := exec.Command(self, "--worker", tmp.Name(), "--from", fmt.Sprint(from))
		var stderr strings.Builder
		cmd.Stderr = &stderr
		out, _ := cmd.StdoutPipe()
		if err := cmd.Start(); err != nil {
			panic(err)
		}
		sc := bufio.NewScanner(out)
		sc.Buffer(make([]byte, 1<<20), 1<<28)
		for sc.Scan() {
			line := sc.Text()
			sp := strings.IndexByte(line, ' ')
			var k int
			fmt.Sscan(line[:sp], &k)
			var r Result
			if err := json.Unmarshal([]byte(line[sp+1:]), &r); err != nil {
				panic(err)
			}
			refs[k].c.Queries[refs[k].q].Res = &r
			from = k + 1
		}
		err := cmd.Wait()
		if from >= len(js.Jobs) {
			break
		}
		msg := strings.TrimSpace(stderr.String())
		r := &Result{Class: "died", Msg: msg}
		if ee, ok := err.(*exec.ExitError); ok && ee.ExitCode() == 1 {
			r.Class, r.Fatal = "fatal", fatalCode(msg)
		}
		// drop the timestamp of the log line
		if i := strings.Index(msg, " "); i > 0 && len(msg) > 20 {
			r.Msg = msg[20:]
		}
		refs[from].c.Queries[refs[from].q].Res = r
		from++
	}
}

// ------------------------------------------------------------- Coq emission

func coqStr(s string) string { return "\"" + strings.ReplaceAll(s, "\"", "\"\"") + "\"" }

func coqPacked(b []byte) string {
	var sb strings.Builder
	fmt.Fprintf(&sb, "(%d, [", len(b))
	for i := 0; i < len(b); i += 7 {
		var w uint64
		for k := 0; k < 7 && i+k < len(b); k++ {
			w |= uint64(b[i+k]) << (8 * uint(k))
		}
		if i > 0 {
			sb.WriteString(";")
		}
		fmt.Fprintf(&sb, "%d", w)
	}
	sb.WriteString("]%uint63)")
	return sb.String()
}

func coqSym(y SymSpec) string {
	return fmt.Sprintf("mkSym %s %d %d %d %d %d", coqStr(y.Name), y.Info, y.Other, y.Shndx, y.Value, y.Size)
}

func coqMeta(m *Meta) string {
	b := vh.CoqBool
	return fmt.Sprintf("mkMeta %d %d %d %d %d %d %d %s %s %s %s %s %s %s %s %s %s %d %d %d %d %d %d %d %d",
		m.Rsrc1, m.Rsrc2, m.Rsrc3, m.Kernarg, m.Group, m.Private, m.Entry,
		b(m.EnPSB), b(m.EnDispatchPtr), b(m.EnQueuePtr), b(m.EnKernargPtr), b(m.EnDispatchID), b(m.EnFlatScratch),
		b(m.EnPrivSize), b(m.EnWgX), b(m.EnWgY), b(m.EnWgZ), m.CVMajor, m.CVMinor, m.MKind, m.MVMajor, m.MVMinor,
		m.MVStep, m.WFSgpr, m.WIVgpr)
}

func coqObs(r *Result) string {
	switch r.Class {
	case "fatal":
		return fmt.Sprintf("OFatal %d", r.Fatal)
	case "panic":
		return "OPanic"
	case "ok":
		sy := "None"
		if r.Sym != nil {
			sy = "(Some (" + coqSym(*r.Sym) + "))"
		}
		return fmt.Sprintf("OLoaded %d %s %s (%s)", r.Version, coqPacked(unhex(r.Data)), sy, coqMeta(r.Meta))
	}
	return "OFatal 99" // harness trouble: never equal to the model
}

// needsData: the loader only ever reads the contents of sections called
// .text / .rodata (lemma load_ignores_other_data); other contents are not
// shipped to Coq.
func needsData(name string) bool { return name == ".text" || name == ".rodata" }

func (c *Case) emitCoq() {
	secs := []string{"mkSec \"\" 0 []"}
	for _, s := range c.Secs {
		d := "(0, [])"
		if needsData(s.Name) && s.Data != "" {
			d = coqPacked(unhex(s.Data))
		}
		secs = append(secs, fmt.Sprintf("sec %s %d %s", coqStr(s.Name), s.Addr, d))
	}
	syms := "None"
	if c.Symtab {
		ys := make([]string, len(c.Syms))
		for i, y := range c.Syms {
			ys[i] = coqSym(y)
		}
		syms = "(Some " + vh.CoqList(ys) + ")"
	}
	qs := make([]string, len(c.Queries))
	for i, q := range c.Queries {
		qs[i] = fmt.Sprintf("(%s, %s)", coqStr(q.Name), coqObs(q.Res))
	}
	c.Coq = fmt.Sprintf("mkCase %s %s %s", vh.CoqList(secs), syms, vh.CoqList(qs))
}

// ------------------------------------------------------------ shipped files

func shippedCases(repo string) []*Case {
	var files []string
	filepath.Walk(filepath.Join(repo, "amd"), func(p string, info os.FileInfo, err error) error {
		if err == nil && !info.IsDir() && strings.HasSuffix(p, ".hsaco") {
			rel, _ := filepath.Rel(repo, p)
			files = append(files, rel)
		}
		return nil
	})
	sort.Strings(files)
	var out []*Case
	for _, f := range files {
		c := viewOfFile(repo, f)
		if c != nil {
			out = append(out, c)
		}
	}
	return out
}

// viewOfFile extracts the abstract view with debug/elf (trusted) and asks for
// every symbol of positive size that lives in a section called .text.
func viewOfFile(repo, rel string) *Case {
	raw, err := os.ReadFile(filepath.Join(repo, rel))
	if err != nil {
		return nil
	}
	f, err := elf.NewFile(strings.NewReader(string(raw)))
	if err != nil {
		return &Case{Src: "shipped", File: rel, Tag: "unreadable", Valid: false}
	}
	c := &Case{Src: "shipped", File: rel, Tag: "shipped", Valid: true, Abi: raw[8]}
	for i, s := range f.Sections {
		if i == 0 {
			continue
		}
		ss := SecSpec{Name: s.Name, Kind: "progbits", Addr: s.Addr}
		if needsData(s.Name) {
			d, _ := s.Data()
			ss.Data = hex.EncodeToString(d)
		}
		c.Secs = append(c.Secs, ss)
	}
	syms, err := f.Symbols()
	c.Symtab = err == nil
	seen := map[string]bool{}
	for _, y := range syms {
		c.Syms = append(c.Syms, SymSpec{y.Name, y.Info, y.Other, uint16(y.Section), y.Value, y.Size})
		if y.Section != elf.SHN_UNDEF && int(y.Section) < len(f.Sections) &&
			f.Sections[y.Section].Name == ".text" && y.Size > 0 && !seen[y.Name] {
			seen[y.Name] = true
			c.Queries = append(c.Queries, Query{Name: y.Name})
		}
	}
	if len(c.Queries) == 1 || !c.Symtab {
		c.Queries = append(c.Queries, Query{Name: ""})
	}
	return c
}

// --------------------------------------------------------------------- main

func main() {
	seed := flag.Uint64("seed", 1, "")
	n := flag.Int("n", 100, "number of generated objects")
	nh := flag.Int("nh", 20, "number of generated load histories")
	out := flag.String("out", "", "")
	replay := flag.String("replay", "", "JSON list of cases to re-run")
	shipped := flag.Bool("shipped", true, "include the shipped .hsaco files")
	repo := flag.String("repo", "/repo", "")
	wk := flag.String("worker", "", "")
	from := flag.Int("from", 0, "")
	flag.Parse()
	if *wk != "" {
		worker(*wk, *from)
		return
	}

	var cases []*Case
	if *replay != "" {
		raw, err := os.ReadFile(*replay)
		if err != nil {
			panic(err)
		}
		if err := json.Unmarshal(raw, &cases); err != nil {
			panic(err)
		}
		for i, c := range cases {
			if c.Src == "shipped" {
				nc := viewOfFile(*repo, c.File)
				if len(c.Queries) > 0 {
					nc.Queries = nil
					for _, q := range c.Queries {
						nc.Queries = append(nc.Queries, Query{Name: q.Name})
					}
				}
				cases[i] = nc
			} else if c.Src != "hist" {
				for k := range c.Queries {
					c.Queries[k].Res = nil
				}
			}
		}
	} else {
		if *shipped {
			cases = append(cases, shippedCases(*repo)...)
		}
		rng := vh.NewRng(*seed)
		for i := 0; i < *n; i++ {
			cases = append(cases, genCase(rng.Fork(), i))
		}
		hr := vh.NewRng(*seed ^ 0x68697374)
		for i := 0; i < *nh; i++ {
			cases = append(cases, genHistory(hr.Fork()))
		}
	}
	for _, c := range cases {
		switch c.Src {
		case "shipped":
		case "hist":
			for _, im := range c.Images {
				im.Elf = hex.EncodeToString(WriteELF(im.Secs, symsForWriter(im), im.Abi))
			}
		default:
			c.Elf = hex.EncodeToString(WriteELF(c.Secs, symsForWriter(c), c.Abi))
		}
	}
	runAll(cases, *repo)
	for _, c := range cases {
		if c.Src == "hist" {
			for _, im := range c.Images {
				im.emitCoq()
			}
			continue
		}
		c.emitCoq()
	}
	b, _ := json.Marshal(cases)
	if *out == "" {
		os.Stdout.Write(b)
	} else if err := os.WriteFile(*out, b, 0o644); err != nil {
		panic(err)
	}
}

func symsForWriter(c *Case) []SymSpec { return c.Syms }

var _ = binary.LittleEndian
