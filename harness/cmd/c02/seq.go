package main

import (
	"debug/elf"
	"flag"
	"fmt"
	"os"

	"github.com/sarchlab/mgpusim/v4/amd/driver"
	"github.com/sarchlab/mgpusim/v4/amd/insts"

	"verifharness/vh"
)

// Multi-launch sequences with BLOCKING launches and no memory copy in between:
// kernel k+1 reads, through a scalar load and through a vector load, what
// kernel k wrote with vector stores.  The host uploads X once, then only
// launches kernels, and copies everything back at the very end.

func (a *asm) smemLoadSOff(op, sdata, sbase, soff int) {
	a.emit(0xC0000000|uint32(op)<<18|uint32(sdata)<<6|uint32(sbase>>1), uint32(soff))
}

func seqCodeObject(name string, a *asm, kernarg int) *insts.KernelCodeObject {
	data := make([]byte, 4*len(a.w))
	for i, w := range a.w {
		put32(data[4*i:], w)
	}
	d := insts.NewDisassembler()
	for off := 0; off < len(data); {
		buf := append(append([]byte{}, data[off:]...), 0, 0, 0, 0)
		inst, err := d.Decode(buf)
		if err != nil {
			panic(fmt.Sprintf("%s: word at %d does not decode: %v", name, off, err))
		}
		off += inst.ByteSize
	}
	meta := &insts.KernelCodeObjectMeta{
		ComputePgmRsrc2:             1 << 7,
		KernargSegmentByteSize:      uint64(kernarg),
		EnableSgprKernargSegmentPtr: true,
		WFSgprCount:                 16,
		WIVgprCount:                 12,
	}
	return &insts.KernelCodeObject{KernelCodeObjectMeta: meta, Data: data, Version: insts.CodeObjectV3,
		Symbol: &elf.Symbol{Name: name, Size: uint64(len(data))}}
}

// reader: out[2*gid] = X[gid] (vector load), out[2*gid+1] = X[k] (scalar load)
func readerKernel() *insts.KernelCodeObject {
	a := &asm{}
	a.smemLoad(2, 4, 0, 0)  // s_load_dwordx4 s[4:7], s[0:1], 0   X, OUT
	a.smemLoad(0, 8, 0, 16) // s_load_dword s8, s[0:1], 16       byte offset of X[k]
	a.waitcnt(wLGK0)
	a.smemLoadSOff(0, 12, 4, 8) // s_load_dword s12, s[4:5], s8
	a.sop2(28, 3, sgpr(2), konst(6))
	a.vop2(25, 1, sgpr(3), 0)  // gid
	a.vop2(18, 2, konst(2), 1) // gid*4
	addr64(a, 3, 4)
	a.flat(20, 3, 0, 5)
	a.vop2(18, 2, konst(3), 1) // gid*8
	addr64(a, 6, 6)
	a.waitcnt(wAll)
	a.flat(28, 6, 5, 0)
	a.vop1(1, 8, sgpr(12))
	a.vop2(25, 6, konst(4), 6)
	a.vop2(28, 7, konst(0), 7)
	a.flat(28, 6, 8, 0)
	a.sopp(1, 0)
	return seqCodeObject("seq_reader", a, 24)
}

// writer: X[gid] = val + gid
func writerKernel() *insts.KernelCodeObject {
	a := &asm{}
	a.smemLoad(1, 4, 0, 0) // s_load_dwordx2 s[4:5], s[0:1], 0
	a.smemLoad(0, 8, 0, 8) // s_load_dword s8, s[0:1], 8
	a.waitcnt(wLGK0)
	a.sop2(28, 3, sgpr(2), konst(6))
	a.vop2(25, 1, sgpr(3), 0)
	a.vop2(18, 2, konst(2), 1)
	addr64(a, 3, 4)
	a.vop2(25, 5, sgpr(8), 1) // val + gid
	a.flat(28, 3, 5, 0)
	a.sopp(1, 0)
	return seqCodeObject("seq_writer", a, 16)
}

type ReaderArgs struct {
	X, Out driver.Ptr
	KOff   uint32
	Pad    uint32
}

type WriterArgs struct {
	X   driver.Ptr
	Val uint32
	Pad uint32
}

// SeqStep is one blocking launch.
type SeqStep struct {
	Write bool   `json:"write"`
	K     int    `json:"k"`
	Val   uint32 `json:"val"`
}

type SeqResult struct {
	Index int       `json:"index"`
	NumWG int       `json:"num_wg"`
	Steps []SeqStep `json:"steps"`
	X     []uint32  `json:"x"`
	Out   []uint32  `json:"out"`
}

func genSeq(rng *vh.Rng, idx int) SeqResult {
	s := SeqResult{Index: idx, NumWG: 1 + rng.Intn(4)}
	n := 64 * s.NumWG
	l := 3 + rng.Intn(8)
	for i := 0; i < l; i++ {
		st := SeqStep{Write: i > 0 && rng.Intn(5) < 2, K: rng.Intn(n), Val: uint32(rng.U64())}
		if i > 0 && rng.Intn(3) == 0 {
			st.K = s.Steps[0].K // the word an earlier reader already pulled into the scalar cache
		}
		s.Steps = append(s.Steps, st)
	}
	// always contains read - write - read of the same word
	s.Steps = append(s.Steps, SeqStep{Write: true, Val: uint32(rng.U64())}, SeqStep{K: s.Steps[0].K})
	return s
}

func seqMain() {
	seed := flag.Uint64("seed", 1, "seed")
	n := flag.Int("n", 8, "number of sequences")
	only := flag.Int("only", -1, "run only this sequence")
	platform := flag.String("platform", "emu", "emu | r9nano | mi300a | r9nano:SxC")
	out := flag.String("out", "", "result JSON")
	flag.Parse()

	rng := vh.NewRng(*seed ^ 0x5e9)
	var seqs []SeqResult
	for i := 0; i < *n; i++ {
		s := genSeq(rng.Fork(), i)
		if *only < 0 || *only == i {
			seqs = append(seqs, s)
		}
	}
	sim := buildPlatform(*platform)
	d := sim.GetComponentByName("Driver").(*driver.Driver)
	d.Run()
	ctx := d.Init()
	d.SelectGPU(ctx, 1)
	reader, writer := readerKernel(), writerKernel()

	for i := range seqs {
		s := &seqs[i]
		total := 64 * s.NumWG
		x := make([]uint32, total)
		for j := range x {
			x[j] = 0xAAAA0000 + uint32(s.Index)<<8 + uint32(j)
		}
		dX := d.AllocateMemory(ctx, uint64(4*total))
		dOut := d.AllocateMemory(ctx, uint64(8*total*len(s.Steps)))
		d.MemCopyH2D(ctx, dX, x)
		d.MemCopyH2D(ctx, dOut, make([]uint32, 2*total*len(s.Steps)))
		for j, st := range s.Steps {
			if st.Write {
				args := WriterArgs{X: dX, Val: st.Val}
				d.LaunchKernel(ctx, writer, [3]uint32{uint32(total), 1, 1}, [3]uint16{64, 1, 1}, &args)
			} else {
				args := ReaderArgs{X: dX, Out: dOut + driver.Ptr(8*total*j), KOff: uint32(4 * st.K)}
				d.LaunchKernel(ctx, reader, [3]uint32{uint32(total), 1, 1}, [3]uint16{64, 1, 1}, &args)
			}
		}
		s.X = make([]uint32, total)
		s.Out = make([]uint32, 2*total*len(s.Steps))
		d.MemCopyD2H(ctx, s.Out, dOut)
		d.MemCopyD2H(ctx, s.X, dX)
	}
	writeOut(*out, seqs)
	d.Terminate()
	os.Exit(0)
}
