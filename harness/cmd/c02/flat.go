package main

import (
	"fmt"
	"strings"

	"github.com/sarchlab/akita/v4/mem/mem"
	"github.com/sarchlab/akita/v4/mem/vm"
	"github.com/sarchlab/mgpusim/v4/amd/emu"
	"github.com/sarchlab/mgpusim/v4/amd/emu/cdna3"
	"github.com/sarchlab/mgpusim/v4/amd/insts"
	"github.com/sarchlab/mgpusim/v4/amd/kernels"
	"github.com/sarchlab/mgpusim/v4/amd/timing/cu"
	"github.com/sarchlab/mgpusim/v4/amd/timing/wavefront"

	"verifharness/vh"
)

// window is a flat byte memory [Base, Base+len) (zero elsewhere) that serves
// as the emulator's storage accessor and as the source of cache-line data.
type window struct {
	base uint64
	data []byte
	acc  [][2]uint64 // every (address, size) the accessor was asked for, in order
}

func (w *window) Read(pid vm.PID, a, n uint64) []byte {
	w.acc = append(w.acc, [2]uint64{a, n})
	out := make([]byte, n)
	for i := uint64(0); i < n; i++ {
		x := a + i
		if x >= w.base && x-w.base < uint64(len(w.data)) {
			out[i] = w.data[x-w.base]
		}
	}
	return out
}

func (w *window) Write(pid vm.PID, a uint64, d []byte) {
	w.acc = append(w.acc, [2]uint64{a, uint64(len(d))})
	for i, b := range d {
		x := a + uint64(i)
		if x < w.base || x-w.base >= uint64(len(w.data)) {
			panic("harness: store outside the memory window")
		}
		w.data[x-w.base] = b
	}
}

// FlatCase is one FLAT instruction executed by the emulator ALU and by the
// timing coalescer + write-back on the same registers and memory.
type FlatCase struct {
	Lg     uint64      `json:"lg"`
	CDNA3  bool        `json:"cdna3"`
	Op     int         `json:"op"`
	Exec   uint64      `json:"exec"`
	SAddr  int         `json:"saddr"` // 7-bit field
	Off13  int         `json:"off13"` // signed 13-bit immediate
	AddrV  int         `json:"addr_v"`
	DataV  int         `json:"data_v"`
	DstV   int         `json:"dst_v"`
	SBase  uint64      `json:"sbase"`
	VAddr  []uint64    `json:"vaddr"` // 64-bit value of v[addr:addr+1] per lane
	Data   [][4]uint32 `json:"data"`  // v[data..data+3] per lane
	Base   uint64      `json:"base"`
	Mem    []byte      `json:"-"`
	MemI   []int       `json:"mem"`
	Perm   []int       `json:"perm"`  // order in which read responses are delivered
	Class  string      `json:"class"` // generator class
	Kind   string      `json:"kind"`  // address layout chosen by the generator (informational)

	// observations
	Mode    bool       `json:"mode"` // Addr.RegCount == 1
	Off0    uint32     `json:"off0"`
	Addrs   []uint64   `json:"addrs"` // effective address per lane (harness arithmetic, for the monitor)
	EmuOK   bool       `json:"emu_ok"`
	EmuAcc  [][2]uint64 `json:"emu_acc"` // (address, size) of every storage access the real emulator ALU made
	Emu     []uint64   `json:"emu"` // loads: v[dst..dst+3] x 64 ; stores: window bytes
	TxnOK   bool       `json:"txn_ok"`
	Txns    []FlatTxn  `json:"txns"`
	TRegOK  bool       `json:"treg_ok"`
	TReg    []uint64   `json:"treg"`
	WReqOK  bool       `json:"wreq_ok"`
	WReqs   []FlatWReq `json:"wreqs"`
	TMem    []uint64   `json:"tmem"` // stores: window after applying the write requests
	EmuErr  string     `json:"emu_err,omitempty"`
	TimErr  string     `json:"tim_err,omitempty"`
	Coq     string     `json:"coq"`
}

type FlatTxn struct {
	Line  uint64      `json:"line"`
	Lanes [][3]uint64 `json:"lanes"` // lane, reg, offset
}

type FlatWReq struct {
	Line uint64 `json:"line"`
	Data []int  `json:"data"`
	Mask []bool `json:"mask"`
}

func (c *FlatCase) encode() []byte {
	seg := uint32(0)
	if c.SAddr != 0x7F {
		seg = 2
	}
	lo := uint32(0xDC000000) | uint32(c.Op)<<18 | seg<<14 | uint32(c.Off13)&0x1FFF
	hi := uint32(c.AddrV) | uint32(c.DataV)<<8 | uint32(c.SAddr)<<16 | uint32(c.DstV)<<24
	b := make([]byte, 8)
	put32(b, lo)
	put32(b[4:], hi)
	return b
}

func (c *FlatCase) decode() *insts.Inst {
	d := insts.NewDisassembler()
	d.IsCDNA3 = c.CDNA3
	inst, err := d.Decode(c.encode())
	if err != nil {
		panic(err)
	}
	return inst
}

func isLoad(op int) bool { return op >= 6 && op <= 23 }

func (c *FlatCase) runEmu(inst *insts.Inst) {
	defer func() {
		if x := recover(); x != nil {
			c.EmuOK = false
			c.Emu = nil
			c.EmuErr = fmt.Sprint(x)
		}
	}()
	w := &window{base: c.Base, data: append([]byte(nil), c.Mem...)}
	var alu emu.ALU
	if c.CDNA3 {
		alu = cdna3.NewALU(w)
	} else {
		alu = emu.NewALU(w)
	}
	wf := emu.NewWavefront(kernels.NewWavefront())
	for l := 0; l < 64; l++ {
		for i := 0; i < 256; i++ {
			put32(wf.VRegFile[l*1024+i*4:], uint32(vSent+l*256+i))
		}
		put32(wf.VRegFile[l*1024+c.AddrV*4:], uint32(c.VAddr[l]))
		put32(wf.VRegFile[l*1024+(c.AddrV+1)*4:], uint32(c.VAddr[l]>>32))
		if !isLoad(c.Op) {
			for j := 0; j < 4; j++ {
				put32(wf.VRegFile[l*1024+(c.DataV+j)*4:], c.Data[l][j])
			}
		}
	}
	if c.SAddr != 0x7F {
		put32(wf.SRegFile[c.SAddr*4:], uint32(c.SBase))
		put32(wf.SRegFile[(c.SAddr+1)*4:], uint32(c.SBase>>32))
	}
	wf.SetEXEC(c.Exec)
	emu.VerifSetInst(wf, inst)
	defer func() { c.EmuAcc = w.acc }()
	alu.Run(wf)
	c.EmuOK = true
	if isLoad(c.Op) {
		for l := 0; l < 64; l++ {
			for j := 0; j < 4; j++ {
				c.Emu = append(c.Emu, uint64(wf.VRegValue(l, c.DstV+j)))
			}
		}
	} else {
		for _, b := range w.data {
			c.Emu = append(c.Emu, uint64(b))
		}
	}
}

func (c *FlatCase) runTiming(inst *insts.Inst) {
	stage := 0
	defer func() {
		if x := recover(); x != nil {
			c.TimErr = fmt.Sprint(x)
			switch stage {
			case 0:
				c.TxnOK, c.WReqOK = false, false
				c.Txns, c.WReqs = nil, nil
			case 1:
				c.TRegOK = false
				c.TReg = nil
			}
		}
	}()
	cuObj := newTimingCU()
	prefillTiming(cuObj)
	wf := wavefront.NewWavefront(kernels.NewWavefront())
	wf.SIMDID = 0
	wf.SRegOffset = tSOff
	wf.VRegOffset = tVOff
	wf.RegAccessor = &cu.CURegFileAccessor{CU: cuObj, WF: wf}
	wf.SetEXEC(c.Exec)
	wf.SetDynamicInst(wavefront.NewInst(inst))
	wr := func(lane, reg int, v uint32) {
		b := make([]byte, 4)
		put32(b, v)
		cuObj.VRegFile[0].Write(cu.RegisterAccess{Reg: insts.VReg(reg), RegCount: 1, LaneID: lane, WaveOffset: tVOff, Data: b})
	}
	for l := 0; l < 64; l++ {
		wr(l, c.AddrV, uint32(c.VAddr[l]))
		wr(l, c.AddrV+1, uint32(c.VAddr[l]>>32))
		if !isLoad(c.Op) {
			for j := 0; j < 4; j++ {
				wr(l, c.DataV+j, c.Data[l][j])
			}
		}
	}
	if c.SAddr != 0x7F {
		for k := 0; k < 2; k++ {
			b := make([]byte, 4)
			put32(b, uint32(c.SBase>>(32*uint(k))))
			cuObj.SRegFile.Write(cu.RegisterAccess{Reg: insts.SReg(c.SAddr + k), RegCount: 1, WaveOffset: tSOff, Data: b})
		}
	}
	txns := cu.VerifCoalesce(c.Lg, wf)
	w := &window{base: c.Base, data: append([]byte(nil), c.Mem...)}
	if isLoad(c.Op) {
		c.TxnOK = true
		for _, t := range txns {
			ft := FlatTxn{Line: t.Read.Address}
			for _, l := range cu.VerifLanes(t) {
				ft.Lanes = append(ft.Lanes, [3]uint64{uint64(l.LaneID), uint64(l.Reg), l.Offset})
			}
			c.Txns = append(c.Txns, ft)
		}
		stage = 1
		cuObj.InFlightVectorMemAccess = append(cuObj.InFlightVectorMemAccess, txns...)
		order := c.Perm
		if len(order) != len(txns) {
			order = nil
			for i := range txns {
				order = append(order, i)
			}
		}
		for _, i := range order {
			t := txns[i]
			data := w.Read(0, t.Read.Address, t.Read.AccessByteSize)
			data = data[:len(data):len(data)]
			rsp := mem.DataReadyRspBuilder{}.WithRspTo(t.Read.ID).WithData(data).Build()
			cu.VerifVectorLoadReturn(cuObj, rsp)
		}
		c.TRegOK = true
		for l := 0; l < 64; l++ {
			for j := 0; j < 4; j++ {
				c.TReg = append(c.TReg, readV(cuObj, l, c.DstV+j))
			}
		}
		return
	}
	c.WReqOK = true
	for _, t := range txns {
		fw := FlatWReq{Line: t.Write.Address, Mask: append([]bool(nil), t.Write.DirtyMask...)}
		for _, b := range t.Write.Data {
			fw.Data = append(fw.Data, int(b))
		}
		c.WReqs = append(c.WReqs, fw)
		for i, b := range t.Write.Data {
			x := t.Write.Address + uint64(i)
			if t.Write.DirtyMask[i] && x >= w.base && x-w.base < uint64(len(w.data)) {
				w.data[x-w.base] = b
			}
		}
	}
	for _, b := range w.data {
		c.TMem = append(c.TMem, uint64(b))
	}
}

func (c *FlatCase) effAddr(inst *insts.Inst, lane int) uint64 {
	v := c.VAddr[lane]
	var a uint64
	if inst.Addr.RegCount == 1 {
		a = c.SBase + (v & 0xFFFFFFFF)
	} else {
		a = v
	}
	return a + uint64(int64(int32(inst.Offset0)))
}

func (c *FlatCase) run() {
	c.Mem = make([]byte, len(c.MemI))
	for i, x := range c.MemI {
		c.Mem[i] = byte(x)
	}
	c.Emu, c.Txns, c.TReg, c.WReqs, c.TMem, c.Addrs, c.EmuAcc = nil, nil, nil, nil, nil, nil, nil
	c.EmuErr, c.TimErr = "", ""
	inst := c.decode()
	c.Mode = inst.Addr.RegCount == 1
	c.Off0 = inst.Offset0
	for l := 0; l < 64; l++ {
		c.Addrs = append(c.Addrs, c.effAddr(inst, l))
	}
	c.runEmu(c.decode())
	c.runTiming(c.decode())
	c.Coq = c.coq()
}

func coqOpt(ok bool, s string) string {
	if !ok {
		return "None"
	}
	return "(Some " + s + ")"
}

func (c *FlatCase) coq() string {
	va := make([]uint64, 64)
	for l := range va {
		va[l] = c.VAddr[l] // both registers of the pair; the model decides which it reads
	}
	data := make([]string, 64)
	for l := range data {
		if isLoad(c.Op) {
			data[l] = "[]"
			continue
		}
		data[l] = fmt.Sprintf("[%d; %d; %d; %d]", c.Data[l][0], c.Data[l][1], c.Data[l][2], c.Data[l][3])
	}
	txns := make([]string, len(c.Txns))
	for i, t := range c.Txns {
		ls := make([]string, len(t.Lanes))
		for j, l := range t.Lanes {
			ls[j] = fmt.Sprintf("(%d, %d, %d)", l[0], l[1], l[2])
		}
		txns[i] = fmt.Sprintf("(%d, %s)", t.Line, vh.CoqList(ls))
	}
	wreqs := make([]string, len(c.WReqs))
	for i, r := range c.WReqs {
		d := make([]uint64, len(r.Data))
		for j, x := range r.Data {
			d[j] = uint64(x)
		}
		wreqs[i] = fmt.Sprintf("(%d, %s, %s)", r.Line, vh.CoqNList(d), vh.CoqBools(r.Mask))
	}
	return fmt.Sprintf("mkFCase %d %d %d %s %s %d %d %d %d %s %d %s %d %s %s %s %s %s",
		c.Lg, c.Op, c.Exec, vh.CoqBool(c.Mode), vh.CoqBool(c.CDNA3), c.SAddr, c.SBase, uint32(c.Off13)&0x1FFF, c.Off0, vh.CoqNList(va), c.DstV,
		"["+strings.Join(data, "; ")+"]", c.Base, vh.CoqBytes(c.Mem),
		coqOpt(c.EmuOK, vh.CoqNList(c.Emu)),
		coqOpt(c.TxnOK, vh.CoqList(txns)),
		coqOpt(c.TRegOK, vh.CoqNList(c.TReg)),
		coqOpt(c.WReqOK, vh.CoqList(wreqs)))
}

var flatOps = []int{16, 17, 18, 20, 21, 23, 28, 29, 30, 31}

func regCount(op int) int {
	switch op {
	case 21, 29:
		return 2
	case 22, 30:
		return 3
	case 23, 31:
		return 4
	}
	return 1
}

// genFlat builds one case.  class: "valid" = no dword of the access leaves its
// cache line (the guard of the theorems); "straddle" = at least one does.
func genFlat(rng *vh.Rng, class string, op int) FlatCase {
	c := FlatCase{Op: op, Class: class}
	c.Lg = []uint64{6, 6, 6, 6, 7, 4}[rng.Intn(6)]
	c.CDNA3 = rng.Intn(3) == 0
	ls := uint64(1) << c.Lg
	rc := uint64(regCount(op))
	c.Base = 0x200000000 + uint64(rng.Intn(1<<16))*128
	if rng.Intn(3) == 0 {
		// the window ends at, begins at, or lies across a 4 GiB boundary
		c.Base = uint64(2+rng.Intn(6))<<32 - uint64(rng.Intn(7))*128
	}
	kind := rng.Intn(6) // see "address layout" below
	size := 768
	c.MemI = make([]int, size)
	for i := range c.MemI {
		c.MemI[i] = rng.Intn(256)
		if rng.Intn(3) == 0 {
			c.MemI[i] |= 0x80
		}
	}
	switch rng.Intn(4) {
	case 0:
		c.Exec = ^uint64(0)
	case 1:
		c.Exec = rng.U64()
	case 2:
		c.Exec = rng.U64() & rng.U64() & rng.U64()
	default:
		c.Exec = uint64(1) << uint(rng.Intn(64))
		if rng.Intn(8) == 0 {
			c.Exec = 0
		}
	}
	c.AddrV = 2 + 2*rng.Intn(3)
	c.DataV = 10 + rng.Intn(4)
	c.DstV = 20 + rng.Intn(8)
	switch rng.Intn(4) {
	case 0:
		c.SAddr = 0x7F
	case 1:
		c.SAddr = 0
	default:
		c.SAddr = 2 * (1 + rng.Intn(20))
	}
	c.Off13 = []int{0, 0, 4, 64, -4, -64, 4092, -4096, 1, -1, 100, 4095, -2048, -100, -256}[rng.Intn(15)]
	// forced witnesses of the SAddr-mode corner: classes "saddr-neg[-cdna3]", "saddr-ovf[-cdna3]"
	if strings.HasPrefix(class, "saddr-") {
		c.CDNA3 = strings.HasSuffix(class, "-cdna3")
		c.SAddr = 2 * (1 + rng.Intn(20))
		c.Exec = ^uint64(0)
		if strings.HasPrefix(class, "saddr-neg") {
			kind = 1
			c.Off13 = -[]int{4, 64, 100, 2048, 4096}[rng.Intn(5)]
		} else {
			kind = 3
			c.Off13 = []int{8, 64, 100, 4092, 4095}[rng.Intn(5)]
		}
	}
	// targets inside [base+64, base+size-64)
	lo, span := uint64(64), uint64(size-128-16)
	pattern := rng.Intn(6)
	stride := uint64(4 * rc)
	start := lo + uint64(rng.Intn(int(span/2)))&^3
	target := func(l int) uint64 {
		var t uint64
		switch pattern {
		case 0: // contiguous
			t = start + uint64(l)*stride
		case 1: // strided by a line
			t = lo + (uint64(l)*ls)%span&^3
		case 2: // everybody at the same address
			t = start
		case 3: // two addresses
			t = start + uint64(l%2)*ls
		default: // random dword-aligned (pattern 5: any byte alignment that stays inside a line)
			t = lo + uint64(rng.Intn(int(span)))&^3
		}
		if t > lo+span {
			t = lo + (t-lo)%span&^3
		}
		need := 4 * rc
		if op == 16 || op == 17 {
			need = 1
		} else if op == 18 {
			need = 2
		}
		if pattern == 5 || op == 16 || op == 17 || op == 18 {
			if rng.Bool() {
				t += uint64(rng.Intn(4))
			}
		}
		// keep every dword (or the byte / short) of the access in one line
		abs := c.Base + t
		fix := func() bool {
			if need <= 2 {
				return abs%ls+need <= ls
			}
			for j := uint64(0); j < rc; j++ {
				if (abs+4*j)%ls+4 > ls {
					return false
				}
			}
			return true
		}
		if !fix() {
			abs &^= 3
			t = abs - c.Base
		}
		return t
	}
	c.VAddr = make([]uint64, 64)
	c.Data = make([][4]uint32, 64)
	straddler := -1
	if class == "straddle" {
		straddler = rng.Intn(64)
		c.Exec |= uint64(1) << uint(straddler)
	}
	// what the decoder will decide
	mode := c.SAddr != 0x7F && (c.CDNA3 || c.SAddr != 0)
	// absolute target address per lane
	ts := make([]uint64, 64)
	tmin, tmax := ^uint64(0), uint64(0)
	for l := 0; l < 64; l++ {
		t := c.Base + target(l)
		if l == straddler {
			// last dword of the access begins 1..3 bytes before the end of a line
			t = (c.Base+lo+uint64(rng.Intn(4))*ls+ls)&^(ls-1) - uint64(1+rng.Intn(3)) - 4*uint64(rng.Intn(int(rc)))
		}
		ts[l] = t
		if t < tmin {
			tmin = t
		}
		if t > tmax {
			tmax = t
		}
	}
	// Address layout.  target = sbase + zext32(v) + sext(imm) (SAddr mode) must hold
	// with 0 <= v < 2^32, i.e. tmax - imm - (2^32-1) <= sbase <= tmin - imm.
	//   far    : sbase 4 KiB or more below the window, every v well above |imm|
	//   negimm : negative immediate, sbase inside / above the window so that the
	//            lanes whose target lies below sbase have v < |imm| (v + imm < 0)
	//   vhigh  : v within a few hundred bytes of 2^32 (v + imm may exceed 32 bits)
	//   edge   : sbase at the lowest / highest value the 32-bit offset allows
	c.Kind = "far"
	c.SBase = c.Base - 4096 - uint64(rng.Intn(64))*4
	if mode && kind != 0 {
		imm := int64(c.Off13)
		switch kind {
		case 1, 2:
			c.Kind = "negimm"
			if imm >= 0 {
				imm = -int64([]int{1, 4, 60, 64, 100, 256, 2048, 4095, 4096}[rng.Intn(9)])
				c.Off13 = int(imm)
			}
			// sbase = tmin + |imm| - delta, 0 <= delta <= |imm|: lanes with target < sbase have v < |imm|
			c.SBase = tmin + uint64(-imm) - uint64(rng.Intn(int(-imm)+1))
			if rng.Intn(3) == 0 || strings.HasPrefix(class, "saddr-") {
				c.SBase = tmin + uint64(-imm) // the lowest lane has v = 0
			}
		case 3:
			c.Kind = "vhigh"
			c.SBase = tmax - uint64(imm) - (1<<32 - 1) + uint64(rng.Intn(8))
		default:
			c.Kind = "edge"
			if rng.Bool() {
				c.SBase = tmin - uint64(imm)
			} else {
				c.SBase = tmax - uint64(imm) - (1<<32 - 1)
			}
		}
	}
	for l := 0; l < 64; l++ {
		v := ts[l] - uint64(int64(c.Off13))
		if mode {
			v = (v - c.SBase) & 0xFFFFFFFF
			if rng.Intn(4) == 0 {
				v |= rng.U64() << 32 // junk in the (unused) upper register
			}
		}
		c.VAddr[l] = v
		for j := 0; j < 4; j++ {
			c.Data[l][j] = uint32(rng.U64())
		}
	}
	c.run()
	nread := 0
	if isLoad(op) {
		nread = len(c.Txns)
	}
	if nread > 1 && rng.Bool() {
		c.Perm = make([]int, nread)
		for i := range c.Perm {
			c.Perm[i] = i
		}
		for i := nread - 1; i > 0; i-- {
			j := rng.Intn(i + 1)
			c.Perm[i], c.Perm[j] = c.Perm[j], c.Perm[i]
		}
		c.run()
	}
	return c
}

func flatMain(seed uint64, n int, out, rep string) {
	var cases []FlatCase
	if rep != "" {
		readIn(rep, &cases)
		for i := range cases {
			cases[i].run()
		}
	} else {
		rng := vh.NewRng(seed)
		for i := 0; i < n; i++ {
			cases = append(cases, genFlat(rng.Fork(), "valid", flatOps[i%len(flatOps)]))
		}
		// the known class (a dword crossing a cache-line boundary), kept out of
		// the main stream: one witness per dword opcode
		for _, op := range []int{20, 21, 23, 28, 29, 31} {
			cases = append(cases, genFlat(rng.Fork(), "straddle", op))
		}
		// SAddr mode, VGPR offset + immediate outside [0, 2^32) for at least one active lane
		// (negative immediate beyond the offset; positive immediate past 2^32): every
		// opcode both modes implement, both architectures
		for _, cl := range []string{"saddr-neg", "saddr-neg-cdna3", "saddr-ovf", "saddr-ovf-cdna3"} {
			for _, op := range flatOps {
				cases = append(cases, genFlat(rng.Fork(), cl, op))
			}
		}
	}
	writeOut(out, cases)
}
