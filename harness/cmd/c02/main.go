// Command c02 drives the places where timing mode re-implements what the
// emulator also implements (wavefront register initialisation, FLAT memory
// instructions, scalar loads) on the real code of both modes with the same
// generated inputs, and runs whole programs on the emulation and timing
// platforms for the end-to-end differential part.
//
//	c02 init|flat|smem --seed S --n N --out f.json | --replay f.json
//	c02 scan --root <repo>                     (code-object flag census)
//	c02 micro ...   (see micro.go)    c02 bench ... (see bench.go)
package main

import (
	"encoding/json"
	"flag"
	"fmt"
	"io"
	"log"
	"os"
)

func writeOut(path string, v interface{}) {
	data, err := json.Marshal(v)
	if err != nil {
		panic(err)
	}
	if path == "" {
		os.Stdout.Write(data)
		return
	}
	if err := os.WriteFile(path, data, 0o644); err != nil {
		panic(err)
	}
}

func readIn(path string, v interface{}) {
	data, err := os.ReadFile(path)
	if err != nil {
		panic(err)
	}
	if err := json.Unmarshal(data, v); err != nil {
		panic(err)
	}
}

func main() {
	if len(os.Args) < 2 {
		fmt.Fprintln(os.Stderr, "usage: c02 init|flat|smem|scan|micro|bench ...")
		os.Exit(2)
	}
	mode := os.Args[1]
	os.Args = append(os.Args[:1], os.Args[2:]...)
	switch mode {
	case "bench":
		benchMain()
		return
	case "micro":
		microMain()
		return
	case "launches":
		launchesMain()
		return
	case "seq":
		seqMain()
		return
	case "dirty":
		dirtyMain()
		return
	case "copies":
		copiesMain()
		return
	case "twoctx":
		twoctxMain()
		return
	}
	seed := flag.Uint64("seed", 1, "seed")
	n := flag.Int("n", 100, "number of cases")
	out := flag.String("out", "", "output JSON file")
	rep := flag.String("replay", "", "JSON file with cases to replay")
	root := flag.String("root", "/repo", "repository root (scan)")
	flag.Parse()
	log.SetOutput(io.Discard) // the initialisers log "... is not supported" for every case
	switch mode {
	case "init":
		initMain(*seed, *n, *out, *rep)
	case "flat":
		flatMain(*seed, *n, *out, *rep)
	case "smem":
		smemMain(*seed, *n, *out, *rep)
	case "scan":
		scanMain(*root, *out)
	default:
		fmt.Fprintln(os.Stderr, "unknown mode", mode)
		os.Exit(2)
	}
}
