package main

import (
	"fmt"
	"io/fs"
	"os"
	"path/filepath"
	"sort"
	"strings"

	"debug/elf"

	"github.com/sarchlab/akita/v4/mem/mem"
	"github.com/sarchlab/mgpusim/v4/amd/emu"
	"github.com/sarchlab/mgpusim/v4/amd/insts"
	"github.com/sarchlab/mgpusim/v4/amd/kernels"
	"github.com/sarchlab/mgpusim/v4/amd/timing/cu"
	"github.com/sarchlab/mgpusim/v4/amd/timing/wavefront"

	"verifharness/vh"
)

// SmemCase is one s_load_dword(xN) executed by the emulator ALU and by the
// timing scalar unit (cache-line splitting) + scalar write-back.
type SmemCase struct {
	Lg     uint64 `json:"lg"`
	Op     int    `json:"op"`
	SBaseR int    `json:"sbase_r"` // even SGPR index of the base pair
	SData  int    `json:"sdata"`
	Imm    bool   `json:"imm"`
	OffR   int    `json:"off_r"` // SGPR holding the offset when !Imm
	Off    uint32 `json:"off"`   // 20-bit offset value
	BaseV  uint64 `json:"base_v"`
	Base   uint64 `json:"base"`
	MemI   []int  `json:"mem"`
	Perm   []int  `json:"perm"`
	Class  string `json:"class"`

	Start    uint64      `json:"start"`
	EmuOK    bool        `json:"emu_ok"`
	Emu      []uint64    `json:"emu"`
	PiecesOK bool        `json:"pieces_ok"`
	Pieces   [][3]uint64 `json:"pieces"`
	TimOK    bool        `json:"tim_ok"`
	Tim      []uint64    `json:"tim"`
	EmuErr   string      `json:"emu_err,omitempty"`
	TimErr   string      `json:"tim_err,omitempty"`
	Coq      string      `json:"coq"`
}

const nSmemObs = 40

func (c *SmemCase) decode() *insts.Inst {
	lo := uint32(0xC0000000) | uint32(c.Op)<<18 | uint32(c.SData)<<6 | uint32(c.SBaseR>>1)
	hi := c.Off & 0xFFFFF
	if c.Imm {
		lo |= 1 << 17
	} else {
		hi = uint32(c.OffR)
	}
	b := make([]byte, 8)
	put32(b, lo)
	put32(b[4:], hi)
	inst, err := insts.NewDisassembler().Decode(b)
	if err != nil {
		panic(err)
	}
	return inst
}

func (c *SmemCase) mem() []byte {
	m := make([]byte, len(c.MemI))
	for i, x := range c.MemI {
		m[i] = byte(x)
	}
	return m
}

func (c *SmemCase) runEmu(inst *insts.Inst) {
	defer func() {
		if x := recover(); x != nil {
			c.EmuOK, c.Emu, c.EmuErr = false, nil, fmt.Sprint(x)
		}
	}()
	w := &window{base: c.Base, data: c.mem()}
	alu := emu.NewALU(w)
	wf := emu.NewWavefront(kernels.NewWavefront())
	for i := 0; i < len(wf.SRegFile)/4; i++ {
		put32(wf.SRegFile[i*4:], uint32(sSent+i))
	}
	put32(wf.SRegFile[c.SBaseR*4:], uint32(c.BaseV))
	put32(wf.SRegFile[(c.SBaseR+1)*4:], uint32(c.BaseV>>32))
	if !c.Imm {
		put32(wf.SRegFile[c.OffR*4:], c.Off)
	}
	emu.VerifSetInst(wf, inst)
	alu.Run(wf)
	c.EmuOK = true
	for i := 0; i < nSmemObs; i++ {
		c.Emu = append(c.Emu, uint64(wf.SRegValue(i)))
	}
}

func (c *SmemCase) runTiming(inst *insts.Inst) {
	stage := 0
	defer func() {
		if x := recover(); x != nil {
			c.TimErr = fmt.Sprint(x)
			if stage == 0 {
				c.PiecesOK, c.Pieces = false, nil
			}
			c.TimOK, c.Tim = false, nil
		}
	}()
	cuObj := newTimingCU()
	prefillTiming(cuObj)
	wf := wavefront.NewWavefront(kernels.NewWavefront())
	wf.SRegOffset = tSOff
	wf.VRegOffset = tVOff
	wf.RegAccessor = &cu.CURegFileAccessor{CU: cuObj, WF: wf}
	wf.SetDynamicInst(wavefront.NewInst(inst))
	ws := func(reg int, v uint32) {
		b := make([]byte, 4)
		put32(b, v)
		cuObj.SRegFile.Write(cu.RegisterAccess{Reg: insts.SReg(reg), RegCount: 1, WaveOffset: tSOff, Data: b})
	}
	ws(c.SBaseR, uint32(c.BaseV))
	ws(c.SBaseR+1, uint32(c.BaseV>>32))
	if !c.Imm {
		ws(c.OffR, c.Off)
	}
	reqs, _ := cu.VerifSMEM(cuObj, emu.NewALU(nil), c.Lg, wf)
	c.PiecesOK = true
	for i, r := range reqs {
		c.Pieces = append(c.Pieces, [3]uint64{r.Address, r.AccessByteSize,
			uint64(cuObj.InFlightScalarMemAccess[i].DstSGPR.RegIndex())})
	}
	stage = 1
	w := &window{base: c.Base, data: c.mem()}
	order := c.Perm
	if len(order) != len(reqs) {
		order = nil
		for i := range reqs {
			order = append(order, i)
		}
	}
	for _, i := range order {
		r := reqs[i]
		data := w.Read(0, r.Address, r.AccessByteSize)
		data = data[:len(data):len(data)]
		cu.VerifScalarLoadReturn(cuObj, mem.DataReadyRspBuilder{}.WithRspTo(r.ID).WithData(data).Build())
	}
	c.TimOK = true
	for i := 0; i < nSmemObs; i++ {
		c.Tim = append(c.Tim, readS(cuObj, i))
	}
}

func (c *SmemCase) run() {
	c.Emu, c.Pieces, c.Tim, c.EmuErr, c.TimErr = nil, nil, nil, "", ""
	c.Start = c.BaseV + uint64(c.Off)
	c.runEmu(c.decode())
	c.runTiming(c.decode())
	ps := make([]string, len(c.Pieces))
	for i, p := range c.Pieces {
		ps[i] = fmt.Sprintf("(%d, %d, %d)", p[0], p[1], p[2])
	}
	pre := fmt.Sprintf("[(%d, %d); (%d, %d)", c.SBaseR, uint32(c.BaseV), c.SBaseR+1, uint32(c.BaseV>>32))
	if !c.Imm {
		pre += fmt.Sprintf("; (%d, %d)", c.OffR, c.Off)
	}
	pre += "]"
	c.Coq = fmt.Sprintf("mkSCase %d %d %d %d %d %s %s %s %s %s", c.Lg, c.Op, c.Start, c.SData, c.Base,
		vh.CoqBytes(c.mem()), pre, coqOpt(c.EmuOK, vh.CoqNList(c.Emu)), coqOpt(c.PiecesOK, vh.CoqList(ps)),
		coqOpt(c.TimOK, vh.CoqNList(c.Tim)))
}

func genSmem(rng *vh.Rng, class string, op int) SmemCase {
	c := SmemCase{Op: op, Class: class}
	c.Lg = []uint64{6, 6, 6, 7, 4, 3}[rng.Intn(6)]
	ls := uint64(1) << c.Lg
	size := uint64(4) << uint(op)
	c.Base = 0x300000000 + uint64(rng.Intn(1<<16))*128
	c.MemI = make([]int, 640)
	for i := range c.MemI {
		c.MemI[i] = rng.Intn(256)
	}
	c.SBaseR = 2 * rng.Intn(4)
	c.SData = 8 + rng.Intn(16)
	c.Imm = rng.Bool()
	c.OffR = 30 + rng.Intn(4)
	// start: mostly near the end of a line so that the load is split
	var rel uint64
	switch rng.Intn(3) {
	case 0:
		rel = 64 + uint64(rng.Intn(64))*4
	case 1:
		rel = 64 + 2*ls - 4*uint64(1+rng.Intn(int(size/4)))
	default:
		rel = 64 + ls*uint64(1+rng.Intn(3))
	}
	if class == "unaligned" {
		rel = 64 + 2*ls - uint64(1+rng.Intn(3)) - 4*uint64(rng.Intn(int(size/4)))
	}
	c.Off = uint32(rng.Intn(1<<10)) * 4
	if rng.Intn(3) == 0 {
		c.Off = 0
	}
	c.BaseV = c.Base + rel - uint64(c.Off)
	c.run()
	if len(c.Pieces) > 1 && rng.Bool() {
		for i := range c.Pieces {
			c.Perm = append(c.Perm, len(c.Pieces)-1-i)
		}
		c.run()
	}
	return c
}

func smemMain(seed uint64, n int, out, rep string) {
	var cases []SmemCase
	if rep != "" {
		readIn(rep, &cases)
		for i := range cases {
			cases[i].run()
		}
	} else {
		rng := vh.NewRng(seed)
		for i := 0; i < n; i++ {
			class := "aligned"
			if i%7 == 3 {
				class = "unaligned" // both modes drop the two low address bits
			}
			cases = append(cases, genSmem(rng.Fork(), class, i%5))
		}
	}
	writeOut(out, cases)
}

// ---------------------------------------------------------------- flag census

type scanRow struct {
	File     string `json:"file"`
	Kernel   string `json:"kernel"`
	Version  int    `json:"version"`
	QueuePtr bool   `json:"queue_ptr"`
	PrivSize bool   `json:"priv_size"`
	Rsrc2    uint32 `json:"rsrc2"`
}

// scanMain loads every kernel of every .hsaco under root and lists the flags
// on which the two register initialisers used to disagree.
func scanMain(root, out string) {
	var rows []scanRow
	filepath.WalkDir(root, func(p string, d fs.DirEntry, err error) error {
		if err != nil || d.IsDir() || !strings.HasSuffix(p, ".hsaco") {
			return nil
		}
		f, err := elf.Open(p)
		if err != nil {
			return nil
		}
		syms, _ := f.Symbols()
		names := map[string]bool{}
		for _, s := range syms {
			if s.Section == elf.SHN_UNDEF || int(s.Section) >= len(f.Sections) {
				continue
			}
			if f.Sections[s.Section].Name == ".text" && s.Size > 0 {
				names[s.Name] = true
			}
		}
		f.Close()
		var ks []string
		for k := range names {
			ks = append(ks, k)
		}
		sort.Strings(ks)
		for _, k := range ks {
			func() {
				defer func() { recover() }()
				data, err := os.ReadFile(p)
				if err != nil {
					return
				}
				co := insts.LoadKernelCodeObjectFromBytes(data, k)
				if co == nil || co.KernelCodeObjectMeta == nil {
					return
				}
				rel, _ := filepath.Rel(root, p)
				rows = append(rows, scanRow{rel, k, int(co.Version), co.EnableSgprQueuePtr,
					co.EnableSgprPrivateSegmentSize, co.ComputePgmRsrc2})
			}()
		}
		return nil
	})
	writeOut(out, rows)
}
