package main

import (
	"crypto/sha256"
	"encoding/hex"
	"flag"
	"fmt"
	"os"

	"github.com/sarchlab/mgpusim/v4/amd/benchmarks"
	"github.com/sarchlab/mgpusim/v4/amd/benchmarks/amdappsdk/bitonicsort"
	"github.com/sarchlab/mgpusim/v4/amd/benchmarks/amdappsdk/fastwalshtransform"
	"github.com/sarchlab/mgpusim/v4/amd/benchmarks/amdappsdk/floydwarshall"
	"github.com/sarchlab/mgpusim/v4/amd/benchmarks/amdappsdk/matrixtranspose"
	"github.com/sarchlab/mgpusim/v4/amd/benchmarks/amdappsdk/simpleconvolution"
	"github.com/sarchlab/mgpusim/v4/amd/benchmarks/amdappsdk/vectoradd"
	"github.com/sarchlab/mgpusim/v4/amd/benchmarks/heteromark/aes"
	"github.com/sarchlab/mgpusim/v4/amd/benchmarks/heteromark/fir"
	"github.com/sarchlab/mgpusim/v4/amd/driver"
	"github.com/sarchlab/mgpusim/v4/amd/samples/runner"
)

// BenchResult is what one whole-program run leaves behind.
type BenchResult struct {
	Bench    string     `json:"bench"`
	Verified bool       `json:"verified"`
	Error    string     `json:"error,omitempty"`
	Buffers  []BufDump  `json:"buffers"`
}

type BufDump struct {
	Index int    `json:"index"`
	Ptr   uint64 `json:"ptr"`
	Size  uint64 `json:"size"`
	Freed bool   `json:"freed"`
	SHA   string `json:"sha"`
	Hex   string `json:"hex,omitempty"`
}

// benchMain runs one shipped benchmark through runner.Runner exactly as the
// samples do (flags -timing -gpu -arch -magic-memory-copy ... are the
// runner's own), then copies every live device buffer back with MemCopyD2H.
func benchMain() {
	name := flag.String("bench", "fir", "benchmark")
	size := flag.Int("size", 64, "problem size")
	out := flag.String("out", "", "result JSON")
	flag.Parse()

	r := new(runner.Runner).Init()
	d := r.Driver()
	var b benchmarks.Benchmark
	switch *name {
	case "fir":
		x := fir.NewBenchmark(d)
		x.Length = *size
		x.NumTapsParam = 16
		x.Arch = r.ArchType
		b = x
	case "matrixtranspose":
		x := matrixtranspose.NewBenchmark(d)
		x.Width = *size
		x.Arch = r.ArchType
		b = x
	case "bitonicsort":
		x := bitonicsort.NewBenchmark(d)
		x.Length = *size
		x.OrderAscending = true
		x.Arch = r.ArchType
		b = x
	case "aes":
		x := aes.NewBenchmark(d)
		x.Length = *size
		x.Arch = r.ArchType
		b = x
	case "simpleconvolution":
		x := simpleconvolution.NewBenchmark(d)
		x.Width = uint32(*size)
		x.Height = uint32(*size)
		x.SetMaskSize(3)
		x.Arch = r.ArchType
		b = x
	case "vectoradd":
		x := vectoradd.NewBenchmark(d)
		x.Width = uint32(*size)
		x.Height = 1
		b = x
	case "floydwarshall":
		x := floydwarshall.NewBenchmark(d)
		x.NumNodes = uint32(*size)
		x.Arch = r.ArchType
		b = x
	case "fastwalshtransform":
		x := fastwalshtransform.NewBenchmark(d)
		x.Length = uint32(*size)
		x.Arch = r.ArchType
		b = x
	default:
		fmt.Fprintln(os.Stderr, "unknown benchmark", *name)
		os.Exit(2)
	}
	b.SelectGPU(r.GPUIDs)

	res := BenchResult{Bench: *name}
	d.Run()
	func() {
		defer func() {
			if x := recover(); x != nil {
				res.Error = "run: " + fmt.Sprint(x)
			}
		}()
		b.Run()
	}()
	if res.Error == "" {
		func() {
			defer func() {
				if x := recover(); x != nil {
					res.Error = "dump: " + fmt.Sprint(x)
				}
			}()
			idx := 0
			for _, ctx := range driver.VerifContexts(d) {
				// one queue and one drain per context (not one per buffer)
				q := d.CreateCommandQueue(ctx)
				var datas [][]byte
				first := len(res.Buffers)
				for _, vb := range driver.VerifBuffers(ctx) {
					bd := BufDump{Index: idx, Ptr: uint64(vb.Ptr), Size: vb.Size, Freed: vb.Freed}
					idx++
					var data []byte
					if !vb.Freed && vb.Size > 0 && vb.Size <= 1<<22 {
						data = make([]byte, vb.Size)
						d.EnqueueMemCopyD2H(q, data, vb.Ptr)
					}
					datas = append(datas, data)
					res.Buffers = append(res.Buffers, bd)
				}
				d.DrainCommandQueue(q)
				for i, data := range datas {
					if data == nil {
						continue
					}
					bd := &res.Buffers[first+i]
					h := sha256.Sum256(data)
					bd.SHA = hex.EncodeToString(h[:])
					if len(data) <= 1<<16 {
						bd.Hex = hex.EncodeToString(data)
					}
				}
			}
		}()
		// some benchmarks end the process (log.Fatal) when verification fails:
		// leave the result on disk first
		res.Error = "verify: did not return"
		writeOut(*out, res)
		func() {
			defer func() {
				if x := recover(); x != nil {
					res.Error = "verify: " + fmt.Sprint(x)
				}
			}()
			b.Verify()
			res.Verified = true
			res.Error = ""
		}()
	}
	writeOut(*out, res)
	d.Terminate()
	os.Exit(0)
}
