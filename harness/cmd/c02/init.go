package main

import (
	"fmt"
	"strings"

	"github.com/sarchlab/akita/v4/sim"
	"github.com/sarchlab/mgpusim/v4/amd/emu"
	"github.com/sarchlab/mgpusim/v4/amd/insts"
	"github.com/sarchlab/mgpusim/v4/amd/kernels"
	"github.com/sarchlab/mgpusim/v4/amd/protocol"
	"github.com/sarchlab/mgpusim/v4/amd/timing/cu"
	"github.com/sarchlab/mgpusim/v4/amd/timing/wavefront"

	"verifharness/vh"
)

// InitCase is one input of the two wavefront register initialisers plus what
// each of them did (PC, EXEC, s0..s23, v0..v2 of 64 lanes; nil = panic).
type InitCase struct {
	Version int      `json:"version"`
	Entry   uint64   `json:"entry"`
	En      [10]bool `json:"en"` // PrivateSegmentBuffer DispatchPtr QueuePtr KernargSegmentPtr DispatchID FlatScratchInit PrivateSegmentSize GridWorkgroupCountX/Y/Z
	Rsrc2   uint32   `json:"rsrc2"`

	KernelObject uint64    `json:"kernel_object"`
	Kernarg      uint64    `json:"kernarg"`
	Grid         [3]uint32 `json:"grid"`
	WG           [3]uint16 `json:"wg"`

	PacketAddr uint64 `json:"packet_addr"`
	InitExec   uint64 `json:"init_exec"`
	FirstWi    int    `json:"first_wi"`
	ID         [3]int `json:"id"`
	SX         int    `json:"sx"`
	SY         int    `json:"sy"`

	Emu    []uint64 `json:"emu"`
	Timing []uint64 `json:"timing"`
	Coq    string   `json:"coq"`
}

const (
	sSent = 0xDEAD0000
	vSent = 0xBEEF0000
	nSObs = 24
)

func (c *InitCase) objects() (*insts.KernelCodeObject, *kernels.HsaKernelDispatchPacket, *kernels.Wavefront) {
	meta := &insts.KernelCodeObjectMeta{
		ComputePgmRsrc2:                c.Rsrc2,
		KernelCodeEntryByteOffset:      c.Entry,
		EnableSgprPrivateSegmentBuffer: c.En[0],
		EnableSgprDispatchPtr:          c.En[1],
		EnableSgprQueuePtr:             c.En[2],
		EnableSgprKernargSegmentPtr:    c.En[3],
		EnableSgprDispatchID:           c.En[4],
		EnableSgprFlatScratchInit:      c.En[5],
		EnableSgprPrivateSegmentSize:   c.En[6],
		EnableSgprGridWorkgroupCountX:  c.En[7],
		EnableSgprGridWorkgroupCountY:  c.En[8],
		EnableSgprGridWorkgroupCountZ:  c.En[9],
	}
	co := &insts.KernelCodeObject{KernelCodeObjectMeta: meta, Version: insts.CodeObjectVersion(c.Version)}
	pkt := &kernels.HsaKernelDispatchPacket{
		WorkgroupSizeX: c.WG[0], WorkgroupSizeY: c.WG[1], WorkgroupSizeZ: c.WG[2],
		GridSizeX: c.Grid[0], GridSizeY: c.Grid[1], GridSizeZ: c.Grid[2],
		KernelObject: c.KernelObject, KernargAddress: c.Kernarg,
	}
	wg := kernels.NewWorkGroup()
	wg.CodeObject = co
	wg.Packet = pkt
	wg.SizeX, wg.SizeY, wg.SizeZ = c.SX, c.SY, int(c.WG[2])
	wg.IDX, wg.IDY, wg.IDZ = c.ID[0], c.ID[1], c.ID[2]
	wf := kernels.NewWavefront()
	wf.CodeObject = co
	wf.Packet = pkt
	wf.PacketAddress = c.PacketAddr
	wf.FirstWiFlatID = c.FirstWi
	wf.WG = wg
	wf.InitExecMask = c.InitExec
	return co, pkt, wf
}

func le32(b []byte) uint64 {
	return uint64(b[0]) | uint64(b[1])<<8 | uint64(b[2])<<16 | uint64(b[3])<<24
}

func put32(b []byte, v uint32) {
	b[0], b[1], b[2], b[3] = byte(v), byte(v>>8), byte(v>>16), byte(v>>24)
}

func (c *InitCase) runEmu() (obs []uint64) {
	defer func() {
		if x := recover(); x != nil {
			obs = nil
		}
	}()
	_, _, kwf := c.objects()
	wf := emu.NewWavefront(kwf)
	for i := 0; i < len(wf.SRegFile)/4; i++ {
		put32(wf.SRegFile[i*4:], uint32(sSent+i))
	}
	for l := 0; l < 64; l++ {
		for i := 0; i < 256; i++ {
			put32(wf.VRegFile[l*1024+i*4:], uint32(vSent+l*256+i))
		}
	}
	emu.VerifInitWfRegs(wf)
	obs = append(obs, wf.PC(), wf.EXEC())
	for i := 0; i < nSObs; i++ {
		obs = append(obs, uint64(wf.SRegValue(i)))
	}
	for l := 0; l < 64; l++ {
		for i := 0; i < 3; i++ {
			obs = append(obs, uint64(wf.VRegValue(l, i)))
		}
	}
	return obs
}

const (
	tSOff = 512
	tVOff = 2048
)

// newTimingCU builds a bare compute unit with register files only.
func newTimingCU() *cu.ComputeUnit {
	c := cu.NewComputeUnit("CU", sim.NewSerialEngine())
	c.SRegFile = cu.NewSimpleRegisterFile(4*1024, 0)
	c.VRegFile = []cu.RegisterFile{cu.NewSimpleRegisterFile(64*1024+8192, 1024)}
	c.ScalarMem = sim.NewPort(c, 4, 4, "CU.FakeScalarMem")
	return c
}

func prefillTiming(c *cu.ComputeUnit) {
	for i := 0; i < 102; i++ {
		b := make([]byte, 4)
		put32(b, uint32(sSent+i))
		c.SRegFile.Write(cu.RegisterAccess{Reg: insts.SReg(i), RegCount: 1, WaveOffset: tSOff, Data: b})
	}
	for l := 0; l < 64; l++ {
		for i := 0; i < 256; i++ {
			b := make([]byte, 4)
			put32(b, uint32(vSent+l*256+i))
			c.VRegFile[0].Write(cu.RegisterAccess{Reg: insts.VReg(i), RegCount: 1, LaneID: l, WaveOffset: tVOff, Data: b})
		}
	}
}

func readS(c *cu.ComputeUnit, i int) uint64 {
	b := make([]byte, 4)
	c.SRegFile.Read(cu.RegisterAccess{Reg: insts.SReg(i), RegCount: 1, WaveOffset: tSOff, Data: b})
	return le32(b)
}

func readV(c *cu.ComputeUnit, lane, i int) uint64 {
	b := make([]byte, 4)
	c.VRegFile[0].Read(cu.RegisterAccess{Reg: insts.VReg(i), RegCount: 1, LaneID: lane, WaveOffset: tVOff, Data: b})
	return le32(b)
}

func (c *InitCase) runTiming() (obs []uint64) {
	defer func() {
		if x := recover(); x != nil {
			obs = nil
		}
	}()
	_, _, kwf := c.objects()
	cuObj := newTimingCU()
	prefillTiming(cuObj)
	wf := wavefront.NewWavefront(kwf)
	wf.WG = wavefront.NewWorkGroup(kwf.WG, nil)
	d := cu.NewWfDispatcher(cuObj)
	d.DispatchWf(wf, protocol.WfDispatchLocation{Wavefront: kwf, SIMDID: 0, VGPROffset: tVOff, SGPROffset: tSOff})
	obs = append(obs, wf.PC(), wf.EXEC())
	for i := 0; i < nSObs; i++ {
		obs = append(obs, readS(cuObj, i))
	}
	for l := 0; l < 64; l++ {
		for i := 0; i < 3; i++ {
			obs = append(obs, readV(cuObj, l, i))
		}
	}
	return obs
}

func coqOptNList(xs []uint64) string {
	if xs == nil {
		return "None"
	}
	return "(Some " + vh.CoqNList(xs) + ")"
}

func (c *InitCase) coq() string {
	en := make([]string, 10)
	for i, b := range c.En {
		en[i] = vh.CoqBool(b)
	}
	return fmt.Sprintf("mkICase (mkFlags %d %d %s %d) (mkPacket %d %d %d %d %d %d %d %d) (mkWave %d %d %d %d %d %d %d %d) %s %s",
		c.Version, c.Entry, strings.Join(en, " "), c.Rsrc2,
		c.KernelObject, c.Kernarg, c.Grid[0], c.Grid[1], c.Grid[2], c.WG[0], c.WG[1], c.WG[2],
		c.PacketAddr, c.InitExec, c.FirstWi, c.ID[0], c.ID[1], c.ID[2], c.SX, c.SY,
		coqOptNList(c.Emu), coqOptNList(c.Timing))
}

func (c *InitCase) run() {
	c.Emu = c.runEmu()
	c.Timing = c.runTiming()
	c.Coq = c.coq()
}

func genInit(rng *vh.Rng, idx int) InitCase {
	var c InitCase
	c.Version = []int{2, 3, 3, 5, 5}[rng.Intn(5)]
	c.Entry = []uint64{0, 256}[rng.Intn(2)]
	// flag density varies per case so that both sparse (shipped-kernel like)
	// and dense combinations appear
	dens := []int{1, 2, 3}[rng.Intn(3)]
	for i := range c.En {
		c.En[i] = rng.Intn(4) < dens
	}
	if rng.Intn(3) == 0 {
		// the shape of every shipped kernel: kernarg pointer (+ dispatch pointer)
		c.En = [10]bool{}
		c.En[3] = true
		c.En[1] = rng.Bool()
	}
	c.Rsrc2 = uint32(rng.U64()) & 0x1FFF
	if rng.Intn(4) == 0 {
		c.Rsrc2 = uint32(rng.U64())
	}
	c.KernelObject = 0x100000000 + uint64(rng.Intn(1<<20))*64
	if rng.Intn(16) == 0 {
		c.KernelObject = ^uint64(0) - uint64(rng.Intn(300))
	}
	c.Kernarg = rng.U64() >> uint(rng.Intn(40))
	c.PacketAddr = rng.U64() >> uint(rng.Intn(40))
	for i := 0; i < 3; i++ {
		c.WG[i] = uint16([]int{1, 2, 4, 8, 16, 64, 256, 3, 10, 1024}[rng.Intn(10)])
		c.Grid[i] = uint32(1 + rng.Intn(1<<uint(1+rng.Intn(20))))
		if rng.Intn(12) == 0 {
			c.Grid[i] = ^uint32(0) - uint32(rng.Intn(2000))
		}
		c.ID[i] = rng.Intn(1 << uint(rng.Intn(16)))
	}
	if rng.Intn(25) == 0 {
		c.WG[rng.Intn(3)] = 0 // division by zero in the group-count computation
	}
	c.SX, c.SY = int(c.WG[0]), int(c.WG[1])
	if rng.Intn(6) == 0 {
		c.SX = 1 + rng.Intn(70)
		c.SY = 1 + rng.Intn(20)
	}
	if rng.Intn(40) == 0 {
		c.SX = 0
	}
	c.FirstWi = 64 * rng.Intn(16)
	c.InitExec = rng.U64()
	if rng.Bool() {
		c.InitExec = ^uint64(0)
	}
	c.run()
	return c
}

func initMain(seed uint64, n int, out, rep string) {
	var cases []InitCase
	if rep != "" {
		readIn(rep, &cases)
		for i := range cases {
			cases[i].run()
		}
	} else {
		rng := vh.NewRng(seed)
		for i := 0; i < n; i++ {
			cases = append(cases, genInit(rng.Fork(), i))
		}
	}
	writeOut(out, cases)
}
