package main

import (
	"encoding/hex"
	"flag"
	"os"

	"github.com/sarchlab/mgpusim/v4/amd/driver"
	"github.com/sarchlab/mgpusim/v4/amd/insts"

	"verifharness/vh"
)

// ---------------------------------------------------------------- c02 copies
// copy - kernel - copy streams with UNALIGNED device pointers and lengths on
// sub-ranges of one buffer, in both directions; every byte that comes back is
// compared with the emulation run.

// inc kernel: buf[gid] += c
func incKernel() *insts.KernelCodeObject {
	a := &asm{}
	a.smemLoad(1, 4, 0, 0) // s_load_dwordx2 s[4:5], s[0:1], 0
	a.smemLoad(0, 8, 0, 8) // s_load_dword s8, s[0:1], 8
	a.waitcnt(wLGK0)
	a.sop2(28, 3, sgpr(2), konst(6))
	a.vop2(25, 1, sgpr(3), 0)
	a.vop2(18, 2, konst(2), 1)
	addr64(a, 3, 4)
	a.flat(20, 3, 0, 5)
	a.waitcnt(wAll)
	a.vop2(25, 5, sgpr(8), 5)
	a.flat(28, 3, 5, 0)
	a.sopp(1, 0)
	return seqCodeObject("inc", a, 16)
}

type CopyOp struct {
	Kind string `json:"kind"` // h2d d2h kernel
	Off  int    `json:"off"`
	Len  int    `json:"len"`
	Val  uint32 `json:"val,omitempty"`
	Data string `json:"data,omitempty"` // d2h: what came back (hex)
}

type CopyResult struct {
	Index int      `json:"index"`
	Ops   []CopyOp `json:"ops"`
	Final string   `json:"final"`
}

const copyBufBytes = 3 * 4096

func genCopies(rng *vh.Rng, idx int) CopyResult {
	r := CopyResult{Index: idx}
	offs := []int{4, 60, 63, 1, 2, 64, 0, 124, 4092, 4095}
	lens := []int{1, 2, 3, 4, 5, 60, 63, 64, 65, 127, 128, 129, 132, 200, 1000, 4096, 4100}
	for i := 0; i < 6+rng.Intn(8); i++ {
		op := CopyOp{Off: offs[rng.Intn(len(offs))] + 64*rng.Intn(60), Len: lens[rng.Intn(len(lens))]}
		if rng.Intn(4) == 0 {
			op.Off = rng.Intn(copyBufBytes - 1)
			op.Len = 1 + rng.Intn(4096)
		}
		if op.Off+op.Len > copyBufBytes {
			op.Len = copyBufBytes - op.Off
		}
		switch rng.Intn(5) {
		case 0, 1:
			op.Kind = "h2d"
			op.Val = uint32(rng.U64())
		case 2, 3:
			op.Kind = "d2h"
		default:
			op.Kind = "kernel"
			op.Val = uint32(rng.U64())
		}
		r.Ops = append(r.Ops, op)
	}
	return r
}

func copiesMain() {
	seed := flag.Uint64("seed", 1, "seed")
	n := flag.Int("n", 6, "number of scenarios")
	only := flag.Int("only", -1, "run only this scenario")
	platform := flag.String("platform", "emu", "platform")
	out := flag.String("out", "", "result JSON")
	flag.Parse()

	rng := vh.NewRng(*seed ^ 0xc0b1)
	var scs []CopyResult
	for i := 0; i < *n; i++ {
		s := genCopies(rng.Fork(), i)
		if *only < 0 || *only == i {
			scs = append(scs, s)
		}
	}
	sim := buildPlatform(*platform)
	d := sim.GetComponentByName("Driver").(*driver.Driver)
	d.Run()
	ctx := d.Init()
	d.SelectGPU(ctx, 1)
	inc := incKernel()

	for i := range scs {
		s := &scs[i]
		buf := d.AllocateMemory(ctx, copyBufBytes)
		init := make([]byte, copyBufBytes)
		for j := range init {
			init[j] = byte(j*7 + s.Index)
		}
		d.MemCopyH2D(ctx, buf, init)
		for j := range s.Ops {
			op := &s.Ops[j]
			switch op.Kind {
			case "h2d":
				data := make([]byte, op.Len)
				x := op.Val
				for k := range data {
					x = x*1664525 + 1013904223
					data[k] = byte(x >> 24)
				}
				d.MemCopyH2D(ctx, buf+driver.Ptr(op.Off), data)
			case "d2h":
				data := make([]byte, op.Len)
				d.MemCopyD2H(ctx, data, buf+driver.Ptr(op.Off))
				op.Data = hex.EncodeToString(data)
			case "kernel":
				args := DirtyArgs{Buf: buf, Tag: op.Val}
				d.LaunchKernel(ctx, inc, [3]uint32{copyBufBytes / 4, 1, 1}, [3]uint16{64, 1, 1}, &args)
			}
		}
		fin := make([]byte, copyBufBytes)
		d.MemCopyD2H(ctx, fin, buf)
		s.Final = hex.EncodeToString(fin)
	}
	writeOut(*out, scs)
	d.Terminate()
	os.Exit(0)
}

// ---------------------------------------------------------------- c02 twoctx
// Two driver contexts (two PIDs) run kernels concurrently on one GPU from two
// command queues, over buffers that have the same virtual addresses in both
// address spaces but different contents.

// walk kernel: every work-item reads one word of each of the P pages of the
// input (stride 4096 bytes, so all wavefronts of both contexts walk over the
// same virtual pages at about the same time) and stores the XOR, ^ tag, + gid.
const walkPages = 32

func xformKernel() *insts.KernelCodeObject {
	a := &asm{}
	a.smemLoad(2, 4, 0, 0)  // s_load_dwordx4 s[4:7], s[0:1], 0   in, out
	a.smemLoad(0, 8, 0, 16) // s_load_dword s8, s[0:1], 16       tag
	a.waitcnt(wLGK0)
	a.sop2(28, 3, sgpr(2), konst(6))
	a.vop2(25, 1, sgpr(3), 0)  // gid
	a.sopk(0, 12, 1023)
	a.vop2(19, 2, sgpr(12), 1) // gid & 1023
	a.vop2(18, 2, konst(2), 2)
	addr64(a, 3, 4) // &in[gid & 1023]
	a.vop2(18, 2, konst(2), 1)
	addr64(a, 6, 6) // &out[gid]
	a.vop1(1, 5, konst(0))
	a.sopk(0, 10, walkPages)
	a.sopk(0, 11, 4096)
	top := a.pc()
	a.flat(20, 3, 0, 8)
	a.waitcnt(wVM0)
	a.vop2(21, 5, vsrc(8), 5)
	a.vop2(25, 3, sgpr(11), 3)
	a.vop2(28, 4, konst(0), 4)
	a.sop2(1, 10, sgpr(10), konst(1))
	a.sopc(7, sgpr(10), konst(0))
	a.sopp(5, (top-(a.pc()+4))/4)
	a.vop2(21, 5, sgpr(8), 5)
	a.vop2(25, 5, vsrc(1), 5)
	a.flat(28, 6, 5, 0)
	a.sopp(1, 0)
	return seqCodeObject("walk", a, 24)
}

type TwoCtxResult struct {
	Index    int        `json:"index"`
	Words    int        `json:"words"`
	Rounds   int        `json:"rounds"`
	SamePtrs bool       `json:"same_ptrs"` // the two contexts got the same virtual addresses
	Out      [][]uint32 `json:"out"`       // final buffer of context 0 and 1
}

func twoctxMain() {
	seed := flag.Uint64("seed", 1, "seed")
	n := flag.Int("n", 3, "number of scenarios")
	platform := flag.String("platform", "emu", "platform")
	out := flag.String("out", "", "result JSON")
	flag.Parse()

	rng := vh.NewRng(*seed ^ 0x2c7)
	sim := buildPlatform(*platform)
	d := sim.GetComponentByName("Driver").(*driver.Driver)
	d.Run()
	var res []TwoCtxResult
	for i := 0; i < *n; i++ {
		r := TwoCtxResult{Index: i, Words: 1024 * (2 + rng.Intn(3)), Rounds: 1 + rng.Intn(3)}
		// fresh code objects for every context: the driver caches the device address of a code object
		// per object, not per address space; a context that reuses another one's object runs whatever
		// its own address space holds there (garbage: panics or never ends)
		xf := [2]*insts.KernelCodeObject{xformKernel(), xformKernel()}
		var ctxs [2]*driver.Context
		var qs [2]*driver.CommandQueue
		var bufs [2][]driver.Ptr
		for c := 0; c < 2; c++ {
			ctxs[c] = d.Init() // a new PID with its own address space
			d.SelectGPU(ctxs[c], 1)
			bufs[c] = append(bufs[c], d.AllocateMemory(ctxs[c], walkPages*4096))
			for b := 0; b < r.Rounds; b++ {
				bufs[c] = append(bufs[c], d.AllocateMemory(ctxs[c], uint64(4*r.Words)))
			}
			in := make([]uint32, walkPages*1024)
			for j := range in {
				in[j] = uint32(0x11110000*(c+1)) + uint32(j*3+i)
			}
			d.MemCopyH2D(ctxs[c], bufs[c][0], in)
			qs[c] = d.CreateCommandQueue(ctxs[c])
		}
		r.SamePtrs = true
		for b := range bufs[0] {
			if bufs[0][b] != bufs[1][b] {
				r.SamePtrs = false
			}
		}
		for round := 0; round < r.Rounds; round++ {
			for c := 0; c < 2; c++ {
				args := ReaderArgs{X: bufs[c][0], Out: bufs[c][round+1], KOff: uint32(0xA5A50000*(c+1)) + uint32(round)}
				d.EnqueueLaunchKernel(qs[c], xf[c], [3]uint32{uint32(r.Words), 1, 1}, [3]uint16{64, 1, 1}, &args)
			}
		}
		for c := 0; c < 2; c++ {
			d.DrainCommandQueue(qs[c])
		}
		for c := 0; c < 2; c++ {
			var all []uint32
			for b := 1; b <= r.Rounds; b++ {
				o := make([]uint32, r.Words)
				d.MemCopyD2H(ctxs[c], o, bufs[c][b])
				all = append(all, o...)
			}
			r.Out = append(r.Out, all)
		}
		res = append(res, r)
	}
	writeOut(*out, res)
	d.Terminate()
	os.Exit(0)
}
