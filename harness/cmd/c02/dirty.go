package main

import (
	"flag"
	"os"

	"github.com/sarchlab/mgpusim/v4/amd/driver"
	"github.com/sarchlab/mgpusim/v4/amd/insts"

	"verifharness/vh"
)

// copy - kernel - copy - kernel - copy: a kernel leaves (nearly) the whole L2
// dirty, the host then overwrites one page of the same buffer, a second
// kernel reads the page back, and the host copies page and read-back out.
// To make "a lot of dirty lines" cheap every work-item writes one word into
// each of 16 different cache lines.

const (
	dirtyLinesPerWI = 16
	dirtyWIs        = 2048                                // 32 wavefronts
	dirtyWords      = dirtyWIs * dirtyLinesPerWI * 16      // 2 MB
	pageWords       = 1024
)

// dirty kernel: for j < 16: buf[(gid*16+j)*16] = (gid*16+j) | tag
func dirtyKernel() *insts.KernelCodeObject {
	a := &asm{}
	a.smemLoad(1, 4, 0, 0) // s_load_dwordx2 s[4:5], s[0:1], 0
	a.smemLoad(0, 8, 0, 8) // s_load_dword s8, s[0:1], 8      tag
	a.waitcnt(wLGK0)
	a.sop2(28, 3, sgpr(2), konst(6))
	a.vop2(25, 1, sgpr(3), 0)   // gid
	a.vop2(18, 5, konst(4), 1)  // v5 = gid*16 (line number of the first store)
	a.vop2(18, 2, konst(10), 1) // v2 = gid*16*64 bytes
	addr64(a, 3, 4)
	a.vop2(20, 5, sgpr(8), 5) // v5 |= tag
	for j := 0; j < dirtyLinesPerWI; j++ {
		a.flat(28, 3, 5, 0)
		a.vop2(25, 5, konst(1), 5)
		a.vop2(25, 3, konst(64), 3)
		a.vop2(28, 4, konst(0), 4)
	}
	a.sopp(1, 0)
	return seqCodeObject("dirty_writer", a, 16)
}

// page reader: out[gid] = buf[off/4 + gid]
func pageReaderKernel() *insts.KernelCodeObject {
	a := &asm{}
	a.smemLoad(2, 4, 0, 0)  // s_load_dwordx4 s[4:7], s[0:1], 0  buf, out
	a.smemLoad(0, 8, 0, 16) // s_load_dword s8, s[0:1], 16      byte offset
	a.waitcnt(wLGK0)
	a.sop2(0, 4, sgpr(4), sgpr(8))  // s_add_u32 s4, s4, s8
	a.sop2(4, 5, sgpr(5), konst(0)) // s_addc_u32 s5, s5, 0
	a.sop2(28, 3, sgpr(2), konst(6))
	a.vop2(25, 1, sgpr(3), 0)
	a.vop2(18, 2, konst(2), 1)
	addr64(a, 3, 4)
	a.flat(20, 3, 0, 5)
	addr64(a, 6, 6)
	a.waitcnt(wAll)
	a.flat(28, 6, 5, 0)
	a.sopp(1, 0)
	return seqCodeObject("page_reader", a, 24)
}

type DirtyArgs struct {
	Buf driver.Ptr
	Tag uint32
	Pad uint32
}

type DirtyResult struct {
	Index    int      `json:"index"`
	Page     int      `json:"page"`
	PageData []uint32 `json:"page_data"` // the overwritten page as the host sees it at the end
	ReadBack []uint32 `json:"read_back"` // what the second kernel read from it
	Before   []uint32 `json:"before"`    // the page before it
	After    []uint32 `json:"after"`     // the page after it
}

func dirtyMain() {
	seed := flag.Uint64("seed", 1, "seed")
	n := flag.Int("n", 2, "number of scenarios")
	platform := flag.String("platform", "emu", "platform")
	out := flag.String("out", "", "result JSON")
	flag.Parse()

	rng := vh.NewRng(*seed ^ 0xd127)
	sim := buildPlatform(*platform)
	d := sim.GetComponentByName("Driver").(*driver.Driver)
	d.Run()
	ctx := d.Init()
	d.SelectGPU(ctx, 1)
	wr, rd := dirtyKernel(), pageReaderKernel()

	var res []DirtyResult
	numPages := dirtyWords / pageWords
	for i := 0; i < *n; i++ {
		r := DirtyResult{Index: i, Page: numPages/4 + rng.Intn(numPages/2)}
		buf := d.AllocateMemory(ctx, uint64(4*dirtyWords))
		dOut := d.AllocateMemory(ctx, uint64(4*pageWords))
		args := DirtyArgs{Buf: buf, Tag: 0x80000000 | uint32(i+1)<<24}
		d.LaunchKernel(ctx, wr, [3]uint32{dirtyWIs, 1, 1}, [3]uint16{64, 1, 1}, &args)

		host := make([]uint32, pageWords)
		for j := range host {
			host[j] = 0x00C00000 + uint32(i)<<16 + uint32(j)
		}
		pagePtr := buf + driver.Ptr(4*pageWords*r.Page)
		d.MemCopyH2D(ctx, pagePtr, host)

		rargs := ReaderArgs{X: buf, Out: dOut, KOff: uint32(4 * pageWords * r.Page)}
		d.LaunchKernel(ctx, rd, [3]uint32{pageWords, 1, 1}, [3]uint16{64, 1, 1}, &rargs)

		r.PageData = make([]uint32, pageWords)
		r.ReadBack = make([]uint32, pageWords)
		r.Before = make([]uint32, pageWords)
		r.After = make([]uint32, pageWords)
		d.MemCopyD2H(ctx, r.ReadBack, dOut)
		d.MemCopyD2H(ctx, r.PageData, pagePtr)
		d.MemCopyD2H(ctx, r.Before, pagePtr-driver.Ptr(4*pageWords))
		d.MemCopyD2H(ctx, r.After, pagePtr+driver.Ptr(4*pageWords))
		res = append(res, r)
	}
	writeOut(*out, res)
	d.Terminate()
	os.Exit(0)
}
