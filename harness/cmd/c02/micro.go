package main

import (
	"crypto/sha256"
	"debug/elf"
	"encoding/hex"
	"flag"
	"fmt"
	"os"
	"sort"
	"strings"
	"sync"

	"github.com/sarchlab/akita/v4/sim"
	"github.com/sarchlab/akita/v4/simulation"
	"github.com/sarchlab/akita/v4/tracing"
	"github.com/sarchlab/mgpusim/v4/amd/arch"
	"github.com/sarchlab/mgpusim/v4/amd/driver"
	"github.com/sarchlab/mgpusim/v4/amd/emu"
	"github.com/sarchlab/mgpusim/v4/amd/insts"
	"github.com/sarchlab/mgpusim/v4/amd/kernels"
	"github.com/sarchlab/mgpusim/v4/amd/samples/runner/emusystem"
	"github.com/sarchlab/mgpusim/v4/amd/samples/runner/timingconfig"
	"github.com/sarchlab/mgpusim/v4/amd/sampling"
	"github.com/sarchlab/mgpusim/v4/amd/timing/cu"
	"github.com/sarchlab/mgpusim/v4/amd/timing/wavefront"

	"verifharness/vh"
)

// ---------------------------------------------------------------- assembler
// Hand encodings of the GCN3 (VI) instruction formats; every kernel is decoded
// again with the repository's disassembler before it is run.

const (
	srcVCCLO = 106
)

func sgpr(n int) int  { return n }
func vsrc(n int) int  { return 256 + n }
func konst(k int) int { // inline integer constant -16..64
	if k >= 0 {
		return 128 + k
	}
	return 192 - k
}

type asm struct{ w []uint32 }

func (a *asm) pc() int              { return 4 * len(a.w) }
func (a *asm) emit(ws ...uint32)    { a.w = append(a.w, ws...) }
func (a *asm) sop2(op, d, s0, s1 int) { a.emit(0x80000000 | uint32(op)<<23 | uint32(d)<<16 | uint32(s1)<<8 | uint32(s0)) }
func (a *asm) sop1(op, d, s0 int)   { a.emit(0xBE800000 | uint32(d)<<16 | uint32(op)<<8 | uint32(s0)) }
func (a *asm) sopc(op, s0, s1 int)  { a.emit(0xBF000000 | uint32(op)<<16 | uint32(s1)<<8 | uint32(s0)) }
func (a *asm) sopp(op, imm int)     { a.emit(0xBF800000 | uint32(op)<<16 | uint32(uint16(imm))) }
func (a *asm) sopk(op, d, imm int)  { a.emit(0xB0000000 | uint32(op)<<23 | uint32(d)<<16 | uint32(uint16(imm))) }
func (a *asm) smemLoad(op, sdata, sbase, off int) {
	a.emit(0xC0000000|uint32(op)<<18|1<<17|uint32(sdata)<<6|uint32(sbase>>1), uint32(off))
}
func (a *asm) vop2(op, d, s0, v1 int) { a.emit(uint32(op)<<25 | uint32(d)<<17 | uint32(v1)<<9 | uint32(s0)) }
func (a *asm) vop1(op, d, s0 int)    { a.emit(0x7E000000 | uint32(d)<<17 | uint32(op)<<9 | uint32(s0)) }
func (a *asm) vopc(op, s0, v1 int)   { a.emit(0x7C000000 | uint32(op)<<17 | uint32(v1)<<9 | uint32(s0)) }
func (a *asm) flat(op, addr, data, dst int) {
	a.emit(0xDC000000|uint32(op)<<18, uint32(addr)|uint32(data)<<8|0x7F<<16|uint32(dst)<<24)
}
func (a *asm) ds(op, addr, data0, dst, off int) {
	a.emit(0xD8000000|uint32(op)<<17|uint32(off), uint32(addr)|uint32(data0)<<8|uint32(dst)<<24)
}

const (
	wAll  = 0x0000
	wVM0  = 0x0F70
	wLGK0 = 0x007F
)

func (a *asm) waitcnt(x int) { a.sopp(12, x) }

// ---------------------------------------------------------------- generator

// MicroKernel is one generated program and its launch geometry.
type MicroKernel struct {
	Index    int      `json:"index"`
	Words    []uint32 `json:"words"`
	CodeWords int     `json:"code_words"` // words that are instructions (a constant table may follow)
	WGSize   int      `json:"wg_size"`
	NumWG    int      `json:"num_wg"`
	LDS      int      `json:"lds"`
	SGPRs    int      `json:"sgprs"` // WFSgprCount of the code object
	VGPRs    int      `json:"vgprs"` // WIVgprCount
	Features []string `json:"features"`
}

var vTemps = []int{5, 8, 9, 10, 11}
var sTemps = []int{12, 13, 14, 15}
var vop2Ops = []int{8, 12, 13, 14, 15, 16, 17, 18, 19, 20, 21, 25, 26, 6}
var sop2Ops = []int{0, 1, 12, 28, 30, 36, 6, 7, 8, 9}

func pick(rng *vh.Rng, xs []int) int { return xs[rng.Intn(len(xs))] }

func anyVSrc(rng *vh.Rng) int {
	switch rng.Intn(4) {
	case 0:
		return sgpr(pick(rng, append([]int{2}, sTemps...)))
	case 1:
		return konst(rng.Intn(81) - 16)
	default:
		return vsrc(pick(rng, append([]int{0, 1}, vTemps...)))
	}
}

func genOps(rng *vh.Rng, a *asm, n int) {
	for i := 0; i < n; i++ {
		switch rng.Intn(6) {
		case 0:
			s0 := sgpr(pick(rng, append([]int{2}, sTemps...)))
			s1 := sgpr(pick(rng, sTemps))
			if rng.Bool() {
				s1 = konst(rng.Intn(33))
			}
			a.sop2(pick(rng, sop2Ops), pick(rng, sTemps), s0, s1)
		case 1:
			a.vop1(1, pick(rng, vTemps), anyVSrc(rng)) // v_mov_b32
		default:
			a.vop2(pick(rng, vop2Ops), pick(rng, vTemps), anyVSrc(rng), pick(rng, append([]int{0, 1}, vTemps...)))
		}
	}
}

// addr64 computes v[lo:lo+1] = s[base:base+1] + v2 (byte offset of the work-item).
func addr64(a *asm, lo, base int) {
	a.vop1(1, lo+1, sgpr(base+1))            // v_mov_b32 hi, s[base+1]
	a.vop2(25, lo, sgpr(base), 2)             // v_add_u32 lo, vcc, s[base], v2
	a.vop2(28, lo+1, konst(0), lo+1)          // v_addc_u32 hi, vcc, 0, hi, vcc
}

func log2(n int) int {
	k := 0
	for 1<<uint(k+1) <= n {
		k++
	}
	return k
}

// Register plan of every micro-kernel:
//   s[0:1] kernarg  s2 group id  s3 first global id of the group
//   s[4:5] in  s[6:7] in2  s[8:9] out  s[10:11] out2  s[22:23] scr  s12..s15 temporaries
//   s16 loop counter  s17 group size  s18 mask  s[20:21] saved EXEC  s[24:25] PC  s26 distance
//   v0 tid  v1 gid  v2 gid*4  v[3:4] &in[gid]  v5 accumulator  v[6:7] &out[gid]  v8..v11 temporaries
//   v12 LDS address  v[13:14] &in2[gid]  v[15:16] &out2[gid]  v[18:19] x2 data
//   v[20:21] &scr[gid*scrSlots]  v[22:23] address of one scr slot  v24 gid*4*scrSlots
const scrSlots = 8

func prologue(a *asm, k *MicroKernel) {
	a.smemLoad(3, 4, 0, 0)  // s_load_dwordx8 s[4:11], s[0:1], 0
	a.smemLoad(1, 22, 0, 32) // s_load_dwordx2 s[22:23], s[0:1], 32
	a.waitcnt(wLGK0)
	a.sopk(0, 17, k.WGSize) // s_movk_i32 s17, wgsize
	a.sop2(36, 3, sgpr(2), sgpr(17))
	a.vop2(25, 1, sgpr(3), 0)  // v1 = gid
	a.vop2(18, 2, konst(2), 1) // v2 = gid*4
	addr64(a, 3, 4)
	addr64(a, 6, 8)
	addr64(a, 13, 6)
	addr64(a, 15, 10)
	a.vop2(18, 24, konst(5), 1) // v24 = gid*32 = gid*4*scrSlots
	a.vop1(1, 21, sgpr(23))
	a.vop2(25, 20, sgpr(22), 24)
	a.vop2(28, 21, konst(0), 21)
	a.flat(20, 3, 0, 5) // flat_load_dword v5, v[3:4]
	for i, s := range sTemps {
		a.sop1(0, s, konst(3*i+1)) // s_mov_b32
	}
	a.vop1(1, 8, vsrc(0))
	a.vop1(1, 9, vsrc(1))
	a.vop1(1, 10, konst(7))
	a.vop1(1, 11, sgpr(2))
}

// scrAddr sets v[22:23] to the address of slot j of the work-item's scratch row.
func scrAddr(a *asm, j int) {
	a.vop2(25, 22, konst(4*j), 20)  // v_add_u32 v22, vcc, 4j, v20
	a.vop2(28, 23, konst(0), 21)    // v_addc_u32 v23, vcc, 0, v21, vcc
}

func epilogue(rng *vh.Rng, a *asm) {
	a.vop2(21, 5, vsrc(8), 5)                 // v5 ^= v8
	a.vop2(25, 5, vsrc(10), 5)                // v5 += v10
	a.vop2(21, 9, vsrc(11), 9)                // v9 ^= v11
	a.vop2(25, 9, sgpr(pick(rng, sTemps)), 9) // v9 += s
	a.flat(28, 6, 5, 0)                       // flat_store_dword v[6:7], v5
	a.flat(28, 15, 9, 0)                      // flat_store_dword v[15:16], v9
	if rng.Bool() {
		a.waitcnt(wAll)
	}
	a.sopp(1, 0) // s_endpgm
}

// ---- family "chain": every pairing of memory operations around waits --------

type memKind int

const (
	mVLoad memKind = iota
	mVStore
	mSLoad
	mLDS
)

var memKindName = []string{"vload", "vstore", "sload", "lds"}

// chainState hands out temporaries and remembers which results are still in flight.
type chainState struct {
	a        *asm
	rng      *vh.Rng
	vFree    []int
	sFree    []int
	pendVM   []int // VGPRs written by vector loads not yet waited for
	pendLGKM []int // code: vgpr n (LDS read) or 1000+n for SGPR n (scalar load)
	ready    []int
	slot     int   // next scratch slot
	acked    []int // scratch slots whose store has been waited for
	unacked  []int
	ldsSlot  int
}

func (c *chainState) takeV() (int, bool) {
	if len(c.vFree) == 0 {
		return 0, false
	}
	r := c.vFree[0]
	c.vFree = c.vFree[1:]
	return r, true
}

func (c *chainState) takeS() (int, bool) {
	if len(c.sFree) == 0 {
		return 0, false
	}
	r := c.sFree[0]
	c.sFree = c.sFree[1:]
	return r, true
}

func (c *chainState) issue(k memKind) {
	a, rng := c.a, c.rng
	switch k {
	case mVLoad:
		r, ok := c.takeV()
		if !ok {
			return
		}
		switch {
		case len(c.acked) > 0 && rng.Bool():
			// read back what this work-item stored earlier in the kernel (the store was waited for)
			scrAddr(a, c.acked[rng.Intn(len(c.acked))])
			a.flat(20, 22, 0, r)
		case rng.Bool():
			a.flat(20, 13, 0, r) // in2[gid]
		default:
			a.flat(20, 3, 0, r) // in[gid]
		}
		c.pendVM = append(c.pendVM, r)
	case mVStore:
		if c.slot >= scrSlots {
			return
		}
		scrAddr(a, c.slot)
		a.flat(28, 22, 5, 0) // flat_store_dword v[22:23], v5
		c.unacked = append(c.unacked, c.slot)
		c.slot++
		if rng.Bool() {
			a.vop2(25, 5, konst(1+rng.Intn(60)), 5) // the stored register changes right after the store
		}
	case mSLoad:
		r, ok := c.takeS()
		if !ok {
			return
		}
		a.smemLoad(0, r, 6, 4*rng.Intn(16)) // s_load_dword s, s[6:7], imm
		c.pendLGKM = append(c.pendLGKM, 1000+r)
	case mLDS:
		r, ok := c.takeV()
		if !ok {
			return
		}
		// own slot: write the accumulator, read it back
		a.ds(13, 12, 5, 0, 0)
		a.vop2(25, 5, konst(3), 5)
		a.ds(54, 12, 0, r, 0)
		c.pendLGKM = append(c.pendLGKM, r)
	}
}

func (c *chainState) wait(x int) {
	c.a.waitcnt(x)
	if x == wVM0 || x == wAll {
		c.ready = append(c.ready, c.pendVM...)
		c.pendVM = nil
		c.acked = append(c.acked, c.unacked...)
		c.unacked = nil
	}
	if x == wLGK0 || x == wAll {
		c.ready = append(c.ready, c.pendLGKM...)
		c.pendLGKM = nil
	}
}

// use folds every result that has been waited for into the accumulators.
func (c *chainState) use() {
	for _, r := range c.ready {
		if r >= 1000 {
			c.a.vop2(25, 9, sgpr(r-1000), 9) // v9 += s
			c.a.vop2(21, 5, sgpr(r-1000), 5) // v5 ^= s
			c.sFree = append(c.sFree, r-1000)
		} else {
			c.a.vop2(21, 5, vsrc(r), 5) // v5 ^= v
			c.a.vop2(25, 9, vsrc(r), 9) // v9 += v
			c.vFree = append(c.vFree, r)
		}
	}
	c.ready = nil
}

func counterOf(k memKind) int {
	if k == mSLoad || k == mLDS {
		return wLGK0
	}
	return wVM0
}

func genChain(rng *vh.Rng, a *asm, k *MicroKernel) {
	k.LDS = 4 * k.WGSize
	a.waitcnt(wAll)
	a.vop2(18, 12, konst(2), 0) // v12 = tid*4 (own LDS slot)
	c := &chainState{a: a, rng: rng, vFree: []int{8, 10, 11, 18, 19}, sFree: []int{12, 13, 14, 15}}
	// scripted pairings: X, wait until X is complete, Y, wait for Y's counter only, use
	for i := 0; i < 3+rng.Intn(4); i++ {
		x, y := memKind(rng.Intn(4)), memKind(rng.Intn(4))
		k.Features = append(k.Features, "pair:"+memKindName[x]+">"+memKindName[y])
		c.issue(x)
		switch rng.Intn(3) {
		case 0:
			c.wait(counterOf(x))
		case 1:
			c.wait(wAll)
		default:
			// no wait: the two are in flight together
		}
		c.issue(y)
		c.wait(counterOf(y))
		c.use()
	}
	// free-form tail
	for i := 0; i < rng.Intn(8); i++ {
		switch rng.Intn(7) {
		case 0, 1, 2, 3:
			c.issue(memKind(rng.Intn(4)))
		case 4:
			c.wait([]int{wVM0, wLGK0, wAll}[rng.Intn(3)])
		case 5:
			c.use()
		default:
			a.vop2(pick(rng, []int{21, 25, 26, 19, 20}), 5, konst(rng.Intn(64)), 5)
		}
	}
	c.wait(wAll)
	c.use()
}

// ---- family "lds": several rounds of LDS traffic in groups of several wavefronts

func genLDSRounds(rng *vh.Rng, a *asm, k *MicroKernel) {
	k.LDS = 4 * k.WGSize
	mask := 1<<uint(log2(k.WGSize)) - 1
	a.waitcnt(wAll)
	a.sopk(0, 18, mask)
	a.vop2(18, 12, konst(2), 0) // v12 = tid*4
	rounds := 2 + rng.Intn(6)
	for r := 0; r < rounds; r++ {
		a.ds(13, 12, 5, 0, 0)  // lds[tid] = v5
		a.ds(54, 12, 0, 8, 0)  // v8 = lds[tid]
		a.waitcnt(wLGK0)
		a.vop2(25, 5, vsrc(8), 5)                  // v5 += v8
		a.vop2(25, 5, konst(1+rng.Intn(30)), 5)    // v5 += c
		if rng.Intn(3) == 0 {
			// exchange with a neighbour of the same group
			a.sopp(10, 0) // s_barrier (everybody has written)
			a.vop2(25, 10, konst(1+rng.Intn(63)), 0)
			a.vop2(19, 10, sgpr(18), 10)
			a.vop2(18, 10, konst(2), 10)
			a.ds(54, 10, 0, 11, 0) // v11 = lds[(tid+c)&mask]
			a.waitcnt(wLGK0)
			a.vop2(21, 9, vsrc(11), 9)
			a.sopp(10, 0) // s_barrier (everybody has read before the next round overwrites)
		}
	}
	a.vop1(1, 10, konst(5))
	a.vop1(1, 11, konst(9))
}

// ---- family "getpc": the program counter as data, and a pc-relative scalar load

func genGetPC(rng *vh.Rng, a *asm, k *MicroKernel) (patchWord, pcAfter int) {
	a.waitcnt(wAll)
	a.sop1(28, 24, 0) // s_getpc_b64 s[24:25]
	pcAfter = a.pc()
	a.vop2(25, 9, sgpr(24), 9) // v9 += low half of the PC
	patchWord = len(a.w)
	a.sopk(0, 26, 0)                  // s_movk_i32 s26, <distance to the table>  (patched)
	a.sop2(0, 24, sgpr(24), sgpr(26)) // s_add_u32 s24, s24, s26
	a.sop2(4, 25, sgpr(25), konst(0)) // s_addc_u32 s25, s25, 0
	a.smemLoad(0, 13, 24, 4*rng.Intn(8))
	a.waitcnt(wLGK0)
	a.vop2(21, 5, sgpr(13), 5)
	return patchWord, pcAfter
}

func genGeneral(rng *vh.Rng, a *asm, k *MicroKernel) {
	feat := map[string]bool{
		"loop": rng.Intn(2) == 0, "lds": rng.Intn(3) == 0, "in2": rng.Intn(2) == 0,
		"sload": rng.Intn(3) == 0, "cndmask": rng.Intn(3) == 0, "late-wait": rng.Intn(2) == 0,
		"x2": rng.Intn(4) == 0, "diverge": rng.Intn(3) == 0, "wg-dependent-trip": rng.Intn(2) == 0,
	}
	for f, on := range feat {
		if on {
			k.Features = append(k.Features, f)
		}
	}
	if feat["in2"] {
		a.flat(20, 13, 0, 9) // flat_load_dword v9, v[13:14]
	}
	if feat["sload"] {
		a.smemLoad(0, 13, 6, 4*rng.Intn(16)) // s_load_dword s13, s[6:7], imm
	}
	if feat["late-wait"] {
		// independent work between the loads and the wait
		for i := 0; i < 2+rng.Intn(4); i++ {
			a.vop2(pick(rng, vop2Ops), pick(rng, []int{10, 11}), konst(rng.Intn(40)), pick(rng, []int{0, 1, 10, 11}))
		}
	}
	a.waitcnt(wAll)
	if feat["x2"] {
		// reload the own element as the low half of a dwordx2 (covers the x2 write-back)
		a.flat(21, 3, 0, 18) // flat_load_dwordx2 v[18:19], v[3:4]  (in has one spare dword at the end)
		a.waitcnt(wVM0)
		a.vop2(21, 5, vsrc(18), 5)
		a.vop2(20, 8, vsrc(19), 8)
	}
	genOps(rng, a, 2+rng.Intn(8))
	if feat["loop"] {
		a.sop1(0, 16, konst(1+rng.Intn(6))) // s_mov_b32 s16, n
		if feat["wg-dependent-trip"] {
			a.sop2(12, 16, sgpr(2), konst(3)) // s_and_b32 s16, s2, 3
			a.sop2(0, 16, sgpr(16), konst(1)) // s_add_u32 s16, s16, 1
		}
		top := a.pc()
		genOps(rng, a, 1+rng.Intn(6))
		if rng.Intn(3) == 0 {
			// a store in the loop body followed (next iteration) by a scalar load
			scrAddr(a, 0)
			a.flat(28, 22, 5, 0)
			a.smemLoad(0, 14, 6, 4*rng.Intn(16))
			a.waitcnt(wLGK0)
			a.vop2(25, 5, sgpr(14), 5)
		}
		a.sop2(1, 16, sgpr(16), konst(1)) // s_sub_u32 s16, s16, 1
		a.sopc(7, sgpr(16), konst(0))     // s_cmp_lg_u32 s16, 0
		a.sopp(5, (top-(a.pc()+4))/4)     // s_cbranch_scc1 top
	}
	if feat["cndmask"] {
		a.vopc(0xC9+rng.Intn(6), konst(rng.Intn(64)), pick(rng, []int{0, 1, 8})) // v_cmp_*_u32 vcc, k, v
		a.vop2(0, 5, vsrc(5), pick(rng, []int{8, 9, 10}))                          // v_cndmask_b32 v5, v5, v, vcc
	}
	if feat["diverge"] {
		a.vopc(0xC9+rng.Intn(6), konst(rng.Intn(64)), pick(rng, []int{0, 1})) // v_cmp_*_u32 vcc, k, v
		a.sop1(32, 20, srcVCCLO)                                            // s_and_saveexec_b64 s[20:21], vcc
		for i := 0; i < 1+rng.Intn(4); i++ {
			a.vop2(pick(rng, vop2Ops), pick(rng, vTemps), anyVSrc(rng), pick(rng, append([]int{0, 1}, vTemps...)))
		}
		if rng.Bool() {
			a.flat(28, 15, 8, 0) // flat_store_dword v[15:16], v8 under the partial mask (overwritten for all lanes below)
			a.waitcnt(wVM0)
		}
		a.sop1(1, 126, sgpr(20)) // s_mov_b64 exec, s[20:21]
	}
	if feat["lds"] {
		mask := 1<<uint(log2(k.WGSize)) - 1
		k.LDS = 4 * k.WGSize
		a.vop2(18, 12, konst(2), 0) // v12 = tid*4
		a.ds(13, 12, 5, 0, 0)       // ds_write_b32 v12, v5
		a.waitcnt(wLGK0)
		a.sopp(10, 0) // s_barrier
		a.sopk(0, 18, mask)
		a.vop2(25, 12, konst(1+rng.Intn(63)), 0) // v12 = tid + k
		a.vop2(19, 12, sgpr(18), 12)             // v12 &= mask
		a.vop2(18, 12, konst(2), 12)
		a.ds(54, 12, 0, 8, 0) // ds_read_b32 v8, v12
		a.waitcnt(wLGK0)
		a.vop2(21, 5, vsrc(8), 5) // v5 ^= v8
	}
	genOps(rng, a, rng.Intn(4))
}

// ---- family "uneven": wavefronts of one work-group finish at very different
// times; the late ones read their dispatch-initialised SGPRs (kernarg pointer,
// work-group id) only after the early ones have ended.  Uses s0..s9 only, so
// that any SGPR count from 10 up is legal.

func genUneven(rng *vh.Rng, a *asm, k *MicroKernel) {
	k.WGSize = []int{128, 192, 256}[rng.Intn(3)]
	k.NumWG = 2 + rng.Intn(7)
	k.SGPRs = []int{16, 16, 32, 48, 10, 11, 12, 13, 14, 15}[rng.Intn(10)]
	k.VGPRs = []int{12, 9, 10, 11, 13, 16}[rng.Intn(6)]
	spin := 40 + rng.Intn(260)
	evenEarly := rng.Bool()
	k.Features = append(k.Features, fmt.Sprintf("sgprs:%d", k.SGPRs))
	tail := func() {
		a.smemLoad(1, 4, 0, 16) // s_load_dwordx2 s[4:5], s[0:1], 16  (out pointer, through the kernarg pointer)
		a.smemLoad(0, 8, 0, 8)  // s_load_dword s8, s[0:1], 8          (low half of the in2 pointer, as data)
		a.waitcnt(wLGK0)
		a.sopk(0, 7, k.WGSize)
		a.sop2(36, 3, sgpr(2), sgpr(7)) // s3 = group id * group size
		a.vop2(25, 1, sgpr(3), 0)
		a.vop2(18, 2, konst(2), 1)
		addr64(a, 6, 4)
		a.vop1(1, 5, sgpr(0))        // kernarg pointer low
		a.vop2(25, 5, sgpr(2), 5)    // + group id
		a.vop2(21, 5, sgpr(8), 5)    // ^ argument word
		a.vop2(25, 5, vsrc(1), 5)    // + gid
		a.flat(28, 6, 5, 0)
		a.sopp(1, 0)
	}
	a.vop2(19, 8, konst(64), 0)      // v8 = tid & 64 : 0 for even wavefronts of the group
	a.vopc(0xCA, konst(0), 8)         // v_cmp_eq_u32 vcc, 0, v8
	br := len(a.w)
	if evenEarly {
		a.sopp(7, 0) // s_cbranch_vccnz EARLY (patched)
	} else {
		a.sopp(6, 0) // s_cbranch_vccz EARLY
	}
	// late path: spin, then use s0..s2
	a.sopk(0, 6, spin)
	top := a.pc()
	a.sop2(1, 6, sgpr(6), konst(1))
	a.sopc(7, sgpr(6), konst(0))
	a.sopp(5, (top-(a.pc()+4))/4)
	tail()
	early := a.pc()
	a.w[br] |= uint32(uint16((early - (4*br + 4)) / 4))
	tail()
}

// ---- family "halfreg": 32-bit halves of VCC and EXEC as scalar destinations
// and sources, then consumers of the full 64-bit pair.

const (
	srcVCCHI  = 107
	srcEXECLO = 126
	srcEXECHI = 127
)

func genHalfReg(rng *vh.Rng, a *asm, k *MicroKernel) {
	a.waitcnt(wAll)
	a.sopk(0, 12, int(int16(rng.U64())))      // s12 = random 16-bit (sign-extended)
	a.sopk(0, 13, int(int16(rng.U64())))      // s13
	a.sop2(28, 14, sgpr(13), konst(16))       // s14 = s13 << 16
	a.sop2(16, 14, sgpr(14), sgpr(12))        // s14 ^= s12
	for i := 0; i < 2+rng.Intn(4); i++ {
		switch rng.Intn(5) {
		case 0, 1: // VCC half written, pair consumed by v_cndmask and a vccz branch around a store
			a.vopc(0xC9+rng.Intn(6), konst(20+rng.Intn(44)), 0) // v_cmp_*_u32 vcc, k, v0
			half := []int{srcVCCLO, srcVCCHI}[rng.Intn(2)]
			switch rng.Intn(3) {
			case 0:
				a.sop1(0, half, konst(0)) // s_mov_b32 vcc_half, 0
			case 1:
				a.sop2(12, half, half, sgpr(14)) // s_and_b32 vcc_half, vcc_half, s14
			default:
				a.sop1(0, half, sgpr(14))
			}
			k.Features = append(k.Features, "vcc-half")
			a.vop2(0, 5, vsrc(5), 8) // v_cndmask_b32 v5, v5, v8, vcc
			skip := len(a.w)
			a.sopp(6, 0) // s_cbranch_vccz SKIP
			a.vop2(25, 9, konst(17), 9)
			a.w[skip] |= uint32(uint16((a.pc() - (4*skip + 4)) / 4))
			a.sop2(0, 15, srcVCCLO, srcVCCHI) // s_add_u32 s15, vcc_lo, vcc_hi  (halves as sources)
			a.vop2(25, 9, sgpr(15), 9)
		case 2, 3: // EXEC half written, vector work and a store under the resulting mask
			a.sop1(1, 20, srcEXECLO) // s_mov_b64 s[20:21], exec
			half := []int{srcEXECLO, srcEXECHI}[rng.Intn(2)]
			if rng.Bool() {
				a.sop2(12, half, half, sgpr(14)) // s_and_b32 exec_half, exec_half, s14
			} else {
				a.sop1(0, half, konst(rng.Intn(64))) // s_mov_b32 exec_half, small mask
				// never switch on lanes that do not exist (partial wavefronts)
				a.sop2(12, half, half, sgpr(20+half-srcEXECLO)) // s_and_b32 exec_half, exec_half, saved half
			}
			k.Features = append(k.Features, "exec-half")
			skip := len(a.w)
			a.sopp(8, 0) // s_cbranch_execz SKIP
			a.vop2(25, 5, konst(1+rng.Intn(40)), 5)
			a.vop2(21, 9, vsrc(0), 9)
			scrAddr(a, i%scrSlots)
			a.flat(28, 22, 5, 0)
			a.w[skip] |= uint32(uint16((a.pc() - (4*skip + 4)) / 4))
			a.sop1(1, srcEXECLO, sgpr(20)) // s_mov_b64 exec, s[20:21]
		default: // halves as plain sources of scalar arithmetic
			a.vopc(0xC9+rng.Intn(6), konst(rng.Intn(64)), 1)
			a.sop2(16, 15, srcVCCHI, srcEXECLO) // s_xor_b32 s15, vcc_hi, exec_lo
			a.sop2(0, 15, sgpr(15), srcEXECHI)
			a.vop2(21, 5, sgpr(15), 5)
		}
	}
	a.waitcnt(wAll)
}

// genMicro builds kernel idx.  profile "lds" makes every kernel an LDS kernel
// with many work-groups (for platforms with very few compute units).
func genMicro(rng *vh.Rng, idx int, profile string) MicroKernel {
	k := MicroKernel{Index: idx, Features: []string{}, SGPRs: 32, VGPRs: 28}
	k.WGSize = []int{64, 64, 128, 256, 96, 192}[rng.Intn(6)]
	k.NumWG = []int{1, 2, 3, 5, 8}[rng.Intn(5)]
	family := []string{"general", "general", "chain", "chain", "lds", "getpc", "uneven", "halfreg"}[rng.Intn(8)]
	// register counts at and around the allocation granules (16 SGPRs, 4 VGPRs)
	k.SGPRs = []int{32, 32, 48, 27, 28, 29, 30, 31, 33, 40}[rng.Intn(10)]
	k.VGPRs = []int{28, 28, 29, 30, 31, 32, 33, 36, 64}[rng.Intn(9)]
	if profile == "lds" {
		family = "lds"
		if rng.Intn(4) == 0 {
			family = "chain"
		}
		k.NumWG = 4 + rng.Intn(21)
	}
	k.Features = append(k.Features, "family:"+family)
	a := &asm{}
	if family == "uneven" {
		genUneven(rng, a, &k)
		k.CodeWords = len(a.w)
		k.Words = a.w
		sort.Strings(k.Features)
		return k
	}
	prologue(a, &k)
	patch, pcAfter := -1, 0
	switch family {
	case "halfreg":
		genHalfReg(rng, a, &k)
	case "general":
		genGeneral(rng, a, &k)
	case "chain":
		genChain(rng, a, &k)
	case "lds":
		genLDSRounds(rng, a, &k)
	case "getpc":
		patch, pcAfter = genGetPC(rng, a, &k)
	}
	epilogue(rng, a)
	k.CodeWords = len(a.w)
	if patch >= 0 {
		// constant table behind the program, reached relative to the PC
		a.w[patch] |= uint32(uint16(a.pc() - pcAfter))
		for i := 0; i < 8; i++ {
			a.emit(uint32(0x1000193*(idx+1)) + 0x9E3779B1*uint32(i+1))
		}
	}
	k.Words = a.w
	sort.Strings(k.Features)
	return k
}

func (k *MicroKernel) bytes() []byte {
	b := make([]byte, 4*len(k.Words))
	for i, w := range k.Words {
		put32(b[4*i:], w)
	}
	return b
}

func (k *MicroKernel) codeObject() *insts.KernelCodeObject {
	data := k.bytes()
	// every word must decode
	d := insts.NewDisassembler()
	for off := 0; off < 4*k.CodeWords; {
		buf := data[off:]
		if len(buf) < 8 {
			buf = append(append([]byte{}, buf...), 0, 0, 0, 0)
		}
		inst, err := d.Decode(buf)
		if err != nil {
			panic(fmt.Sprintf("micro kernel %d: word at %d does not decode: %v", k.Index, off, err))
		}
		off += inst.ByteSize
	}
	meta := &insts.KernelCodeObjectMeta{
		ComputePgmRsrc2:             1 << 7,
		KernargSegmentByteSize:      40,
		GroupSegmentByteSize:        uint32(k.LDS),
		EnableSgprKernargSegmentPtr: true,
		WFSgprCount:                 uint16(k.SGPRs),
		WIVgprCount:                 uint16(k.VGPRs),
	}
	return &insts.KernelCodeObject{KernelCodeObjectMeta: meta, Data: data, Version: insts.CodeObjectV3,
		Symbol: &elf.Symbol{Name: fmt.Sprintf("micro%d", k.Index), Size: uint64(len(data))}}
}

// MicroArgs is the kernel-argument segment of every micro-kernel.
type MicroArgs struct {
	In, In2, Out, Out2, Scr driver.Ptr
}

// MicroResult is what one platform did with one kernel.
type MicroResult struct {
	MicroKernel
	Out    []uint32          `json:"out"`
	Out2   []uint32          `json:"out2"`
	Scr    []uint32          `json:"scr"`
	Traces map[string]string `json:"traces"` // wavefront -> "count:sha256 of the executed instruction texts"
}

type wfTrace struct {
	mu    sync.Mutex
	texts map[string][]string
	cos   map[*insts.KernelCodeObject]int
	pr    *insts.InstPrinter
}

func (t *wfTrace) add(kwf *kernels.Wavefront, inst *insts.Inst) {
	t.mu.Lock()
	defer t.mu.Unlock()
	idx, ok := t.cos[kwf.CodeObject]
	if !ok {
		return
	}
	key := fmt.Sprintf("k%d/wg%d/wi%d", idx, kwf.WG.IDX, kwf.FirstWiFlatID)
	t.texts[key] = append(t.texts[key], t.pr.Print(inst))
}

// emu: instruction hook of emu.ComputeUnit
func (t *wfTrace) Func(ctx sim.HookCtx) {
	wf, ok := ctx.Item.(*emu.Wavefront)
	if !ok {
		return
	}
	inst, ok := ctx.Detail.(*insts.Inst)
	if !ok {
		return
	}
	t.add(wf.Wavefront, inst)
}

// timing: tracing tasks of kind "inst"
func (t *wfTrace) StartTask(task tracing.Task) {
	if task.Kind != "inst" {
		return
	}
	m, ok := task.Detail.(map[string]interface{})
	if !ok {
		return
	}
	inst, ok1 := m["inst"].(*wavefront.Inst)
	wf, ok2 := m["wf"].(*wavefront.Wavefront)
	if ok1 && ok2 {
		t.add(wf.Wavefront, inst.Inst)
	}
}
func (t *wfTrace) StepTask(task tracing.Task)         {}
func (t *wfTrace) AddMilestone(m tracing.Milestone) {}
func (t *wfTrace) EndTask(task tracing.Task)          {}

// buildPlatform builds "emu", "r9nano", "mi300a" or a timing platform with a
// chosen shape "r9nano:<shader arrays>x<CUs per array>" (verif-tag hook of timingconfig).
func buildPlatform(spec string) *simulation.Simulation {
	s := simulation.MakeBuilder().WithoutMonitoring().Build()
	if spec == "emu" {
		emusystem.MakeBuilder().WithSimulation(s).WithNumGPUs(1).WithArchitecture(arch.GCN3).Build()
		return s
	}
	sampling.InitSampledEngine()
	name, shape, shaped := strings.Cut(spec, ":")
	b := timingconfig.MakeBuilder().WithSimulation(s).WithNumGPUs(1).WithGPUType(name)
	if !shaped {
		b.Build()
		return s
	}
	var sa, cus int
	if _, err := fmt.Sscanf(shape, "%dx%d", &sa, &cus); err != nil {
		panic("bad platform shape " + spec)
	}
	b.VerifBuildShapeOf(sa, cus)
	return s
}

func microMain() {
	seed := flag.Uint64("seed", 1, "seed")
	n := flag.Int("n", 20, "number of kernels")
	only := flag.Int("only", -1, "run only the kernel with this index")
	platform := flag.String("platform", "emu", "emu | r9nano | mi300a")
	out := flag.String("out", "", "result JSON")
	dump := flag.Bool("print", false, "print the disassembly of the kernels and exit")
	profile := flag.String("profile", "", "\"lds\": LDS kernels with many work-groups")
	flag.Parse()

	rng := vh.NewRng(*seed)
	var ks []MicroKernel
	for i := 0; i < *n; i++ {
		k := genMicro(rng.Fork(), i, *profile)
		if *only < 0 || *only == i {
			ks = append(ks, k)
		}
	}
	if *dump {
		d := insts.NewDisassembler()
		pr := insts.NewInstPrinter(nil)
		for _, k := range ks {
			fmt.Printf("kernel %d wg=%d x %d lds=%d %v\n", k.Index, k.WGSize, k.NumWG, k.LDS, k.Features)
			data := append(k.bytes(), 0, 0, 0, 0)
			for off := 0; off < 4*k.CodeWords; {
				inst, err := d.Decode(data[off:])
				if err != nil {
					panic(err)
				}
				fmt.Printf("  %04x  %s\n", off, pr.Print(inst))
				off += inst.ByteSize
			}
		}
		return
	}

	s := buildPlatform(*platform)
	tr := &wfTrace{texts: map[string][]string{}, cos: map[*insts.KernelCodeObject]int{}, pr: insts.NewInstPrinter(nil)}
	for _, c := range s.Components() {
		switch c := c.(type) {
		case *emu.ComputeUnit:
			c.AcceptHook(tr)
		case *cu.ComputeUnit:
			tracing.CollectTrace(c, tr)
		}
	}
	d := s.GetComponentByName("Driver").(*driver.Driver)
	d.Run()
	ctx := d.Init()
	d.SelectGPU(ctx, 1)

	var res []MicroResult
	for _, k := range ks {
		k := k
		co := k.codeObject()
		tr.mu.Lock()
		tr.cos[co] = k.Index
		tr.mu.Unlock()
		total := k.WGSize * k.NumWG
		in := make([]uint32, total+1)
		in2 := make([]uint32, total+16)
		x := uint32(k.Index*7919 + 17)
		for i := range in {
			x = x*1664525 + 1013904223
			in[i] = x
		}
		for i := range in2 {
			x = x*1664525 + 1013904223
			in2[i] = x >> 3
		}
		dIn := d.AllocateMemory(ctx, uint64(4*len(in)))
		dIn2 := d.AllocateMemory(ctx, uint64(4*len(in2)))
		dOut := d.AllocateMemory(ctx, uint64(4*total))
		dOut2 := d.AllocateMemory(ctx, uint64(4*total))
		dScr := d.AllocateMemory(ctx, uint64(4*total*scrSlots))
		d.MemCopyH2D(ctx, dIn, in)
		d.MemCopyH2D(ctx, dIn2, in2)
		d.MemCopyH2D(ctx, dOut, make([]uint32, total))
		d.MemCopyH2D(ctx, dOut2, make([]uint32, total))
		d.MemCopyH2D(ctx, dScr, make([]uint32, total*scrSlots))
		args := MicroArgs{dIn, dIn2, dOut, dOut2, dScr}
		d.LaunchKernel(ctx, co, [3]uint32{uint32(total), 1, 1}, [3]uint16{uint16(k.WGSize), 1, 1}, &args)
		r := MicroResult{MicroKernel: k, Out: make([]uint32, total), Out2: make([]uint32, total),
			Scr: make([]uint32, total*scrSlots), Traces: map[string]string{}}
		d.MemCopyD2H(ctx, r.Out, dOut)
		d.MemCopyD2H(ctx, r.Out2, dOut2)
		d.MemCopyD2H(ctx, r.Scr, dScr)
		res = append(res, r)
	}
	tr.mu.Lock()
	for key, texts := range tr.texts {
		h := sha256.Sum256([]byte(strings.Join(texts, "\n")))
		var idx int
		fmt.Sscanf(key, "k%d/", &idx)
		for i := range res {
			if res[i].Index == idx {
				res[i].Traces[key] = fmt.Sprintf("%d:%s", len(texts), hex.EncodeToString(h[:8]))
			}
		}
	}
	tr.mu.Unlock()
	writeOut(*out, res)
	d.Terminate()
	os.Exit(0)
}
