package main

// microMain: generated micro-kernels on whole platforms were not built (see docs/C02.md).
func microMain() { panic("c02 micro: not implemented") }
