package main

import (
	"flag"
	"os"

	"github.com/sarchlab/mgpusim/v4/amd/benchmarks/amdappsdk/bitonicsort"
	"github.com/sarchlab/mgpusim/v4/amd/insts"
	"github.com/sarchlab/mgpusim/v4/amd/samples/runner"
)

// LaunchResult is the content of the array after the first UpTo launches.
type LaunchResult struct {
	UpTo     int      `json:"upto"`
	Launches int      `json:"launches"`
	Data     []uint32 `json:"data"`
}

// launchesMain runs the first -upto kernel launches of the stock bitonic-sort
// kernel (in place, one buffer, one launch per pass) on a deterministic input
// and copies the array back ONCE at the end, so that no flush happens between
// launches.  Running it for upto = 0,1,2,... on both platforms localises the
// first launch whose result differs between emulation and timing.
func launchesMain() {
	length := flag.Int("length", 256, "array length (power of two)")
	upto := flag.Int("upto", -1, "number of launches to run (-1 = all)")
	hsaco := flag.String("hsaco", "", "path of bitonicsort/kernels.hsaco")
	skip := flag.Int("skip", 0, "omit the first n passes of the schedule")
	dummy := flag.Int("dummy-allocs", 0, "allocate n extra pages before the first launch")
	out := flag.String("out", "", "result JSON")
	flag.Parse()

	r := new(runner.Runner).Init()
	d := r.Driver()
	data, err := os.ReadFile(*hsaco)
	if err != nil {
		panic(err)
	}
	co := insts.LoadKernelCodeObjectFromBytes(data, "BitonicSort")
	ctx := d.Init()
	d.Run()
	d.SelectGPU(ctx, r.GPUIDs[0])

	in := make([]uint32, *length)
	x := uint32(12345)
	for i := range in {
		x = x*1664525 + 1013904223
		in[i] = x >> 8
	}
	buf := d.AllocateMemory(ctx, uint64(*length*4))
	d.MemCopyH2D(ctx, buf, in)
	q := d.CreateCommandQueue(ctx)

	stages := 0
	for t := *length; t > 1; t >>= 1 {
		stages++
	}
	for i := 0; i < *dummy; i++ {
		d.AllocateMemory(ctx, 64)
	}
	n := 0
	idx := 0
	for stage := 0; stage < stages; stage++ {
		for pass := 0; pass <= stage; pass++ {
			idx++
			if idx <= *skip {
				continue
			}
			if *upto >= 0 && n >= *upto {
				break
			}
			args := bitonicsort.BitonicKernelArgs{Input: buf, Stage: uint32(stage), PassOfStage: uint32(pass), Direction: 1}
			d.EnqueueLaunchKernel(q, co, [3]uint32{uint32(*length / 2), 1, 1}, [3]uint16{64, 1, 1}, &args)
			d.DrainCommandQueue(q)
			n++
		}
	}
	res := LaunchResult{UpTo: *upto, Launches: n, Data: make([]uint32, *length)}
	d.MemCopyD2H(ctx, res.Data, buf)
	writeOut(*out, res)
	d.Terminate()
	os.Exit(0)
}
