// Command c01 ties the two Coq models of property C01 to the real code.
//
//	kernarg cases: a stand-alone driver.Driver (real EnqueueLaunchKernel,
//	  prepareLocalMemory, createAQLPacket, the memory-copy middleware with its
//	  binary.Write) marshals generated argument structs; the harness reads the
//	  kernarg buffer and the packet back from device memory and takes the
//	  LaunchKernelReq off the driver's GPU port.
//	emuloop cases: the real emu.ComputeUnit (runWG, runWfUntilBarrier,
//	  resolveBarrier) is given a scripted Decoder / ALU / StorageAccessor and
//	  runs generated work-groups; the harness records the instruction trace,
//	  LDS and global cells, and whether the unit panicked.
package main

import (
	"encoding/binary"
	"encoding/json"
	"flag"
	"fmt"
	"os"
	"reflect"

	"github.com/sarchlab/akita/v4/mem/mem"
	"github.com/sarchlab/akita/v4/mem/vm"
	"github.com/sarchlab/akita/v4/sim"
	"github.com/sarchlab/mgpusim/v4/amd/driver"
	"github.com/sarchlab/mgpusim/v4/amd/emu"
	"github.com/sarchlab/mgpusim/v4/amd/insts"
	"github.com/sarchlab/mgpusim/v4/amd/kernels"
	"github.com/sarchlab/mgpusim/v4/amd/protocol"

	"verifharness/vh"
)

// ---------------------------------------------------------------- kernarg

// Field is one field of a generated argument struct.
// T: u8 i8 u16 i16 u32 i32 f32 u64 i64 ptr local a8 a32 alocal
type Field struct {
	T  string   `json:"t"`
	V  uint64   `json:"v"`            // bit pattern (scalars), requested size (local)
	Vs []uint64 `json:"vs,omitempty"` // arrays
}

type KObs struct {
	Crash     string `json:"crash,omitempty"`
	Args      []byte `json:"-"`
	ArgsL     []int  `json:"args"`
	Pkt       []byte `json:"-"`
	PktL      []int  `json:"pkt"`
	Group     uint32 `json:"group"`
	WG        [3]int `json:"wgsize"`
	Grid      [3]uint64 `json:"gridsize"`
	KObj      uint64 `json:"kobj"`
	KernArg   uint64 `json:"kernarg"`
	PktAddr   uint64 `json:"pktaddr"`
	Other     uint64 `json:"other"` // header|setup|private|completion: must be 0
	OrigSame  bool   `json:"orig_same"`
	DstGPU    int    `json:"dst_gpu"`
}

type KCase struct {
	Kind    string    `json:"kind"` // "k"
	Static  uint32    `json:"static"`
	Slack   int       `json:"slack"` // KernargSegmentByteSize - struct size
	Fields  []Field   `json:"fields"`
	Grid    [3]uint32 `json:"grid"`
	WG      [3]uint16 `json:"wg"`
	NGPU    int       `json:"ngpu"`
	GPU     int       `json:"gpu"`     // selected GPU (plain)
	Unified []int     `json:"unified"` // non-empty: unified device over these GPUs
	Twice   bool      `json:"twice"`   // launch the same code object twice (cached path)
	Obs     []KObs    `json:"obs,omitempty"`
	Coq     []string  `json:"coq,omitempty"` // one kcase term per observed launch request
}

func fieldType(f Field) reflect.Type {
	switch f.T {
	case "u8":
		return reflect.TypeOf(uint8(0))
	case "i8":
		return reflect.TypeOf(int8(0))
	case "u16":
		return reflect.TypeOf(uint16(0))
	case "i16":
		return reflect.TypeOf(int16(0))
	case "u32":
		return reflect.TypeOf(uint32(0))
	case "i32":
		return reflect.TypeOf(int32(0))
	case "f32":
		return reflect.TypeOf(float32(0))
	case "u64":
		return reflect.TypeOf(uint64(0))
	case "i64":
		return reflect.TypeOf(int64(0))
	case "ptr":
		return reflect.TypeOf(driver.Ptr(0))
	case "local":
		return reflect.TypeOf(driver.LocalPtr(0))
	case "a8":
		return reflect.ArrayOf(len(f.Vs), reflect.TypeOf(uint8(0)))
	case "a32":
		return reflect.ArrayOf(len(f.Vs), reflect.TypeOf(uint32(0)))
	case "alocal":
		return reflect.ArrayOf(len(f.Vs), reflect.TypeOf(driver.LocalPtr(0)))
	}
	panic("field type " + f.T)
}

func fieldWidth(t string) int {
	switch t {
	case "u8", "i8", "a8":
		return 1
	case "u16", "i16":
		return 2
	case "u64", "i64", "ptr":
		return 8
	}
	return 4
}

func setScalar(v reflect.Value, bits uint64) {
	switch v.Kind() {
	case reflect.Int8:
		v.SetInt(int64(int8(bits)))
	case reflect.Int16:
		v.SetInt(int64(int16(bits)))
	case reflect.Int32:
		v.SetInt(int64(int32(bits)))
	case reflect.Int64:
		v.SetInt(int64(bits))
	case reflect.Float32:
		// keep the exact bit pattern
		*(*uint32)(v.Addr().UnsafePointer()) = uint32(bits)
	default:
		v.SetUint(bits)
	}
}

// buildStruct creates a pointer to a fresh struct value with the given fields.
func buildStruct(fs []Field) interface{} {
	sf := make([]reflect.StructField, len(fs))
	for i, f := range fs {
		sf[i] = reflect.StructField{Name: fmt.Sprintf("F%d", i), Type: fieldType(f)}
	}
	p := reflect.New(reflect.StructOf(sf))
	for i, f := range fs {
		fv := p.Elem().Field(i)
		if fv.Kind() == reflect.Array {
			for j := range f.Vs {
				setScalar(fv.Index(j), f.Vs[j])
			}
		} else {
			setScalar(fv, f.V)
		}
	}
	return p.Interface()
}

func rawBytes(x interface{}) []byte {
	buf := new(bytesBuf)
	if err := binary.Write(buf, binary.LittleEndian, x); err != nil {
		panic(err)
	}
	return buf.b
}

type bytesBuf struct{ b []byte }

func (w *bytesBuf) Write(p []byte) (int, error) { w.b = append(w.b, p...); return len(p), nil }

func readDev(pt vm.PageTable, st *mem.Storage, pid vm.PID, addr uint64, n int) []byte {
	out := make([]byte, 0, n)
	for n > 0 {
		page, ok := pt.Find(pid, addr)
		if !ok {
			panic(fmt.Sprintf("page not found for 0x%x", addr))
		}
		off := addr - page.VAddr
		chunk := int(page.PageSize - off)
		if chunk > n {
			chunk = n
		}
		d, err := st.Read(page.PAddr+off, uint64(chunk))
		if err != nil {
			panic(err)
		}
		out = append(out, d...)
		addr += uint64(chunk)
		n -= chunk
	}
	return out
}

func toInts(b []byte) []int {
	r := make([]int, len(b))
	for i, x := range b {
		r[i] = int(x)
	}
	return r
}

func runK(c KCase) (out KCase) {
	out = c
	out.Obs = nil
	out.Coq = nil
	defer func() {
		if r := recover(); r != nil {
			out.Obs = append(out.Obs, KObs{Crash: fmt.Sprint(r)})
		}
	}()
	engine := sim.NewSerialEngine()
	storage := mem.NewStorage(uint64(c.NGPU+1) * 4 * mem.GB)
	pt := vm.NewPageTable(12)
	d := driver.MakeBuilder().WithMagicMemoryCopyMiddleware().
		WithEngine(engine).WithPageTable(pt).WithLog2PageSize(12).WithGlobalStorage(storage).
		Build("Driver")
	conn := &vh.StubConn{}
	gpuPort := d.GetPortByName("GPU")
	conn.PlugIn(gpuPort)
	cps := make([]sim.Port, c.NGPU)
	for i := 0; i < c.NGPU; i++ {
		cps[i] = sim.NewPort(nil, 4, 4, fmt.Sprintf("GPU[%d].CP", i+1))
		d.RegisterGPU(cps[i], driver.DeviceProperties{CUCount: 4, DRAMSize: 4 * mem.GB})
	}
	ctx := d.Init()
	if len(c.Unified) > 0 {
		id := d.CreateUnifiedGPU(nil, c.Unified)
		d.SelectGPU(ctx, id)
	} else {
		d.SelectGPU(ctx, c.GPU)
	}
	q := d.CreateCommandQueue(ctx)

	args := buildStruct(c.Fields)
	before := rawBytes(args)
	size := len(before)
	co := &insts.KernelCodeObject{
		KernelCodeObjectMeta: &insts.KernelCodeObjectMeta{
			KernargSegmentByteSize: uint64(size + c.Slack),
			GroupSegmentByteSize:   c.Static,
		},
		Data: []byte{0, 0, 0x81, 0xbf, 1, 2, 3, 4},
	}
	launches := 1
	if c.Twice {
		launches = 2
	}
	for l := 0; l < launches; l++ {
		d.EnqueueLaunchKernel(q, co, c.Grid, c.WG, args)
		same := string(rawBytes(args)) == string(before)
		var reqs []*protocol.LaunchKernelReq
		for t := 0; t < 64; t++ {
			d.Tick()
			for {
				m := gpuPort.RetrieveOutgoing()
				if m == nil {
					break
				}
				if r, ok := m.(*protocol.LaunchKernelReq); ok {
					reqs = append(reqs, r)
				}
			}
		}
		if len(reqs) == 0 {
			panic("no LaunchKernelReq left the driver")
		}
		for _, r := range reqs {
			p := r.Packet
			o := KObs{OrigSame: same}
			o.Args = readDev(pt, storage, r.PID, p.KernargAddress, size)
			o.Pkt = readDev(pt, storage, r.PID, r.PacketAddress, 64)
			o.ArgsL, o.PktL = toInts(o.Args), toInts(o.Pkt)
			o.Group = p.GroupSegmentSize
			o.WG = [3]int{int(p.WorkgroupSizeX), int(p.WorkgroupSizeY), int(p.WorkgroupSizeZ)}
			o.Grid = [3]uint64{uint64(p.GridSizeX), uint64(p.GridSizeY), uint64(p.GridSizeZ)}
			o.KObj, o.KernArg, o.PktAddr = p.KernelObject, p.KernargAddress, r.PacketAddress
			o.Other = uint64(p.Header) | uint64(p.Setup) | uint64(p.PrivateSegmentSize) | p.CompletionSignal
			for i, cp := range cps {
				if r.Dst == cp.AsRemote() {
					o.DstGPU = i + 1
				}
			}
			if r.CodeObject != co {
				panic("request carries another code object")
			}
			out.Obs = append(out.Obs, o)
			out.Coq = append(out.Coq, coqK(c, o))
		}
		// answer nothing: the queue stays busy; start over with a fresh queue
		q = d.CreateCommandQueue(ctx)
	}
	return out
}

func coqField(f Field) string {
	switch f.T {
	case "local":
		return fmt.Sprintf("FLocal %d", f.V)
	case "a8", "a32", "alocal":
		return fmt.Sprintf("FArr %d%%nat %s", fieldWidth(f.T), vh.CoqNList(f.Vs))
	case "f32":
		return fmt.Sprintf("FF32 %d", f.V&0xffffffff)
	}
	w := fieldWidth(f.T)
	v := f.V
	if w < 8 {
		v &= (uint64(1) << (8 * uint(w))) - 1
	}
	return fmt.Sprintf("FInt %d%%nat %d", w, v)
}

func coqK(c KCase, o KObs) string {
	fs := make([]string, len(c.Fields))
	for i, f := range c.Fields {
		fs[i] = coqField(f)
	}
	return fmt.Sprintf("mkKCase %d %s (%d, %d, %d) (%d, %d, %d) %d %d %s %s %d",
		c.Static, vh.CoqList(fs), c.Grid[0], c.Grid[1], c.Grid[2], c.WG[0], c.WG[1], c.WG[2],
		o.KObj, o.KernArg, vh.CoqBytes(o.Args), vh.CoqBytes(o.Pkt), o.Group)
}

func genK(r *vh.Rng) KCase {
	c := KCase{Kind: "k"}
	switch r.Pick(4, 3, 1, 1) {
	case 0:
		c.Static = 0
	case 1:
		c.Static = uint32(r.Intn(65536))
	case 2:
		c.Static = 0xffffffff - uint32(r.Intn(4096))
	default:
		c.Static = uint32(r.U64())
	}
	c.Slack = []int{0, 0, 0, 4, 56, 256}[r.Intn(6)]
	n := 1 + r.Intn(14)
	kinds := []string{"u8", "i8", "u16", "i16", "u32", "i32", "f32", "u64", "i64", "ptr", "local", "a8", "a32", "alocal"}
	for i := 0; i < n; i++ {
		k := kinds[r.Pick(1, 1, 1, 1, 5, 3, 3, 2, 2, 5, 6, 2, 1, 1)]
		f := Field{T: k}
		val := func(w int) uint64 {
			var v uint64
			switch r.Pick(2, 1, 1, 4) {
			case 0:
				v = uint64(r.Intn(300))
			case 1:
				v = 0
			case 2:
				v = ^uint64(0)
			default:
				v = r.U64()
			}
			if w < 8 {
				v &= (uint64(1) << (8 * uint(w))) - 1
			}
			return v
		}
		switch k {
		case "local":
			switch r.Pick(6, 2, 1, 1) {
			case 0:
				f.V = uint64(4 * r.Intn(4096))
			case 1:
				f.V = uint64(r.Intn(70000))
			case 2:
				f.V = 0
			default:
				f.V = uint64(uint32(r.U64()))
			}
		case "a8", "a32", "alocal":
			m := 1 + r.Intn(6)
			for j := 0; j < m; j++ {
				if k == "a8" && r.Bool() {
					f.Vs = append(f.Vs, 0)
				} else {
					f.Vs = append(f.Vs, val(fieldWidth(k)))
				}
			}
		default:
			f.V = val(fieldWidth(k))
			if k == "f32" && r.Intn(6) == 0 { // NaN patterns, signalling ones included
				f.V = 0x7f800000 | (r.U64() & 0x807fffff) | 1
			}
		}
		c.Fields = append(c.Fields, f)
	}
	dim := func() uint32 {
		switch r.Pick(5, 2, 1) {
		case 0:
			return uint32(1 + r.Intn(4096))
		case 1:
			return uint32(r.U64())
		default:
			return 0xffffffff
		}
	}
	wgd := func() uint16 {
		switch r.Pick(5, 2, 1) {
		case 0:
			return uint16(1 + r.Intn(256))
		case 1:
			return uint16(r.U64())
		default:
			return 0xffff
		}
	}
	c.Grid = [3]uint32{dim(), dim(), dim()}
	c.WG = [3]uint16{wgd(), wgd(), wgd()}
	c.NGPU = 1 + r.Intn(4)
	c.GPU = 1 + r.Intn(c.NGPU)
	if c.NGPU >= 2 && r.Intn(4) == 0 {
		m := 2 + r.Intn(c.NGPU-1)
		for g := 1; g <= m; g++ {
			c.Unified = append(c.Unified, g)
		}
		// every member GPU must get work-groups: small grids would skip GPUs, which is fine too
	}
	c.Twice = r.Intn(3) == 0
	return c
}

// ---------------------------------------------------------------- emu loop

// TI is one toy instruction. Op: addl acc storel addg accg skipwf skipodd setcnt loop barrier end
type TI struct {
	Sz int    `json:"sz"`
	Op string `json:"op"`
	A  uint32 `json:"a"`
	B  uint32 `json:"b"`
}

type TObs struct {
	Panic  bool        `json:"panic"`
	Msg    string      `json:"msg,omitempty"`
	LDS    [][]uint32  `json:"lds"`
	Glob   []uint32    `json:"glob"`
	Trace  [][3]uint64 `json:"trace"` // work-group index, wavefront index, pc after the instruction
	Done   int         `json:"completions"` // MapWGReq IDs reported complete
	DoneOK bool        `json:"completions_ok"`
}

type TCase struct {
	Kind string `json:"kind"` // "t"
	Prog []TI   `json:"prog"`
	NWf  int    `json:"nwf"`
	LDS  int    `json:"lds"`
	Glob int    `json:"glob"`
	NWG  int    `json:"nwg"`
	Obs  *TObs  `json:"obs,omitempty"`
	Coq  string `json:"coq,omitempty"`
}

const (
	codeObjAddr = 0x10000
	entryOff    = 256
	codeBase    = codeObjAddr + entryOff
	globBase    = 0x800000
)

type toyMachine struct {
	prog   []TI
	offs   []uint64 // byte offset of each instruction
	glob   []uint32
	lds    []byte
	ldsSet [][]byte
	acc    map[*emu.Wavefront]uint32
	cnt    map[*emu.Wavefront]uint32
	trace  [][3]uint64
}

// Decoder
func (m *toyMachine) Decode(buf []byte) (*insts.Inst, error) {
	idx := int(binary.LittleEndian.Uint32(buf[0:4]))
	if idx >= len(m.prog) {
		return nil, fmt.Errorf("no toy instruction %d", idx)
	}
	ti := m.prog[idx]
	inst := &insts.Inst{Format: &insts.Format{}, InstType: &insts.InstType{}}
	inst.ByteSize = ti.Sz
	inst.ID = idx
	switch ti.Op {
	case "barrier":
		inst.FormatType, inst.Opcode = insts.SOPP, 10
	case "end":
		inst.FormatType, inst.Opcode = insts.SOPP, 1
	case "addl": // same opcode numbers as the two special ones, other formats
		inst.FormatType, inst.Opcode = insts.VOP2, 10
	case "acc":
		inst.FormatType, inst.Opcode = insts.VOP2, 1
	case "storel":
		inst.FormatType, inst.Opcode = insts.SOP1, 1
	case "addg":
		inst.FormatType, inst.Opcode = insts.SOPK, 10
	case "skipwf", "skipodd", "loop":
		inst.FormatType, inst.Opcode = insts.SOPP, 2
	default:
		inst.FormatType, inst.Opcode = insts.SOPP, 0
	}
	return inst, nil
}

// StorageAccessor
func (m *toyMachine) Read(pid vm.PID, addr, n uint64) []byte {
	out := make([]byte, n)
	if addr >= globBase {
		c := (addr - globBase) / 4
		binary.LittleEndian.PutUint32(out, m.glob[c])
		return out
	}
	rel := addr - codeBase
	for i, o := range m.offs {
		if o == rel {
			binary.LittleEndian.PutUint32(out, uint32(i))
			return out
		}
	}
	binary.LittleEndian.PutUint32(out, 0xffffffff)
	return out
}

func (m *toyMachine) Write(pid vm.PID, addr uint64, data []byte) {
	c := (addr - globBase) / 4
	m.glob[c] = binary.LittleEndian.Uint32(data)
}

// ALU
func (m *toyMachine) SetLDS(lds []byte) {
	m.lds = lds
	for _, l := range m.ldsSet {
		if len(l) > 0 && len(lds) > 0 && &l[0] == &lds[0] {
			return
		}
	}
	m.ldsSet = append(m.ldsSet, lds)
}
func (m *toyMachine) LDS() []byte      { return m.lds }
func (m *toyMachine) ArchName() string { return "GCN3" }

func (m *toyMachine) cell(c uint32) uint32 { return binary.LittleEndian.Uint32(m.lds[4*c:]) }
func (m *toyMachine) setCell(c, v uint32)  { binary.LittleEndian.PutUint32(m.lds[4*c:], v) }

func (m *toyMachine) Run(state emu.InstEmuState) {
	wf := state.(*emu.Wavefront)
	ti := m.prog[wf.Inst().ID]
	id := uint32(wf.FirstWiFlatID / 64)
	switch ti.Op {
	case "addl":
		m.setCell(ti.A, 3*m.cell(ti.A)+ti.B+id)
	case "acc":
		m.acc[wf] += m.cell(ti.A)
	case "storel":
		m.setCell(ti.A, m.acc[wf])
	case "addg":
		g := binary.LittleEndian.Uint32(m.Read(wf.PID(), globBase+4*uint64(ti.A), 4))
		b := make([]byte, 4)
		binary.LittleEndian.PutUint32(b, 5*g+ti.B+id+m.acc[wf])
		m.Write(wf.PID(), globBase+4*uint64(ti.A), b)
	case "accg":
		m.acc[wf] += binary.LittleEndian.Uint32(m.Read(wf.PID(), globBase+4*uint64(ti.A), 4))
	case "skipwf":
		if id < ti.A {
			wf.SetPC(wf.PC() + uint64(ti.B))
		}
	case "skipodd":
		if m.cell(ti.A)&1 == 1 {
			wf.SetPC(wf.PC() + uint64(ti.B))
		}
	case "setcnt":
		m.cnt[wf] = ti.A
	case "loop":
		if m.cnt[wf] != 0 {
			m.cnt[wf]--
			wf.SetPC(wf.PC() - uint64(ti.A))
		}
	default:
		panic("toy ALU asked to execute " + ti.Op)
	}
}

// hook on the compute unit: one call per instruction (logInst)
func (m *toyMachine) Func(ctx sim.HookCtx) {
	wf, ok := ctx.Item.(*emu.Wavefront)
	if !ok {
		return
	}
	if _, ok := ctx.Detail.(*insts.Inst); !ok {
		return
	}
	m.trace = append(m.trace, [3]uint64{uint64(wf.WG.IDX), uint64(wf.FirstWiFlatID / 64), wf.PC() - codeBase})
}

func runT(c TCase) (out TCase) {
	out = c
	m := &toyMachine{prog: c.Prog, glob: make([]uint32, c.Glob),
		acc: map[*emu.Wavefront]uint32{}, cnt: map[*emu.Wavefront]uint32{}}
	off := uint64(0)
	for _, ti := range c.Prog {
		m.offs = append(m.offs, off)
		off += uint64(ti.Sz)
	}
	obs := &TObs{}
	out.Obs = obs
	engine := sim.NewSerialEngine()
	cu := emu.NewComputeUnit("CU", engine, m, m, m)
	cu.AcceptHook(m)
	conn := &vh.StubConn{}
	conn.PlugIn(cu.ToDispatcher)
	disp := sim.NewPort(nil, 4, 4, "Dispatcher")

	co := &insts.KernelCodeObject{KernelCodeObjectMeta: &insts.KernelCodeObjectMeta{KernelCodeEntryByteOffset: entryOff}}
	var ids []string
	func() {
		defer func() {
			if r := recover(); r != nil {
				obs.Panic = true
				obs.Msg = fmt.Sprint(r)
			}
		}()
		for g := 0; g < c.NWG; g++ {
			pkt := &kernels.HsaKernelDispatchPacket{
				WorkgroupSizeX: uint16(64 * c.NWf), WorkgroupSizeY: 1, WorkgroupSizeZ: 1,
				GridSizeX: uint32(64 * c.NWf * c.NWG), GridSizeY: 1, GridSizeZ: 1,
				GroupSegmentSize: uint32(4 * c.LDS), KernelObject: codeObjAddr,
			}
			wg := kernels.NewWorkGroup()
			wg.CodeObject, wg.Packet = co, pkt
			wg.SizeX, wg.SizeY, wg.SizeZ = 64*c.NWf, 1, 1
			wg.CurrSizeX, wg.CurrSizeY, wg.CurrSizeZ = 64*c.NWf, 1, 1
			wg.IDX = g
			b := protocol.MapWGReqBuilder{}.WithSrc(disp.AsRemote()).WithDst(cu.ToDispatcher.AsRemote()).
				WithPID(1).WithWG(wg)
			for i := 0; i < c.NWf; i++ {
				wf := kernels.NewWavefront()
				wf.CodeObject, wf.Packet, wf.WG = co, pkt, wg
				wf.FirstWiFlatID = 64 * i
				wf.InitExecMask = ^uint64(0)
				wg.Wavefronts = append(wg.Wavefronts, wf)
				b = b.AddWf(protocol.WfDispatchLocation{Wavefront: wf})
			}
			req := b.Build()
			ids = append(ids, req.ID)
			cu.ToDispatcher.Deliver(req)
			cu.Tick()
		}
		if err := engine.Run(); err != nil {
			panic(err)
		}
	}()
	seen := map[string]int{}
	for {
		msg := cu.ToDispatcher.RetrieveOutgoing()
		if msg == nil {
			break
		}
		if cm, ok := msg.(*protocol.WGCompletionMsg); ok {
			for _, id := range cm.RspTo {
				seen[id]++
				obs.Done++
			}
		}
	}
	obs.DoneOK = true
	if !obs.Panic {
		for _, id := range ids {
			if seen[id] != 1 {
				obs.DoneOK = false
			}
		}
		if obs.Done != len(ids) {
			obs.DoneOK = false
		}
	}
	for _, l := range m.ldsSet {
		cells := make([]uint32, len(l)/4)
		for i := range cells {
			cells[i] = binary.LittleEndian.Uint32(l[4*i:])
		}
		obs.LDS = append(obs.LDS, cells)
	}
	obs.Glob = m.glob
	obs.Trace = m.trace
	out.Coq = coqT(c, obs)
	return out
}

func coqTI(ti TI) string {
	var s string
	switch ti.Op {
	case "addl":
		s = fmt.Sprintf("TAddL %d %d", ti.A, ti.B)
	case "acc":
		s = fmt.Sprintf("TAcc %d", ti.A)
	case "storel":
		s = fmt.Sprintf("TStoreL %d", ti.A)
	case "addg":
		s = fmt.Sprintf("TAddG %d %d", ti.A, ti.B)
	case "accg":
		s = fmt.Sprintf("TAccG %d", ti.A)
	case "skipwf":
		s = fmt.Sprintf("TSkipWfLt %d %d", ti.A, ti.B)
	case "skipodd":
		s = fmt.Sprintf("TSkipOdd %d %d", ti.A, ti.B)
	case "setcnt":
		s = fmt.Sprintf("TSetCnt %d", ti.A)
	case "loop":
		s = fmt.Sprintf("TLoop %d", ti.A)
	case "barrier":
		s = "TBarrier"
	case "end":
		s = "TEnd"
	default:
		panic("op " + ti.Op)
	}
	return fmt.Sprintf("(%d, %s)", ti.Sz, s)
}

func u32s(xs []uint32) string {
	s := make([]string, len(xs))
	for i, x := range xs {
		s[i] = fmt.Sprintf("%d", x)
	}
	return vh.CoqList(s)
}

func coqT(c TCase, o *TObs) string {
	ps := make([]string, len(c.Prog))
	for i, ti := range c.Prog {
		ps[i] = coqTI(ti)
	}
	ls := make([]string, len(o.LDS))
	for i, l := range o.LDS {
		ls[i] = u32s(l)
	}
	ts := make([]string, len(o.Trace))
	for i, t := range o.Trace {
		ts[i] = fmt.Sprintf("(%d, %d)", t[1], t[2])
	}
	return fmt.Sprintf("mkTCase %s %d%%nat %d%%nat %d%%nat %d%%nat %s %s %s %s",
		vh.CoqList(ps), c.NWf, c.LDS, c.Glob, c.NWG, vh.CoqBool(o.Panic),
		vh.CoqList(ls), u32s(o.Glob), vh.CoqList(ts))
}

// genT builds a structured program: sections of plain operations, forward
// skips (possibly over a barrier, possibly wavefront dependent), at most one
// counted loop per section, barriers between sections, s_endpgm at the end.
func genT(r *vh.Rng) TCase {
	c := TCase{Kind: "t"}
	c.NWf = 1 + r.Intn(5)
	c.LDS = 1 + r.Intn(4)
	c.Glob = 1 + r.Intn(3)
	c.NWG = 1 + r.Intn(2)
	divergent := r.Intn(3) == 0 // allow wavefront-dependent skips over barriers / ends
	type pi struct {
		ti   TI
		skip int // number of following instructions to skip (skip ops)
		back int // number of preceding instructions in the loop body (loop op)
	}
	var p []pi
	sz := func() int { return 4 + 4*r.Intn(2) }
	plain := func() pi {
		switch r.Pick(4, 2, 2, 2, 1) {
		case 0:
			return pi{ti: TI{Sz: sz(), Op: "addl", A: uint32(r.Intn(c.LDS)), B: uint32(r.Intn(1000))}}
		case 1:
			return pi{ti: TI{Sz: sz(), Op: "acc", A: uint32(r.Intn(c.LDS))}}
		case 2:
			return pi{ti: TI{Sz: sz(), Op: "storel", A: uint32(r.Intn(c.LDS))}}
		case 3:
			return pi{ti: TI{Sz: sz(), Op: "addg", A: uint32(r.Intn(c.Glob)), B: uint32(r.Intn(1000))}}
		default:
			return pi{ti: TI{Sz: sz(), Op: "accg", A: uint32(r.Intn(c.Glob))}}
		}
	}
	nsec := 1 + r.Intn(4)
	for s := 0; s < nsec; s++ {
		loop := r.Intn(3) == 0
		start := -1
		if loop {
			p = append(p, pi{ti: TI{Sz: sz(), Op: "setcnt", A: uint32(1 + r.Intn(3))}})
			start = len(p)
		}
		nops := r.Intn(4)
		for i := 0; i < nops; i++ {
			p = append(p, plain())
		}
		switch r.Pick(3, 2, 2) {
		case 1:
			p = append(p, pi{ti: TI{Sz: sz(), Op: "skipodd", A: uint32(r.Intn(c.LDS))}, skip: 1 + r.Intn(2)})
			p = append(p, plain(), plain())
		case 2:
			k := 1
			if divergent {
				k = 1 + r.Intn(3)
			}
			p = append(p, pi{ti: TI{Sz: sz(), Op: "skipwf", A: uint32(r.Intn(c.NWf + 1))}, skip: k})
			p = append(p, plain())
		}
		if loop && r.Bool() { // barrier inside the loop body
			p = append(p, pi{ti: TI{Sz: sz(), Op: "barrier"}})
			p = append(p, plain())
		}
		if loop {
			p = append(p, pi{ti: TI{Sz: sz(), Op: "loop"}, back: len(p) - start})
		}
		if s < nsec-1 || r.Intn(4) == 0 {
			p = append(p, pi{ti: TI{Sz: sz(), Op: "barrier"}})
		}
	}
	if divergent && r.Intn(3) == 0 { // early exit for some wavefronts
		k := len(p) / 2
		ins := []pi{{ti: TI{Sz: sz(), Op: "skipwf", A: uint32(1 + r.Intn(c.NWf))}, skip: 1}, {ti: TI{Sz: sz(), Op: "end"}}}
		ok := true
		for _, x := range p { // keep loop bodies intact: only insert when no loop spans the point
			if x.back > 0 {
				ok = false
			}
		}
		if ok {
			p = append(p[:k], append(ins, p[k:]...)...)
		}
	}
	p = append(p, pi{ti: TI{Sz: sz(), Op: "end"}})
	// resolve skip / loop distances to bytes; a skip never leaves the program
	for i := range p {
		if p[i].skip > 0 {
			k := p[i].skip
			if i+k+1 > len(p)-1 { // land on the final s_endpgm at the latest
				k = len(p) - 2 - i
			}
			d := 0
			for j := i + 1; j <= i+k; j++ {
				d += p[j].ti.Sz
			}
			p[i].ti.B = uint32(d)
		}
		if p[i].back > 0 {
			d := p[i].ti.Sz
			for j := i - p[i].back; j < i; j++ {
				d += p[j].ti.Sz
			}
			p[i].ti.A = uint32(d)
		}
	}
	for _, x := range p {
		c.Prog = append(c.Prog, x.ti)
	}
	return c
}

// ---------------------------------------------------------------- main

type Out struct {
	K []KCase `json:"k"`
	T []TCase `json:"t"`
}

func main() {
	seed := flag.Uint64("seed", 1, "seed")
	nk := flag.Int("nk", 100, "number of kernarg cases")
	nt := flag.Int("nt", 100, "number of emu-loop cases")
	outf := flag.String("out", "", "output JSON file")
	rep := flag.String("replay", "", "JSON file {k:[...], t:[...]} with cases to replay")
	flag.Parse()

	var out Out
	if *rep != "" {
		data, err := os.ReadFile(*rep)
		if err != nil {
			panic(err)
		}
		var in Out
		if err := json.Unmarshal(data, &in); err != nil {
			panic(err)
		}
		for _, c := range in.K {
			out.K = append(out.K, runK(c))
		}
		for _, c := range in.T {
			out.T = append(out.T, runT(c))
		}
	} else {
		rng := vh.NewRng(*seed)
		rk, rt := rng.Fork(), rng.Fork()
		for i := 0; i < *nk; i++ {
			out.K = append(out.K, runK(genK(rk.Fork())))
		}
		for i := 0; i < *nt; i++ {
			out.T = append(out.T, runT(genT(rt.Fork())))
		}
	}
	data, _ := json.Marshal(out)
	if *outf == "" {
		os.Stdout.Write(data)
	} else if err := os.WriteFile(*outf, data, 0o644); err != nil {
		panic(err)
	}
}
