// Command c15 drives the real rob.ReorderBuffer through its three ports with
// generated (or replayed) environment histories and records what it observes.
package main

import (
	"encoding/json"
	"flag"
	"fmt"
	"os"
	"strings"

	"github.com/sarchlab/akita/v4/mem/mem"
	"github.com/sarchlab/akita/v4/mem/vm"
	"github.com/sarchlab/akita/v4/sim"
	"github.com/sarchlab/mgpusim/v4/amd/timing/rob"

	"verifharness/vh"
)

const (
	pTop        = 1
	pBot        = 2
	pCtl        = 3
	pBottomUnit = 4
	botIDBase   = 1000000
)

// Event is one environment action in canonical (replayable) form.
type Event struct {
	E   string  `json:"e"` // dt db dc tick rt rb rc
	Msg *vh.Msg `json:"msg,omitempty"`
	// observation
	Acc      *bool   `json:"acc,omitempty"`
	Progress *bool   `json:"progress,omitempty"`
	Got      *vh.Msg `json:"got,omitempty"`
	None     bool    `json:"none,omitempty"`
	Crash    bool    `json:"crash,omitempty"`
}

type Case struct {
	Cap     int     `json:"cap"`
	Width   int     `json:"width"`
	Hostile bool    `json:"hostile"`
	Quiet   bool    `json:"quiet"` // the fair drain tail ended with nothing moving
	Sib     bool    `json:"sib,omitempty"` // a second buffer built from the SAME builder value is exercised alongside
	Events  []Event `json:"events"`
	Coq     string  `json:"coq"`
}

type runner struct {
	rb                *rob.ReorderBuffer
	top, bot, ctl     sim.Port
	canon             *vh.Canon
	botGoIDs          []string // Go IDs of retrieved bottom requests, by canonical index
	nextFake          int
	// sibling: a second buffer built from the same builder value (the shader-array builder builds all L1V
	// reorder buffers of an array that way). It runs a fixed script between the events of the history; the
	// buffer under observation must behave exactly as if it were alone.
	sib                    *rob.ReorderBuffer
	sibTop, sibBot, sibCtl sim.Port
	sibStep                int
	sibOld                 []string
}

func newRunner(capacity, width int, withSib bool) *runner {
	engine := sim.NewSerialEngine()
	r := &runner{canon: vh.NewCanon()}
	b := rob.MakeBuilder().
		WithEngine(engine).
		WithFreq(1 * sim.GHz).
		WithBufferSize(capacity).
		WithNumReqPerCycle(width).
		WithBottomUnit(sim.RemotePort("BottomUnit"))
	r.rb = b.Build("ROB")
	if withSib {
		r.sib = b.Build("ROBSibling")
		r.sibTop = r.sib.GetPortByName("Top")
		r.sibBot = r.sib.GetPortByName("Bottom")
		r.sibCtl = r.sib.GetPortByName("Control")
		sc := &vh.StubConn{}
		sc.PlugIn(r.sibTop)
		sc.PlugIn(r.sibBot)
		sc.PlugIn(r.sibCtl)
	}
	r.top = r.rb.GetPortByName("Top")
	r.bot = r.rb.GetPortByName("Bottom")
	r.ctl = r.rb.GetPortByName("Control")
	conn := &vh.StubConn{}
	conn.PlugIn(r.top)
	conn.PlugIn(r.bot)
	conn.PlugIn(r.ctl)
	r.canon.SetPort(r.top.AsRemote(), pTop)
	r.canon.SetPort(r.bot.AsRemote(), pBot)
	r.canon.SetPort(r.ctl.AsRemote(), pCtl)
	r.canon.SetPort("BottomUnit", pBottomUnit)
	for i := 10; i < 40; i++ {
		r.canon.SetPort(sim.RemotePort(fmt.Sprintf("Agent%d", i)), uint64(i))
	}
	return r
}

func agent(n uint64) sim.RemotePort { return sim.RemotePort(fmt.Sprintf("Agent%d", n)) }

// build the Go message for a canonical one
func (r *runner) toSim(e *Event) sim.Msg {
	m := e.Msg
	switch m.Kind {
	case "KRead":
		q := mem.ReadReqBuilder{}.WithSrc(agent(m.Src)).WithDst(r.top.AsRemote()).
			WithAddress(m.Addr).WithByteSize(m.Size).WithPID(vm.PID(m.PID)).Build()
		r.canon.SetID(q.ID, m.ID)
		return q
	case "KWrite":
		q := mem.WriteReqBuilder{}.WithSrc(agent(m.Src)).WithDst(r.top.AsRemote()).
			WithAddress(m.Addr).WithPID(vm.PID(m.PID)).WithData(m.Data).WithDirtyMask(m.Mask).Build()
		r.canon.SetID(q.ID, m.ID)
		return q
	case "KDataReady":
		return mem.DataReadyRspBuilder{}.WithSrc("BottomUnit").WithDst(r.bot.AsRemote()).
			WithRspTo(r.goBotID(m.RspTo)).WithData(m.Data).Build()
	case "KWriteDone":
		return mem.WriteDoneRspBuilder{}.WithSrc("BottomUnit").WithDst(r.bot.AsRemote()).
			WithRspTo(r.goBotID(m.RspTo)).Build()
	case "KCtrl":
		b := mem.ControlMsgBuilder{}.WithSrc(agent(m.Src)).WithDst(r.ctl.AsRemote())
		if m.Flags&vh.FDiscard != 0 {
			b = b.ToDiscardTransactions()
		}
		if m.Flags&vh.FRestart != 0 {
			b = b.ToRestart()
		}
		if m.Flags&vh.FNotifyDone != 0 {
			b = b.ToNotifyDone()
		}
		q := b.Build()
		r.canon.SetID(q.ID, m.ID)
		return q
	}
	panic("bad kind " + m.Kind)
}

func (r *runner) goBotID(canonical uint64) string {
	if canonical >= botIDBase && int(canonical-botIDBase) < len(r.botGoIDs) {
		return r.botGoIDs[canonical-botIDBase]
	}
	return fmt.Sprintf("unknown-%d", canonical)
}

func bp(b bool) *bool { return &b }

// sibNoise advances the sibling's fixed script by one step: requests that stay outstanding below, a discard and
// a restart with their acknowledgements collected, late answers for discarded requests.
func (r *runner) sibNoise() {
	if r.sib == nil {
		return
	}
	k := r.sibStep
	r.sibStep++
	read := func() {
		q := mem.ReadReqBuilder{}.WithSrc("SibAgent").WithDst(r.sibTop.AsRemote()).
			WithAddress(uint64(64 * k)).WithByteSize(4).Build()
		r.sibTop.Deliver(q)
	}
	ctrl := func(restart bool) {
		b := mem.ControlMsgBuilder{}.WithSrc("SibCtl").WithDst(r.sibCtl.AsRemote()).ToNotifyDone()
		if restart {
			b = b.ToRestart()
		} else {
			b = b.ToDiscardTransactions()
		}
		r.sibCtl.Deliver(b.Build())
	}
	switch k % 14 {
	case 0, 3:
		read()
	case 1, 4, 6, 9, 12:
		r.sib.Tick()
	case 2:
		if m := r.sibBot.RetrieveOutgoing(); m != nil {
			r.sibOld = append(r.sibOld, m.Meta().ID)
		}
	case 5:
		ctrl(false)
	case 7, 10:
		r.sibCtl.RetrieveOutgoing()
	case 8:
		ctrl(true)
	case 11:
		for r.sibTop.RetrieveOutgoing() != nil {
		}
		for r.sibBot.RetrieveOutgoing() != nil {
		}
	case 13:
		if len(r.sibOld) > 0 {
			r.sibBot.Deliver(mem.DataReadyRspBuilder{}.WithSrc("BottomUnit").WithDst(r.sibBot.AsRemote()).
				WithRspTo(r.sibOld[0]).WithData([]byte{1, 2, 3, 4}).Build())
			r.sibOld = r.sibOld[1:]
		}
	}
}

// apply runs one event on the implementation and fills in the observation.
func (r *runner) apply(e *Event) (crashed bool) {
	defer func() {
		if x := recover(); x != nil {
			e.Crash = true
			crashed = true
		}
	}()
	defer r.sibNoise()
	switch e.E {
	case "dt":
		e.Acc = bp(r.top.Deliver(r.toSim(e)) == nil)
	case "db":
		e.Acc = bp(r.bot.Deliver(r.toSim(e)) == nil)
	case "dc":
		e.Acc = bp(r.ctl.Deliver(r.toSim(e)) == nil)
	case "tick":
		e.Progress = bp(r.rb.Tick())
	case "rt":
		m := r.top.RetrieveOutgoing()
		if m == nil {
			e.None = true
		} else {
			g := r.canon.FromSim(m, 0)
			e.Got = &g
		}
	case "rb":
		m := r.bot.RetrieveOutgoing()
		if m == nil {
			e.None = true
		} else {
			id := uint64(botIDBase + len(r.botGoIDs))
			r.botGoIDs = append(r.botGoIDs, m.Meta().ID)
			r.canon.SetID(m.Meta().ID, id)
			g := r.canon.FromSim(m, id)
			e.Got = &g
		}
	case "rc":
		m := r.ctl.RetrieveOutgoing()
		if m == nil {
			e.None = true
		} else {
			g := r.canon.FromSim(m, 0)
			e.Got = &g
		}
	}
	return false
}

func payload(addr uint64, n int) []byte {
	d := make([]byte, n)
	for i := range d {
		d[i] = byte((addr+uint64(i))*131 + 7)
	}
	return d
}

type outstanding struct {
	id   uint64
	read bool
	addr uint64
	size int
}

// generate produces and runs one random history.
func generate(rng *vh.Rng, hostile, withSib bool) Case {
	caps := []int{1, 2, 3, 4, 8, 128}
	widths := []int{1, 2, 4}
	c := Case{Cap: caps[rng.Intn(len(caps))], Width: widths[rng.Intn(len(widths))], Hostile: hostile, Sib: withSib}
	r := newRunner(c.Cap, c.Width, c.Sib)
	n := 40 + rng.Intn(160)
	var pending []outstanding // retrieved bottom requests not yet answered
	var answered []outstanding
	nextTop := uint64(1)
	var lastRead *vh.Msg
	ctlID := uint64(500000)
	// per-case bias so that some histories are reply-starved and others drain quickly
	wTop := 15 + rng.Intn(30)
	wAns := 10 + rng.Intn(35)
	wCtl := 0
	if rng.Intn(3) == 0 {
		wCtl = 2 + rng.Intn(4)
	}
	// control scripts: unusual but admissible orders of control messages (discard twice, restart twice, restart
	// without discard ...), each followed by ticks and the collection of its acknowledgement, injected once at a
	// random point; ordinary traffic continues afterwards and the drain tail decides whether service resumed
	var script []uint64
	scriptAt := -1
	if rng.Intn(6) == 0 {
		scripts := [][]uint64{
			{vh.FDiscard, vh.FDiscard, vh.FRestart},
			{vh.FDiscard, vh.FRestart, vh.FRestart},
			{vh.FRestart},
			{vh.FRestart, vh.FRestart},
			{vh.FDiscard, vh.FDiscard, vh.FRestart, vh.FRestart},
			{vh.FDiscard, vh.FRestart, vh.FDiscard, vh.FRestart},
		}
		script = scripts[rng.Intn(len(scripts))]
		scriptAt = rng.Intn(n/2 + 1)
		wCtl = 0
	}
	var queued []Event
	for i := 0; i < n; i++ {
		var e Event
		if i == scriptAt {
			for _, fl := range script {
				m := vh.Msg{ID: ctlID, Kind: "KCtrl", Src: 20, Dst: pCtl, Flags: fl}
				ctlID++
				queued = append(queued, Event{E: "dc", Msg: &m}, Event{E: "tick"}, Event{E: "tick"}, Event{E: "rc"})
			}
			scriptAt = -1
		}
		if len(queued) > 0 {
			e = queued[0]
			queued = queued[1:]
			if e.Msg != nil {
				fixMsg(e.Msg)
			}
			crashed := r.apply(&e)
			c.Events = append(c.Events, e)
			if crashed {
				break
			}
			i--
			continue
		}
		switch rng.Pick(wTop, wAns, 25, 8, 12, wCtl, wCtl) {
		case 0:
			addr := uint64(rng.Intn(64)) * 4
			if rng.Intn(4) == 0 {
				addr = uint64(rng.U64() & 0xffffffffff)
			}
			m := vh.Msg{ID: nextTop, Src: uint64(10 + rng.Intn(3)), Dst: pTop, Addr: addr, PID: uint64(rng.Intn(3))}
			nextTop++
			if lastRead != nil && rng.Intn(4) == 0 {
				// the same access again (address, size and process of the previous read; several wavefronts
				// reading one location): anything that treats equal requests as one request shows here
				m.Kind = "KRead"
				m.Addr, m.Size, m.PID = lastRead.Addr, lastRead.Size, lastRead.PID
			} else if rng.Intn(5) < 3 {
				m.Kind = "KRead"
				m.Size = uint64(1 + rng.Intn(64))
				lr := m
				lastRead = &lr
			} else {
				m.Kind = "KWrite"
				sz := 1 + rng.Intn(16)
				m.Data = make([]byte, sz)
				for j := range m.Data {
					m.Data[j] = byte(rng.U64())
				}
				if rng.Bool() {
					m.Mask = make([]bool, sz)
					for j := range m.Mask {
						m.Mask[j] = rng.Bool()
					}
				}
			}
			e = Event{E: "dt", Msg: &m}
		case 1:
			if len(pending) == 0 && !(hostile && len(answered) > 0) {
				e = Event{E: "tick"}
				break
			}
			var o outstanding
			if hostile && rng.Intn(4) == 0 {
				// duplicate answer, or an identifier the buffer never issued
				if len(answered) > 0 && rng.Bool() {
					o = answered[rng.Intn(len(answered))]
				} else {
					o = outstanding{id: 777000 + uint64(rng.Intn(5)), read: rng.Bool(), addr: 4, size: 4}
				}
			} else if len(pending) > 0 {
				k := rng.Intn(len(pending))
				o = pending[k]
				pending = append(pending[:k], pending[k+1:]...)
				answered = append(answered, o)
			} else {
				e = Event{E: "tick"}
				break
			}
			m := vh.Msg{Src: pBottomUnit, Dst: pBot, RspTo: o.id}
			if o.read {
				m.Kind = "KDataReady"
				m.Data = payload(o.addr, o.size)
				if hostile && rng.Intn(3) == 0 {
					m.Data[0] ^= 0x5a
				}
			} else {
				m.Kind = "KWriteDone"
			}
			e = Event{E: "db", Msg: &m}
		case 2:
			e = Event{E: "tick"}
		case 3:
			e = Event{E: "rt"}
		case 4:
			e = Event{E: "rb"}
		case 5:
			fl := uint64(vh.FDiscard)
			if rng.Bool() {
				fl = vh.FRestart
			}
			m := vh.Msg{ID: ctlID, Kind: "KCtrl", Src: 20, Dst: pCtl, Flags: fl}
			ctlID++
			e = Event{E: "dc", Msg: &m}
		case 6:
			e = Event{E: "rc"}
		}
		if e.Msg != nil {
			fixMsg(e.Msg)
		}
		crashed := r.apply(&e)
		c.Events = append(c.Events, e)
		if crashed {
			break
		}
		if e.E == "db" && e.Acc != nil && !*e.Acc && len(answered) > 0 && answered[len(answered)-1].id == e.Msg.RspTo {
			// the port refused the reply: the request is still outstanding
			pending = append(pending, answered[len(answered)-1])
			answered = answered[:len(answered)-1]
		}
		if e.E == "rb" && e.Got != nil {
			pending = append(pending, outstanding{id: e.Got.ID, read: e.Got.Kind == "KRead",
				addr: e.Got.Addr, size: int(e.Got.Size)})
		}
	}
	// fair drain tail: answer everything outstanding, tick, retrieve everything, until nothing moves
	crashedTail := false
	step := func(e Event) *Event {
		if e.Msg != nil {
			fixMsg(e.Msg)
		}
		if r.apply(&e) {
			crashedTail = true
		}
		c.Events = append(c.Events, e)
		return &c.Events[len(c.Events)-1]
	}
	for round := 0; round < 12 && !crashedTail && len(c.Events) > 0 && !c.Events[len(c.Events)-1].Crash; round++ {
		moved := false
		for k := 0; k < 2*c.Width+1 && !crashedTail; k++ {
			e := step(Event{E: "rb"})
			if e.Got == nil {
				break
			}
			moved = true
			pending = append(pending, outstanding{id: e.Got.ID, read: e.Got.Kind == "KRead", addr: e.Got.Addr, size: int(e.Got.Size)})
		}
		for len(pending) > 0 && !crashedTail {
			o := pending[0]
			m := vh.Msg{Src: pBottomUnit, Dst: pBot, RspTo: o.id, Kind: "KWriteDone"}
			if o.read {
				m.Kind = "KDataReady"
				m.Data = payload(o.addr, o.size)
			}
			e := step(Event{E: "db", Msg: &m})
			if e.Acc == nil || !*e.Acc {
				break
			}
			pending = pending[1:]
			moved = true
		}
		for k := 0; k < 3 && !crashedTail; k++ {
			e := step(Event{E: "tick"})
			if e.Progress != nil && *e.Progress {
				moved = true
			}
		}
		for k := 0; k < 2*c.Width+1 && !crashedTail; k++ {
			e := step(Event{E: "rt"})
			if e.Got == nil {
				break
			}
			moved = true
		}
		e := step(Event{E: "rc"})
		if e.Got != nil {
			moved = true
		}
		if !moved {
			break
		}
	}
	c.Quiet = quietTail(c.Events)
	c.Coq = caseCoq(&c)
	return c
}

func fixMsg(m *vh.Msg) { m.Fix() }

// quietTail recognises a history that ends with one full drain round in which nothing moved:
// empty retrievals on all three ports and three ticks without progress.
func quietTail(ev []Event) bool {
	if len(ev) < 6 {
		return false
	}
	t := ev[len(ev)-6:]
	ticks, rb, rt, rc := 0, false, false, false
	for _, e := range t {
		switch {
		case e.Crash:
			return false
		case e.E == "tick" && e.Progress != nil && !*e.Progress:
			ticks++
		case e.E == "rb" && e.None:
			rb = true
		case e.E == "rt" && e.None:
			rt = true
		case e.E == "rc" && e.None:
			rc = true
		default:
			return false
		}
	}
	return ticks == 3 && rb && rt && rc
}

// replay runs stored events (observations are recomputed).
func replay(c Case) Case {
	r := newRunner(c.Cap, c.Width, c.Sib)
	out := Case{Cap: c.Cap, Width: c.Width, Hostile: c.Hostile, Sib: c.Sib}
	for _, e := range c.Events {
		ne := Event{E: e.E, Msg: e.Msg}
		if ne.Msg != nil {
			ne.Msg.Data = make([]byte, len(ne.Msg.DataI))
			for i, x := range ne.Msg.DataI {
				ne.Msg.Data[i] = byte(x)
			}
			fixMsg(ne.Msg)
		}
		crashed := r.apply(&ne)
		out.Events = append(out.Events, ne)
		if crashed {
			break
		}
	}
	out.Quiet = quietTail(out.Events)
	out.Coq = caseCoq(&out)
	return out
}

func evCoq(e *Event) string {
	var ev, ob string
	switch e.E {
	case "dt":
		ev = "EDeliverTop " + e.Msg.Coq()
	case "db":
		ev = "EDeliverBot " + e.Msg.Coq()
	case "dc":
		ev = "EDeliverCtl " + e.Msg.Coq()
	case "tick":
		ev = "ETick"
	case "rt":
		ev = "ERetrTop"
	case "rb":
		ev = "ERetrBot"
	case "rc":
		ev = "ERetrCtl"
	}
	switch {
	case e.Crash:
		ob = "OCrash"
	case e.Acc != nil:
		ob = "OAcc " + vh.CoqBool(*e.Acc)
	case e.Progress != nil:
		ob = "OTick " + vh.CoqBool(*e.Progress)
	case e.None:
		ob = "OMsg None"
	case e.Got != nil:
		ob = "OMsg (Some " + e.Got.Coq() + ")"
	}
	return "(" + ev + ", " + ob + ")"
}

func caseCoq(c *Case) string {
	items := make([]string, len(c.Events))
	for i := range c.Events {
		items[i] = evCoq(&c.Events[i])
	}
	return fmt.Sprintf("mkCase %s %s %s", vh.CoqNat(c.Cap), vh.CoqNat(c.Width), "["+strings.Join(items, ";\n  ")+"]")
}

func main() {
	seed := flag.Uint64("seed", 1, "seed")
	n := flag.Int("n", 100, "number of histories")
	hostileEvery := flag.Int("hostile-every", 5, "every k-th history uses the hostile stream")
	out := flag.String("out", "", "output JSON file")
	rep := flag.String("replay", "", "JSON file with cases to replay")
	flag.Parse()

	var cases []Case
	if *rep != "" {
		data, err := os.ReadFile(*rep)
		if err != nil {
			panic(err)
		}
		var in []Case
		if err := json.Unmarshal(data, &in); err != nil {
			panic(err)
		}
		for _, c := range in {
			cases = append(cases, replay(c))
		}
	} else {
		rng := vh.NewRng(*seed)
		for i := 0; i < *n; i++ {
			cases = append(cases, generate(rng.Fork(), *hostileEvery > 0 && i%*hostileEvery == *hostileEvery-1, i%3 == 1))
		}
	}
	data, _ := json.Marshal(cases)
	if *out == "" {
		os.Stdout.Write(data)
	} else if err := os.WriteFile(*out, data, 0o644); err != nil {
		panic(err)
	}
}
