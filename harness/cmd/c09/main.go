// Command c09 drives the real CU resource pool (through the verif export of
// package cp) and the real CommandProcessor with fake compute units, records
// what they do, and prints the same histories as Coq terms for the models
// VCp.Resource / VCp.Dispatcher.
package main

import (
	"encoding/json"
	"flag"
	"fmt"
	"os"
	"sort"
	"strings"

	"github.com/sarchlab/akita/v4/mem/vm"
	"github.com/sarchlab/akita/v4/sim"
	"github.com/sarchlab/mgpusim/v4/amd/emu"
	"github.com/sarchlab/mgpusim/v4/amd/insts"
	"github.com/sarchlab/mgpusim/v4/amd/kernels"
	"github.com/sarchlab/mgpusim/v4/amd/protocol"
	"github.com/sarchlab/mgpusim/v4/amd/timing/cp"

	"verifharness/vh"
)

// ---------------------------------------------------------------- shared

type CUCfg struct {
	Sregs uint64      `json:"sregs"`
	Lds   uint64      `json:"lds"`
	Simds [][2]uint64 `json:"simds"` // (vreg count, wf pool size)
}

func (c CUCfg) coq() string {
	s := make([]string, len(c.Simds))
	for i, p := range c.Simds {
		s[i] = fmt.Sprintf("(%d, %d)", p[0], p[1])
	}
	return fmt.Sprintf("(mkCfg %d %d %s)", c.Sregs, c.Lds, vh.CoqList(s))
}

func (c CUCfg) spec(i int) cp.VerifCUSpec {
	s := cp.VerifCUSpec{
		Port:  sim.RemotePort(fmt.Sprintf("CU%d.ToACE", i)),
		Ctrl:  sim.RemotePort(fmt.Sprintf("CU%d.Ctrl", i)),
		SRegs: int(c.Sregs), LDS: int(c.Lds),
	}
	for _, p := range c.Simds {
		s.VRegs = append(s.VRegs, int(p[0]))
		s.WfPools = append(s.WfPools, int(p[1]))
	}
	return s
}

type Snap struct {
	SMask  []int   `json:"smask"`
	LMask  []int   `json:"lmask"`
	VMasks [][]int `json:"vmasks"`
	WfFree []int   `json:"wffree"`
	Next   int     `json:"next"`
	NRes   int     `json:"nres"`
}

func ints(b []byte) []int {
	o := make([]int, len(b))
	for i, x := range b {
		o[i] = int(x)
	}
	return o
}

func rle(m []int) string {
	var items []string
	for i := 0; i < len(m); {
		j := i
		for j < len(m) && m[j] == m[i] {
			j++
		}
		items = append(items, fmt.Sprintf("(%d, %d)", m[i], j-i))
		i = j
	}
	return vh.CoqList(items)
}

func locsCoq(l [][4]uint64) string {
	s := make([]string, len(l))
	for i, x := range l {
		s[i] = fmt.Sprintf("(%d, %d, %d, %d)", x[0], x[1], x[2], x[3])
	}
	return vh.CoqList(s)
}

func mkWG(nwf int, sgpr, vgpr, lds uint64) *kernels.WorkGroup {
	wg := kernels.NewWorkGroup()
	wg.CodeObject = &insts.KernelCodeObject{KernelCodeObjectMeta: &insts.KernelCodeObjectMeta{
		WFSgprCount: uint16(sgpr), WIVgprCount: uint16(vgpr), GroupSegmentByteSize: uint32(lds)}}
	for i := 0; i < nwf; i++ {
		wf := kernels.NewWavefront()
		wf.WG = wg
		wg.Wavefronts = append(wg.Wavefronts, wf)
	}
	return wg
}

func locTuples(ls []protocol.WfDispatchLocation) [][4]uint64 {
	out := make([][4]uint64, len(ls))
	for i, l := range ls {
		out[i] = [4]uint64{uint64(l.SIMDID), uint64(l.VGPROffset), uint64(l.SGPROffset), uint64(l.LDSOffset)}
	}
	return out
}

// ---------------------------------------------------------------- mode "res"

type ResOp struct {
	Op   string    `json:"op"` // r | f
	Key  [2]uint64 `json:"key"`
	Nwf  int       `json:"nwf"`
	Sgpr uint64    `json:"sgpr"`
	Vgpr uint64    `json:"vgpr"`
	Lds  uint64    `json:"lds"`
	// observations
	Crash bool        `json:"crash,omitempty"`
	Ok    bool        `json:"ok,omitempty"`
	Locs  [][4]uint64 `json:"locs,omitempty"`
	Snap  *Snap       `json:"snap,omitempty"`
}

type Case struct {
	Mode    string `json:"mode"`
	Hostile bool   `json:"hostile"`
	// res
	Cfg *CUCfg  `json:"cfg,omitempty"`
	Ops []ResOp `json:"ops,omitempty"`
	// cp
	LaunchOv int       `json:"launch_ov,omitempty"`
	SubOv    int       `json:"sub_ov,omitempty"`
	KernelOv int       `json:"kernel_ov,omitempty"`
	CUs      []CUCfg   `json:"cus,omitempty"`
	NDisp    int       `json:"ndisp,omitempty"`
	Cap      int       `json:"cap,omitempty"` // port buffer capacity of ToCUs/ToDriver (0 = 4096)
	Alg      string    `json:"alg,omitempty"` // round-robin (default) | greedy | partition
	Events   []CPEvent `json:"events,omitempty"`
	// emu
	NCU     int         `json:"ncu,omitempty"`
	Actions []EmuAction `json:"actions,omitempty"`
	Trace   []EmuObs    `json:"trace,omitempty"`
	CUTr    [][]CUEntry `json:"cutr,omitempty"`
	Coq     string      `json:"coq"`
	CoqCU   []string    `json:"coqcu,omitempty"`
}

func (c *Case) alg() string {
	if c.Alg == "" {
		return "round-robin"
	}
	return c.Alg
}

func (c *Case) capOr4096() int {
	if c.Cap > 0 {
		return c.Cap
	}
	return 4096
}

type resRunner struct {
	pool *cp.VerifPool
	wgs  map[[2]uint64]*kernels.WorkGroup
}

func newResRunner(c CUCfg) *resRunner {
	r := &resRunner{pool: cp.VerifNewPool(), wgs: map[[2]uint64]*kernels.WorkGroup{}}
	r.pool.Register(c.spec(0))
	return r
}

func (r *resRunner) snap() *Snap {
	s := r.pool.Snapshot(0)
	out := &Snap{SMask: ints(s.SRegMask), LMask: ints(s.LDSMask), WfFree: append([]int{}, s.WfPoolFree...),
		Next: s.NextSIMD, NRes: s.NumWGs, VMasks: [][]int{}}
	for _, m := range s.VRegMasks {
		out.VMasks = append(out.VMasks, ints(m))
	}
	return out
}

// apply performs one call on the real CU resource and records what it did.
func (r *resRunner) apply(o *ResOp) (crashed bool) {
	defer func() {
		if e := recover(); e != nil {
			o.Crash = true
			crashed = true
		}
	}()
	switch o.Op {
	case "r":
		wg, known := r.wgs[o.Key]
		if !known {
			wg = mkWG(o.Nwf, o.Sgpr, o.Vgpr, o.Lds)
		}
		locs, ok := r.pool.Reserve(0, wg)
		o.Ok = ok
		if ok {
			o.Locs = locTuples(locs)
			r.wgs[o.Key] = wg
		}
	case "f":
		wg, known := r.wgs[o.Key]
		if !known {
			wg = mkWG(1, 0, 0, 0)
		}
		r.pool.Free(0, wg)
		delete(r.wgs, o.Key)
	}
	o.Snap = r.snap()
	return false
}

func pick(rng *vh.Rng, xs []uint64) uint64 { return xs[rng.Intn(len(xs))] }

func genCUCfg(rng *vh.Rng, small bool) CUCfg {
	c := CUCfg{}
	if small {
		c.Sregs = 16 * pick(rng, []uint64{2, 3, 4, 6, 8, 12})
		c.Lds = 256 * pick(rng, []uint64{0, 1, 2, 3, 4, 8})
	} else {
		c.Sregs = 16 * pick(rng, []uint64{4, 8, 50, 200})
		c.Lds = 256 * pick(rng, []uint64{4, 16, 256})
	}
	n := 1 + rng.Intn(4)
	for i := 0; i < n; i++ {
		var v, p uint64
		if small {
			v = 256 * pick(rng, []uint64{1, 2, 3, 4, 6})
			p = pick(rng, []uint64{0, 1, 2, 2, 3, 3, 4})
		} else {
			v = 256 * pick(rng, []uint64{4, 8, 64, 128})
			p = pick(rng, []uint64{2, 4, 8, 10})
		}
		c.Simds = append(c.Simds, [2]uint64{v, p})
	}
	return c
}

func genDemand(rng *vh.Rng, small bool) (nwf int, sgpr, vgpr, lds uint64) {
	nwf = []int{1, 1, 1, 1, 1, 2, 2, 2, 2, 3, 3, 4, 5, 16}[rng.Intn(14)]
	if small {
		sgpr = pick(rng, []uint64{0, 1, 8, 15, 16, 16, 17, 31, 32, 33})
		vgpr = pick(rng, []uint64{0, 1, 3, 4, 4, 5, 7, 8, 9, 12})
		lds = pick(rng, []uint64{0, 0, 0, 1, 255, 256, 257, 512, 600})
	} else {
		sgpr = pick(rng, []uint64{0, 16, 24, 48, 64, 96, 102})
		vgpr = pick(rng, []uint64{4, 8, 24, 64, 100, 128, 256})
		lds = pick(rng, []uint64{0, 256, 1024, 4096, 16384, 32768, 65536})
	}
	return
}

func genRes(rng *vh.Rng, hostile bool) Case {
	small := rng.Intn(4) != 0
	cfg := genCUCfg(rng, small)
	if hostile && rng.Intn(4) == 0 {
		cfg.Simds = nil
	}
	c := Case{Mode: "res", Hostile: hostile, Cfg: &cfg}
	r := newResRunner(cfg)
	var live [][2]uint64
	nops := 20 + rng.Intn(60)
	next := uint64(0)
	for i := 0; i < nops; i++ {
		o := ResOp{}
		k := rng.Pick(5, 5, 1)
		if len(live) == 0 {
			k = 0
		}
		switch {
		case hostile && rng.Intn(12) == 0 && len(live) > 0: // reserve a resident work-group again
			o.Op = "r"
			o.Key = live[rng.Intn(len(live))]
			wg := r.wgs[o.Key]
			o.Nwf = len(wg.Wavefronts)
			o.Sgpr, o.Vgpr, o.Lds = uint64(wg.CodeObject.WFSgprCount), uint64(wg.CodeObject.WIVgprCount), uint64(wg.CodeObject.GroupSegmentByteSize)
		case hostile && rng.Intn(15) == 0: // free something that is not resident
			o.Op = "f"
			o.Key = [2]uint64{9, 1000 + next}
		case k == 0 || k == 2:
			o.Op = "r"
			o.Key = [2]uint64{uint64(1 + rng.Intn(3)), next}
			next++
			o.Nwf, o.Sgpr, o.Vgpr, o.Lds = genDemand(rng, small)
			if hostile && rng.Intn(6) == 0 {
				o.Nwf = 0
			}
		default:
			o.Op = "f"
			j := rng.Intn(len(live))
			o.Key = live[j]
			live = append(live[:j], live[j+1:]...)
		}
		crashed := r.apply(&o)
		if o.Op == "r" && o.Ok && !crashed {
			dup := false
			for _, x := range live {
				if x == o.Key {
					dup = true
				}
			}
			if !dup {
				live = append(live, o.Key)
			}
		}
		c.Ops = append(c.Ops, o)
		if crashed {
			break
		}
	}
	c.Coq = resCoq(&c)
	return c
}

func replayRes(in Case) Case {
	c := Case{Mode: "res", Hostile: in.Hostile, Cfg: in.Cfg}
	r := newResRunner(*in.Cfg)
	for _, o := range in.Ops {
		n := ResOp{Op: o.Op, Key: o.Key, Nwf: o.Nwf, Sgpr: o.Sgpr, Vgpr: o.Vgpr, Lds: o.Lds}
		crashed := r.apply(&n)
		c.Ops = append(c.Ops, n)
		if crashed {
			break
		}
	}
	c.Coq = resCoq(&c)
	return c
}

func resCoq(c *Case) string {
	items := make([]string, len(c.Ops))
	for i, o := range c.Ops {
		var op, ob string
		if o.Op == "r" {
			op = fmt.Sprintf("OReserve (%d, %d) (mkDemand %d%%nat %d %d %d)", o.Key[0], o.Key[1], o.Nwf, o.Sgpr, o.Vgpr, o.Lds)
		} else {
			op = fmt.Sprintf("OFree (%d, %d)", o.Key[0], o.Key[1])
		}
		if o.Crash {
			ob = "crash_obs"
		} else {
			sim := make([]string, len(o.Snap.VMasks))
			for j := range o.Snap.VMasks {
				sim[j] = fmt.Sprintf("(%s, %d)", rle(o.Snap.VMasks[j]), o.Snap.WfFree[j])
			}
			ob = fmt.Sprintf("mkRobs false %s %s %s %s %s %d %d", vh.CoqBool(o.Ok), locsCoq(o.Locs),
				rle(o.Snap.SMask), rle(o.Snap.LMask), vh.CoqList(sim), o.Snap.Next, o.Snap.NRes)
		}
		items[i] = "(" + op + ", " + ob + ")"
	}
	return fmt.Sprintf("mkRCase %s [%s]", c.Cfg.coq(), strings.Join(items, ";\n  "))
}

// ---------------------------------------------------------------- mode "cp"

type LaunchSpec struct {
	ID   uint64    `json:"id"`
	Grid [3]uint32 `json:"grid"`
	WG   [3]uint16 `json:"wg"`
	Sgpr uint64    `json:"sgpr"`
	Vgpr uint64    `json:"vgpr"`
	Lds  uint64    `json:"lds"`
	Wgs  []int     `json:"wgs"` // wavefronts per work-group, in NextWG order (filled by the harness)
}

type MapObs struct {
	ID   uint64      `json:"id"`
	CU   int         `json:"cu"`
	Key  [2]uint64   `json:"key"`
	Locs [][4]uint64 `json:"locs"`
}

type CPEvent struct {
	E      string      `json:"e"` // launch complete tick rcu rdrv
	Launch *LaunchSpec `json:"launch,omitempty"`
	IDs    []uint64    `json:"ids,omitempty"`
	// observations
	Acc      *bool   `json:"acc,omitempty"`
	Progress *bool   `json:"progress,omitempty"`
	Crash    bool    `json:"crash,omitempty"`
	None     bool    `json:"none,omitempty"`
	Map      *MapObs `json:"map,omitempty"`
	Rsp      *uint64 `json:"rsp,omitempty"`
}

type launchInfo struct {
	spec *LaunchSpec
	nx   int
	ny   int
}

type cpRunner struct {
	c        *cp.CommandProcessor
	cuIndex  map[sim.RemotePort]int
	launches map[*kernels.HsaKernelDispatchPacket]*launchInfo
	launchID map[string]uint64 // Go LaunchKernelReq ID -> canonical
	mapGoID  []string          // canonical (id - idBase) -> Go MapWGReq ID
}

const idBase = 1000000

func effKernelOv(k int) int {
	if k > 0 {
		return k
	}
	return 3600
}

func newCPRunner(c *Case) *cpRunner {
	engine := sim.NewSerialEngine()
	b := cp.MakeBuilder().WithEngine(engine).WithFreq(1 * sim.GHz).
		WithConstantKernelLaunchOverhead(c.LaunchOv).
		WithSubsequentKernelLaunchOverhead(c.SubOv).
		WithConstantKernelOverhead(c.KernelOv)
	r := &cpRunner{cuIndex: map[sim.RemotePort]int{}, launches: map[*kernels.HsaKernelDispatchPacket]*launchInfo{},
		launchID: map[string]uint64{}}
	for i, cu := range c.CUs {
		s := cu.spec(i)
		b = b.WithCU(s)
		r.cuIndex[s.Port] = i
	}
	r.c = cp.VerifBuild(b, "CP", c.alg(), c.Cap)
	// the public builder always creates 8 dispatchers; Dispatchers is a public field
	if c.NDisp < len(r.c.Dispatchers) {
		r.c.Dispatchers = r.c.Dispatchers[:c.NDisp]
	}
	conn := &vh.StubConn{}
	conn.PlugIn(r.c.ToDriver)
	conn.PlugIn(r.c.ToCUs)
	return r
}

func (l *LaunchSpec) build() (*insts.KernelCodeObject, *kernels.HsaKernelDispatchPacket) {
	co := &insts.KernelCodeObject{KernelCodeObjectMeta: &insts.KernelCodeObjectMeta{
		WFSgprCount: uint16(l.Sgpr), WIVgprCount: uint16(l.Vgpr), GroupSegmentByteSize: uint32(l.Lds)}}
	p := &kernels.HsaKernelDispatchPacket{
		WorkgroupSizeX: l.WG[0], WorkgroupSizeY: l.WG[1], WorkgroupSizeZ: l.WG[2],
		GridSizeX: l.Grid[0], GridSizeY: l.Grid[1], GridSizeZ: l.Grid[2]}
	return co, p
}

// enumerate fills l.Wgs with the number of wavefronts of every work-group in
// the order in which kernels.GridBuilder.NextWG returns them.
func (l *LaunchSpec) enumerate() {
	co, p := l.build()
	gb := kernels.NewGridBuilder()
	gb.SetKernel(kernels.KernelLaunchInfo{CodeObject: co, Packet: p})
	l.Wgs = []int{}
	for i := 0; i < gb.NumWG(); i++ {
		wg := gb.NextWG()
		if wg == nil {
			break
		}
		l.Wgs = append(l.Wgs, len(wg.Wavefronts))
	}
}

func (r *cpRunner) apply(e *CPEvent) (crashed bool) {
	defer func() {
		if x := recover(); x != nil {
			e.Crash = true
			crashed = true
		}
	}()
	t, f := true, false
	switch e.E {
	case "launch":
		co, p := e.Launch.build()
		req := &protocol.LaunchKernelReq{CodeObject: co, Packet: p, PID: 1}
		req.ID = sim.GetIDGenerator().Generate()
		req.Src = "Driver"
		req.Dst = r.c.ToDriver.AsRemote()
		nx := int(p.GridSizeX-1)/int(p.WorkgroupSizeX) + 1
		ny := int(p.GridSizeY-1)/int(p.WorkgroupSizeY) + 1
		r.launches[p] = &launchInfo{spec: e.Launch, nx: nx, ny: ny}
		r.launchID[req.ID] = e.Launch.ID
		if r.c.ToDriver.Deliver(req) == nil {
			e.Acc = &t
		} else {
			e.Acc = &f
		}
	case "complete":
		ids := make([]string, len(e.IDs))
		for i, id := range e.IDs {
			if id >= idBase && int(id-idBase) < len(r.mapGoID) {
				ids[i] = r.mapGoID[id-idBase]
			} else {
				ids[i] = fmt.Sprintf("unknown-%d", id)
			}
		}
		msg := protocol.WGCompletionMsgBuilder{}.WithSrc("CU").WithDst(r.c.ToCUs.AsRemote()).WithRspTo(ids).Build()
		if r.c.ToCUs.Deliver(msg) == nil {
			e.Acc = &t
		} else {
			e.Acc = &f
		}
	case "tick":
		p := r.c.Tick()
		e.Progress = &p
	case "rcu":
		m := r.c.ToCUs.RetrieveOutgoing()
		if m == nil {
			e.None = true
			break
		}
		q := m.(*protocol.MapWGReq)
		li := r.launches[q.WorkGroup.Packet]
		idx := q.WorkGroup.IDZ*li.nx*li.ny + q.WorkGroup.IDY*li.nx + q.WorkGroup.IDX
		cu, ok := r.cuIndex[q.Dst]
		if !ok {
			cu = 999
		}
		e.Map = &MapObs{ID: idBase + uint64(len(r.mapGoID)), CU: cu, Key: [2]uint64{li.spec.ID, uint64(idx)},
			Locs: locTuples(q.Wavefronts)}
		r.mapGoID = append(r.mapGoID, q.ID)
	case "rdrv":
		m := r.c.ToDriver.RetrieveOutgoing()
		if m == nil {
			e.None = true
			break
		}
		q := m.(*protocol.LaunchKernelRsp)
		id, ok := r.launchID[q.RspTo]
		if !ok {
			id = 999999
		}
		e.Rsp = &id
	}
	return false
}

func genLaunch(rng *vh.Rng, id uint64, neverFits bool) *LaunchSpec {
	l := &LaunchSpec{ID: id}
	switch rng.Intn(3) {
	case 0: // 1-D
		w := uint16(pick(rng, []uint64{32, 64, 100, 128, 192, 256}))
		n := 1 + rng.Intn(12)
		l.WG = [3]uint16{w, 1, 1}
		l.Grid = [3]uint32{uint32(int(w)*n - rng.Intn(int(w))), 1, 1}
	case 1: // 2-D
		l.WG = [3]uint16{uint16(pick(rng, []uint64{8, 16, 32})), uint16(pick(rng, []uint64{2, 4, 8})), 1}
		nx, ny := 1+rng.Intn(4), 1+rng.Intn(3)
		l.Grid = [3]uint32{uint32(int(l.WG[0])*nx - rng.Intn(2)*rng.Intn(int(l.WG[0]))), uint32(int(l.WG[1]) * ny), 1}
	default: // 3-D
		l.WG = [3]uint16{16, 4, uint16(pick(rng, []uint64{1, 2, 4}))}
		l.Grid = [3]uint32{uint32(16 * (1 + rng.Intn(2))), uint32(4 * (1 + rng.Intn(2))), uint32(int(l.WG[2])*(1+rng.Intn(3)) - rng.Intn(2)*rng.Intn(int(l.WG[2])))}
	}
	l.Sgpr = pick(rng, []uint64{0, 8, 16, 17, 32, 40})
	l.Vgpr = pick(rng, []uint64{1, 4, 5, 8, 12, 16})
	l.Lds = pick(rng, []uint64{0, 0, 100, 256, 300, 512, 1024})
	if neverFits {
		switch rng.Intn(3) {
		case 0:
			l.Sgpr = 2000
		case 1:
			l.Vgpr = 2000
		default:
			l.Lds = 1 << 20
		}
	}
	l.enumerate()
	return l
}

func genCP(rng *vh.Rng, hostile bool) Case {
	c := Case{Mode: "cp", Hostile: hostile,
		LaunchOv: []int{0, 0, 1, 3}[rng.Intn(4)], SubOv: []int{0, 0, 2}[rng.Intn(3)], KernelOv: []int{1, 1, 2, 5}[rng.Intn(4)]}
	ncu := []int{1, 1, 2, 2, 3, 4, 8}[rng.Intn(7)]
	for i := 0; i < ncu; i++ {
		cu := CUCfg{Sregs: 16 * pick(rng, []uint64{4, 8, 12, 16, 32}), Lds: 256 * pick(rng, []uint64{2, 4, 8, 16})}
		n := 1 + rng.Intn(4)
		for j := 0; j < n; j++ {
			cu.Simds = append(cu.Simds, [2]uint64{256 * pick(rng, []uint64{2, 4, 8, 16}), pick(rng, []uint64{1, 2, 3, 4, 5})})
		}
		c.CUs = append(c.CUs, cu)
	}
	c.NDisp = []int{1, 1, 2, 2, 3, 4, 8}[rng.Intn(7)]
	c.Alg = []string{"", "", "", "", "", "", "greedy", "greedy", "partition", "partition"}[rng.Intn(10)]
	congested := rng.Intn(2) == 0 // small port buffers, the CU side retrieves rarely
	if congested {
		c.Cap = 1 + rng.Intn(3)
		if c.NDisp == 1 {
			c.NDisp = 2
		}
	}
	r := newCPRunner(&c)
	nl := 1 + rng.Intn(4)
	var pendingLaunch []*LaunchSpec
	for i := 0; i < nl; i++ {
		pendingLaunch = append(pendingLaunch, genLaunch(rng, uint64(i+1), rng.Intn(12) == 0))
	}
	type fl struct {
		id     uint64
		launch uint64
	}
	var inflight []fl
	nev := 60 + rng.Intn(160)
	lazy := rng.Intn(3) == 0 // completions are reported late
	for i := 0; i < nev; i++ {
		e := CPEvent{}
		wl, wc := 2, 5
		if len(pendingLaunch) == 0 {
			wl = 0
		}
		if len(inflight) == 0 {
			wc = 0
		} else if lazy {
			wc = 1
		}
		if i == 0 {
			wl = 1000
		}
		wr := 6
		if congested {
			wr = 1
		}
		switch rng.Pick(wl, wc, 10, wr, 3) {
		case 0:
			e.E = "launch"
			e.Launch = pendingLaunch[0]
			pendingLaunch = pendingLaunch[1:]
		case 1:
			e.E = "complete"
			// a random in-flight work-group and, sometimes, more of the same launch
			j := rng.Intn(len(inflight))
			first := inflight[j]
			e.IDs = []uint64{first.id}
			inflight = append(inflight[:j], inflight[j+1:]...)
			mix := rng.Intn(3) == 0 // also work-groups of other launches (the emulation CU batches like this)
			for k := 0; k < len(inflight) && rng.Intn(3) == 0; {
				if mix || inflight[k].launch == first.launch {
					e.IDs = append(e.IDs, inflight[k].id)
					inflight = append(inflight[:k], inflight[k+1:]...)
				} else {
					k++
				}
			}
			if hostile {
				switch rng.Intn(10) {
				case 0:
					e.IDs = append(e.IDs, e.IDs[0]) // duplicate
				case 1:
					e.IDs = append(e.IDs, 77) // unknown id next to a known one
				case 2, 3:
					e.IDs = []uint64{78} // unknown only: stays at the head of the port
				}
			}
		case 2:
			e.E = "tick"
		case 3:
			e.E = "rcu"
		default:
			e.E = "rdrv"
		}
		crashed := r.apply(&e)
		if e.Map != nil {
			inflight = append(inflight, fl{id: e.Map.ID, launch: e.Map.Key[0]})
		}
		if e.Acc != nil && !*e.Acc { // refused by a full port: try again later
			if e.E == "launch" {
				pendingLaunch = append([]*LaunchSpec{e.Launch}, pendingLaunch...)
			} else if !hostile {
				for _, id := range e.IDs {
					inflight = append(inflight, fl{id: id, launch: (id - idBase)})
				}
				// the launch of a re-queued id is looked up again below
				for k := range inflight {
					for _, ev := range c.Events {
						if ev.Map != nil && ev.Map.ID == inflight[k].id {
							inflight[k].launch = ev.Map.Key[0]
						}
					}
				}
			}
		}
		c.Events = append(c.Events, e)
		if crashed {
			c.Coq = cpCoq(&c)
			return c
		}
	}
	// closing phase (two thirds of the histories): everything in flight is
	// retrieved and completed so that launches reach their response
	if !hostile && rng.Intn(3) != 0 {
		for round := 0; round < 40; round++ {
			seq := []CPEvent{{E: "tick"}, {E: "rcu"}, {E: "rcu"}, {E: "rcu"}}
			if len(inflight) > 0 {
				first := inflight[0]
				ids := []uint64{}
				rest := inflight[:0:0]
				for _, x := range inflight {
					if (x.launch == first.launch || round%4 == 3) && len(ids) < 1+round%3 {
						ids = append(ids, x.id)
					} else {
						rest = append(rest, x)
					}
				}
				inflight = rest
				seq = append(seq, CPEvent{E: "complete", IDs: ids})
			}
			seq = append(seq, CPEvent{E: "tick"}, CPEvent{E: "rdrv"})
			for _, e := range seq {
				e := e
				if r.apply(&e) {
					c.Events = append(c.Events, e)
					c.Coq = cpCoq(&c)
					return c
				}
				if e.Map != nil {
					inflight = append(inflight, fl{id: e.Map.ID, launch: e.Map.Key[0]})
				}
				if e.E == "complete" && e.Acc != nil && !*e.Acc {
					for _, id := range e.IDs {
						l := uint64(0)
						for _, ev := range c.Events {
							if ev.Map != nil && ev.Map.ID == id {
								l = ev.Map.Key[0]
							}
						}
						inflight = append(inflight, fl{id: id, launch: l})
					}
				}
				c.Events = append(c.Events, e)
			}
		}
	}
	c.Coq = cpCoq(&c)
	return c
}

func replayCP(in Case) Case {
	c := Case{Mode: "cp", Hostile: in.Hostile, LaunchOv: in.LaunchOv, SubOv: in.SubOv, KernelOv: in.KernelOv,
		CUs: in.CUs, NDisp: in.NDisp, Cap: in.Cap, Alg: in.Alg}
	r := newCPRunner(&c)
	for _, e := range in.Events {
		n := CPEvent{E: e.E, IDs: e.IDs}
		if e.Launch != nil {
			l := *e.Launch
			l.enumerate()
			n.Launch = &l
		}
		crashed := r.apply(&n)
		c.Events = append(c.Events, n)
		if crashed {
			break
		}
	}
	c.Coq = cpCoq(&c)
	return c
}

func cpCoq(c *Case) string {
	items := make([]string, len(c.Events))
	for i, e := range c.Events {
		var ev, ob string
		switch e.E {
		case "launch":
			ds := make([]string, len(e.Launch.Wgs))
			for j, n := range e.Launch.Wgs {
				ds[j] = fmt.Sprintf("mkDemand %d%%nat %d %d %d", n, e.Launch.Sgpr, e.Launch.Vgpr, e.Launch.Lds)
			}
			ev = fmt.Sprintf("ELaunch (mkLaunch %d %s)", e.Launch.ID, vh.CoqList(ds))
		case "complete":
			ev = "EComplete " + vh.CoqNList(e.IDs)
		case "tick":
			ev = "ETick"
		case "rcu":
			ev = "ERetrCU"
		case "rdrv":
			ev = "ERetrDrv"
		}
		switch {
		case e.Crash:
			ob = "OCrash"
		case e.Acc != nil:
			ob = "OAcc " + vh.CoqBool(*e.Acc)
		case e.Progress != nil:
			ob = "OTick " + vh.CoqBool(*e.Progress)
		case e.Map != nil:
			ls := make([]string, len(e.Map.Locs))
			for j, l := range e.Map.Locs {
				ls[j] = fmt.Sprintf("mkLoc %d%%nat %d %d %d", l[0], l[1], l[2], l[3])
			}
			ob = fmt.Sprintf("OMap (Some (mkMapReq %d %d%%nat (%d, %d) %s))", e.Map.ID, e.Map.CU, e.Map.Key[0], e.Map.Key[1], vh.CoqList(ls))
		case e.Rsp != nil:
			ob = fmt.Sprintf("ORsp (Some %d)", *e.Rsp)
		case e.E == "rcu":
			ob = "OMap None"
		default:
			ob = "ORsp None"
		}
		items[i] = "(" + ev + ", " + ob + ")"
	}
	cus := make([]string, len(c.CUs))
	for i, cu := range c.CUs {
		cus[i] = cu.coq()
	}
	alg := "RoundRobin"
	if c.alg() == "greedy" {
		alg = "Greedy"
	} else if c.alg() == "partition" {
		alg = "Partition"
	}
	return fmt.Sprintf("mkCCase (mkCpCfg %s %d %d %d %d%%nat) %s %d%%nat [%s]", alg, c.LaunchOv, c.SubOv, effKernelOv(c.KernelOv),
		c.capOr4096(), vh.CoqList(cus), c.NDisp, strings.Join(items, ";\n  "))
}

// ---------------------------------------------------------------- mode "emu"
// The real CommandProcessor and real emulation compute units (stub decoder:
// every wavefront ends at once), a hand-stepped engine and a network played
// by the harness, so that the one-entry port from a CU to the CP can be kept
// busy while further work-groups finish.

type EmuAction struct {
	A string `json:"a"` // launch step netmap netcomp rdrv
	N int    `json:"n,omitempty"`
}

// EmuObs is what the whole system did (input of the property monitor).
type EmuObs struct {
	E      string   `json:"e"` // launch map comp rsp crash
	Launch uint64   `json:"launch,omitempty"`
	NWG    int      `json:"nwg,omitempty"`
	ID     uint64   `json:"id,omitempty"`
	CU     int      `json:"cu"`
	IDs    []uint64 `json:"ids,omitempty"`
}

// CUEntry is one step of the abstract trace of one compute unit (input of
// the model VCp.CuCompletion).
type CUEntry struct {
	E    string   `json:"e"` // deliver tick emu handle retr
	ID   uint64   `json:"id,omitempty"`
	Acc  bool     `json:"acc,omitempty"`
	Msg  []uint64 `json:"msg,omitempty"`
	None bool     `json:"none,omitempty"`
	Head []uint64 `json:"head,omitempty"` // message waiting in the CU's outgoing port afterwards
	HasH bool     `json:"hash,omitempty"`
}

type manualEngine struct {
	sim.HookableBase
	now    sim.VTimeInSec
	events []sim.Event
}

func (e *manualEngine) CurrentTime() sim.VTimeInSec { return e.now }
func (e *manualEngine) Schedule(evt sim.Event)      { e.events = append(e.events, evt) }
func (e *manualEngine) Run() error                  { return nil }
func (e *manualEngine) Pause()                      {}
func (e *manualEngine) Continue()                   {}

func (e *manualEngine) next() sim.Event {
	if len(e.events) == 0 {
		return nil
	}
	sort.SliceStable(e.events, func(i, j int) bool {
		a, b := e.events[i], e.events[j]
		if a.Time() != b.Time() {
			return a.Time() < b.Time()
		}
		return !a.IsSecondary() && b.IsSecondary()
	})
	evt := e.events[0]
	e.events = e.events[1:]
	e.now = evt.Time()
	return evt
}

type endpgmDecoder struct{}

func (endpgmDecoder) Decode([]byte) (*insts.Inst, error) {
	return &insts.Inst{
		Format:   insts.FormatTable[insts.SOPP],
		InstType: &insts.InstType{InstName: "s_endpgm", Opcode: 1},
		ByteSize: 4,
	}, nil
}

type nopALU struct{ lds []byte }

func (*nopALU) Run(emu.InstEmuState) {}
func (a *nopALU) SetLDS(lds []byte)  { a.lds = lds }
func (a *nopALU) LDS() []byte        { return a.lds }
func (*nopALU) ArchName() string     { return "GCN3" }

type zeroMem struct{}

func (zeroMem) Read(_ vm.PID, _, n uint64) []byte { return make([]byte, n) }
func (zeroMem) Write(vm.PID, uint64, []byte)      {}

type emuWorld struct {
	engine   *manualEngine
	c        *cp.CommandProcessor
	cus      []*emu.ComputeUnit
	cuOf     map[sim.RemotePort]int
	mapID    map[string]uint64 // Go MapWGReq ID -> canonical
	launchOf map[*kernels.HsaKernelDispatchPacket]uint64
	launchID map[string]uint64
	nLaunch  uint64
	out      *Case
}

func newEmuWorld(ncu int, out *Case) *emuWorld {
	w := &emuWorld{engine: &manualEngine{}, cuOf: map[sim.RemotePort]int{}, mapID: map[string]uint64{},
		launchOf: map[*kernels.HsaKernelDispatchPacket]uint64{}, launchID: map[string]uint64{}, out: out}
	b := cp.MakeBuilder().WithEngine(w.engine).WithFreq(1 * sim.GHz).WithConstantKernelOverhead(1)
	conn := &vh.StubConn{}
	for i := 0; i < ncu; i++ {
		cu := emu.NewComputeUnit(fmt.Sprintf("CU%d", i), w.engine, endpgmDecoder{}, &nopALU{}, zeroMem{})
		w.cus = append(w.cus, cu)
		w.cuOf[cu.ToDispatcher.AsRemote()] = i
		b = b.WithCU(cu)
		conn.PlugIn(cu.ToDispatcher)
	}
	w.c = b.Build("CP")
	conn.PlugIn(w.c.ToDriver)
	conn.PlugIn(w.c.ToCUs)
	out.CUTr = make([][]CUEntry, ncu)
	return w
}

func (w *emuWorld) canonIDs(ids []string) []uint64 {
	o := make([]uint64, len(ids))
	for i, id := range ids {
		if n, ok := w.mapID[id]; ok {
			o[i] = n
		} else {
			o[i] = 999999
		}
	}
	return o
}

func (w *emuWorld) cuEntry(i int, e CUEntry) {
	if m := w.cus[i].ToDispatcher.PeekOutgoing(); m != nil {
		e.HasH = true
		e.Head = w.canonIDs(m.(*protocol.WGCompletionMsg).RspTo)
	}
	w.out.CUTr[i] = append(w.out.CUTr[i], e)
}

func (w *emuWorld) apply(a EmuAction) (crashed bool) {
	defer func() {
		if x := recover(); x != nil {
			w.out.Trace = append(w.out.Trace, EmuObs{E: "crash"})
			crashed = true
		}
	}()
	switch a.A {
	case "launch":
		co := &insts.KernelCodeObject{KernelCodeObjectMeta: &insts.KernelCodeObjectMeta{WFSgprCount: 16, WIVgprCount: 8}}
		p := &kernels.HsaKernelDispatchPacket{WorkgroupSizeX: 64, WorkgroupSizeY: 1, WorkgroupSizeZ: 1,
			GridSizeX: uint32(64 * a.N), GridSizeY: 1, GridSizeZ: 1}
		req := &protocol.LaunchKernelReq{CodeObject: co, Packet: p, PID: 1}
		req.ID = sim.GetIDGenerator().Generate()
		req.Src = "Driver"
		req.Dst = w.c.ToDriver.AsRemote()
		if w.c.ToDriver.Deliver(req) == nil {
			w.nLaunch++
			w.launchOf[p] = w.nLaunch
			w.launchID[req.ID] = w.nLaunch
			w.out.Trace = append(w.out.Trace, EmuObs{E: "launch", Launch: w.nLaunch, NWG: a.N})
		}
	case "step":
		evt := w.engine.next()
		if evt == nil {
			break
		}
		cuIdx := -1
		for i, cu := range w.cus {
			if evt.Handler() == sim.Handler(cu) || evt.Handler() == sim.Handler(cu.TickingComponent) {
				cuIdx = i
			}
		}
		var entry CUEntry
		if cuIdx >= 0 {
			switch x := evt.(type) {
			case sim.TickEvent:
				entry = CUEntry{E: "tick"}
			case *emu.WGCompleteEvent:
				entry = CUEntry{E: "handle", ID: w.mapID[x.Req.ID]}
			default:
				entry = CUEntry{E: "emu"}
			}
		}
		evt.Handler().Handle(evt)
		if cuIdx >= 0 {
			w.cuEntry(cuIdx, entry)
		}
	case "netmap":
		m := w.c.ToCUs.PeekOutgoing()
		if m == nil {
			break
		}
		q := m.(*protocol.MapWGReq)
		if _, ok := w.mapID[q.ID]; !ok {
			w.mapID[q.ID] = idBase + uint64(len(w.mapID))
		}
		i := w.cuOf[q.Dst]
		acc := w.cus[i].ToDispatcher.Deliver(m) == nil
		if acc {
			w.c.ToCUs.RetrieveOutgoing()
			w.out.Trace = append(w.out.Trace, EmuObs{E: "map", ID: w.mapID[q.ID], CU: i, Launch: w.launchOf[q.WorkGroup.Packet]})
		}
		w.cuEntry(i, CUEntry{E: "deliver", ID: w.mapID[q.ID], Acc: acc})
	case "netcomp":
		i := a.N % len(w.cus)
		m := w.cus[i].ToDispatcher.PeekOutgoing()
		if m == nil {
			w.cuEntry(i, CUEntry{E: "retr", None: true})
			break
		}
		if w.c.ToCUs.Deliver(m) != nil {
			break
		}
		w.cus[i].ToDispatcher.RetrieveOutgoing()
		ids := w.canonIDs(m.(*protocol.WGCompletionMsg).RspTo)
		w.out.Trace = append(w.out.Trace, EmuObs{E: "comp", CU: i, IDs: ids})
		w.cuEntry(i, CUEntry{E: "retr", Msg: ids})
	case "rdrv":
		m := w.c.ToDriver.RetrieveOutgoing()
		if m == nil {
			break
		}
		if q, ok := m.(*protocol.LaunchKernelRsp); ok {
			w.out.Trace = append(w.out.Trace, EmuObs{E: "rsp", Launch: w.launchID[q.RspTo]})
		}
	}
	return false
}

func genEmu(rng *vh.Rng) Case {
	c := Case{Mode: "emu", NCU: 1 + rng.Intn(2)}
	w := newEmuWorld(c.NCU, &c)
	nl := 2 + rng.Intn(4)
	n := 150 + rng.Intn(250)
	busy := false // the link from the CUs to the CP is busy: completion messages wait in the CU ports
	for i := 0; i < n; i++ {
		if rng.Intn(12) == 0 {
			busy = !busy
		}
		if i > n*3/4 {
			busy = false
		}
		wl := 0
		if nl > 0 {
			wl = 2
		}
		wc := 6
		if busy {
			wc = 0
		}
		var a EmuAction
		switch rng.Pick(wl, 14, 8, wc, 2) {
		case 0:
			a = EmuAction{A: "launch", N: 1 + rng.Intn(4)}
			nl--
		case 1:
			a = EmuAction{A: "step"}
		case 2:
			a = EmuAction{A: "netmap"}
		case 3:
			a = EmuAction{A: "netcomp", N: rng.Intn(c.NCU)}
		default:
			a = EmuAction{A: "rdrv"}
		}
		c.Actions = append(c.Actions, a)
		if w.apply(a) {
			break
		}
	}
	emuCoq(&c)
	return c
}

func replayEmu(in Case) Case {
	c := Case{Mode: "emu", NCU: in.NCU}
	w := newEmuWorld(c.NCU, &c)
	for _, a := range in.Actions {
		c.Actions = append(c.Actions, a)
		if w.apply(a) {
			break
		}
	}
	emuCoq(&c)
	return c
}

func emuCoq(c *Case) {
	c.CoqCU = nil
	for _, tr := range c.CUTr {
		items := make([]string, len(tr))
		for i, e := range tr {
			var ev, ob string
			switch e.E {
			case "deliver":
				ev, ob = fmt.Sprintf("CDeliver %d", e.ID), "CAcc "+vh.CoqBool(e.Acc)
			case "tick":
				ev, ob = "CTick", "CDone"
			case "emu":
				ev, ob = "CEmu", "CDone"
			case "handle":
				ev, ob = "CHandle", fmt.Sprintf("CHandled (Some %d)", e.ID)
			case "retr":
				ev = "CRetr"
				if e.None {
					ob = "CMsg None"
				} else {
					ob = "CMsg (Some " + vh.CoqNList(e.Msg) + ")"
				}
			}
			h := "None"
			if e.HasH {
				h = "Some " + vh.CoqNList(e.Head)
			}
			items[i] = fmt.Sprintf("(%s, %s, %s)", ev, ob, h)
		}
		c.CoqCU = append(c.CoqCU, "mkECase ["+strings.Join(items, ";\n  ")+"]")
	}
}

// ---------------------------------------------------------------- main

func main() {
	seed := flag.Uint64("seed", 1, "seed")
	n := flag.Int("n", 100, "number of histories")
	mode := flag.String("mode", "res", "res | cp | emu")
	hostileEvery := flag.Int("hostile-every", 6, "every k-th history uses the hostile stream")
	out := flag.String("out", "", "output JSON file")
	rep := flag.String("replay", "", "JSON file with cases to replay")
	flag.Parse()

	var cases []Case
	if *rep != "" {
		data, err := os.ReadFile(*rep)
		if err != nil {
			panic(err)
		}
		var in []Case
		if err := json.Unmarshal(data, &in); err != nil {
			panic(err)
		}
		for _, c := range in {
			switch c.Mode {
			case "cp":
				cases = append(cases, replayCP(c))
			case "emu":
				cases = append(cases, replayEmu(c))
			default:
				cases = append(cases, replayRes(c))
			}
		}
	} else {
		rng := vh.NewRng(*seed)
		for i := 0; i < *n; i++ {
			h := *hostileEvery > 0 && i%*hostileEvery == *hostileEvery-1
			switch *mode {
			case "cp":
				cases = append(cases, genCP(rng.Fork(), h))
			case "emu":
				cases = append(cases, genEmu(rng.Fork()))
			default:
				cases = append(cases, genRes(rng.Fork(), h))
			}
		}
	}
	data, _ := json.Marshal(cases)
	if *out == "" {
		os.Stdout.Write(data)
	} else if err := os.WriteFile(*out, data, 0o644); err != nil {
		panic(err)
	}
}
