package vh

import (
	"fmt"
	"strings"
)

// Coq literal helpers (everything is emitted in N_scope).

func CoqBool(b bool) string {
	if b {
		return "true"
	}
	return "false"
}

func CoqN(x uint64) string { return fmt.Sprintf("%d", x) }

func CoqList(items []string) string { return "[" + strings.Join(items, "; ") + "]" }

func CoqNList(xs []uint64) string {
	s := make([]string, len(xs))
	for i, x := range xs {
		s[i] = CoqN(x)
	}
	return CoqList(s)
}

func CoqBytes(xs []byte) string {
	s := make([]string, len(xs))
	for i, x := range xs {
		s[i] = fmt.Sprintf("%d", x)
	}
	return CoqList(s)
}

func CoqBools(xs []bool) string {
	s := make([]string, len(xs))
	for i, x := range xs {
		s[i] = CoqBool(x)
	}
	return CoqList(s)
}

// CoqNat emits a nat literal (small values only).
func CoqNat(x int) string { return fmt.Sprintf("%d%%nat", x) }
