package vh

import (
	"fmt"

	"github.com/sarchlab/akita/v4/mem/mem"
	"github.com/sarchlab/akita/v4/sim"
)

// Msg mirrors the Coq record VLib.Akita.msg.
type Msg struct {
	ID    uint64 `json:"id"`
	Kind  string `json:"kind"` // KRead KWrite KDataReady KWriteDone KCtrl KOther
	Src   uint64 `json:"src"`
	Dst   uint64 `json:"dst"`
	RspTo uint64 `json:"rspto"`
	Addr  uint64 `json:"addr"`
	Size  uint64 `json:"size"`
	PID   uint64 `json:"pid"`
	Data  []byte `json:"-"`
	DataI []int  `json:"data"`
	Mask  []bool `json:"mask"`
	Flags uint64 `json:"flags"`
}

// Fix fills the JSON view of the payload.
func (m *Msg) Fix() {
	m.DataI = make([]int, len(m.Data))
	for i, b := range m.Data {
		m.DataI[i] = int(b)
	}
	if m.Mask == nil {
		m.Mask = []bool{}
	}
}

func (m Msg) Coq() string {
	return fmt.Sprintf("(mkMsg %d %s %d %d %d %d %d %d %s %s %d)",
		m.ID, m.Kind, m.Src, m.Dst, m.RspTo, m.Addr, m.Size, m.PID,
		CoqBytes(m.Data), CoqBools(m.Mask), m.Flags)
}

// Canon renumbers Go string identifiers and port names.
type Canon struct {
	ids   map[string]uint64
	ports map[sim.RemotePort]uint64
}

func NewCanon() *Canon {
	return &Canon{ids: map[string]uint64{}, ports: map[sim.RemotePort]uint64{}}
}

func (c *Canon) SetID(goID string, n uint64)          { c.ids[goID] = n }
func (c *Canon) SetPort(p sim.RemotePort, n uint64)   { c.ports[p] = n }
func (c *Canon) ID(goID string) uint64 {
	if goID == "" {
		return 0
	}
	if n, ok := c.ids[goID]; ok {
		return n
	}
	return 999999999 // unknown identifier
}
func (c *Canon) Port(p sim.RemotePort) uint64 {
	if n, ok := c.ports[p]; ok {
		return n
	}
	return 999999
}

// Control-flag bits as in VLib.Akita.
const (
	FDiscard    = 1
	FRestart    = 2
	FNotifyDone = 4
	FEnable     = 8
	FDrain      = 16
	FFlush      = 32
	FPause      = 64
	FInvalid    = 128
)

// FromSim converts a memory-protocol message. idOf decides the canonical
// value of the message's own ID (responses built by a component get 0).
func (c *Canon) FromSim(m sim.Msg, ownID uint64) Msg {
	out := Msg{ID: ownID, Src: c.Port(m.Meta().Src), Dst: c.Port(m.Meta().Dst), Kind: "KOther"}
	switch x := m.(type) {
	case *mem.ReadReq:
		out.Kind = "KRead"
		out.Addr = x.Address
		out.Size = x.AccessByteSize
		out.PID = uint64(x.PID)
	case *mem.WriteReq:
		out.Kind = "KWrite"
		out.Addr = x.Address
		out.PID = uint64(x.PID)
		out.Data = append([]byte{}, x.Data...)
		out.Mask = append([]bool{}, x.DirtyMask...)
	case *mem.DataReadyRsp:
		out.Kind = "KDataReady"
		out.RspTo = c.ID(x.RespondTo)
		out.Data = append([]byte{}, x.Data...)
	case *mem.WriteDoneRsp:
		out.Kind = "KWriteDone"
		out.RspTo = c.ID(x.RespondTo)
	case *mem.ControlMsg:
		out.Kind = "KCtrl"
		out.Flags = CtrlFlags(x)
	}
	out.Fix()
	return out
}

func CtrlFlags(x *mem.ControlMsg) uint64 {
	var f uint64
	set := func(b bool, v uint64) {
		if b {
			f |= v
		}
	}
	set(x.DiscardTransations, FDiscard)
	set(x.Restart, FRestart)
	set(x.NotifyDone, FNotifyDone)
	set(x.Enable, FEnable)
	set(x.Drain, FDrain)
	set(x.Flush, FFlush)
	set(x.Pause, FPause)
	set(x.Invalid, FInvalid)
	return f
}
