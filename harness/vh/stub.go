package vh

import "github.com/sarchlab/akita/v4/sim"

// StubConn is a sim.Connection that does nothing: the harness plays the
// connection itself by calling Deliver / RetrieveOutgoing on the ports.
type StubConn struct {
	sim.HookableBase
}

func (c *StubConn) Name() string                  { return "StubConn" }
func (c *StubConn) PlugIn(port sim.Port)          { port.SetConnection(c) }
func (c *StubConn) Unplug(port sim.Port)          {}
func (c *StubConn) NotifyAvailable(port sim.Port) {}
func (c *StubConn) NotifySend()                   {}
