// Package vh holds the pieces shared by all correspondence harnesses.
package vh

// Rng is a splitmix64 generator: every random choice of a harness run is
// derived from one seed so that a disagreement replays exactly.
type Rng struct{ s uint64 }

func NewRng(seed uint64) *Rng { return &Rng{s: seed} }

func (r *Rng) U64() uint64 {
	r.s += 0x9e3779b97f4a7c15
	z := r.s
	z = (z ^ (z >> 30)) * 0xbf58476d1ce4e5b9
	z = (z ^ (z >> 27)) * 0x94d049bb133111eb
	return z ^ (z >> 31)
}

// Intn returns a value in [0,n).
func (r *Rng) Intn(n int) int {
	if n <= 0 {
		return 0
	}
	return int(r.U64() % uint64(n))
}

func (r *Rng) Bool() bool { return r.U64()&1 == 1 }

// Pick returns the index chosen according to integer weights.
func (r *Rng) Pick(weights ...int) int {
	t := 0
	for _, w := range weights {
		t += w
	}
	x := r.Intn(t)
	for i, w := range weights {
		if x < w {
			return i
		}
		x -= w
	}
	return len(weights) - 1
}

// Fork derives an independent generator (one per case).
func (r *Rng) Fork() *Rng { return NewRng(r.U64()) }
