module verifharness

go 1.25
