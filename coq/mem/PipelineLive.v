(** Progress facts about the akita pipeline model: shape invariant, a weight
    (remaining work) that Tick never increases and strictly decreases whenever
    it reports progress, and the conditions under which it must report
    progress. *)
From Coq Require Import List Arith Bool Permutation Lia.
Import ListNotations.
From VMem Require Import Pipeline PipelineProofs.

Section PipelineLive.
Context {A : Type}.
Implicit Types (l : list (slot A)) (buf : list A).

Definition b2n (b : bool) : nat := if b then 1 else 0.

Lemma list_eq_nil_dec {B} (l : list B) : {l = []} + {l <> []}.
Proof. destruct l; [left|right]; congruence. Qed.

(** ** Shape *)
Definition slot_ok (cps : nat) (s : slot A) : Prop :=
  match s with Some (_, cl) => cl < cps | None => True end.

Record pipe_wf (p : pipe A) : Prop := {
  pw_width : length (p_lanes p) = p_width p;
  pw_stage : Forall (fun l => length l = p_nstage p) (p_lanes p);
  pw_slots : Forall (Forall (slot_ok (p_cps p))) (p_lanes p)
}.

Lemma pipe_clear_wf w n c : pipe_wf (@pipe_clear A w n c).
Proof.
  constructor; cbn.
  - apply repeat_length.
  - apply Forall_forall. intros l Hl. apply repeat_spec in Hl. subst. apply repeat_length.
  - apply Forall_forall. intros l Hl. apply repeat_spec in Hl. subst.
    apply Forall_forall. intros s Hs. apply repeat_spec in Hs. subst. exact I.
Qed.

(** ** Weight: an element with [cl] cycles left and [k] stages behind it still
    needs [cl + k*cps + 1] ticks to reach the post-pipeline buffer, where it
    weighs 1. *)
Definition slot_w (cps k : nat) (s : slot A) : nat :=
  match s with None => 0 | Some (_, cl) => cl + k * cps + 2 end.

Fixpoint lane_w (cps : nat) (l : list (slot A)) : nat :=
  match l with
  | [] => 0
  | s :: rest => slot_w cps (length rest) s + lane_w cps rest
  end.

Fixpoint lanes_w (cps : nat) (ls : list (list (slot A))) : nat :=
  match ls with [] => 0 | l :: r => lane_w cps l + lanes_w cps r end.

Definition pipe_w (p : pipe A) : nat := lanes_w (p_cps p) (p_lanes p).

(** weight of an element just accepted *)
Definition entry_w (p : pipe A) : nat := p_cps p * p_nstage p + 1.

(** ** One lane *)
Lemma tick_lane_length cps cap : forall l buf l' buf' p,
  tick_lane cps cap l buf = (l', buf', p) -> length l' = length l.
Proof.
  induction l as [|s rest IH]; intros buf l' buf' p H; cbn [tick_lane] in H.
  - inversion H; auto.
  - destruct (tick_lane cps cap rest buf) as [[r1 b1] p1] eqn:E. specialize (IH _ _ _ _ E).
    destruct s as [[e [|c]]|].
    + destruct r1 as [|[x|] r2].
      * destruct (buf_can_push cap b1); inversion H; subst; cbn in *; lia.
      * inversion H; subst; cbn in *; lia.
      * inversion H; subst; cbn in *; lia.
    + inversion H; subst; cbn; lia.
    + inversion H; subst; cbn; lia.
Qed.

Lemma tick_lane_w cps cap : 1 <= cps -> forall l buf l' buf' p,
  tick_lane cps cap l buf = (l', buf', p) ->
  lane_w cps l' + length buf' + b2n p <= lane_w cps l + length buf.
Proof.
  intros Hc. induction l as [|s rest IH]; intros buf l' buf' p H; cbn [tick_lane] in H.
  - inversion H; subst; cbn; lia.
  - destruct (tick_lane cps cap rest buf) as [[r1 b1] p1] eqn:E.
    pose proof (tick_lane_length _ _ _ _ _ _ _ E) as HL. specialize (IH _ _ _ _ E).
    destruct s as [[e [|c]]|].
    + destruct r1 as [|[x|] r2].
      * destruct rest; [|discriminate].
        destruct (buf_can_push cap b1); inversion H; subst; cbn in *; rewrite ?app_length; cbn; lia.
      * inversion H; subst. cbn [lane_w slot_w] in *. rewrite HL. lia.
      * inversion H; subst. cbn [lane_w slot_w length b2n] in *. rewrite <- HL. cbn [length].
        destruct cps as [|cps']; [lia|]. cbn [Nat.sub]. rewrite Nat.sub_0_r.
        replace (S (length r2) * S cps') with (S cps' + length r2 * S cps') by (cbn; lia). lia.
    + inversion H; subst. cbn [lane_w slot_w b2n] in *. rewrite HL. lia.
    + inversion H; subst. cbn [lane_w slot_w] in *. lia.
Qed.

Lemma tick_lane_ok cps cap : forall l buf l' buf' p,
  tick_lane cps cap l buf = (l', buf', p) ->
  Forall (slot_ok cps) l -> Forall (slot_ok cps) l'.
Proof.
  induction l as [|s rest IH]; intros buf l' buf' p H Hs; cbn [tick_lane] in H.
  - inversion H; auto.
  - destruct (tick_lane cps cap rest buf) as [[r1 b1] p1] eqn:E.
    inversion Hs as [|? ? Hs1 Hs2]; subst. specialize (IH _ _ _ _ E Hs2).
    destruct s as [[e [|c]]|].
    + destruct r1 as [|[x|] r2].
      * destruct (buf_can_push cap b1); inversion H; subst; repeat constructor; auto.
      * inversion H; subst. constructor; auto.
      * inversion H; subst. inversion IH; subst. constructor; [exact I|]. constructor; auto.
        cbn in *. lia.
    + inversion H; subst. constructor; auto. cbn in *. lia.
    + inversion H; subst. constructor; auto.
Qed.

(** an empty lane does nothing *)
Lemma tick_lane_empty cps cap : forall l buf,
  lane_items l = [] -> tick_lane cps cap l buf = (l, buf, false).
Proof.
  induction l as [|s rest IH]; intros buf H; cbn [tick_lane]; auto.
  destruct s as [[e c]|]; [discriminate|]. cbn in H. rewrite IH; auto.
Qed.

(** a lane that holds something moves if the buffer has room *)
Lemma tick_lane_progress cps cap : forall l buf l' buf' p,
  tick_lane cps cap l buf = (l', buf', p) ->
  lane_items l <> [] -> buf_can_push cap buf = true -> p = true.
Proof.
  induction l as [|s rest IH]; intros buf l' buf' p H Hne Hc; cbn [tick_lane] in H; [cbn in Hne; congruence|].
  destruct (tick_lane cps cap rest buf) as [[r1 b1] p1] eqn:E.
  destruct (list_eq_nil_dec (lane_items rest)) as [He|He].
  - rewrite tick_lane_empty in E by auto. inversion E; subst r1 b1 p1.
    destruct s as [[e [|c]]|]; [| inversion H; auto | exfalso; apply Hne; exact He].
    destruct rest as [|[x|] r2]; [| destruct x; discriminate |].
    + rewrite Hc in H. inversion H; auto.
    + inversion H; auto.
  - assert (p1 = true) by (eapply IH; eauto). subst p1.
    destruct s as [[e [|c]]|]; [| inversion H; auto | inversion H; auto].
    destruct r1 as [|[x|] r2].
    + apply tick_lane_length in E. destruct rest; [cbn in He; congruence|discriminate].
    + inversion H; auto.
    + inversion H; auto.
Qed.

(** ** All lanes *)
Lemma tick_lanes_w cps cap : 1 <= cps -> forall ls buf ls' buf' p,
  tick_lanes cps cap ls buf = (ls', buf', p) ->
  lanes_w cps ls' + length buf' + b2n p <= lanes_w cps ls + length buf.
Proof.
  intros Hc. induction ls as [|l r IH]; intros buf ls' buf' p H; cbn [tick_lanes] in H.
  - inversion H; subst; cbn; lia.
  - destruct (tick_lane cps cap l buf) as [[l1 b1] p1] eqn:E1.
    destruct (tick_lanes cps cap r b1) as [[r1 b2] p2] eqn:E2. inversion H; subst.
    apply (tick_lane_w _ _ Hc) in E1. apply IH in E2. cbn [lanes_w].
    destruct p1, p2; cbn in *; lia.
Qed.

Lemma tick_lanes_shape cps cap n : forall ls buf ls' buf' p,
  tick_lanes cps cap ls buf = (ls', buf', p) ->
  Forall (fun l => length l = n) ls -> Forall (Forall (slot_ok cps)) ls ->
  length ls' = length ls /\ Forall (fun l => length l = n) ls' /\ Forall (Forall (slot_ok cps)) ls'.
Proof.
  induction ls as [|l r IH]; intros buf ls' buf' p H H1 H2; cbn [tick_lanes] in H.
  - inversion H; subst; auto.
  - destruct (tick_lane cps cap l buf) as [[l1 b1] p1] eqn:E1.
    destruct (tick_lanes cps cap r b1) as [[r1 b2] p2] eqn:E2. inversion H; subst.
    inversion H1; subst. inversion H2; subst.
    destruct (IH _ _ _ _ E2) as (A1 & A2 & A3); auto.
    pose proof (tick_lane_length _ _ _ _ _ _ _ E1). pose proof (tick_lane_ok _ _ _ _ _ _ _ E1).
    repeat split; cbn; auto; constructor; auto; congruence.
Qed.

Lemma tick_lanes_progress cps cap : forall ls buf ls' buf' p,
  tick_lanes cps cap ls buf = (ls', buf', p) ->
  flat_map lane_items ls <> [] -> buf_can_push cap buf = true -> p = true.
Proof.
  induction ls as [|l r IH]; intros buf ls' buf' p H Hne Hc; cbn [tick_lanes] in H; [cbn in Hne; congruence|].
  destruct (tick_lane cps cap l buf) as [[l1 b1] p1] eqn:E1.
  destruct (tick_lanes cps cap r b1) as [[r1 b2] p2] eqn:E2. inversion H; subst.
  destruct (list_eq_nil_dec (lane_items l)) as [He|He].
  - rewrite tick_lane_empty in E1 by auto. inversion E1; subst.
    cbn in Hne. rewrite He in Hne. cbn in Hne. rewrite (IH _ _ _ _ E2); auto.
  - rewrite (tick_lane_progress _ _ _ _ _ _ _ E1); auto.
Qed.

(** ** Tick *)
Lemma pipe_tick_fields cap (p : pipe A) buf p' buf' pr :
  pipe_tick cap p buf = (p', buf', pr) ->
  p_width p' = p_width p /\ p_nstage p' = p_nstage p /\ p_cps p' = p_cps p.
Proof.
  unfold pipe_tick. destruct (tick_lanes _ _ _ _) as [[ls b] q]. intros H; inversion H; subst; auto.
Qed.

Lemma pipe_tick_wf cap (p : pipe A) buf p' buf' pr :
  pipe_tick cap p buf = (p', buf', pr) -> pipe_wf p -> pipe_wf p'.
Proof.
  unfold pipe_tick. destruct (tick_lanes _ _ _ _) as [[ls b] q] eqn:E. intros H [W1 W2 W3]; inversion H; subst.
  destruct (tick_lanes_shape _ _ _ _ _ _ _ _ E W2 W3) as (A1 & A2 & A3).
  constructor; cbn; auto. congruence.
Qed.

Lemma pipe_tick_w cap (p : pipe A) buf p' buf' pr :
  pipe_tick cap p buf = (p', buf', pr) -> 1 <= p_cps p ->
  pipe_w p' + length buf' + b2n pr <= pipe_w p + length buf.
Proof.
  unfold pipe_tick, pipe_w. destruct (tick_lanes _ _ _ _) as [[ls b] q] eqn:E. intros H Hc; inversion H; subst.
  cbn. eapply tick_lanes_w; eauto.
Qed.

Lemma pipe_tick_progress cap (p : pipe A) buf p' buf' pr :
  pipe_tick cap p buf = (p', buf', pr) ->
  pipe_items p <> [] -> buf_can_push cap buf = true -> pr = true.
Proof.
  unfold pipe_tick, pipe_items. destruct (tick_lanes _ _ _ _) as [[ls b] q] eqn:E. intros H; inversion H; subst.
  eapply tick_lanes_progress; eauto.
Qed.

(** ** Accept *)
Lemma accept_lanes_w cps n : 1 <= cps -> forall ls ls' e,
  accept_lanes cps ls e = Some ls' -> Forall (fun l => length l = S n) ls ->
  lanes_w cps ls' = lanes_w cps ls + (cps * S n + 1) /\ length ls' = length ls /\
  Forall (fun l => length l = S n) ls' /\
  (Forall (Forall (slot_ok cps)) ls -> Forall (Forall (slot_ok cps)) ls').
Proof.
  intros Hc. induction ls as [|l r IH]; intros ls' e H HL; cbn [accept_lanes] in H; [discriminate|].
  inversion HL as [|? ? Hl Hr]; subst.
  assert (Hrec : match accept_lanes cps r e with Some r' => Some (l :: r') | None => None end = Some ls' ->
    lanes_w cps ls' = lanes_w cps (l :: r) + (cps * S n + 1) /\ length ls' = length (l :: r) /\
    Forall (fun l => length l = S n) ls' /\
    (Forall (Forall (slot_ok cps)) (l :: r) -> Forall (Forall (slot_ok cps)) ls')).
  { destruct (accept_lanes cps r e) as [r'|] eqn:E; [|discriminate]. intros H'; inversion H'; subst.
    destruct (IH _ _ E Hr) as (A1 & A2 & A3 & A4). cbn [lanes_w length]. repeat split; auto; try lia.
    intros HS; inversion HS; subst; constructor; auto. }
  destruct l as [|[x|] st]; auto.
  inversion H; subst. cbn [lanes_w lane_w slot_w length] in *.
  assert (length st = n) by (cbn in Hl; lia). subst n.
  repeat split; auto.
  - destruct cps as [|c']; [lia|]. cbn [Nat.sub]. rewrite Nat.sub_0_r. lia.
  - intros HS; inversion HS as [|? ? H1 H2]; subst. constructor; auto.
    inversion H1; subst. constructor; auto. cbn. lia.
Qed.

Lemma pipe_accept_w cap (p : pipe A) buf e p' buf' :
  pipe_accept cap p buf e = Some (p', buf') -> pipe_wf p -> 1 <= p_cps p -> 1 <= p_nstage p ->
  pipe_w p' = pipe_w p + entry_w p /\ buf' = buf /\ pipe_wf p' /\
  p_width p' = p_width p /\ p_nstage p' = p_nstage p /\ p_cps p' = p_cps p.
Proof.
  unfold pipe_accept, pipe_w, entry_w. intros H [W1 W2 W3] Hc Hn.
  destruct (p_nstage p) as [|n] eqn:En; [lia|].
  destruct (accept_lanes (p_cps p) (p_lanes p) e) as [ls|] eqn:E; [|discriminate]. inversion H; subst. cbn.
  destruct (accept_lanes_w _ n Hc _ _ _ E W2) as (A1 & A2 & A3 & A4).
  split; [exact A1|]. split; [reflexivity|]. split; [constructor; cbn; auto; congruence|]. auto.
Qed.

(** an empty well-formed pipeline accepts *)
Lemma pipe_empty_can_accept cap (p : pipe A) buf :
  pipe_wf p -> 1 <= p_width p -> 1 <= p_nstage p -> pipe_items p = [] -> pipe_can_accept cap p buf = true.
Proof.
  intros [W1 W2 W3] Hw Hn He. unfold pipe_can_accept. destruct (p_nstage p) as [|n]; [lia|].
  unfold pipe_items in He. destruct (p_lanes p) as [|l r]; [cbn in W1; lia|].
  inversion W2; subst. cbn in He. apply app_eq_nil in He. destruct He as [He _].
  destruct l as [|[[x c]|] st]; cbn in *; try discriminate; auto.
Qed.

End PipelineLive.
