(** Sleep safety of the DRAM model: the event engine stops ticking a component
    whose Tick reports no progress; that is only safe if such a tick changed
    nothing.  Proved stage by stage for the repaired code ([c_early = true]):
    every part of Tick that reports no progress returns its input unchanged.
    (tickDelayQueues goes the other way once in a while: it reports progress
    whenever a delay queue is non-empty, even in a cycle in which all its items
    are blocked - harmless, the component is merely ticked again.) *)
From Coq Require Import Arith Lia.
From VLib Require Import Akita.
From VMem Require Import Pipeline Dram.
From RecordUpdate Require Import RecordSet.
Import RecordSetNotations.
Open Scope N_scope.

Arguments can_push : simpl never.

(** ** The pipeline *)
Lemma tick_lane_quiet {A} cps cap : forall (l : list (slot A)) buf l' buf',
  tick_lane cps cap l buf = (l', buf', false) -> l' = l /\ buf' = buf.
Proof.
  induction l as [|s rest IH]; intros buf l' buf' H; cbn [tick_lane] in H.
  - inversion H; auto.
  - destruct (tick_lane cps cap rest buf) as [[r1 b1] p1] eqn:E.
    destruct s as [[e [|c]]|].
    + destruct r1 as [|[x|] r2].
      * destruct (buf_can_push cap b1); inversion H; subst.
        destruct (IH _ _ _ E) as [<- <-]. auto.
      * inversion H; subst. destruct (IH _ _ _ E) as [<- <-]. auto.
      * inversion H.
    + inversion H.
    + inversion H; subst. destruct (IH _ _ _ E) as [<- <-]. auto.
Qed.

Lemma tick_lanes_quiet {A} cps cap : forall (ls : list (list (slot A))) buf ls' buf',
  tick_lanes cps cap ls buf = (ls', buf', false) -> ls' = ls /\ buf' = buf.
Proof.
  induction ls as [|l r IH]; intros buf ls' buf' H; cbn [tick_lanes] in H.
  - inversion H; auto.
  - destruct (tick_lane cps cap l buf) as [[l1 b1] p1] eqn:E1.
    destruct (tick_lanes cps cap r b1) as [[r1 b2] p2] eqn:E2.
    inversion H; subst. apply orb_false_iff in H3. destruct H3 as [-> ->].
    destruct (tick_lane_quiet _ _ _ _ _ _ E1) as [-> ->].
    destruct (IH _ _ _ E2) as [-> ->]. auto.
Qed.

Lemma pipe_tick_quiet {A} cap (p : pipe A) buf p' buf' :
  pipe_tick cap p buf = (p', buf', false) -> p' = p /\ buf' = buf.
Proof.
  unfold pipe_tick. destruct (tick_lanes (p_cps p) cap (p_lanes p) buf) as [[ls b] q] eqn:E.
  intros H; inversion H; subst. destruct (tick_lanes_quiet _ _ _ _ _ _ E) as [-> ->].
  destruct p; auto.
Qed.

(** ** record eta *)
Lemma bank_eta b : b <| b_pipe := b_pipe b |> <| b_post := b_post b |> = b.
Proof. destruct b; reflexivity. Qed.

Lemma dram_eta_banks s : s <| banks := banks s |> = s.
Proof. destruct s; reflexivity. Qed.

(** ** finalizeBanks *)
Lemma fin_single_quiet s b s' b' :
  c_early (cf s) = true -> fin_single s b = Some (s', b', false) -> s' = s /\ b' = b.
Proof.
  unfold fin_single, late_commit, fin_send. intros He H. rewrite He in H. cbn [orb] in H.
  destruct (b_post b) as [|it rest] eqn:Ep; [inversion H; auto|].
  destruct (is_access (i_req it)); [|discriminate].
  destruct (negb (can_push (c_topcap (cf s)) (top_out s))).
  - inversion H; subst. split; [destruct s; reflexivity|]. destruct b; cbn in *; subst; reflexivity.
  - destruct ((m_src (i_req it) =? 0) || (m_src (i_req it) =? P_TOP)); inversion H.
Qed.

Lemma fin_bank_quiet fuel s b s' b' :
  c_early (cf s) = true -> fin_bank fuel s b = Some (s', b', false) -> s' = s /\ b' = b.
Proof.
  intros He H. destruct fuel as [|fuel]; cbn [fin_bank] in H; [inversion H; auto|].
  destruct (fin_single s b) as [[[s1 b1] p1]|] eqn:E1; [|discriminate].
  destruct p1.
  - destruct (fin_bank fuel s1 b1) as [[[s2 b2] p2]|]; inversion H.
  - inversion H; subst. eapply fin_single_quiet; eauto.
Qed.

Lemma fin_banks_quiet : forall bs s s' bs',
  c_early (cf s) = true -> fin_banks s bs = Some (s', bs', false) -> s' = s /\ bs' = bs.
Proof.
  induction bs as [|b r IH]; intros s s' bs' He H; cbn [fin_banks] in H; [inversion H; auto|].
  destruct (fin_bank (S (length (b_post b))) s b) as [[[s1 b1] p1]|] eqn:E1; [|discriminate].
  destruct (fin_banks s1 r) as [[[s2 r'] p2]|] eqn:E2; [|discriminate].
  inversion H; subst. apply orb_false_iff in H3. destruct H3 as [-> ->].
  destruct (fin_bank_quiet _ _ _ _ _ He E1) as [-> ->].
  destruct (IH _ _ _ He E2) as [-> ->]. auto.
Qed.

Lemma finalize_banks_quiet s s' :
  c_early (cf s) = true -> finalize_banks s = Some (s', false) -> s' = s.
Proof.
  unfold finalize_banks. intros He H.
  destruct (fin_banks s (banks s)) as [[[s1 bs] p]|] eqn:E; [|discriminate]. inversion H; subst.
  destruct (fin_banks_quiet _ _ _ _ He E) as [-> ->]. apply dram_eta_banks.
Qed.

(** ** tickPipelines *)
Lemma tick_pipes_quiet c : forall bs bs', tick_pipes c bs = (bs', false) -> bs' = bs.
Proof.
  induction bs as [|b r IH]; intros bs' H; cbn [tick_pipes] in H; [inversion H; auto|].
  unfold tick_pipe_bank in H.
  destruct (pipe_tick (c_postcap c) (b_pipe b) (b_post b)) as [[pp buf] pr] eqn:E.
  destruct (tick_pipes c r) as [r' p2] eqn:E2. inversion H; subst.
  apply orb_false_iff in H2. destruct H2 as [-> ->].
  destruct (pipe_tick_quiet _ _ _ _ _ E) as [-> ->]. rewrite bank_eta. f_equal. apply IH; auto.
Qed.

Lemma tick_pipelines_quiet s s' : tick_pipelines s = (s', false) -> s' = s.
Proof.
  unfold tick_pipelines. destruct (tick_pipes (cf s) (banks s)) as [bs p] eqn:E.
  intros H; inversion H; subst. rewrite (tick_pipes_quiet _ _ _ E). apply dram_eta_banks.
Qed.

(** ** tickDelayQueues: no progress = all delay queues empty *)
Lemma tick_delays_quiet c : forall bs bs', tick_delays c bs = Some (bs', false) -> bs' = bs.
Proof.
  induction bs as [|b r IH]; intros bs' H; cbn [tick_delays] in H; [inversion H; auto|].
  destruct (tick_delay_bank c b) as [[b1 p1]|] eqn:E1; [|discriminate].
  destruct (tick_delays c r) as [[r1 p2]|] eqn:E2; [|discriminate].
  inversion H; subst. apply orb_false_iff in H2. destruct H2 as [-> ->].
  unfold tick_delay_bank in E1. destruct (b_delayq b).
  - inversion E1; subst. f_equal. apply IH; auto.
  - destruct (delay_loop _ _ _ _) as [[[pp buf] rem]|]; inversion E1.
Qed.

Lemma tick_delay_queues_quiet s s' : tick_delay_queues s = Some (s', false) -> s' = s.
Proof.
  unfold tick_delay_queues. destruct (tick_delays (cf s) (banks s)) as [[bs p]|] eqn:E; [|discriminate].
  intros H; inversion H; subst. rewrite (tick_delays_quiet _ _ _ E). apply dram_eta_banks.
Qed.

(** ** dispatchPending: no progress = every pending request found its pipeline full *)
Lemma dispatch_one_quiet c bs it bs' : dispatch_one c bs it = Some (bs', false) -> bs' = bs.
Proof.
  unfold dispatch_one. intros H.
  destruct (bank_addr c (i_req it)) as [addr|]; [|discriminate].
  destruct (select c addr (length bs)) as [id|]; [|discriminate].
  destruct (nth_error bs id) as [b|]; [|discriminate].
  repeat match type of H with
         | context [if ?x then _ else _] => destruct x
         | context [match ?x with Some _ => _ | None => _ end] => destruct x as [[? ?]|]
         end; inversion H; auto.
Qed.

Lemma dispatch_loop_quiet c : forall l bs bs' rem,
  dispatch_loop c bs l = Some (bs', rem, false) -> bs' = bs /\ rem = l.
Proof.
  induction l as [|it r IH]; intros bs bs' rem H; cbn [dispatch_loop] in H; [inversion H; auto|].
  destruct (dispatch_one c bs it) as [[bs1 gone]|] eqn:E1; [|discriminate].
  destruct (dispatch_loop c bs1 r) as [[[bs2 rem2] p2]|] eqn:E2; [|discriminate].
  inversion H; subst. apply orb_false_iff in H3. destruct H3 as [-> ->].
  rewrite (dispatch_one_quiet _ _ _ _ E1) in *. destruct (IH _ _ _ E2) as [-> ->]. auto.
Qed.

Lemma dispatch_pending_quiet s s' : dispatch_pending s = Some (s', false) -> s' = s.
Proof.
  unfold dispatch_pending.
  destruct (dispatch_loop (cf s) (banks s) (pending s)) as [[[bs rem] p]|] eqn:E; [|discriminate].
  intros H; inversion H; subst. destruct (dispatch_loop_quiet _ _ _ _ _ E) as [-> ->].
  destruct s; reflexivity.
Qed.

(** ** drainTopPort: no progress = nothing in the port *)
Lemma drain_top_quiet s s' : drain_top s = Some (s', false) -> s' = s.
Proof.
  unfold drain_top. destruct (top_in s) eqn:Ei.
  - cbn [drain_msgs]. intros H; inversion H; subst. destruct s; cbn in *; subst; reflexivity.
  - destruct (drain_msgs _ _); intros H; inversion H.
Qed.

(** ** The whole Tick *)
Lemma tick_quiet s s' :
  c_early (cf s) = true -> tick s = Some (s', false) -> s' = s.
Proof.
  unfold tick. intros He H.
  destruct (finalize_banks s) as [[s1 p1]|] eqn:E1; [|discriminate].
  destruct (tick_pipelines s1) as [s2 p2] eqn:E2.
  destruct (tick_delay_queues s2) as [[s3 p3]|] eqn:E3; [|discriminate].
  destruct (dispatch_pending s3) as [[s4 p4]|] eqn:E4; [|discriminate].
  destruct (drain_top s4) as [[s5 p5]|] eqn:E5; [|discriminate].
  inversion H; subst.
  repeat match goal with H : _ || _ = false |- _ => apply orb_false_iff in H; destruct H end. subst.
  apply finalize_banks_quiet in E1; auto. subst s1.
  apply tick_pipelines_quiet in E2. subst s2.
  apply tick_delay_queues_quiet in E3. subst s3.
  apply dispatch_pending_quiet in E4. subst s4.
  apply drain_top_quiet in E5. exact E5.
Qed.

(** Observable form: after a tick that reported no progress, further ticks
    (nothing delivered or retrieved in between) report no progress either and
    never crash. *)
Lemma quiet_stays_quiet s :
  c_early (cf s) = true -> crashed s = false -> snd (step s ETick) = OTick false ->
  forall n, run_obs s (repeat ETick n) = repeat (OTick false) n /\ run s (repeat ETick n) = s.
Proof.
  intros He Hc H n. unfold step in H. rewrite Hc in H.
  destruct (tick s) as [[s' p]|] eqn:E; cbn in H; [|discriminate]. inversion H; subst p.
  pose proof (tick_quiet _ _ He E) as ->.
  induction n as [|n [IH1 IH2]]; [auto|].
  cbn [repeat run_obs]. change (run s (ETick :: repeat ETick n)) with (run (fst (step s ETick)) (repeat ETick n)).
  unfold step. rewrite Hc, E. cbn [fst]. rewrite IH1, IH2. auto.
Qed.

(** The code before the repair was not sleep-safe: finalizeRead/finalizeWrite
    performed the storage access and then returned false when the Top port was
    full.  Witness: a write reaches the post-pipeline buffer while the port is
    full of unretrieved responses; the tick that reports no progress changes the
    storage. *)
Definition sleep_cfg (early : bool) : cfg := mkCfg early 1 1 1 1 4 1 6 0 0 4294967296 None None.
Definition sleep_witness : list ev :=
  let w id a := EDeliver (mkMsg id KWrite 10 P_TOP 0 a 0 0 [7] [] 0) in
  [w 1 0; w 2 64; w 3 128; w 4 192; ETick; ETick; ETick; ETick; ETick; ETick; ETick; ETick; ETick; ETick;
   w 5 256; ETick; ETick; ETick].
Lemma sleep_unsafe_before_repair :
  let s := run (init (sleep_cfg false)) sleep_witness in
  exists s', tick s = Some (s', false) /\ stor s 256 = 0 /\ stor s' 256 = 7.
Proof. vm_compute. eexists. split; [reflexivity|]. split; reflexivity. Qed.
