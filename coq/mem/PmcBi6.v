(** Both directions at once, part 6: the memories, requests and completions. *)
From Coq Require Import Permutation ZifyN ZifyNat ZifyBool.
From VMem Require Import Pmc PmcLemmas PmcProofs PmcBi PmcBi2 PmcBi3 PmcBi4 PmcBi5.
From RecordUpdate Require Import RecordSet.
Import RecordSetNotations.
Open Scope N_scope.

Ltac simp_s := unfold Sc, Pc in *; autorewrite with bis in *.
Ltac toks_same := solve [unfold toks1, toks2, toks3; simp_s; cbn; reflexivity].
Ltac kindsW HK := destruct HK; constructor; simp_s; cbn; unfold KF in *; try assumption.


Arguments chunk : simpl never.
Arguments read : simpl never.
Arguments N.mul : simpl never.

Section Bi6.
Variable cf : names.
Hypothesis Hok : names_okb cf.
Notation R := (nR cf).
Notation C := (nC cf).
Notation L := (nL cf).
Notation M := (nM cf).
Notation s0 := (nS0 cf).
Notation ro := (nRO cf).
Notation OKW w := (okM (R w) (L w) (M w) (R (other w)) (L (other w)) (M (other w)) (s0 (other w))).
Notation TFW w := (TF (R w) (L w) (M w) (R (other w)) (L (other w)) (M (other w)) (s0 (other w))).
Notation INVB := (InvB cf).
Notation INVD := (InvD cf).
Notation T1 := (toks1 cf).
Notation T2 := (toks2 cf).
Notation T3 := (toks3 cf).
Notation FO := (fo cf).
Notation OWN := (own cf).
Notation EXL := (EX cf).
Ltac frame_ev Hd := eapply frameD; [|exact Hd]; unfold SameD; simp_s; cbn.

(** the request a direction is transferring is well formed *)
Lemma cur_wf w s r : INVD w s -> cur_mig (getp w s) = Some r -> wf_reqw cf w r.
Proof.
  intros Hd Ecm. destruct (d_queue _ _ _ Hd) as (wt & _ & Eq). unfold Pc in Eq. rewrite Ecm in Eq.
  pose proof (d_wf _ _ _ Hd) as Hw. rewrite Forall_forall in Hw. apply Hw.
  apply (skipn_incl (ndonew w s)). rewrite Eq. cbn. auto.
Qed.

Lemma nd_frame w s s' : gdone w s' = gdone w s -> ctl_out (getp w s') = ctl_out (getp w s) ->
  to_ctrl (getp w s') = to_ctrl (getp w s) -> gacc w s' = gacc w s ->
  ndonew w s' = ndonew w s /\ completedw w s' = completedw w s /\ basew cf w s' = basew cf w s.
Proof.
  intros E1 E2 E3 E4.
  assert (Hn : ndonew w s' = ndonew w s) by (unfold ndonew, Pc; congruence).
  assert (Hc : completedw w s' = completedw w s) by (unfold completedw; congruence).
  repeat split; auto. unfold basew. congruence.
Qed.

Lemma not_own6 w m : OWN (other w) m = true -> OWN w m = false.
Proof. intros H. rewrite <- (other_other w). apply (own_excl cf Hok). auto. Qed.

(** *** the memory of the puller serves a request *)
Lemma MSp w s k m : INVB s -> nth_error (getmq w s) k = Some m ->
  match mem_serve (getst w s) m with
  | None => False
  | Some (st', rsp) =>
    INVD w (setmr w (getmr w s ++ [rsp]) (setmq w (remove_nth k (getmq w s)) (setst w st' s))) /\
    (OWN PA rsp = true \/ OWN PB rsp = true)
  end.
Proof.
  intros HB E. pose proof (dir cf s w HB) as Hd.
  destruct (cls_nth cf w _ _ _ (ex_mq cf s w (b_ex _ _ HB)) E) as [Ho|Ho].
  - (* a write of this direction *)
    assert (Hm : isWQ m) by (eapply (kf_nth cf w); [apply (k_mqp _ _ _ (d_K _ _ _ Hd))|exact E|exact Ho]).
    destruct Hm as (q & ->). cbn [mem_serve].
    destruct Hd as [HK Hreq Hq Hnd' Hrsp Hwf Hro Hph].
    destruct (phasew_tf cf w s Hph) as (r & b & Ecm & Eh & Etc & HT).
    { right; left. unfold toks2. intros En. repeat (apply app_eq_nil in En; destruct En as [_ En]).
      pose proof (fo_remove_own cf w _ _ _ E Ho) as Pp. rewrite En in Pp. apply Permutation_nil in Pp. discriminate. }
    assert (Hq2 : In (MWrReq q) (T2 w s)).
    { unfold toks2. repeat rewrite in_app_iff. right; right. unfold fo. apply filter_In. split; auto. eapply nth_error_In; eauto. }
    assert (Hokq : OKW w r b (MWrReq q)) by (destruct HT as [? ok2 ? ? ? ? ? ? ?]; rewrite Forall_forall in ok2; auto).
    destruct Hokq as (i & Hi & ->). cbn [wq_addr wq_data wq_dst wq_src].
    set (WD := MWDone (mkWDone (M w) (L w))).
    assert (HoW : OWN w WD = true) by (cbn; apply N.eqb_refl).
    pose proof (fo_remove_own cf w _ _ _ E Ho) as Pp.
    assert (P2 : Permutation (T2 w s) (MWrReq (mkWrReq (L w) (M w) (mg_wr r + 64 * i) (chunk (s0 (other w)) r i)) ::
                 (map MWrReq (write_reqs (getp w s)) ++ FO w (loc_out (getp w s)) ++ FO w (remove_nth k (getmq w s)))))
      by (unfold toks2, Pc; perm).
    destruct (names4 cf Hok w) as (N1 & N2 & N3 & N4 & N5).
    pose proof (TF_write _ _ _ _ _ _ _ N1 N2 N3 N4 N5 r b _ _ _ _ _ WD _ _ _ _ P2 HT) as HT'.
    cbn [wq_addr wq_data] in HT'.
    split; [|apply (own_some cf w); auto].
    match goal with |- InvD _ _ ?s1 =>
      destruct (nd_frame w s s1) as (Hnd & Hc & Hb); [simp_s; reflexivity..|];
      assert (Q1 : T1 w s1 = T1 w s) by (unfold toks1; simp_s; reflexivity)
    end.
    constructor; try rewrite Hnd; try rewrite Hc; try (unfold PhaseW; rewrite Q1, Hb); simp_s; cbn; auto.
    + kindsW HK; [apply fo_remove_F; auto|rewrite fo_snoc_own by auto; apply snoc_F; auto; eexists; reflexivity].
    + intros Hlt. apply Hreq. unfold blen in *. simp_s. exact Hlt.
    + rewrite Ecm, Eh, Etc. exists b.
      eapply TF_perm; [reflexivity| | |exact HT']; unfold toks2, toks3; simp_s; cbn; [reflexivity|].
      rewrite fo_snoc_own by auto. perm.
  - (* a read of the other direction: nothing we can see *)
    pose proof (not_own6 w m Ho) as Hn. pose proof (dir cf s (other w) HB) as Hd'.
    assert (Hm : isRQ m).
    { eapply (kf_nth cf (other w)); [|exact E|exact Ho].
      pose proof (k_mqs _ _ _ (d_K _ _ _ Hd')) as K. rewrite other_other in K. exact K. }
    destruct Hm as (q & ->). cbn [mem_serve].
    assert (Hq1 : In (MRdReq q) (T1 (other w) s)).
    { unfold toks1. rewrite other_other. repeat rewrite in_app_iff. do 7 right. left.
      unfold fo. apply filter_In. split; auto. eapply nth_error_In; eauto. }
    destruct (in_t1 cf (other w) s _ Hq1 Hd') as (r & b & i & Hi & ->). cbn [rq_dst rq_src rq_id rq_addr rq_size].
    rewrite other_other.
    set (DR := MDReady _).
    assert (HoD : OWN (other w) DR = true) by (cbn; rewrite other_other; apply N.eqb_refl).
    split; [|apply (own_some cf (other w)); auto].
    pose proof (not_own6 w DR HoD) as HnD.
    frame_ev Hd. rewrite fo_snoc_not, (fo_remove_not cf w _ _ _ E) by auto. repeat split; reflexivity.
Qed.

Lemma chunk_in_range (r : migreq) i j : mg_size r mod 64 = 0 -> i < nch r -> j < 64 ->
  64 * i + j < mg_size r.
Proof.
  intros Hm Hi Hj. assert (mg_size r = 64 * nch r) by (unfold nch; pose proof (N.div_mod (mg_size r) 64); lia). lia.
Qed.

(** *** the memory of the source serves a request *)
Lemma MSs w s k m : INVB s -> nth_error (getmq (other w) s) k = Some m ->
  match mem_serve (getst (other w) s) m with
  | None => False
  | Some (st', rsp) =>
    INVD w (setmr (other w) (getmr (other w) s ++ [rsp])
              (setmq (other w) (remove_nth k (getmq (other w) s)) (setst (other w) st' s)))
  end.
Proof.
  intros HB E. pose proof (dir cf s w HB) as Hd.
  destruct (cls_nth cf w _ _ _ (ex_mq cf s (other w) (b_ex _ _ HB)) E) as [Ho|Ho].
  - (* a read of this direction *)
    assert (Hm : isRQ m) by (eapply (kf_nth cf w); [apply (k_mqs _ _ _ (d_K _ _ _ Hd))|exact E|exact Ho]).
    destruct Hm as (q & ->). cbn [mem_serve].
    destruct Hd as [HK Hreq Hq Hnd' Hrsp Hwf Hro Hph].
    pose proof (fo_remove_own cf w _ _ _ E Ho) as Pp.
    assert (Hq1 : In (MRdReq q) (T1 w s)).
    { unfold toks1. repeat rewrite in_app_iff. do 7 right. left. unfold fo. apply filter_In. split; auto. eapply nth_error_In; eauto. }
    destruct (phasew_tf cf w s Hph) as (r & b & Ecm & Eh & Etc & HT).
    { left. intros En. rewrite En in Hq1. inversion Hq1. }
    assert (Hokq : OKW w r b (MRdReq q)) by (destruct HT as [ok1 ? ? ? ? ? ? ? ?]; rewrite Forall_forall in ok1; auto).
    destruct Hokq as (i & Hi & ->). cbn [rq_dst rq_src rq_id rq_addr rq_size].
    assert (Hwfr : wf_reqw cf w r).
    { destruct Hq as (wt & _ & Eq). rewrite Ecm in Eq. rewrite Forall_forall in Hwf. apply Hwf.
      apply (skipn_incl (ndonew w s)). rewrite Eq. cbn. auto. }
    destruct Hwfr as (_ & Wm & _ & _ & Wsrc & _).
    assert (Hdata : read (getst (other w) s) (mg_rd r + 64 * i) 64 = chunk (s0 (other w)) r i).
    { unfold chunk, read. apply map_ext_in. intros j Hj. apply in_seq in Hj. apply Hro, Wsrc.
      pose proof (chunk_in_range r i (N.of_nat j) Wm Hi). lia. }
    rewrite Hdata.
    set (DR := MDReady (mkDReady (M (other w)) (L (other w)) (R w, b + i) (chunk (s0 (other w)) r i))).
    assert (HoD : OWN w DR = true) by (cbn; apply N.eqb_refl).
    set (rest := map MPullReq (to_pull (getp w s)) ++ FO w (rem_out (getp w s)) ++ FO w (net s) ++
       FO w (rem_in (getp (other w) s)) ++ map MPullReq (cur_pull (getp (other w) s)) ++
       map MRdReq (to_read (getp (other w) s)) ++ FO w (loc_out (getp (other w) s)) ++
       FO w (remove_nth k (getmq (other w) s)) ++ FO w (getmr (other w) s) ++ FO w (loc_in (getp (other w) s)) ++
       map MDReady (data_ready (getp (other w) s)) ++ map MPullRsp (to_rsp (getp (other w) s)) ++
       FO w (rem_out (getp (other w) s)) ++ FO w (rem_in (getp w s)) ++ map MPullRsp (recv_data (getp w s))).
    assert (P1 : Permutation (T1 w s) ([MRdReq (mkRdReq (R w, b + i) (L (other w)) (M (other w)) (mg_rd r + 64 * i) 64)] ++ rest))
      by (unfold toks1, rest, Pc, Sc; perm).
    match goal with |- InvD _ _ ?s1 =>
      destruct (nd_frame w s s1) as (Hnd & Hc & Hb); [simp_s; reflexivity..|];
      assert (P1' : Permutation (T1 w s1) ([DR] ++ rest))
        by (unfold toks1, rest; simp_s; cbn; rewrite fo_snoc_own by auto; perm);
      assert (Q2 : T2 w s1 = T2 w s) by (unfold toks2; simp_s; reflexivity);
      assert (Q3 : T3 w s1 = T3 w s) by (unfold toks3; simp_s; reflexivity)
    end.
    constructor; try rewrite Hnd; try rewrite Hc; try (unfold PhaseW; rewrite Q2, Q3, Hb); simp_s; cbn; auto.
    + kindsW HK; [apply fo_remove_F; auto|rewrite fo_snoc_own by auto; apply snoc_F; auto; eexists; reflexivity].
    + intros Hlt. apply Hreq. unfold blen in *. simp_s. cbn in Hlt. apply Permutation_length in Pp.
      rewrite fo_snoc_own, app_length in Hlt by auto. cbn [length] in *. lia.
    + rewrite Ecm, Eh, Etc. exists b.
      eapply (TF_repl _ _ _ _ _ _ _ r b (T1 w s) _ _ _ rest); [exact P1|exact P1'| |exact HT].
      constructor; [|constructor]. split; [reflexivity|]. intros _. exists i. cbn. auto.
  - (* a write of the other direction: it stays out of the region we read *)
    pose proof (not_own6 w m Ho) as Hn. pose proof (dir cf s (other w) HB) as Hd'.
    assert (Hm : isWQ m) by (eapply (kf_nth cf (other w)); [apply (k_mqp _ _ _ (d_K _ _ _ Hd'))|exact E|exact Ho]).
    destruct Hm as (q & ->). cbn [mem_serve].
    pose proof (fo_remove_own cf (other w) _ _ _ E Ho) as Pp.
    destruct (phasew_tf cf (other w) s (d_phase _ _ _ Hd')) as (r & b & Ecm & Eh & Etc & HT).
    { right; left. unfold toks2. intros En. repeat (apply app_eq_nil in En; destruct En as [_ En]).
      rewrite En in Pp. apply Permutation_nil in Pp. discriminate. }
    assert (Hq2 : In (MWrReq q) (T2 (other w) s)).
    { unfold toks2. repeat rewrite in_app_iff. right; right. unfold fo. apply filter_In. split; auto. eapply nth_error_In; eauto. }
    assert (Hokq : OKW (other w) r b (MWrReq q)) by (destruct HT as [? ok2 ? ? ? ? ? ? ?]; rewrite Forall_forall in ok2; auto).
    destruct Hokq as (i & Hi & ->). cbn [wq_addr wq_data wq_dst wq_src].
    destruct (cur_wf (other w) s r Hd' Ecm) as (_ & Wm & _ & _ & _ & Wdst).
    set (WD := MWDone _).
    assert (HnW : OWN w WD = false) by (apply not_own6; cbn; apply N.eqb_refl).
    frame_ev Hd. rewrite fo_snoc_not, (fo_remove_not cf w _ _ _ E) by auto.
    repeat split; try reflexivity.
    intros a Ha. unfold chunk. rewrite write_read_out; auto.
    destruct (N.lt_ge_cases a (mg_wr r + 64 * i)); auto.
    destruct (N.lt_ge_cases a (mg_wr r + 64 * i + 64)); auto.
    exfalso. apply (Wdst a); auto.
    pose proof (chunk_in_range r i (a - (mg_wr r + 64 * i)) Wm Hi). lia.
Qed.

Lemma gacc_setgacc_o' w v s : gacc w (setgacc (other w) v s) = gacc w s.
Proof. destruct w, s; reflexivity. Qed.
Lemma gdone_setgdone_o' w v s : gdone w (setgdone (other w) v s) = gdone w s.
Proof. destruct w, s; reflexivity. Qed.

(** *** a migration request is offered / a completion is taken *)
Lemma CRp w s m : INVB s -> wf_reqw cf w m ->
  INVD w (setgacc w (gacc w s ++ [m]) (setp w (getp w s <| ctl_in := ctl_in (getp w s) ++ [MMigReq m] |>) s)).
Proof.
  intros HB Hwfm. pose proof (dir cf s w HB) as Hd.
  destruct Hd as [HK Hreq Hq Hnd' Hrsp Hwf Hro Hph].
  destruct (names4 cf Hok w) as (N1 & N2 & N3 & N4 & N5).
  match goal with |- InvD _ _ ?s1 =>
    assert (Hnd : ndonew w s1 = ndonew w s) by (unfold ndonew; simp_s; reflexivity);
    assert (Hc : completedw w s1 = completedw w s)
      by (unfold completedw; rewrite Hnd; simp_s; apply (firstn_app_le _ _ _ _ _ _ N1 N2 N3 N4 N5); exact Hnd');
    assert (Hb : basew cf w s1 = basew cf w s) by (unfold basew; rewrite Hc; reflexivity);
    assert (Q1 : T1 w s1 = T1 w s) by (unfold toks1; simp_s; reflexivity);
    assert (Q2 : T2 w s1 = T2 w s) by (unfold toks2; simp_s; reflexivity);
    assert (Q3 : T3 w s1 = T3 w s) by (unfold toks3; simp_s; reflexivity)
  end.
  constructor; try rewrite Hnd; try rewrite Hc; try (unfold PhaseW, NoTokW; rewrite Q1, Q2, Q3, Hb); simp_s; cbn; auto.
  - kindsW HK.
  - intros Hlt. apply Hreq. unfold blen in *. simp_s. exact Hlt.
  - destruct Hq as (wt & E1 & E2). exists (wt ++ [m]). rewrite E1, map_app. split; [reflexivity|].
    rewrite (skipn_app_le _ _ _ _ _ _ N1 N2 N3 N4 N5) by exact Hnd'. rewrite E2, app_assoc. reflexivity.
  - rewrite app_length. cbn. lia.
  - apply Forall_app; split; auto.
Qed.

Lemma CRs w s m :
  INVB s -> INVD w (setgacc (other w) (gacc (other w) s ++ [m])
                      (setp (other w) (getp (other w) s <| ctl_in := ctl_in (getp (other w) s) ++ [MMigReq m] |>) s)).
Proof.
  intros HB. pose proof (dir cf s w HB) as Hd. frame_ev Hd.
  rewrite gacc_setgacc_o'. simp_s. repeat split; reflexivity.
Qed.

Lemma TCp w s m r : INVB s -> ctl_out (getp w s) = m :: r ->
  INVD w (setgdone w (gdone w s ++ [m]) (setp w (getp w s <| ctl_out := r |>) s)).
Proof.
  intros HB E. pose proof (dir cf s w HB) as Hd.
  destruct Hd as [HK Hreq Hq Hnd' Hrsp Hwf Hro Hph].
  match goal with |- InvD _ _ ?s1 =>
    assert (Hnd : ndonew w s1 = ndonew w s) by (unfold ndonew; simp_s; cbn; rewrite E, app_length; cbn; lia);
    assert (Hc : completedw w s1 = completedw w s) by (unfold completedw; rewrite Hnd; simp_s; reflexivity);
    assert (Hb : basew cf w s1 = basew cf w s) by (unfold basew; rewrite Hc; reflexivity);
    assert (Q1 : T1 w s1 = T1 w s) by (unfold toks1; simp_s; reflexivity);
    assert (Q2 : T2 w s1 = T2 w s) by (unfold toks2; simp_s; reflexivity);
    assert (Q3 : T3 w s1 = T3 w s) by (unfold toks3; simp_s; reflexivity)
  end.
  constructor; try rewrite Hnd; try rewrite Hc; try (unfold PhaseW, NoTokW; rewrite Q1, Q2, Q3, Hb); simp_s; cbn; auto.
  - kindsW HK.
  - intros Hlt. apply Hreq. unfold blen in *. simp_s. exact Hlt.
  - rewrite <- Hrsp, E. rewrite <- app_assoc. reflexivity.
Qed.

Lemma TCs w s m r :
  INVB s -> INVD w (setgdone (other w) (gdone (other w) s ++ [m])
                      (setp (other w) (getp (other w) s <| ctl_out := r |>) s)).
Proof.
  intros HB. pose proof (dir cf s w HB) as Hd. frame_ev Hd.
  rewrite gdone_setgdone_o'. simp_s. repeat split; reflexivity.
Qed.

End Bi6.
