(** Progress of the two-controller system: a ranking function that no
    environment event increases, and that strictly decreases whenever an event
    changes the state; if none of the twelve canonical actions changes the
    state, all work is done.  Hence every fair schedule completes every
    accepted request (props/C19.v, pmc_liveness). *)
From Coq Require Import Permutation ZifyN ZifyNat ZifyBool.
From VMem Require Import Pmc PmcLemmas PmcProofs.
From RecordUpdate Require Import RecordSet.
Import RecordSetNotations.
Open Scope N_scope.

Arguments Nat.mul : simpl never.

(** remaining pipeline stages of a message on the network *)
Definition wnet (m : pmsg) : nat := match m with MPullReq _ => 20 | _ => 9 end.
Definition sumw (l : list pmsg) : nat := list_sum (map wnet l).
(** a request that has not been started: all its chunks plus bookkeeping *)
Definition wreq (r : migreq) : nat := (22 * N.to_nat (nch r) + 5)%nat.
Definition wmsg (m : pmsg) : nat := match m with MMigReq r => wreq r | _ => 0 end.
Definition wcur (p : pmc) : nat :=
  match cur_mig p with
  | Some r => if handling p then 3 else (22 * N.to_nat (nch r) + 4)
  | None => 0
  end%nat.

Definition sumc (l : list pmsg) : nat := list_sum (map wmsg l).
Arguments sumw : simpl never.
Arguments sumc : simpl never.

Definition mu (s : sys) : nat :=
  (sumc (ctl_in (pa s)) + wcur (pa s) +
   2 * length (olist (to_ctrl (pa s))) + length (ctl_out (pa s)) +
   22 * length (to_pull (pa s)) + 21 * length (rem_out (pa s)) + sumw (net s) +
   19 * length (rem_in (pb s)) + 18 * length (cur_pull (pb s)) + 17 * length (to_read (pb s)) +
   16 * length (loc_out (pb s)) + 15 * length (mqb s) + 14 * length (mrb s) +
   13 * length (loc_in (pb s)) + 12 * length (data_ready (pb s)) + 11 * length (to_rsp (pb s)) +
   10 * length (rem_out (pb s)) + 8 * length (rem_in (pa s)) + 7 * length (recv_data (pa s)) +
   6 * length (write_reqs (pa s)) + 5 * length (loc_out (pa s)) + 4 * length (mqa s) +
   3 * length (mra s) + 2 * length (loc_in (pa s)) + length (olist (recv_wdone (pa s))))%nat.

Lemma sumw_app l1 l2 : sumw (l1 ++ l2) = (sumw l1 + sumw l2)%nat.
Proof. unfold sumw. now rewrite map_app, list_sum_app. Qed.
Lemma sumw_cons m l : sumw (m :: l) = (wnet m + sumw l)%nat.
Proof. reflexivity. Qed.
Lemma sumw_nil : sumw [] = 0%nat.
Proof. reflexivity. Qed.
Lemma sumc_app l1 l2 : sumc (l1 ++ l2) = (sumc l1 + sumc l2)%nat.
Proof. unfold sumc. now rewrite map_app, list_sum_app. Qed.
Lemma sumc_cons m l : sumc (m :: l) = (wmsg m + sumc l)%nat.
Proof. reflexivity. Qed.
Lemma sumc_nil : sumc [] = 0%nat.
Proof. reflexivity. Qed.

(** when is a stage of [Tick] able to do something *)
Definition en1 (p : pmc) : Prop := to_pull p <> [] /\ rem_out p = [].
Definition en2 (p : pmc) : Prop := to_read p <> [] /\ loc_out p = [].
Definition en3 (p : pmc) : Prop := to_ctrl p <> None /\ ctl_out p = [].
Definition en4 (p : pmc) : Prop := to_rsp p <> [] /\ rem_out p = [].
Definition en5 (p : pmc) : Prop := write_reqs p <> [] /\ loc_out p = [].
Definition en6 (p : pmc) : Prop := rem_in p <> [].
Definition en7 (p : pmc) : Prop := handling p = false /\ ctl_in p <> [].
Definition en8 (p : pmc) : Prop := loc_in p <> [].
Definition en9 (p : pmc) : Prop := cur_mig p <> None /\ handling p = false.
Definition en10 (p : pmc) : Prop := cur_pull p <> [].
Definition en11 (p : pmc) : Prop := data_ready p <> [].
Definition en12 (p : pmc) : Prop := recv_data p <> [].
Definition en13 (p : pmc) : Prop := recv_wdone p <> None.

Section Live.
Variables ra ca la ma rb cb lb mb : N.
Variables sa0 sb0 : store.
Hypothesis Hra : ra <> 0.
Hypothesis Hrb : rb <> 0.
Hypothesis Hrab : ra <> rb.
Hypothesis Hma : ma <> 0 /\ ma <> la.
Hypothesis Hmb : mb <> 0 /\ mb <> lb.

Notation INV := (Inv ra ca la ma rb cb lb mb sa0 sb0).
Notation INV2 := (Inv2 ra ca la ma rb cb lb mb sa0 sb0).
Notation PHASE := (Phase ra la ma rb lb mb sa0 sb0).

Notation OKM := (okM ra la ma rb lb mb sb0).
Notation TFN := (TF ra la ma rb lb mb sb0).

Lemma ok1 s m : INV s -> In m (toks1 s) -> exists r b, OKM r b m.
Proof. intros H. apply (Phase_ok1 ra la ma rb lb mb sa0 sb0 Hma Hmb s m). apply H. Qed.
Lemma ok2 s m : INV s -> In m (toks2 s) -> exists r b, OKM r b m.
Proof. intros H. apply (Phase_ok2 ra la ma rb lb mb sa0 sb0 Hma Hmb s m). apply H. Qed.
Lemma crA s : INV s -> crashed (pa s) = false.
Proof. intros H; apply H. Qed.
Lemma crB s : INV s -> crashed (pb s) = false.
Proof. intros H; apply H. Qed.

(** outcome of applying a stage to A (resp. B): the state is unchanged and the
    stage was not enabled, or the rank dropped *)
Definition DA (en : pmc -> Prop) (f : pmc -> pmc * bool) (s : sys) : Prop :=
  let s' := s <| pa := fst (f (pa s)) |> in (s' = s /\ ~ en (pa s)) \/ (mu s' < mu s)%nat.
Definition DB (en : pmc -> Prop) (f : pmc -> pmc * bool) (s : sys) : Prop :=
  let s' := s <| pb := fst (f (pb s)) |> in (s' = s /\ ~ en (pb s)) \/ (mu s' < mu s)%nat.

Ltac inv_destruct H :=
  destruct H as [crA crB cfgA cfgB iA iB istb ireq iK iqueue ind irsp iwf iphase].

Lemma same_pa s p : p = pa s -> s <| pa := p |> = s.
Proof. intros ->. destruct s; reflexivity. Qed.
Lemma same_pb s p : p = pb s -> s <| pb := p |> = s.
Proof. intros ->. destruct s; reflexivity. Qed.

Ltac mu_lt := unfold mu, wcur; cbn;
  repeat rewrite ?app_length, ?map_length, ?sumw_app, ?sumc_app, ?sumw_cons, ?sumc_cons, ?sumw_nil, ?sumc_nil;
  cbn [length wnet wmsg olist]; try lia.

Lemma LA1 s : INV s -> DA en1 sendMigrationReqToAnotherPMC s.
Proof.
  intros H. unfold DA, en1, sendMigrationReqToAnotherPMC.
  destruct (to_pull (pa s)) as [|x l] eqn:El.
  { left. cbn. split; [apply same_pa; reflexivity|tauto]. }
  cbn [is_nil]. rewrite <- El.
  assert (Hv : Forall (fun x => send_valid (MPullReq x) = true) (to_pull (pa s))).
  { rewrite Forall_forall. intros q Hq. pose proof (in_map MPullReq _ _ Hq) as Hin.
    destruct (ok1 s (MPullReq q) H) as (r & b & i & Hi & ->).
    { unfold toks1. repeat rewrite in_app_iff. tauto. }
    unfold send_valid; cbn. apply valid_neq; auto. }
  destruct (rem_out (pa s)) as [|y ro] eqn:Ero.
  - destruct (send_all_some MPullReq [] (to_pull (pa s))) as (mv & kept & p & Hp & Hlen & Hne & E); auto.
    { rewrite El; discriminate. }
    rewrite E. right. destruct mv; [congruence|]. mu_lt.
    cbn in Hlen. rewrite Ero. cbn. lia.
  - rewrite send_all_full; auto. left. split; [|intros [_ ?]; discriminate].
    cbn. apply same_pa. pose proof (crA s H) as Hc. destruct (pa s); cbn in *. subst. reflexivity.
Qed.


Ltac stay := left; split; [cbn; apply same_pa; reflexivity|].
Ltac stayb := left; split; [cbn; apply same_pb; reflexivity|].
Ltac crashA H' := exfalso; apply crA in H'; cbn in H'; discriminate.
Ltac crashB H' := exfalso; apply crB in H'; cbn in H'; discriminate.

Lemma pull_rsps_length loc memc : forall l m ws m' c,
  pull_rsps loc memc l m = (ws, m', c) -> c = false -> length ws = length l.
Proof.
  induction l as [|r l IH]; intros m ws m' c E Hc; cbn in E.
  - inversion E; reflexivity.
  - destruct (lookup (pr_id r) m); [|inversion E; congruence].
    destruct (pull_rsps loc memc l (delete (pr_id r) m)) as [[ws1 m1] c1] eqn:E1.
    inversion E; subst. cbn. f_equal. eapply IH; eauto.
Qed.

(** *** A *)
Lemma LA2 s : INV s -> DA en2 sendReadReqLocalMemPort s.
Proof.
  intros H. unfold DA, en2, sendReadReqLocalMemPort.
  destruct (i_A _ _ _ _ _ _ _ _ _ _ _ H) as (_ & E & _). rewrite E. stay. tauto.
Qed.
Lemma LA4 s : INV s -> DA en4 sendDataReadyRspToRequestingPMC s.
Proof.
  intros H. unfold DA, en4, sendDataReadyRspToRequestingPMC.
  destruct (i_A _ _ _ _ _ _ _ _ _ _ _ H) as (_ & _ & _ & E). rewrite E. stay. tauto.
Qed.
Lemma LA10 s : INV s -> DA en10 processReadPageReqFromAnotherPMC s.
Proof.
  intros H. unfold DA, en10, processReadPageReqFromAnotherPMC.
  destruct (i_A _ _ _ _ _ _ _ _ _ _ _ H) as (E & _). rewrite E. stay. tauto.
Qed.
Lemma LA11 s : INV s -> DA en11 processDataReadyRspFromMemCtrl s.
Proof.
  intros H. unfold DA, en11, processDataReadyRspFromMemCtrl.
  destruct (i_A _ _ _ _ _ _ _ _ _ _ _ H) as (_ & _ & E & _). rewrite E. stay. tauto.
Qed.

Lemma LA3 s : INV s -> DA en3 sendMigrationCompleteRspToCtrlPort s.
Proof.
  intros H. pose proof (A3 ra ca la ma rb cb lb mb sa0 sb0 Hra Hrb Hrab Hma Hmb s H) as H'.
  unfold DA, en3, sendMigrationCompleteRspToCtrlPort in *.
  destruct (to_ctrl (pa s)) as [r|] eqn:Etc; [|stay; tauto].
  destruct (negb (send_valid (MMigRsp r))); [crashA H'|].
  destruct (ctl_out (pa s)) as [|y co] eqn:Eco; cbn [can_push length Nat.ltb Nat.leb PCAP].
  - right. mu_lt. rewrite Etc, Eco. cbn. lia.
  - stay. intros [_ ?]; discriminate.
Qed.

Lemma LA5 s : INV s -> DA en5 sendWriteReqLocalMemPort s.
Proof.
  intros H. unfold DA, en5, sendWriteReqLocalMemPort.
  assert (Hv : Forall (fun x => send_valid (MWrReq x) = true) (write_reqs (pa s))).
  { rewrite Forall_forall. intros q Hq. pose proof (in_map MWrReq _ _ Hq) as Hin.
    destruct (ok2 s (MWrReq q) H) as (r & b & i & Hi & ->).
    { unfold toks2. repeat rewrite in_app_iff. tauto. }
    unfold send_valid; cbn. apply valid_neq; tauto. }
  destruct (write_reqs (pa s)) as [|x l] eqn:El.
  { left. split; [|tauto]. cbn. apply same_pa.
    pose proof (crA s H) as Hc. destruct (pa s); cbn in *. subst. reflexivity. }
  rewrite <- El in *.
  destruct (loc_out (pa s)) as [|y ro] eqn:Ero.
  - destruct (send_all_some MWrReq [] (write_reqs (pa s))) as (mv & kept & p & Hp & Hlen & Hne & E); auto.
    { rewrite El; discriminate. }
    rewrite E. right. destruct mv; [congruence|]. mu_lt.
    cbn in Hlen. rewrite Ero. cbn. lia.
  - rewrite send_all_full; auto. left. split; [|intros [_ ?]; discriminate].
    cbn. apply same_pa. pose proof (crA s H) as Hc. destruct (pa s); cbn in *. subst. reflexivity.
Qed.

Lemma LA6 s : INV s -> DA en6 processFromOutside s.
Proof.
  intros H. pose proof (A6 ra ca la ma rb cb lb mb sa0 sb0 Hra Hrb Hrab Hma Hmb s H) as H'.
  unfold DA, en6, processFromOutside in *.
  destruct (rem_in (pa s)) as [|m rest] eqn:E; [stay; tauto|].
  assert (Hm : isPR m).
  { pose proof (k_ria _ (i_K _ _ _ _ _ _ _ _ _ _ _ H)) as K. rewrite E in K. inversion K; auto. }
  destruct Hm as (q & ->). right. mu_lt. rewrite E. cbn. lia.
Qed.

Lemma LA7 s : INV s -> notP1 (pa s) -> DA en7 processFromCtrlPort s.
Proof.
  intros H HQ. unfold DA, en7, processFromCtrlPort in *.
  destruct (handling (pa s)) eqn:Eh; [stay; intros [? _]; discriminate|].
  specialize (HQ Eh).
  destruct (i_queue _ _ _ _ _ _ _ _ _ _ _ H) as (w & Ew & _). rewrite Ew.
  destruct w as [|r w]; cbn [map]; [stay; tauto|].
  right. mu_lt. rewrite Ew, HQ, Eh. cbn [map]. rewrite sumc_cons. cbn [wmsg]. unfold wreq. lia.
Qed.

Lemma LA8 s : INV s -> DA en8 processFromMemCtrl s.
Proof.
  intros H. unfold DA, en8, processFromMemCtrl in *.
  destruct (loc_in (pa s)) as [|m rest] eqn:E; [stay; tauto|].
  assert (Hm : isWD m).
  { pose proof (k_lia _ (i_K _ _ _ _ _ _ _ _ _ _ _ H)) as K. rewrite E in K. inversion K; auto. }
  destruct Hm as (q & ->). right. mu_lt. rewrite E. cbn.
  destruct (recv_wdone (pa s)); cbn; lia.
Qed.

Lemma LA9 s : INV s -> DA en9 processPageMigrationReqFromCtrlPort s.
Proof.
  intros H. unfold DA, en9, processPageMigrationReqFromCtrlPort in *.
  destruct (cur_mig (pa s)) as [r|] eqn:Ecm; [|stay; tauto].
  destruct (handling (pa s)) eqn:Eh; [stay; intros [_ ?]; discriminate|].
  destruct (i_cfgA _ _ _ _ _ _ _ _ _ _ _ H) as (_ & _ & _ & _ & E5).
  rewrite gen_pulls_spec, E5. right. mu_lt. rewrite Ecm, Eh, seq_length. unfold nch. lia.
Qed.

Lemma LA12 s : INV s -> DA en12 processDataPullRsp s.
Proof.
  intros H. pose proof (A12 ra ca la ma rb cb lb mb sa0 sb0 Hra Hrb Hrab Hma Hmb s H) as H'.
  unfold DA, en12, processDataPullRsp in *.
  destruct (recv_data (pa s)) as [|x l] eqn:El; [stay; tauto|]. cbn [is_nil] in *.
  destruct (pull_rsps (n_local (pa s)) (n_mem (pa s)) (x :: l) (idmap (pa s))) as [[ws m'] c] eqn:E.
  destruct c; [crashA H'|].
  apply pull_rsps_length in E; auto. right. mu_lt. rewrite El, E. cbn. lia.
Qed.

Lemma LA13 s : INV s -> DA en13 processWriteDoneRspFromMemCtrl s.
Proof.
  intros H. pose proof (A13 ra ca la ma rb cb lb mb sa0 sb0 Hra Hrb Hrab Hma Hmb s H) as H'.
  unfold DA, en13, processWriteDoneRspFromMemCtrl in *.
  destruct (recv_wdone (pa s)) as [w|] eqn:Ew; [|stay; tauto].
  cbv zeta in *.
  destruct (phase_tf ra la ma rb lb mb sa0 sb0 Hma Hmb s (i_phase _ _ _ _ _ _ _ _ _ _ _ H)) as (r & b & Ecm & Eh & Etc & HT).
  { right; right. unfold toks3. rewrite Ew. cbn.
    intros E. repeat (apply app_eq_nil in E; destruct E as [_ E]). discriminate. }
  destruct (num_pending (pa s) - 1 <? 0)%Z; [crashA H'|].
  destruct (num_pending (pa s) - 1 =? 0)%Z.
  - rewrite Ecm in *. right. mu_lt. rewrite Ecm, Eh, Etc, Ew. cbn. lia.
  - right. mu_lt. rewrite Ew. cbn. lia.
Qed.

(** *** B *)
Lemma LB1 s : INV s -> DB en1 sendMigrationReqToAnotherPMC s.
Proof.
  intros H. unfold DB, en1, sendMigrationReqToAnotherPMC.
  destruct (i_B _ _ _ _ _ _ _ _ _ _ _ H) as (_ & _ & E & _). rewrite E. stayb. tauto.
Qed.
Lemma LB3 s : INV s -> DB en3 sendMigrationCompleteRspToCtrlPort s.
Proof.
  intros H. unfold DB, en3, sendMigrationCompleteRspToCtrlPort.
  destruct (i_B _ _ _ _ _ _ _ _ _ _ _ H) as (_ & _ & _ & _ & _ & _ & E & _). rewrite E. stayb. tauto.
Qed.
Lemma LB5 s : INV s -> DB en5 sendWriteReqLocalMemPort s.
Proof.
  intros H. unfold DB, en5, sendWriteReqLocalMemPort.
  destruct (i_B _ _ _ _ _ _ _ _ _ _ _ H) as (_ & _ & _ & _ & E & _). rewrite E. left. split; [|tauto].
  cbn. apply same_pb. pose proof (crB s H) as Hc. destruct (pb s); cbn in *. subst. reflexivity.
Qed.
Lemma LB7 s : INV s -> DB en7 processFromCtrlPort s.
Proof.
  intros H. unfold DB, en7, processFromCtrlPort.
  destruct (i_B _ _ _ _ _ _ _ _ _ _ _ H) as (_ & E1 & _ & _ & _ & _ & _ & E2 & _). rewrite E1, E2. stayb. tauto.
Qed.
Lemma LB9 s : INV s -> DB en9 processPageMigrationReqFromCtrlPort s.
Proof.
  intros H. unfold DB, en9, processPageMigrationReqFromCtrlPort.
  destruct (i_B _ _ _ _ _ _ _ _ _ _ _ H) as (E & _). rewrite E. stayb. tauto.
Qed.
Lemma LB12 s : INV s -> DB en12 processDataPullRsp s.
Proof.
  intros H. unfold DB, en12, processDataPullRsp.
  destruct (i_B _ _ _ _ _ _ _ _ _ _ _ H) as (_ & _ & _ & E & _). rewrite E. stayb. tauto.
Qed.
Lemma LB13 s : INV s -> DB en13 processWriteDoneRspFromMemCtrl s.
Proof.
  intros H. unfold DB, en13, processWriteDoneRspFromMemCtrl.
  destruct (i_B _ _ _ _ _ _ _ _ _ _ _ H) as (_ & _ & _ & _ & _ & E & _). rewrite E. stayb. tauto.
Qed.

Lemma LB2 s : INV s -> DB en2 sendReadReqLocalMemPort s.
Proof.
  intros H. unfold DB, en2, sendReadReqLocalMemPort.
  destruct (to_read (pb s)) as [|x l] eqn:El.
  { stayb. tauto. }
  cbn [is_nil]. rewrite <- El.
  assert (Hv : Forall (fun x => send_valid (MRdReq x) = true) (to_read (pb s))).
  { rewrite Forall_forall. intros q Hq. pose proof (in_map MRdReq _ _ Hq) as Hin.
    destruct (ok1 s (MRdReq q) H) as (r & b & i & Hi & ->).
    { unfold toks1. repeat rewrite in_app_iff. tauto. }
    unfold send_valid; cbn. apply valid_neq; tauto. }
  destruct (loc_out (pb s)) as [|y ro] eqn:Ero.
  - destruct (send_all_some MRdReq [] (to_read (pb s))) as (mv & kept & p & Hp & Hlen & Hne & E); auto.
    { rewrite El; discriminate. }
    rewrite E. right. destruct mv; [congruence|]. mu_lt.
    cbn in Hlen. rewrite Ero. cbn. lia.
  - rewrite send_all_full; auto. left. split; [|intros [_ ?]; discriminate].
    cbn. apply same_pb. pose proof (crB s H) as Hc. destruct (pb s); cbn in *. subst. reflexivity.
Qed.

Lemma LB4 s : INV s -> DB en4 sendDataReadyRspToRequestingPMC s.
Proof.
  intros H. unfold DB, en4, sendDataReadyRspToRequestingPMC.
  destruct (to_rsp (pb s)) as [|x l] eqn:El.
  { stayb. tauto. }
  cbn [is_nil]. rewrite <- El.
  assert (Hv : Forall (fun x => send_valid (MPullRsp x) = true) (to_rsp (pb s))).
  { rewrite Forall_forall. intros q Hq. pose proof (in_map MPullRsp _ _ Hq) as Hin.
    destruct (ok1 s (MPullRsp q) H) as (r & b & i & Hi & ->).
    { unfold toks1. repeat rewrite in_app_iff. tauto. }
    unfold send_valid; cbn. apply valid_neq; auto. }
  destruct (rem_out (pb s)) as [|y ro] eqn:Ero.
  - destruct (send_all_some MPullRsp [] (to_rsp (pb s))) as (mv & kept & p & Hp & Hlen & Hne & E); auto.
    { rewrite El; discriminate. }
    rewrite E. right. destruct mv; [congruence|]. mu_lt.
    cbn in Hlen. rewrite Ero. cbn. lia.
  - rewrite send_all_full; auto. left. split; [|intros [_ ?]; discriminate].
    cbn. apply same_pb. pose proof (crB s H) as Hc. destruct (pb s); cbn in *. subst. reflexivity.
Qed.

Lemma LB6 s : INV s -> DB en6 processFromOutside s.
Proof.
  intros H. unfold DB, en6, processFromOutside in *.
  destruct (rem_in (pb s)) as [|m rest] eqn:E; [stayb; tauto|].
  assert (Hm : isPQ m).
  { pose proof (k_rib _ (i_K _ _ _ _ _ _ _ _ _ _ _ H)) as K. rewrite E in K. inversion K; auto. }
  destruct Hm as (q & ->). right. mu_lt. rewrite E. cbn. lia.
Qed.

Lemma LB8 s : INV s -> DB en8 processFromMemCtrl s.
Proof.
  intros H. unfold DB, en8, processFromMemCtrl in *.
  destruct (loc_in (pb s)) as [|m rest] eqn:E; [stayb; tauto|].
  assert (Hm : isDR m).
  { pose proof (k_lib _ (i_K _ _ _ _ _ _ _ _ _ _ _ H)) as K. rewrite E in K. inversion K; auto. }
  destruct Hm as (q & ->). right. mu_lt. rewrite E. cbn. lia.
Qed.

Lemma LB10 s : INV s -> DB en10 processReadPageReqFromAnotherPMC s.
Proof.
  intros H. unfold DB, en10, processReadPageReqFromAnotherPMC in *.
  destruct (cur_pull (pb s)) as [|x l] eqn:E; [stayb; tauto|].
  cbn [is_nil]. right. mu_lt. rewrite E. cbn. rewrite ?map_length. lia.
Qed.

Lemma LB11 s : INV s -> DB en11 processDataReadyRspFromMemCtrl s.
Proof.
  intros H. unfold DB, en11, processDataReadyRspFromMemCtrl in *.
  destruct (data_ready (pb s)) as [|x l] eqn:E; [stayb; tauto|].
  cbn [is_nil]. right. mu_lt. rewrite E. cbn. rewrite ?map_length. lia.
Qed.

(** ** A whole tick: either the rank drops or no stage was enabled *)
Definition ChainA (Pre Nop : sys -> Prop) (g : pmc -> pmc * bool) : Prop :=
  forall s, Pre s -> let sf := s <| pa := fst (g (pa s)) |> in (mu sf < mu s)%nat \/ (sf = s /\ Nop s).
Definition ChainB (Pre Nop : sys -> Prop) (g : pmc -> pmc * bool) : Prop :=
  forall s, Pre s -> let sf := s <| pb := fst (g (pb s)) |> in (mu sf < mu s)%nat \/ (sf = s /\ Nop s).

Lemma chainA_step (Pre Mid Nop : sys -> Prop) en f g :
  (forall s, Pre s -> DA en f s) -> StepA Pre Mid f ->
  (forall s, Mid s -> crashed (pa s) = false) -> ChainA Mid Nop g ->
  ChainA Pre (fun s => ~ en (pa s) /\ Nop s) (andthen f g).
Proof.
  intros HD HS Hc HG s Hs. specialize (HD s Hs). specialize (HS s Hs). unfold DA in HD. cbv zeta in *.
  unfold andthen. destruct (f (pa s)) as [p1 b1]. cbn [fst] in *.
  pose proof (Hc _ HS) as Hcr. cbn in Hcr. rewrite Hcr.
  specialize (HG _ HS). cbv zeta in HG. cbn [pa] in HG.
  replace (pa (s <| pa := p1 |>)) with p1 in HG by (destruct s; reflexivity).
  rewrite set_pa_twice in HG. destruct (g p1) as [p2 b2]. cbn [fst] in *.
  destruct HD as [[E Hn]|Hlt].
  - rewrite E in HG. destruct HG as [?|[E2 HN]]; auto.
  - destruct HG as [?|[E2 HN]]; [left; lia|]. left. rewrite E2. exact Hlt.
Qed.
Lemma chainB_step (Pre Mid Nop : sys -> Prop) en f g :
  (forall s, Pre s -> DB en f s) -> StepB Pre Mid f ->
  (forall s, Mid s -> crashed (pb s) = false) -> ChainB Mid Nop g ->
  ChainB Pre (fun s => ~ en (pb s) /\ Nop s) (andthen f g).
Proof.
  intros HD HS Hc HG s Hs. specialize (HD s Hs). specialize (HS s Hs). unfold DB in HD. cbv zeta in *.
  unfold andthen. destruct (f (pb s)) as [p1 b1]. cbn [fst] in *.
  pose proof (Hc _ HS) as Hcr. cbn in Hcr. rewrite Hcr.
  specialize (HG _ HS). cbv zeta in HG.
  replace (pb (s <| pb := p1 |>)) with p1 in HG by (destruct s; reflexivity).
  rewrite set_pb_twice in HG. destruct (g p1) as [p2 b2]. cbn [fst] in *.
  destruct HD as [[E Hn]|Hlt].
  - rewrite E in HG. destruct HG as [?|[E2 HN]]; auto.
  - destruct HG as [?|[E2 HN]]; [left; lia|]. left. rewrite E2. exact Hlt.
Qed.

Definition idleA (p : pmc) : Prop :=
  ~ en1 p /\ ~ en2 p /\ ~ en3 p /\ ~ en4 p /\ ~ en5 p /\ ~ en6 p /\ ~ en7 p /\ ~ en8 p /\
  ~ en9 p /\ ~ en10 p /\ ~ en11 p /\ ~ en12 p /\ ~ en13 p /\ True.

Ltac use L := eapply L; eauto.

Lemma tick_chain_A : ChainA INV2 (fun s => idleA (pa s)) tick.
Proof.
  unfold tick, stages, idleA. cbn [fold_right].
  pose (IW := fun s => INV s /\ recv_wdone (pa s) = None).
  pose (IN := fun s => INV s /\ notP1 (pa s)).
  assert (C2 : forall s, INV2 s -> crashed (pa s) = false) by (intros s [H _]; apply H).
  assert (CW : forall s, IW s -> crashed (pa s) = false) by (intros s [H _]; apply H).
  assert (CN : forall s, IN s -> crashed (pa s) = false) by (intros s [H _]; apply H).
  assert (CI : forall s, INV s -> crashed (pa s) = false) by (intros s H; apply H).
  apply (chainA_step INV2 INV2); [intros s [H _]; apply LA1; auto|intros s [H HQ]; split; [use A1|cbn; use keepQ1]|exact C2|].
  apply (chainA_step INV2 INV2); [intros s [H _]; apply LA2; auto|intros s [H HQ]; split; [use A2|cbn; use keepQ2]|exact C2|].
  apply (chainA_step INV2 INV2); [intros s [H _]; apply LA3; auto|intros s [H HQ]; split; [use A3|cbn; use keepQ3]|exact C2|].
  apply (chainA_step INV2 INV2); [intros s [H _]; apply LA4; auto|intros s [H HQ]; split; [use A4|cbn; use keepQ4]|exact C2|].
  apply (chainA_step INV2 INV2); [intros s [H _]; apply LA5; auto|intros s [H HQ]; split; [use A5|cbn; use keepQ5]|exact C2|].
  apply (chainA_step INV2 INV2); [intros s [H _]; apply LA6; auto|intros s [H HQ]; split; [use A6|cbn; use keepQ6]|exact C2|].
  apply (chainA_step INV2 IW); [intros s [H [_ HQ]]; apply LA7; auto|intros s [H HQ]; split; [use A7; apply HQ|cbn; use keep7]|exact CW|].
  apply (chainA_step IW INV); [intros s [H _]; apply LA8; auto|intros s [H HQ]; use A8|exact CI|].
  apply (chainA_step INV IN); [intros s H; apply LA9; auto|intros s H; split; [use A9|cbn; use get9]|exact CN|].
  apply (chainA_step IN IN); [intros s [H _]; apply LA10; auto|intros s [H HQ]; split; [use A10|cbn; use keep10]|exact CN|].
  apply (chainA_step IN IN); [intros s [H _]; apply LA11; auto|intros s [H HQ]; split; [use A11|cbn; use keep11]|exact CN|].
  apply (chainA_step IN IN); [intros s [H _]; apply LA12; auto|intros s [H HQ]; split; [use A12|cbn; use keep12]|exact CN|].
  apply (chainA_step IN INV2); [intros s [H _]; apply LA13; auto|intros s [H HQ]; split; [use A13|cbn; use get13]|exact C2|].
  intros s H. right. split; [cbn; apply same_pa; reflexivity|exact I].
Qed.

Lemma tick_chain_B : ChainB INV2 (fun s => idleA (pb s)) tick.
Proof.
  unfold tick, stages, idleA. cbn [fold_right].
  assert (C2 : forall s, INV2 s -> crashed (pb s) = false) by (intros s [H _]; apply H).
  assert (L : forall f, PresB ra ca la ma rb cb lb mb sa0 sb0 f -> StepB INV2 INV2 f).
  { intros f Hf s [H HQ]. split; [apply Hf; auto|exact HQ]. }
  apply (chainB_step INV2 INV2); [intros s [H _]; apply LB1; auto|apply L; use B1|exact C2|].
  apply (chainB_step INV2 INV2); [intros s [H _]; apply LB2; auto|apply L; use B2|exact C2|].
  apply (chainB_step INV2 INV2); [intros s [H _]; apply LB3; auto|apply L; use B3|exact C2|].
  apply (chainB_step INV2 INV2); [intros s [H _]; apply LB4; auto|apply L; use B4|exact C2|].
  apply (chainB_step INV2 INV2); [intros s [H _]; apply LB5; auto|apply L; use B5|exact C2|].
  apply (chainB_step INV2 INV2); [intros s [H _]; apply LB6; auto|apply L; use B6|exact C2|].
  apply (chainB_step INV2 INV2); [intros s [H _]; apply LB7; auto|apply L; use B7|exact C2|].
  apply (chainB_step INV2 INV2); [intros s [H _]; apply LB8; auto|apply L; use B8|exact C2|].
  apply (chainB_step INV2 INV2); [intros s [H _]; apply LB9; auto|apply L; use B9|exact C2|].
  apply (chainB_step INV2 INV2); [intros s [H _]; apply LB10; auto|apply L; use B10|exact C2|].
  apply (chainB_step INV2 INV2); [intros s [H _]; apply LB11; auto|apply L; use B11|exact C2|].
  apply (chainB_step INV2 INV2); [intros s [H _]; apply LB12; auto|apply L; use B12|exact C2|].
  apply (chainB_step INV2 INV2); [intros s [H _]; apply LB13; auto|apply L; use B13|exact C2|].
  intros s H. right. split; [cbn; apply same_pb; reflexivity|exact I].
Qed.

(** ** Environment events *)
Lemma sumw_remove l : forall k m, nth_error l k = Some m -> sumw l = (wnet m + sumw (remove_nth k l))%nat.
Proof.
  induction l as [|x l IH]; intros [|k] m E; cbn in E; try discriminate.
  - inversion E; subst. reflexivity.
  - cbn [remove_nth]. rewrite !sumw_cons, (IH k m E). lia.
Qed.
Lemma length_remove {T} (l : list T) : forall k m, nth_error l k = Some m -> length l = S (length (remove_nth k l)).
Proof.
  induction l as [|x l IH]; intros [|k] m E; cbn in E; try discriminate; cbn; auto.
  f_equal. eapply IH; eauto.
Qed.

Notation stepu := (step_unfold ra ca la ma rb cb lb mb sa0 sb0).
Notation KINDS H := (i_K _ _ _ _ _ _ _ _ _ _ _ H).

Lemma E_sr_A s : INV s -> let s' := fst (step s (ESendRemote PA)) in
  (s' = s /\ rem_out (pa s) = []) \/ (mu s' < mu s)%nat.
Proof.
  intros H. rewrite stepu by auto. cbn [getp setp].
  destruct (rem_out (pa s)) as [|m r] eqn:E; [left; auto|]. right. cbn [fst].
  assert (Hm : isPQ m) by (pose proof (k_roa _ (KINDS H)) as K; rewrite E in K; inversion K; auto).
  destruct Hm as (q & ->). mu_lt. rewrite E. cbn. lia.
Qed.
Lemma E_sr_B s : INV s -> let s' := fst (step s (ESendRemote PB)) in
  (s' = s /\ rem_out (pb s) = []) \/ (mu s' < mu s)%nat.
Proof.
  intros H. rewrite stepu by auto. cbn [getp setp].
  destruct (rem_out (pb s)) as [|m r] eqn:E; [left; auto|]. right. cbn [fst].
  assert (Hm : isPR m) by (pose proof (k_rob _ (KINDS H)) as K; rewrite E in K; inversion K; auto).
  destruct Hm as (q & ->). mu_lt. rewrite E. cbn. lia.
Qed.

Lemma E_dr s k : INV s -> let s' := fst (step s (EDeliverRemote k)) in
  (s' = s /\ (k = 0%nat -> net s = [] \/ rem_in (pb s) <> [] \/ rem_in (pa s) <> [])) \/ (mu s' < mu s)%nat.
Proof.
  intros H. rewrite stepu by auto.
  destruct (nth_error (net s) k) as [m|] eqn:En.
  2:{ left. split; auto. intros ->. destruct (net s); [auto|discriminate]. }
  assert (Hin : In m (toks1 s)).
  { unfold toks1. repeat rewrite in_app_iff. right; right; left. eapply nth_error_In; eauto. }
  destruct (ok1 s m H Hin) as (r & b & Hok).
  destruct (i_cfgA _ _ _ _ _ _ _ _ _ _ _ H) as (EA1 & _). destruct (i_cfgB _ _ _ _ _ _ _ _ _ _ _ H) as (EB1 & _).
  assert (Hk : isPQ m \/ isPR m).
  { pose proof (k_net _ (KINDS H)) as K. rewrite Forall_forall in K. apply K. eapply nth_error_In; eauto. }
  cbv zeta. rewrite EA1, EB1.
  destruct Hk as [(q & ->)|(q & ->)]; cbn in Hok; destruct Hok as (i & Hi & ->); cbn [msg_dst pq_dst pr_dst].
  - replace (rb =? ra) with false by (symmetry; apply N.eqb_neq; auto).
    rewrite N.eqb_refl. cbn [getp setp].
    destruct (rem_in (pb s)) as [|y l] eqn:Er; cbn [can_push length Nat.ltb Nat.leb PCAP].
    + right. cbn [fst]. mu_lt. rewrite (sumw_remove _ _ _ En), Er. cbn. lia.
    + left. split; auto. intros _. right; left; discriminate.
  - rewrite N.eqb_refl. cbn [getp setp].
    destruct (rem_in (pa s)) as [|y l] eqn:Er; cbn [can_push length Nat.ltb Nat.leb PCAP].
    + right. cbn [fst]. mu_lt. rewrite (sumw_remove _ _ _ En), Er. cbn. lia.
    + left. split; auto. intros _. right; right; discriminate.
Qed.

Lemma E_sl_A s : INV s -> let s' := fst (step s (ESendLocal PA)) in
  (s' = s /\ loc_out (pa s) = []) \/ (mu s' < mu s)%nat.
Proof.
  intros H. rewrite stepu by auto. cbn [getp setp getmq setmq].
  destruct (loc_out (pa s)) as [|m r] eqn:E; [left; auto|]. right. cbn [fst].
  mu_lt. rewrite E. cbn. lia.
Qed.
Lemma E_sl_B s : INV s -> let s' := fst (step s (ESendLocal PB)) in
  (s' = s /\ loc_out (pb s) = []) \/ (mu s' < mu s)%nat.
Proof.
  intros H. rewrite stepu by auto. cbn [getp setp getmq setmq].
  destruct (loc_out (pb s)) as [|m r] eqn:E; [left; auto|]. right. cbn [fst].
  mu_lt. rewrite E. cbn. lia.
Qed.

Lemma E_ms_A s k : INV s -> let s' := fst (step s (EMemServe PA k)) in
  (s' = s /\ (k = 0%nat -> mqa s = [])) \/ (mu s' < mu s)%nat.
Proof.
  intros H. rewrite stepu by auto. cbn [getp setp getmq setmq getmr setmr getst setst].
  destruct (nth_error (mqa s) k) as [m|] eqn:En.
  2:{ left. split; auto. intros ->. destruct (mqa s); [auto|discriminate]. }
  assert (Hm : isWQ m).
  { pose proof (k_mqa _ (KINDS H)) as K. rewrite Forall_forall in K. apply K. eapply nth_error_In; eauto. }
  destruct Hm as (w & ->). cbn [mem_serve fst]. right. mu_lt. rewrite (length_remove _ _ _ En). lia.
Qed.
Lemma E_ms_B s k : INV s -> let s' := fst (step s (EMemServe PB k)) in
  (s' = s /\ (k = 0%nat -> mqb s = [])) \/ (mu s' < mu s)%nat.
Proof.
  intros H. rewrite stepu by auto. cbn [getp setp getmq setmq getmr setmr getst setst].
  destruct (nth_error (mqb s) k) as [m|] eqn:En.
  2:{ left. split; auto. intros ->. destruct (mqb s); [auto|discriminate]. }
  assert (Hm : isRQ m).
  { pose proof (k_mqb _ (KINDS H)) as K. rewrite Forall_forall in K. apply K. eapply nth_error_In; eauto. }
  destruct Hm as (w & ->). cbn [mem_serve fst]. right. mu_lt. rewrite (length_remove _ _ _ En). lia.
Qed.

Lemma E_dl_A s k : INV s -> let s' := fst (step s (EDeliverLocal PA k)) in
  (s' = s /\ (k = 0%nat -> mra s = [] \/ loc_in (pa s) <> [])) \/ (mu s' < mu s)%nat.
Proof.
  intros H. rewrite stepu by auto. cbn [getp setp getmr setmr].
  destruct (nth_error (mra s) k) as [m|] eqn:En.
  2:{ left. split; auto. intros ->. destruct (mra s); [auto|discriminate]. }
  destruct (loc_in (pa s)) as [|y l] eqn:Er; cbn [can_push length Nat.ltb Nat.leb PCAP].
  - right. cbn [fst]. mu_lt. rewrite (length_remove _ _ _ En), Er. cbn. lia.
  - left. split; auto. intros _. right; discriminate.
Qed.
Lemma E_dl_B s k : INV s -> let s' := fst (step s (EDeliverLocal PB k)) in
  (s' = s /\ (k = 0%nat -> mrb s = [] \/ loc_in (pb s) <> [])) \/ (mu s' < mu s)%nat.
Proof.
  intros H. rewrite stepu by auto. cbn [getp setp getmr setmr].
  destruct (nth_error (mrb s) k) as [m|] eqn:En.
  2:{ left. split; auto. intros ->. destruct (mrb s); [auto|discriminate]. }
  destruct (loc_in (pb s)) as [|y l] eqn:Er; cbn [can_push length Nat.ltb Nat.leb PCAP].
  - right. cbn [fst]. mu_lt. rewrite (length_remove _ _ _ En), Er. cbn. lia.
  - left. split; auto. intros _. right; discriminate.
Qed.

Lemma E_tc_A s : INV s -> let s' := fst (step s (ETakeCtrl PA)) in
  (s' = s /\ ctl_out (pa s) = []) \/ (mu s' < mu s)%nat.
Proof.
  intros H. rewrite stepu by auto. cbn [getp setp].
  destruct (ctl_out (pa s)) as [|m r] eqn:E; [left; auto|]. right. cbv zeta. cbn [fst].
  mu_lt. rewrite E. cbn. lia.
Qed.
Lemma E_tc_B s : INV s -> fst (step s (ETakeCtrl PB)) = s.
Proof.
  intros H. rewrite stepu by auto. cbn [getp setp].
  destruct (i_B _ _ _ _ _ _ _ _ _ _ _ H) as (_ & _ & _ & _ & _ & _ & _ & _ & E). rewrite E. reflexivity.
Qed.

Lemma E_tick_A s : INV2 s -> let s' := fst (step s (ETick PA)) in
  (s' = s /\ idleA (pa s)) \/ (mu s' < mu s)%nat.
Proof.
  intros H. rewrite stepu by apply H. cbn [getp setp].
  pose proof (tick_chain_A s H) as C. cbv zeta in C.
  destruct (tick (pa s)) as [p pr]. cbn [fst] in *. tauto.
Qed.
Lemma E_tick_B s : INV2 s -> let s' := fst (step s (ETick PB)) in
  (s' = s /\ idleA (pb s)) \/ (mu s' < mu s)%nat.
Proof.
  intros H. rewrite stepu by apply H. cbn [getp setp].
  pose proof (tick_chain_B s H) as C. cbv zeta in C.
  destruct (tick (pb s)) as [p pr]. cbn [fst] in *. tauto.
Qed.

(** ** No event increases the rank; an event that changes the state lowers it *)
Definition quiet (e : ev) : Prop :=
  match e with ECtrlReq _ _ | EInject _ => False | _ => True end.

Lemma quiet_ok e : quiet e -> ok_ev ca rb e.
Proof. destruct e; cbn; tauto. Qed.

Lemma step_dich s e : quiet e -> INV2 s ->
  fst (step s e) = s \/ (mu (fst (step s e)) < mu s)%nat.
Proof.
  intros Hq H. pose proof (proj1 H) as Hi.
  destruct e as [w|w|k|w|w k|w k|w m|w|m]; try destruct Hq; try destruct w.
  - destruct (E_tick_A s H); tauto.
  - destruct (E_tick_B s H); tauto.
  - destruct (E_sr_A s Hi); tauto.
  - destruct (E_sr_B s Hi); tauto.
  - destruct (E_dr s k Hi); tauto.
  - destruct (E_sl_A s Hi); tauto.
  - destruct (E_sl_B s Hi); tauto.
  - destruct (E_ms_A s k Hi); tauto.
  - destruct (E_ms_B s k Hi); tauto.
  - destruct (E_dl_A s k Hi); tauto.
  - destruct (E_dl_B s k Hi); tauto.
  - destruct (E_tc_A s Hi); tauto.
  - left. apply E_tc_B; auto.
Qed.

Lemma g_acc_quiet s e : quiet e -> INV s -> g_acc (fst (step s e)) = g_acc s.
Proof.
  intros Hq H. rewrite stepu by auto.
  destruct e as [w|w|k|w|w k|w k|w m|w|m]; try destruct Hq; try destruct w;
    cbv zeta; cbn [getp setp getmq setmq getmr setmr getst setst];
    repeat match goal with |- context [match ?x with _ => _ end] => destruct x end; reflexivity.
Qed.

(** the twelve canonical actions of a fair round *)
Definition round12 : list ev :=
  [ETick PA; ETick PB; ESendRemote PA; ESendRemote PB; EDeliverRemote 0; ESendLocal PA; ESendLocal PB;
   EMemServe PA 0; EMemServe PB 0; EDeliverLocal PA 0; EDeliverLocal PB 0; ETakeCtrl PA].

Definition sizes_ok (s : sys) : Prop := Forall (fun r => 64 <= mg_size r) (g_acc s).

Lemma nil_or {T} (l : list T) : l = [] \/ l <> [].
Proof. destruct l; [left; auto|right; discriminate]. Qed.

(** if none of the canonical actions changes the state, nothing is left to do *)
Lemma stuck_mu0 s : INV2 s -> sizes_ok s ->
  (forall a, In a round12 -> fst (step s a) = s) -> mu s = 0%nat.
Proof.
  intros H Hsz Hst. pose proof (proj1 H) as Hi.
  assert (Hno : forall a, In a round12 -> ~ (mu (fst (step s a)) < mu s)%nat).
  { intros a Ha. rewrite (Hst a Ha). lia. }
  unfold round12 in Hno. cbn [In] in Hno.
  destruct (E_tick_A s H) as [[_ IA]|?]; [|exfalso; eapply Hno; [|eassumption]; tauto].
  destruct (E_tick_B s H) as [[_ IB]|?]; [|exfalso; eapply Hno; [|eassumption]; tauto].
  destruct (E_sr_A s Hi) as [[_ R1]|?]; [|exfalso; eapply Hno; [|eassumption]; tauto].
  destruct (E_sr_B s Hi) as [[_ R2]|?]; [|exfalso; eapply Hno; [|eassumption]; tauto].
  destruct (E_dr s 0 Hi) as [[_ R3]|?]; [|exfalso; eapply Hno; [|eassumption]; tauto].
  destruct (E_sl_A s Hi) as [[_ R4]|?]; [|exfalso; eapply Hno; [|eassumption]; tauto].
  destruct (E_sl_B s Hi) as [[_ R5]|?]; [|exfalso; eapply Hno; [|eassumption]; tauto].
  destruct (E_ms_A s 0 Hi) as [[_ R6]|?]; [|exfalso; eapply Hno; [|eassumption]; tauto].
  destruct (E_ms_B s 0 Hi) as [[_ R7]|?]; [|exfalso; eapply Hno; [|eassumption]; tauto].
  destruct (E_dl_A s 0 Hi) as [[_ R8]|?]; [|exfalso; eapply Hno; [|eassumption]; tauto].
  destruct (E_dl_B s 0 Hi) as [[_ R9]|?]; [|exfalso; eapply Hno; [|eassumption]; tauto].
  destruct (E_tc_A s Hi) as [[_ R10]|?]; [|exfalso; eapply Hno; [|eassumption]; tauto].
  specialize (R3 eq_refl). specialize (R6 eq_refl). specialize (R7 eq_refl).
  specialize (R8 eq_refl). specialize (R9 eq_refl).
  destruct IA as (a1 & a2 & a3 & a4 & a5 & a6 & a7 & a8 & a9 & a10 & a11 & a12 & a13 & _).
  destruct IB as (b1 & b2 & b3 & b4 & b5 & b6 & b7 & b8 & b9 & b10 & b11 & b12 & b13 & _).
  unfold en1, en2, en3, en4, en5, en6, en8, en10, en11, en12, en13 in *.
  assert (T1 : to_pull (pa s) = []) by (destruct (nil_or (to_pull (pa s))); tauto).
  assert (T2 : to_ctrl (pa s) = None) by (destruct (to_ctrl (pa s)); auto; exfalso; apply a3; split; [discriminate|auto]).
  assert (T3 : write_reqs (pa s) = []) by (destruct (nil_or (write_reqs (pa s))); tauto).
  assert (T4 : rem_in (pa s) = []) by (destruct (nil_or (rem_in (pa s))); tauto).
  assert (T5 : loc_in (pa s) = []) by (destruct (nil_or (loc_in (pa s))); tauto).
  assert (T6 : recv_data (pa s) = []) by (destruct (nil_or (recv_data (pa s))); tauto).
  assert (T7 : recv_wdone (pa s) = None) by (destruct (recv_wdone (pa s)); auto; exfalso; apply a13; discriminate).
  assert (U1 : to_read (pb s) = []) by (destruct (nil_or (to_read (pb s))); tauto).
  assert (U2 : to_rsp (pb s) = []) by (destruct (nil_or (to_rsp (pb s))); tauto).
  assert (U3 : rem_in (pb s) = []) by (destruct (nil_or (rem_in (pb s))); tauto).
  assert (U4 : loc_in (pb s) = []) by (destruct (nil_or (loc_in (pb s))); tauto).
  assert (U5 : cur_pull (pb s) = []) by (destruct (nil_or (cur_pull (pb s))); tauto).
  assert (U6 : data_ready (pb s) = []) by (destruct (nil_or (data_ready (pb s))); tauto).
  assert (V1 : net s = []) by (destruct R3 as [?|[?|?]]; [auto|congruence|congruence]).
  assert (V2 : mra s = []) by (destruct R8; [auto|congruence]).
  assert (V3 : mrb s = []) by (destruct R9; [auto|congruence]).
  (* the phase *)
  assert (P : cur_mig (pa s) = None /\ ctl_in (pa s) = []).
  { pose proof (i_phase _ _ _ _ _ _ _ _ _ _ _ Hi) as Hp. unfold Phase in Hp. rewrite T2 in Hp.
    destruct (cur_mig (pa s)) as [r|] eqn:Ecm.
    - destruct (handling (pa s)) eqn:Eh.
      + destruct Hp as (b & HT). exfalso.
        assert (E1 : toks1 s = []) by (unfold toks1; rewrite T1, R1, V1, U3, U5, U1, R5, R7, V3, U4, U6, U2, R2, T4, T6; reflexivity).
        assert (E2 : toks2 s = []) by (unfold toks2; rewrite T3, R4, R6; reflexivity).
        assert (E3 : toks3 s = []) by (unfold toks3; rewrite V2, T5, T7; reflexivity).
        rewrite E1, E2, E3 in HT. destruct HT as [? ? ? ? ? Hnp ? ? Hpos]. cbn in Hnp.
        assert (Hr : In r (g_acc s)).
        { destruct (i_queue _ _ _ _ _ _ _ _ _ _ _ Hi) as (w & _ & Eq). rewrite Ecm in Eq.
          apply (skipn_incl (ndone s)). rewrite Eq. cbn. auto. }
        unfold sizes_ok in Hsz. rewrite Forall_forall in Hsz. specialize (Hsz r Hr).
        assert (1 <= nch r) by (unfold nch; apply N.div_le_lower_bound; lia).
        destruct Hpos; lia.
      + exfalso. apply a9. unfold en9. rewrite Ecm. split; [discriminate|auto].
    - destruct (handling (pa s)) eqn:Eh; [tauto|]. split; auto.
      destruct (nil_or (ctl_in (pa s))); auto. exfalso. apply a7. unfold en7. auto. }
  destruct P as (P1 & P2).
  unfold mu, wcur. rewrite P1, P2, T2, R10, T1, R1, V1, U3, U5, U1, R5, R7, V3, U4, U6, U2, R2, T4, T6, T3, R4, R6, V2, T5, T7.
  reflexivity.
Qed.

(** ** Fair schedules *)
Definition LiveInv (s : sys) : Prop := INV2 s /\ sizes_ok s.

Lemma run_quiet seg : forall s, LiveInv s -> Forall quiet seg ->
  LiveInv (run s seg) /\ (mu (run s seg) <= mu s)%nat /\
  (mu (run s seg) = mu s -> forall e, In e seg -> fst (step s e) = s).
Proof.
  induction seg as [|e seg IH]; intros s [H Hsz] Hq.
  - cbn. split; [split; auto|]. split; [lia|]. intros _ e0 [].
  - inversion Hq as [|? ? Hqe Hqs]; subst. cbn [run fold_left].
    assert (HL : LiveInv (fst (step s e))).
    { split.
      - apply (step_inv ra ca la ma rb cb lb mb sa0 sb0 Hra Hrb Hrab Hma Hmb); auto. apply quiet_ok; auto.
      - unfold sizes_ok. rewrite g_acc_quiet; [exact Hsz|auto|apply H]. }
    destruct (IH _ HL Hqs) as (HL' & Hle & Hsame).
    fold (run (fst (step s e)) seg) in *.
    destruct (step_dich s e Hqe H) as [E|Hlt].
    + rewrite E in *. split; [exact HL'|]. split; [exact Hle|]. intros Hm e' [<-|Hin]; auto.
    + split; [exact HL'|]. split; [lia|]. intros Hm. lia.
Qed.

Lemma g_acc_run_quiet evs : forall s, INV2 s -> Forall quiet evs -> g_acc (run s evs) = g_acc s.
Proof.
  induction evs as [|e evs IH]; intros s H Hq; [reflexivity|].
  inversion Hq; subst. cbn [run fold_left]. fold (run (fst (step s e)) evs).
  rewrite IH; auto.
  - apply g_acc_quiet; auto. apply H.
  - apply (step_inv ra ca la ma rb cb lb mb sa0 sb0 Hra Hrb Hrab Hma Hmb); auto. apply quiet_ok; auto.
Qed.

Definition covers (seg : list ev) : Prop := forall a, In a round12 -> In a seg.

(** [fair k evs]: the schedule starts with k consecutive segments in each of
    which every canonical action occurs at least once (anything may happen in
    between, in any order), followed by anything *)
Inductive fair : nat -> list ev -> Prop :=
| fair_0 evs : fair 0 evs
| fair_S k seg rest : covers seg -> fair k rest -> fair (S k) (seg ++ rest).

Lemma run_app s l1 l2 : run s (l1 ++ l2) = run (run s l1) l2.
Proof. unfold run. apply fold_left_app. Qed.

Lemma segment_progress s seg : LiveInv s -> Forall quiet seg -> covers seg ->
  (mu (run s seg) < mu s)%nat \/ mu s = 0%nat.
Proof.
  intros HL Hq Hc. destruct (run_quiet seg s HL Hq) as (_ & Hle & Hsame).
  destruct (Nat.eq_dec (mu (run s seg)) (mu s)) as [E|N]; [|left; lia].
  right. apply stuck_mu0; try apply HL. intros a Ha. apply Hsame; auto.
Qed.

Lemma fair_progress k : forall evs s, LiveInv s -> Forall quiet evs -> fair k evs ->
  (mu (run s evs) <= mu s - k)%nat.
Proof.
  induction k as [|k IH]; intros evs s HL Hq Hf.
  - destruct (run_quiet evs s HL Hq) as (_ & Hle & _). lia.
  - inversion Hf as [|? seg rest Hc Hr]; subst. apply Forall_app in Hq. destruct Hq as [Hq1 Hq2].
    rewrite run_app. destruct (run_quiet seg s HL Hq1) as (HL1 & Hle & _).
    specialize (IH rest _ HL1 Hq2 Hr).
    destruct (segment_progress s seg HL Hq1 Hc); lia.
Qed.

(** rank 0 means: every accepted request has been completed and its
    completion has been taken by the command processor *)
Lemma mu0_done s : INV s -> mu s = 0%nat ->
  g_done s = map (fun r => MMigRsp (mkMigRsp ca (mg_src r))) (g_acc s) /\
  completed s = g_acc s /\ cur_mig (pa s) = None /\ ctl_in (pa s) = [] /\ ctl_out (pa s) = [].
Proof.
  intros H Hm. unfold mu in Hm.
  assert (Hc : ctl_out (pa s) = []) by (destruct (ctl_out (pa s)); [auto|cbn in Hm; lia]).
  assert (Ht : to_ctrl (pa s) = None) by (destruct (to_ctrl (pa s)); [cbn in Hm; lia|auto]).
  assert (Hcm : cur_mig (pa s) = None).
  { unfold wcur in Hm. destruct (cur_mig (pa s)); auto. destruct (handling (pa s)); lia. }
  destruct (i_queue _ _ _ _ _ _ _ _ _ _ _ H) as (w & Ew & Eq).
  assert (Hw : w = []).
  { destruct w as [|r w]; auto. rewrite Ew in Hm. cbn [map] in Hm. rewrite sumc_cons in Hm.
    cbn [wmsg] in Hm. unfold wreq in Hm. lia. }
  subst w. rewrite Hcm in Eq. cbn in Eq.
  pose proof (i_nd _ _ _ _ _ _ _ _ _ _ _ H) as Hnd.
  assert (Hcomp : completed s = g_acc s).
  { unfold completed. rewrite <- (firstn_skipn (ndone s) (g_acc s)) at 2. rewrite Eq, app_nil_r. reflexivity. }
  pose proof (i_rsp _ _ _ _ _ _ _ _ _ _ _ H) as Hr. rewrite Hc, Ht, Hcomp in Hr. cbn in Hr. rewrite app_nil_r in Hr.
  repeat split; auto.
Qed.

End Live.

(** ** The liveness theorem *)
Theorem liveness : forall ra ca la ma rb cb lb mb sa0 sb0,
  names_ok ra la ma rb lb mb ->
  forall evs0 evs,
  Forall (ok_ev ca rb) evs0 ->
  Forall quiet evs ->
  let s0 := run (s_init ra ca la ma rb cb lb mb sa0 sb0) evs0 in
  Forall (fun r => 64 <= mg_size r) (g_acc s0) ->
  fair (mu s0) evs ->
  let s := run s0 evs in
  g_acc s = g_acc s0 /\
  g_done s = map (fun r => MMigRsp (mkMigRsp ca (mg_src r))) (g_acc s) /\
  completed s = g_acc s /\ cur_mig (pa s) = None /\ ctl_in (pa s) = [] /\ ctl_out (pa s) = [].
Proof.
  intros ra ca la ma rb cb lb mb sa0 sb0 (Hra & Hrb & Hrab & Hma & Hmb) evs0 evs Hok Hq s0 Hsz Hf s.
  assert (H0 : Inv2 ra ca la ma rb cb lb mb sa0 sb0 s0).
  { apply (run_inv ra ca la ma rb cb lb mb sa0 sb0 Hra Hrb Hrab Hma Hmb); auto.
    apply (init_inv2 ra ca la ma rb cb lb mb sa0 sb0); auto. }
  assert (HL : LiveInv ra ca la ma rb cb lb mb sa0 sb0 s0) by (split; auto).
  pose proof (fair_progress ra ca la ma rb cb lb mb sa0 sb0 Hra Hrb Hrab Hma Hmb _ evs s0 HL Hq Hf) as Hmu.
  destruct (run_quiet ra ca la ma rb cb lb mb sa0 sb0 Hra Hrb Hrab Hma Hmb evs s0 HL Hq) as ((Hi & Hs) & _ & _).
  fold s in Hmu, Hi, Hs.
  split.
  - apply (g_acc_run_quiet ra ca la ma rb cb lb mb sa0 sb0 Hra Hrb Hrab Hma Hmb); auto.
  - apply (mu0_done ra ca la ma rb cb lb mb sa0 sb0); auto; [apply Hi|lia].
Qed.
