(** Both directions at once: A pulls pages from B while B pulls pages from A.
    The invariant of PmcProofs.v is stated per direction [w] (the puller);
    shared buffers are seen through [filter (own w)], so the other direction's
    traffic is invisible to it.  This file: definitions and generic lemmas. *)
From Coq Require Import Permutation ZifyN ZifyNat ZifyBool.
From VMem Require Import Pmc PmcLemmas PmcProofs.
From RecordUpdate Require Import RecordSet.
Import RecordSetNotations.
Open Scope N_scope.

Definition other (w : who) : who := match w with PA => PB | PB => PA end.
Lemma other_other w : other (other w) = w.
Proof. destruct w; reflexivity. Qed.

(** ** Accessor algebra (the controller [w] is kept abstract in the proofs) *)
Lemma getp_setp w p s : getp w (setp w p s) = p.
Proof. destruct w, s; reflexivity. Qed.
Lemma getp_setp_o w p s : getp (other w) (setp w p s) = getp (other w) s.
Proof. destruct w, s; reflexivity. Qed.
Lemma getp_setp_o' w p s : getp w (setp (other w) p s) = getp w s.
Proof. destruct w, s; reflexivity. Qed.
Lemma setp_same w s : setp w (getp w s) s = s.
Proof. destruct w, s; reflexivity. Qed.
Lemma setp_twice w p1 p2 s : setp w p2 (setp w p1 s) = setp w p2 s.
Proof. destruct w, s; reflexivity. Qed.
Lemma net_setp w p s : net (setp w p s) = net s.
Proof. destruct w, s; reflexivity. Qed.
Lemma getmq_setp w' w p s : getmq w' (setp w p s) = getmq w' s.
Proof. destruct w', w, s; reflexivity. Qed.
Lemma getmr_setp w' w p s : getmr w' (setp w p s) = getmr w' s.
Proof. destruct w', w, s; reflexivity. Qed.
Lemma getst_setp w' w p s : getst w' (setp w p s) = getst w' s.
Proof. destruct w', w, s; reflexivity. Qed.

(** port names (remote, control, local-memory port, memory controller), initial
    memories and the region of each memory that pages are only read from *)
Record names := mkNames {
  nR : who -> N; nC : who -> N; nL : who -> N; nM : who -> N;
  nS0 : who -> store; nRO : who -> N -> Prop }.
Definition names_okb (cf : names) : Prop :=
  (forall w, nR cf w <> 0) /\ nR cf PA <> nR cf PB /\ nL cf PA <> nL cf PB /\
  (forall w, nM cf w <> 0 /\ nM cf w <> nL cf w).

Section Bi.
Variable cf : names.
Hypothesis Hok : names_okb cf.
Notation R := (nR cf).
Notation C := (nC cf).
Notation L := (nL cf).
Notation M := (nM cf).
Notation s0 := (nS0 cf).
Notation ro := (nRO cf).
Lemma HR0 : forall w, R w <> 0.
Proof. apply Hok. Qed.
Lemma HRd : R PA <> R PB.
Proof. apply Hok. Qed.
Lemma HLd : L PA <> L PB.
Proof. apply Hok. Qed.
Lemma HM : forall w, M w <> 0 /\ M w <> L w.
Proof. apply Hok. Qed.

Lemma R_other w : R w <> R (other w).
Proof. pose proof HRd. destruct w; cbn; auto. Qed.
Lemma L_other w : L w <> L (other w).
Proof. pose proof HLd. destruct w; cbn; auto. Qed.

(** which direction a message belongs to ([w] = the controller that pulls) *)
Definition own (w : who) (m : pmsg) : bool :=
  match m with
  | MPullReq q => pq_src q =? R w
  | MPullRsp p => pr_dst p =? R w
  | MRdReq q => rq_src q =? L (other w)
  | MDReady d => dr_dst d =? L (other w)
  | MWrReq x => wq_src x =? L w
  | MWDone x => wd_dst x =? L w
  | _ => false
  end.

Lemma own_excl w m : own w m = true -> own (other w) m = false.
Proof.
  pose proof (R_other w). pose proof (L_other w).
  destruct m; cbn; try discriminate; rewrite ?other_other; intros E; apply N.eqb_eq in E;
    apply N.eqb_neq; congruence.
Qed.

Definition fo (w : who) (l : list pmsg) : list pmsg := filter (own w) l.
Arguments fo : simpl never.
Lemma fo_app w l1 l2 : fo w (l1 ++ l2) = fo w l1 ++ fo w l2.
Proof. apply filter_app. Qed.
Lemma fo_cons_own w m l : own w m = true -> fo w (m :: l) = m :: fo w l.
Proof. unfold fo. cbn. intros ->. reflexivity. Qed.
Lemma fo_cons_not w m l : own w m = false -> fo w (m :: l) = fo w l.
Proof. unfold fo. cbn. intros ->. reflexivity. Qed.
Lemma fo_all w l : Forall (fun m => own w m = true) l -> fo w l = l.
Proof. induction 1; cbn; auto. unfold fo in *. cbn. rewrite H, IHForall. reflexivity. Qed.
Lemma fo_none w l : Forall (fun m => own w m = false) l -> fo w l = [].
Proof. induction 1; cbn; auto. unfold fo in *. cbn. rewrite H, IHForall. reflexivity. Qed.
Lemma fo_perm w l l' : Permutation l l' -> Permutation (fo w l) (fo w l').
Proof.
  induction 1; cbn; auto.
  - unfold fo. cbn. destruct (own w x); auto.
  - unfold fo. cbn. destruct (own w x), (own w y); auto. apply perm_swap.
  - etransitivity; eauto.
Qed.
Lemma fo_remove w l : forall k m, nth_error l k = Some m ->
  fo w (remove_nth k l) = if own w m then (* one occurrence leaves *) fo w (remove_nth k l) else fo w l.
Proof.
  induction l as [|x l IH]; intros [|k] m E; cbn in E; try discriminate.
  - inversion E; subst. cbn [remove_nth]. destruct (own w m) eqn:Eo; auto. rewrite fo_cons_not; auto.
  - cbn [remove_nth]. specialize (IH k m E). destruct (own w m) eqn:Eo; auto.
    unfold fo in *. cbn. rewrite IH. reflexivity.
Qed.

(** ** Direction-indexed views of the system *)
Definition Pc (w : who) (s : sys) : pmc := getp w s.            (* the puller *)
Definition Sc (w : who) (s : sys) : pmc := getp (other w) s.    (* the source *)
Definition gacc (w : who) (s : sys) : list migreq := match w with PA => g_acc s | PB => g_accb s end.
Definition gdone (w : who) (s : sys) : list pmsg := match w with PA => g_done s | PB => g_doneb s end.

Notation OKW w := (okM (R w) (L w) (M w) (R (other w)) (L (other w)) (M (other w)) (s0 (other w))).
Notation TFW w := (TF (R w) (L w) (M w) (R (other w)) (L (other w)) (M (other w)) (s0 (other w))).

Definition toks1 (w : who) (s : sys) : list pmsg :=
  map MPullReq (to_pull (Pc w s)) ++ fo w (rem_out (Pc w s)) ++ fo w (net s) ++ fo w (rem_in (Sc w s)) ++
  map MPullReq (cur_pull (Sc w s)) ++ map MRdReq (to_read (Sc w s)) ++ fo w (loc_out (Sc w s)) ++
  fo w (getmq (other w) s) ++ fo w (getmr (other w) s) ++ fo w (loc_in (Sc w s)) ++
  map MDReady (data_ready (Sc w s)) ++ map MPullRsp (to_rsp (Sc w s)) ++ fo w (rem_out (Sc w s)) ++
  fo w (rem_in (Pc w s)) ++ map MPullRsp (recv_data (Pc w s)).
Definition toks2 (w : who) (s : sys) : list pmsg :=
  map MWrReq (write_reqs (Pc w s)) ++ fo w (loc_out (Pc w s)) ++ fo w (getmq w s).
Definition toks3 (w : who) (s : sys) : list pmsg :=
  fo w (getmr w s) ++ fo w (loc_in (Pc w s)) ++ map MWDone (olist (recv_wdone (Pc w s))).

Definition blen (w : who) (s : sys) : nat :=
  (length (cur_pull (Sc w s)) + length (to_read (Sc w s)) + length (fo w (loc_out (Sc w s))) +
   length (fo w (getmq (other w) s)) + length (fo w (getmr (other w) s)) + length (fo w (loc_in (Sc w s))) +
   length (data_ready (Sc w s)))%nat.

(** kinds of this direction's messages, location by location *)
Definition KF (w : who) (P : pmsg -> Prop) (l : list pmsg) : Prop := Forall P (fo w l).
Record KindsW (w : who) (s : sys) : Prop := {
  k_rop : KF w isPQ (rem_out (Pc w s));
  k_rip : KF w isPR (rem_in (Pc w s));
  k_lop : KF w isWQ (loc_out (Pc w s));
  k_lip : KF w isWD (loc_in (Pc w s));
  k_ros : KF w isPR (rem_out (Sc w s));
  k_ris : KF w isPQ (rem_in (Sc w s));
  k_los : KF w isRQ (loc_out (Sc w s));
  k_lis : KF w isDR (loc_in (Sc w s));
  k_net : KF w (fun m => isPQ m \/ isPR m) (net s);
  k_mqp : KF w isWQ (getmq w s);
  k_mrp : KF w isWD (getmr w s);
  k_mqs : KF w isRQ (getmq (other w) s);
  k_mrs : KF w isDR (getmr (other w) s)
}.

(** every message in a shared buffer belongs to one of the two directions *)
Definition EX (l : list pmsg) : Prop := Forall (fun m => own PA m = true \/ own PB m = true) l.
Record Exh (s : sys) : Prop := {
  x_roa : EX (rem_out (pa s)); x_ria : EX (rem_in (pa s)); x_loa : EX (loc_out (pa s)); x_lia : EX (loc_in (pa s));
  x_rob : EX (rem_out (pb s)); x_rib : EX (rem_in (pb s)); x_lob : EX (loc_out (pb s)); x_lib : EX (loc_in (pb s));
  x_net : EX (net s); x_mqa : EX (mqa s); x_mra : EX (mra s); x_mqb : EX (mqb s); x_mrb : EX (mrb s)
}.

Definition wf_reqw (w : who) (r : migreq) : Prop :=
  mg_remote r = R (other w) /\ mg_size r mod 64 = 0 /\ mg_src r <> 0 /\ mg_src r <> C w /\
  (forall a, mg_rd r <= a < mg_rd r + mg_size r -> ro (other w) a) /\
  (forall a, mg_wr r <= a < mg_wr r + mg_size r -> ~ ro w a).

Definition copyw (w : who) := copy_req (s0 (other w)).
Definition rspw (w : who) (r : migreq) : pmsg := MMigRsp (mkMigRsp (C w) (mg_src r)).
Definition ndonew (w : who) (s : sys) : nat :=
  (length (gdone w s) + length (ctl_out (Pc w s)) + length (olist (to_ctrl (Pc w s))))%nat.
Definition completedw (w : who) (s : sys) : list migreq := firstn (ndonew w s) (gacc w s).
Definition basew (w : who) (s : sys) : store := fold_left (copyw w) (completedw w s) (s0 w).

Definition NoTokW (w : who) (s : sys) : Prop :=
  toks1 w s = [] /\ toks2 w s = [] /\ toks3 w s = [] /\ num_pending (Pc w s) = (-1)%Z /\
  forall a, getst w s a = basew w s a.

Definition PhaseW (w : who) (s : sys) : Prop :=
  match cur_mig (Pc w s), handling (Pc w s), to_ctrl (Pc w s) with
  | None, false, None => NoTokW w s
  | Some _, false, None => NoTokW w s
  | Some r, true, None =>
    exists b, TFW w r b (toks1 w s) (toks2 w s) (toks3 w s) (idmap (Pc w s)) (num_pending (Pc w s))
                        (getst w s) (basew w s)
  | None, true, Some _ => NoTokW w s
  | _, _, _ => False
  end.

Record InvD (w : who) (s : sys) : Prop := {
  d_K : KindsW w s;
  d_req : (0 < blen w s)%nat -> requester (Sc w s) = R w;
  d_queue : exists waiting, ctl_in (Pc w s) = map MMigReq waiting /\
                            skipn (ndonew w s) (gacc w s) = olist (cur_mig (Pc w s)) ++ waiting;
  d_nd : (ndonew w s <= length (gacc w s))%nat;
  d_rsp : gdone w s ++ ctl_out (Pc w s) ++ map MMigRsp (olist (to_ctrl (Pc w s))) = map (rspw w) (completedw w s);
  d_wf : Forall (wf_reqw w) (gacc w s);
  d_ro : forall a, ro (other w) a -> getst (other w) s a = s0 (other w) a;
  d_phase : PhaseW w s
}.

Record InvB (s : sys) : Prop := {
  b_crA : crashed (pa s) = false;
  b_crB : crashed (pb s) = false;
  b_cfgA : cfg_is (pa s) (R PA) (C PA) (L PA) (M PA);
  b_cfgB : cfg_is (pb s) (R PB) (C PB) (L PB) (M PB);
  b_ex : Exh s;
  b_dA : InvD PA s;
  b_dB : InvD PB s
}.

Definition sb_init : sys :=
  init_sys (init_pmc (R PA) (C PA) (L PA) (M PA)) (init_pmc (R PB) (C PB) (L PB) (M PB)) (s0 PA) (s0 PB).

Lemma initD w : InvD w sb_init.
Proof.
  destruct w; constructor; cbn; auto; try lia.
  all: try (constructor; unfold KF, fo; cbn; constructor).
  all: try (exists []; auto).
  all: try (unfold PhaseW, NoTokW, toks1, toks2, toks3, fo; cbn; repeat split; auto).
  all: try (unfold blen, fo; cbn; lia).
Qed.

Lemma initB : InvB sb_init.
Proof.
  constructor; cbn; auto using initD; try (repeat split; reflexivity).
  constructor; cbn; constructor.
Qed.

(** ** What a direction can see *)
Definition SameD (w : who) (s s' : sys) : Prop :=
  (to_pull (Pc w s') = to_pull (Pc w s) /\ recv_data (Pc w s') = recv_data (Pc w s) /\
   write_reqs (Pc w s') = write_reqs (Pc w s) /\ recv_wdone (Pc w s') = recv_wdone (Pc w s) /\
   cur_mig (Pc w s') = cur_mig (Pc w s) /\ handling (Pc w s') = handling (Pc w s) /\
   to_ctrl (Pc w s') = to_ctrl (Pc w s) /\ idmap (Pc w s') = idmap (Pc w s) /\
   num_pending (Pc w s') = num_pending (Pc w s) /\ ctl_in (Pc w s') = ctl_in (Pc w s) /\
   ctl_out (Pc w s') = ctl_out (Pc w s)) /\
  (cur_pull (Sc w s') = cur_pull (Sc w s) /\ to_read (Sc w s') = to_read (Sc w s) /\
   data_ready (Sc w s') = data_ready (Sc w s) /\ to_rsp (Sc w s') = to_rsp (Sc w s) /\
   requester (Sc w s') = requester (Sc w s)) /\
  (fo w (rem_out (Pc w s')) = fo w (rem_out (Pc w s)) /\ fo w (rem_in (Pc w s')) = fo w (rem_in (Pc w s)) /\
   fo w (loc_out (Pc w s')) = fo w (loc_out (Pc w s)) /\ fo w (loc_in (Pc w s')) = fo w (loc_in (Pc w s)) /\
   fo w (rem_out (Sc w s')) = fo w (rem_out (Sc w s)) /\ fo w (rem_in (Sc w s')) = fo w (rem_in (Sc w s)) /\
   fo w (loc_out (Sc w s')) = fo w (loc_out (Sc w s)) /\ fo w (loc_in (Sc w s')) = fo w (loc_in (Sc w s)) /\
   fo w (net s') = fo w (net s) /\ fo w (getmq w s') = fo w (getmq w s) /\ fo w (getmr w s') = fo w (getmr w s) /\
   fo w (getmq (other w) s') = fo w (getmq (other w) s) /\ fo w (getmr (other w) s') = fo w (getmr (other w) s)) /\
  (gacc w s' = gacc w s /\ gdone w s' = gdone w s /\ (forall a, getst w s' a = getst w s a) /\
   (forall a, ro (other w) a -> getst (other w) s' a = getst (other w) s a)).

Lemma frameD w s s' : SameD w s s' -> InvD w s -> InvD w s'.
Proof.
  intros ((P1 & P2 & P3 & P4 & P5 & P6 & P7 & P8 & P9 & P10 & P11) &
          (S1 & S2 & S3 & S4 & S5) &
          (F1 & F2 & F3 & F4 & F5 & F6 & F7 & F8 & F9 & F10 & F11 & F12 & F13) &
          (G1 & G2 & G3 & G4)) H.
  assert (T1 : toks1 w s' = toks1 w s) by (unfold toks1; congruence).
  assert (T2 : toks2 w s' = toks2 w s) by (unfold toks2; congruence).
  assert (T3 : toks3 w s' = toks3 w s) by (unfold toks3; congruence).
  assert (Nd : ndonew w s' = ndonew w s) by (unfold ndonew; congruence).
  assert (Cp : completedw w s' = completedw w s) by (unfold completedw; congruence).
  assert (Bs : basew w s' = basew w s) by (unfold basew; congruence).
  destruct H as [HK Hreq Hq Hnd Hrsp Hwf Hro Hph]. constructor.
  - destruct HK. constructor; unfold KF in *; congruence.
  - unfold blen in *. rewrite S1, S2, S3, S5, F7, F8, F12, F13. auto.
  - rewrite P10, Nd, G1, P5. auto.
  - rewrite Nd, G1. auto.
  - rewrite G2, P11, P7, Cp. auto.
  - rewrite G1. auto.
  - intros a Ha. rewrite G4; auto.
  - unfold PhaseW in *. rewrite P5, P6, P7.
    assert (HN : NoTokW w s -> NoTokW w s').
    { intros (A1 & A2 & A3 & A4 & A5). unfold NoTokW. rewrite T1, T2, T3, P9, Bs. repeat split; auto.
      intros a. rewrite G3. auto. }
    destruct (cur_mig (Pc w s)), (handling (Pc w s)), (to_ctrl (Pc w s)); auto.
    destruct Hph as (b & HT). exists b. rewrite T1, T2, T3, P8, P9, Bs.
    eapply TF_ext; [| |exact HT]; auto.
Qed.

Lemma gacc_setp w' w p s : gacc w' (setp w p s) = gacc w' s.
Proof. destruct w', w, s; reflexivity. Qed.
Lemma gdone_setp w' w p s : gdone w' (setp w p s) = gdone w' s.
Proof. destruct w', w, s; reflexivity. Qed.

Lemma Pc_setp w p s : Pc w (setp w p s) = p.
Proof. apply getp_setp. Qed.
Lemma Sc_setp w p s : Sc w (setp w p s) = Sc w s.
Proof. apply getp_setp_o. Qed.
Lemma Pc_setp_o w p s : Pc w (setp (other w) p s) = Pc w s.
Proof. apply getp_setp_o'. Qed.
Lemma Sc_setp_o w p s : Sc w (setp (other w) p s) = p.
Proof. unfold Sc. apply getp_setp. Qed.

Lemma PhaseW_repl w s s' xs xs' rest :
  cur_mig (Pc w s') = cur_mig (Pc w s) -> handling (Pc w s') = handling (Pc w s) ->
  to_ctrl (Pc w s') = to_ctrl (Pc w s) -> idmap (Pc w s') = idmap (Pc w s) ->
  num_pending (Pc w s') = num_pending (Pc w s) ->
  (forall a, getst w s' a = getst w s a) -> (forall a, basew w s' a = basew w s a) ->
  Permutation (toks1 w s) (xs ++ rest) -> Permutation (toks1 w s') (xs' ++ rest) ->
  (forall r b, Forall2 (fun m m' => tid m' = tid m /\ (OKW w r b m -> OKW w r b m')) xs xs') ->
  Permutation (toks2 w s) (toks2 w s') -> Permutation (toks3 w s) (toks3 w s') ->
  PhaseW w s -> PhaseW w s'.
Proof.
  intros E1 E2 E3 E4 E5 Est Ebs P1 P1' F P2 P3 H.
  assert (HN : NoTokW w s -> NoTokW w s').
  { intros (T1 & T2 & T3 & Hnp & Hst). rewrite T1 in P1. rewrite T2 in P2. rewrite T3 in P3.
    apply Permutation_nil in P1, P2, P3. apply app_eq_nil in P1. destruct P1 as [-> ->].
    specialize (F (mkMigReq 0 0 0 0 0 0) 0). inversion F; subst. cbn in P1'.
    symmetry in P1'. apply Permutation_nil in P1'.
    repeat split; auto; try congruence. }
  unfold PhaseW in *. rewrite E1, E2, E3, E4, E5.
  destruct (cur_mig (Pc w s)) as [r|], (handling (Pc w s)), (to_ctrl (Pc w s)); auto.
  destruct H as (b & H). exists b.
  eapply TF_ext; [exact Est|exact Ebs|].
  eapply TF_perm; [reflexivity|exact P2|exact P3|].
  eapply (TF_repl _ _ _ _ _ _ _ r b (toks1 w s) (toks1 w s') xs xs' rest); [exact P1|exact P1'|apply F|exact H].
Qed.

Lemma PhaseW_perm w s s' :
  cur_mig (Pc w s') = cur_mig (Pc w s) -> handling (Pc w s') = handling (Pc w s) ->
  to_ctrl (Pc w s') = to_ctrl (Pc w s) -> idmap (Pc w s') = idmap (Pc w s) ->
  num_pending (Pc w s') = num_pending (Pc w s) ->
  (forall a, getst w s' a = getst w s a) -> (forall a, basew w s' a = basew w s a) ->
  Permutation (toks1 w s) (toks1 w s') -> Permutation (toks2 w s) (toks2 w s') ->
  Permutation (toks3 w s) (toks3 w s') ->
  PhaseW w s -> PhaseW w s'.
Proof. intros. eapply (PhaseW_repl w s s' [] [] (toks1 w s')); eauto. Qed.

Lemma PhaseW_ok1 w s m : PhaseW w s -> In m (toks1 w s) -> exists r b, OKW w r b m.
Proof.
  unfold PhaseW. intros H Hin.
  assert (HN : NoTokW w s -> False) by (intros (T1 & _); rewrite T1 in Hin; inversion Hin).
  destruct (cur_mig (Pc w s)) as [r|], (handling (Pc w s)), (to_ctrl (Pc w s)); try tauto.
  destruct H as (b & H). exists r, b. destruct H. rewrite Forall_forall in tf_ok1. auto.
Qed.
Lemma PhaseW_ok2 w s m : PhaseW w s -> In m (toks2 w s) -> exists r b, OKW w r b m.
Proof.
  unfold PhaseW. intros H Hin.
  assert (HN : NoTokW w s -> False) by (intros (_ & T2 & _); rewrite T2 in Hin; inversion Hin).
  destruct (cur_mig (Pc w s)) as [r|], (handling (Pc w s)), (to_ctrl (Pc w s)); try tauto.
  destruct H as (b & H). exists r, b. destruct H. rewrite Forall_forall in tf_ok2. auto.
Qed.

(** a valid message of the four kinds that controllers put into shared buffers belongs to its direction *)
Lemma ok_own w r b m : OKW w r b m -> (isPQ m \/ isPR m \/ isRQ m \/ isWQ m) -> own w m = true.
Proof.
  intros H [(q & ->)|[(q & ->)|[(q & ->)|(q & ->)]]]; cbn in H; destruct H as (i & _ & ->); cbn; apply N.eqb_refl.
Qed.

(** ** Helpers for the step lemmas *)
Lemma dir s w : InvB s -> InvD w s.
Proof. intros H. destruct w; apply H. Qed.
Lemma crashed_of s X : InvB s -> crashed (getp X s) = false.
Proof. intros H. destruct X; apply H. Qed.
Lemma cfg_of s X : InvB s -> cfg_is (getp X s) (R X) (C X) (L X) (M X).
Proof. intros H. destruct X; apply H. Qed.

Lemma ex_ri s X : Exh s -> EX (rem_in (getp X s)).
Proof. intros H. destruct X; apply H. Qed.
Lemma ex_ro s X : Exh s -> EX (rem_out (getp X s)).
Proof. intros H. destruct X; apply H. Qed.
Lemma ex_li s X : Exh s -> EX (loc_in (getp X s)).
Proof. intros H. destruct X; apply H. Qed.
Lemma ex_lo s X : Exh s -> EX (loc_out (getp X s)).
Proof. intros H. destruct X; apply H. Qed.
Lemma ex_mq s X : Exh s -> EX (getmq X s).
Proof. intros H. destruct X; apply H. Qed.
Lemma ex_mr s X : Exh s -> EX (getmr X s).
Proof. intros H. destruct X; apply H. Qed.

Lemma ex_cls w m : own PA m = true \/ own PB m = true -> own w m = true \/ own (other w) m = true.
Proof. destruct w; cbn; tauto. Qed.

Lemma ndonew_setp_o w p s : ndonew w (setp (other w) p s) = ndonew w s.
Proof. unfold ndonew, Pc. rewrite gdone_setp, getp_setp_o'. reflexivity. Qed.
Lemma completedw_setp_o w p s : completedw w (setp (other w) p s) = completedw w s.
Proof. unfold completedw. rewrite ndonew_setp_o, gacc_setp. reflexivity. Qed.
Lemma basew_setp_o w p s : basew w (setp (other w) p s) = basew w s.
Proof. unfold basew. rewrite completedw_setp_o. reflexivity. Qed.
Lemma ndonew_setp w p s :
  ndonew w (setp w p s) = (length (gdone w s) + length (ctl_out p) + length (olist (to_ctrl p)))%nat.
Proof. unfold ndonew, Pc. rewrite gdone_setp, getp_setp. reflexivity. Qed.

Ltac simp_s :=
  unfold Sc, Pc in *;
  repeat rewrite ?getp_setp, ?getp_setp_o, ?getp_setp_o', ?net_setp, ?getmq_setp, ?getmr_setp, ?getst_setp,
                 ?gacc_setp, ?gdone_setp, ?ndonew_setp_o, ?completedw_setp_o, ?basew_setp_o in *.

Ltac invd_destruct H := destruct H as [HK Hreq Hq Hnd Hrsp Hwf Hro Hph].

(** a step that only moves (or converts) messages of direction [w] *)
Lemma moveD w s s' xs xs' rest :
  cur_mig (Pc w s') = cur_mig (Pc w s) -> handling (Pc w s') = handling (Pc w s) ->
  to_ctrl (Pc w s') = to_ctrl (Pc w s) -> idmap (Pc w s') = idmap (Pc w s) ->
  num_pending (Pc w s') = num_pending (Pc w s) ->
  ctl_in (Pc w s') = ctl_in (Pc w s) -> ctl_out (Pc w s') = ctl_out (Pc w s) ->
  gacc w s' = gacc w s -> gdone w s' = gdone w s ->
  (forall a, getst w s' a = getst w s a) ->
  (forall a, ro (other w) a -> getst (other w) s' a = getst (other w) s a) ->
  Permutation (toks1 w s) (xs ++ rest) -> Permutation (toks1 w s') (xs' ++ rest) ->
  (forall r b, Forall2 (fun m m' => tid m' = tid m /\ (OKW w r b m -> OKW w r b m')) xs xs') ->
  Permutation (toks2 w s) (toks2 w s') -> Permutation (toks3 w s) (toks3 w s') ->
  KindsW w s' -> ((0 < blen w s')%nat -> requester (Sc w s') = R w) ->
  InvD w s -> InvD w s'.
Proof.
  intros E1 E2 E3 E4 E5 E6 E7 G1 G2 St1 St2 P1 P1' F P2 P3 HK' Hreq' H.
  assert (Nd : ndonew w s' = ndonew w s) by (unfold ndonew; congruence).
  assert (Cp : completedw w s' = completedw w s) by (unfold completedw; congruence).
  assert (Bs : basew w s' = basew w s) by (unfold basew; congruence).
  invd_destruct H. constructor; auto.
  - rewrite E6, Nd, G1, E1. auto.
  - rewrite Nd, G1. auto.
  - rewrite G2, E7, E3, Cp. auto.
  - rewrite G1. auto.
  - intros a Ha. rewrite St2; auto.
  - eapply PhaseW_repl; eauto. intros a. rewrite Bs. reflexivity.
Qed.

Ltac toks_same := solve [unfold toks1, toks2, toks3; simp_s; cbn; reflexivity].
Ltac kindsW HK := destruct HK; constructor; simp_s; cbn; unfold KF in *; try assumption.

Lemma tail_F {T} (P : T -> Prop) x l : Forall P (x :: l) -> Forall P l.
Proof. inversion 1; auto. Qed.

(** *** stage 6 run by the source of direction [w] *)
Lemma S6 w s : InvB s ->
  InvD w (setp (other w) (fst (processFromOutside (getp (other w) s))) s).
Proof.
  intros HB. pose proof (dir s w HB) as Hd. unfold processFromOutside.
  destruct (rem_in (getp (other w) s)) as [|m rest] eqn:Er.
  { cbn. rewrite setp_same. exact Hd. }
  assert (Hcl : own w m = true \/ own (other w) m = true).
  { apply ex_cls. pose proof (ex_ri s (other w) (b_ex _ HB)) as E. rewrite Er in E. inversion E; auto. }
  destruct Hcl as [Ho|Ho].
  - (* a pull request of this direction *)
    assert (Hm : isPQ m).
    { pose proof (k_ris _ _ (d_K _ _ Hd)) as K. unfold KF, Sc in K. rewrite Er, fo_cons_own in K by auto. inversion K; auto. }
    destruct Hm as (q & ->). cbn [fst].
    eapply (moveD w s _ [] [] (toks1 w s)); [..|exact Hd]; simp_s; cbn; auto; try reflexivity; try toks_same.
    + unfold toks1. simp_s. cbn. rewrite Er, fo_cons_own by auto. perm.
    + kindsW (d_K _ _ Hd). rewrite Er, fo_cons_own in k_ris0 by auto. eapply tail_F; eauto.
    + intros _. destruct (PhaseW_ok1 w s (MPullReq q) (d_phase _ _ Hd)) as (r & b & i & Hi & ->); [|reflexivity].
      unfold toks1. simp_s. rewrite Er, fo_cons_own by auto. repeat rewrite in_app_iff. cbn. tauto.
  - (* a response for the other direction: not ours *)
    assert (Hn : own w m = false) by (rewrite <- (other_other w); apply own_excl; auto).
    pose proof (dir s (other w) HB) as Hd'.
    assert (Hm : isPR m).
    { pose proof (k_rip _ _ (d_K _ _ Hd')) as K. unfold KF, Pc in K. rewrite Er, fo_cons_own in K by auto. inversion K; auto. }
    destruct Hm as (q & ->). cbn [fst].
    eapply frameD; [|exact Hd]. unfold SameD. simp_s. cbn. rewrite Er, fo_cons_not by auto.
    repeat split; reflexivity.
Qed.

(** *** stages that cannot touch anything direction [w] sees *)
Ltac frame_triv Hd := eapply frameD; [|exact Hd]; unfold SameD; simp_s; cbn; repeat split; reflexivity.

Lemma okw_valid w r b m : OKW w r b m -> (isPQ m \/ isPR m \/ isRQ m \/ isWQ m) -> send_valid m = true.
Proof.
  pose proof (HR0 w). pose proof (HR0 (other w)). pose proof (R_other w).
  pose proof (HM w) as [? ?]. pose proof (HM (other w)) as [? ?].
  intros Hokm [(q & ->)|[(q & ->)|[(q & ->)|(q & ->)]]]; cbn in Hokm; destruct Hokm as (i & _ & ->);
    unfold send_valid; cbn; apply valid_neq; auto.
Qed.

Lemma send_foreign {T} w (inj : T -> pmsg) (l : list T) out :
  Forall (fun x => send_valid (inj x) = true) l -> Forall (fun x => own w (inj x) = false) l ->
  exists out' kept p, send_all inj out l = (out', kept, p, false) /\ fo w out' = fo w out.
Proof.
  intros Hv Hf. destruct (send_all_spec inj l out Hv) as (mv & kept & p & Hp & _ & E).
  exists (out ++ map inj mv), kept, p. split; auto.
  rewrite fo_app. rewrite (fo_none w (map inj mv)); [apply app_nil_r|].
  rewrite Forall_forall. intros m Hm.
  assert (Hin : In m (map inj l)).
  { eapply Permutation_in; [symmetry; exact Hp|]. apply in_or_app; auto. }
  apply in_map_iff in Hin. destruct Hin as (x & <- & Hx). rewrite Forall_forall in Hf. auto.
Qed.

(** messages the other direction holds in its typed lists are foreign and sendable *)
Lemma foreign_of w s m : InvD (other w) s -> In m (toks1 (other w) s) \/ In m (toks2 (other w) s) ->
  (isPQ m \/ isPR m \/ isRQ m \/ isWQ m) -> send_valid m = true /\ own w m = false.
Proof.
  intros Hd Hin Hk.
  assert (Hokm : exists r b, OKW (other w) r b m).
  { destruct Hin; [eapply PhaseW_ok1|eapply PhaseW_ok2]; eauto; apply Hd. }
  destruct Hokm as (r & b & Hokm). split; [eapply okw_valid; eauto|].
  rewrite <- (other_other w). apply own_excl. eapply ok_own; eauto.
Qed.

Lemma S1 w s : InvB s -> InvD w (setp (other w) (fst (sendMigrationReqToAnotherPMC (getp (other w) s))) s).
Proof.
  intros HB. pose proof (dir s w HB) as Hd. pose proof (dir s (other w) HB) as Hd'.
  unfold sendMigrationReqToAnotherPMC.
  destruct (is_nil (to_pull (getp (other w) s))); [cbn; rewrite setp_same; exact Hd|].
  assert (Hf : forall x, In x (to_pull (getp (other w) s)) -> send_valid (MPullReq x) = true /\ own w (MPullReq x) = false).
  { intros x Hx. apply (foreign_of w s); auto; [left|left; eexists; eauto].
    unfold toks1, Pc. repeat rewrite in_app_iff. left. apply in_map. auto. }
  destruct (send_foreign w MPullReq (to_pull (getp (other w) s)) (rem_out (getp (other w) s))) as (o & k & p & E & Ef).
  { rewrite Forall_forall. intros; apply Hf; auto. } { rewrite Forall_forall. intros; apply Hf; auto. }
  rewrite E. cbn [fst]. eapply frameD; [|exact Hd]. unfold SameD. simp_s. cbn. rewrite Ef. repeat split; reflexivity.
Qed.

Lemma S5 w s : InvB s -> InvD w (setp (other w) (fst (sendWriteReqLocalMemPort (getp (other w) s))) s).
Proof.
  intros HB. pose proof (dir s w HB) as Hd. pose proof (dir s (other w) HB) as Hd'.
  unfold sendWriteReqLocalMemPort.
  assert (Hf : forall x, In x (write_reqs (getp (other w) s)) -> send_valid (MWrReq x) = true /\ own w (MWrReq x) = false).
  { intros x Hx. apply (foreign_of w s); auto; [right|right; right; right; eexists; eauto].
    unfold toks2, Pc. repeat rewrite in_app_iff. left. apply in_map. auto. }
  destruct (send_foreign w MWrReq (write_reqs (getp (other w) s)) (loc_out (getp (other w) s))) as (o & k & p & E & Ef).
  { rewrite Forall_forall. intros; apply Hf; auto. } { rewrite Forall_forall. intros; apply Hf; auto. }
  rewrite E. cbn [fst]. eapply frameD; [|exact Hd]. unfold SameD. simp_s. cbn. rewrite Ef. repeat split; reflexivity.
Qed.

Lemma P2 w s : InvB s -> InvD w (setp w (fst (sendReadReqLocalMemPort (getp w s))) s).
Proof.
  intros HB. pose proof (dir s w HB) as Hd. pose proof (dir s (other w) HB) as Hd'.
  unfold sendReadReqLocalMemPort.
  destruct (is_nil (to_read (getp w s))); [cbn; rewrite setp_same; exact Hd|].
  assert (Hf : forall x, In x (to_read (getp w s)) -> send_valid (MRdReq x) = true /\ own w (MRdReq x) = false).
  { intros x Hx. apply (foreign_of w s); auto; [left|right; right; left; eexists; eauto].
    unfold toks1, Sc. rewrite other_other. repeat rewrite in_app_iff. do 5 right. left. apply in_map. auto. }
  destruct (send_foreign w MRdReq (to_read (getp w s)) (loc_out (getp w s))) as (o & k & p & E & Ef).
  { rewrite Forall_forall. intros; apply Hf; auto. } { rewrite Forall_forall. intros; apply Hf; auto. }
  rewrite E. cbn [fst]. eapply frameD; [|exact Hd]. unfold SameD. simp_s. cbn. rewrite Ef. repeat split; reflexivity.
Qed.

Lemma P4 w s : InvB s -> InvD w (setp w (fst (sendDataReadyRspToRequestingPMC (getp w s))) s).
Proof.
  intros HB. pose proof (dir s w HB) as Hd. pose proof (dir s (other w) HB) as Hd'.
  unfold sendDataReadyRspToRequestingPMC.
  destruct (is_nil (to_rsp (getp w s))); [cbn; rewrite setp_same; exact Hd|].
  assert (Hf : forall x, In x (to_rsp (getp w s)) -> send_valid (MPullRsp x) = true /\ own w (MPullRsp x) = false).
  { intros x Hx. apply (foreign_of w s); auto; [left|right; left; eexists; eauto].
    unfold toks1, Sc. rewrite other_other. repeat rewrite in_app_iff. do 11 right. left. apply in_map. auto. }
  destruct (send_foreign w MPullRsp (to_rsp (getp w s)) (rem_out (getp w s))) as (o & k & p & E & Ef).
  { rewrite Forall_forall. intros; apply Hf; auto. } { rewrite Forall_forall. intros; apply Hf; auto. }
  rewrite E. cbn [fst]. eapply frameD; [|exact Hd]. unfold SameD. simp_s. cbn. rewrite Ef. repeat split; reflexivity.
Qed.

Ltac frame_cases Hd :=
  repeat match goal with
         | |- context [match ?x with _ => _ end] => destruct x
         end; cbn [fst]; try (rewrite setp_same; exact Hd); frame_triv Hd.

Lemma S3 w s : InvB s -> InvD w (setp (other w) (fst (sendMigrationCompleteRspToCtrlPort (getp (other w) s))) s).
Proof. intros HB. pose proof (dir s w HB) as Hd. unfold sendMigrationCompleteRspToCtrlPort. frame_cases Hd. Qed.
Lemma S7 w s : InvB s -> InvD w (setp (other w) (fst (processFromCtrlPort (getp (other w) s))) s).
Proof. intros HB. pose proof (dir s w HB) as Hd. unfold processFromCtrlPort. frame_cases Hd. Qed.
Lemma S9 w s : InvB s -> InvD w (setp (other w) (fst (processPageMigrationReqFromCtrlPort (getp (other w) s))) s).
Proof. intros HB. pose proof (dir s w HB) as Hd. unfold processPageMigrationReqFromCtrlPort. frame_cases Hd. Qed.
Lemma S12 w s : InvB s -> InvD w (setp (other w) (fst (processDataPullRsp (getp (other w) s))) s).
Proof. intros HB. pose proof (dir s w HB) as Hd. unfold processDataPullRsp. frame_cases Hd. Qed.
Lemma S13 w s : InvB s -> InvD w (setp (other w) (fst (processWriteDoneRspFromMemCtrl (getp (other w) s))) s).
Proof. intros HB. pose proof (dir s w HB) as Hd. unfold processWriteDoneRspFromMemCtrl. cbv zeta. frame_cases Hd. Qed.
Lemma P10 w s : InvB s -> InvD w (setp w (fst (processReadPageReqFromAnotherPMC (getp w s))) s).
Proof. intros HB. pose proof (dir s w HB) as Hd. unfold processReadPageReqFromAnotherPMC. frame_cases Hd. Qed.
Lemma P11 w s : InvB s -> InvD w (setp w (fst (processDataReadyRspFromMemCtrl (getp w s))) s).
Proof. intros HB. pose proof (dir s w HB) as Hd. unfold processDataReadyRspFromMemCtrl. frame_cases Hd. Qed.

End Bi.
Arguments fo : simpl never.
Arguments toks1 : simpl never.
Arguments toks2 : simpl never.
Arguments toks3 : simpl never.
Arguments ndonew : simpl never.
Arguments completedw : simpl never.
Arguments basew : simpl never.
Arguments blen : simpl never.
#[export] Hint Rewrite getp_setp getp_setp_o getp_setp_o' net_setp getmq_setp getmr_setp getst_setp : bis.
#[export] Hint Rewrite gacc_setp gdone_setp ndonew_setp_o completedw_setp_o basew_setp_o : bis.
