(** Both directions at once, part 5: environment events. *)
From Coq Require Import Permutation ZifyN ZifyNat ZifyBool.
From VMem Require Import Pmc PmcLemmas PmcProofs PmcBi PmcBi2 PmcBi3 PmcBi4.
From RecordUpdate Require Import RecordSet.
Import RecordSetNotations.
Open Scope N_scope.

(** setters, so that the controller index can stay abstract *)
Definition setnet (v : list pmsg) (s : sys) : sys := s <| net := v |>.
Definition setgacc (w : who) (v : list migreq) (s : sys) : sys :=
  match w with PA => s <| g_acc := v |> | PB => s <| g_accb := v |> end.
Definition setgdone (w : who) (v : list pmsg) (s : sys) : sys :=
  match w with PA => s <| g_done := v |> | PB => s <| g_doneb := v |> end.

Ltac acc_solve := repeat match goal with w : who |- _ => destruct w end; try match goal with s : sys |- _ => destruct s end; reflexivity.

Lemma getp_setnet w v s : getp w (setnet v s) = getp w s. Proof. acc_solve. Qed.
Lemma net_setnet v s : net (setnet v s) = v. Proof. acc_solve. Qed.
Lemma getmq_setnet w v s : getmq w (setnet v s) = getmq w s. Proof. acc_solve. Qed.
Lemma getmr_setnet w v s : getmr w (setnet v s) = getmr w s. Proof. acc_solve. Qed.
Lemma getst_setnet w v s : getst w (setnet v s) = getst w s. Proof. acc_solve. Qed.
Lemma gacc_setnet w v s : gacc w (setnet v s) = gacc w s. Proof. acc_solve. Qed.
Lemma gdone_setnet w v s : gdone w (setnet v s) = gdone w s. Proof. acc_solve. Qed.

Lemma getp_setmq w X v s : getp w (setmq X v s) = getp w s. Proof. acc_solve. Qed.
Lemma net_setmq X v s : net (setmq X v s) = net s. Proof. acc_solve. Qed.
Lemma getmq_setmq X v s : getmq X (setmq X v s) = v. Proof. acc_solve. Qed.
Lemma getmq_setmq_o X v s : getmq (other X) (setmq X v s) = getmq (other X) s. Proof. acc_solve. Qed.
Lemma getmq_setmq_o' X v s : getmq X (setmq (other X) v s) = getmq X s. Proof. acc_solve. Qed.
Lemma getmr_setmq w X v s : getmr w (setmq X v s) = getmr w s. Proof. acc_solve. Qed.
Lemma getst_setmq w X v s : getst w (setmq X v s) = getst w s. Proof. acc_solve. Qed.
Lemma gacc_setmq w X v s : gacc w (setmq X v s) = gacc w s. Proof. acc_solve. Qed.
Lemma gdone_setmq w X v s : gdone w (setmq X v s) = gdone w s. Proof. acc_solve. Qed.

Lemma getp_setmr w X v s : getp w (setmr X v s) = getp w s. Proof. acc_solve. Qed.
Lemma net_setmr X v s : net (setmr X v s) = net s. Proof. acc_solve. Qed.
Lemma getmr_setmr X v s : getmr X (setmr X v s) = v. Proof. acc_solve. Qed.
Lemma getmr_setmr_o X v s : getmr (other X) (setmr X v s) = getmr (other X) s. Proof. acc_solve. Qed.
Lemma getmr_setmr_o' X v s : getmr X (setmr (other X) v s) = getmr X s. Proof. acc_solve. Qed.
Lemma getmq_setmr w X v s : getmq w (setmr X v s) = getmq w s. Proof. acc_solve. Qed.
Lemma getst_setmr w X v s : getst w (setmr X v s) = getst w s. Proof. acc_solve. Qed.
Lemma gacc_setmr w X v s : gacc w (setmr X v s) = gacc w s. Proof. acc_solve. Qed.
Lemma gdone_setmr w X v s : gdone w (setmr X v s) = gdone w s. Proof. acc_solve. Qed.

Lemma getp_setst w X v s : getp w (setst X v s) = getp w s. Proof. acc_solve. Qed.
Lemma net_setst X v s : net (setst X v s) = net s. Proof. acc_solve. Qed.
Lemma getst_setst X v s : getst X (setst X v s) = v. Proof. acc_solve. Qed.
Lemma getst_setst_o X v s : getst (other X) (setst X v s) = getst (other X) s. Proof. acc_solve. Qed.
Lemma getst_setst_o' X v s : getst X (setst (other X) v s) = getst X s. Proof. acc_solve. Qed.
Lemma getmq_setst w X v s : getmq w (setst X v s) = getmq w s. Proof. acc_solve. Qed.
Lemma getmr_setst w X v s : getmr w (setst X v s) = getmr w s. Proof. acc_solve. Qed.
Lemma gacc_setst w X v s : gacc w (setst X v s) = gacc w s. Proof. acc_solve. Qed.
Lemma gdone_setst w X v s : gdone w (setst X v s) = gdone w s. Proof. acc_solve. Qed.

Lemma getp_setgacc w X v s : getp w (setgacc X v s) = getp w s. Proof. acc_solve. Qed.
Lemma net_setgacc X v s : net (setgacc X v s) = net s. Proof. acc_solve. Qed.
Lemma getmq_setgacc w X v s : getmq w (setgacc X v s) = getmq w s. Proof. acc_solve. Qed.
Lemma getmr_setgacc w X v s : getmr w (setgacc X v s) = getmr w s. Proof. acc_solve. Qed.
Lemma getst_setgacc w X v s : getst w (setgacc X v s) = getst w s. Proof. acc_solve. Qed.
Lemma gacc_setgacc X v s : gacc X (setgacc X v s) = v. Proof. acc_solve. Qed.
Lemma gacc_setgacc_o X v s : gacc (other X) (setgacc X v s) = gacc (other X) s. Proof. acc_solve. Qed.
Lemma gdone_setgacc w X v s : gdone w (setgacc X v s) = gdone w s. Proof. acc_solve. Qed.

Lemma getp_setgdone w X v s : getp w (setgdone X v s) = getp w s. Proof. acc_solve. Qed.
Lemma net_setgdone X v s : net (setgdone X v s) = net s. Proof. acc_solve. Qed.
Lemma getmq_setgdone w X v s : getmq w (setgdone X v s) = getmq w s. Proof. acc_solve. Qed.
Lemma getmr_setgdone w X v s : getmr w (setgdone X v s) = getmr w s. Proof. acc_solve. Qed.
Lemma getst_setgdone w X v s : getst w (setgdone X v s) = getst w s. Proof. acc_solve. Qed.
Lemma gdone_setgdone X v s : gdone X (setgdone X v s) = v. Proof. acc_solve. Qed.
Lemma gdone_setgdone_o X v s : gdone (other X) (setgdone X v s) = gdone (other X) s. Proof. acc_solve. Qed.
Lemma gacc_setgdone w X v s : gacc w (setgdone X v s) = gacc w s. Proof. acc_solve. Qed.

#[export] Hint Rewrite getp_setnet net_setnet getmq_setnet getmr_setnet getst_setnet gacc_setnet gdone_setnet : bis.
#[export] Hint Rewrite getp_setmq net_setmq getmq_setmq getmq_setmq_o getmq_setmq_o' getmr_setmq getst_setmq gacc_setmq gdone_setmq : bis.
#[export] Hint Rewrite getp_setmr net_setmr getmr_setmr getmr_setmr_o getmr_setmr_o' getmq_setmr getst_setmr gacc_setmr gdone_setmr : bis.
#[export] Hint Rewrite getp_setst net_setst getst_setst getst_setst_o getst_setst_o' getmq_setst getmr_setst gacc_setst gdone_setst : bis.
#[export] Hint Rewrite getp_setgacc net_setgacc getmq_setgacc getmr_setgacc getst_setgacc gacc_setgacc gacc_setgacc_o gdone_setgacc : bis.
#[export] Hint Rewrite getp_setgdone net_setgdone getmq_setgdone getmr_setgdone getst_setgdone gdone_setgdone gdone_setgdone_o gacc_setgdone : bis.
Ltac simp_s := unfold Sc, Pc in *; autorewrite with bis in *.
Ltac toks_same := solve [unfold toks1, toks2, toks3; simp_s; cbn; reflexivity].
Ltac kindsW HK := destruct HK; constructor; simp_s; cbn; unfold KF in *; try assumption.

(** [step] in terms of the setters (no panic so far) *)
Lemma step_setters s e : crashed (pa s) = false -> crashed (pb s) = false -> step s e =
  match e with
  | ETick w =>
    let '(p, pr) := tick (getp w s) in
    (setp w p s, if crashed p then OCrash else OTick pr)
  | ESendRemote w =>
    match rem_out (getp w s) with
    | [] => (s, OMsg None)
    | m :: r => (setnet (net s ++ [m]) (setp w (getp w s <| rem_out := r |>) s), OMsg (Some m))
    end
  | EDeliverRemote k =>
    match nth_error (net s) k with
    | None => (s, OAcc false)
    | Some m =>
      let to (w : who) :=
        if can_push (rem_in (getp w s))
        then (setnet (remove_nth k (net s)) (setp w (getp w s <| rem_in := rem_in (getp w s) ++ [m] |>) s), OAcc true)
        else (s, OAcc false) in
      if msg_dst m =? n_remote (pa s) then to PA
      else if msg_dst m =? n_remote (pb s) then to PB
      else (s, OAcc false)
    end
  | ESendLocal w =>
    match loc_out (getp w s) with
    | [] => (s, OMsg None)
    | m :: r => (setmq w (getmq w s ++ [m]) (setp w (getp w s <| loc_out := r |>) s), OMsg (Some m))
    end
  | EMemServe w k =>
    match nth_error (getmq w s) k with
    | None => (s, OMsg None)
    | Some m =>
      match mem_serve (getst w s) m with
      | None => (s, OMsg None)
      | Some (st', rsp) =>
        (setmr w (getmr w s ++ [rsp]) (setmq w (remove_nth k (getmq w s)) (setst w st' s)), OMsg (Some rsp))
      end
    end
  | EDeliverLocal w k =>
    match nth_error (getmr w s) k with
    | None => (s, OAcc false)
    | Some m =>
      if can_push (loc_in (getp w s))
      then (setmr w (remove_nth k (getmr w s))
              (setp w (getp w s <| loc_in := loc_in (getp w s) ++ [m] |>) s), OAcc true)
      else (s, OAcc false)
    end
  | ECtrlReq w m =>
    if can_push (ctl_in (getp w s))
    then (setgacc w (gacc w s ++ [m]) (setp w (getp w s <| ctl_in := ctl_in (getp w s) ++ [MMigReq m] |>) s), OAcc true)
    else (s, OAcc false)
  | ETakeCtrl w =>
    match ctl_out (getp w s) with
    | [] => (s, OMsg None)
    | m :: r => (setgdone w (gdone w s ++ [m]) (setp w (getp w s <| ctl_out := r |>) s), OMsg (Some m))
    end
  | EInject m => (setnet (net s ++ [m]) s, OAcc true)
  end.
Proof.
  intros H1 H2. unfold step. rewrite H1, H2. cbn [orb].
  destruct e as [w|w|k|w|w k|w k|w m|w|m]; try reflexivity.
  all: try (destruct w; reflexivity).
  all: try (destruct w; destruct (can_push _); reflexivity).
  all: try (destruct w; destruct (ctl_out _); reflexivity).
Qed.

Section Bi5.
Variable cf : names.
Hypothesis Hok : names_okb cf.
Notation R := (nR cf).
Notation C := (nC cf).
Notation L := (nL cf).
Notation M := (nM cf).
Notation s0 := (nS0 cf).
Notation ro := (nRO cf).
Notation OKW w := (okM (R w) (L w) (M w) (R (other w)) (L (other w)) (M (other w)) (s0 (other w))).
Notation TFW w := (TF (R w) (L w) (M w) (R (other w)) (L (other w)) (M (other w)) (s0 (other w))).
Notation INVB := (InvB cf).
Notation INVD := (InvD cf).
Notation T1 := (toks1 cf).
Notation T2 := (toks2 cf).
Notation T3 := (toks3 cf).
Notation FO := (fo cf).
Notation OWN := (own cf).
Notation EXL := (EX cf).

Lemma fo_nil w : FO w [] = [].
Proof. reflexivity. Qed.
Lemma fo_snoc_own w l m : OWN w m = true -> FO w (l ++ [m]) = FO w l ++ [m].
Proof. intros H. rewrite fo_app, fo_cons_own, fo_nil; auto. Qed.
Lemma fo_snoc_not w l m : OWN w m = false -> FO w (l ++ [m]) = FO w l.
Proof. intros H. rewrite fo_app, fo_cons_not, fo_nil, app_nil_r; auto. Qed.
Lemma not_own w m : OWN (other w) m = true -> OWN w m = false.
Proof. intros H. rewrite <- (other_other w). apply (own_excl cf Hok). auto. Qed.
Lemma cls_head w m l : EXL (m :: l) -> OWN w m = true \/ OWN (other w) m = true.
Proof. intros E. inversion E; subst. apply ex_cls. auto. Qed.
Lemma snoc_F {T} (P : T -> Prop) l x : Forall P l -> P x -> Forall P (l ++ [x]).
Proof. intros. apply Forall_app; split; auto. Qed.

Ltac frame_ev Hd := eapply frameD; [|exact Hd]; unfold SameD; simp_s; cbn.

(** *** the connection takes a message from a remote port *)
Lemma SRp w s m r : INVB s -> rem_out (getp w s) = m :: r ->
  INVD w (setnet (net s ++ [m]) (setp w (getp w s <| rem_out := r |>) s)).
Proof.
  intros HB E. pose proof (dir cf s w HB) as Hd.
  assert (Hex := ex_ro cf s w (b_ex _ _ HB)). rewrite E in Hex.
  destruct (cls_head w m r Hex) as [Ho|Ho].
  - assert (Hm : isPQ m).
    { pose proof (k_rop _ _ _ (d_K _ _ _ Hd)) as K. unfold KF, Pc in K. rewrite E, fo_cons_own in K by auto. inversion K; auto. }
    eapply (moveD cf w s _ [] [] (T1 w s)); [..|exact Hd]; simp_s; cbn; auto; try reflexivity; try toks_same.
    + unfold toks1. simp_s. cbn. rewrite E, fo_cons_own, fo_snoc_own by auto. perm.
    + kindsW (d_K _ _ _ Hd).
      * rewrite E, fo_cons_own in k_rop by auto. eapply tail_F; eauto.
      * rewrite fo_snoc_own by auto. apply snoc_F; auto.
    + intros Hlt. apply (d_req _ _ _ Hd). unfold blen in *. simp_s. exact Hlt.
  - pose proof (not_own w m Ho) as Hn. frame_ev Hd.
    rewrite E, fo_cons_not, fo_snoc_not by auto. repeat split; reflexivity.
Qed.

Lemma SRs w s m r : INVB s -> rem_out (getp (other w) s) = m :: r ->
  INVD w (setnet (net s ++ [m]) (setp (other w) (getp (other w) s <| rem_out := r |>) s)).
Proof.
  intros HB E. pose proof (dir cf s w HB) as Hd.
  assert (Hex := ex_ro cf s (other w) (b_ex _ _ HB)). rewrite E in Hex.
  destruct (cls_head w m r Hex) as [Ho|Ho].
  - assert (Hm : isPR m).
    { pose proof (k_ros _ _ _ (d_K _ _ _ Hd)) as K. unfold KF, Sc in K. rewrite E, fo_cons_own in K by auto. inversion K; auto. }
    eapply (moveD cf w s _ [] [] (T1 w s)); [..|exact Hd]; simp_s; cbn; auto; try reflexivity; try toks_same.
    + unfold toks1. simp_s. cbn. rewrite E, fo_cons_own, fo_snoc_own by auto. perm.
    + kindsW (d_K _ _ _ Hd).
      * rewrite E, fo_cons_own in k_ros by auto. eapply tail_F; eauto.
      * rewrite fo_snoc_own by auto. apply snoc_F; auto.
    + intros Hlt. apply (d_req _ _ _ Hd). unfold blen in *. simp_s. exact Hlt.
  - pose proof (not_own w m Ho) as Hn. frame_ev Hd.
    rewrite E, fo_cons_not, fo_snoc_not by auto. repeat split; reflexivity.
Qed.

Lemma fo_remove_own w l : forall k m, nth_error l k = Some m -> OWN w m = true ->
  Permutation (FO w l) (m :: FO w (remove_nth k l)).
Proof.
  intros k m E Ho. pose proof (nth_error_perm _ _ _ E) as P. apply (fo_perm cf w) in P.
  rewrite fo_cons_own in P by auto. exact P.
Qed.
Lemma fo_remove_not w l : forall k m, nth_error l k = Some m -> OWN w m = false ->
  FO w (remove_nth k l) = FO w l.
Proof.
  induction l as [|x l IH]; intros [|k] m E Ho; cbn in E; try discriminate.
  - inversion E; subst. cbn [remove_nth]. rewrite fo_cons_not; auto.
  - cbn [remove_nth]. specialize (IH k m E Ho).
    destruct (OWN w x) eqn:Ex; [rewrite !fo_cons_own by auto|rewrite !fo_cons_not by auto]; congruence.
Qed.
Lemma fo_remove_F w (P : pmsg -> Prop) l k : Forall P (FO w l) -> Forall P (FO w (remove_nth k l)).
Proof.
  revert k. induction l as [|x l IH]; intros [|k] H; cbn [remove_nth]; auto.
  - destruct (OWN w x) eqn:Ex; [rewrite fo_cons_own in H by auto; inversion H; auto|rewrite fo_cons_not in H by auto; auto].
  - destruct (OWN w x) eqn:Ex; [rewrite fo_cons_own in * by auto; inversion H; subst; constructor; auto
                               |rewrite fo_cons_not in * by auto; auto].
Qed.
Lemma cls_nth w l k m : EXL l -> nth_error l k = Some m -> OWN w m = true \/ OWN (other w) m = true.
Proof. intros E Hn. apply ex_cls. unfold EX in E. rewrite Forall_forall in E. apply E. eapply nth_error_In; eauto. Qed.
Lemma kf_nth w (P : pmsg -> Prop) l k m : Forall P (FO w l) -> nth_error l k = Some m -> OWN w m = true -> P m.
Proof.
  intros F Hn Ho. rewrite Forall_forall in F. apply F. unfold fo. apply filter_In. split; auto.
  eapply nth_error_In; eauto.
Qed.

(** *** a local out buffer is emptied into the memory *)
Lemma SLp w s m r : INVB s -> loc_out (getp w s) = m :: r ->
  INVD w (setmq w (getmq w s ++ [m]) (setp w (getp w s <| loc_out := r |>) s)).
Proof.
  intros HB E. pose proof (dir cf s w HB) as Hd.
  assert (Hex := ex_lo cf s w (b_ex _ _ HB)). rewrite E in Hex.
  destruct (cls_head w m r Hex) as [Ho|Ho].
  - assert (Hm : isWQ m).
    { pose proof (k_lop _ _ _ (d_K _ _ _ Hd)) as K. unfold KF, Pc in K. rewrite E, fo_cons_own in K by auto. inversion K; auto. }
    eapply (moveD cf w s _ [] [] (T1 w s)); [..|exact Hd]; simp_s; cbn; auto; try reflexivity; try toks_same.
    + unfold toks2. simp_s. cbn. rewrite E, fo_cons_own, fo_snoc_own by auto. perm.
    + kindsW (d_K _ _ _ Hd).
      * rewrite E, fo_cons_own in k_lop by auto. eapply tail_F; eauto.
      * rewrite fo_snoc_own by auto. apply snoc_F; auto.
    + intros Hlt. apply (d_req _ _ _ Hd). unfold blen in *. simp_s. exact Hlt.
  - pose proof (not_own w m Ho) as Hn. frame_ev Hd.
    rewrite E, fo_cons_not, fo_snoc_not by auto. repeat split; reflexivity.
Qed.

Lemma SLs w s m r : INVB s -> loc_out (getp (other w) s) = m :: r ->
  INVD w (setmq (other w) (getmq (other w) s ++ [m]) (setp (other w) (getp (other w) s <| loc_out := r |>) s)).
Proof.
  intros HB E. pose proof (dir cf s w HB) as Hd.
  assert (Hex := ex_lo cf s (other w) (b_ex _ _ HB)). rewrite E in Hex.
  destruct (cls_head w m r Hex) as [Ho|Ho].
  - assert (Hm : isRQ m).
    { pose proof (k_los _ _ _ (d_K _ _ _ Hd)) as K. unfold KF, Sc in K. rewrite E, fo_cons_own in K by auto. inversion K; auto. }
    eapply (moveD cf w s _ [] [] (T1 w s)); [..|exact Hd]; simp_s; cbn; auto; try reflexivity; try toks_same.
    + unfold toks1. simp_s. cbn. rewrite E, fo_cons_own, fo_snoc_own by auto. perm.
    + kindsW (d_K _ _ _ Hd).
      * rewrite E, fo_cons_own in k_los by auto. eapply tail_F; eauto.
      * rewrite fo_snoc_own by auto. apply snoc_F; auto.
    + intros Hlt. apply (d_req _ _ _ Hd). unfold blen in *. simp_s. cbn in Hlt.
      rewrite E, fo_cons_own by auto. rewrite fo_snoc_own, app_length in Hlt by auto. cbn [length] in *. lia.
  - pose proof (not_own w m Ho) as Hn. frame_ev Hd.
    rewrite E, fo_cons_not, fo_snoc_not by auto. repeat split; reflexivity.
Qed.

(** *** a memory reply reaches the local port *)
Lemma DLp w s k m : INVB s -> nth_error (getmr w s) k = Some m ->
  INVD w (setmr w (remove_nth k (getmr w s)) (setp w (getp w s <| loc_in := loc_in (getp w s) ++ [m] |>) s)).
Proof.
  intros HB E. pose proof (dir cf s w HB) as Hd.
  destruct (cls_nth w _ _ _ (ex_mr cf s w (b_ex _ _ HB)) E) as [Ho|Ho].
  - assert (Hm : isWD m) by (eapply (kf_nth w); [apply (k_mrp _ _ _ (d_K _ _ _ Hd))|exact E|exact Ho]).
    pose proof (fo_remove_own w _ _ _ E Ho) as Hp.
    eapply (moveD cf w s _ [] [] (T1 w s)); [..|exact Hd]; simp_s; cbn; auto; try reflexivity; try toks_same.
    + unfold toks3. simp_s. cbn. rewrite fo_snoc_own by auto. perm.
    + kindsW (d_K _ _ _ Hd).
      * rewrite fo_snoc_own by auto. apply snoc_F; auto.
      * apply fo_remove_F; auto.
    + intros Hlt. apply (d_req _ _ _ Hd). unfold blen in *. simp_s. exact Hlt.
  - pose proof (not_own w m Ho) as Hn. frame_ev Hd.
    rewrite fo_snoc_not, (fo_remove_not w _ _ _ E) by auto. repeat split; reflexivity.
Qed.

Lemma DLs w s k m : INVB s -> nth_error (getmr (other w) s) k = Some m ->
  INVD w (setmr (other w) (remove_nth k (getmr (other w) s))
            (setp (other w) (getp (other w) s <| loc_in := loc_in (getp (other w) s) ++ [m] |>) s)).
Proof.
  intros HB E. pose proof (dir cf s w HB) as Hd.
  destruct (cls_nth w _ _ _ (ex_mr cf s (other w) (b_ex _ _ HB)) E) as [Ho|Ho].
  - assert (Hm : isDR m) by (eapply (kf_nth w); [apply (k_mrs _ _ _ (d_K _ _ _ Hd))|exact E|exact Ho]).
    pose proof (fo_remove_own w _ _ _ E Ho) as Hp.
    eapply (moveD cf w s _ [] [] (T1 w s)); [..|exact Hd]; simp_s; cbn; auto; try reflexivity; try toks_same.
    + unfold toks1. simp_s. cbn. rewrite fo_snoc_own by auto. perm.
    + kindsW (d_K _ _ _ Hd).
      * rewrite fo_snoc_own by auto. apply snoc_F; auto.
      * apply fo_remove_F; auto.
    + intros Hlt. apply (d_req _ _ _ Hd). unfold blen in *. simp_s. cbn in Hlt.
      apply Permutation_length in Hp. rewrite fo_snoc_own, app_length in Hlt by auto. cbn [length] in *. lia.
  - pose proof (not_own w m Ho) as Hn. frame_ev Hd.
    rewrite fo_snoc_not, (fo_remove_not w _ _ _ E) by auto. repeat split; reflexivity.
Qed.

(** *** a network message is delivered to controller [X]'s remote port *)
Lemma DRp w s k m : INVB s -> nth_error (net s) k = Some m -> msg_dst m = R w ->
  INVD w (setnet (remove_nth k (net s)) (setp w (getp w s <| rem_in := rem_in (getp w s) ++ [m] |>) s)).
Proof.
  intros HB E Hdst. pose proof (dir cf s w HB) as Hd.
  destruct (cls_nth w _ _ _ (x_net _ _ (b_ex _ _ HB)) E) as [Ho|Ho].
  - assert (Hk : isPQ m \/ isPR m) by (eapply (kf_nth w (fun m => isPQ m \/ isPR m)); [apply (k_net _ _ _ (d_K _ _ _ Hd))|exact E|exact Ho]).
    assert (Hin : In m (T1 w s)).
    { unfold toks1. repeat rewrite in_app_iff. right; right; left. unfold fo. apply filter_In. split; auto.
      eapply nth_error_In; eauto. }
    destruct (in_t1 cf w s m Hin Hd) as (r0 & b0 & Hokm).
    assert (Hm : isPR m).
    { destruct Hk as [(q & ->)|Hk]; auto. exfalso. cbn in Hokm. destruct Hokm as (i & _ & ->). cbn in Hdst.
      apply (R_other cf Hok w). auto. }
    pose proof (fo_remove_own w _ _ _ E Ho) as Hp.
    eapply (moveD cf w s _ [] [] (T1 w s)); [..|exact Hd]; simp_s; cbn; auto; try reflexivity; try toks_same.
    + unfold toks1. simp_s. cbn. rewrite fo_snoc_own by auto. perm.
    + kindsW (d_K _ _ _ Hd).
      * rewrite fo_snoc_own by auto. apply snoc_F; auto.
      * apply fo_remove_F; auto.
    + intros Hlt. apply (d_req _ _ _ Hd). unfold blen in *. simp_s. exact Hlt.
  - pose proof (not_own w m Ho) as Hn. frame_ev Hd.
    rewrite fo_snoc_not, (fo_remove_not w _ _ _ E) by auto. repeat split; reflexivity.
Qed.

Lemma DRs w s k m : INVB s -> nth_error (net s) k = Some m -> msg_dst m = R (other w) ->
  INVD w (setnet (remove_nth k (net s))
            (setp (other w) (getp (other w) s <| rem_in := rem_in (getp (other w) s) ++ [m] |>) s)).
Proof.
  intros HB E Hdst. pose proof (dir cf s w HB) as Hd.
  destruct (cls_nth w _ _ _ (x_net _ _ (b_ex _ _ HB)) E) as [Ho|Ho].
  - assert (Hk : isPQ m \/ isPR m) by (eapply (kf_nth w (fun m => isPQ m \/ isPR m)); [apply (k_net _ _ _ (d_K _ _ _ Hd))|exact E|exact Ho]).
    assert (Hin : In m (T1 w s)).
    { unfold toks1. repeat rewrite in_app_iff. right; right; left. unfold fo. apply filter_In. split; auto.
      eapply nth_error_In; eauto. }
    destruct (in_t1 cf w s m Hin Hd) as (r0 & b0 & Hokm).
    assert (Hm : isPQ m).
    { destruct Hk as [Hk|(q & ->)]; auto. exfalso. cbn in Hokm. destruct Hokm as (i & _ & ->). cbn in Hdst.
      apply (R_other cf Hok w). auto. }
    pose proof (fo_remove_own w _ _ _ E Ho) as Hp.
    eapply (moveD cf w s _ [] [] (T1 w s)); [..|exact Hd]; simp_s; cbn; auto; try reflexivity; try toks_same.
    + unfold toks1. simp_s. cbn. rewrite fo_snoc_own by auto. perm.
    + kindsW (d_K _ _ _ Hd).
      * rewrite fo_snoc_own by auto. apply snoc_F; auto.
      * apply fo_remove_F; auto.
    + intros Hlt. apply (d_req _ _ _ Hd). unfold blen in *. simp_s. exact Hlt.
  - pose proof (not_own w m Ho) as Hn. frame_ev Hd.
    rewrite fo_snoc_not, (fo_remove_not w _ _ _ E) by auto. repeat split; reflexivity.
Qed.

End Bi5.
