(** Invariants of the RDMA-engine model and the lemmas behind props/C18.v. *)
From Coq Require Import Arith Permutation.
From VLib Require Import Akita ListX.
From VMem Require Import Rdma.
From RecordUpdate Require Import RecordSet.
Import RecordSetNotations.
Open Scope N_scope.

Arguments can_push : simpl never.

(** * find_tx *)
Lemma find_tx_some id l t r :
  find_tx id l = Some (t, r) ->
  exists l1 l2, l = l1 ++ t :: l2 /\ r = l1 ++ l2 /\ t_fid t = id.
Proof.
  revert t r; induction l as [|u l IH]; intros t r H; cbn in H; [discriminate|].
  destruct (t_fid u =? id) eqn:E.
  - inversion H; subst. apply N.eqb_eq in E. exists [], r; auto.
  - destruct (find_tx id l) as [[v w]|] eqn:F; [|discriminate].
    inversion H; subst. destruct (IH _ _ eq_refl) as (l1 & l2 & -> & -> & Hid).
    exists (u :: l1), l2; auto.
Qed.

Lemma find_tx_none id l : find_tx id l = None -> ~ In id (map t_fid l).
Proof.
  induction l as [|u l IH]; cbn; intros H; [tauto|].
  destruct (t_fid u =? id) eqn:E; [discriminate|].
  destruct (find_tx id l) as [[v w]|]; [discriminate|].
  apply N.eqb_neq in E. intros [?|?]; [congruence|]. now apply IH.
Qed.

(** * One data path *)
Section Chan.
Context (find : N -> N) (pf pa : N) (cap : nat).

Definition done_ok (p : tx * msg) : Prop :=
  m_rspto (snd p) = t_fid (fst p) /\ is_rsp (snd p) = true.

Record ChanInv (c : chan) : Prop := {
  ci_deliv : map t_orig (g_all c) ++ q_in c = g_deliv c;
  ci_fwd   : g_fretr c ++ f_out c = map (fwd_of find pf) (g_all c);
  ci_ans   : g_aretr c ++ a_out c = map (answer_of pa) (g_done c);
  ci_perm  : Permutation (map fst (g_done c) ++ txs c) (g_all c);
  ci_rsp   : map snd (g_done c) ++ r_in c = g_rsp c;
  ci_done  : Forall done_ok (g_done c);
  ci_fresh : Forall (fun t => t_fid t < nid c) (g_all c);
  ci_nodup : NoDup (map t_fid (g_all c));
  ci_req   : Forall (fun t => is_req (t_orig t) = true) (g_all c);
  ci_capq  : (length (q_in c) <= cap)%nat;
  ci_capf  : (length (f_out c) <= cap)%nat;
  ci_capr  : (length (r_in c) <= cap)%nat;
  ci_capa  : (length (a_out c) <= cap)%nat
}.

Lemma chan0_inv b : ChanInv (chan0 b).
Proof. constructor; cbn; auto using NoDup_nil; lia. Qed.

Ltac ci_split H :=
  destruct H as [Hdeliv Hfwd Hans Hperm Hrsp Hdone Hfresh Hnodup Hreq Hcq Hcf Hcr Hca].

Lemma accept_inv c c' : ChanInv c -> accept find pf cap c = ROk c' -> ChanInv c'.
Proof.
  intros H; unfold accept.
  destruct (q_in c) as [|r rest] eqn:Eq; [discriminate|].
  destruct (is_req r) eqn:Ereq; cbn [negb]; [|discriminate].
  destruct (bad_dst pf (find (m_addr r))); [discriminate|].
  destruct (can_push cap (f_out c)) eqn:Epush; cbn [negb]; [|discriminate].
  intros E; inversion E; subst c'; clear E.
  unfold can_push in Epush; apply Nat.ltb_lt in Epush.
  ci_split H; constructor; cbn.
  - rewrite map_app, <- app_assoc; cbn. now rewrite <- Hdeliv, Eq.
  - now rewrite map_app, app_assoc, Hfwd.
  - auto.
  - rewrite app_assoc. now apply Permutation_app_tail.
  - auto.
  - auto.
  - apply Forall_app; split.
    + eapply Forall_impl; [|exact Hfresh]. cbn; intros; lia.
    + constructor; auto. cbn; lia.
  - rewrite map_app; cbn. apply NoDup_app_intro; auto.
    + constructor; auto using NoDup_nil.
    + intros x Hin [<-|[]]. apply in_map_iff in Hin as (t & Ht & Hin).
      rewrite Forall_forall in Hfresh. apply Hfresh in Hin. lia.
  - apply Forall_app; split; auto.
  - rewrite Eq in Hcq; cbn in Hcq; lia.
  - rewrite app_length; cbn; lia.
  - auto.
  - auto.
Qed.

Lemma complete_inv c c' : ChanInv c -> complete pa cap c = ROk c' -> ChanInv c'.
Proof.
  intros H; unfold complete.
  destruct (r_in c) as [|r rest] eqn:Er; [discriminate|].
  destruct (is_rsp r) eqn:Ersp; cbn [negb]; [|discriminate].
  destruct (find_tx (m_rspto r) (txs c)) as [[t txs']|] eqn:Ef; [|discriminate].
  destruct (bad_dst pa (m_src (t_orig t))); [discriminate|].
  destruct (can_push cap (a_out c)) eqn:Epush; cbn [negb]; [|discriminate].
  intros E; inversion E; subst c'; clear E.
  unfold can_push in Epush; apply Nat.ltb_lt in Epush.
  apply find_tx_some in Ef as (l1 & l2 & Htx & -> & Hid).
  ci_split H; constructor; cbn; auto.
  - now rewrite map_app, app_assoc, Hans.
  - rewrite map_app; cbn. rewrite Htx in Hperm.
    eapply Permutation_trans; [|exact Hperm].
    rewrite <- app_assoc. apply Permutation_app_head. cbn.
    apply Permutation_middle.
  - rewrite map_app, <- app_assoc; cbn. now rewrite <- Hrsp, Er.
  - apply Forall_app; split; auto. constructor; auto. split; cbn; auto.
  - rewrite Er in Hcr; cbn in Hcr; lia.
  - rewrite app_length; cbn; lia.
Qed.

(** environment actions on one path *)
Lemma deliver_q_inv c m :
  ChanInv c -> can_push cap (q_in c) = true ->
  ChanInv (c <| q_in := q_in c ++ [m] |> <| g_deliv := g_deliv c ++ [m] |>).
Proof.
  intros H E. unfold can_push in E; apply Nat.ltb_lt in E.
  ci_split H; constructor; cbn; auto.
  - now rewrite app_assoc, Hdeliv.
  - rewrite app_length; cbn; lia.
Qed.

Lemma deliver_r_inv c m :
  ChanInv c -> can_push cap (r_in c) = true ->
  ChanInv (c <| r_in := r_in c ++ [m] |> <| g_rsp := g_rsp c ++ [m] |>).
Proof.
  intros H E. unfold can_push in E; apply Nat.ltb_lt in E.
  ci_split H; constructor; cbn; auto.
  - now rewrite app_assoc, Hrsp.
  - rewrite app_length; cbn; lia.
Qed.

Lemma retrieve_f_inv c m r :
  ChanInv c -> f_out c = m :: r ->
  ChanInv (c <| f_out := r |> <| g_fretr := g_fretr c ++ [m] |>).
Proof.
  intros H E. ci_split H; constructor; cbn; auto.
  - rewrite <- app_assoc; cbn. now rewrite <- E.
  - rewrite E in Hcf; cbn in Hcf; lia.
Qed.

Lemma retrieve_a_inv c m r :
  ChanInv c -> a_out c = m :: r ->
  ChanInv (c <| a_out := r |> <| g_aretr := g_aretr c ++ [m] |>).
Proof.
  intros H E. ci_split H; constructor; cbn; auto.
  - rewrite <- app_assoc; cbn. now rewrite <- E.
  - rewrite E in Hca; cbn in Hca; lia.
Qed.

(** ** consequences *)
Lemma fwd_id t : m_id (fwd_of find pf t) = t_fid t.
Proof. unfold fwd_of, clone_req. destruct (m_kind (t_orig t)); reflexivity. Qed.

Lemma answer_rspto p : m_rspto (answer_of pa p) = m_id (t_orig (fst p)).
Proof. unfold answer_of, clone_rsp. destruct (m_kind (snd p)); reflexivity. Qed.

Lemma done_subset c : ChanInv c -> incl (map fst (g_done c)) (g_all c).
Proof.
  intros H t Hin. eapply Permutation_in; [apply (ci_perm _ H)|].
  apply in_or_app; auto.
Qed.

Lemma done_nodup c : ChanInv c -> NoDup (map t_fid (map fst (g_done c))).
Proof.
  intros H. pose proof (ci_nodup _ H) as Hn.
  eapply Permutation_NoDup in Hn.
  2:{ apply Permutation_map. apply Permutation_sym. apply (ci_perm _ H). }
  rewrite map_app in Hn. eapply NoDup_app_l; eauto.
Qed.

(** answered at most once, and only requests that were delivered *)
Lemma answers_once c :
  ChanInv c ->
  incl (map m_rspto (g_aretr c ++ a_out c)) (map m_id (g_deliv c)) /\
  (NoDup (map m_id (g_deliv c)) -> NoDup (map m_rspto (g_aretr c ++ a_out c))).
Proof.
  intros H. rewrite (ci_ans _ H), map_map.
  assert (E : map (fun p => m_rspto (answer_of pa p)) (g_done c) =
              map (fun t => m_id (t_orig t)) (map fst (g_done c))).
  { rewrite map_map. apply map_ext. intros p. apply answer_rspto. }
  rewrite E; clear E.
  assert (Hperm := ci_perm _ H).
  assert (Hd : map m_id (g_deliv c) = map (fun t => m_id (t_orig t)) (g_all c) ++ map m_id (q_in c)).
  { rewrite <- (ci_deliv _ H), map_app, map_map. reflexivity. }
  split.
  - intros x Hin. rewrite Hd. apply in_or_app; left.
    apply in_map_iff in Hin as (t & <- & Hin).
    apply (in_map (fun t => m_id (t_orig t))). now apply (done_subset _ H).
  - intros Hn. rewrite Hd in Hn. apply NoDup_app_l in Hn.
    eapply Permutation_NoDup in Hn.
    2:{ apply Permutation_map. apply Permutation_sym. exact Hperm. }
    rewrite map_app in Hn. eapply NoDup_app_l; eauto.
Qed.

(** every completed transaction consumed a different response *)
Lemma in_flight_or_done c t :
  ChanInv c -> In t (g_all c) -> In t (map fst (g_done c)) \/ In t (txs c).
Proof.
  intros H Hin. eapply Permutation_in in Hin; [|apply Permutation_sym, (ci_perm _ H)].
  now apply in_app_or in Hin.
Qed.

(** ** protocol-respecting traffic on one path *)
Definition ok_req (m : msg) : Prop :=
  is_req m = true /\ bad_dst pa (m_src m) = false /\ bad_dst pf (find (m_addr m)) = false.

Definition ok_rsp (c : chan) (m : msg) : Prop :=
  is_rsp m = true /\ In (m_rspto m) (map m_id (g_fretr c)) /\
  ~ In (m_rspto m) (map m_rspto (g_rsp c)).

Record ChanP (c : chan) : Prop := {
  cp_q   : Forall ok_req (q_in c);
  cp_all : Forall (fun t => ok_req (t_orig t)) (g_all c);
  cp_rsp : Forall (fun m => is_rsp m = true) (g_rsp c);
  cp_nd  : NoDup (map m_rspto (g_rsp c));
  cp_in  : incl (map m_rspto (g_rsp c)) (map m_id (g_fretr c))
}.

Lemma chan0_p b : ChanP (chan0 b).
Proof. constructor; cbn; auto using NoDup_nil. intros x []. Qed.

Lemma accept_ok c :
  ChanInv c -> ChanP c ->
  match accept find pf cap c with
  | RCrash _ => False
  | ROk c' => ChanP c'
  | RNone => True
  end.
Proof.
  intros H P; unfold accept.
  destruct (q_in c) as [|r rest] eqn:Eq; [exact I|].
  pose proof (cp_q _ P) as Hq. rewrite Eq in Hq. inversion Hq as [|? ? [Hr [Hs Hd]] Hrest]; subst.
  rewrite Hr, Hd; cbn [negb].
  destruct (can_push cap (f_out c)); cbn [negb]; [|exact I].
  destruct P as [Pq Pall Prsp Pnd Pin]; constructor; cbn; auto.
  apply Forall_app; split; auto. constructor; auto. cbn. repeat split; auto.
Qed.

Lemma complete_ok c :
  ChanInv c -> ChanP c ->
  match complete pa cap c with
  | RCrash _ => False
  | ROk c' => ChanP c'
  | RNone => True
  end.
Proof.
  intros H P; unfold complete.
  destruct (r_in c) as [|r rest] eqn:Er; [exact I|].
  assert (Hin : In r (g_rsp c)).
  { rewrite <- (ci_rsp _ H), Er. apply in_or_app; right; left; auto. }
  pose proof (cp_rsp _ P) as Hrsp. rewrite Forall_forall in Hrsp.
  rewrite (Hrsp _ Hin); cbn [negb].
  (* the transaction is still pending *)
  assert (Hpend : In (m_rspto r) (map t_fid (txs c))).
  { assert (Hall : In (m_rspto r) (map t_fid (g_all c))).
    { pose proof (cp_in _ P (m_rspto r) (in_map _ _ _ Hin)) as Hf.
      assert (Hsub : incl (map m_id (g_fretr c)) (map t_fid (g_all c))).
      { intros x Hx. apply in_map_iff in Hx as (m & <- & Hm).
        assert (Hm' : In m (map (fwd_of find pf) (g_all c))).
        { rewrite <- (ci_fwd _ H). apply in_or_app; auto. }
        apply in_map_iff in Hm' as (t & <- & Ht). rewrite fwd_id. now apply in_map. }
      now apply Hsub. }
    apply in_map_iff in Hall as (t & Hid & Ht).
    destruct (in_flight_or_done _ _ H Ht) as [Hd|Hp].
    - exfalso. apply in_map_iff in Hd as ([t' r'] & Heq & Hd); cbn in Heq; subst t'.
      pose proof (ci_done _ H) as Hok. rewrite Forall_forall in Hok.
      destruct (Hok _ Hd) as [Hr' _]; cbn in Hr'.
      pose proof (cp_nd _ P) as Hnd. rewrite <- (ci_rsp _ H), Er, map_app in Hnd.
      eapply (NoDup_app_disj _ _ (m_rspto r) Hnd).
      + rewrite map_map. apply in_map_iff. exists (t, r'); split; auto. cbn; congruence.
      + cbn; auto.
    - rewrite <- Hid. now apply in_map. }
  destruct (find_tx (m_rspto r) (txs c)) as [[t txs']|] eqn:Ef.
  2:{ now apply find_tx_none in Ef. }
  apply find_tx_some in Ef as (l1 & l2 & Htx & -> & Hid).
  assert (Ht : In t (g_all c)).
  { eapply Permutation_in; [apply (ci_perm _ H)|]. apply in_or_app; right.
    rewrite Htx. apply in_or_app; right; left; auto. }
  pose proof (cp_all _ P) as Hall. rewrite Forall_forall in Hall.
  destruct (Hall _ Ht) as (_ & Hs & _). rewrite Hs.
  destruct (can_push cap (a_out c)); cbn [negb]; [|exact I].
  destruct P as [Pq Pall Prsp Pnd Pin]; constructor; cbn; auto.
Qed.

Lemma deliver_q_p c m :
  ChanP c -> ok_req m -> ChanP (c <| q_in := q_in c ++ [m] |> <| g_deliv := g_deliv c ++ [m] |>).
Proof.
  intros [Pq Pall Prsp Pnd Pin] Hm; constructor; cbn; auto.
  apply Forall_app; split; auto.
Qed.

Lemma deliver_r_p c m :
  ChanP c -> ok_rsp c m -> ChanP (c <| r_in := r_in c ++ [m] |> <| g_rsp := g_rsp c ++ [m] |>).
Proof.
  intros [Pq Pall Prsp Pnd Pin] (Hk & Hin & Hnew); constructor; cbn; auto.
  - apply Forall_app; split; auto.
  - rewrite map_app; cbn. apply NoDup_app_intro; auto.
    + constructor; auto using NoDup_nil.
    + intros x Hx [<-|[]]. contradiction.
  - rewrite map_app; cbn. intros x Hx. apply in_app_or in Hx as [Hx|[<-|[]]]; auto.
Qed.

Lemma retrieve_f_p c m r :
  ChanP c -> ChanP (c <| f_out := r |> <| g_fretr := g_fretr c ++ [m] |>).
Proof.
  intros [Pq Pall Prsp Pnd Pin]; constructor; cbn; auto.
  rewrite map_app. intros x Hx. apply in_or_app; left; auto.
Qed.

Lemma retrieve_a_p c m r :
  ChanP c -> ChanP (c <| a_out := r |> <| g_aretr := g_aretr c ++ [m] |>).
Proof. intros [Pq Pall Prsp Pnd Pin]; constructor; cbn; auto. Qed.

End Chan.

(** * The whole engine *)
Definition ack_ok (a : ack) : Prop :=
  k_in a = [] /\ k_out a = [] /\ k_pause a = true /\
  k_in_all a = k_in_done a /\ k_out_all a = k_out_done a.

Definition nctl (f : N) (l : list msg) : nat := length (filter (is_ctl f) l).

Record Inv (c : cfg) (s : st) : Prop := {
  i_in   : ChanInv (remote_find c) P_RO P_RI (bufsz c) (ch_in s);
  i_out  : ChanInv (local_find c) P_DI P_DO (bufsz c) (ch_out s);
  i_acks : Forall ack_ok (g_acks s);
  i_nack : nctl FL_DRAIN_RSP (g_ctretr s ++ ct_out s) = length (g_acks s);
  i_nrst : nctl FL_RESTART_RSP (g_ctretr s ++ ct_out s) = g_nrestart s;
  i_cur  : cur s <> None -> pause s = true;
  i_cti  : (length (ct_in s) <= bufsz c)%nat;
  i_cto  : (length (ct_out s) <= bufsz c)%nat
}.

Lemma init_inv c : Inv c init.
Proof. constructor; cbn; auto using chan0_inv; try lia. Qed.

Ltac inv_split H := destruct H as [Hin Hout Hacks Hnack Hnrst Hcur Hcti Hcto].

Definition pres (P : st -> Prop) (f : st -> st * bool) : Prop := forall s, P s -> P (fst (f s)).

Lemma pres_seq2 P f g : pres P f -> pres P g -> pres P (seq2 f g).
Proof.
  intros Hf Hg s H; unfold seq2. specialize (Hf s H).
  destruct (f s) as [s1 p1]; cbn in Hf.
  destruct (is_crashed s1); [exact Hf|].
  specialize (Hg s1 Hf). destruct (g s1) as [s2 p2]; exact Hg.
Qed.

Lemma pres_iter P f n : pres P f -> pres P (iter n f).
Proof.
  intros Hf; induction n as [|n IH]; intros s H; cbn; auto.
  destruct (is_crashed s); [exact H|].
  specialize (Hf s H). destruct (f s) as [s1 p1]; cbn in Hf.
  specialize (IH s1 Hf). destruct (iter n f s1) as [s2 p2]; exact IH.
Qed.

Lemma pres_l1_loop P c n : pres P (in_accept c) -> forall p s, P s -> P (fst (l1_loop c n s p)).
Proof.
  intros Hf; induction n as [|n IH]; intros p s H; cbn; auto.
  specialize (Hf s H). destruct (in_accept c s) as [s1 p1]; cbn in Hf.
  destruct (is_crashed s1); [exact Hf|]. destruct p1; auto.
Qed.

Lemma pres_from_l1 P c : pres P (in_accept c) -> pres P (from_l1 c).
Proof.
  intros Hf s H; unfold from_l1. destruct (pause s); [exact H|]. now apply pres_l1_loop.
Qed.

Lemma crash_inv c s r : Inv c s -> Inv c (fst (crash s r)).
Proof. intros H; inv_split H; constructor; cbn; auto. Qed.

Lemma in_accept_inv c : pres (Inv c) (in_accept c).
Proof.
  intros s H; unfold in_accept.
  destruct (accept _ _ _ _) as [|ch|r] eqn:E; [exact H| |now apply crash_inv].
  pose proof (accept_inv _ _ _ _ _ _ (i_in _ _ H) E).
  inv_split H; constructor; cbn; auto.
Qed.

Lemma out_accept_inv c : pres (Inv c) (out_accept c).
Proof.
  intros s H; unfold out_accept.
  destruct (accept _ _ _ _) as [|ch|r] eqn:E; [exact H| |now apply crash_inv].
  pose proof (accept_inv _ _ _ _ _ _ (i_out _ _ H) E).
  inv_split H; constructor; cbn; auto.
Qed.

Lemma in_complete_inv c : pres (Inv c) (in_complete c).
Proof.
  intros s H; unfold in_complete.
  destruct (complete _ _ _) as [|ch|r] eqn:E; [exact H| |now apply crash_inv].
  pose proof (complete_inv (remote_find c) P_RO _ _ _ _ (i_in _ _ H) E).
  inv_split H; constructor; cbn; auto.
Qed.

Lemma out_complete_inv c : pres (Inv c) (out_complete c).
Proof.
  intros s H; unfold out_complete.
  destruct (complete _ _ _) as [|ch|r] eqn:E; [exact H| |now apply crash_inv].
  pose proof (complete_inv (local_find c) P_DI _ _ _ _ (i_out _ _ H) E).
  inv_split H; constructor; cbn; auto.
Qed.

Lemma nctl_app f l1 l2 : nctl f (l1 ++ l2) = (nctl f l1 + nctl f l2)%nat.
Proof. unfold nctl. now rewrite filter_app, app_length. Qed.

Lemma nctl_single f g d : nctl f [ctl_rsp g d] = if g =? f then 1%nat else 0%nat.
Proof. unfold nctl; cbn. destruct (g =? f); reflexivity. Qed.
Arguments nctl : simpl never.

Lemma process_ctl_inv c : pres (Inv c) (process_ctl c).
Proof.
  intros s H; unfold process_ctl.
  destruct (ct_in s) as [|m rest] eqn:Ec; [exact H|].
  assert (Hrest : (length rest <= bufsz c)%nat).
  { pose proof (i_cti _ _ H) as Hl. rewrite Ec in Hl; cbn in Hl; lia. }
  destruct (is_ctl FL_DRAIN_REQ m).
  { inv_split H; constructor; cbn; auto. }
  destruct (is_ctl FL_RESTART_REQ m).
  2:{ apply crash_inv. inv_split H; constructor; cbn; auto. }
  cbn [cur set]. destruct (cur s) as [d|] eqn:Ecur.
  2:{ apply crash_inv. inv_split H; constructor; cbn; auto. }
  cbn.
  destruct (bad_dst P_CT (m_src d)).
  { apply crash_inv. inv_split H; constructor; cbn; auto. }
  destruct (can_push (bufsz c) (ct_out s)) eqn:Ep.
  - unfold can_push in Ep; apply Nat.ltb_lt in Ep.
    inv_split H; constructor; cbn; auto.
    + rewrite app_assoc, nctl_app, Hnack, nctl_single; cbn; lia.
    + rewrite app_assoc, nctl_app, Hnrst, nctl_single; cbn; lia.
    + rewrite app_length; cbn; lia.
  - inv_split H; constructor; cbn; auto.
Qed.

Lemma perm_nil_length {A B} (l1 : list (A * B)) (l2 : list A) :
  Permutation (map fst l1 ++ []) l2 -> length l2 = length l1.
Proof.
  intros Hp. apply Permutation_length in Hp. rewrite app_nil_r, map_length in Hp. lia.
Qed.

Lemma drain_inv c : pres (Inv c) (drain c).
Proof.
  intros s H; unfold drain.
  destruct (draining s); cbn [negb]; [|exact H].
  destruct (fully_drained s) eqn:Efd; cbn [negb]; [|exact H].
  destruct (cur s) as [d|] eqn:Ecur; [|now apply crash_inv].
  destruct (bad_dst P_CT (m_src d)); [now apply crash_inv|].
  destruct (can_push (bufsz c) (ct_out s)) eqn:Ep; [|exact H].
  unfold can_push in Ep; apply Nat.ltb_lt in Ep.
  unfold fully_drained in Efd.
  destruct (txs (ch_out s)) eqn:Eo; [|discriminate].
  destruct (txs (ch_in s)) eqn:Ei; [|discriminate].
  inv_split H; constructor; cbn; auto.
  - apply Forall_app; split; auto. constructor; auto.
    unfold ack_ok, snapshot; cbn. rewrite Ei, Eo. repeat split; auto.
    + apply Hcur. congruence.
    + eapply perm_nil_length. rewrite <- Ei. apply (ci_perm _ _ _ _ _ Hin).
    + eapply perm_nil_length. rewrite <- Eo. apply (ci_perm _ _ _ _ _ Hout).
  - rewrite app_assoc, nctl_app, app_length, Hnack, nctl_single; cbn; lia.
  - rewrite app_assoc, nctl_app, Hnrst, nctl_single; cbn; lia.
  - rewrite app_length; cbn; lia.
Qed.

Lemma tick_pres P c :
  pres P (process_ctl c) -> pres P (drain c) -> pres P (in_accept c) ->
  pres P (out_complete c) -> pres P (out_accept c) -> pres P (in_complete c) ->
  pres P (tick c).
Proof.
  intros. unfold tick.
  repeat (apply pres_seq2; auto using pres_iter, pres_from_l1).
Qed.

Lemma tick_inv c : pres (Inv c) (tick c).
Proof.
  apply tick_pres; auto using process_ctl_inv, drain_inv, in_accept_inv, out_complete_inv,
    out_accept_inv, in_complete_inv.
Qed.

Lemma deliver_inv c s p m : Inv c s -> Inv c (fst (deliver c s p m)).
Proof.
  intros H; unfold deliver. destruct p.
  - destruct (can_push _ _) eqn:E; [|exact H].
    pose proof (deliver_q_inv _ _ _ _ _ m (i_in _ _ H) E). inv_split H; constructor; cbn; auto.
  - destruct (can_push _ _) eqn:E; [|exact H].
    pose proof (deliver_r_inv _ _ _ _ _ m (i_in _ _ H) E). inv_split H; constructor; cbn; auto.
  - destruct (can_push _ _) eqn:E; [|exact H].
    pose proof (deliver_r_inv _ _ _ _ _ m (i_out _ _ H) E). inv_split H; constructor; cbn; auto.
  - destruct (can_push _ _) eqn:E; [|exact H].
    pose proof (deliver_q_inv _ _ _ _ _ m (i_out _ _ H) E). inv_split H; constructor; cbn; auto.
  - destruct (can_push _ _) eqn:E; [|exact H].
    unfold can_push in E; apply Nat.ltb_lt in E.
    inv_split H; constructor; cbn; auto. rewrite app_length; cbn; lia.
Qed.

Lemma retrieve_inv c s p : Inv c s -> Inv c (fst (retrieve s p)).
Proof.
  intros H; unfold retrieve. destruct p.
  - destruct (a_out (ch_in s)) as [|m r] eqn:E; [exact H|].
    pose proof (retrieve_a_inv _ _ _ _ _ _ _ (i_in _ _ H) E). inv_split H; constructor; cbn; auto.
  - destruct (f_out (ch_in s)) as [|m r] eqn:E; [exact H|].
    pose proof (retrieve_f_inv _ _ _ _ _ _ _ (i_in _ _ H) E). inv_split H; constructor; cbn; auto.
  - destruct (f_out (ch_out s)) as [|m r] eqn:E; [exact H|].
    pose proof (retrieve_f_inv _ _ _ _ _ _ _ (i_out _ _ H) E). inv_split H; constructor; cbn; auto.
  - destruct (a_out (ch_out s)) as [|m r] eqn:E; [exact H|].
    pose proof (retrieve_a_inv _ _ _ _ _ _ _ (i_out _ _ H) E). inv_split H; constructor; cbn; auto.
  - destruct (ct_out s) as [|m r] eqn:E; [exact H|].
    inv_split H; constructor; cbn; auto.
    + rewrite <- app_assoc; cbn. now rewrite <- E.
    + rewrite <- app_assoc; cbn. now rewrite <- E.
    + rewrite E in Hcto; cbn in Hcto; lia.
Qed.

Lemma step_inv c s e : Inv c s -> Inv c (fst (step c s e)).
Proof.
  intros H; unfold step. destruct (is_crashed s); [exact H|].
  destruct e as [p m| |p].
  - now apply deliver_inv.
  - pose proof (tick_inv c s H) as Ht. destruct (tick c s) as [s' p]; cbn in *.
    destruct (is_crashed s'); exact Ht.
  - now apply retrieve_inv.
Qed.

Lemma run_app c s e1 e2 : run c s (e1 ++ e2) = run c (run c s e1) e2.
Proof. unfold run. now rewrite fold_left_app. Qed.

Lemma run_inv c evs : forall s, Inv c s -> Inv c (run c s evs).
Proof.
  induction evs as [|e evs IH]; intros s H; cbn; auto.
  apply IH. now apply step_inv.
Qed.

(** * While paused nothing from inside is accepted *)
Definition PR (s s' : st) : Prop :=
  (g_nrestart s <= g_nrestart s')%nat /\
  (pause s = true -> g_nrestart s' = g_nrestart s ->
   pause s' = true /\ g_all (ch_in s') = g_all (ch_in s)).

Lemma PR_refl s : PR s s.
Proof. split; auto. Qed.

Lemma PR_trans a b c : PR a b -> PR b c -> PR a c.
Proof.
  intros [H1 H2] [H3 H4]; split; [lia|]. intros Hp He.
  assert (Hb : g_nrestart b = g_nrestart a) by lia.
  destruct (H2 Hp Hb) as [Hpb Hgb]. assert (Hc : g_nrestart c = g_nrestart b) by lia.
  destruct (H4 Hpb Hc) as [Hpc Hgc]. split; congruence.
Qed.

(** a stage that leaves the pause flag, the restart counter and the list of
    inside transactions alone *)
Definition quiet (s s' : st) : Prop :=
  g_nrestart s' = g_nrestart s /\ pause s' = pause s /\ g_all (ch_in s') = g_all (ch_in s).

Lemma quiet_PR s s' : quiet s s' -> PR s s'.
Proof. intros (H1 & H2 & H3); split; [lia|]. intros; split; congruence. Qed.

Definition stepR (R : st -> st -> Prop) (f : st -> st * bool) : Prop := forall s, R s (fst (f s)).

Lemma stepR_seq2 f g : stepR PR f -> stepR PR g -> stepR PR (seq2 f g).
Proof.
  intros Hf Hg s; unfold seq2. specialize (Hf s). destruct (f s) as [s1 p1]; cbn in Hf.
  destruct (is_crashed s1); [exact Hf|].
  specialize (Hg s1). destruct (g s1) as [s2 p2]; cbn in *. eapply PR_trans; eauto.
Qed.

Lemma stepR_iter f n : stepR PR f -> stepR PR (iter n f).
Proof.
  intros Hf; induction n as [|n IH]; intros s; cbn; [apply PR_refl|].
  destruct (is_crashed s); [apply PR_refl|].
  specialize (Hf s). destruct (f s) as [s1 p1]; cbn in Hf.
  specialize (IH s1). destruct (iter n f s1) as [s2 p2]; cbn in *. eapply PR_trans; eauto.
Qed.

Lemma complete_g_all pa cap c c' : complete pa cap c = ROk c' -> g_all c' = g_all c.
Proof.
  unfold complete. destruct (r_in c); [discriminate|].
  destruct (negb _); [discriminate|]. destruct (find_tx _ _) as [[t0 l0]|]; [|discriminate].
  destruct (bad_dst _ _); [discriminate|]. destruct (negb _); [discriminate|].
  intros E; inversion E; reflexivity.
Qed.

Lemma in_complete_quiet c s : quiet s (fst (in_complete c s)).
Proof.
  unfold in_complete. destruct (complete _ _ _) as [|ch|r] eqn:E; cbn; try (repeat split; reflexivity).
  repeat split; auto. now apply complete_g_all in E.
Qed.
Lemma out_complete_quiet c s : quiet s (fst (out_complete c s)).
Proof. unfold out_complete. destruct (complete _ _ _); cbn; repeat split; reflexivity. Qed.
Lemma out_accept_quiet c s : quiet s (fst (out_accept c s)).
Proof. unfold out_accept. destruct (accept _ _ _ _); cbn; repeat split; reflexivity. Qed.

Lemma in_accept_nrestart c s : g_nrestart (fst (in_accept c s)) = g_nrestart s.
Proof. unfold in_accept. destruct (accept _ _ _ _); reflexivity. Qed.

Lemma from_l1_PR c : stepR PR (from_l1 c).
Proof.
  intros s; unfold from_l1. destruct (pause s) eqn:Ep; [apply PR_refl|].
  assert (H : g_nrestart (fst (l1_loop c (length (q_in (ch_in s))) s false)) = g_nrestart s).
  { apply (pres_l1_loop (fun x => g_nrestart x = g_nrestart s)); auto.
    intros x Hx. now rewrite in_accept_nrestart. }
  split; [lia|]. rewrite Ep; discriminate.
Qed.

Lemma process_ctl_PR c : stepR PR (process_ctl c).
Proof.
  intros s; unfold process_ctl. destruct (ct_in s) as [|m rest]; [apply PR_refl|].
  destruct (is_ctl FL_DRAIN_REQ m).
  { split; cbn; [lia|]. intros; split; reflexivity. }
  destruct (is_ctl FL_RESTART_REQ m).
  2:{ apply quiet_PR; repeat split; reflexivity. }
  cbn [cur set]. destruct (cur s) as [d|].
  2:{ apply quiet_PR; repeat split; reflexivity. }
  cbn. destruct (bad_dst P_CT (m_src d)).
  { apply quiet_PR; repeat split; reflexivity. }
  destruct (can_push (bufsz c) (ct_out s)).
  - split; cbn; [lia|]. intros; lia.
  - apply quiet_PR; repeat split; reflexivity.
Qed.

Lemma drain_PR c : stepR PR (drain c).
Proof.
  intros s; unfold drain. apply quiet_PR.
  destruct (negb (draining s)); [repeat split; reflexivity|].
  destruct (negb (fully_drained s)); [repeat split; reflexivity|].
  destruct (cur s) as [d|]; [|repeat split; reflexivity].
  destruct (bad_dst _ _); [repeat split; reflexivity|].
  destruct (can_push _ _); repeat split; reflexivity.
Qed.

Lemma tick_PR c : stepR PR (tick c).
Proof.
  unfold tick.
  apply stepR_seq2; [apply process_ctl_PR|].
  apply stepR_seq2; [apply drain_PR|].
  apply stepR_seq2; [apply stepR_iter, from_l1_PR|].
  apply stepR_seq2; [apply stepR_iter; intros s; apply quiet_PR, out_complete_quiet|].
  apply stepR_seq2; [apply stepR_iter; intros s; apply quiet_PR, out_accept_quiet|].
  apply stepR_iter; intros s; apply quiet_PR, in_complete_quiet.
Qed.

Lemma step_PR c s e : PR s (fst (step c s e)).
Proof.
  unfold step. destruct (is_crashed s); [apply PR_refl|].
  destruct e as [p m| |p].
  - apply quiet_PR. unfold deliver. destruct p; destruct (can_push _ _); repeat split; reflexivity.
  - pose proof (tick_PR c s) as H. destruct (tick c s) as [s' p]; cbn in *.
    destruct (is_crashed s'); exact H.
  - apply quiet_PR. unfold retrieve. destruct p.
    + destruct (a_out (ch_in s)); repeat split; reflexivity.
    + destruct (f_out (ch_in s)); repeat split; reflexivity.
    + destruct (f_out (ch_out s)); repeat split; reflexivity.
    + destruct (a_out (ch_out s)); repeat split; reflexivity.
    + destruct (ct_out s); repeat split; reflexivity.
Qed.

Lemma run_PR c evs : forall s, PR s (run c s evs).
Proof.
  induction evs as [|e evs IH]; intros s; cbn; [apply PR_refl|].
  eapply PR_trans; [apply step_PR|apply IH].
Qed.

(** * Protocol-respecting environments never crash the engine *)
Definition good_src (m : msg) : Prop := bad_dst P_CT (m_src m) = false.

Definition ctl_ok (s : st) : Prop :=
  match g_env s with
  | Idle => ct_in s = [] /\ ct_out s = [] /\ cur s = None /\ draining s = false
  | WaitDrain =>
    (exists d, ct_in s = [d] /\ is_ctl FL_DRAIN_REQ d = true /\ good_src d /\
               ct_out s = [] /\ cur s = None /\ draining s = false) \/
    (exists d, ct_in s = [] /\ cur s = Some d /\ good_src d /\
               ((draining s = true /\ ct_out s = []) \/
                (draining s = false /\ ct_out s = [ctl_rsp FL_DRAIN_RSP d])))
  | Drained =>
    exists d, ct_in s = [] /\ ct_out s = [] /\ cur s = Some d /\ good_src d /\ draining s = false
  | WaitRestart =>
    (exists d r, ct_in s = [r] /\ is_ctl FL_RESTART_REQ r = true /\ ct_out s = [] /\
                 cur s = Some d /\ good_src d /\ draining s = false) \/
    (exists d, ct_in s = [] /\ ct_out s = [ctl_rsp FL_RESTART_RSP d] /\ cur s = None /\
               draining s = false)
  end.

Lemma ctl_ok_ext s s' :
  g_env s' = g_env s -> ct_in s' = ct_in s -> ct_out s' = ct_out s -> cur s' = cur s ->
  draining s' = draining s -> ctl_ok s -> ctl_ok s'.
Proof. unfold ctl_ok. intros -> -> -> -> ->. auto. Qed.

Record Good (c : cfg) (s : st) : Prop := {
  gd_inv : Inv c s;
  gd_in  : ChanP (remote_find c) P_RO P_RI (ch_in s);
  gd_out : ChanP (local_find c) P_DI P_DO (ch_out s);
  gd_ctl : ctl_ok s;
  gd_up  : crashed s = None
}.

Lemma init_good c : Good c init.
Proof. constructor; cbn; auto using init_inv, chan0_p. Qed.

Definition ok_ev (c : cfg) (s : st) (e : ev) : Prop :=
  match e with
  | EDeliver RI m => ok_req (remote_find c) P_RO P_RI m
  | EDeliver DO m => ok_req (local_find c) P_DI P_DO m
  | EDeliver RO m => ok_rsp (ch_in s) m
  | EDeliver DI m => ok_rsp (ch_out s) m
  | EDeliver CT m => (g_env s = Idle /\ is_ctl FL_DRAIN_REQ m = true /\ good_src m) \/
                     (g_env s = Drained /\ is_ctl FL_RESTART_REQ m = true)
  | _ => True
  end.

Fixpoint respects (c : cfg) (s : st) (evs : list ev) : Prop :=
  match evs with
  | [] => True
  | e :: r => ok_ev c s e /\ respects c (fst (step c s e)) r
  end.

Lemma in_accept_good c : pres (Good c) (in_accept c).
Proof.
  intros s G. pose proof (in_accept_inv c s (gd_inv _ _ G)) as Hi.
  pose proof (accept_ok _ _ _ (bufsz c) _ (i_in _ _ (gd_inv _ _ G)) (gd_in _ _ G)) as Ha.
  unfold in_accept in *. destruct (accept _ _ _ _) as [|ch|r]; [exact G| |contradiction].
  destruct G as [_ Gi Go Gc Gu]; constructor; cbn; auto.
Qed.

Lemma out_accept_good c : pres (Good c) (out_accept c).
Proof.
  intros s G. pose proof (out_accept_inv c s (gd_inv _ _ G)) as Hi.
  pose proof (accept_ok _ _ _ (bufsz c) _ (i_out _ _ (gd_inv _ _ G)) (gd_out _ _ G)) as Ha.
  unfold out_accept in *. destruct (accept _ _ _ _) as [|ch|r]; [exact G| |contradiction].
  destruct G as [_ Gi Go Gc Gu]; constructor; cbn; auto.
Qed.

Lemma in_complete_good c : pres (Good c) (in_complete c).
Proof.
  intros s G. pose proof (in_complete_inv c s (gd_inv _ _ G)) as Hi.
  pose proof (complete_ok _ _ _ (bufsz c) _ (i_in _ _ (gd_inv _ _ G)) (gd_in _ _ G)) as Ha.
  unfold in_complete in *. destruct (complete _ _ _) as [|ch|r]; [exact G| |contradiction].
  destruct G as [_ Gi Go Gc Gu]; constructor; cbn; auto.
Qed.

Lemma out_complete_good c : pres (Good c) (out_complete c).
Proof.
  intros s G. pose proof (out_complete_inv c s (gd_inv _ _ G)) as Hi.
  pose proof (complete_ok _ _ _ (bufsz c) _ (i_out _ _ (gd_inv _ _ G)) (gd_out _ _ G)) as Ha.
  unfold out_complete in *. destruct (complete _ _ _) as [|ch|r]; [exact G| |contradiction].
  destruct G as [_ Gi Go Gc Gu]; constructor; cbn; auto.
Qed.

Lemma ctl_kinds_disjoint m : is_ctl FL_RESTART_REQ m = true -> is_ctl FL_DRAIN_REQ m = false.
Proof.
  unfold is_ctl. destruct (kind_eqb _ _); cbn; [|discriminate].
  intros H; apply N.eqb_eq in H. rewrite H. reflexivity.
Qed.

Lemma process_ctl_good c : pres (Good c) (process_ctl c).
Proof.
  intros s G. pose proof (process_ctl_inv c s (gd_inv _ _ G)) as Hi.
  pose proof (i_cti _ _ (gd_inv _ _ G)) as Hlen.
  destruct G as [_ Gi Go Gc Gu]. unfold process_ctl in *.
  destruct (ct_in s) as [|m rest] eqn:Ec; [constructor; auto|].
  unfold ctl_ok in Gc. destruct (g_env s) eqn:Eenv.
  - destruct Gc as (H & _); congruence.
  - destruct Gc as [(d & H1 & Hk & Hs & Ho & Hcu & Hd)|(d & H1 & _)]; [|congruence].
    rewrite Ec in H1; inversion H1; subst d rest. rewrite Hk in *.
    constructor; cbn; auto. unfold ctl_ok; cbn. rewrite Eenv.
    right. exists m. repeat split; auto.
  - destruct Gc as (d & H & _); congruence.
  - destruct Gc as [(d & r & H1 & Hk & Ho & Hcu & Hs & Hd)|(d & H1 & _)]; [|congruence].
    rewrite Ec in H1; inversion H1; subst r rest. rewrite (ctl_kinds_disjoint _ Hk), Hk in *.
    cbn [cur set] in *. rewrite Hcu in *. cbn in *. unfold good_src in Hs. rewrite Hs in *.
    assert (Ep : can_push (bufsz c) (ct_out s) = true).
    { rewrite Ho. unfold can_push. apply Nat.ltb_lt. cbn in *. lia. }
    rewrite Ep in *. constructor; cbn; auto. unfold ctl_ok; cbn. rewrite Eenv.
    right. exists d. rewrite Ho. repeat split; auto.
Qed.

Lemma drain_good c : pres (Good c) (drain c).
Proof.
  intros s G. pose proof (drain_inv c s (gd_inv _ _ G)) as Hi.
  destruct G as [_ Gi Go Gc Gu]. pose proof Gc as Gc0. unfold drain in *.
  destruct (draining s) eqn:Ed; cbn [negb] in *; [|constructor; auto].
  destruct (fully_drained s); cbn [negb] in *; [|constructor; auto].
  unfold ctl_ok in Gc. destruct (g_env s) eqn:Eenv.
  - destruct Gc as (_ & _ & _ & H); congruence.
  - destruct Gc as [(d & _ & _ & _ & _ & _ & H)|(d & H1 & Hcu & Hs & [[_ Ho]|[H _]])]; try congruence.
    rewrite Hcu in *. unfold good_src in Hs. rewrite Hs in *.
    destruct (can_push (bufsz c) (ct_out s)); [|constructor; auto].
    constructor; cbn; auto. unfold ctl_ok; cbn. rewrite Eenv.
    right. exists d. rewrite Ho. repeat split; auto.
  - destruct Gc as (d & _ & _ & _ & _ & H); congruence.
  - destruct Gc as [(d & r & _ & _ & _ & _ & _ & H)|(d & _ & _ & _ & H)]; congruence.
Qed.

Lemma tick_good c : pres (Good c) (tick c).
Proof.
  apply tick_pres; auto using process_ctl_good, drain_good, in_accept_good, out_complete_good,
    out_accept_good, in_complete_good.
Qed.

Lemma deliver_good c s p m : Good c s -> ok_ev c s (EDeliver p m) -> Good c (fst (deliver c s p m)).
Proof.
  intros G Hok. pose proof (deliver_inv c s p m (gd_inv _ _ G)) as Hi.
  destruct G as [_ Gi Go Gc Gu]. pose proof Gc as Gc0. unfold deliver in *. destruct p; cbn in Hok.
  - destruct (can_push _ _); [|constructor; auto].
    constructor; cbn; auto. now apply deliver_q_p.
  - destruct (can_push _ _); [|constructor; auto].
    constructor; cbn; auto. now apply deliver_r_p.
  - destruct (can_push _ _); [|constructor; auto].
    constructor; cbn; auto. now apply deliver_r_p.
  - destruct (can_push _ _); [|constructor; auto].
    constructor; cbn; auto. now apply deliver_q_p.
  - destruct (can_push _ _); [|constructor; auto].
    constructor; cbn; auto. unfold ctl_ok, env_deliver in *; cbn.
    destruct Hok as [(He & Hk & Hs)|(He & Hk)]; rewrite He in *.
    + rewrite Hk. destruct Gc as (-> & -> & -> & ->). left. exists m. cbn. auto 10.
    + rewrite Hk. destruct Gc as (d & -> & -> & -> & Hs & ->). left. exists d, m. cbn. auto 10.
Qed.

Lemma retrieve_good c s p : Good c s -> Good c (fst (retrieve s p)).
Proof.
  intros G. pose proof (retrieve_inv c s p (gd_inv _ _ G)) as Hi.
  destruct G as [_ Gi Go Gc Gu]. pose proof Gc as Gc0. unfold retrieve in *. destruct p.
  - destruct (a_out (ch_in s)); [constructor; auto|]. constructor; cbn; auto. now apply retrieve_a_p.
  - destruct (f_out (ch_in s)); [constructor; auto|]. constructor; cbn; auto. now apply retrieve_f_p.
  - destruct (f_out (ch_out s)); [constructor; auto|]. constructor; cbn; auto. now apply retrieve_f_p.
  - destruct (a_out (ch_out s)); [constructor; auto|]. constructor; cbn; auto. now apply retrieve_a_p.
  - destruct (ct_out s) as [|m r] eqn:Eo; [constructor; auto|].
    constructor; cbn; auto. unfold ctl_ok, env_retrieve in *; cbn.
    destruct (g_env s).
    + destruct Gc as (_ & H & _); congruence.
    + destruct Gc as [(d & _ & _ & _ & H & _)|(d & H1 & Hcu & Hs & [[_ H]|[Hd H]])]; try congruence.
      rewrite Eo in H; inversion H; subst m r. cbn. exists d. auto 10.
    + destruct Gc as (d & _ & H & _); congruence.
    + destruct Gc as [(d & r' & _ & _ & H & _)|(d & H1 & H & Hcu & Hd)]; try congruence.
      rewrite Eo in H; inversion H; subst m r. cbn. auto.
Qed.

Lemma step_good c s e : Good c s -> ok_ev c s e -> Good c (fst (step c s e)).
Proof.
  intros G Hok. unfold step.
  assert (Hu : is_crashed s = false) by (unfold is_crashed; now rewrite (gd_up _ _ G)).
  rewrite Hu. destruct e as [p m| |p].
  - now apply deliver_good.
  - pose proof (tick_good c s G) as Ht. destruct (tick c s) as [s' p]; cbn in *.
    destruct (is_crashed s'); exact Ht.
  - now apply retrieve_good.
Qed.

Lemma run_good c evs : forall s, Good c s -> respects c s evs -> Good c (run c s evs).
Proof.
  induction evs as [|e evs IH]; intros s G Hr; cbn in *; auto.
  destruct Hr as [Hok Hr]. apply IH; auto. now apply step_good.
Qed.

(** a crash can only be produced by a tick *)
Lemma crash_only_in_tick c s e :
  crashed s = None -> crashed (fst (step c s e)) <> None -> e = ETick.
Proof.
  intros Hu. unfold step, is_crashed. rewrite Hu. destruct e as [p m| |p]; auto; intros H; exfalso; apply H.
  - unfold deliver. destruct p; destruct (can_push _ _); cbn; auto.
  - unfold retrieve. destruct p.
    + destruct (a_out (ch_in s)); cbn; auto.
    + destruct (f_out (ch_in s)); cbn; auto.
    + destruct (f_out (ch_out s)); cbn; auto.
    + destruct (a_out (ch_out s)); cbn; auto.
    + destruct (ct_out s); cbn; auto.
Qed.

(** once crashed the engine does nothing any more *)
Lemma crashed_stuck c evs : forall s, crashed s <> None -> run c s evs = s.
Proof.
  induction evs as [|e evs IH]; intros s H; cbn; auto.
  assert (E : fst (step c s e) = s).
  { unfold step, is_crashed. destruct (crashed s); [reflexivity|congruence]. }
  rewrite E. now apply IH.
Qed.

(** * Field-level faithfulness of the clones *)
Lemma clone_req_faithful id src dst r :
  is_req r = true ->
  let f := clone_req id src dst r in
  m_id f = id /\ m_kind f = m_kind r /\ m_src f = src /\ m_dst f = dst /\
  m_addr f = m_addr r /\ m_pid f = 0 /\
  (m_kind r = KRead -> m_size f = m_size r) /\
  (m_kind r = KWrite -> m_data f = m_data r /\ m_mask f = m_mask r).
Proof.
  unfold is_req, clone_req. destruct (m_kind r); try discriminate; intros _; cbn;
    repeat split; auto; discriminate.
Qed.

Lemma clone_rsp_faithful src dst to r :
  is_rsp r = true ->
  let a := clone_rsp src dst to r in
  m_kind a = m_kind r /\ m_src a = src /\ m_dst a = dst /\ m_rspto a = to /\
  (m_kind r = KDataReady -> m_data a = m_data r).
Proof.
  unfold is_rsp, clone_rsp. destruct (m_kind r); try discriminate; intros _; cbn;
    repeat split; auto; discriminate.
Qed.

(** * Progress: nothing is silently dropped *)
Lemma accept_progress find pf cap c r rest :
  q_in c = r :: rest -> is_req r = true -> bad_dst pf (find (m_addr r)) = false ->
  (length (f_out c) < cap)%nat ->
  exists c', accept find pf cap c = ROk c' /\ q_in c' = rest /\
             f_out c' = f_out c ++ [clone_req (nid c) pf (find (m_addr r)) r] /\
             txs c' = txs c ++ [mkTx r (nid c)].
Proof.
  intros Eq Hr Hd Hl. unfold accept. rewrite Eq, Hr, Hd; cbn [negb].
  unfold can_push. apply Nat.ltb_lt in Hl. rewrite Hl; cbn [negb].
  eexists; split; [reflexivity|]. cbn. auto.
Qed.

Lemma complete_progress pa cap c r rest t l1 l2 :
  r_in c = r :: rest -> is_rsp r = true -> txs c = l1 ++ t :: l2 ->
  t_fid t = m_rspto r -> ~ In (m_rspto r) (map t_fid l1) ->
  bad_dst pa (m_src (t_orig t)) = false -> (length (a_out c) < cap)%nat ->
  exists c', complete pa cap c = ROk c' /\ r_in c' = rest /\ txs c' = l1 ++ l2 /\
             a_out c' = a_out c ++ [clone_rsp pa (m_src (t_orig t)) (m_id (t_orig t)) r].
Proof.
  intros Er Hk Etx Hid Hfirst Hd Hl. unfold complete. rewrite Er, Hk; cbn [negb].
  assert (Hf : find_tx (m_rspto r) (txs c) = Some (t, l1 ++ l2)).
  { rewrite Etx. clear Etx. induction l1 as [|u l1 IH]; cbn.
    - apply N.eqb_eq in Hid. now rewrite Hid.
    - cbn in Hfirst. destruct (t_fid u =? m_rspto r) eqn:E.
      + apply N.eqb_eq in E. tauto.
      + rewrite IH; auto. }
  rewrite Hf, Hd. unfold can_push. apply Nat.ltb_lt in Hl. rewrite Hl; cbn [negb].
  eexists; split; [reflexivity|]. cbn. auto.
Qed.

(** a pending drain is acknowledged by the next drain stage once nothing is in
    flight and the control port has room *)
Lemma drain_progress c s d :
  draining s = true -> fully_drained s = true -> cur s = Some d ->
  bad_dst P_CT (m_src d) = false -> (length (ct_out s) < bufsz c)%nat ->
  let s' := fst (drain c s) in
  ct_out s' = ct_out s ++ [ctl_rsp FL_DRAIN_RSP d] /\ draining s' = false /\
  txs (ch_in s') = [] /\ txs (ch_out s') = [].
Proof.
  intros Hd Hf Hc Hb Hl. unfold drain. rewrite Hd, Hf, Hc, Hb; cbn [negb].
  unfold can_push. apply Nat.ltb_lt in Hl. rewrite Hl. cbn.
  unfold fully_drained in Hf. destruct (txs (ch_out s)); [|discriminate].
  destruct (txs (ch_in s)); [auto|discriminate].
Qed.
