(** Executable model of amd/timing/rdma/comp.go (rdma.Comp) driven through its
    five ports.  Definitions only; proofs are in RdmaProofs.v.

    The engine has two symmetric data paths, each with a transaction list:
      inside -> outside : requests arrive on RDMARequestInside, a clone goes out
        on RDMARequestOutside to RemoteRDMAAddressTable.Find(addr); the response
        comes back on RDMARequestOutside and a clone is sent on
        RDMARequestInside to the original requester;
      outside -> inside : requests arrive on RDMADataOutside, a clone goes to
        localModules.Find(addr) through RDMADataInside; the response comes back
        on RDMADataInside and a clone leaves through RDMADataOutside.
    Both paths are instances of one [chan] record.  Go panics are modelled by
    [crashed := Some reason]. *)
From VLib Require Import Akita.
From RecordUpdate Require Import RecordSet.
Import RecordSetNotations.
Open Scope N_scope.

(** Port names after renumbering (0 = the empty port name). *)
Definition P_RI : N := 1.   (* RDMARequestInside  *)
Definition P_RO : N := 2.   (* RDMARequestOutside *)
Definition P_DI : N := 3.   (* RDMADataInside     *)
Definition P_DO : N := 4.   (* RDMADataOutside    *)
Definition P_CT : N := 5.   (* CtrlPort           *)

(** rdma.DrainReq / RestartReq / DrainRsp / RestartRsp as KCtrl messages. *)
Definition FL_DRAIN_REQ : N := 16.
Definition FL_RESTART_REQ : N := 2.
Definition FL_DRAIN_RSP : N := 20.
Definition FL_RESTART_RSP : N := 6.

Definition is_ctl (f : N) (m : msg) : bool := kind_eqb (m_kind m) KCtrl && (m_flags m =? f).
Definition is_req (m : msg) : bool :=
  match m_kind m with KRead | KWrite => true | _ => false end.
Definition is_rsp (m : msg) : bool :=
  match m_kind m with KDataReady | KWriteDone => true | _ => false end.

Inductive reason :=
| CRestartNoDrain      (* RestartReq while currentDrainReq == nil *)
| CAckNoDrain          (* drained while currentDrainReq == nil (restart overtook the drain) *)
| CUnknownRspTo        (* findTransactionByRspToID: "transaction not found" *)
| CBadKind             (* message type the port cannot process *)
| CBadDst.             (* Send: empty destination / table miss / sending back to self *)

Record tx := mkTx { t_orig : msg; t_fid : N }.

(** One data path.  [q_in]/[a_out] are the two buffers of the port the
    requester talks to, [f_out]/[r_in] those of the port towards the owner. *)
Record chan := mkChan {
  q_in  : list msg;     (* incoming requests *)
  f_out : list msg;     (* outgoing forwarded requests *)
  r_in  : list msg;     (* incoming responses *)
  a_out : list msg;     (* outgoing answers *)
  txs   : list tx;      (* the transaction list *)
  nid   : N;            (* supply of IDs for forwarded requests *)
  (* ghost logs: never read by the transition functions *)
  g_deliv : list msg;          (* requests whose Deliver was accepted *)
  g_all   : list tx;           (* every transaction ever created, in order *)
  g_done  : list (tx * msg);   (* completed transactions with the response used *)
  g_rsp   : list msg;          (* responses whose Deliver was accepted *)
  g_fretr : list msg;          (* forwarded requests retrieved by the environment *)
  g_aretr : list msg           (* answers retrieved by the environment *)
}.

#[export] Instance eta_chan : Settable _ := settable! mkChan
  <q_in; f_out; r_in; a_out; txs; nid; g_deliv; g_all; g_done; g_rsp; g_fretr; g_aretr>.

Definition chan0 (base : N) : chan := mkChan [] [] [] [] [] base [] [] [] [] [] [].

(** What the environment knows about the drain handshake (updated only by
    accepted control deliveries and retrieved control responses). *)
Inductive phase := Idle | WaitDrain | Drained | WaitRestart.

(** Snapshot taken when a DrainRsp is pushed. *)
Record ack := mkAck {
  k_in : list tx; k_out : list tx; k_pause : bool;
  k_in_all : nat; k_in_done : nat; k_out_all : nat; k_out_done : nat
}.

Record st := mkSt {
  ch_in  : chan;        (* inside -> outside: RI.in, RO.out, RO.in, RI.out *)
  ch_out : chan;        (* outside -> inside: DO.in, DI.out, DI.in, DO.out *)
  ct_in  : list msg;
  ct_out : list msg;
  draining : bool;      (* isDraining *)
  pause    : bool;      (* pauseIncomingReqsFromL1 *)
  cur      : option msg;(* currentDrainReq *)
  crashed  : option reason;
  (* ghosts *)
  g_env    : phase;
  g_acks   : list ack;  (* one entry per DrainRsp pushed *)
  g_nrestart : nat;     (* RestartRsp pushed so far *)
  g_ctretr : list msg   (* control responses retrieved by the environment *)
}.

#[export] Instance eta_st : Settable _ := settable! mkSt
  <ch_in; ch_out; ct_in; ct_out; draining; pause; cur; crashed; g_env; g_acks; g_nrestart; g_ctretr>.

(** Configuration: buffer size of every port, the four per-cycle widths and
    the two address tables (RemoteRDMAAddressTable.Find, localModules.Find).
    A table returns 0 when the Go lookup panics or yields the empty name. *)
Record cfg := mkCfg {
  bufsz : nat;
  n_oreq : nat;   (* outgoingReqPerCycle *)
  n_orsp : nat;   (* outgoingRspPerCycle *)
  n_ireq : nat;   (* incomingReqPerCycle *)
  n_irsp : nat;   (* incomingRspPerCycle *)
  remote_find : N -> N;
  local_find : N -> N
}.

Definition ID_BASE_IN : N := 1000000.
Definition ID_BASE_OUT : N := 2000000.

Definition init : st :=
  mkSt (chan0 ID_BASE_IN) (chan0 ID_BASE_OUT) [] [] false false None None Idle [] 0 [].

(** cloneReq + Src/Dst fix-up.  PID, Info and CanWaitForCoalesce are not
    copied by the Go code: the clone carries PID 0. *)
Definition clone_req (id src dst : N) (r : msg) : msg :=
  match m_kind r with
  | KRead => mkMsg id KRead src dst 0 (m_addr r) (m_size r) 0 [] [] 0
  | _     => mkMsg id KWrite src dst 0 (m_addr r) 0 0 (m_data r) (m_mask r) 0
  end.

(** cloneRsp + Src/Dst fix-up; the clone's own ID is not observable. *)
Definition clone_rsp (src dst rspto : N) (r : msg) : msg :=
  match m_kind r with
  | KDataReady => mkMsg 0 KDataReady src dst rspto 0 0 0 (m_data r) [] 0
  | _          => mkMsg 0 KWriteDone src dst rspto 0 0 0 [] [] 0
  end.

(** sim.Port.Send panics on an empty destination or on dst = src. *)
Definition bad_dst (own d : N) : bool := (d =? 0) || (d =? own).

(** findTransactionByRspToID followed by the removal of that entry. *)
Fixpoint find_tx (id : N) (l : list tx) : option (tx * list tx) :=
  match l with
  | [] => None
  | t :: l' =>
    if t_fid t =? id then Some (t, l')
    else match find_tx id l' with
         | Some (u, r) => Some (u, t :: r)
         | None => None
         end
  end.

Inductive res := RNone | ROk (c : chan) | RCrash (r : reason).

Definition fwd_of (find : N -> N) (pf : N) (t : tx) : msg :=
  clone_req (t_fid t) pf (find (m_addr (t_orig t))) (t_orig t).
Definition answer_of (pa : N) (p : tx * msg) : msg :=
  clone_rsp pa (m_src (t_orig (fst p))) (m_id (t_orig (fst p))) (snd p).

(** processReqFromL1 / processReqFromRDMADataOutside (with the type switch
    of the caller): [pf] is the port the clone is sent from. *)
Definition accept (find : N -> N) (pf : N) (cap : nat) (c : chan) : res :=
  match q_in c with
  | [] => RNone
  | r :: rest =>
    if negb (is_req r) then RCrash CBadKind
    else if bad_dst pf (find (m_addr r)) then RCrash CBadDst
    else if negb (can_push cap (f_out c)) then RNone
    else let t := mkTx r (nid c) in
         ROk (c <| q_in := rest |> <| f_out := f_out c ++ [fwd_of find pf t] |>
                <| txs := txs c ++ [t] |> <| nid := nid c + 1 |>
                <| g_all := g_all c ++ [t] |>)
  end.

(** processRspFromL2 / processRspFromRDMARequestOutside: [pa] is the port the
    answer is sent from. *)
Definition complete (pa : N) (cap : nat) (c : chan) : res :=
  match r_in c with
  | [] => RNone
  | r :: rest =>
    if negb (is_rsp r) then RCrash CBadKind
    else match find_tx (m_rspto r) (txs c) with
         | None => RCrash CUnknownRspTo
         | Some (t, txs') =>
           if bad_dst pa (m_src (t_orig t)) then RCrash CBadDst
           else if negb (can_push cap (a_out c)) then RNone
           else ROk (c <| r_in := rest |> <| a_out := a_out c ++ [answer_of pa (t, r)] |>
                       <| txs := txs' |> <| g_done := g_done c ++ [(t, r)] |>)
         end
  end.

Definition crash (s : st) (r : reason) : st * bool := (s <| crashed := Some r |>, false).
Definition is_crashed (s : st) : bool := match crashed s with Some _ => true | None => false end.

(** the four data stages; each returns the Go function's "made progress" *)
Definition in_accept (c : cfg) (s : st) : st * bool :=
  match accept (remote_find c) P_RO (bufsz c) (ch_in s) with
  | RNone => (s, false) | ROk ch => (s <| ch_in := ch |>, true) | RCrash r => crash s r
  end.
Definition in_complete (c : cfg) (s : st) : st * bool :=
  match complete P_RI (bufsz c) (ch_in s) with
  | RNone => (s, false) | ROk ch => (s <| ch_in := ch |>, true) | RCrash r => crash s r
  end.
Definition out_accept (c : cfg) (s : st) : st * bool :=
  match accept (local_find c) P_DI (bufsz c) (ch_out s) with
  | RNone => (s, false) | ROk ch => (s <| ch_out := ch |>, true) | RCrash r => crash s r
  end.
Definition out_complete (c : cfg) (s : st) : st * bool :=
  match complete P_DO (bufsz c) (ch_out s) with
  | RNone => (s, false) | ROk ch => (s <| ch_out := ch |>, true) | RCrash r => crash s r
  end.

(** processFromL1: refuses while paused, otherwise loops until the buffer is
    empty or a send fails ([fuel] = number of queued requests). *)
Fixpoint l1_loop (c : cfg) (fuel : nat) (s : st) (p : bool) : st * bool :=
  match fuel with
  | O => (s, p)
  | S f => let '(s1, p1) := in_accept c s in
           if is_crashed s1 then (s1, p)
           else if p1 then l1_loop c f s1 true else (s1, p)
  end.
Definition from_l1 (c : cfg) (s : st) : st * bool :=
  if pause s then (s, false) else l1_loop c (length (q_in (ch_in s))) s false.

(** run a stage [n] times; a crash stops everything *)
Fixpoint iter (n : nat) (f : st -> st * bool) (s : st) : st * bool :=
  match n with
  | O => (s, false)
  | S n' => if is_crashed s then (s, false) else
            let '(s1, p1) := f s in
            let '(s2, p2) := iter n' f s1 in (s2, p1 || p2)
  end.

Definition ctl_rsp (fl : N) (d : msg) : msg := mkMsg 0 KCtrl P_CT (m_src d) 0 0 0 0 [] [] fl.

(** processFromCtrlPort: the request is retrieved before it is looked at, so
    a RestartReq that cannot be acknowledged (control port full) is lost. *)
Definition process_ctl (c : cfg) (s : st) : st * bool :=
  match ct_in s with
  | [] => (s, false)
  | m :: rest =>
    let s := s <| ct_in := rest |> in
    if is_ctl FL_DRAIN_REQ m then
      (s <| cur := Some m |> <| draining := true |> <| pause := true |>, true)
    else if is_ctl FL_RESTART_REQ m then
      match cur s with
      | None => crash s CRestartNoDrain
      | Some d =>
        if bad_dst P_CT (m_src d) then crash s CBadDst
        else if can_push (bufsz c) (ct_out s) then
          (s <| ct_out := ct_out s ++ [ctl_rsp FL_RESTART_RSP d] |>
             <| cur := None |> <| pause := false |> <| g_nrestart := S (g_nrestart s) |>, true)
        else (s, false)
      end
    else crash s CBadKind
  end.

Definition fully_drained (s : st) : bool :=
  match txs (ch_out s), txs (ch_in s) with [], [] => true | _, _ => false end.

Definition snapshot (s : st) : ack :=
  mkAck (txs (ch_in s)) (txs (ch_out s)) (pause s)
        (length (g_all (ch_in s))) (length (g_done (ch_in s)))
        (length (g_all (ch_out s))) (length (g_done (ch_out s))).

(** drainRDMA *)
Definition drain (c : cfg) (s : st) : st * bool :=
  if negb (draining s) then (s, false)
  else if negb (fully_drained s) then (s, false)
  else match cur s with
       | None => crash s CAckNoDrain
       | Some d =>
         if bad_dst P_CT (m_src d) then crash s CBadDst
         else if can_push (bufsz c) (ct_out s) then
           (s <| ct_out := ct_out s ++ [ctl_rsp FL_DRAIN_RSP d] |> <| draining := false |>
              <| g_acks := g_acks s ++ [snapshot s] |>, true)
         else (s, false)
       end.

Definition seq2 (f g : st -> st * bool) (s : st) : st * bool :=
  let '(s1, p1) := f s in
  if is_crashed s1 then (s1, p1) else
  let '(s2, p2) := g s1 in (s2, p1 || p2).

Definition tick (c : cfg) : st -> st * bool :=
  seq2 (process_ctl c)
  (seq2 (drain c)
  (seq2 (iter (n_oreq c) (from_l1 c))
  (seq2 (iter (n_orsp c) (out_complete c))
  (seq2 (iter (n_ireq c) (out_accept c))
        (iter (n_irsp c) (in_complete c)))))).

Inductive port := RI | RO | DI | DO | CT.

Inductive ev := EDeliver (p : port) (m : msg) | ETick | ERetr (p : port).
Inductive obs := OAcc (b : bool) | OTick (progress : bool) | OMsg (m : option msg) | OCrash.

Definition env_deliver (s : st) (m : msg) : phase :=
  match g_env s with
  | Idle => if is_ctl FL_DRAIN_REQ m then WaitDrain else Idle
  | Drained => if is_ctl FL_RESTART_REQ m then WaitRestart else Drained
  | p => p
  end.
Definition env_retrieve (s : st) (m : msg) : phase :=
  match g_env s with
  | WaitDrain => if is_ctl FL_DRAIN_RSP m then Drained else WaitDrain
  | WaitRestart => if is_ctl FL_RESTART_RSP m then Idle else WaitRestart
  | p => p
  end.

Definition deliver (c : cfg) (s : st) (p : port) (m : msg) : st * obs :=
  let cap := bufsz c in
  match p with
  | RI => let ch := ch_in s in
          if can_push cap (q_in ch)
          then (s <| ch_in := ch <| q_in := q_in ch ++ [m] |> <| g_deliv := g_deliv ch ++ [m] |> |>, OAcc true)
          else (s, OAcc false)
  | RO => let ch := ch_in s in
          if can_push cap (r_in ch)
          then (s <| ch_in := ch <| r_in := r_in ch ++ [m] |> <| g_rsp := g_rsp ch ++ [m] |> |>, OAcc true)
          else (s, OAcc false)
  | DO => let ch := ch_out s in
          if can_push cap (q_in ch)
          then (s <| ch_out := ch <| q_in := q_in ch ++ [m] |> <| g_deliv := g_deliv ch ++ [m] |> |>, OAcc true)
          else (s, OAcc false)
  | DI => let ch := ch_out s in
          if can_push cap (r_in ch)
          then (s <| ch_out := ch <| r_in := r_in ch ++ [m] |> <| g_rsp := g_rsp ch ++ [m] |> |>, OAcc true)
          else (s, OAcc false)
  | CT => if can_push cap (ct_in s)
          then (s <| ct_in := ct_in s ++ [m] |> <| g_env := env_deliver s m |>, OAcc true)
          else (s, OAcc false)
  end.

Definition retrieve (s : st) (p : port) : st * obs :=
  match p with
  | RI => let ch := ch_in s in
          match a_out ch with
          | [] => (s, OMsg None)
          | m :: r => (s <| ch_in := ch <| a_out := r |> <| g_aretr := g_aretr ch ++ [m] |> |>, OMsg (Some m))
          end
  | RO => let ch := ch_in s in
          match f_out ch with
          | [] => (s, OMsg None)
          | m :: r => (s <| ch_in := ch <| f_out := r |> <| g_fretr := g_fretr ch ++ [m] |> |>, OMsg (Some m))
          end
  | DO => let ch := ch_out s in
          match a_out ch with
          | [] => (s, OMsg None)
          | m :: r => (s <| ch_out := ch <| a_out := r |> <| g_aretr := g_aretr ch ++ [m] |> |>, OMsg (Some m))
          end
  | DI => let ch := ch_out s in
          match f_out ch with
          | [] => (s, OMsg None)
          | m :: r => (s <| ch_out := ch <| f_out := r |> <| g_fretr := g_fretr ch ++ [m] |> |>, OMsg (Some m))
          end
  | CT => match ct_out s with
          | [] => (s, OMsg None)
          | m :: r => (s <| ct_out := r |> <| g_env := env_retrieve s m |>
                        <| g_ctretr := g_ctretr s ++ [m] |>, OMsg (Some m))
          end
  end.

Definition step (c : cfg) (s : st) (e : ev) : st * obs :=
  if is_crashed s then (s, OCrash) else
  match e with
  | EDeliver p m => deliver c s p m
  | ETick => let '(s', p) := tick c s in
             if is_crashed s' then (s', OCrash) else (s', OTick p)
  | ERetr p => retrieve s p
  end.

Definition run (c : cfg) (s : st) (evs : list ev) : st :=
  fold_left (fun s e => fst (step c s e)) evs s.

Fixpoint run_obs (c : cfg) (s : st) (evs : list ev) : list obs :=
  match evs with
  | [] => []
  | e :: r => let '(s', o) := step c s e in o :: run_obs c s' r
  end.

(** ** Correspondence: compare a recorded history of the implementation. *)
Definition obs_eqb (a b : obs) : bool :=
  match a, b with
  | OAcc x, OAcc y => Bool.eqb x y
  | OTick x, OTick y => Bool.eqb x y
  | OMsg None, OMsg None => true
  | OMsg (Some x), OMsg (Some y) => msg_eqb x y
  | OCrash, OCrash => true
  | _, _ => false
  end.

(** Address tables of the test bench: mem.BankedAddressPortMapper with the
    given bank size and module list (index out of range = Go panic = 0). *)
Definition banked (bank : N) (mods : list N) (a : N) : N :=
  nth (N.to_nat (a / bank)) mods 0.

Record case := mkCase {
  c_buf : nat; c_w : nat * nat * nat * nat;    (* oreq orsp ireq irsp *)
  c_bank : N; c_remote : list N; c_local : list N;
  c_trace : list (ev * obs)
}.

Definition case_cfg (k : case) : cfg :=
  let '(a, b, c, d) := c_w k in
  mkCfg (c_buf k) a b c d (banked (c_bank k) (c_remote k)) (banked (c_bank k) (c_local k)).

Fixpoint first_diff (i : nat) (l1 l2 : list obs) : option nat :=
  match l1, l2 with
  | [], [] => None
  | a :: l1', b :: l2' => if obs_eqb a b then first_diff (S i) l1' l2' else Some i
  | _, _ => Some i
  end.

Definition check_case (k : case) : option nat :=
  first_diff 0 (run_obs (case_cfg k) init (map fst (c_trace k))) (map snd (c_trace k)).

Fixpoint mismatches_from (i : nat) (cs : list case) : list (nat * nat) :=
  match cs with
  | [] => []
  | c :: r => match check_case c with
              | None => mismatches_from (S i) r
              | Some k => (i, k) :: mismatches_from (S i) r
              end
  end.
Definition mismatches := mismatches_from 0.
