(** Model of amd/emu/storageaccessor.go: page-crossing reads and writes of the
    emulator through the page table into the flat storage.  Also holds the
    page-table vocabulary shared with VDrv.MemCopy.  Definitions only. *)
From Coq Require Import List NArith Bool.
From VLib Require Import Chunks.
Import ListNotations.
Open Scope N_scope.

(** vm.Page, the fields the copy loops read. *)
Record page := mkPage { pg_v : N; pg_p : N; pg_size : N }.

(** The page table after alignment of the address: pageTableImpl.Find first
    computes (vAddr >> lg) << lg and then looks that key up. *)
Definition ptable := N -> option page.
Definition align (lg a : N) : N := (a / 2 ^ lg) * 2 ^ lg.

Definition pt_of_list (l : list (N * page)) : ptable :=
  fun k => match find (fun e => fst e =? k) l with Some e => Some (snd e) | None => None end.

(** One iteration of storageAccessorImpl.Read / Write:
      nextPageStart := ((curr >> lg) + 1) << lg ; sizeInPageLeft := nextPageStart - curr
      pAddr := page.PAddr + (curr - page.VAddr)
    (addrConverter is nil in the emulation platform: identity). *)
Definition look_acc (lg : N) (pt : ptable) : lookup :=
  fun a => match pt (align lg a) with
           | Some pg => Some (pg_p pg + (a - pg_v pg), (a / 2 ^ lg + 1) * 2 ^ lg - a)
           | None => None
           end.

Definition split_acc (lg : N) (pt : ptable) (addr n : N) : res :=
  split (look_acc lg pt) addr n.

(** Write: storage.Write(pAddr, data[offset:offset+n]) per piece; Read: copy(data[offset:], d). *)
Definition acc_write (lg : N) (pt : ptable) (addr : N) (data : bytes) (n : N) (m : bytes) : option bytes :=
  match split_acc lg pt addr n with Ok l => Some (h2d data l m) | _ => None end.
Definition acc_read (lg : N) (pt : ptable) (addr n : N) (m : bytes) : option bytes :=
  match split_acc lg pt addr n with Ok l => Some (d2h m l (fun _ => 0)) | _ => None end.
