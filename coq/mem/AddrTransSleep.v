(** Sleep safety of the address-translator model.  The event engine stops ticking
    a component whose [Tick] reports no progress.  [tick] is NOT state-preserving
    when it reports no progress (parseTranslation marks a transaction done before a
    refused send), but the state it leaves is a fixpoint: ticking again changes
    nothing and reports no progress, so nothing is left behind a sleeping component. *)
From VLib Require Import Akita.
From VMem Require Import AddrTrans.
From RecordUpdate Require Import RecordSet.
Import RecordSetNotations.
Open Scope N_scope.

Definition quiet_stage (f : st -> st * bool) : Prop :=
  forall s, snd (f s) = false -> crashed (fst (f s)) = false -> fst (f s) = s.
Definition mono_stage (f : st -> st * bool) : Prop :=
  forall s, crashed s = true -> crashed (fst (f s)) = true.

Ltac crush_q :=
  repeat match goal with
         | |- context [match ?x with _ => _ end] => destruct x
         end; cbn; intros; try reflexivity; try discriminate; auto.

Lemma respond_quiet : quiet_stage respond.
Proof. intros s. unfold respond. crush_q. Qed.
Lemma translate_quiet : quiet_stage translate.
Proof. intros s. unfold translate. crush_q. Qed.
Lemma handle_ctrl_quiet : quiet_stage handle_ctrl.
Proof. intros s. unfold handle_ctrl. crush_q. Qed.

Lemma guard_quiet f : quiet_stage f -> quiet_stage (guard f).
Proof. intros Hq s. unfold guard. destruct (crashed s); [reflexivity|apply Hq]. Qed.
Lemma guard_mono f : mono_stage (guard f).
Proof. intros s H. unfold guard. rewrite H. exact H. Qed.
Lemma guard_stuck f s : crashed s = true -> guard f s = (s, false).
Proof. intros H. unfold guard. now rewrite H. Qed.

Lemma iter_stuck f n : forall s, crashed s = true -> iter n f s = (s, false).
Proof.
  induction n as [|n IH]; intros s H; cbn; auto. rewrite guard_stuck, IH; auto.
Qed.

Lemma iter_fix f n : forall p, f p = (p, false) -> iter n f p = (p, false).
Proof.
  induction n as [|n IH]; intros p H; cbn; auto.
  unfold guard. destruct (crashed p); rewrite ?H, IH; auto.
Qed.

Lemma iter_quiet f : quiet_stage f -> forall n, quiet_stage (iter n f).
Proof.
  intros Hq n; induction n as [|n IH]; intros s; cbn; [reflexivity|].
  pose proof (guard_quiet f Hq s) as Hg.
  destruct (guard f s) as [s1 p1]; cbn in Hg.
  specialize (IH s1). pose proof (iter_stuck f n s1) as Hst.
  destruct (iter n f s1) as [s2 p2]; cbn in *.
  intros Hp Hc. apply Bool.orb_false_iff in Hp as [Hp1 Hp2].
  destruct (crashed s1) eqn:Ec1.
  - specialize (Hst eq_refl). inversion Hst; subst. congruence.
  - rewrite <- (Hg Hp1 eq_refl). apply IH; assumption.
Qed.

(** a quiet stage that ran at least once without progress is at a fixpoint *)
Lemma iter_quiet_fix f n s :
  quiet_stage f -> snd (iter n f s) = false -> crashed (fst (iter n f s)) = false ->
  iter n f s = (s, false) /\ (n <> O -> f s = (s, false)).
Proof.
  intros Hq Hp Hc. pose proof (iter_quiet f Hq n s Hp Hc) as E.
  split. { destruct (iter n f s); cbn in *; subst; auto. }
  destruct n as [|n]; [congruence|]. intros _. cbn in *.
  pose proof (guard_quiet f Hq s) as Hg. unfold guard in *.
  destruct (crashed s) eqn:Ecs.
  { rewrite iter_stuck in Hc by auto. cbn in Hc. congruence. }
  destruct (f s) as [s1 p1] eqn:Ef; cbn in *.
  pose proof (iter_stuck f n s1) as Hst.
  destruct (iter n f s1) as [s2 p2] eqn:Ei; cbn in *.
  apply Bool.orb_false_iff in Hp as [Hp1 Hp2]. subst p1.
  destruct (crashed s1) eqn:Ec1.
  - specialize (Hst eq_refl). inversion Hst; subst. congruence.
  - now rewrite (Hg eq_refl eq_refl).
Qed.

(** ** parseTranslation: the one stage that is not quiet *)
Definition only_txs (s p : st) : Prop := exists l, p = s <| txs := l |>.
Lemma only_txs_refl s : only_txs s s.
Proof. exists (txs s). destruct s; reflexivity. Qed.
Lemma only_txs_trans a b c : only_txs a b -> only_txs b c -> only_txs a c.
Proof. intros [l1 ->] [l2 ->]. exists l2. reflexivity. Qed.

Lemma split_first_skip {A} (p : A -> bool) a y b :
  Forall (fun x => p x = false) a -> p y = true -> split_first p (a ++ y :: b) = Some (a, y, b).
Proof.
  induction 1 as [|x a Hx Ha IH]; intros Hy; cbn; [now rewrite Hy|].
  rewrite Hx, IH; auto.
Qed.

Lemma split_first_spec' {A} (p : A -> bool) l a y b :
  split_first p l = Some (a, y, b) ->
  l = a ++ y :: b /\ p y = true /\ Forall (fun x => p x = false) a.
Proof.
  revert a y b; induction l as [|x l IH]; cbn; intros a y b E; [discriminate|].
  destruct (p x) eqn:Ex.
  - inversion E; subst. repeat split; auto.
  - destruct (split_first p l) as [[[a' y'] b']|]; [|discriminate].
    inversion E; subst. destruct (IH _ _ _ eq_refl) as (-> & Hy & Ha). repeat split; auto.
Qed.

Lemma split_first_none' {A} (p : A -> bool) l :
  split_first p l = None -> Forall (fun x => p x = false) l.
Proof.
  induction l as [|x l IH]; cbn; intros E; [constructor|].
  destruct (p x) eqn:Ex; [discriminate|].
  destruct (split_first p l) as [[[a' y'] b']|]; [discriminate|]. constructor; auto.
Qed.

Lemma parse_false s :
  snd (parse_translation s) = false -> crashed (fst (parse_translation s)) = false ->
  let p := fst (parse_translation s) in
  parse_translation p = (p, false) /\ only_txs s p.
Proof.
  unfold parse_translation at 1 2 3.
  destruct (split_first drainable (txs s)) as [[[a t] b]|] eqn:Esp.
  - destruct (t_reqs t) as [|r rs] eqn:Er; [cbn; discriminate|].
    destruct (t_rsp t) as [rsp|] eqn:Ersp; [|cbn; discriminate].
    destruct (negb (is_req r)) eqn:Ereq; [cbn; discriminate|].
    destruct (room _ _) eqn:Eroom; [cbn; discriminate|]. cbn. intros _ _.
    split; [|apply only_txs_refl].
    unfold parse_translation. now rewrite Esp, Er, Ersp, Ereq, Eroom.
  - destruct (tr_in s) as [|rsp rest] eqn:Etr.
    { cbn. intros _ _. split; [|apply only_txs_refl]. unfold parse_translation. now rewrite Esp, Etr. }
    destruct (split_first (fun t => q_id (t_q t) =? r_rspto rsp) (txs s)) as [[[a t] b]|] eqn:Esp2;
      [|cbn; discriminate].
    destruct (t_reqs t) as [|r rs] eqn:Er; [cbn; discriminate|].
    destruct (negb (is_req r)) eqn:Ereq; [cbn; discriminate|].
    destruct (room _ _) eqn:Eroom; [cbn; discriminate|]. cbn [fst snd]. intros _ _.
    split; [|eexists; reflexivity].
    (* the marked transaction is now the first drainable one; the send is refused again *)
    apply split_first_spec' in Esp2 as (Etx & _ & _).
    apply split_first_none' in Esp. rewrite Etx in Esp.
    apply Forall_app in Esp as [Ha Hb]. inversion Hb as [|? ? _ Hb']; subst.
    unfold parse_translation. cbn [txs set].
    rewrite (split_first_skip drainable a (mkTx (r :: rs) (t_q t) (Some rsp)) b Ha) by reflexivity.
    cbn. rewrite Ereq. cbn in Eroom |- *. now rewrite Eroom.
Qed.

Lemma iter_parse_false n : forall s p b,
  iter n parse_translation s = (p, b) -> b = false -> crashed p = false ->
  iter n parse_translation p = (p, false) /\ only_txs s p.
Proof.
  induction n as [|n IH]; intros s p b E Hb Hc; cbn in E.
  { inversion E; subst. split; [reflexivity|apply only_txs_refl]. }
  destruct (guard parse_translation s) as [s1 p1] eqn:Eg.
  destruct (iter n parse_translation s1) as [s2 p2] eqn:Ei. injection E as E1 E2.
  rewrite <- E2 in Hb. rewrite <- E1 in *. clear E1 E2.
  apply Bool.orb_false_iff in Hb as [Hp1 Hp2]. subst p1 p2.
  destruct (crashed s1) eqn:Ec1.
  { rewrite iter_stuck in Ei by auto. inversion Ei; subst. congruence. }
  unfold guard in Eg. destruct (crashed s) eqn:Ecs; [inversion Eg; subst; congruence|].
  pose proof (parse_false s) as Hpf. rewrite Eg in Hpf. cbn in Hpf.
  destruct (Hpf eq_refl Ec1) as [Hfix Hsim].
  rewrite (iter_fix parse_translation n s1 Hfix) in Ei. inversion Ei; subst s2.
  split; auto. apply (iter_fix parse_translation (S n) s1 Hfix).
Qed.

Lemma respond_txs s l :
  respond (s <| txs := l |>) = (fst (respond s) <| txs := l |>, snd (respond s)).
Proof.
  unfold respond; cbn.
  repeat match goal with
         | |- context [match ?x with _ => _ end] => destruct x
         end; reflexivity.
Qed.

Lemma stage_done f s1 p b :
  quiet_stage f -> guard f s1 = (p, b) -> b = false -> crashed p = false ->
  p = s1 /\ crashed s1 = false /\ f s1 = (s1, false).
Proof.
  intros Hq Eg -> Hc. unfold guard in Eg. destruct (crashed s1) eqn:Ec1.
  { inversion Eg; subst. congruence. }
  specialize (Hq s1). rewrite Eg in Hq. cbn in Hq. specialize (Hq eq_refl Hc). subst p.
  auto.
Qed.

Lemma iter_done f n s1 p b :
  quiet_stage f -> iter n f s1 = (p, b) -> b = false -> crashed p = false ->
  p = s1 /\ iter n f s1 = (s1, false).
Proof.
  intros Hq E -> Hc. pose proof (iter_quiet f Hq n s1) as Q. rewrite E in Q. cbn in Q.
  specialize (Q eq_refl Hc). subst p. auto.
Qed.

(** the state after a tick that reported no progress is a fixpoint of [tick]; it
    differs from the state before at most in the done-marks of transactions *)
Theorem tick_sleep_fix s :
  snd (tick s) = false -> crashed (fst (tick s)) = false ->
  tick (fst (tick s)) = (fst (tick s), false) /\ only_txs s (fst (tick s)).
Proof.
  destruct (tick s) as [p b] eqn:Et. cbn. intros -> Hc. unfold tick in Et.
  destruct (flushing s) eqn:Ef.
  - destruct (iter (width (cfg s)) parse_translation s) as [s1 p1] eqn:E1.
    destruct (guard handle_ctrl s1) as [s2 p2] eqn:E2. injection Et as -> Eb.
    apply Bool.orb_false_iff in Eb as [-> ->].
    destruct (stage_done _ _ _ _ handle_ctrl_quiet E2 eq_refl Hc) as (-> & Hc1 & Hctl).
    destruct (iter_parse_false _ _ _ _ E1 eq_refl Hc1) as [Hfix Hsim].
    split; auto. destruct Hsim as [l ->]. unfold tick. cbn [flushing cfg set] in *.
    rewrite Ef. cbn [cfg] in Hfix. rewrite Hfix. unfold guard. rewrite Hc1, Hctl. reflexivity.
  - unfold run_pipeline in Et.
    destruct (iter (width (cfg s)) respond s) as [s1 p1] eqn:E1.
    destruct (iter (width (cfg s)) parse_translation s1) as [s2 p2] eqn:E2.
    destruct (iter (width (cfg s)) translate s2) as [s3 p3] eqn:E3.
    destruct (guard handle_ctrl s3) as [s4 p4] eqn:E4. injection Et as -> Eb.
    apply Bool.orb_false_iff in Eb as [-> Eb]. apply Bool.orb_false_iff in Eb as [Eb ->].
    apply Bool.orb_false_iff in Eb as [-> ->].
    destruct (stage_done _ _ _ _ handle_ctrl_quiet E4 eq_refl Hc) as (-> & Hc3 & Hctl).
    destruct (iter_done _ _ _ _ _ translate_quiet E3 eq_refl Hc3) as (-> & Ht).
    assert (Hc1 : crashed s1 = false).
    { destruct (crashed s1) eqn:E; auto. rewrite iter_stuck in E2 by auto.
      inversion E2; subst. congruence. }
    destruct (iter_parse_false _ _ _ _ E2 eq_refl Hc3) as [Hfix Hsim].
    destruct (iter_done _ _ _ _ _ respond_quiet E1 eq_refl Hc1) as (-> & Hr).
    split; auto. destruct Hsim as [l ->].
    unfold tick. cbn [flushing cfg set] in *. rewrite Ef. unfold run_pipeline. cbn [cfg set] in *.
    assert (Hr' : iter (width (cfg s)) respond (s <| txs := l |>) = (s <| txs := l |>, false)).
    { destruct (width (cfg s)) as [|w] eqn:Ew; [reflexivity|].
      apply iter_fix. rewrite respond_txs.
      assert (Hs : snd (iter (S w) respond s) = false) by now rewrite Hr.
      assert (Hcs : crashed (fst (iter (S w) respond s)) = false) by (rewrite Hr; exact Hc1).
      destruct (iter_quiet_fix respond (S w) s respond_quiet Hs Hcs) as [_ Hfs].
      rewrite (Hfs ltac:(discriminate)). reflexivity. }
    rewrite Hr', Hfix, Ht. unfold guard. rewrite Hc3, Hctl. reflexivity.
Qed.

(** observable corollary: after a tick that reported no progress, ticking again
    (no delivery or retrieval in between) reports no progress either, any number of times *)
Corollary no_progress_stays s :
  snd (tick s) = false -> crashed (fst (tick s)) = false ->
  snd (tick (fst (tick s))) = false /\ fst (tick (fst (tick s))) = fst (tick s).
Proof. intros Hp Hc. destruct (tick_sleep_fix s Hp Hc) as [E _]. now rewrite E. Qed.

(** the stronger "nothing changed" is false: a reply whose forward is refused marks
    its transaction done while the tick reports no progress *)
Definition sleep_witness : list ev :=
  [EDeliverTop (mkMsg 1 KRead 10 P_TOP 1 4100 4 1 [] [] 0); ETick; ERetrTr;
   EDeliverTop (mkMsg 2 KRead 10 P_TOP 2 8200 4 1 [] [] 0); ETick; ERetrTr;
   EDeliverTr (mkTrsp 2000000 8192); ETick;
   EDeliverTr (mkTrsp 2000001 12288)].

Lemma tick_state_preserving_refuted :
  exists c evs, let s := run (init c) evs in
    snd (tick s) = false /\ crashed (fst (tick s)) = false /\ fst (tick s) <> s /\
    map is_done (txs s) = [false] /\ map is_done (txs (fst (tick s))) = [true].
Proof.
  exists (mkCfg 12 1%nat 1 1 1), sleep_witness. vm_compute.
  repeat split; auto. intros E. discriminate.
Qed.
