(** Executable model of akita v4.9.0 pipelining/pipeline.go (pipelineImpl) and
    of the sim.Buffer it pushes into.  Definitions only; lemmas are in
    PipelineProofs.v.

    A pipeline has [width] lanes of [numStage] stages; an element stays
    [cyclePerStage] cycles in a stage.  The post-pipeline buffer is owned by the
    user of the pipeline, so the functions take and return its contents. *)
From Coq Require Import List Arith Bool.
Import ListNotations.

Section Pipeline.
Context {A : Type}.

(** pipelineStageInfo: [None] is [elem == nil]; the stale cycleLeft of an empty
    stage is never read by the Go code. *)
Definition slot := option (A * nat).

Record pipe := mkPipe {
  p_width : nat;          (* width *)
  p_nstage : nat;         (* numStage *)
  p_cps : nat;            (* cyclePerStage *)
  p_lanes : list (list slot)   (* stages[lane][stage] *)
}.

(** Clear (also run by Build) *)
Definition pipe_clear (w n c : nat) : pipe := mkPipe w n c (repeat (repeat None n) w).

(** sim.Buffer: CanPush *)
Definition buf_can_push (cap : nat) (b : list A) : bool := Nat.ltb (length b) cap.

(** One lane of Tick.  Go walks the stages from the last to the first, so the
    tail of the list is processed before its head; the head then looks at the
    already updated next stage.
    - empty stage: skip
    - cycleLeft > 0: decrement, progress
    - last stage: tryMoveToPostPipelineBuffer
    - otherwise: tryMoveToNextStage (cycleLeft := cyclePerStage - 1) *)
Fixpoint tick_lane (cps cap : nat) (l : list slot) (buf : list A) : list slot * list A * bool :=
  match l with
  | [] => ([], buf, false)
  | s :: rest =>
    let '(rest', buf', p) := tick_lane cps cap rest buf in
    match s with
    | None => (None :: rest', buf', p)
    | Some (e, S c) => (Some (e, c) :: rest', buf', true)
    | Some (e, O) =>
      match rest' with
      | [] => if buf_can_push cap buf' then ([None], buf' ++ [e], true)
              else ([s], buf', p)
      | None :: r'' => (None :: Some (e, cps - 1) :: r'', buf', true)
      | Some _ :: _ => (s :: rest', buf', p)
      end
    end
  end.

(** lanes in increasing order, sharing the post-pipeline buffer *)
Fixpoint tick_lanes (cps cap : nat) (ls : list (list slot)) (buf : list A)
  : list (list slot) * list A * bool :=
  match ls with
  | [] => ([], buf, false)
  | l :: r =>
    let '(l', buf1, p1) := tick_lane cps cap l buf in
    let '(r', buf2, p2) := tick_lanes cps cap r buf1 in
    (l' :: r', buf2, p1 || p2)
  end.

(** Tick *)
Definition pipe_tick (cap : nat) (p : pipe) (buf : list A) : pipe * list A * bool :=
  let '(ls, buf', pr) := tick_lanes (p_cps p) cap (p_lanes p) buf in
  (mkPipe (p_width p) (p_nstage p) (p_cps p) ls, buf', pr).

Definition lane_free (l : list slot) : bool :=
  match l with None :: _ => true | _ => false end.

(** CanAccept *)
Definition pipe_can_accept (cap : nat) (p : pipe) (buf : list A) : bool :=
  match p_nstage p with
  | O => buf_can_push cap buf
  | _ => existsb lane_free (p_lanes p)
  end.

(** first lane whose stage 0 is empty takes the element *)
Fixpoint accept_lanes (cps : nat) (ls : list (list slot)) (e : A) : option (list (list slot)) :=
  match ls with
  | [] => None
  | l :: r =>
    match l with
    | None :: st => Some ((Some (e, cps - 1) :: st) :: r)
    | _ => match accept_lanes cps r e with
           | Some r' => Some (l :: r')
           | None => None
           end
    end
  end.

(** Accept; [None] is a Go panic ("pipeline is not free" / "buffer overflow") *)
Definition pipe_accept (cap : nat) (p : pipe) (buf : list A) (e : A) : option (pipe * list A) :=
  match p_nstage p with
  | O => if buf_can_push cap buf then Some (p, buf ++ [e]) else None
  | _ => match accept_lanes (p_cps p) (p_lanes p) e with
         | Some ls => Some (mkPipe (p_width p) (p_nstage p) (p_cps p) ls, buf)
         | None => None
         end
  end.

(** the elements inside, for the accounting lemmas *)
Definition slot_items (s : slot) : list A := match s with Some (e, _) => [e] | None => [] end.
Definition lane_items (l : list slot) : list A := flat_map slot_items l.
Definition pipe_items (p : pipe) : list A := flat_map lane_items (p_lanes p).

End Pipeline.
Arguments slot : clear implicits.
Arguments pipe : clear implicits.
