(** Executable model of amd/timing/rob/rob.go (ReorderBuffer) driven through
    its three ports.  Definitions only; proofs are in RobProofs.v. *)
From VLib Require Import Akita.
From RecordUpdate Require Import RecordSet.
Import RecordSetNotations.
Open Scope N_scope.

(** Port names after renumbering: the ROB's own ports and its bottom unit. *)
Definition P_TOP : N := 1.
Definition P_BOT : N := 2.
Definition P_CTL : N := 3.
Definition P_BOTTOM_UNIT : N := 4.

Record tx := mkTx { t_top : msg; t_bid : N; t_rsp : option msg }.

Record rob := mkRob {
  cap : nat;                 (* bufferSize *)
  width : nat;               (* numReqPerCycle *)
  txs : list tx;             (* transactions, oldest first *)
  flushing : bool;
  top_in : list msg; top_out : list msg;
  bot_in : list msg; bot_out : list msg;
  ctl_in : list msg; ctl_out : list msg;
  next_id : N;               (* fresh supply for bottom-request IDs *)
  crashed : bool;            (* a Go panic was reached *)
  (* ghost logs: never read by the transition function *)
  g_deliv : list msg;        (* top requests whose Deliver was accepted *)
  g_seen : list (msg * bool);(* requests removed from top_in: accepted / dropped by restart *)
  g_fwd : list msg;          (* bottom requests pushed to bot_out *)
  g_fate : list (tx * bool); (* transactions that left the buffer: answered / discarded *)
  g_out : list msg;          (* responses pushed to top_out *)
  g_retr : list msg;         (* responses retrieved from top_out by the environment *)
  g_bretr : list msg;        (* bottom requests retrieved from bot_out by the environment *)
  g_cdeliv : list msg;       (* control messages whose Deliver was accepted *)
  g_cack : list msg;         (* acknowledgements pushed to ctl_out *)
  g_cretr : list msg         (* acknowledgements retrieved from ctl_out by the environment *)
}.

#[export] Instance eta_rob : Settable _ := settable! mkRob
  <cap; width; txs; flushing; top_in; top_out; bot_in; bot_out; ctl_in; ctl_out;
   next_id; crashed; g_deliv; g_seen; g_fwd; g_fate; g_out; g_retr; g_bretr; g_cdeliv; g_cack; g_cretr>.

Definition init (c w : nat) : rob :=
  mkRob c w [] false [] [] [] [] [] [] 1000000 false [] [] [] [] [] [] [] [] [] [].

Definition pcap (s : rob) : nat := (2 * width s)%nat.

(** duplicateReq *)
Definition fwd_req (id : N) (r : msg) : msg :=
  match m_kind r with
  | KRead  => mkMsg id KRead P_BOT P_BOTTOM_UNIT 0 (m_addr r) (m_size r) (m_pid r) [] [] 0
  | _      => mkMsg id KWrite P_BOT P_BOTTOM_UNIT 0 (m_addr r) 0 (m_pid r) (m_data r) (m_mask r) 0
  end.

(** duplicateRsp + Dst/Src fix-up in bottomUp; the response's own ID is not
    observable (canonical 0). *)
Definition answer (t : tx) (r : msg) : msg :=
  match m_kind r with
  | KDataReady => mkMsg 0 KDataReady P_TOP (m_src (t_top t)) (m_id (t_top t)) 0 0 0 (m_data r) [] 0
  | _          => mkMsg 0 KWriteDone P_TOP (m_src (t_top t)) (m_id (t_top t)) 0 0 0 [] [] 0
  end.

Definition ctl_ack (c : msg) : msg :=
  mkMsg 0 KCtrl P_CTL (m_src c) 0 0 0 0 [] [] F_NOTIFYDONE.

Definition is_req (m : msg) : bool :=
  match m_kind m with KRead | KWrite => true | _ => false end.
Definition is_rsp (m : msg) : bool :=
  match m_kind m with KDataReady | KWriteDone => true | _ => false end.

Fixpoint set_rsp (id : N) (r : msg) (l : list tx) : list tx :=
  match l with
  | [] => []
  | t :: l' => if t_bid t =? id then mkTx (t_top t) (t_bid t) (Some r) :: l'
               else t :: set_rsp id r l'
  end.

Definition top_down (s : rob) : rob * bool :=
  match top_in s with
  | [] => (s, false)
  | req :: rest =>
    if Nat.leb (cap s) (length (txs s)) then (s, false)
    else if negb (is_req req) then (s <| crashed := true |>, false)
    else if negb (can_push (pcap s) (bot_out s)) then (s, false)
    else
      let b := fwd_req (next_id s) req in
      (s <| txs := txs s ++ [mkTx req (next_id s) None] |>
         <| bot_out := bot_out s ++ [b] |>
         <| top_in := rest |>
         <| next_id := next_id s + 1 |>
         <| g_seen := g_seen s ++ [(req, true)] |>
         <| g_fwd := g_fwd s ++ [b] |>, true)
  end.

Definition parse_bottom (s : rob) : rob * bool :=
  match bot_in s with
  | [] => (s, false)
  | r :: rest =>
    (s <| txs := set_rsp (m_rspto r) r (txs s) |> <| bot_in := rest |>, true)
  end.

Definition bottom_up (s : rob) : rob * bool :=
  match txs s with
  | [] => (s, false)
  | t :: rest =>
    match t_rsp t with
    | None => (s, false)
    | Some r =>
      if negb (is_rsp r) then (s <| crashed := true |>, false)
      else if negb (can_push (pcap s) (top_out s)) then (s, false)
      else
        (s <| top_out := top_out s ++ [answer t r] |>
           <| txs := rest |>
           <| g_fate := g_fate s ++ [(t, true)] |>
           <| g_out := g_out s ++ [answer t r] |>, true)
    end
  end.

Fixpoint iter (n : nat) (f : rob -> rob * bool) (s : rob) : rob * bool :=
  match n with
  | O => (s, false)
  | S n' => let '(s1, p1) := f s in
            let '(s2, p2) := iter n' f s1 in (s2, p1 || p2)
  end.

Definition run_pipeline (s : rob) : rob * bool :=
  let '(s1, p1) := iter (width s) bottom_up s in
  let '(s2, p2) := iter (width s) parse_bottom s1 in
  let '(s3, p3) := iter (width s) top_down s2 in
  (s3, p1 || p2 || p3).

Definition discard_all (s : rob) : rob :=
  s <| g_fate := g_fate s ++ map (fun t => (t, false)) (txs s) |> <| txs := [] |>.

Definition process_ctl (s : rob) : rob * bool :=
  match ctl_in s with
  | [] => (s, false)
  | c :: rest =>
    if has_flag c F_DISCARD then
      if can_push 1 (ctl_out s) then
        (discard_all s <| ctl_out := ctl_out s ++ [ctl_ack c] |>
                       <| g_cack := g_cack s ++ [ctl_ack c] |>
                       <| flushing := true |> <| ctl_in := rest |>, true)
      else (s, false)
    else if has_flag c F_RESTART then
      if can_push 1 (ctl_out s) then
        (discard_all s <| ctl_out := ctl_out s ++ [ctl_ack c] |>
                       <| g_cack := g_cack s ++ [ctl_ack c] |>
                       <| flushing := false |> <| ctl_in := rest |>
                       <| g_seen := g_seen s ++ map (fun m => (m, false)) (top_in s) |>
                       <| top_in := [] |> <| bot_in := [] |>, true)
      else (s, false)
    else (s <| crashed := true |>, false)
  end.

Definition tick (s : rob) : rob * bool :=
  let '(s1, p1) := process_ctl s in
  if crashed s1 then (s1, p1) else
  if flushing s1 then (s1, p1)
  else let '(s2, p2) := run_pipeline s1 in (s2, p1 || p2).

Inductive ev :=
| EDeliverTop (m : msg) | EDeliverBot (m : msg) | EDeliverCtl (m : msg)
| ETick | ERetrTop | ERetrBot | ERetrCtl.

Inductive obs := OAcc (b : bool) | OTick (progress : bool) | OMsg (m : option msg) | OCrash.

Definition step (s : rob) (e : ev) : rob * obs :=
  if crashed s then (s, OCrash) else
  match e with
  | EDeliverTop m =>
    if can_push (pcap s) (top_in s)
    then (s <| top_in := top_in s ++ [m] |> <| g_deliv := g_deliv s ++ [m] |>, OAcc true)
    else (s, OAcc false)
  | EDeliverBot m =>
    if can_push (pcap s) (bot_in s)
    then (s <| bot_in := bot_in s ++ [m] |>, OAcc true) else (s, OAcc false)
  | EDeliverCtl m =>
    if can_push 1 (ctl_in s)
    then (s <| ctl_in := ctl_in s ++ [m] |> <| g_cdeliv := g_cdeliv s ++ [m] |>, OAcc true) else (s, OAcc false)
  | ETick => let '(s', p) := tick s in
             if crashed s' then (s', OCrash) else (s', OTick p)
  | ERetrTop =>
    match top_out s with
    | [] => (s, OMsg None)
    | m :: r => (s <| top_out := r |> <| g_retr := g_retr s ++ [m] |>, OMsg (Some m))
    end
  | ERetrBot =>
    match bot_out s with
    | [] => (s, OMsg None)
    | m :: r => (s <| bot_out := r |> <| g_bretr := g_bretr s ++ [m] |>, OMsg (Some m))
    end
  | ERetrCtl =>
    match ctl_out s with
    | [] => (s, OMsg None)
    | m :: r => (s <| ctl_out := r |> <| g_cretr := g_cretr s ++ [m] |>, OMsg (Some m))
    end
  end.

Definition run (s : rob) (evs : list ev) : rob :=
  fold_left (fun s e => fst (step s e)) evs s.

Fixpoint run_obs (s : rob) (evs : list ev) : list obs :=
  match evs with
  | [] => []
  | e :: r => let '(s', o) := step s e in o :: run_obs s' r
  end.

(** Correspondence: compare a recorded history of the implementation. *)
Definition obs_eqb (a b : obs) : bool :=
  match a, b with
  | OAcc x, OAcc y => Bool.eqb x y
  | OTick x, OTick y => Bool.eqb x y
  | OMsg None, OMsg None => true
  | OMsg (Some x), OMsg (Some y) => msg_eqb x y
  | OCrash, OCrash => true
  | _, _ => false
  end.

Record case := mkCase { c_cap : nat; c_width : nat; c_trace : list (ev * obs) }.

(** index of the first event whose observation differs, if any *)
Fixpoint first_diff (i : nat) (l1 l2 : list obs) : option nat :=
  match l1, l2 with
  | [], [] => None
  | a :: l1', b :: l2' => if obs_eqb a b then first_diff (S i) l1' l2' else Some i
  | _, _ => Some i
  end.

Definition check_case (c : case) : option nat :=
  first_diff 0 (run_obs (init (c_cap c) (c_width c)) (map fst (c_trace c))) (map snd (c_trace c)).

Fixpoint mismatches_from (i : nat) (cs : list case) : list (nat * nat) :=
  match cs with
  | [] => []
  | c :: r => match check_case c with
              | None => mismatches_from (S i) r
              | Some k => (i, k) :: mismatches_from (S i) r
              end
  end.
Definition mismatches := mismatches_from 0.
