(** Closed examples on the two-controller model: a schedule that satisfies the
    premises of the C19 theorems and completes two migrations, and the
    mis-routing witness with a third party on the network. *)
From VMem Require Import Pmc PmcLemmas PmcProofs PmcLive.
Open Scope N_scope.

Fixpoint repeat_ev (n : nat) (l : list ev) : list ev :=
  match n with O => [] | S n' => l ++ repeat_ev n' l end.

(** one fair round: everything that can move moves once *)
Definition demo_round : list ev :=
  [ETick PA; ESendRemote PA; EDeliverRemote 0; ETick PB; ESendLocal PB; EMemServe PB 0;
   EDeliverLocal PB 0; ESendRemote PB; ESendLocal PA; EMemServe PA 0; EDeliverLocal PA 0;
   ETakeCtrl PA].

Definition demo_schedule : list ev :=
  ECtrlReq PA (mkMigReq CP_A CA 1024 2048 RB 128) :: repeat_ev 3 demo_round ++
  [ECtrlReq PA (mkMigReq CP_A CA 64 4096 RB 64)] ++ repeat_ev 24 demo_round.

Definition ok_evb (ca rb : N) (e : ev) : bool :=
  match e with
  | ECtrlReq PA m => (mg_remote m =? rb) && (mg_size m mod 64 =? 0) &&
                     negb (mg_src m =? 0) && negb (mg_src m =? ca)
  | ECtrlReq PB _ => false
  | EInject _ => false
  | _ => true
  end.

Lemma ok_evb_sound ca rb e : ok_evb ca rb e = true -> ok_ev ca rb e.
Proof.
  destruct e as [w|w|k|w|w k|w k|w m|w|m]; cbn; auto; try discriminate.
  destruct w; [|discriminate]. rewrite !andb_true_iff, !negb_true_iff, !N.eqb_eq, !N.eqb_neq.
  unfold wf_req. tauto.
Qed.

Lemma demo_ok :
  let s := run (std_sys (gen_store 3 1) (gen_store 5 2)) demo_schedule in
  Forall (ok_ev CA RB) demo_schedule /\
  g_done s = [MMigRsp (mkMigRsp CA CP_A); MMigRsp (mkMigRsp CA CP_A)] /\
  length (g_acc s) = 2%nat /\ cur_mig (pa s) = None /\
  read (sta s) 2048 128 = read (gen_store 5 2) 1024 128 /\
  read (sta s) 4096 64 = read (gen_store 5 2) 64 64.
Proof.
  split.
  - apply Forall_forall. intros e He. apply ok_evb_sound.
    assert (H : forallb (ok_evb CA RB) demo_schedule = true) by (vm_compute; reflexivity).
    rewrite forallb_forall in H. auto.
  - vm_compute. repeat split; reflexivity.
Qed.

(** A's first pull request is being read at B when a third controller (port
    11) asks B for data: B forgets that A was the requester. *)
Definition misroute_schedule : list ev :=
  [ECtrlReq PA (mkMigReq CP_A CA 1024 2048 RB 128);
   ETick PA; ETick PA; ESendRemote PA; EDeliverRemote 0;
   ETick PB; ETick PB; ESendLocal PB; EMemServe PB 0;
   EInject (MPullReq (mkPullReq (11, 0) 11 RB 0 64)); EDeliverRemote 0; ETick PB;
   EDeliverLocal PB 0; ETick PB; ETick PB; ESendRemote PB]
  ++ repeat_ev 30 demo_round.

Lemma misroute_ok :
  let s := run (std_sys (gen_store 3 1) (gen_store 5 2)) misroute_schedule in
  exists p, In (MPullRsp p) (net s) /\ pr_id p = (RA, 0) /\ pr_dst p = 11 /\
            g_done s = [] /\ cur_mig (pa s) <> None.
Proof.
  eexists. vm_compute. split; [left; reflexivity|]. repeat split; try reflexivity. discriminate.
Qed.

(** the demo round is a covering segment, so its repetition is a fair schedule *)
Lemma demo_round_covers : covers demo_round.
Proof. intros a Ha. unfold round12 in Ha. cbn in Ha. unfold demo_round. cbn. intuition (subst; auto 20). Qed.

Lemma repeat_fair k : fair k (repeat_ev k demo_round).
Proof.
  induction k; [apply fair_0|]. cbn [repeat_ev].
  apply fair_S; auto using demo_round_covers.
Qed.

(** rank of the state right after one 128-byte request was accepted *)
Lemma demo_rank :
  mu (run (std_sys (gen_store 3 1) (gen_store 5 2)) [ECtrlReq PA (mkMigReq CP_A CA 1024 2048 RB 128)]) = 49%nat.
Proof. vm_compute. reflexivity. Qed.

(** ** both directions at once on the model *)
From VMem Require Import PmcBi PmcBi7.
Definition cf_std : names :=
  mkNames (fun w => match w with PA => RA | PB => RB end) (fun w => match w with PA => CA | PB => CB end)
          (fun w => match w with PA => LA | PB => LB end) (fun w => match w with PA => MA | PB => MB end)
          (fun w => match w with PA => gen_store 3 1 | PB => gen_store 5 2 end)
          (fun _ a => a < 1024).
Lemma cf_std_ok : names_okb cf_std.
Proof.
  unfold names_okb, cf_std, RA, RB, LA, LB, MA, MB; cbn.
  repeat split; intros; try (match goal with w : who |- _ => destruct w end); cbn; discriminate.
Qed.

Definition bidir_round : list ev :=
  [ETick PA; ETick PB; ESendRemote PA; ESendRemote PB; EDeliverRemote 0; EDeliverRemote 0;
   ESendLocal PA; ESendLocal PB; EMemServe PA 0; EMemServe PB 0; EDeliverLocal PA 0; EDeliverLocal PB 0;
   ETakeCtrl PA; ETakeCtrl PB].
Definition bidir_schedule : list ev :=
  ECtrlReq PA (mkMigReq CP_A CA 0 2048 RB 128) :: ECtrlReq PB (mkMigReq CP_B CB 512 4096 RA 64) ::
  repeat_ev 30 bidir_round.

Lemma bidir_ok : Forall (ok_evb cf_std) bidir_schedule.
Proof.
  unfold bidir_schedule. constructor; [|constructor].
  - cbn. unfold wf_reqw. cbn. repeat split; try discriminate; intros a Ha; lia.
  - cbn. unfold wf_reqw. cbn. repeat split; try discriminate; intros a Ha; lia.
  - apply Forall_forall. intros e He.
    assert (H : forallb (fun e => match e with ECtrlReq _ _ | EInject _ => false | _ => true end)
                        (repeat_ev 30 bidir_round) = true) by (vm_compute; reflexivity).
    rewrite forallb_forall in H. specialize (H e He). destruct e; cbn; auto; discriminate.
Qed.

Lemma bidir_result :
  let s := run (sb_init cf_std) bidir_schedule in
  g_done s = [MMigRsp (mkMigRsp CA CP_A)] /\ g_doneb s = [MMigRsp (mkMigRsp CB CP_B)] /\
  read (sta s) 2048 128 = read (gen_store 5 2) 0 128 /\
  read (stb s) 4096 64 = read (gen_store 3 1) 512 64.
Proof. vm_compute. repeat split; reflexivity. Qed.
