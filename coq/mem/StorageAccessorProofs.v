(** Proofs about the page-table lookups shared by the storage accessor and the driver. *)
From Coq Require Import List NArith Bool Lia ZifyN ZifyNat ZifyBool.
From VLib Require Import Chunks ChunksProofs.
From VMem Require Import StorageAccessor.
Import ListNotations.
Open Scope N_scope.

(** Well-formed page table (the part of C10's invariant the copy loops rely on). *)
Definition pt_wf (lg : N) (pt : ptable) := forall a pg,
  pt (align lg a) = Some pg -> pg_v pg = align lg a /\ pg_size pg = 2 ^ lg.

Definition frames_disjoint (lg : N) (pt : ptable) := forall a b pa pb,
  pt (align lg a) = Some pa -> pt (align lg b) = Some pb -> align lg a <> align lg b ->
  pg_p pa + 2 ^ lg <= pg_p pb \/ pg_p pb + 2 ^ lg <= pg_p pa.

Lemma align_spec : forall lg a, a = align lg a + a mod 2 ^ lg /\ a mod 2 ^ lg < 2 ^ lg.
Proof.
  intros lg a. unfold align. pose proof (pow2_pos lg).
  pose proof (N.div_mod' a (2 ^ lg)). pose proof (N.mod_lt a (2 ^ lg)). lia.
Qed.

Lemma align_add_small : forall lg a i, i < 2 ^ lg - a mod 2 ^ lg -> align lg (a + i) = align lg a.
Proof. intros lg a i Hi. unfold align. rewrite div_add_small; auto using pow2_pos. Qed.

Lemma acc_room : forall lg a, (a / 2 ^ lg + 1) * 2 ^ lg - a = 2 ^ lg - a mod 2 ^ lg.
Proof. intros lg a. pose proof (align_spec lg a). unfold align in *. lia. Qed.

Lemma look_acc_pos : forall lg pt, look_pos (look_acc lg pt).
Proof.
  intros lg pt a pa r H. unfold look_acc in H. destruct (pt (align lg a)); [|discriminate].
  injection H as <- <-. rewrite acc_room. pose proof (align_spec lg a). lia.
Qed.

Lemma look_acc_linear : forall lg pt, pt_wf lg pt -> look_linear (look_acc lg pt).
Proof.
  intros lg pt Hw a pa r i H Hi. unfold look_acc in *.
  destruct (pt (align lg a)) as [pg|] eqn:E; [|discriminate]. injection H as <- <-.
  rewrite acc_room in Hi. rewrite align_add_small by assumption. rewrite E.
  destruct (Hw _ _ E) as [Hv _]. pose proof (align_spec lg a).
  rewrite !acc_room. rewrite mod_add_small by (auto using pow2_pos). f_equal. f_equal; lia.
Qed.

Lemma tr_acc_inj : forall lg pt, pt_wf lg pt -> frames_disjoint lg pt -> forall v1 v2,
  pt (align lg v1) <> None -> pt (align lg v2) <> None ->
  tr (look_acc lg pt) v1 = tr (look_acc lg pt) v2 -> v1 = v2.
Proof.
  intros lg pt Hw Hd v1 v2 M1 M2. unfold tr, look_acc.
  destruct (pt (align lg v1)) as [p1|] eqn:E1; [|congruence].
  destruct (pt (align lg v2)) as [p2|] eqn:E2; [|congruence].
  destruct (Hw _ _ E1) as [V1 _]. destruct (Hw _ _ E2) as [V2 _].
  pose proof (align_spec lg v1). pose proof (align_spec lg v2). intros Ht.
  destruct (N.eq_dec (align lg v1) (align lg v2)) as [Ea|Na].
  - rewrite Ea in E1. rewrite E1 in E2. injection E2 as <-. lia.
  - destruct (Hd _ _ _ _ E1 E2 Na); lia.
Qed.

Lemma look_acc_mapped : forall lg pt v, look_acc lg pt v <> None -> pt (align lg v) <> None.
Proof. intros lg pt v H. unfold look_acc in H. destruct (pt (align lg v)); congruence. Qed.
