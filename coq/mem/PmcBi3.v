(** Both directions at once, part 3: the remaining puller stages. *)
From Coq Require Import Permutation ZifyN ZifyNat ZifyBool.
From VMem Require Import Pmc PmcLemmas PmcProofs PmcBi PmcBi2.
From RecordUpdate Require Import RecordSet.
Import RecordSetNotations.
Open Scope N_scope.

Ltac simp_s :=
  unfold Sc, Pc in *;
  repeat rewrite ?getp_setp, ?getp_setp_o, ?getp_setp_o', ?net_setp, ?getmq_setp, ?getmr_setp, ?getst_setp,
                 ?gacc_setp, ?gdone_setp, ?ndonew_setp_o, ?completedw_setp_o, ?basew_setp_o in *.
Ltac toks_same := solve [unfold toks1, toks2, toks3; simp_s; cbn; reflexivity].
Ltac kindsW HK := destruct HK; constructor; simp_s; cbn; unfold KF in *; try assumption.

Section Bi3.
Variable cf : names.
Hypothesis Hok : names_okb cf.
Notation R := (nR cf).
Notation C := (nC cf).
Notation L := (nL cf).
Notation M := (nM cf).
Notation s0 := (nS0 cf).
Notation ro := (nRO cf).
Notation OKW w := (okM (R w) (L w) (M w) (R (other w)) (L (other w)) (M (other w)) (s0 (other w))).
Notation TFW w := (TF (R w) (L w) (M w) (R (other w)) (L (other w)) (M (other w)) (s0 (other w))).
Notation INVB := (InvB cf).
Notation INVD := (InvD cf).
Notation T1 := (toks1 cf).
Notation T2 := (toks2 cf).
Notation T3 := (toks3 cf).
Notation FO := (fo cf).
Notation OWN := (own cf).

Lemma names4 w : R w <> 0 /\ R (other w) <> 0 /\ R w <> R (other w) /\
  (M w <> 0 /\ M w <> L w) /\ (M (other w) <> 0 /\ M (other w) <> L (other w)).
Proof.
  repeat split; try apply (HR0 cf Hok); try apply (R_other cf Hok); try apply (HM cf Hok).
Qed.

Lemma P9 w s : INVB s -> INVD w (setp w (fst (processPageMigrationReqFromCtrlPort (getp w s))) s).
Proof.
  intros HB. pose proof (dir cf s w HB) as Hd. unfold processPageMigrationReqFromCtrlPort.
  case_eq (cur_mig (getp w s)); [intros r Ecm|intros Ecm; cbn; rewrite setp_same; exact Hd].
  case_eq (handling (getp w s)); intros Eh; [cbn; rewrite setp_same; exact Hd|].
  destruct Hd as [HK Hreq Hq Hnd' Hrsp Hwf Hro Hph].
  assert (HN : NoTokW cf w s /\ to_ctrl (getp w s) = None).
  { unfold PhaseW, Pc in Hph. rewrite Ecm, Eh in Hph. destruct (to_ctrl (getp w s)); tauto. }
  destruct HN as ((A1 & A2 & A3 & Hnp & Hst) & Etc).
  assert (Hwfr : wf_reqw cf w r).
  { destruct Hq as (wt & _ & Eq). unfold Pc in Eq. rewrite Ecm in Eq. rewrite Forall_forall in Hwf.
    apply Hwf. apply (skipn_incl (ndonew w s)). rewrite Eq. cbn. auto. }
  destruct Hwfr as (W1 & W2 & _).
  destruct (cfg_of cf s w HB) as (E1 & E2 & E3 & E4 & E5).
  rewrite gen_pulls_spec, E1, E5, W1. cbn [fst].
  match goal with |- InvD _ _ ?s1 =>
    assert (Hnd : ndonew w s1 = ndonew w s) by (rewrite ndonew_setp; reflexivity);
    assert (Hc : completedw w s1 = completedw w s) by (unfold completedw; rewrite Hnd, gacc_setp; reflexivity);
    assert (Hb : basew cf w s1 = basew cf w s) by (unfold basew; rewrite Hc; reflexivity);
    assert (P1 : Permutation (T1 w s1)
       (map MPullReq (map (fun i => mkPullReq (R w, next_id (getp w s) + N.of_nat i) (R w) (R (other w))
                                      (mg_rd r + 64 * N.of_nat i) 64)
                          (seq 0 (N.to_nat (nch r)))) ++ T1 w s))
      by (unfold toks1, nch; simp_s; cbn; perm);
    assert (P2 : T2 w s1 = T2 w s) by (unfold toks2; simp_s; reflexivity);
    assert (P3 : T3 w s1 = T3 w s) by (unfold toks3; simp_s; reflexivity)
  end.
  rewrite A1, app_nil_r in P1.
  constructor; try rewrite Hnd; try rewrite Hc; try (unfold PhaseW; rewrite P2, P3, A2, A3, Hb); simp_s; cbn; auto.
  - kindsW HK.
  - intros Hlt. apply Hreq. unfold blen in *. simp_s. exact Hlt.
  - rewrite Ecm, Etc. exists (next_id (getp w s)).
    destruct (names4 w) as (N1 & N2 & N3 & N4 & N5).
    eapply TF_perm; [symmetry; exact P1|reflexivity|reflexivity|].
    apply (TF_gen (R w) (L w) (M w) (R (other w)) (L (other w)) (M (other w)) (s0 (other w)) N1 N2 N3 N4 N5).
    exact Hst.
Qed.

Lemma P12 w s : INVB s -> INVD w (setp w (fst (processDataPullRsp (getp w s))) s).
Proof.
  intros HB. pose proof (dir cf s w HB) as Hd. unfold processDataPullRsp.
  case_eq (is_nil (recv_data (getp w s))); intros En; [cbn; rewrite setp_same; exact Hd|].
  destruct Hd as [HK Hreq Hq Hnd' Hrsp Hwf Hro Hph].
  destruct (phasew_tf cf w s Hph) as (r & b & Ecm & Eh & Etc & HT).
  { left. unfold toks1, Pc. destruct (recv_data (getp w s)); [discriminate|].
    intros E. repeat (apply app_eq_nil in E; destruct E as [_ E]). discriminate. }
  set (rest := map MPullReq (to_pull (getp w s)) ++ FO w (rem_out (getp w s)) ++ FO w (net s) ++
    FO w (rem_in (getp (other w) s)) ++ map MPullReq (cur_pull (getp (other w) s)) ++
    map MRdReq (to_read (getp (other w) s)) ++ FO w (loc_out (getp (other w) s)) ++ FO w (getmq (other w) s) ++
    FO w (getmr (other w) s) ++ FO w (loc_in (getp (other w) s)) ++ map MDReady (data_ready (getp (other w) s)) ++
    map MPullRsp (to_rsp (getp (other w) s)) ++ FO w (rem_out (getp (other w) s)) ++ FO w (rem_in (getp w s))).
  assert (P : Permutation (T1 w s) (map MPullRsp (recv_data (getp w s)) ++ rest))
    by (unfold toks1, rest, Pc, Sc; perm).
  eapply TF_perm in HT; [|exact P|reflexivity|reflexivity].
  destruct (names4 w) as (N1 & N2 & N3 & N4 & N5).
  apply (TF_pull _ _ _ _ _ _ _ N1 N2 N3 N4 N5) in HT. destruct HT as (ws & idm' & E & HT).
  destruct (cfg_of cf s w HB) as (E1 & E2 & E3 & E4 & E5).
  rewrite E3, E4. unfold Pc in E. rewrite E. cbn [fst].
  match goal with |- InvD _ _ ?s1 =>
    assert (Hnd : ndonew w s1 = ndonew w s) by (rewrite ndonew_setp; reflexivity);
    assert (Hc : completedw w s1 = completedw w s) by (unfold completedw; rewrite Hnd, gacc_setp; reflexivity);
    assert (Hb : basew cf w s1 = basew cf w s) by (unfold basew; rewrite Hc; reflexivity);
    assert (Q1 : Permutation rest (T1 w s1)) by (unfold toks1, rest; simp_s; cbn; perm);
    assert (Q2 : Permutation (T2 w s ++ map MWrReq ws) (T2 w s1)) by (unfold toks2; simp_s; cbn; perm);
    assert (Q3 : T3 w s1 = T3 w s) by (unfold toks3; simp_s; reflexivity)
  end.
  constructor; try rewrite Hnd; try rewrite Hc; try (unfold PhaseW; rewrite Q3, Hb); simp_s; cbn; auto.
  - kindsW HK.
  - intros Hlt. apply Hreq. unfold blen in *. simp_s. exact Hlt.
  - rewrite Ecm, Eh, Etc. exists b. eapply TF_perm; [exact Q1|exact Q2|reflexivity|exact HT].
Qed.

Lemma P13 w s : INVB s -> INVD w (setp w (fst (processWriteDoneRspFromMemCtrl (getp w s))) s).
Proof.
  intros HB. pose proof (dir cf s w HB) as Hd. unfold processWriteDoneRspFromMemCtrl.
  case_eq (recv_wdone (getp w s)); [intros wd Ew|intros Ew; cbn; rewrite setp_same; exact Hd].
  destruct Hd as [HK Hreq Hq Hnd' Hrsp Hwf Hro Hph].
  destruct (phasew_tf cf w s Hph) as (r & b & Ecm & Eh & Etc & HT).
  { right; right. unfold toks3, Pc. rewrite Ew. cbn.
    intros E. repeat (apply app_eq_nil in E; destruct E as [_ E]). discriminate. }
  assert (P3 : Permutation (T3 w s) (MWDone wd :: (FO w (getmr w s) ++ FO w (loc_in (getp w s)))))
    by (unfold toks3, Pc; rewrite Ew; cbn; perm).
  assert (Hpos : (num_pending (getp w s) - 1 <? 0)%Z = false).
  { destruct HT. apply Permutation_length in P3. cbn [length] in P3. apply Z.ltb_ge. unfold Pc in *. lia. }
  cbv zeta. rewrite Hpos.
  destruct Hq as (wt & Ewt & Eq). unfold Pc in Ecm, Eh, Etc, Ewt, Eq. rewrite Ecm in Eq. cbn [olist app] in Eq.
  destruct (names4 w) as (N1 & N2 & N3 & N4 & N5).
  destruct (skipn_cons_split _ _ _ _ _ _ N1 N2 N3 N4 N5 _ _ _ _ Eq) as (S1 & S2 & S3).
  assert (Hwfr : wf_reqw cf w r).
  { rewrite Forall_forall in Hwf. apply Hwf. apply (skipn_incl (ndonew w s)). rewrite Eq. cbn. auto. }
  destruct (cfg_of cf s w HB) as (E1 & E2 & E3 & E4 & E5).
  case_eq (num_pending (getp w s) - 1 =? 0)%Z; intros Ez.
  - rewrite Ecm. cbn [fst]. apply Z.eqb_eq in Ez.
    destruct (TF_last _ _ _ _ _ _ _ N1 N2 N3 N4 N5 r b _ _ _ _ _ _ _ _ _ (proj1 (proj2 Hwfr)) P3 Ez HT) as (A1 & A2 & A3 & Hst).
    apply app_eq_nil in A3. destruct A3 as (A3a & A3b).
    match goal with |- InvD _ _ ?s1 =>
      assert (Hnd : ndonew w s1 = S (ndonew w s)) by (rewrite ndonew_setp; unfold ndonew, Pc; cbn; rewrite Etc; cbn; lia);
      assert (Hc : completedw w s1 = completedw w s ++ [r]) by (unfold completedw; rewrite Hnd, gacc_setp; exact S1);
      assert (Hb : basew cf w s1 = copy_req (s0 (other w)) (basew cf w s) r)
        by (unfold basew; rewrite Hc, fold_left_app; reflexivity);
      assert (Q1 : T1 w s1 = T1 w s) by (unfold toks1; simp_s; reflexivity);
      assert (Q2 : T2 w s1 = T2 w s) by (unfold toks2; simp_s; reflexivity);
      assert (Q3 : T3 w s1 = []) by (unfold toks3; simp_s; cbn; rewrite A3a, A3b; reflexivity)
    end.
    constructor; try rewrite Hnd; try rewrite Hc; try (unfold PhaseW, NoTokW; rewrite Q1, Q2, Q3, Hb); simp_s; cbn; auto.
    + kindsW HK.
    + intros Hlt. apply Hreq. unfold blen in *. simp_s. exact Hlt.
    + exists wt. split; [exact Ewt|exact S2].
    + rewrite map_app, <- Hrsp. unfold Pc. rewrite Etc, E2. cbn. rewrite !app_nil_r, <- app_assoc. reflexivity.
    + rewrite Eh. repeat split; auto.
  - cbn [fst]. apply Z.eqb_neq in Ez.
    match goal with |- InvD _ _ ?s1 =>
      assert (Hnd : ndonew w s1 = ndonew w s) by (rewrite ndonew_setp; reflexivity);
      assert (Hc : completedw w s1 = completedw w s) by (unfold completedw; rewrite Hnd, gacc_setp; reflexivity);
      assert (Hb : basew cf w s1 = basew cf w s) by (unfold basew; rewrite Hc; reflexivity);
      assert (Q1 : T1 w s1 = T1 w s) by (unfold toks1; simp_s; reflexivity);
      assert (Q2 : T2 w s1 = T2 w s) by (unfold toks2; simp_s; reflexivity);
      assert (Q3 : Permutation (FO w (getmr w s) ++ FO w (loc_in (getp w s))) (T3 w s1)) by (unfold toks3; simp_s; cbn; perm)
    end.
    constructor; try rewrite Hnd; try rewrite Hc; try (unfold PhaseW; rewrite Q1, Q2, Hb); simp_s; cbn; auto.
    + kindsW HK.
    + intros Hlt. apply Hreq. unfold blen in *. simp_s. exact Hlt.
    + exists wt. rewrite Ecm. auto.
    + rewrite Ecm, Eh, Etc. exists b.
      eapply TF_perm; [reflexivity|reflexivity|exact Q3|eapply (TF_count _ _ _ _ _ _ _ N1 N2 N3 N4 N5); [exact P3|exact Ez|exact HT]].
Qed.

End Bi3.
