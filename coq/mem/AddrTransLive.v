(** Liveness of the address-translator model: an invariant that holds under a
    protocol-respecting environment, a ranking function that every action of a fair
    environment decreases, and the end-to-end consequence used by props/C16.v. *)
From Coq Require Import Arith Permutation.
From VLib Require Import Akita ListX.
From VMem Require Import AddrTrans AddrTransProofs.
From RecordUpdate Require Import RecordSet.
Import RecordSetNotations.
Open Scope N_scope.

Arguments un_tr : simpl never.
Arguments un_bot : simpl never.
Arguments Nat.mul : simpl never.

(** * the environment respects the protocol *)
Definition polite (s : st) (e : ev) : Prop :=
  match e with
  | EDeliverTop m => is_req m = true
  | EDeliverBot m => is_rsp m = true /\ In (m_rspto m) (map m_id (g_bretr s))
  | EDeliverTr r => In (r_rspto r) (map q_id (g_qretr s))
  | EDeliverCtl m =>
    kind_eqb (m_kind m) KCtrl = true /\
    (has_flag m F_DISCARD = true \/ (has_flag m F_RESTART = true /\ flushing s = true))
  | _ => True
  end.

Fixpoint polite_run (s : st) (evs : list ev) : Prop :=
  match evs with
  | [] => True
  | e :: r => polite s e /\ polite_run (fst (step s e)) r
  end.

Record Live (s : st) : Prop := {
  l_safe : Safe s;
  l_trin : incl (map r_rspto (g_trdel s)) (map q_id (g_qretr s));
  l_bin  : incl (map m_rspto (g_bdel s)) (map m_id (g_bretr s));
  l_open : forall t, In t (txs s) -> is_done t = false ->
                     ~ In (tid t) (map r_rspto (g_trcons s));
  l_infl : forall p, In p (inflight s) -> ~ In (m_id (snd p)) (map m_rspto (g_bcons s));
  l_ctl  : Forall (fun m => has_flag m F_DISCARD = true \/ flushing s = true) (ctl_in s)
}.

Lemma init_live c : Live (init c).
Proof.
  constructor; cbn; auto using init_safe, incl_nil_l.
Qed.

(** ** facts from [Inv] *)
Lemma trcons_ids_old s id :
  Inv s -> Live s -> In id (map r_rspto (g_trcons s)) -> id < next_tid s.
Proof.
  intros H L Hin. pose proof H as H0. inv_split H0. destruct L.
  assert (Hd : In id (map r_rspto (g_trdel s))).
  { rewrite <- Htrcons, map_app. apply in_or_app; now left. }
  apply l_trin0 in Hd. apply in_map_iff in Hd as (q & <- & Hq).
  rewrite Forall_forall in Htid. apply Htid. rewrite <- Hqretr. apply in_or_app; now left.
Qed.

Lemma bcons_ids_old s id :
  Inv s -> Live s -> In id (map m_rspto (g_bcons s)) -> id < next_bid s.
Proof.
  intros H L Hin. pose proof H as H0. inv_split H0. destruct L.
  assert (Hd : In id (map m_rspto (g_bdel s))).
  { rewrite <- Hbcons, map_app. apply in_or_app; now left. }
  apply l_bin0 in Hd. apply in_map_iff in Hd as (b & <- & Hb).
  assert (Hb' : In b (map f_bot (g_fwd s))).
  { rewrite <- Hbretr. apply in_or_app; now left. }
  apply in_map_iff in Hb' as (f & <- & Hf).
  rewrite Forall_forall in Hbid. apply (Hbid f Hf).
Qed.

Definition bid_p (p : msg * msg) : N := m_id (snd p).

Lemma inflight_ids_nodup s : Inv s -> NoDup (map bid_p (inflight s)).
Proof.
  intros H. inv_split H.
  assert (Hn : NoDup (map bid_p (map pair_f (g_fwd s)))).
  { rewrite map_map. exact Hbidnd. }
  eapply Permutation_NoDup in Hn; [|apply Permutation_map; exact Hpairs].
  rewrite !map_app in Hn. apply NoDup_app_r in Hn. now apply NoDup_app_r in Hn.
Qed.

Lemma inflight_fwd s p : Inv s -> In p (inflight s) -> In (snd p) (map f_bot (g_fwd s)).
Proof.
  intros H Hin. inv_split H.
  assert (Hp : In p (map pair_f (g_fwd s))).
  { eapply Permutation_in; [symmetry; exact Hpairs|]. apply in_or_app; right. apply in_or_app; now right. }
  apply in_map_iff in Hp as (f & <- & Hf). cbn. now apply in_map.
Qed.

(** * [Live] is preserved *)
Ltac live_split L := destruct L as [LS Ltr Lb Lo Li Lc].

Lemma translate_live s : Inv s -> Live s -> Live (fst (translate s)).
Proof.
  intros H L. pose proof (translate_safe s H (l_safe s L)) as HS.
  pose proof (trcons_ids_old s) as Hold.
  unfold translate in *.
  destruct (top_in s) as [|req rest] eqn:Etop; [exact L|].
  destruct (is_req req) eqn:Ereq; cbn [negb] in *.
  2:{ live_split L; constructor; cbn; auto. }
  destruct (split_first _ (txs s)) as [[[a t] b]|] eqn:Esp.
  - apply split_first_spec in Esp as (Etx & _ & _).
    destruct (t_reqs t) as [|r0 rs] eqn:Er.
    { live_split L; constructor; cbn; auto. }
    live_split L; constructor; cbn in *; auto.
    intros t' Hin Hd. rewrite Etx in Lo.
    apply in_app_or in Hin as [Hin|[<-|Hin]].
    + apply Lo; auto. apply in_or_app; auto.
    + apply (Lo t); auto. apply in_or_app; right; now left.
    + apply Lo; auto. apply in_or_app; right; now right.
  - destruct (room _ (tr_out s)); [|exact L].
    pose proof L as L0. live_split L; constructor; cbn in *; auto.
    intros t' Hin Hd. apply in_app_or in Hin as [Hin|[<-|[]]]; [now apply Lo|].
    intros Hc. apply (Hold _ H L0) in Hc. unfold tid in Hc; cbn in Hc. lia.
Qed.

Lemma send_down_live s a t b r rs rsp :
  Inv s -> Live s -> txs s = a ++ t :: b -> Safe (send_down s a t b r rs rsp) ->
  Live (send_down s a t b r rs rsp).
Proof.
  intros H L Etx HS. pose proof (bcons_ids_old s) as Hold. pose proof L as L0.
  live_split L; constructor; cbn in *; auto.
  - intros t' Hin Hd. rewrite Etx in Lo.
    apply in_app_or in Hin as [Hin|Hin]; [apply Lo; auto; apply in_or_app; auto|].
    apply in_app_or in Hin as [Hin|Hin].
    + destruct rs; cbn in Hin; [destruct Hin|]. destruct Hin as [<-|[]]. discriminate.
    + apply Lo; auto. apply in_or_app; right; now right.
  - intros p Hin. apply in_app_or in Hin as [Hin|[<-|[]]]; [now apply Li|].
    cbn. rewrite xlate_id. intros Hc. apply (Hold _ H L0) in Hc. lia.
Qed.

Lemma tids_distinct s a t b t' :
  Inv s -> txs s = a ++ t :: b -> In t' (a ++ b) -> tid t' <> tid t.
Proof.
  intros H Etx Hin. inv_split H. rewrite Etx, map_app in Htxnd. cbn in Htxnd.
  apply NoDup_remove_2 in Htxnd. intros E. apply Htxnd. rewrite <- E, <- map_app.
  now apply in_map.
Qed.

Lemma parse_translation_live s : Inv s -> Live s -> Live (fst (parse_translation s)).
Proof.
  intros H L. pose proof (parse_translation_safe s H (l_safe s L)) as HS.
  unfold parse_translation in *.
  destruct (split_first drainable (txs s)) as [[[a t] b]|] eqn:Esp.
  - apply split_first_spec in Esp as (Etx & Hd & _).
    destruct (t_reqs t) as [|r rs] eqn:Er.
    { live_split L; constructor; cbn; auto. }
    destruct (t_rsp t) as [rsp|] eqn:Ersp.
    2:{ live_split L; constructor; cbn; auto. }
    destruct (is_req r); cbn [negb] in *.
    2:{ live_split L; constructor; cbn; auto. }
    destruct (room _ (bot_out s)); [|exact L]. cbn [fst] in *.
    now apply send_down_live.
  - destruct (tr_in s) as [|rsp rest] eqn:Etr; [exact L|].
    destruct (split_first (fun t => q_id (t_q t) =? r_rspto rsp) (txs s)) as [[[a t] b]|] eqn:Esp2.
    2:{ apply split_first_none in Esp2. rewrite Forall_forall in Esp2.
        live_split L; constructor; cbn in *; auto.
        intros t' Hin Hd Hc. rewrite map_app in Hc. apply in_app_or in Hc as [Hc|[Hc|[]]].
        - now apply (Lo t').
        - specialize (Esp2 t' Hin). cbn in Esp2. apply N.eqb_neq in Esp2. now apply Esp2. }
    apply split_first_spec in Esp2 as (Etx & Hid & _). apply N.eqb_eq in Hid.
    assert (L1 : forall S1, Safe S1 -> txs S1 = a ++ mkTx (t_reqs t) (t_q t) (Some rsp) :: b ->
                 inflight S1 = inflight s -> g_trcons S1 = g_trcons s -> g_bcons S1 = g_bcons s ->
                 g_trdel S1 = g_trdel s -> g_qretr S1 = g_qretr s -> g_bdel S1 = g_bdel s ->
                 g_bretr S1 = g_bretr s -> ctl_in S1 = ctl_in s -> flushing S1 = flushing s -> Live S1).
    { intros S1 HS1 E1 E2 E3 E4 E5 E6 E7 E8 E9 E10.
      live_split L; constructor; auto; rewrite ?E1, ?E2, ?E3, ?E4, ?E5, ?E6, ?E7, ?E8, ?E9, ?E10; auto.
      intros t' Hin Hd. rewrite Etx in Lo.
      apply in_app_or in Hin as [Hin|[<-|Hin]].
      - apply Lo; auto. apply in_or_app; auto.
      - discriminate.
      - apply Lo; auto. apply in_or_app; right; now right. }
    destruct (t_reqs t) as [|r rs] eqn:Er.
    { apply L1; auto. }
    destruct (is_req r); cbn [negb] in *.
    2:{ apply L1; auto. }
    destruct (room _ (bot_out s)); cbn [fst] in *.
    2:{ apply L1; auto. }
    assert (HS2 : Safe (send_down s a t b r rs rsp)).
    { destruct HS; constructor; auto. }
    pose proof (send_down_live s a t b r rs rsp H L Etx HS2) as L2.
    live_split L2; constructor; cbn in *; auto.
    intros t' Hin Hd Hc. rewrite map_app in Hc. apply in_app_or in Hc as [Hc|[Hc|[]]].
    + now apply (Lo t').
    + apply in_app_or in Hin as [Hin|Hin].
      * eapply (tids_distinct s a t b t'); eauto. { apply in_or_app; auto. }
        unfold tid at 2. congruence.
      * apply in_app_or in Hin as [Hin|Hin].
        { destruct rs; cbn in Hin; [destruct Hin|]. destruct Hin as [<-|[]]. discriminate. }
        eapply (tids_distinct s a t b t'); eauto. { apply in_or_app; auto. }
        unfold tid at 2. congruence.
Qed.

Lemma respond_live s : Inv s -> Live s -> Live (fst (respond s)).
Proof.
  intros H L. pose proof (respond_safe s H (l_safe s L)) as HS.
  pose proof (inflight_ids_nodup s H) as Hnd.
  unfold respond in *.
  destruct (bot_in s) as [|rsp rest] eqn:Ebot; [exact L|].
  destruct (is_rsp rsp); cbn [negb] in *.
  2:{ live_split L; constructor; cbn; auto. }
  destruct (split_first _ (inflight s)) as [[[a p] b]|] eqn:Esp.
  - apply split_first_spec in Esp as (Einf & Hid & _). apply N.eqb_eq in Hid.
    destruct (room _ (top_out s)); [|exact L].
    live_split L; constructor; cbn in *; auto.
    intros p' Hin Hc. rewrite map_app in Hc. apply in_app_or in Hc as [Hc|[Hc|[]]].
    + apply (Li p'); auto. rewrite Einf. apply in_app_or in Hin as [Hin|Hin];
        apply in_or_app; [left|right; right]; auto.
    + rewrite Einf, map_app in Hnd. cbn in Hnd. apply NoDup_remove_2 in Hnd.
      apply Hnd. rewrite <- map_app. unfold bid_p at 1. rewrite Hid, Hc.
      change (m_id (snd p')) with (bid_p p'). now apply in_map.
  - apply split_first_none in Esp. rewrite Forall_forall in Esp.
    live_split L; constructor; cbn in *; auto.
    intros p' Hin Hc. rewrite map_app in Hc. apply in_app_or in Hc as [Hc|[Hc|[]]].
    + now apply (Li p').
    + specialize (Esp p' Hin). cbn in Esp. apply N.eqb_neq in Esp. now apply Esp.
Qed.

Lemma handle_ctrl_live s : Inv s -> Live s -> Live (fst (handle_ctrl s)).
Proof.
  intros H L. pose proof (handle_ctrl_safe s H (l_safe s L)) as HS.
  pose proof (i_pci s H) as Hpci. pose proof (i_flush s H) as Hfl.
  unfold handle_ctrl in *.
  destruct (ctl_in s) as [|c rest] eqn:Ectl; [exact L|].
  assert (Hr : rest = []) by (destruct rest; cbn in Hpci; auto; lia). subst rest.
  destruct (kind_eqb (m_kind c) KCtrl); cbn [negb] in *.
  2:{ live_split L; constructor; cbn; auto. }
  destruct (has_flag c F_DISCARD) eqn:Ed.
  { destruct (room 1 (ctl_out s)); [|exact L].
    live_split L; constructor; cbn in *; auto; intros ? []. }
  destruct (has_flag c F_RESTART).
  2:{ live_split L; constructor; cbn; auto. }
  destruct (room 1 (ctl_out s)); [|exact L].
  live_split L. rewrite Ectl in Lc. inversion Lc as [|? ? [Hc|Hc] _]; subst; [congruence|].
  destruct (Hfl Hc) as [Et Ei].
  constructor; cbn in *; auto.
  - rewrite Et. intros ? [].
  - rewrite Ei. intros ? [].
Qed.

Definition IL (s : st) : Prop := Inv s /\ Live s.
Definition ILNF (s : st) : Prop := Inv s /\ Live s /\ flushing s = false.

Lemma respond_ilnf s : ILNF s -> ILNF (fst (respond s)).
Proof.
  intros (H & L & F). split; [|split]; [now apply respond_inv|now apply respond_live|].
  destruct (respond_stable s) as [_ E]. congruence.
Qed.
Lemma parse_translation_ilnf s : ILNF s -> ILNF (fst (parse_translation s)).
Proof.
  intros (H & L & F).
  split; [|split]; [now apply parse_translation_inv|now apply parse_translation_live|].
  destruct (parse_translation_stable s) as [_ E]. congruence.
Qed.
Lemma translate_ilnf s : ILNF s -> ILNF (fst (translate s)).
Proof.
  intros (H & L & F). split; [|split]; [now apply translate_inv|now apply translate_live|].
  destruct (translate_stable s) as [_ E]. congruence.
Qed.
Lemma parse_translation_il s : IL s -> IL (fst (parse_translation s)).
Proof. intros (H & L). split; [now apply parse_translation_inv|now apply parse_translation_live]. Qed.
Lemma handle_ctrl_il s : IL s -> IL (fst (handle_ctrl s)).
Proof. intros (H & L). split; [now apply handle_ctrl_inv|now apply handle_ctrl_live]. Qed.

Lemma tick_live s : Inv s -> Live s -> Live (fst (tick s)).
Proof.
  intros H L. unfold tick.
  assert (H1 : IL (fst (if flushing s then iter (width (cfg s)) parse_translation s
                        else run_pipeline s))).
  { destruct (flushing s) eqn:F.
    - apply iter_pres; [apply parse_translation_il|split; auto].
    - unfold run_pipeline.
      pose proof (iter_pres ILNF respond respond_ilnf (width (cfg s)) s
                            (conj H (conj L F))) as H1.
      destruct (iter (width (cfg s)) respond s) as [s1 p1]; cbn in H1.
      pose proof (iter_pres ILNF _ parse_translation_ilnf (width (cfg s)) s1 H1) as H2.
      destruct (iter (width (cfg s)) parse_translation s1) as [s2 p2]; cbn in H2.
      pose proof (iter_pres ILNF _ translate_ilnf (width (cfg s)) s2 H2) as H3.
      destruct (iter (width (cfg s)) translate s2) as [s3 p3]; cbn in *.
      destruct H3 as (? & ? & _). split; auto. }
  destruct (if flushing s then _ else _) as [s1 p1]; cbn in H1.
  pose proof (guard_pres IL handle_ctrl s1 handle_ctrl_il H1) as H2.
  destruct (guard handle_ctrl s1) as [s2 p2]; apply H2.
Qed.

Lemma polite_benign s e : polite s e -> benign e = true.
Proof.
  destruct e; cbn; auto; try tauto.
  intros [Hk [Hd|[Hr _]]]; unfold ctl_okb; rewrite Hk, ?Hd, ?Hr; cbn; auto using orb_true_r.
Qed.

Lemma step_live s e : Inv s -> Live s -> polite s e -> Live (fst (step s e)).
Proof.
  intros H L Hp. pose proof (step_safe s e H (l_safe s L) (polite_benign s e Hp)) as HS.
  pose proof (i_pci s H) as Hpci.
  unfold step in *. destruct (crashed s) eqn:Ec; [exact L|].
  destruct e as [m|m|r|m| | | | | ]; cbn in Hp.
  - destruct (room _ _); [|exact L]. live_split L; constructor; cbn in *; auto.
  - destruct (room _ _); [|exact L]. destruct Hp as [_ Hp].
    live_split L; constructor; cbn in *; auto.
    rewrite map_app. apply incl_app; auto. intros x [<-|[]]; auto.
  - destruct (room _ _); [|exact L].
    live_split L; constructor; cbn in *; auto.
    rewrite map_app. apply incl_app; auto. intros x [<-|[]]; auto.
  - destruct (room 1 (ctl_in s)) eqn:Er; [|exact L].
    unfold room in Er. apply Nat.ltb_lt in Er.
    assert (Ein : ctl_in s = []) by (destruct (ctl_in s); cbn in Er; auto; lia).
    live_split L; constructor; cbn in *; auto. rewrite Ein. cbn.
    constructor; auto. destruct Hp as [_ [Hd|[_ Hf]]]; auto.
  - pose proof (tick_live s H L) as H1. destruct (tick s) as [s' p]; cbn in H1.
    destruct (crashed s'); exact H1.
  - destruct (top_out s); [exact L|]. live_split L; constructor; cbn in *; auto.
  - destruct (bot_out s); [exact L|]. live_split L; constructor; cbn in *; auto.
    rewrite map_app. now apply incl_appl.
  - destruct (tr_out s); [exact L|]. live_split L; constructor; cbn in *; auto.
    rewrite map_app. now apply incl_appl.
  - destruct (ctl_out s); [exact L|]. live_split L; constructor; cbn in *; auto.
Qed.

Lemma run_live evs : forall s, Inv s -> Live s -> polite_run s evs -> Live (run s evs).
Proof.
  induction evs as [|e evs IH]; intros s H L Hp; [exact L|].
  destruct Hp as [He Hr]. change (run s (e :: evs)) with (run (fst (step s e)) evs).
  apply IH; auto using step_inv, step_live.
Qed.

(** * the ranking function *)
Ltac rk := unfold rank, un_tr, un_bot, answered_tr, answered_bot; cbn;
           rewrite ?waiting_app, ?waiting_cons, ?app_length; cbn [length].

Lemma waiting_after_send_len a t b r rs rsp :
  t_reqs t = r :: rs ->
  length (waiting (a ++ t :: b)) = S (length (waiting (a ++ after_send t rs rsp ++ b))).
Proof.
  intros Er. rewrite !waiting_app, waiting_cons, waiting_after_send, Er, !app_length. cbn. lia.
Qed.

Lemma translate_rank s : (rank (fst (translate s)) <= rank s)%nat.
Proof.
  unfold translate. destruct (top_in s) as [|req rest] eqn:Etop; [cbn [fst]; lia|].
  destruct (negb (is_req req)); [rk; lia|].
  destruct (split_first _ (txs s)) as [[[a t] b]|] eqn:Esp.
  - apply split_first_spec in Esp as (Etx & _ & _).
    destruct (t_reqs t) as [|r0 rs] eqn:Er; [rk; lia|].
    rk. rewrite Etop, Etx. rk. cbn [t_reqs]. rewrite ?Er, ?app_length. cbn [length]. lia.
  - destruct (room _ _); [|cbn [fst]; lia]. rk. rewrite Etop, waiting_nil. cbn. lia.
Qed.

Lemma translate_rank_lt s :
  crashed s = false -> Inv s -> Safe s -> top_in s <> [] -> tr_out s = [] ->
  (1 <= width (cfg s))%nat -> (rank (fst (translate s)) < rank s)%nat.
Proof.
  intros Hc H S Hne Hout Hw. pose proof (translate_safe s H S) as HS.
  unfold translate in *. destruct (top_in s) as [|req rest] eqn:Etop; [congruence|].
  destruct S as [_ St _ _]. rewrite Etop in St. inversion St as [|? ? Hreq _]; subst.
  rewrite Hreq in *; cbn [negb] in *.
  destruct (split_first _ (txs s)) as [[[a t] b]|] eqn:Esp.
  - apply split_first_spec in Esp as (Etx & _ & _).
    destruct (t_reqs t) as [|r0 rs] eqn:Er.
    { destruct HS as [Hcr _ _ _]. cbn in Hcr. discriminate. }
    rk. rewrite Etop, Etx. rk. cbn [t_reqs]. rewrite ?Er, ?app_length. cbn [length]. lia.
  - unfold room. rewrite Hout. cbn [length].
    destruct (width (cfg s)) as [|w] eqn:Ew; [cbn [fst]; lia|]. cbn [Nat.ltb Nat.leb].
    rk. rewrite Etop, Hout, waiting_nil. cbn. lia.
Qed.

Lemma parse_translation_rank s : (rank (fst (parse_translation s)) <= rank s)%nat.
Proof.
  unfold parse_translation.
  destruct (split_first drainable (txs s)) as [[[a t] b]|] eqn:Esp.
  - apply split_first_spec in Esp as (Etx & _ & _).
    destruct (t_reqs t) as [|r rs] eqn:Er; [rk; lia|].
    destruct (t_rsp t) as [rsp|]; [|rk; lia].
    destruct (negb (is_req r)); [rk; lia|].
    destruct (room _ _); [|cbn [fst]; lia].
    unfold send_down. rk. rewrite Etx. rk. rewrite ?waiting_after_send, ?Er. cbn [length]. lia.
  - destruct (tr_in s) as [|rsp rest] eqn:Etr; [cbn [fst]; lia|].
    destruct (split_first (fun t => q_id (t_q t) =? r_rspto rsp) (txs s)) as [[[a t] b]|] eqn:Esp2.
    2:{ rk. rewrite Etr. cbn. lia. }
    apply split_first_spec in Esp2 as (Etx & _ & _).
    destruct (t_reqs t) as [|r rs] eqn:Er.
    { rk. rewrite Etx. rk. cbn [t_reqs]. rewrite ?Er. cbn [length]. lia. }
    destruct (negb (is_req r)).
    { rk. rewrite Etx. rk. cbn [t_reqs]. rewrite ?Er. cbn [length]. lia. }
    destruct (room _ _).
    + unfold send_down. rk. rewrite Etx, Etr. rk. rewrite ?waiting_after_send, ?Er. cbn [length]. lia.
    + rk. rewrite Etx. rk. cbn [t_reqs]. rewrite ?Er. cbn [length]. lia.
Qed.

Lemma room_empty {A} w : (1 <= w)%nat -> room w (@nil A) = true.
Proof. intros H. unfold room. apply Nat.ltb_lt. cbn. lia. Qed.

Lemma parse_translation_rank_lt s :
  Inv s -> Safe s -> bot_out s = [] -> (1 <= width (cfg s))%nat ->
  split_first drainable (txs s) <> None \/ tr_in s <> [] ->
  (rank (fst (parse_translation s)) < rank s)%nat.
Proof.
  intros H S Hout Hw Hen. pose proof (parse_translation_safe s H S) as HS.
  unfold parse_translation in *. rewrite Hout, (room_empty _ Hw) in *.
  destruct (split_first drainable (txs s)) as [[[a t] b]|] eqn:Esp.
  - apply split_first_spec in Esp as (Etx & _ & _).
    destruct (t_reqs t) as [|r rs] eqn:Er.
    { destruct HS as [Hcr _ _ _]. cbn in Hcr. discriminate. }
    destruct (t_rsp t) as [rsp|].
    2:{ destruct HS as [Hcr _ _ _]. cbn in Hcr. discriminate. }
    destruct (is_req r); cbn [negb] in *.
    2:{ destruct HS as [Hcr _ _ _]. cbn in Hcr. discriminate. }
    unfold send_down. rk. rewrite Etx, Hout. rk. rewrite ?waiting_after_send, ?Er. cbn [length]. lia.
  - destruct Hen as [Hen|Hen]; [congruence|].
    destruct (tr_in s) as [|rsp rest] eqn:Etr; [congruence|].
    destruct (split_first (fun t => q_id (t_q t) =? r_rspto rsp) (txs s)) as [[[a t] b]|] eqn:Esp2.
    2:{ rk. rewrite Etr. cbn. lia. }
    apply split_first_spec in Esp2 as (Etx & _ & _).
    destruct (t_reqs t) as [|r rs] eqn:Er.
    { destruct HS as [Hcr _ _ _]. cbn in Hcr. discriminate. }
    destruct (is_req r); cbn [negb] in *.
    2:{ destruct HS as [Hcr _ _ _]. cbn in Hcr. discriminate. }
    unfold send_down. rk. rewrite Etx, Etr, Hout. rk. rewrite ?waiting_after_send, ?Er. cbn [length]. lia.
Qed.

Lemma respond_rank s : (rank (fst (respond s)) <= rank s)%nat.
Proof.
  unfold respond. destruct (bot_in s) as [|rsp rest] eqn:Eb; [cbn [fst]; lia|].
  destruct (negb (is_rsp rsp)); [rk; lia|].
  destruct (split_first _ (inflight s)) as [[[a p] b]|].
  - destruct (room _ _); [|cbn [fst]; lia]. rk. rewrite Eb. cbn. lia.
  - rk. rewrite Eb. cbn. lia.
Qed.

Lemma respond_rank_lt s :
  Inv s -> Safe s -> bot_in s <> [] -> top_out s = [] -> (1 <= width (cfg s))%nat ->
  (rank (fst (respond s)) < rank s)%nat.
Proof.
  intros H S Hne Hout Hw. pose proof (respond_safe s H S) as HS.
  unfold respond in *. rewrite Hout, (room_empty _ Hw) in *.
  destruct (bot_in s) as [|rsp rest] eqn:Eb; [congruence|].
  destruct (is_rsp rsp); cbn [negb] in *.
  2:{ destruct HS as [Hcr _ _ _]. cbn in Hcr. discriminate. }
  destruct (split_first _ (inflight s)) as [[[a p] b]|].
  - rk. rewrite Eb, Hout. cbn. lia.
  - rk. rewrite Eb. cbn. lia.
Qed.

Lemma handle_ctrl_rank s : (rank (fst (handle_ctrl s)) <= rank s)%nat.
Proof.
  unfold handle_ctrl. destruct (ctl_in s) as [|c rest]; [cbn [fst]; lia|].
  destruct (negb _); [rk; lia|].
  destruct (has_flag c F_DISCARD).
  { destruct (room _ _); [|cbn [fst]; lia]. rk. rewrite waiting_nil. cbn. lia. }
  destruct (has_flag c F_RESTART); [|rk; lia].
  destruct (room _ _); [|cbn [fst]; lia]. rk. lia.
Qed.

Lemma guard_rank f s :
  (forall s, (rank (fst (f s)) <= rank s)%nat) -> (rank (fst (guard f s)) <= rank s)%nat.
Proof. intros Hf. unfold guard. destruct (crashed s); [cbn; lia|apply Hf]. Qed.

Lemma iter_rank f :
  (forall s, (rank (fst (f s)) <= rank s)%nat) ->
  forall n s, (rank (fst (iter n f s)) <= rank s)%nat.
Proof.
  intros Hf; induction n as [|n IH]; intros s; cbn; [lia|].
  pose proof (guard_rank f s Hf) as H1. destruct (guard f s) as [s1 p1]; cbn in H1.
  specialize (IH s1). destruct (iter n f s1) as [s2 p2]; cbn in *. lia.
Qed.

Lemma run_pipeline_rank s : (rank (fst (run_pipeline s)) <= rank s)%nat.
Proof.
  unfold run_pipeline.
  pose proof (iter_rank _ respond_rank (width (cfg s)) s) as H1.
  destruct (iter (width (cfg s)) respond s) as [s1 p1]; cbn in H1.
  pose proof (iter_rank _ parse_translation_rank (width (cfg s)) s1) as H2.
  destruct (iter (width (cfg s)) parse_translation s1) as [s2 p2]; cbn in H2.
  pose proof (iter_rank _ translate_rank (width (cfg s)) s2) as H3.
  destruct (iter (width (cfg s)) translate s2) as [s3 p3]; cbn in *. lia.
Qed.

Lemma tick_rank s : (rank (fst (tick s)) <= rank s)%nat.
Proof.
  unfold tick.
  assert (H1 : (rank (fst (if flushing s then iter (width (cfg s)) parse_translation s
                           else run_pipeline s)) <= rank s)%nat).
  { destruct (flushing s); [apply iter_rank, parse_translation_rank|apply run_pipeline_rank]. }
  destruct (if flushing s then _ else _) as [s1 p1]; cbn in H1.
  pose proof (guard_rank handle_ctrl s1 handle_ctrl_rank) as H2.
  destruct (guard handle_ctrl s1) as [s2 p2]; cbn in *. lia.
Qed.

Lemma iter_parse_idle n : forall s,
  crashed s = false -> split_first drainable (txs s) = None -> tr_in s = [] ->
  iter n parse_translation s = (s, false).
Proof.
  induction n as [|n IH]; intros s Hc Hd Ht; cbn; auto.
  unfold guard. rewrite Hc. unfold parse_translation at 1. rewrite Hd, Ht. rewrite IH; auto.
Qed.

Lemma iter_first_lt f n s :
  (forall s, (rank (fst (f s)) <= rank s)%nat) -> crashed s = false ->
  (rank (fst (f s)) < rank s)%nat -> (rank (fst (iter (S n) f s)) < rank s)%nat.
Proof.
  intros Hle Hc Hlt. cbn. unfold guard. rewrite Hc.
  destruct (f s) as [s1 p1]; cbn in Hlt.
  pose proof (iter_rank f Hle n s1) as H2. destruct (iter n f s1) as [s2 p2]; cbn in *. lia.
Qed.

Lemma run_pipeline_rank_lt s :
  Inv s -> Safe s -> (1 <= width (cfg s))%nat ->
  top_out s = [] -> bot_out s = [] -> tr_out s = [] ->
  bot_in s <> [] \/ tr_in s <> [] \/ split_first drainable (txs s) <> None \/ top_in s <> [] ->
  (rank (fst (run_pipeline s)) < rank s)%nat.
Proof.
  intros H HSafe Hw Ht Hb Hx Hen. pose proof (s_nc s HSafe) as Hc.
  unfold run_pipeline. destruct (width (cfg s)) as [|w] eqn:Ew; [lia|].
  destruct (bot_in s) as [|x rest] eqn:Ebi.
  - rewrite iter_respond_idle by auto.
    destruct Hen as [Hen|Hen]; [congruence|].
    assert (Hdec : {split_first drainable (txs s) <> None \/ tr_in s <> []} +
                   {split_first drainable (txs s) = None /\ tr_in s = []}).
    { destruct (split_first drainable (txs s)); [left; left; discriminate|].
      destruct (tr_in s); [right; auto|left; right; discriminate]. }
    destruct Hdec as [Hd|[Hd1 Hd2]].
    + assert (Hlt : (rank (fst (parse_translation s)) < rank s)%nat).
      { apply parse_translation_rank_lt; auto; lia. }
      pose proof (iter_first_lt _ w s parse_translation_rank Hc Hlt) as H1.
      destruct (iter (S w) parse_translation s) as [s2 p2]; cbn in H1.
      pose proof (iter_rank _ translate_rank (S w) s2) as H3.
      destruct (iter (S w) translate s2) as [s3 p3]; cbn in *. lia.
    + rewrite iter_parse_idle by auto.
      destruct Hen as [Hen|[Hen|Hen]]; try congruence.
      assert (Hlt : (rank (fst (translate s)) < rank s)%nat).
      { apply translate_rank_lt; auto; lia. }
      pose proof (iter_first_lt _ w s translate_rank Hc Hlt) as H1.
      destruct (iter (S w) translate s) as [s3 p3]; cbn in *. lia.
  - assert (Hlt : (rank (fst (respond s)) < rank s)%nat).
    { apply respond_rank_lt; auto; [rewrite Ebi; discriminate|lia]. }
    pose proof (iter_first_lt _ w s respond_rank Hc Hlt) as H1.
    destruct (iter (S w) respond s) as [s1 p1]; cbn in H1.
    pose proof (iter_rank _ parse_translation_rank (S w) s1) as H2.
    destruct (iter (S w) parse_translation s1) as [s2 p2]; cbn in H2.
    pose proof (iter_rank _ translate_rank (S w) s2) as H3.
    destruct (iter (S w) translate s2) as [s3 p3]; cbn in *. lia.
Qed.

Lemma tick_rank_lt s :
  Inv s -> Safe s -> flushing s = false -> (1 <= width (cfg s))%nat ->
  top_out s = [] -> bot_out s = [] -> tr_out s = [] ->
  bot_in s <> [] \/ tr_in s <> [] \/ split_first drainable (txs s) <> None \/ top_in s <> [] ->
  (rank (fst (tick s)) < rank s)%nat.
Proof.
  intros H S Hf Hw Ht Hb Hx Hen. unfold tick. rewrite Hf.
  pose proof (run_pipeline_rank_lt s H S Hw Ht Hb Hx Hen) as H1.
  destruct (run_pipeline s) as [s1 p1]; cbn in H1.
  pose proof (guard_rank handle_ctrl s1 handle_ctrl_rank) as H2.
  destruct (guard handle_ctrl s1) as [s2 p2]; cbn in *. lia.
Qed.

(** * actions of the fair environment *)
Lemma filter_length_le {A} (p p' : A -> bool) l :
  (forall x, p' x = true -> p x = true) -> (length (filter p' l) <= length (filter p l))%nat.
Proof.
  intros Hi. induction l as [|x l IH]; cbn; auto.
  destruct (p' x) eqn:E'; [rewrite (Hi _ E'); cbn; lia|]. destruct (p x); cbn; lia.
Qed.

Lemma filter_length_lt {A} (p p' : A -> bool) l y :
  (forall x, p' x = true -> p x = true) -> In y l -> p y = true -> p' y = false ->
  (length (filter p' l) < length (filter p l))%nat.
Proof.
  intros Hi. induction l as [|x l IH]; cbn; [tauto|]. intros [->|Hin] Hy Hy'.
  - rewrite Hy, Hy'. cbn. pose proof (filter_length_le p p' l Hi). lia.
  - specialize (IH Hin Hy Hy').
    destruct (p' x) eqn:E'; [rewrite (Hi _ E'); cbn; lia|]. destruct (p x); cbn; lia.
Qed.

Lemma filter_snoc_le {A} (p : A -> bool) l x :
  (length (filter p (l ++ [x])) <= S (length (filter p l)))%nat.
Proof. rewrite filter_app, app_length. cbn. destruct (p x); cbn; lia. Qed.

Lemma retr_top_lt s : crashed s = false -> top_out s <> [] ->
  (rank (fst (step s ERetrTop)) < rank s)%nat.
Proof.
  intros Hc Hne. unfold step. rewrite Hc. destruct (top_out s) as [|m r] eqn:E; [congruence|].
  rk. rewrite E. cbn. lia.
Qed.

Lemma retr_bot_lt s : crashed s = false -> bot_out s <> [] ->
  (rank (fst (step s ERetrBot)) < rank s)%nat.
Proof.
  intros Hc Hne. unfold step. rewrite Hc. destruct (bot_out s) as [|m r] eqn:E; [congruence|].
  unfold rank, un_tr, un_bot, answered_tr, answered_bot; cbn. rewrite E. cbn [length].
  pose proof (filter_snoc_le (fun b => negb (existsb (fun m0 => m_rspto m0 =? m_id b) (g_bdel s)))
                             (g_bretr s) m). lia.
Qed.

Lemma retr_tr_lt s : crashed s = false -> tr_out s <> [] ->
  (rank (fst (step s ERetrTr)) < rank s)%nat.
Proof.
  intros Hc Hne. unfold step. rewrite Hc. destruct (tr_out s) as [|q r] eqn:E; [congruence|].
  unfold rank, un_tr, un_bot, answered_tr, answered_bot; cbn. rewrite E. cbn [length].
  pose proof (filter_snoc_le (fun q0 => negb (existsb (fun r0 => r_rspto r0 =? q_id q0) (g_trdel s)))
                             (g_qretr s) q). lia.
Qed.

Lemma un_tr_In s q : In q (un_tr s) -> In q (g_qretr s) /\ answered_tr s (q_id q) = false.
Proof.
  unfold un_tr. intros H. apply filter_In in H as [Hin Hn]. split; auto.
  now destruct (answered_tr s (q_id q)).
Qed.

Lemma un_bot_In s b : In b (un_bot s) -> In b (g_bretr s) /\ answered_bot s (m_id b) = false.
Proof.
  unfold un_bot. intros H. apply filter_In in H as [Hin Hn]. split; auto.
  now destruct (answered_bot s (m_id b)).
Qed.

Lemma deliver_tr_lt s rp q :
  crashed s = false -> In q (un_tr s) -> r_rspto rp = q_id q ->
  room (width (cfg s)) (tr_in s) = true ->
  (rank (fst (step s (EDeliverTr rp))) < rank s)%nat.
Proof.
  intros Hc Hq Hid Hroom. destruct (un_tr_In s q Hq) as [Hin Hun].
  unfold step. rewrite Hc, Hroom.
  unfold rank, un_tr, un_bot, answered_tr, answered_bot in *; cbn. rewrite app_length. cbn [length].
  assert (Hlt' : (length (filter (fun q0 => negb (existsb (fun r => N.eqb (r_rspto r) (q_id q0))
                     (g_trdel s ++ [rp]))) (g_qretr s)) <
                  length (filter (fun q0 => negb (existsb (fun r => N.eqb (r_rspto r) (q_id q0))
                     (g_trdel s))) (g_qretr s)))%nat).
  { apply (filter_length_lt _ _ _ q); [|exact Hin| |].
    - intros x. rewrite existsb_app.
      destruct (existsb (fun r => r_rspto r =? q_id x) (g_trdel s)); cbn; auto.
    - now rewrite Hun.
    - rewrite existsb_app. cbn. rewrite Hid, N.eqb_refl. now rewrite !orb_true_r. }
  lia.
Qed.

Lemma mem_rsp_rspto b : m_rspto (mem_rsp b) = m_id b.
Proof. unfold mem_rsp. destruct (m_kind b); reflexivity. Qed.
Lemma mem_rsp_is_rsp b : is_rsp (mem_rsp b) = true.
Proof. unfold mem_rsp. destruct (m_kind b); reflexivity. Qed.

Lemma deliver_bot_lt s x b :
  crashed s = false -> In b (un_bot s) -> m_rspto x = m_id b ->
  room (width (cfg s)) (bot_in s) = true ->
  (rank (fst (step s (EDeliverBot x))) < rank s)%nat.
Proof.
  intros Hc Hq Hid Hroom. destruct (un_bot_In s b Hq) as [Hin Hun].
  unfold step. rewrite Hc, Hroom.
  unfold rank, un_tr, un_bot, answered_tr, answered_bot in *; cbn. rewrite app_length. cbn [length].
  assert (Hlt' : (length (filter (fun b0 => negb (existsb (fun m => N.eqb (m_rspto m) (m_id b0))
                     (g_bdel s ++ [x]))) (g_bretr s)) <
                  length (filter (fun b0 => negb (existsb (fun m => N.eqb (m_rspto m) (m_id b0))
                     (g_bdel s))) (g_bretr s)))%nat).
  { apply (filter_length_lt _ _ _ b); [|exact Hin| |].
    - intros y. rewrite existsb_app.
      destruct (existsb (fun m => m_rspto m =? m_id y) (g_bdel s)); cbn; auto.
    - now rewrite Hun.
    - rewrite existsb_app. cbn. rewrite Hid, N.eqb_refl. now rewrite !orb_true_r. }
  lia.
Qed.

Lemma room_false_nonempty {A} w (l : list A) : (1 <= w)%nat -> room w l = false -> l <> [].
Proof. intros Hw Hr ->. rewrite room_empty in Hr; auto. discriminate. Qed.

Lemma drainable_exists l t :
  In t l -> drainable t = true -> split_first drainable l <> None.
Proof.
  intros Hin Hd Hn. apply split_first_none in Hn. rewrite Forall_forall in Hn.
  rewrite (Hn t Hin) in Hd. discriminate.
Qed.

Lemma existsb_In_rspto_tr l id : existsb (fun r => r_rspto r =? id) l = true -> In id (map r_rspto l).
Proof.
  intros H. apply existsb_exists in H as (r & Hin & E). apply N.eqb_eq in E. subst.
  now apply in_map.
Qed.
Lemma existsb_In_rspto_bot l id : existsb (fun m => m_rspto m =? id) l = true -> In id (map m_rspto l).
Proof.
  intros H. apply existsb_exists in H as (r & Hin & E). apply N.eqb_eq in E. subst.
  now apply in_map.
Qed.

(** an open transaction always has its reply still to come: the lookup is in the
    translation port, with the environment, or its reply is in the port *)
Lemma open_tx_pending s t :
  Inv s -> Live s -> In t (txs s) -> is_done t = false ->
  tr_out s = [] -> tr_in s = [] -> un_tr s <> [].
Proof.
  intros H L Hin Hd Hout Hti Hun. pose proof H as H0. inv_split H0. live_split L.
  assert (Hq : In (t_q t) (g_qretr s)).
  { assert (Hq : In (t_q t) (g_treq s)) by (apply Htxq; now apply in_map).
    rewrite <- Hqretr, Hout, app_nil_r in Hq. exact Hq. }
  assert (Ha : answered_tr s (tid t) = true).
  { destruct (answered_tr s (tid t)) eqn:E; auto. exfalso.
    assert (Hu : In (t_q t) (un_tr s)).
    { unfold un_tr. apply filter_In. split; auto. unfold tid in E. now rewrite E. }
    rewrite Hun in Hu. destruct Hu. }
  apply existsb_In_rspto_tr in Ha. rewrite <- Htrcons, Hti, app_nil_r in Ha.
  now apply (Lo t Hin Hd).
Qed.

Lemma fair_next_lt oracle s :
  Inv s -> Live s -> flushing s = false -> (1 <= width (cfg s))%nat -> (0 < rank s)%nat ->
  (rank (fst (step s (fair_next oracle s))) < rank s)%nat.
Proof.
  intros H L Hf Hw Hpos. pose proof (l_safe s L) as HS. pose proof (s_nc s HS) as Hc.
  unfold fair_next.
  destruct (top_out s) as [|m1 r1] eqn:Eto.
  2:{ apply retr_top_lt; auto. rewrite Eto; discriminate. }
  destruct (bot_out s) as [|m2 r2] eqn:Ebo.
  2:{ apply retr_bot_lt; auto. rewrite Ebo; discriminate. }
  destruct (tr_out s) as [|m3 r3] eqn:Exo.
  2:{ apply retr_tr_lt; auto. rewrite Exo; discriminate. }
  assert (Htick : bot_in s <> [] \/ tr_in s <> [] \/ split_first drainable (txs s) <> None \/
                  top_in s <> [] -> (rank (fst (step s ETick)) < rank s)%nat).
  { intros Hen. pose proof (tick_rank_lt s H HS Hf Hw Eto Ebo Exo Hen) as Hlt.
    unfold step. rewrite Hc. destruct (tick s) as [s' p]; cbn in *. destruct (crashed s'); exact Hlt. }
  destruct (un_tr s) as [|q qs] eqn:Eun.
  - destruct (un_bot s) as [|b bs] eqn:Eub.
    + apply Htick.
      destruct (bot_in s) eqn:Ebi; [|left; discriminate].
      destruct (tr_in s) eqn:Eti; [|right; left; discriminate].
      destruct (top_in s) eqn:Etop; [|right; right; right; discriminate].
      right; right; left.
      (* the rank is positive, so some request is waiting in a transaction *)
      assert (Hwt : waiting (txs s) <> []).
      { intros E. unfold rank in Hpos. rewrite Eto, Ebo, Exo, Eun, Eub, Ebi, Eti, Etop, E in Hpos.
        cbn in Hpos. lia. }
      destruct (txs s) as [|t0 l0] eqn:Etx; [now rewrite waiting_nil in Hwt|].
      assert (Hex : exists t, In t (txs s) /\ t_reqs t <> []).
      { pose proof (i_txs s H) as Hok. rewrite Forall_forall in Hok. exists t0.
        rewrite Etx. split; [now left|]. apply (Hok t0). rewrite Etx. now left. }
      destruct Hex as (t & Hin & Hne). rewrite <- Etx.
      destruct (is_done t) eqn:Hd.
      * apply (drainable_exists _ t); auto. unfold drainable. rewrite Hd.
        destruct (t_reqs t); [congruence|reflexivity].
      * exfalso. apply (open_tx_pending s t H L Hin Hd Exo Eti Eun).
    + destruct (room _ (bot_in s)) eqn:Er.
      * apply (deliver_bot_lt s (mem_rsp b) b); auto using mem_rsp_rspto. rewrite Eub. now left.
      * apply Htick. left. apply (room_false_nonempty (width (cfg s))); auto.
  - destruct (room _ (tr_in s)) eqn:Er.
    + apply (deliver_tr_lt s (tr_rsp oracle q) q); auto. rewrite Eun. now left.
    + apply Htick. right; left. apply (room_false_nonempty (width (cfg s))); auto.
Qed.

Lemma fair_next_polite oracle s : polite s (fair_next oracle s).
Proof.
  unfold fair_next.
  destruct (top_out s); [|exact I]. destruct (bot_out s); [|exact I]. destruct (tr_out s); [|exact I].
  destruct (un_tr s) as [|q qs] eqn:Eun.
  - destruct (un_bot s) as [|b bs] eqn:Eub; [exact I|].
    destruct (room _ _); [|exact I]. cbn. rewrite mem_rsp_rspto, mem_rsp_is_rsp. split; auto.
    apply in_map. apply (un_bot_In s b). rewrite Eub. now left.
  - destruct (room _ _); [|exact I]. cbn. apply in_map. apply (un_tr_In s q). rewrite Eun. now left.
Qed.

(** * without control traffic nothing is discarded and the mode does not change *)
Definition taken (s : st) : list msg := accepted (g_seen s) ++ top_in s.
Definition calm (s s' : st) : Prop :=
  ctl_in s' = ctl_in s /\ flushing s' = flushing s /\ g_disc s' = g_disc s /\
  g_idisc s' = g_idisc s /\ cfg s' = cfg s /\ incl (taken s) (taken s').
Lemma calm_refl s : calm s s. Proof. repeat split. apply incl_refl. Qed.
Lemma calm_trans a b c : calm a b -> calm b c -> calm a c.
Proof.
  unfold calm. intros (A1 & A2 & A3 & A4 & A5 & A6) (B1 & B2 & B3 & B4 & B5 & B6).
  repeat split; try congruence. eapply incl_tran; eauto.
Qed.

Ltac calm_same := repeat split; try reflexivity; unfold taken; cbn; apply incl_refl.
Ltac crush_calm :=
  repeat match goal with
         | |- context [match ?x with _ => _ end] => destruct x
         end; cbn; try apply calm_refl; try calm_same.

Lemma translate_calm s : calm s (fst (translate s)).
Proof.
  unfold translate. destruct (top_in s) as [|req rest] eqn:Etop; [apply calm_refl|].
  destruct (negb (is_req req)); [calm_same|].
  assert (Hmove : incl (accepted (g_seen s) ++ req :: rest)
                       (accepted (g_seen s ++ [(req, true)]) ++ rest)).
  { rewrite accepted_app. change (accepted [(req, true)]) with [req].
    rewrite <- app_assoc. apply incl_refl. }
  destruct (split_first _ (txs s)) as [[[a t] b]|].
  - destruct (t_reqs t); [calm_same|].
    repeat split; try reflexivity. unfold taken; cbn. now rewrite Etop.
  - destruct (room _ _); [|apply calm_refl].
    repeat split; try reflexivity. unfold taken; cbn. now rewrite Etop.
Qed.
Lemma parse_translation_calm s : calm s (fst (parse_translation s)).
Proof. unfold parse_translation, send_down. crush_calm. Qed.
Lemma respond_calm s : calm s (fst (respond s)).
Proof. unfold respond. crush_calm. Qed.

Lemma guard_calm f s : (forall s, calm s (fst (f s))) -> calm s (fst (guard f s)).
Proof. intros Hf. unfold guard. destruct (crashed s); [apply calm_refl|apply Hf]. Qed.
Lemma iter_calm f : (forall s, calm s (fst (f s))) -> forall n s, calm s (fst (iter n f s)).
Proof.
  intros Hf; induction n as [|n IH]; intros s; cbn; [apply calm_refl|].
  pose proof (guard_calm f s Hf) as H1. destruct (guard f s) as [s1 p1]; cbn in H1.
  specialize (IH s1). destruct (iter n f s1) as [s2 p2]; cbn in *. eapply calm_trans; eauto.
Qed.

Lemma tick_calm s : ctl_in s = [] -> calm s (fst (tick s)).
Proof.
  intros Hctl. unfold tick.
  assert (H1 : calm s (fst (if flushing s then iter (width (cfg s)) parse_translation s
                            else run_pipeline s))).
  { destruct (flushing s); [apply iter_calm, parse_translation_calm|].
    unfold run_pipeline.
    pose proof (iter_calm _ respond_calm (width (cfg s)) s) as H1.
    destruct (iter (width (cfg s)) respond s) as [s1 p1]; cbn in H1.
    pose proof (iter_calm _ parse_translation_calm (width (cfg s)) s1) as H2.
    destruct (iter (width (cfg s)) parse_translation s1) as [s2 p2]; cbn in H2.
    pose proof (iter_calm _ translate_calm (width (cfg s)) s2) as H3.
    destruct (iter (width (cfg s)) translate s2) as [s3 p3]; cbn in *.
    eauto using calm_trans. }
  destruct (if flushing s then _ else _) as [s1 p1]; cbn in H1.
  assert (H2 : calm s1 (fst (guard handle_ctrl s1))).
  { unfold guard. destruct (crashed s1); [apply calm_refl|].
    unfold handle_ctrl. destruct H1 as (E & _). rewrite E, Hctl. apply calm_refl. }
  destruct (guard handle_ctrl s1) as [s2 p2]; cbn in *. eapply calm_trans; eauto.
Qed.

Definition no_ctl (e : ev) : Prop := match e with EDeliverCtl _ => False | _ => True end.

Lemma step_calm s e : ctl_in s = [] -> no_ctl e -> calm s (fst (step s e)).
Proof.
  intros Hctl Hn. unfold step. destruct (crashed s); [apply calm_refl|].
  destruct e as [m|m|r|m| | | | | ]; cbn in Hn; try tauto.
  - destruct (room _ _); [|apply calm_refl]. repeat split; try reflexivity.
    unfold taken; cbn. rewrite app_assoc. now apply incl_appl.
  - destruct (room _ _); [calm_same|apply calm_refl].
  - destruct (room _ _); [calm_same|apply calm_refl].
  - pose proof (tick_calm s Hctl) as H1. destruct (tick s) as [s' p]; cbn in H1.
    destruct (crashed s'); exact H1.
  - destruct (top_out s); [apply calm_refl|calm_same].
  - destruct (bot_out s); [apply calm_refl|calm_same].
  - destruct (tr_out s); [apply calm_refl|calm_same].
  - destruct (ctl_out s); [apply calm_refl|calm_same].
Qed.

Lemma fair_next_no_ctl oracle s : no_ctl (fair_next oracle s).
Proof.
  unfold fair_next.
  repeat match goal with |- context [match ?x with _ => _ end] => destruct x end; exact I.
Qed.

(** * rank zero: everything has been forwarded, answered and retrieved *)
Lemma rank_zero s :
  Inv s -> Live s -> rank s = 0%nat ->
  top_in s = [] /\ txs s = [] /\ inflight s = [] /\ tr_out s = [] /\ tr_in s = [] /\
  bot_out s = [] /\ bot_in s = [] /\ top_out s = [].
Proof.
  intros H L Hz. unfold rank in Hz.
  assert (Z : forall {A} (l : list A), length l = 0%nat -> l = []) by (intros A l; destruct l; cbn; auto; lia).
  assert (E1 : top_in s = []) by (apply Z; lia).
  assert (E2 : waiting (txs s) = []) by (apply Z; lia).
  assert (E3 : tr_out s = []) by (apply Z; lia).
  assert (E4 : un_tr s = []) by (apply Z; lia).
  assert (E5 : tr_in s = []) by (apply Z; lia).
  assert (E6 : bot_out s = []) by (apply Z; lia).
  assert (E7 : un_bot s = []) by (apply Z; lia).
  assert (E8 : bot_in s = []) by (apply Z; lia).
  assert (E9 : top_out s = []) by (apply Z; lia).
  assert (Et : txs s = []).
  { destruct (txs s) as [|t l] eqn:Etx; auto. exfalso.
    pose proof (i_txs s H) as Hok. rewrite Etx in Hok. inversion Hok as [|? ? (Hne & _) _]; subst.
    rewrite waiting_cons in E2. destruct (t_reqs t); [congruence|discriminate]. }
  repeat split; auto.
  destruct (inflight s) as [|p l] eqn:Ei; auto. exfalso.
  assert (Hin : In p (inflight s)) by (rewrite Ei; now left).
  pose proof (inflight_fwd s p H Hin) as Hb. pose proof H as H0. inv_split H0. live_split L.
  rewrite <- Hbretr, E6, app_nil_r in Hb.
  assert (Ha : answered_bot s (m_id (snd p)) = true).
  { destruct (answered_bot s (m_id (snd p))) eqn:E; auto. exfalso.
    assert (Hu : In (snd p) (un_bot s)).
    { unfold un_bot. apply filter_In. split; auto. now rewrite E. }
    rewrite E7 in Hu. destruct Hu. }
  apply existsb_In_rspto_bot in Ha. rewrite <- Hbcons, E8, app_nil_r in Ha.
  now apply (Li p Hin).
Qed.

Lemma quiet_all_answered s r :
  Inv s -> txs s = [] -> inflight s = [] -> In r (accepted (g_seen s)) ->
  In r (g_disc s) \/ (exists b, In (r, b) (g_idisc s)) \/
  (exists a, In a (g_ans s) /\ a_top a = r /\ In (a_out a) (g_tretr s ++ top_out s)).
Proof.
  intros H Et Ei Hin. inv_split H. rewrite Et, waiting_nil, app_nil_r in Hacct.
  rewrite Ei, app_nil_r in Hpairs.
  eapply Permutation_in in Hin; [|exact Hacct].
  apply in_app_or in Hin as [Hin|Hin]; [|now left]. right.
  apply in_map_iff in Hin as (f & <- & Hf).
  assert (Hp : In (pair_f f) (map pair_a (g_ans s) ++ g_idisc s)).
  { eapply Permutation_in; [exact Hpairs|]. now apply in_map. }
  apply in_app_or in Hp as [Hp|Hp].
  - right. apply in_map_iff in Hp as (a & Ea & Ha). exists a. unfold pair_a, pair_f in Ea.
    inversion Ea. repeat split; auto. rewrite Htretr. now apply in_map.
  - left. exists (f_bot f). exact Hp.
Qed.

(** * the fair environment drains the translator within [rank s] actions *)
Lemma fair_run oracle : forall n s,
  Inv s -> Live s -> flushing s = false -> ctl_in s = [] -> (1 <= width (cfg s))%nat ->
  (rank s <= n)%nat ->
  let evs := fair_evs oracle n s in
  let s' := run s evs in
  (length evs <= rank s)%nat /\ polite_run s evs /\ rank s' = 0%nat /\
  Inv s' /\ Live s' /\ calm s s'.
Proof.
  induction n as [|n IH]; intros s H L Hf Hctl Hw Hle; cbn [fair_evs].
  - cbn. split; [|split; [|split; [|split; [|split]]]]; auto using calm_refl; lia.
  - destruct (Nat.eqb (rank s) 0) eqn:Ez.
    { apply Nat.eqb_eq in Ez. cbn.
      split; [|split; [|split; [|split; [|split]]]]; auto using calm_refl; lia. }
    apply Nat.eqb_neq in Ez.
    set (e := fair_next oracle s). set (s1 := fst (step s e)).
    pose proof (fair_next_polite oracle s) as Hp. fold e in Hp.
    pose proof (fair_next_lt oracle s H L Hf Hw ltac:(lia)) as Hlt. fold e s1 in Hlt.
    pose proof (step_inv s e H) as H1. pose proof (step_live s e H L Hp) as L1. fold s1 in H1, L1.
    pose proof (step_calm s e Hctl (fair_next_no_ctl oracle s)) as C1. fold s1 in C1.
    pose proof C1 as C1'. destruct C1 as (Ec & Efl & Ed & Ei & Ecfg & Etk).
    assert (Hf1 : flushing s1 = false) by congruence.
    assert (Hctl1 : ctl_in s1 = []) by congruence.
    assert (Hw1 : (1 <= width (cfg s1))%nat) by (rewrite Ecfg; exact Hw).
    specialize (IH s1 H1 L1 Hf1 Hctl1 Hw1 ltac:(lia)).
    destruct IH as (Hlen & Hpol & Hz & Hinv & Hlive & Hcalm).
    change (run s (e :: fair_evs oracle n s1)) with (run s1 (fair_evs oracle n s1)).
    split; [|split; [|split; [|split; [|split]]]]; auto.
    + cbn [length]. lia.
    + split; auto.
    + eapply calm_trans; [exact C1'|exact Hcalm].
Qed.

Lemma every_request_answered oracle s :
  Inv s -> Live s -> flushing s = false -> ctl_in s = [] -> (1 <= width (cfg s))%nat ->
  let evs := fair_evs oracle (rank s) s in
  let s' := run s evs in
  (length evs <= rank s)%nat /\ polite_run s evs /\
  top_in s' = [] /\ txs s' = [] /\ inflight s' = [] /\ top_out s' = [] /\ bot_out s' = [] /\
  (forall r, In r (accepted (g_seen s) ++ top_in s) -> In r (accepted (g_seen s'))) /\
  (forall r, In r (accepted (g_seen s')) ->
     In r (g_disc s) \/ (exists b, In (r, b) (g_idisc s)) \/
     (exists a, In a (g_ans s') /\ a_top a = r /\ In (a_out a) (g_tretr s'))).
Proof.
  intros H L Hf Hctl Hw evs s'.
  destruct (fair_run oracle (rank s) s H L Hf Hctl Hw (le_n _)) as (Hlen & Hpol & Hz & H' & L' & C).
  fold evs in Hlen, Hpol. fold evs s' in Hz, H', L', C.
  destruct (rank_zero s' H' L' Hz) as (E1 & E2 & E3 & E4 & E5 & E6 & E7 & E8).
  destruct C as (_ & _ & Ed & Ei & _ & Etk).
  split; [|split; [|split; [|split; [|split; [|split; [|split; [|split]]]]]]]; auto.
  - (* what was accepted stays accepted and what waited in the top port has been
       taken: no restart ran, so nothing was dropped *)
    intros r Hr. apply Etk in Hr. unfold taken in Hr. now rewrite E1, app_nil_r in Hr.
  - intros r Hr. destruct (quiet_all_answered s' r H' E2 E3 Hr) as [Hd|[Hd|(a & Ha & Et & Ho)]].
    + left. congruence.
    + right; left. destruct Hd as (b & Hb). exists b. congruence.
    + right; right. exists a. repeat split; auto. now rewrite E8, app_nil_r in Ho.
Qed.

(** * any interleaving of fair actions keeps the bound: the rank never increases *)
Definition fair_action (s : st) (e : ev) : Prop :=
  match e with
  | EDeliverTop _ | EDeliverCtl _ => False
  | EDeliverTr r => exists q, In q (un_tr s) /\ r_rspto r = q_id q
  | EDeliverBot x => exists b, In b (un_bot s) /\ m_rspto x = m_id b
  | _ => True
  end.

Lemma rank_monotone s e : fair_action s e -> (rank (fst (step s e)) <= rank s)%nat.
Proof.
  intros Hfa. destruct (crashed s) eqn:Hc; [unfold step; rewrite Hc; cbn; lia|].
  destruct e as [m|m|r|m| | | | | ]; cbn in Hfa; try tauto.
  - destruct Hfa as (b & Hb & Hid).
    destruct (room (width (cfg s)) (bot_in s)) eqn:Er.
    + pose proof (deliver_bot_lt s m b Hc Hb Hid Er). lia.
    + unfold step. rewrite Hc, Er. cbn. lia.
  - destruct Hfa as (q & Hq & Hid).
    destruct (room (width (cfg s)) (tr_in s)) eqn:Er.
    + pose proof (deliver_tr_lt s r q Hc Hq Hid Er). lia.
    + unfold step. rewrite Hc, Er. cbn. lia.
  - pose proof (tick_rank s) as H1. unfold step. rewrite Hc.
    destruct (tick s) as [s' p]; cbn in *. destruct (crashed s'); exact H1.
  - destruct (top_out s) eqn:E; [unfold step; rewrite Hc, E; cbn; lia|].
    pose proof (retr_top_lt s Hc). rewrite E in H. specialize (H ltac:(discriminate)). lia.
  - destruct (bot_out s) eqn:E; [unfold step; rewrite Hc, E; cbn; lia|].
    pose proof (retr_bot_lt s Hc). rewrite E in H. specialize (H ltac:(discriminate)). lia.
  - destruct (tr_out s) eqn:E; [unfold step; rewrite Hc, E; cbn; lia|].
    pose proof (retr_tr_lt s Hc). rewrite E in H. specialize (H ltac:(discriminate)). lia.
  - unfold step. rewrite Hc. destruct (ctl_out s); [cbn; lia|]. rk. lia.
Qed.

(** * the guard on restarts is exact: weaken it and liveness fails *)
Definition polite_weak (s : st) (e : ev) : Prop :=
  match e with
  | EDeliverCtl m => ctl_okb m = true
  | _ => polite s e
  end.

Fixpoint polite_weak_run (s : st) (evs : list ev) : Prop :=
  match evs with
  | [] => True
  | e :: r => polite_weak s e /\ polite_weak_run (fst (step s e)) r
  end.

(** what the fair drain achieves from [s] *)
Definition drained_and_answered (oracle : N -> N -> N) (s : st) : Prop :=
  let s' := run s (fair_evs oracle (rank s) s) in
  forall r, In r (accepted (g_seen s')) ->
    In r (g_disc s) \/ (exists b, In (r, b) (g_idisc s)) \/
    (exists a, In a (g_ans s') /\ a_top a = r /\ In (a_out a) (g_tretr s')).
