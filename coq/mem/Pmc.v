(** Executable model of amd/timing/pagemigrationcontroller/pmc.go (one
    PageMigrationController with its three akita ports) and of a system of TWO
    controllers, two byte stores and the channels between them.  The
    environment chooses every delivery, delay, reordering and refusal.
    Definitions only; proofs are in PmcProofs.v. *)
From Coq Require Export List NArith ZArith Bool Lia.
Export ListNotations.
From RecordUpdate Require Import RecordSet.
Import RecordSetNotations.
Open Scope N_scope.

(** * Messages (pmcprotocol.go and the two akita memory messages it uses) *)

(** Message identifiers.  Go draws them from one global generator; only their
    uniqueness matters.  The model uses (remote-port name of the creating
    controller, running number). *)
Definition id := (N * N)%type.
Definition id_eqb (a b : id) : bool := (fst a =? fst b) && (snd a =? snd b).

Record migreq := mkMigReq {   (* PageMigrationReqToPMC *)
  mg_src : N; mg_dst : N; mg_rd : N; mg_wr : N; mg_remote : N; mg_size : N }.
Record migrsp := mkMigRsp { ms_src : N; ms_dst : N }.          (* PageMigrationRspFromPMC *)
Record pullreq := mkPullReq {  (* DataPullReq *)
  pq_id : id; pq_src : N; pq_dst : N; pq_addr : N; pq_size : N }.
Record pullrsp := mkPullRsp {  (* DataPullRsp *)
  pr_id : id; pr_src : N; pr_dst : N; pr_data : list N }.
Record rdreq := mkRdReq {      (* mem.ReadReq *)
  rq_id : id; rq_src : N; rq_dst : N; rq_addr : N; rq_size : N }.
Record wrreq := mkWrReq {      (* mem.WriteReq; its own fresh ID is never used *)
  wq_src : N; wq_dst : N; wq_addr : N; wq_data : list N }.
Record dready := mkDReady {    (* mem.DataReadyRsp *)
  dr_src : N; dr_dst : N; dr_rspto : id; dr_data : list N }.
Record wdone := mkWDone { wd_src : N; wd_dst : N }.            (* mem.WriteDoneRsp *)

Inductive pmsg :=
| MMigReq (m : migreq) | MMigRsp (m : migrsp)
| MPullReq (m : pullreq) | MPullRsp (m : pullrsp)
| MRdReq (m : rdreq) | MWrReq (m : wrreq)
| MDReady (m : dready) | MWDone (m : wdone).

Definition msg_src (m : pmsg) : N :=
  match m with
  | MMigReq x => mg_src x | MMigRsp x => ms_src x | MPullReq x => pq_src x
  | MPullRsp x => pr_src x | MRdReq x => rq_src x | MWrReq x => wq_src x
  | MDReady x => dr_src x | MWDone x => wd_src x
  end.
Definition msg_dst (m : pmsg) : N :=
  match m with
  | MMigReq x => mg_dst x | MMigRsp x => ms_dst x | MPullReq x => pq_dst x
  | MPullRsp x => pr_dst x | MRdReq x => rq_dst x | MWrReq x => wq_dst x
  | MDReady x => dr_dst x | MWDone x => wd_dst x
  end.

(** * One controller *)

Record pmc := mkPmc {
  (* configuration: names of the own ports (0 is Go's empty string) and of the
     memory controller returned by MemCtrlFinder (a single-port mapper) *)
  n_remote : N; n_ctrl : N; n_local : N; n_mem : N;
  xfer : N;                       (* onDemandPagingDataTransferSize *)
  (* state, field by field as in pmc.go *)
  cur_mig : option migreq;        (* currentMigrationRequest *)
  cur_pull : list pullreq;        (* currentPullReqFromAnotherPMC *)
  to_pull : list pullreq;         (* toPullFromAnotherPMC *)
  to_read : list rdreq;           (* toSendLocalMemPort *)
  data_ready : list dready;       (* dataReadyRspFromMemCtrl *)
  to_rsp : list pullrsp;          (* toRspToAnotherPMC *)
  recv_data : list pullrsp;       (* receivedDataFromAnothePMC *)
  write_reqs : list wrreq;        (* writeReqLocalMemPort *)
  recv_wdone : option wdone;      (* receivedWriteDoneFromMemCtrl *)
  to_ctrl : option migrsp;        (* toSendToCtrlPort *)
  requester : N;                  (* requestingPMCtrlPort, ONE field *)
  num_pending : Z;                (* numDataRspPendingForPageMigration *)
  idmap : list (id * N);          (* reqIDToWriteAddressMap *)
  handling : bool;                (* isHandlingPageMigration *)
  next_id : N;                    (* stands for the global ID generator *)
  rem_in : list pmsg; rem_out : list pmsg;   (* remotePort buffers *)
  ctl_in : list pmsg; ctl_out : list pmsg;   (* ctrlPort buffers *)
  loc_in : list pmsg; loc_out : list pmsg;   (* localMemPort buffers *)
  crashed : bool                  (* a Go panic was reached *)
}.

#[export] Instance eta_pmc : Settable _ := settable! mkPmc
  <n_remote; n_ctrl; n_local; n_mem; xfer; cur_mig; cur_pull; to_pull; to_read;
   data_ready; to_rsp; recv_data; write_reqs; recv_wdone; to_ctrl; requester;
   num_pending; idmap; handling; next_id; rem_in; rem_out; ctl_in; ctl_out;
   loc_in; loc_out; crashed>.

(** NewPageMigrationController: every port is sim.NewPort(e, 1, 1, ...). *)
Definition PCAP : nat := 1.
Definition XFER : N := 64.

Definition init_pmc (remote ctrl loc memc : N) : pmc :=
  mkPmc remote ctrl loc memc XFER None [] [] [] [] [] [] [] None None 0 (-1)%Z []
        false 0 [] [] [] [] [] [] false.

Definition can_push (b : list pmsg) : bool := Nat.ltb (length b) PCAP.

(** defaultPort.Send panics (msgMustBeValid) before looking at the buffer when
    the destination is empty or equals the source. *)
Definition send_valid (m : pmsg) : bool :=
  negb (msg_dst m =? 0) && negb (msg_dst m =? msg_src m).

(** The five send loops: every element of the list is offered to the port in
    order; accepted ones leave the list, refused ones stay (order kept).
    Result: (out buffer, kept, progress, crashed). *)
Fixpoint send_all {T} (inj : T -> pmsg) (out : list pmsg) (l : list T)
  : list pmsg * list T * bool * bool :=
  match l with
  | [] => (out, [], false, false)
  | x :: r =>
    if negb (send_valid (inj x)) then (out, l, false, true)
    else if can_push out then
      let '(out', kept, _, c) := send_all inj (out ++ [inj x]) r in (out', kept, true, c)
    else
      let '(out', kept, p, c) := send_all inj out r in (out', x :: kept, p, c)
  end.

Definition is_nil {T} (l : list T) : bool := match l with [] => true | _ => false end.

(* 1 *)
Definition sendMigrationReqToAnotherPMC (s : pmc) : pmc * bool :=
  if is_nil (to_pull s) then (s, false) else
  let '(out, kept, p, c) := send_all MPullReq (rem_out s) (to_pull s) in
  (s <| rem_out := out |> <| to_pull := kept |> <| crashed := c |>, p).

(* 2 *)
Definition sendReadReqLocalMemPort (s : pmc) : pmc * bool :=
  if is_nil (to_read s) then (s, false) else
  let '(out, kept, p, c) := send_all MRdReq (loc_out s) (to_read s) in
  (s <| loc_out := out |> <| to_read := kept |> <| crashed := c |>, p).

(* 3 *)
Definition sendMigrationCompleteRspToCtrlPort (s : pmc) : pmc * bool :=
  match to_ctrl s with
  | None => (s, false)
  | Some r =>
    if negb (send_valid (MMigRsp r)) then (s <| crashed := true |>, false)
    else if can_push (ctl_out s) then
      (s <| ctl_out := ctl_out s ++ [MMigRsp r] |> <| handling := false |>
         <| cur_mig := None |> <| to_ctrl := None |>, true)
    else (s, false)
  end.

(* 4 *)
Definition sendDataReadyRspToRequestingPMC (s : pmc) : pmc * bool :=
  if is_nil (to_rsp s) then (s, false) else
  let '(out, kept, p, c) := send_all MPullRsp (rem_out s) (to_rsp s) in
  (s <| rem_out := out |> <| to_rsp := kept |> <| crashed := c |>, p).

(* 5 *)
Definition sendWriteReqLocalMemPort (s : pmc) : pmc * bool :=
  let '(out, kept, p, c) := send_all MWrReq (loc_out s) (write_reqs s) in
  (s <| loc_out := out |> <| write_reqs := kept |> <| crashed := c |>, p).

(* 6: processFromOutside, handleDataPullReq, handleDataPullRsp *)
Definition processFromOutside (s : pmc) : pmc * bool :=
  match rem_in s with
  | [] => (s, false)
  | MPullReq q :: rest =>
    (s <| rem_in := rest |> <| cur_pull := cur_pull s ++ [q] |>
       <| requester := pq_src q |>, true)
  | MPullRsp r :: rest =>
    (s <| recv_data := recv_data s ++ [r] |> <| rem_in := rest |>, true)
  | _ :: _ => (s <| crashed := true |>, false)
  end.

(* 7: processFromCtrlPort, handleMigrationReqFromCtrlPort *)
Definition processFromCtrlPort (s : pmc) : pmc * bool :=
  if handling s then (s, false) else
  match ctl_in s with
  | [] => (s, false)
  | MMigReq r :: rest => (s <| ctl_in := rest |> <| cur_mig := Some r |>, true)
  | _ :: rest => (s <| ctl_in := rest |> <| crashed := true |>, false)
  end.

(* 8: processFromMemCtrl and the two handlers *)
Definition processFromMemCtrl (s : pmc) : pmc * bool :=
  match loc_in s with
  | [] => (s, false)
  | MDReady d :: rest =>
    (s <| loc_in := rest |> <| data_ready := data_ready s ++ [d] |>, true)
  | MWDone w :: rest =>
    (s <| loc_in := rest |> <| recv_wdone := Some w |>, true)
  | _ :: rest => (s <| loc_in := rest |> <| crashed := true |>, false)
  end.

(* 9: the loop of processPageMigrationReqFromCtrlPort *)
Fixpoint gen_pulls (n : nat) (own dest : N) (sz : N) (nid rd wr : N)
  : list pullreq * list (id * N) :=
  match n with
  | O => ([], [])
  | S n' =>
    let '(ps, ws) := gen_pulls n' own dest sz (nid + 1) (rd + sz) (wr + sz) in
    (mkPullReq (own, nid) own dest rd sz :: ps, ((own, nid), wr) :: ws)
  end.

(** Go map semantics on an association list: lookup finds the first binding,
    insertion shadows, delete removes every binding of the key. *)
Fixpoint lookup (k : id) (m : list (id * N)) : option N :=
  match m with
  | [] => None
  | (k', v) :: r => if id_eqb k k' then Some v else lookup k r
  end.
Definition delete (k : id) (m : list (id * N)) : list (id * N) :=
  filter (fun kv => negb (id_eqb k (fst kv))) m.
(** inserting the generated bindings one after the other, first first *)
Definition insert_all (ws m : list (id * N)) : list (id * N) := rev ws ++ m.

Definition processPageMigrationReqFromCtrlPort (s : pmc) : pmc * bool :=
  match cur_mig s with
  | None => (s, false)
  | Some r =>
    if handling s then (s, false) else
    let n := mg_size r / xfer s in
    let '(ps, ws) := gen_pulls (N.to_nat n) (n_remote s) (mg_remote r) (xfer s)
                               (next_id s) (mg_rd r) (mg_wr r) in
    (s <| num_pending := Z.of_N n |> <| to_pull := to_pull s ++ ps |>
       <| idmap := insert_all ws (idmap s) |> <| next_id := next_id s + n |>
       <| handling := true |>, true)
  end.

(* 10 *)
Definition mk_read (s : pmc) (q : pullreq) : rdreq :=
  mkRdReq (pq_id q) (n_local s) (n_mem s) (pq_addr q) (pq_size q).
Definition processReadPageReqFromAnotherPMC (s : pmc) : pmc * bool :=
  if is_nil (cur_pull s) then (s, false) else
  (s <| to_read := to_read s ++ map (mk_read s) (cur_pull s) |> <| cur_pull := [] |>, true).

(* 11 *)
Definition mk_rsp (s : pmc) (d : dready) : pullrsp :=
  mkPullRsp (dr_rspto d) (n_remote s) (requester s) (dr_data d).
Definition processDataReadyRspFromMemCtrl (s : pmc) : pmc * bool :=
  if is_nil (data_ready s) then (s, false) else
  (s <| to_rsp := to_rsp s ++ map (mk_rsp s) (data_ready s) |> <| data_ready := [] |>, true).

(* 12: result (write requests, map, crashed) *)
Fixpoint pull_rsps (loc memc : N) (l : list pullrsp) (m : list (id * N))
  : list wrreq * list (id * N) * bool :=
  match l with
  | [] => ([], m, false)
  | r :: rest =>
    match lookup (pr_id r) m with
    | None => ([], m, true)            (* "We do not know where ..." *)
    | Some a =>
      let '(ws, m', c) := pull_rsps loc memc rest (delete (pr_id r) m) in
      (mkWrReq loc memc a (pr_data r) :: ws, m', c)
    end
  end.
Definition processDataPullRsp (s : pmc) : pmc * bool :=
  if is_nil (recv_data s) then (s, false) else
  let '(ws, m', c) := pull_rsps (n_local s) (n_mem s) (recv_data s) (idmap s) in
  if c then (s <| crashed := true |>, false) else
  (s <| write_reqs := write_reqs s ++ ws |> <| idmap := m' |> <| recv_data := [] |>, true).

(* 13 *)
Definition processWriteDoneRspFromMemCtrl (s : pmc) : pmc * bool :=
  match recv_wdone s with
  | None => (s, false)
  | Some _ =>
    let np := (num_pending s - 1)%Z in
    let s1 := s <| num_pending := np |> <| recv_wdone := None |> in
    if (np <? 0)%Z then (s1 <| crashed := true |>, false)    (* "Not possible" *)
    else if (np =? 0)%Z then
      match cur_mig s with
      | None => (s1 <| crashed := true |>, false)            (* nil dereference *)
      | Some r =>
        (s1 <| to_ctrl := Some (mkMigRsp (n_ctrl s) (mg_src r)) |>
            <| cur_mig := None |> <| num_pending := (-1)%Z |>, true)
      end
    else (s1, true)
  end.

(** A panic aborts the tick. *)
Definition andthen (f g : pmc -> pmc * bool) (s : pmc) : pmc * bool :=
  let '(s1, p1) := f s in
  if crashed s1 then (s1, p1) else
  let '(s2, p2) := g s1 in (s2, p1 || p2).

Definition stages : list (pmc -> pmc * bool) :=
  [ sendMigrationReqToAnotherPMC; sendReadReqLocalMemPort;
    sendMigrationCompleteRspToCtrlPort; sendDataReadyRspToRequestingPMC;
    sendWriteReqLocalMemPort; processFromOutside; processFromCtrlPort;
    processFromMemCtrl; processPageMigrationReqFromCtrlPort;
    processReadPageReqFromAnotherPMC; processDataReadyRspFromMemCtrl;
    processDataPullRsp; processWriteDoneRspFromMemCtrl ].

Definition tick (s : pmc) : pmc * bool :=
  fold_right andthen (fun s => (s, false)) stages s.

(** * Byte stores *)
Definition store := N -> N.
Definition read (st : store) (addr size : N) : list N :=
  map (fun j => st (addr + N.of_nat j)) (seq 0 (N.to_nat size)).
Definition write (st : store) (addr : N) (data : list N) : store :=
  fun a => if (addr <=? a) && (a <? addr + N.of_nat (length data))
           then nth (N.to_nat (a - addr)) data 0 else st a.

(** * Two controllers, two memories, channels *)
Inductive who := PA | PB.

Record sys := mkSys {
  pa : pmc; pb : pmc;
  sta : store; stb : store;          (* GPU memories *)
  mqa : list pmsg; mqb : list pmsg;  (* requests that reached a memory, unanswered *)
  mra : list pmsg; mrb : list pmsg;  (* replies on their way back to the local port *)
  net : list pmsg;                   (* messages between the remote ports *)
  (* ghost logs: never read by a transition *)
  g_acc : list migreq;               (* requests accepted by A's control port, in order *)
  g_done : list pmsg;                (* messages taken from A's control port, in order *)
  g_accb : list migreq;              (* the same for B *)
  g_doneb : list pmsg
}.
#[export] Instance eta_sys : Settable _ := settable! mkSys
  <pa; pb; sta; stb; mqa; mqb; mra; mrb; net; g_acc; g_done; g_accb; g_doneb>.

Definition getp (w : who) (s : sys) : pmc := match w with PA => pa s | PB => pb s end.
Definition setp (w : who) (p : pmc) (s : sys) : sys :=
  match w with PA => s <| pa := p |> | PB => s <| pb := p |> end.
Definition getmq w s := match w with PA => mqa s | PB => mqb s end.
Definition setmq w v (s : sys) := match w with PA => s <| mqa := v |> | PB => s <| mqb := v |> end.
Definition getmr w s := match w with PA => mra s | PB => mrb s end.
Definition setmr w v (s : sys) := match w with PA => s <| mra := v |> | PB => s <| mrb := v |> end.
Definition getst w s := match w with PA => sta s | PB => stb s end.
Definition setst w v (s : sys) := match w with PA => s <| sta := v |> | PB => s <| stb := v |> end.

Inductive ev :=
| ETick (w : who)
| ESendRemote (w : who)          (* connection takes the head of the remote out buffer *)
| EDeliverRemote (k : nat)       (* k-th message of the network reaches its port *)
| ESendLocal (w : who)           (* head of the local out buffer reaches the memory *)
| EMemServe (w : who) (k : nat)  (* memory answers its k-th pending request *)
| EDeliverLocal (w : who) (k : nat)
| ECtrlReq (w : who) (m : migreq)(* the command processor offers a request *)
| ETakeCtrl (w : who)            (* ... and takes the head of the control out buffer *)
| EInject (m : pmsg).            (* a third party puts a message on the network (never
                                    part of the two-controller environment of the theorems) *)

Inductive obs := OAcc (b : bool) | OTick (progress : bool) | OMsg (m : option pmsg) | OCrash.

Fixpoint remove_nth {T} (k : nat) (l : list T) : list T :=
  match k, l with
  | _, [] => []
  | O, _ :: r => r
  | S k', x :: r => x :: remove_nth k' r
  end.

Definition mem_serve (st : store) (m : pmsg) : option (store * pmsg) :=
  match m with
  | MRdReq q => Some (st, MDReady (mkDReady (rq_dst q) (rq_src q) (rq_id q)
                                            (read st (rq_addr q) (rq_size q))))
  | MWrReq q => Some (write st (wq_addr q) (wq_data q), MWDone (mkWDone (wq_dst q) (wq_src q)))
  | _ => None
  end.

Definition step (s : sys) (e : ev) : sys * obs :=
  if crashed (pa s) || crashed (pb s) then (s, OCrash) else
  match e with
  | ETick w =>
    let '(p, pr) := tick (getp w s) in
    (setp w p s, if crashed p then OCrash else OTick pr)
  | ESendRemote w =>
    match rem_out (getp w s) with
    | [] => (s, OMsg None)
    | m :: r => (setp w (getp w s <| rem_out := r |>) s <| net := net s ++ [m] |>, OMsg (Some m))
    end
  | EDeliverRemote k =>
    match nth_error (net s) k with
    | None => (s, OAcc false)
    | Some m =>
      let to (w : who) :=
        if can_push (rem_in (getp w s))
        then (setp w (getp w s <| rem_in := rem_in (getp w s) ++ [m] |>) s
                <| net := remove_nth k (net s) |>, OAcc true)
        else (s, OAcc false) in
      if msg_dst m =? n_remote (pa s) then to PA
      else if msg_dst m =? n_remote (pb s) then to PB
      else (s, OAcc false)
    end
  | ESendLocal w =>
    match loc_out (getp w s) with
    | [] => (s, OMsg None)
    | m :: r => (setmq w (getmq w s ++ [m]) (setp w (getp w s <| loc_out := r |>) s), OMsg (Some m))
    end
  | EMemServe w k =>
    match nth_error (getmq w s) k with
    | None => (s, OMsg None)
    | Some m =>
      match mem_serve (getst w s) m with
      | None => (s, OMsg None)
      | Some (st', rsp) =>
        (setmr w (getmr w s ++ [rsp]) (setmq w (remove_nth k (getmq w s)) (setst w st' s)),
         OMsg (Some rsp))
      end
    end
  | EDeliverLocal w k =>
    match nth_error (getmr w s) k with
    | None => (s, OAcc false)
    | Some m =>
      if can_push (loc_in (getp w s))
      then (setmr w (remove_nth k (getmr w s))
              (setp w (getp w s <| loc_in := loc_in (getp w s) ++ [m] |>) s), OAcc true)
      else (s, OAcc false)
    end
  | ECtrlReq w m =>
    if can_push (ctl_in (getp w s))
    then (let s1 := setp w (getp w s <| ctl_in := ctl_in (getp w s) ++ [MMigReq m] |>) s in
          match w with PA => s1 <| g_acc := g_acc s ++ [m] |> | PB => s1 <| g_accb := g_accb s ++ [m] |> end, OAcc true)
    else (s, OAcc false)
  | ETakeCtrl w =>
    match ctl_out (getp w s) with
    | [] => (s, OMsg None)
    | m :: r =>
      (let s1 := setp w (getp w s <| ctl_out := r |>) s in
       match w with PA => s1 <| g_done := g_done s ++ [m] |> | PB => s1 <| g_doneb := g_doneb s ++ [m] |> end, OMsg (Some m))
    end
  | EInject m => (s <| net := net s ++ [m] |>, OAcc true)
  end.

Definition run (s : sys) (evs : list ev) : sys := fold_left (fun s e => fst (step s e)) evs s.

Fixpoint run_obs (s : sys) (evs : list ev) : list obs :=
  match evs with
  | [] => []
  | e :: r => let '(s', o) := step s e in o :: run_obs s' r
  end.

(** Port names used by the harness (and by every closed example). *)
Definition RA : N := 1.  Definition CA : N := 2.  Definition LA : N := 3.  Definition MA : N := 4.
Definition RB : N := 5.  Definition CB : N := 6.  Definition LB : N := 7.  Definition MB : N := 8.
Definition CP_A : N := 9. Definition CP_B : N := 10.

Definition init_sys (a b : pmc) (sa sb : store) : sys :=
  mkSys a b sa sb [] [] [] [] [] [] [] [] [].

Definition std_sys (sa sb : store) : sys :=
  init_sys (init_pmc RA CA LA MA) (init_pmc RB CB LB MB) sa sb.

(** * Correspondence with recorded runs of the two real controllers *)
Definition list_eqb {A} (eqb : A -> A -> bool) :=
  fix go (a b : list A) : bool :=
    match a, b with
    | [], [] => true
    | x :: a', y :: b' => eqb x y && go a' b'
    | _, _ => false
    end.

Definition pmsg_eqb (a b : pmsg) : bool :=
  match a, b with
  | MMigReq x, MMigReq y =>
    (mg_src x =? mg_src y) && (mg_dst x =? mg_dst y) && (mg_rd x =? mg_rd y) &&
    (mg_wr x =? mg_wr y) && (mg_remote x =? mg_remote y) && (mg_size x =? mg_size y)
  | MMigRsp x, MMigRsp y => (ms_src x =? ms_src y) && (ms_dst x =? ms_dst y)
  | MPullReq x, MPullReq y =>
    id_eqb (pq_id x) (pq_id y) && (pq_src x =? pq_src y) && (pq_dst x =? pq_dst y) &&
    (pq_addr x =? pq_addr y) && (pq_size x =? pq_size y)
  | MPullRsp x, MPullRsp y =>
    id_eqb (pr_id x) (pr_id y) && (pr_src x =? pr_src y) && (pr_dst x =? pr_dst y) &&
    list_eqb N.eqb (pr_data x) (pr_data y)
  | MRdReq x, MRdReq y =>
    id_eqb (rq_id x) (rq_id y) && (rq_src x =? rq_src y) && (rq_dst x =? rq_dst y) &&
    (rq_addr x =? rq_addr y) && (rq_size x =? rq_size y)
  | MWrReq x, MWrReq y =>
    (wq_src x =? wq_src y) && (wq_dst x =? wq_dst y) && (wq_addr x =? wq_addr y) &&
    list_eqb N.eqb (wq_data x) (wq_data y)
  | MDReady x, MDReady y =>
    (dr_src x =? dr_src y) && (dr_dst x =? dr_dst y) && id_eqb (dr_rspto x) (dr_rspto y) &&
    list_eqb N.eqb (dr_data x) (dr_data y)
  | MWDone x, MWDone y => (wd_src x =? wd_src y) && (wd_dst x =? wd_dst y)
  | _, _ => false
  end.

Definition obs_eqb (a b : obs) : bool :=
  match a, b with
  | OAcc x, OAcc y => Bool.eqb x y
  | OTick x, OTick y => Bool.eqb x y
  | OMsg None, OMsg None => true
  | OMsg (Some x), OMsg (Some y) => pmsg_eqb x y
  | OCrash, OCrash => true
  | _, _ => false
  end.

(** initial contents of the harness memories *)
Definition gen_store (k c : N) : store := fun a => ((a * k) mod 8191 + c) mod 256.

(** position-weighted checksum of [lo, lo+len) *)
Definition checksum (st : store) (lo : N) (len : nat) : N :=
  fold_left (fun acc j => (acc * 257 + st (lo + N.of_nat j) + 1) mod 2147483647)
            (seq 0 len) 0.

Record window := mkWin { w_who : who; w_lo : N; w_len : nat; w_sum : N }.

Record case := mkCase {
  c_ka : N; c_ca : N; c_kb : N; c_cb : N;
  c_trace : list (ev * obs);
  c_final : list window
}.

Fixpoint first_diff (i : N) (l1 l2 : list obs) : option N :=
  match l1, l2 with
  | [], [] => None
  | a :: l1', b :: l2' => if obs_eqb a b then first_diff (i + 1) l1' l2' else Some i
  | _, _ => Some i
  end.

(** index of the first differing observation; a wrong final window is
    reported as index 1000000 + window number *)
Definition check_case (c : case) : option N :=
  let s0 := std_sys (gen_store (c_ka c) (c_ca c)) (gen_store (c_kb c) (c_cb c)) in
  let evs := map fst (c_trace c) in
  match first_diff 0 (run_obs s0 evs) (map snd (c_trace c)) with
  | Some k => Some k
  | None =>
    let s := run s0 evs in
    let fix go (i : N) (ws : list window) : option N :=
      match ws with
      | [] => None
      | w :: r => if checksum (getst (w_who w) s) (w_lo w) (w_len w) =? w_sum w
                  then go (i + 1) r else Some (1000000 + i)
      end in
    go 0 (c_final c)
  end.

Fixpoint mismatches_from (i : N) (cs : list case) : list (N * N) :=
  match cs with
  | [] => []
  | c :: r => match check_case c with
              | None => mismatches_from (i + 1) r
              | Some k => (i, k) :: mismatches_from (i + 1) r
              end
  end.
Definition mismatches := mismatches_from 0.
