(** Both directions at once, part 2: the stages of [Tick] that do work for
    direction [w], run by its source (S-lemmas) or by its puller (P-lemmas). *)
From Coq Require Import Permutation ZifyN ZifyNat ZifyBool.
From VMem Require Import Pmc PmcLemmas PmcProofs PmcBi.
From RecordUpdate Require Import RecordSet.
Import RecordSetNotations.
Open Scope N_scope.

Ltac simp_s :=
  unfold Sc, Pc in *;
  repeat rewrite ?getp_setp, ?getp_setp_o, ?getp_setp_o', ?net_setp, ?getmq_setp, ?getmr_setp, ?getst_setp,
                 ?gacc_setp, ?gdone_setp, ?ndonew_setp_o, ?completedw_setp_o, ?basew_setp_o in *.
Ltac toks_same := solve [unfold toks1, toks2, toks3; simp_s; cbn; reflexivity].
Ltac kindsW HK := destruct HK; constructor; simp_s; cbn; unfold KF in *; try assumption.

Section Bi2.
Variable cf : names.
Hypothesis Hok : names_okb cf.
Notation R := (nR cf).
Notation C := (nC cf).
Notation L := (nL cf).
Notation M := (nM cf).
Notation s0 := (nS0 cf).
Notation ro := (nRO cf).
Notation OKW w := (okM (R w) (L w) (M w) (R (other w)) (L (other w)) (M (other w)) (s0 (other w))).
Notation TFW w := (TF (R w) (L w) (M w) (R (other w)) (L (other w)) (M (other w)) (s0 (other w))).
Notation INVB := (InvB cf).
Notation INVD := (InvD cf).
Notation T1 := (toks1 cf).
Notation T2 := (toks2 cf).
Notation T3 := (toks3 cf).
Notation FO := (fo cf).
Notation OWN := (own cf).

Lemma in_t1 w s m : In m (T1 w s) -> INVD w s -> exists r b, OKW w r b m.
Proof. intros Hin Hd. eapply PhaseW_ok1; eauto. apply Hd. Qed.
Lemma in_t2 w s m : In m (T2 w s) -> INVD w s -> exists r b, OKW w r b m.
Proof. intros Hin Hd. eapply PhaseW_ok2; eauto. apply Hd. Qed.

(** *** the source sends its read requests *)
Lemma S2 w s : INVB s -> INVD w (setp (other w) (fst (sendReadReqLocalMemPort (getp (other w) s))) s).
Proof.
  intros HB. pose proof (dir cf s w HB) as Hd. unfold sendReadReqLocalMemPort.
  destruct (is_nil (to_read (getp (other w) s))); [cbn; rewrite setp_same; exact Hd|].
  assert (Hv : forall x, In x (to_read (getp (other w) s)) ->
                         send_valid (MRdReq x) = true /\ OWN w (MRdReq x) = true).
  { intros x Hx. destruct (in_t1 w s (MRdReq x)) as (r & b & Hk); auto.
    { unfold toks1, Sc. repeat rewrite in_app_iff. do 5 right. left. apply in_map. auto. }
    split; [eapply (okw_valid cf Hok)|eapply (ok_own cf)]; eauto; right; right; left; eexists; eauto. }
  destruct (send_all_spec MRdReq (to_read (getp (other w) s)) (loc_out (getp (other w) s))) as (mv & kept & p & Hp & Hlen & E).
  { rewrite Forall_forall. intros; apply Hv; auto. }
  rewrite E. cbn [fst].
  assert (Hmv : FO w (map MRdReq mv) = map MRdReq mv).
  { apply fo_all. rewrite Forall_forall. intros m Hm.
    assert (Hin : In m (map MRdReq (to_read (getp (other w) s)))).
    { eapply Permutation_in; [symmetry; exact Hp|]. apply in_or_app; auto. }
    apply in_map_iff in Hin. destruct Hin as (x & <- & Hx). apply Hv; auto. }
  eapply (moveD cf w s _ [] [] (T1 w s)); [..|exact Hd]; simp_s; cbn; auto; try reflexivity; try toks_same.
  - unfold toks1. simp_s. cbn. rewrite fo_app, Hmv. perm.
  - kindsW (d_K _ _ _ Hd). rewrite fo_app, Hmv. apply Forall_app; split; auto.
    clear. induction mv; constructor; auto. eexists; eauto.
  - intros Hlt. apply (d_req _ _ _ Hd). unfold blen in *. simp_s. cbn in Hlt.
    rewrite fo_app, Hmv, app_length, map_length in Hlt. lia.
Qed.

Lemma S4 w s : INVB s -> INVD w (setp (other w) (fst (sendDataReadyRspToRequestingPMC (getp (other w) s))) s).
Proof.
  intros HB. pose proof (dir cf s w HB) as Hd. unfold sendDataReadyRspToRequestingPMC.
  destruct (is_nil (to_rsp (getp (other w) s))); [cbn; rewrite setp_same; exact Hd|].
  assert (Hv : forall x, In x (to_rsp (getp (other w) s)) ->
                         send_valid (MPullRsp x) = true /\ OWN w (MPullRsp x) = true).
  { intros x Hx. destruct (in_t1 w s (MPullRsp x)) as (r & b & Hk); auto.
    { unfold toks1, Sc. repeat rewrite in_app_iff. do 11 right. left. apply in_map. auto. }
    split; [eapply (okw_valid cf Hok)|eapply (ok_own cf)]; eauto; right; left; eexists; eauto. }
  destruct (send_all_spec MPullRsp (to_rsp (getp (other w) s)) (rem_out (getp (other w) s))) as (mv & kept & p & Hp & Hlen & E).
  { rewrite Forall_forall. intros; apply Hv; auto. }
  rewrite E. cbn [fst].
  assert (Hmv : FO w (map MPullRsp mv) = map MPullRsp mv).
  { apply fo_all. rewrite Forall_forall. intros m Hm.
    assert (Hin : In m (map MPullRsp (to_rsp (getp (other w) s)))).
    { eapply Permutation_in; [symmetry; exact Hp|]. apply in_or_app; auto. }
    apply in_map_iff in Hin. destruct Hin as (x & <- & Hx). apply Hv; auto. }
  eapply (moveD cf w s _ [] [] (T1 w s)); [..|exact Hd]; simp_s; cbn; auto; try reflexivity; try toks_same.
  - unfold toks1. simp_s. cbn. rewrite fo_app, Hmv. perm.
  - kindsW (d_K _ _ _ Hd). rewrite fo_app, Hmv. apply Forall_app; split; auto.
    clear. induction mv; constructor; auto. eexists; eauto.
  - intros Hlt. apply (d_req _ _ _ Hd). unfold blen in *. simp_s. cbn in Hlt. exact Hlt.
Qed.

Lemma S8 w s : INVB s -> INVD w (setp (other w) (fst (processFromMemCtrl (getp (other w) s))) s).
Proof.
  intros HB. pose proof (dir cf s w HB) as Hd. unfold processFromMemCtrl.
  destruct (loc_in (getp (other w) s)) as [|m rest] eqn:Er.
  { cbn. rewrite setp_same. exact Hd. }
  assert (Hcl : OWN w m = true \/ OWN (other w) m = true).
  { apply ex_cls. pose proof (ex_li cf s (other w) (b_ex _ _ HB)) as E. rewrite Er in E. inversion E; auto. }
  destruct Hcl as [Ho|Ho].
  - assert (Hm : isDR m).
    { pose proof (k_lis _ _ _ (d_K _ _ _ Hd)) as K. unfold KF, Sc in K. rewrite Er, fo_cons_own in K by auto. inversion K; auto. }
    destruct Hm as (q & ->). cbn [fst].
    eapply (moveD cf w s _ [] [] (T1 w s)); [..|exact Hd]; simp_s; cbn; auto; try reflexivity; try toks_same.
    + unfold toks1. simp_s. cbn. rewrite Er, fo_cons_own by auto. perm.
    + kindsW (d_K _ _ _ Hd). rewrite Er, fo_cons_own in k_lis by auto. eapply tail_F; eauto.
    + intros Hlt. apply (d_req _ _ _ Hd). unfold blen in *. simp_s. cbn in Hlt.
      rewrite Er, fo_cons_own by auto. rewrite app_length in Hlt. cbn [length] in *. lia.
  - assert (Hn : OWN w m = false) by (rewrite <- (other_other w); apply (own_excl cf Hok); auto).
    pose proof (dir cf s (other w) HB) as Hd'.
    assert (Hm : isWD m).
    { pose proof (k_lip _ _ _ (d_K _ _ _ Hd')) as K. unfold KF, Pc in K. rewrite Er, fo_cons_own in K by auto. inversion K; auto. }
    destruct Hm as (q & ->). cbn [fst].
    eapply frameD; [|exact Hd]. unfold SameD. simp_s. cbn. rewrite Er, fo_cons_not by auto.
    repeat split; reflexivity.
Qed.

Lemma S10 w s : INVB s -> INVD w (setp (other w) (fst (processReadPageReqFromAnotherPMC (getp (other w) s))) s).
Proof.
  intros HB. pose proof (dir cf s w HB) as Hd. unfold processReadPageReqFromAnotherPMC.
  destruct (is_nil (cur_pull (getp (other w) s))) eqn:En; [cbn; rewrite setp_same; exact Hd|].
  cbn [fst]. pose proof (cfg_of cf s (other w) HB) as (_ & _ & E3 & E4 & _).
  eapply (moveD cf w s _ (map MPullReq (cur_pull (getp (other w) s)))
            (map MRdReq (map (mk_read (getp (other w) s)) (cur_pull (getp (other w) s))))
            (map MPullReq (to_pull (getp w s)) ++ FO w (rem_out (getp w s)) ++ FO w (net s) ++
             FO w (rem_in (getp (other w) s)) ++ map MRdReq (to_read (getp (other w) s)) ++
             FO w (loc_out (getp (other w) s)) ++ FO w (getmq (other w) s) ++ FO w (getmr (other w) s) ++
             FO w (loc_in (getp (other w) s)) ++ map MDReady (data_ready (getp (other w) s)) ++
             map MPullRsp (to_rsp (getp (other w) s)) ++ FO w (rem_out (getp (other w) s)) ++
             FO w (rem_in (getp w s)) ++ map MPullRsp (recv_data (getp w s))));
    [..|exact Hd]; simp_s; cbn; auto; try reflexivity; try toks_same.
  - unfold toks1. simp_s. perm.
  - unfold toks1. simp_s. cbn. perm.
  - intros r b. clear En. induction (cur_pull (getp (other w) s)) as [|q l IH]; cbn [map]; constructor; auto.
    split; [reflexivity|]. intros (i & Hi & ->). exists i. split; auto.
    unfold mk_read. cbn. rewrite E3, E4. reflexivity.
  - kindsW (d_K _ _ _ Hd).
  - intros Hlt. apply (d_req _ _ _ Hd). unfold blen in *. simp_s. cbn in Hlt.
    rewrite app_length, map_length in Hlt. cbn [length] in *. lia.
Qed.

Lemma S11 w s : INVB s -> INVD w (setp (other w) (fst (processDataReadyRspFromMemCtrl (getp (other w) s))) s).
Proof.
  intros HB. pose proof (dir cf s w HB) as Hd. unfold processDataReadyRspFromMemCtrl.
  destruct (is_nil (data_ready (getp (other w) s))) eqn:En; [cbn; rewrite setp_same; exact Hd|].
  assert (Hreq : requester (getp (other w) s) = R w).
  { apply (d_req _ _ _ Hd). unfold blen, Sc. destruct (data_ready (getp (other w) s)); [discriminate|]. cbn [length]. lia. }
  cbn [fst]. pose proof (cfg_of cf s (other w) HB) as (E1 & _).
  eapply (moveD cf w s _ (map MDReady (data_ready (getp (other w) s)))
            (map MPullRsp (map (mk_rsp (getp (other w) s)) (data_ready (getp (other w) s))))
            (map MPullReq (to_pull (getp w s)) ++ FO w (rem_out (getp w s)) ++ FO w (net s) ++
             FO w (rem_in (getp (other w) s)) ++ map MPullReq (cur_pull (getp (other w) s)) ++
             map MRdReq (to_read (getp (other w) s)) ++
             FO w (loc_out (getp (other w) s)) ++ FO w (getmq (other w) s) ++ FO w (getmr (other w) s) ++
             FO w (loc_in (getp (other w) s)) ++
             map MPullRsp (to_rsp (getp (other w) s)) ++ FO w (rem_out (getp (other w) s)) ++
             FO w (rem_in (getp w s)) ++ map MPullRsp (recv_data (getp w s))));
    [..|exact Hd]; simp_s; cbn; auto; try reflexivity; try toks_same.
  - unfold toks1. simp_s. perm.
  - unfold toks1. simp_s. cbn. perm.
  - intros r b. clear En. induction (data_ready (getp (other w) s)) as [|q l IH]; cbn [map]; constructor; auto.
    split; [reflexivity|]. intros (i & Hi & E5 & E6). exists i. split; auto.
    unfold mk_rsp. rewrite E1, Hreq, E5, E6. reflexivity.
  - kindsW (d_K _ _ _ Hd).
Qed.

(** *** the puller's own stages *)
Lemma P1 w s : INVB s -> INVD w (setp w (fst (sendMigrationReqToAnotherPMC (getp w s))) s).
Proof.
  intros HB. pose proof (dir cf s w HB) as Hd. unfold sendMigrationReqToAnotherPMC.
  destruct (is_nil (to_pull (getp w s))); [cbn; rewrite setp_same; exact Hd|].
  assert (Hv : forall x, In x (to_pull (getp w s)) -> send_valid (MPullReq x) = true /\ OWN w (MPullReq x) = true).
  { intros x Hx. destruct (in_t1 w s (MPullReq x)) as (r & b & Hk); auto.
    { unfold toks1, Pc. repeat rewrite in_app_iff. left. apply in_map. auto. }
    split; [eapply (okw_valid cf Hok)|eapply (ok_own cf)]; eauto; left; eexists; eauto. }
  destruct (send_all_spec MPullReq (to_pull (getp w s)) (rem_out (getp w s))) as (mv & kept & p & Hp & Hlen & E).
  { rewrite Forall_forall. intros; apply Hv; auto. }
  rewrite E. cbn [fst].
  assert (Hmv : FO w (map MPullReq mv) = map MPullReq mv).
  { apply fo_all. rewrite Forall_forall. intros m Hm.
    assert (Hin : In m (map MPullReq (to_pull (getp w s)))).
    { eapply Permutation_in; [symmetry; exact Hp|]. apply in_or_app; auto. }
    apply in_map_iff in Hin. destruct Hin as (x & <- & Hx). apply Hv; auto. }
  eapply (moveD cf w s _ [] [] (T1 w s)); [..|exact Hd]; simp_s; cbn; auto; try reflexivity; try toks_same.
  - unfold toks1. simp_s. cbn. rewrite fo_app, Hmv. perm.
  - kindsW (d_K _ _ _ Hd). rewrite fo_app, Hmv. apply Forall_app; split; auto.
    clear. induction mv; constructor; auto. eexists; eauto.
  - intros Hlt. apply (d_req _ _ _ Hd). unfold blen in *. simp_s. exact Hlt.
Qed.

Lemma P5 w s : INVB s -> INVD w (setp w (fst (sendWriteReqLocalMemPort (getp w s))) s).
Proof.
  intros HB. pose proof (dir cf s w HB) as Hd. unfold sendWriteReqLocalMemPort.
  assert (Hv : forall x, In x (write_reqs (getp w s)) -> send_valid (MWrReq x) = true /\ OWN w (MWrReq x) = true).
  { intros x Hx. destruct (in_t2 w s (MWrReq x)) as (r & b & Hk); auto.
    { unfold toks2, Pc. repeat rewrite in_app_iff. left. apply in_map. auto. }
    split; [eapply (okw_valid cf Hok)|eapply (ok_own cf)]; eauto; right; right; right; eexists; eauto. }
  destruct (send_all_spec MWrReq (write_reqs (getp w s)) (loc_out (getp w s))) as (mv & kept & p & Hp & Hlen & E).
  { rewrite Forall_forall. intros; apply Hv; auto. }
  rewrite E. cbn [fst].
  assert (Hmv : FO w (map MWrReq mv) = map MWrReq mv).
  { apply fo_all. rewrite Forall_forall. intros m Hm.
    assert (Hin : In m (map MWrReq (write_reqs (getp w s)))).
    { eapply Permutation_in; [symmetry; exact Hp|]. apply in_or_app; auto. }
    apply in_map_iff in Hin. destruct Hin as (x & <- & Hx). apply Hv; auto. }
  eapply (moveD cf w s _ [] [] (T1 w s)); [..|exact Hd]; simp_s; cbn; auto; try reflexivity; try toks_same.
  - unfold toks2. simp_s. cbn. rewrite fo_app, Hmv. perm.
  - kindsW (d_K _ _ _ Hd). rewrite fo_app, Hmv. apply Forall_app; split; auto.
    clear. induction mv; constructor; auto. eexists; eauto.
  - intros Hlt. apply (d_req _ _ _ Hd). unfold blen in *. simp_s. exact Hlt.
Qed.

Lemma P6 w s : INVB s -> INVD w (setp w (fst (processFromOutside (getp w s))) s).
Proof.
  intros HB. pose proof (dir cf s w HB) as Hd. unfold processFromOutside.
  destruct (rem_in (getp w s)) as [|m rest] eqn:Er.
  { cbn. rewrite setp_same. exact Hd. }
  assert (Hcl : OWN w m = true \/ OWN (other w) m = true).
  { apply ex_cls. pose proof (ex_ri cf s w (b_ex _ _ HB)) as E. rewrite Er in E. inversion E; auto. }
  destruct Hcl as [Ho|Ho].
  - assert (Hm : isPR m).
    { pose proof (k_rip _ _ _ (d_K _ _ _ Hd)) as K. unfold KF, Pc in K. rewrite Er, fo_cons_own in K by auto. inversion K; auto. }
    destruct Hm as (q & ->). cbn [fst].
    eapply (moveD cf w s _ [] [] (T1 w s)); [..|exact Hd]; simp_s; cbn; auto; try reflexivity; try toks_same.
    + unfold toks1. simp_s. cbn. rewrite Er, fo_cons_own by auto. perm.
    + kindsW (d_K _ _ _ Hd). rewrite Er, fo_cons_own in k_rip by auto. eapply tail_F; eauto.
    + intros Hlt. apply (d_req _ _ _ Hd). unfold blen in *. simp_s. exact Hlt.
  - assert (Hn : OWN w m = false) by (rewrite <- (other_other w); apply (own_excl cf Hok); auto).
    pose proof (dir cf s (other w) HB) as Hd'.
    assert (Hm : isPQ m).
    { pose proof (k_ris _ _ _ (d_K _ _ _ Hd')) as K. unfold KF, Sc in K. rewrite other_other, Er, fo_cons_own in K by auto. inversion K; auto. }
    destruct Hm as (q & ->). cbn [fst].
    eapply frameD; [|exact Hd]. unfold SameD. simp_s. cbn. rewrite Er, fo_cons_not by auto.
    repeat split; reflexivity.
Qed.

Lemma P8 w s : INVB s -> recv_wdone (getp w s) = None ->
  INVD w (setp w (fst (processFromMemCtrl (getp w s))) s).
Proof.
  intros HB Hnone. pose proof (dir cf s w HB) as Hd. unfold processFromMemCtrl.
  destruct (loc_in (getp w s)) as [|m rest] eqn:Er.
  { cbn. rewrite setp_same. exact Hd. }
  assert (Hcl : OWN w m = true \/ OWN (other w) m = true).
  { apply ex_cls. pose proof (ex_li cf s w (b_ex _ _ HB)) as E. rewrite Er in E. inversion E; auto. }
  destruct Hcl as [Ho|Ho].
  - assert (Hm : isWD m).
    { pose proof (k_lip _ _ _ (d_K _ _ _ Hd)) as K. unfold KF, Pc in K. rewrite Er, fo_cons_own in K by auto. inversion K; auto. }
    destruct Hm as (q & ->). cbn [fst].
    eapply (moveD cf w s _ [] [] (T1 w s)); [..|exact Hd]; simp_s; cbn; auto; try reflexivity; try toks_same.
    + unfold toks3. simp_s. cbn. rewrite Er, Hnone, fo_cons_own by auto. cbn. perm.
    + kindsW (d_K _ _ _ Hd). rewrite Er, fo_cons_own in k_lip by auto. eapply tail_F; eauto.
    + intros Hlt. apply (d_req _ _ _ Hd). unfold blen in *. simp_s. exact Hlt.
  - assert (Hn : OWN w m = false) by (rewrite <- (other_other w); apply (own_excl cf Hok); auto).
    pose proof (dir cf s (other w) HB) as Hd'.
    assert (Hm : isDR m).
    { pose proof (k_lis _ _ _ (d_K _ _ _ Hd')) as K. unfold KF, Sc in K. rewrite other_other, Er, fo_cons_own in K by auto. inversion K; auto. }
    destruct Hm as (q & ->). cbn [fst].
    eapply frameD; [|exact Hd]. unfold SameD. simp_s. cbn. rewrite Er, fo_cons_not by auto.
    repeat split; reflexivity.
Qed.

Lemma phasew_to_ctrl w s r : PhaseW cf w s -> to_ctrl (Pc w s) = Some r ->
  cur_mig (Pc w s) = None /\ handling (Pc w s) = true /\ NoTokW cf w s.
Proof.
  unfold PhaseW. intros H E. rewrite E in H.
  destruct (cur_mig (Pc w s)), (handling (Pc w s)); tauto.
Qed.

Lemma phasew_tf w s : PhaseW cf w s -> (T1 w s <> [] \/ T2 w s <> [] \/ T3 w s <> []) ->
  exists r b, cur_mig (Pc w s) = Some r /\ handling (Pc w s) = true /\ to_ctrl (Pc w s) = None /\
    TFW w r b (T1 w s) (T2 w s) (T3 w s) (idmap (Pc w s)) (num_pending (Pc w s)) (getst w s) (basew cf w s).
Proof.
  unfold PhaseW. intros H Hne.
  assert (HN : NoTokW cf w s -> False) by (intros (A1 & A2 & A3 & _); tauto).
  destruct (cur_mig (Pc w s)) as [r|], (handling (Pc w s)), (to_ctrl (Pc w s)); try tauto.
  destruct H as (b & H). eauto 10.
Qed.

Lemma P3 w s : INVB s -> INVD w (setp w (fst (sendMigrationCompleteRspToCtrlPort (getp w s))) s).
Proof.
  intros HB. pose proof (dir cf s w HB) as Hd. unfold sendMigrationCompleteRspToCtrlPort.
  case_eq (to_ctrl (getp w s)); [intros r Etc|intros Etc; cbn; rewrite setp_same; exact Hd].
  destruct (phasew_to_ctrl w s r (d_phase _ _ _ Hd) Etc) as (Ecm & Eh & HN).
  assert (Hv : send_valid (MMigRsp r) = true).
  { assert (Hin : In (MMigRsp r) (map (rspw cf w) (completedw w s))).
    { rewrite <- (d_rsp _ _ _ Hd). unfold Pc. rewrite Etc. cbn. repeat rewrite in_app_iff. cbn. tauto. }
    apply in_map_iff in Hin. destruct Hin as (q & Eq & Hq). apply firstn_incl in Hq.
    pose proof (d_wf _ _ _ Hd) as Hw. rewrite Forall_forall in Hw. destruct (Hw q Hq) as (_ & _ & W1 & W2 & _).
    inversion Eq; subst r. unfold send_valid; cbn. apply valid_neq; auto. }
  rewrite Hv. cbn [negb].
  case_eq (can_push (ctl_out (getp w s))); intros Ecp; [|cbn; rewrite setp_same; exact Hd].
  cbn [fst].
  match goal with |- InvD _ _ ?s1 =>
    assert (Hnd : ndonew w s1 = ndonew w s) by (rewrite ndonew_setp; unfold ndonew, Pc; cbn; rewrite Etc, app_length; cbn; lia);
    assert (Hc : completedw w s1 = completedw w s) by (unfold completedw; rewrite Hnd, gacc_setp; reflexivity);
    assert (Hb : basew cf w s1 = basew cf w s) by (unfold basew; rewrite Hc; reflexivity)
  end.
  destruct Hd as [HK Hreq Hq Hnd' Hrsp Hwf Hro Hph].
  constructor; try rewrite Hnd; try rewrite Hc; simp_s; cbn; auto.
  - kindsW HK.
  - intros Hlt. apply Hreq. unfold blen in *. simp_s. exact Hlt.
  - destruct Hq as (wt & E1 & E2). rewrite Ecm in E2. exists wt. auto.
  - rewrite <- Hrsp, Etc. cbn. rewrite ?app_nil_r, <- ?app_assoc. reflexivity.
  - unfold PhaseW. simp_s. cbn. destruct HN as (A1 & A2 & A3 & Hnp & Hst). unfold NoTokW. rewrite Hb.
    unfold toks1, toks2, toks3 in *. simp_s. cbn. repeat split; auto.
Qed.

Lemma P7 w s : INVB s -> (handling (getp w s) = false -> cur_mig (getp w s) = None) ->
  INVD w (setp w (fst (processFromCtrlPort (getp w s))) s).
Proof.
  intros HB HQ. pose proof (dir cf s w HB) as Hd. unfold processFromCtrlPort.
  case_eq (handling (getp w s)); intros Eh; [cbn; rewrite setp_same; exact Hd|].
  specialize (HQ Eh).
  destruct (d_queue _ _ _ Hd) as (wt & Ew & Eq). unfold Pc in Ew, Eq.
  destruct wt as [|r wt].
  { rewrite Ew. cbn. rewrite setp_same. exact Hd. }
  rewrite Ew. cbn [map fst].
  match goal with |- InvD _ _ ?s1 =>
    assert (Hnd : ndonew w s1 = ndonew w s) by (rewrite ndonew_setp; reflexivity);
    assert (Hc : completedw w s1 = completedw w s) by (unfold completedw; rewrite Hnd, gacc_setp; reflexivity);
    assert (Hb : basew cf w s1 = basew cf w s) by (unfold basew; rewrite Hc; reflexivity)
  end.
  destruct Hd as [HK Hreq Hq Hnd' Hrsp Hwf Hro Hph].
  constructor; try rewrite Hnd; try rewrite Hc; simp_s; cbn; auto.
  - kindsW HK.
  - intros Hlt. apply Hreq. unfold blen in *. simp_s. exact Hlt.
  - exists wt. split; [reflexivity|]. rewrite Eq, HQ. reflexivity.
  - unfold PhaseW in *. simp_s. cbn. rewrite HQ, Eh in Hph. rewrite Eh.
    destruct (to_ctrl (getp w s)); [tauto|].
    destruct Hph as (A1 & A2 & A3 & Hnp & Hst). unfold NoTokW. rewrite Hb.
    unfold toks1, toks2, toks3 in *. simp_s. cbn. repeat split; auto.
Qed.

End Bi2.
